(* C08 -- Waiting primitives wake exactly on notification (local lemmas + refutations).
   Statements restated in full, closed with exact, assumptions printed. *)
Require Import LV.Base LV.VV LV.VVFacts LV.Path LV.PathSpec LV.Prog LV.Objects LV.Exec LV.Atomic LV.Ops LV.Check LV.Ref LV.Outcome LV.Witness LV.SyncFacts LV.CheckFacts LV.ExecFacts LV.SyncMono.

(* Notify::wait / join complete only with the flag set, consume it, and acquire the notifier's clock *)
Theorem C08_wait_needs_flag :
  forall (e : exec) (me n : nat) (s : notify_state) (e' : exec),
       get_notify e n = Some s ->
       exec_micro e me (MNotifyWait2 n) = MOk e' ->
       me < length (e_threads e) ->
       nt_notified s = true /\
       vle (nt_sync s) (caus_of e' me) /\
       vle (caus_of e me) (caus_of e' me) /\
       (exists s' : notify_state,
          get_notify e' n = Some s' /\ nt_notified s' = false /\ nt_sync s' = nt_sync s).
Proof. exact notify_wait2_acquires. Qed.
Print Assumptions C08_wait_needs_flag.

(* reaching the post-action without the flag is exactly loom's internal assertion (the D5 symptom) *)
Theorem C08_wait_without_flag_panics :
  forall (e : exec) (me n : nat) (s : notify_state),
       get_notify e n = Some s ->
       (exists e' : exec, exec_micro e me (MNotifyWait2 n) = MFail e' PanicNotified) <->
       nt_notified s = false.
Proof. exact notify_wait2_fails_iff. Qed.
Print Assumptions C08_wait_without_flag_panics.

(* notify sets the flag and publishes the notifier's clock *)
Theorem C08_notify_publishes :
  forall (e : exec) (me n : nat) (s : notify_state) (e' : exec),
       get_notify e n = Some s ->
       exec_micro e me (MNotifyPost n) = MOk e' ->
       exists s' : notify_state,
         get_notify e' n = Some s' /\
         vle (caus_of e me) (nt_sync s') /\ vle (nt_sync s) (nt_sync s') /\ nt_notified s' = true.
Proof. exact notify_post_publishes. Qed.
Print Assumptions C08_notify_publishes.

(* the notifier's prior writes happen-before the woken thread's continuation *)
Theorem C08_notify_handover :
  forall (e : exec) (a n : nat) (s : notify_state) (e1 : exec) (s1 : notify_state) 
         (e2 : exec) (b : nat) (s2 : notify_state) (e3 : exec),
       get_notify e n = Some s ->
       exec_micro e a (MNotifyPost n) = MOk e1 ->
       get_notify e1 n = Some s1 ->
       get_notify e2 n = Some s2 ->
       vle (nt_sync s1) (nt_sync s2) ->
       b < length (e_threads e2) ->
       exec_micro e2 b (MNotifyWait2 n) = MOk e3 -> vle (caus_of e a) (caus_of e3 b).
Proof. exact notify_handover. Qed.
Print Assumptions C08_notify_handover.

(* unpark joins the unparker's clock into the target and leaves every other thread alone *)
Theorem C08_unpark_transfers :
  forall (e : exec) (me id : nat),
       id <> me ->
       id < length (e_threads e) ->
       let e' := threads_unpark e me id in
       vle (caus_of e me) (caus_of e' id) /\
       vle (caus_of e id) (caus_of e' id) /\
       caus_of e' id = vv_join (caus_of e id) (caus_of e me) /\
       (forall j : nat, j <> id -> caus_of e' j = caus_of e j).
Proof. exact threads_unpark_transfers. Qed.
Print Assumptions C08_unpark_transfers.

(* GLOBAL: a notification happens-before the wake-up that consumes it, whatever happens in between *)
Theorem C08_notify_handover_global :
  forall (e : exec) (a n : nat) (e1 e2 : exec) (b : nat) (e3 : exec),
       exec_micro e a (MNotifyPost n) = MOk e1 ->
       steps e1 e2 ->
       b < length (e_threads e2) ->
       exec_micro e2 b (MNotifyWait2 n) = MOk e3 -> vle (caus_of e a) (caus_of e3 b).
Proof. exact notify_handover_global. Qed.
Print Assumptions C08_notify_handover_global.

(* D5 (repaired): unpark of a thread blocked in join stores a token instead of waking it *)
Theorem C08_D5_repaired :
  fin_of p_D5 = RunOk /\
       ref_can_deadlock (ref_outcomes false FUEL p_D5) = false /\
       existsb (fun o : routcome => match o with
                                    | OPanic => true
                                    | _ => false
                                    end) (ref_outcomes false FUEL p_D5) = false.
Proof. exact D5_repaired. Qed.
Print Assumptions C08_D5_repaired.

(* D11 (repaired): the park token is not lost when the thread blocks on / is woken by a lock *)
Theorem C08_D11_repaired :
  fin_of p_D11 = RunOk /\ ref_can_deadlock (ref_outcomes false FUEL p_D11) = false.
Proof. exact D11_repaired. Qed.
Print Assumptions C08_D11_repaired.

(* D14: park/unpark are not scheduling points *)
Theorem C08_refuted_D14 :
  ref_can_deadlock (ref_outcomes false FUEL p_D14) = true /\
       run_reports_deadlock (fin_of p_D14) = false /\ fin_of p_D14 = RunOk.
Proof. exact D14_deadlock_missed. Qed.
Print Assumptions C08_refuted_D14.

(* ==== appended by tools/mkprops.py (APPEND table) ==== *)

Require Import LV.Base LV.VV LV.VVFacts LV.Path LV.PathSpec LV.PathTerm LV.PathDistinct LV.PathApi LV.Prog LV.Objects LV.Exec LV.Atomic LV.Ops LV.Check LV.NotifyFacts.

(* Global persistence of notifications (NotifyFacts.v) *)
(* GLOBAL: a notification is never lost: after notify, over any steps of any threads, the wait proceeds and acquires the notifier's clock *)
Theorem C08_no_lost_wakeup :
  forall (e : exec) (a n : nat) (e1 e2 : exec) (b : nat) (e3 e4 : exec),
       SyncMono.track_ok e ->
       exec_micro e a (MNotifyPost n) = MOk e1 ->
       steps_without_wait2 n e1 e2 ->
       exec_micro e2 b (MNotifyWait1 n) = MOk e3 ->
       steps_without_wait2 n e3 e4 ->
       exists e5 : exec,
         exec_micro e4 b (MNotifyWait2 n) = MOk e5 /\
         (forall (e' : exec) (pn : panic), exec_micro e4 b (MNotifyWait2 n) <> MFail e' pn) /\
         (b < length (e_threads e4) -> vle (caus_of e a) (caus_of e5 b)).
Proof. exact no_lost_wakeup. Qed.
Print Assumptions C08_no_lost_wakeup.

(* a blocked waiter is not resumed by anything but a notify on its object *)
Theorem C08_blocked_waiter_stays :
  forall (b n : nat) (e : exec) (me : nat) (m : micro) (e' : exec) 
         (s : notify_state) (t : thread),
       SyncMono.track_ok e ->
       get_notify e n = Some s ->
       get_thread e b = Some t ->
       t_state t = Blocked ->
       pending_on n t = true ->
       me <> b ->
       m <> MNotifyPost n ->
       exec_micro e me m = MOk e' ->
       exists t' : thread,
         get_thread e' b = Some t' /\ t_state t' = Blocked /\ pending_on n t' = true.
Proof. exact blocked_waiter_stays. Qed.
Print Assumptions C08_blocked_waiter_stays.

(* at most one spurious return per Notify *)
Theorem C08_spurious_at_most_once :
  forall (e : exec) (b n : nat) (s : notify_state) (p : path) (e3 e4 : exec) (b' : nat),
       SyncMono.track_ok e ->
       get_notify e n = Some s ->
       nt_spurious s && negb (nt_did_spur s) = true ->
       branch_spurious (e_path e) = POk (p, true) ->
       exec_micro e b (MNotifyWait1 n) = MOk e3 ->
       any_steps e3 e4 ->
       exists s4 : notify_state,
         get_notify e4 n = Some s4 /\
         nt_did_spur s4 = true /\
         exec_micro e4 b' (MNotifyWait1 n) = MOk (push_cont e4 b' (wait1_cont n s4)).
Proof. exact spurious_at_most_once. Qed.
Print Assumptions C08_spurious_at_most_once.

