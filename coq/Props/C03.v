(* C03 -- Every explored execution is consistent with the C11 memory model. D4 (RMW atomicity) was a genuine defect, repaired by fix commit 189e88b; proved: loom transfers at least the clocks C11 demands; the D4 litmus outcome is forbidden by RC11 and no longer explored.
   Statements restated in full, closed with exact, assumptions printed. *)
Require Import LV.Base LV.VV LV.VVFacts LV.Path LV.Prog LV.Objects LV.Exec LV.Atomic LV.Ops LV.Check LV.Ref LV.Outcome LV.RC11 LV.Witness LV.SyncFacts.

(* D4 (repaired): the outcome forbidden by RC11 (even with SeqCst demoted and C++20 release sequences) is no longer explored by the model of the repaired code *)
Theorem C03_D4_repaired_rmw_atomicity :
  rc11_allows false true (fun _ : nat => 0%N) litmus_D4 (S (rc11_enough_fuel litmus_D4))
         [[0%N; 2%N]; [0%N; 2%N]] = false /\
       rc11_allows true false (fun _ : nat => 0%N) litmus_D4 (S (rc11_enough_fuel litmus_D4))
         [[0%N; 2%N]; [0%N; 2%N]] = false /\
       fin_of p_D4 = RunOk /\ mem_outcome o_D4 (explored p_D4 (recs_of p_D4)) = false.
Proof. exact D4_repaired. Qed.
Print Assumptions C03_D4_repaired_rmw_atomicity.

(* a release store read by an acquire load makes everything before the store happen-before everything after the load *)
Theorem C03_release_acquire_handover :
  forall (s : atomic_state) (me : nat) (caus rel sync0 : vv) (v : N) 
         (o : ord) (s2 : atomic_state) (me2 : nat) (caus2 : vv) (o2 : ord) 
         (s3 : atomic_state) (caus3 : vv) (v3 : N),
       Atomic.ord_rel o = true ->
       length (at_stores s) = MAX_ATOMIC_HISTORY ->
       let idx := aindex (at_cnt s) in
       vle (st_sync (get_store (atomic_store s me caus rel sync0 v o) idx))
         (st_sync (get_store s2 idx)) ->
       atomic_load s2 me2 caus2 idx o2 = inl (s3, caus3, v3) ->
       Atomic.ord_acq o2 = true -> vle caus caus3.
Proof. exact atomic_handover. Qed.
Print Assumptions C03_release_acquire_handover.

(* an acquire load joins the view published by the store it reads and returns that store's value *)
Theorem C03_acquire_load_acquires :
  forall (s : atomic_state) (me : nat) (caus : vv) (idx : nat) (o : ord) 
         (s' : atomic_state) (caus' : vv) (v : N),
       atomic_load s me caus idx o = inl (s', caus', v) ->
       Atomic.ord_acq o = true ->
       vle (st_sync (get_store s idx)) caus' /\ vle caus caus' /\ v = st_value (get_store s idx).
Proof. exact atomic_load_acquires. Qed.
Print Assumptions C03_acquire_load_acquires.

(* a release store publishes the storing thread's clock *)
Theorem C03_release_store_publishes :
  forall (s : atomic_state) (me : nat) (caus rel sync0 : vv) (v : N) (o : ord),
       Atomic.ord_rel o = true ->
       length (at_stores s) = MAX_ATOMIC_HISTORY ->
       let s' := atomic_store s me caus rel sync0 v o in
       vle caus (st_sync (get_store s' (aindex (at_cnt s)))) /\
       st_value (get_store s' (aindex (at_cnt s))) = v /\ at_cnt s' = S (at_cnt s).
Proof. exact atomic_store_publishes. Qed.
Print Assumptions C03_release_store_publishes.

(* an RMW continues the release sequence of the store it reads from: its own view dominates that store's view *)
Theorem C03_rmw_release_sequence :
  forall (s : atomic_state) (me : nat) (caus rel : vv) (idx : nat) 
         (so fo : ord) (f : N -> option N) (s' : atomic_state) (caus' : vv) 
         (prev : N),
       atomic_rmw s me caus rel idx so fo f = inl (s', caus', prev, true) ->
       length (at_stores s) = MAX_ATOMIC_HISTORY ->
       let new := get_store s' (aindex (at_cnt s)) in
       vle (st_sync (get_store s idx)) (st_sync new) /\
       vle rel (st_sync new) /\
       (Atomic.ord_rel so = true -> vle caus' (st_sync new)) /\
       vle caus caus' /\
       (Atomic.ord_acq so = true -> vle (st_sync (get_store s idx)) caus') /\
       (Atomic.ord_acq so = false -> caus' = caus) /\
       prev = st_value (get_store s idx) /\
       f prev = Some (st_value new) /\ at_cnt s' = S (at_cnt s).
Proof. exact atomic_rmw_release_sequence. Qed.
Print Assumptions C03_rmw_release_sequence.

(* join is the least upper bound of the clock order *)
Theorem C03_vle_join_lub :
  forall a b c : vv, vle a c -> vle b c -> vle (vv_join a b) c.
Proof. exact vle_join_lub. Qed.
Print Assumptions C03_vle_join_lub.
