(* C03 -- Every explored execution is consistent with the C11 memory model. D4 (RMW atomicity) was a genuine defect, repaired by fix commit 189e88b; proved: loom transfers at least the clocks C11 demands; the D4 litmus outcome is forbidden by RC11 and no longer explored.
   Statements restated in full, closed with exact, assumptions printed. *)
Require Import LV.Base LV.VV LV.VVFacts LV.Path LV.Prog LV.Objects LV.Exec LV.Atomic LV.Ops LV.Check LV.Ref LV.Outcome LV.RC11 LV.Witness LV.SyncFacts.

(* D4 (repaired): the outcome forbidden by RC11 (even with SeqCst demoted and C++20 release sequences) is no longer explored by the model of the repaired code *)
Theorem C03_D4_repaired_rmw_atomicity :
  rc11_allows false true (fun _ : nat => 0%N) litmus_D4 (S (rc11_enough_fuel litmus_D4))
         [[0%N; 2%N]; [0%N; 2%N]] = false /\
       rc11_allows true false (fun _ : nat => 0%N) litmus_D4 (S (rc11_enough_fuel litmus_D4))
         [[0%N; 2%N]; [0%N; 2%N]] = false /\
       fin_of p_D4 = RunOk /\ mem_outcome o_D4 (explored p_D4 (recs_of p_D4)) = false.
Proof. exact D4_repaired. Qed.
Print Assumptions C03_D4_repaired_rmw_atomicity.

(* a release store read by an acquire load makes everything before the store happen-before everything after the load *)
Theorem C03_release_acquire_handover :
  forall (s : atomic_state) (me : nat) (caus rel sync0 : vv) (v : N) 
         (o : ord) (s2 : atomic_state) (me2 : nat) (caus2 : vv) (o2 : ord) 
         (s3 : atomic_state) (caus3 : vv) (v3 : N),
       Atomic.ord_rel o = true ->
       length (at_stores s) = MAX_ATOMIC_HISTORY ->
       let idx := aindex (at_cnt s) in
       vle (st_sync (get_store (atomic_store s me caus rel sync0 v o) idx))
         (st_sync (get_store s2 idx)) ->
       atomic_load s2 me2 caus2 idx o2 = inl (s3, caus3, v3) ->
       Atomic.ord_acq o2 = true -> vle caus caus3.
Proof. exact atomic_handover. Qed.
Print Assumptions C03_release_acquire_handover.

(* an acquire load joins the view published by the store it reads and returns that store's value *)
Theorem C03_acquire_load_acquires :
  forall (s : atomic_state) (me : nat) (caus : vv) (idx : nat) (o : ord) 
         (s' : atomic_state) (caus' : vv) (v : N),
       atomic_load s me caus idx o = inl (s', caus', v) ->
       Atomic.ord_acq o = true ->
       vle (st_sync (get_store s idx)) caus' /\ vle caus caus' /\ v = st_value (get_store s idx).
Proof. exact atomic_load_acquires. Qed.
Print Assumptions C03_acquire_load_acquires.

(* a release store publishes the storing thread's clock *)
Theorem C03_release_store_publishes :
  forall (s : atomic_state) (me : nat) (caus rel sync0 : vv) (v : N) (o : ord),
       Atomic.ord_rel o = true ->
       length (at_stores s) = MAX_ATOMIC_HISTORY ->
       let s' := atomic_store s me caus rel sync0 v o in
       vle caus (st_sync (get_store s' (aindex (at_cnt s)))) /\
       st_value (get_store s' (aindex (at_cnt s))) = v /\ at_cnt s' = S (at_cnt s).
Proof. exact atomic_store_publishes. Qed.
Print Assumptions C03_release_store_publishes.

(* an RMW continues the release sequence of the store it reads from: its own view dominates that store's view *)
Theorem C03_rmw_release_sequence :
  forall (s : atomic_state) (me : nat) (caus rel : vv) (idx : nat) 
         (so fo : ord) (f : N -> option N) (s' : atomic_state) (caus' : vv) 
         (prev : N),
       atomic_rmw s me caus rel idx so fo f = inl (s', caus', prev, true) ->
       length (at_stores s) = MAX_ATOMIC_HISTORY ->
       let new := get_store s' (aindex (at_cnt s)) in
       vle (st_sync (get_store s idx)) (st_sync new) /\
       vle rel (st_sync new) /\
       (Atomic.ord_rel so = true -> vle caus' (st_sync new)) /\
       vle caus caus' /\
       (Atomic.ord_acq so = true -> vle (st_sync (get_store s idx)) caus') /\
       (Atomic.ord_acq so = false -> caus' = caus) /\
       prev = st_value (get_store s idx) /\
       f prev = Some (st_value new) /\ at_cnt s' = S (at_cnt s).
Proof. exact atomic_rmw_release_sequence. Qed.
Print Assumptions C03_rmw_release_sequence.

(* join is the least upper bound of the clock order *)
Theorem C03_vle_join_lub :
  forall a b c : vv, vle a c -> vle b c -> vle (vv_join a b) c.
Proof. exact vle_join_lub. Qed.
Print Assumptions C03_vle_join_lub.

(* ==== appended by tools/mkprops.py (APPEND table) ==== *)

Require Import LV.Base LV.VV LV.VVFacts LV.Path LV.PathSpec LV.PathTerm LV.PathDistinct LV.PathApi LV.Prog LV.Objects LV.Exec LV.Atomic LV.Ops LV.Check LV.AtomicFacts LV.AtomicCoherence.

(* Exact characterisation of the candidate sets of loads and RMWs, for arbitrary states and any number of threads (AtomicCoherence.v) *)
(* a ring slot is a load candidate iff it is live and no live store that is later in modification order is already seen by the thread / excluded by the yield or SeqCst rule *)
Theorem C03_load_candidates_spec :
  forall (s : atomic_state) (me : nat) (caus : vv) (ly : option nat) (o : ord) (l : list nat),
       match_load_to_stores s me caus ly o = Some l ->
       forall i : nat,
       In i l <->
       i < MAX_ATOMIC_HISTORY /\
       i < at_cnt s /\
       (forall j : nat,
        j < MAX_ATOMIC_HISTORY ->
        j < at_cnt s ->
        j <> i ->
        vv_lt (st_mo (get_store s i)) (st_mo (get_store s j)) = true ->
        is_seen_by_current (st_seen (get_store s j)) caus = false /\
        is_seen_before_yield (st_seen (get_store s i)) me ly = false /\
        is_seq_cst o && st_seqcst (get_store s i) && st_seqcst (get_store s j) = false).
Proof. exact load_candidates_spec. Qed.
Print Assumptions C03_load_candidates_spec.

(* CoWR / CoRR: a thread never reads a store that is mo-before a store it has already observed *)
Theorem C03_coherence_write_read :
  forall (s : atomic_state) (me : nat) (caus : vv) (ly : option nat) 
         (o : ord) (l : list nat) (i j : nat),
       match_load_to_stores s me caus ly o = Some l ->
       j < MAX_ATOMIC_HISTORY ->
       j < at_cnt s ->
       vv_lt (st_mo (get_store s i)) (st_mo (get_store s j)) = true ->
       is_seen_by_current (st_seen (get_store s j)) caus = true -> ~ In i l.
Proof. exact coherence_write_read. Qed.
Print Assumptions C03_coherence_write_read.

(* a SeqCst load never reads a SeqCst store that is mo-before another SeqCst store *)
Theorem C03_coherence_seq_cst :
  forall (s : atomic_state) (me : nat) (caus : vv) (ly : option nat) 
         (l : list nat) (i j : nat),
       match_load_to_stores s me caus ly SeqCst = Some l ->
       j < MAX_ATOMIC_HISTORY ->
       j < at_cnt s ->
       vv_lt (st_mo (get_store s i)) (st_mo (get_store s j)) = true ->
       st_seqcst (get_store s i) = true -> st_seqcst (get_store s j) = true -> ~ In i l.
Proof. exact coherence_seq_cst. Qed.
Print Assumptions C03_coherence_seq_cst.

(* an RMW reads exactly a mo-maximal live store *)
Theorem C03_rmw_candidates_spec :
  forall (s : atomic_state) (l : list nat),
       match_rmw_to_stores s = Some l ->
       forall i : nat,
       In i l <->
       i < MAX_ATOMIC_HISTORY /\
       i < at_cnt s /\
       (forall j : nat,
        j < MAX_ATOMIC_HISTORY ->
        j < at_cnt s -> j <> i -> vv_lt (st_mo (get_store s i)) (st_mo (get_store s j)) = false).
Proof. exact rmw_candidates_spec. Qed.
Print Assumptions C03_rmw_candidates_spec.

(* every RMW candidate is a load candidate *)
Theorem C03_rmw_candidates_are_load_candidates :
  forall (s : atomic_state) (me : nat) (caus : vv) (ly : option nat) 
         (o : ord) (l lr : list nat) (i : nat),
       match_load_to_stores s me caus ly o = Some l ->
       match_rmw_to_stores s = Some lr -> In i lr -> In i l.
Proof. exact rmw_candidates_are_load_candidates. Qed.
Print Assumptions C03_rmw_candidates_are_load_candidates.

(* loom's `left != right` assertion fires only when two distinct live stores have equal modification-order clocks *)
Theorem C03_load_candidates_none :
  forall (s : atomic_state) (me : nat) (caus : vv) (ly : option nat) (o : ord),
       match_load_to_stores s me caus ly o = None ->
       exists i j : nat,
         i < MAX_ATOMIC_HISTORY /\
         i < at_cnt s /\
         j < MAX_ATOMIC_HISTORY /\
         j < at_cnt s /\ i <> j /\ vv_eqb (st_mo (get_store s i)) (st_mo (get_store s j)) = true.
Proof. exact load_candidates_none. Qed.
Print Assumptions C03_load_candidates_none.

(* RMW atomicity (fix 189e88b): at the fixpoint, every RMW store whose source is mo-before the new store is itself mo-before the new store *)
Theorem C03_rmw_atomicity_fixpoint :
  forall (fuel : nat) (stores : list astore) (src : option (nat * nat)) (mo : vv),
       let mo' := rmw_atomicity fuel stores src mo in
       snd (rmw_atomicity_pass stores src mo') = false ->
       forall (x : astore) (slot sid : nat),
       In x stores ->
       st_rmw_src x = Some (slot, sid) ->
       src_eqb (Some (slot, sid)) src = false ->
       st_id (nth slot stores store_default) = sid ->
       vv_le (st_mo (nth slot stores store_default)) mo' = true -> vv_le (st_mo x) mo' = true.
Proof. exact rmw_atomicity_fixpoint. Qed.
Print Assumptions C03_rmw_atomicity_fixpoint.

(* the fixpoint is reached with fuel = ring size *)
Theorem C03_rmw_atomicity_sufficient_fuel :
  forall (fuel : nat) (stores : list astore) (src : option (nat * nat)) (mo : vv),
       length stores <= fuel ->
       snd (rmw_atomicity_pass stores src (rmw_atomicity fuel stores src mo)) = false.
Proof. exact rmw_atomicity_sufficient_fuel. Qed.
Print Assumptions C03_rmw_atomicity_sufficient_fuel.

(* the postcondition of the model's own store: the new store is mo-after the thread's clock, after every store it has seen, and closed under RMW atomicity *)
Theorem C03_atomic_store_from_rmw_atomic :
  forall (s : atomic_state) (me : nat) (caus released sync0 : vv) 
         (value : N) (o : ord) (src : option (nat * nat)),
       length (at_stores s) = MAX_ATOMIC_HISTORY ->
       let s' := atomic_store_from s me caus released sync0 value o src in
       let mo' := st_mo (get_store s' (aindex (at_cnt s))) in
       vle caus mo' /\
       (forall x : astore,
        In x (at_stores s) -> is_seen_by_current (st_seen x) caus = true -> vle (st_mo x) mo') /\
       snd (rmw_atomicity_pass (at_stores s) src mo') = false /\
       (forall (x : astore) (slot sid : nat),
        In x (at_stores s) ->
        st_rmw_src x = Some (slot, sid) ->
        src_eqb (Some (slot, sid)) src = false ->
        st_id (nth slot (at_stores s) store_default) = sid ->
        vv_le (st_mo (nth slot (at_stores s) store_default)) mo' = true ->
        vv_le (st_mo x) mo' = true).
Proof. exact atomic_store_from_rmw_atomic. Qed.
Print Assumptions C03_atomic_store_from_rmw_atomic.


Require Import LV.Base LV.VV LV.VVFacts LV.Path LV.PathSpec LV.PathTerm LV.PathDistinct LV.PathApi LV.Prog LV.Objects LV.Exec LV.Atomic LV.Ops LV.Check LV.AtomicFacts LV.AtomicCoherence LV.AtomicCoRR.

(* COHERENCE OVER SEQUENCES of operations by several threads on one atomic (AtomicCoRR.v), with arbitrary extra happens-before edges between threads. Proved for the machine whose load rule is the one of fix c0421c4 (suffix _c0421c4); the model's current functions add the RMW-atomicity closure of fix 01ecff8 after it: they coincide with that machine on every run without RMWs (theorems below), and the closure itself is covered by computed searches *)
(* the model's apply_load_coherence is the c0421c4 rule followed by the RMW-atomicity closure *)
Theorem C03_model_alc_eq :
  forall (s : atomic_state) (caus : vv) (index : nat),
       apply_load_coherence s caus index =
       at_set_stores s
         (close_rmw_atomicity (4 * MAX_ATOMIC_HISTORY) (Nat.min (at_cnt s) MAX_ATOMIC_HISTORY)
            (at_stores (alc_c0421c4 s caus index))) (at_cnt s).
Proof. exact model_alc_eq. Qed.
Print Assumptions C03_model_alc_eq.

(* on runs without RMWs the machine built from the model's atomic_load / atomic_store is, step for step, the c0421c4 machine *)
Theorem C03_mrun_model_eq :
  forall (evs : list (nat * aop)) (st : atomic_state * list vv),
       no_src (at_stores (fst st)) -> rmw_free evs -> mrun RModel st evs = mrun RC0421 st evs.
Proof. exact mrun_model_eq. Qed.
Print Assumptions C03_mrun_model_eq.

(* so for the model's own functions on RMW-free runs: the invariant holds and loom's `assert_ne!(mo_i, mo_j)` never fires *)
Theorem C03_model_rmw_free_inv :
  forall st : mstate,
       reach_model_rmw_free st ->
       Inv2 st /\
       (forall (t : nat) (c : vv) (ly : option nat) (o : ord),
        match_load_to_stores (fst st) t c ly o <> None) /\ match_rmw_to_stores (fst st) <> None.
Proof. exact model_rmw_free_inv. Qed.
Print Assumptions C03_model_rmw_free_inv.

(* the invariant (clocks bounded by their owners, every live store keyed by its storing thread's stamp, the key order is exactly vv_lt, no two live stores ordered both ways, first-seen stamps bounded) is preserved by every run *)
Theorem C03_mrun_inv2_c0421c4 :
  forall (evs : list (nat * aop)) (st st' : mstate),
       Inv2 st -> mrun RC0421 st evs = Some st' -> Inv2 st'.
Proof. exact mrun_inv2_c0421c4. Qed.
Print Assumptions C03_mrun_inv2_c0421c4.

(* no two live stores ever have equal modification-order clocks *)
Theorem C03_mlts_never_none_c0421c4 :
  forall st : mstate,
       reach_c0421c4 st ->
       (forall (t : nat) (c : vv) (ly : option nat) (o : ord),
        match_load_to_stores (fst st) t c ly o <> None) /\ match_rmw_to_stores (fst st) <> None.
Proof. exact mlts_never_none_c0421c4. Qed.
Print Assumptions C03_mlts_never_none_c0421c4.

(* THE KEY LEMMA: an edge `a <mo b` between live stores is never lost, whatever any thread does afterwards *)
Theorem C03_run_stable_c0421c4 :
  forall (evs : list (nat * aop)) (st st' : mstate) (a b : nat),
       Inv st ->
       mrun RC0421 st evs = Some st' ->
       lives st a ->
       lives st b -> mo_lt st a b = true -> lives st' a /\ lives st' b /\ mo_lt st' a b = true.
Proof. exact run_stable_c0421c4. Qed.
Print Assumptions C03_run_stable_c0421c4.

(* CoRR / CoWR in happens-before form: once a thread knows a store j (its own store, a store it read, or through any chain of synchronisation), it can never again read a store that was mo-before j *)
Theorem C03_CoRR_CoWR_c0421c4 :
  forall (st1 : mstate) (evs : list (nat * aop)) (st2 : mstate) (t i j : nat) (o : ord),
       Inv st1 ->
       lives st1 i ->
       lives st1 j ->
       knows st1 t j ->
       mo_lt st1 i j = true ->
       mrun RC0421 st1 evs = Some st2 -> mstep RC0421 st2 t (XLoad i o) = None.
Proof. exact CoRR_CoWR_c0421c4. Qed.
Print Assumptions C03_CoRR_CoWR_c0421c4.

(* read-read coherence for one thread with arbitrary steps of arbitrary threads in between *)
Theorem C03_CoRR_same_thread_c0421c4 :
  forall (st0 : mstate) (t j : nat) (o : ord) (st1 : mstate) (evs : list (nat * aop))
         (st2 : mstate) (i : nat) (o' : ord),
       Inv2 st0 ->
       mstep RC0421 st0 t (XLoad j o) = Some st1 ->
       lives st1 i ->
       mo_lt st1 i j = true ->
       mrun RC0421 st1 evs = Some st2 -> mstep RC0421 st2 t (XLoad i o') = None.
Proof. exact CoRR_same_thread_c0421c4. Qed.
Print Assumptions C03_CoRR_same_thread_c0421c4.

(* write-read coherence likewise *)
Theorem C03_CoWR_same_thread_c0421c4 :
  forall (st0 : mstate) (t : nat) (v : N) (o : ord) (st1 : mstate) 
         (evs : list (nat * aop)) (st2 : mstate) (i : nat) (o' : ord),
       Inv st0 ->
       mstep RC0421 st0 t (XStore v o) = Some st1 ->
       lives st1 i ->
       mo_lt st1 i (at_cnt (fst st0)) = true ->
       mrun RC0421 st1 evs = Some st2 -> mstep RC0421 st2 t (XLoad i o') = None.
Proof. exact CoWR_same_thread_c0421c4. Qed.
Print Assumptions C03_CoWR_same_thread_c0421c4.

(* read-write coherence: a later store of the thread is mo-after what it read *)
Theorem C03_CoRW_same_thread_c0421c4 :
  forall (st0 : mstate) (t j : nat) (o : ord) (st1 : mstate) (evs : list (nat * aop))
         (st2 : mstate) (v : N) (o' : ord) (st3 : mstate),
       Inv2 st0 ->
       mstep RC0421 st0 t (XLoad j o) = Some st1 ->
       mrun RC0421 st1 evs = Some st2 ->
       mstep RC0421 st2 t (XStore v o') = Some st3 -> mo_lt st3 j (at_cnt (fst st2)) = true.
Proof. exact CoRW_same_thread_c0421c4. Qed.
Print Assumptions C03_CoRW_same_thread_c0421c4.

(* write-write coherence *)
Theorem C03_CoWW_same_thread_c0421c4 :
  forall (st0 : mstate) (t : nat) (v : N) (o : ord) (st1 : mstate) 
         (evs : list (nat * aop)) (st2 : mstate) (v' : N) (o' : ord) (st3 : mstate),
       Inv st0 ->
       mstep RC0421 st0 t (XStore v o) = Some st1 ->
       mrun RC0421 st1 evs = Some st2 ->
       mstep RC0421 st2 t (XStore v' o') = Some st3 ->
       mo_lt st3 (at_cnt (fst st0)) (at_cnt (fst st2)) = true.
Proof. exact CoWW_same_thread_c0421c4. Qed.
Print Assumptions C03_CoWW_same_thread_c0421c4.

(* computed: with the rule before fix c0421c4 a thread reads its own older store after its newer one *)
Theorem C03_coherence_counterexample_before_fix :
  lt_in (mrun0 RBefore 2 cex_pre) 1 2 = true /\
       knows_b (mrun0 RBefore 2 cex_pre) 1 2 = true /\
       ok_step RBefore (mrun0 RBefore 2 cex_pre) 1 (XLoad 1 Relaxed) = false /\
       lt_in (mrun0 RBefore 2 cex) 1 2 = false /\
       ok_step RBefore (mrun0 RBefore 2 cex) 1 (XLoad 1 Relaxed) = true /\
       cands RBefore (mrun0 RBefore 2 cex) 1 Relaxed = Some [1; 2].
Proof. exact coherence_counterexample_before_fix. Qed.
Print Assumptions C03_coherence_counterexample_before_fix.

(* computed: with the rule before fix 01ecff8 loads order a store between an RMW's source and the RMW's own store *)
Theorem C03_rmw_gap_before_fix :
  let evs :=
         [(1, XStore 10 Relaxed); (2, XStore 20 Relaxed); (2, XRmw 2 inc1 Relaxed Relaxed);
          (3, XLoad 2 Relaxed); (3, XLoad 1 Relaxed); (0, XLoad 1 Relaxed); (
          0, XLoad 3 Relaxed)] in
       lt_in (mrun0 RC0421 4 evs) 2 1 = true /\ lt_in (mrun0 RC0421 4 evs) 1 3 = true.
Proof. exact rmw_gap_before_fix. Qed.
Print Assumptions C03_rmw_gap_before_fix.

(* computed: the model's current functions refuse both orders of that scenario *)
Theorem C03_rmw_gap_refused :
  is_some (mrun0 RModel 4 gapA) = true /\
       ok_step RModel (mrun0 RModel 4 gapA) 0 (XLoad 3 Relaxed) = false /\
       lt_in (mrun0 RModel 4 gapA) 3 1 = true /\
       is_some (mrun0 RModel 4 gapB) = true /\
       ok_step RModel (mrun0 RModel 4 gapB) 3 (XLoad 1 Relaxed) = false /\
       lt_in (mrun0 RModel 4 gapB) 1 2 = true /\
       ok_step RC0421 (mrun0 RC0421 4 gapA) 0 (XLoad 3 Relaxed) = true /\
       ok_step RC0421 (mrun0 RC0421 4 gapB) 3 (XLoad 1 Relaxed) = true.
Proof. exact rmw_gap_refused. Qed.
Print Assumptions C03_rmw_gap_refused.

(* computed, exhaustive (4 threads x 3 steps, 3 threads x 4 steps after store | store ; fetch_add): with the model's current functions no modification-order edge is lost, no two clocks are equal, every RMW store immediately follows its source, and every state is closed *)
Theorem C03_search_closure_clean :
  search_m0 RModel 4 gp 3 = None /\ search_m0 RModel 3 gp 4 = None.
Proof. exact search_closure_clean. Qed.
Print Assumptions C03_search_closure_clean.


Require Import LV.Base LV.VV LV.VVFacts LV.Path LV.PathSpec LV.PathTerm LV.PathDistinct LV.PathApi LV.Prog LV.Objects LV.Exec LV.Atomic LV.Ops LV.Check LV.AtomicFacts LV.AtomicCoherence LV.AtomicCoRR LV.AtomicClosure.

(* THE SAME FOR THE MODEL'S CURRENT FUNCTIONS ON ALL RUNS, RMWs included (AtomicClosure.v): the invariant survives the RMW-atomicity closure of fix 01ecff8. Witness carried by the invariant: a ranking of the live stores that extends the modification order and in which every RMW store immediately follows the store it read *)
(* the invariant holds in every state reachable by any sequence of loads, stores, RMWs and synchronisations of any number of threads (machine steps = the model's atomic_load / atomic_store / atomic_rmw) *)
Theorem C03_reach_model_good :
  forall st : mstate, reach_model st -> GoodS st.
Proof. exact reach_model_good. Qed.
Print Assumptions C03_reach_model_good.

(* RMW ATOMICITY AS AN INVARIANT: in every reachable state every live RMW store is strictly mo-after the store it read, and no live store is strictly between them *)
Theorem C03_rmw_atomicity_stable :
  forall (st : mstate) (r sl sid : nat),
       reach_model st ->
       r < at_cnt (fst st) ->
       st_rmw_src (get_store (fst st) r) = Some (sl, sid) ->
       sl < at_cnt (fst st) /\
       vv_lt (mo (fst st) sl) (mo (fst st) r) = true /\
       (forall x : nat,
        x < at_cnt (fst st) ->
        vv_lt (mo (fst st) sl) (mo (fst st) x) && vv_lt (mo (fst st) x) (mo (fst st) r) = false).
Proof. exact rmw_atomicity_stable. Qed.
Print Assumptions C03_rmw_atomicity_stable.

(* loom's `assert_ne!(mo_i, mo_j)` never fires *)
Theorem C03_mlts_never_none_model :
  forall st : mstate,
       reach_model st ->
       (forall (t : nat) (c : vv) (ly : option nat) (o : ord),
        match_load_to_stores (fst st) t c ly o <> None) /\ match_rmw_to_stores (fst st) <> None.
Proof. exact mlts_never_none_model. Qed.
Print Assumptions C03_mlts_never_none_model.

(* an edge of the modification order between live stores is never lost *)
Theorem C03_run_stable_model :
  forall (evs : list (nat * aop)) (st st' : mstate) (a b : nat),
       GoodS st ->
       mrun RModel st evs = Some st' ->
       lives st a ->
       lives st b -> mo_lt st a b = true -> lives st' a /\ lives st' b /\ mo_lt st' a b = true.
Proof. exact run_stable_model. Qed.
Print Assumptions C03_run_stable_model.

(* CoRR / CoWR in happens-before form *)
Theorem C03_CoRR_CoWR_model :
  forall (st1 : mstate) (evs : list (nat * aop)) (st2 : mstate) (t i j : nat) (o : ord),
       GoodS st1 ->
       lives st1 i ->
       lives st1 j ->
       knows st1 t j ->
       mo_lt st1 i j = true ->
       mrun RModel st1 evs = Some st2 -> mstep RModel st2 t (XLoad i o) = None.
Proof. exact CoRR_CoWR_model. Qed.
Print Assumptions C03_CoRR_CoWR_model.

(* an RMW never reads a store that was ever mo-before another *)
Theorem C03_CoRR_CoWR_rmw_model :
  forall (st1 : mstate) (evs : list (nat * aop)) (st2 : mstate) (t i j : nat)
         (f : N -> option N) (so fo : ord),
       GoodS st1 ->
       lives st1 i ->
       lives st1 j ->
       mo_lt st1 i j = true ->
       mrun RModel st1 evs = Some st2 -> mstep RModel st2 t (XRmw i f so fo) = None.
Proof. exact CoRR_CoWR_rmw_model. Qed.
Print Assumptions C03_CoRR_CoWR_rmw_model.

(* a new store is mo-after everything its thread knows *)
Theorem C03_CoWW_CoRW_model :
  forall (st : mstate) (t : nat) (v : N) (o : ord) (st' : mstate) (i : nat),
       GoodS st ->
       lives st i ->
       knows st t i ->
       mstep RModel st t (XStore v o) = Some st' ->
       lives st' (at_cnt (fst st)) /\ mo_lt st' i (at_cnt (fst st)) = true.
Proof. exact CoWW_CoRW_model. Qed.
Print Assumptions C03_CoWW_CoRW_model.

(* read-read coherence of one thread, arbitrary steps of arbitrary threads in between *)
Theorem C03_CoRR_same_thread_model :
  forall (st0 : mstate) (t j : nat) (o : ord) (st1 : mstate) (evs : list (nat * aop))
         (st2 : mstate) (i : nat) (o' : ord),
       GoodS st0 ->
       mstep RModel st0 t (XLoad j o) = Some st1 ->
       lives st1 i ->
       mo_lt st1 i j = true ->
       mrun RModel st1 evs = Some st2 -> mstep RModel st2 t (XLoad i o') = None.
Proof. exact CoRR_same_thread_model. Qed.
Print Assumptions C03_CoRR_same_thread_model.

(* write-read coherence *)
Theorem C03_CoWR_same_thread_model :
  forall (st0 : mstate) (t : nat) (v : N) (o : ord) (st1 : mstate) 
         (evs : list (nat * aop)) (st2 : mstate) (i : nat) (o' : ord),
       GoodS st0 ->
       mstep RModel st0 t (XStore v o) = Some st1 ->
       lives st1 i ->
       mo_lt st1 i (at_cnt (fst st0)) = true ->
       mrun RModel st1 evs = Some st2 -> mstep RModel st2 t (XLoad i o') = None.
Proof. exact CoWR_same_thread_model. Qed.
Print Assumptions C03_CoWR_same_thread_model.

(* read-write coherence *)
Theorem C03_CoRW_same_thread_model :
  forall (st0 : mstate) (t j : nat) (o : ord) (st1 : mstate) (evs : list (nat * aop))
         (st2 : mstate) (v : N) (o' : ord) (st3 : mstate),
       GoodS st0 ->
       mstep RModel st0 t (XLoad j o) = Some st1 ->
       mrun RModel st1 evs = Some st2 ->
       mstep RModel st2 t (XStore v o') = Some st3 -> mo_lt st3 j (at_cnt (fst st2)) = true.
Proof. exact CoRW_same_thread_model. Qed.
Print Assumptions C03_CoRW_same_thread_model.

(* write-write coherence *)
Theorem C03_CoWW_same_thread_model :
  forall (st0 : mstate) (t : nat) (v : N) (o : ord) (st1 : mstate) 
         (evs : list (nat * aop)) (st2 : mstate) (v' : N) (o' : ord) (st3 : mstate),
       GoodS st0 ->
       mstep RModel st0 t (XStore v o) = Some st1 ->
       mrun RModel st1 evs = Some st2 ->
       mstep RModel st2 t (XStore v' o') = Some st3 ->
       mo_lt st3 (at_cnt (fst st0)) (at_cnt (fst st2)) = true.
Proof. exact CoWW_same_thread_model. Qed.
Print Assumptions C03_CoWW_same_thread_model.

(* the fuel of the closure (4 x ring size) suffices: every productive round adds an ordered pair, there are at most 21 *)
Theorem C03_close_model_closed :
  forall (own rk : nat -> nat) (s : atomic_state) (cs : list vv),
       InvO own s cs ->
       LinkO own rk s ->
       let s' :=
         with_stores s
           (close_rmw_atomicity (4 * MAX_ATOMIC_HISTORY) (Nat.min (at_cnt s) MAX_ATOMIC_HISTORY)
              (at_stores s)) in
       InvO own s' cs /\ LinkO own rk s' /\ Same s s' /\ Closed own s'.
Proof. exact close_model_closed. Qed.
Print Assumptions C03_close_model_closed.

(* non-vacuity: both runs of the former D19 scenario (they contain an RMW) end in reachable states *)
Theorem C03_reach_model_example :
  (exists st : mstate, mrun0 RModel 4 gapA = Some st /\ reach_model st) /\
       (exists st : mstate, mrun0 RModel 4 gapB = Some st /\ reach_model st).
Proof. exact reach_model_example. Qed.
Print Assumptions C03_reach_model_example.


Require Import LV.Base LV.VV LV.VVFacts LV.Path LV.PathSpec LV.PathTerm LV.PathDistinct LV.PathApi LV.Prog LV.Objects LV.Exec LV.Atomic LV.Ops LV.Check LV.AtomicFacts LV.AtomicCoherence LV.AtomicCoRR LV.AtomicClosure LV.AtomicBridge.

(* TOWARDS THE EXECUTION MODEL (AtomicBridge.v): the machine generalised by an arbitrary clock-growth step -- a thread joins ANY view v whose components are bounded by their owners' own stamps (exactly what ClockFacts.run_clock_wf gives for every view stored anywhere in an execution state: mutex, channel, notify, release sequences ...), instead of only another thread's current clock -- and the calls of Ops.v shown to be machine steps. Still missing for a full bridge (DESIGN section 11): the tracking-clock fields of the invariant, t_rel <> vv_new, replayed indices, spawn *)
(* the invariant survives a join with any admissible view *)
Theorem C03_grow_goodS :
  forall (st : mstate) (t : nat) (v : vv),
       GoodS st -> t < length (snd st) -> admissible (snd st) t v -> GoodS (grow st t v).
Proof. exact grow_goodS. Qed.
Print Assumptions C03_grow_goodS.

(* the synchronisation view of any live store is admissible (acquire fences) *)
Theorem C03_sync_view_admissible :
  forall (own rk : nat -> nat) (s : atomic_state) (cs : list vv) (t i : nat),
       GoodO own rk s cs -> i < at_cnt s -> admissible cs t (st_sync (get_store s i)).
Proof. exact sync_view_admissible. Qed.
Print Assumptions C03_sync_view_admissible.

(* the invariant holds along every run of the generalised machine (model steps + arbitrary admissible growth) *)
Theorem C03_brun_goodS :
  forall (evs : list (nat * bop)) (st st' : mstate),
       GoodS st -> brun st evs = Some st' -> GoodS st'.
Proof. exact brun_goodS. Qed.
Print Assumptions C03_brun_goodS.

(* no modification-order edge is ever lost along such a run *)
Theorem C03_brun_stable :
  forall (evs : list (nat * bop)) (st st' : mstate) (x y : nat),
       GoodS st ->
       brun st evs = Some st' ->
       lives st x ->
       lives st y -> mo_lt st x y = true -> lives st' x /\ lives st' y /\ mo_lt st' x y = true.
Proof. exact brun_stable. Qed.
Print Assumptions C03_brun_stable.

(* RMW atomicity in every state of every such run *)
Theorem C03_brun_atomicity :
  forall (evs : list (nat * bop)) (st st' : mstate) (r sl sid : nat),
       GoodS st ->
       brun st evs = Some st' ->
       r < at_cnt (fst st') ->
       st_rmw_src (get_store (fst st') r) = Some (sl, sid) ->
       sl < at_cnt (fst st') /\
       vv_lt (mo (fst st') sl) (mo (fst st') r) = true /\
       (forall x : nat,
        x < at_cnt (fst st') ->
        vv_lt (mo (fst st') sl) (mo (fst st') x) && vv_lt (mo (fst st') x) (mo (fst st') r) = false).
Proof. exact brun_atomicity. Qed.
Print Assumptions C03_brun_atomicity.

(* loom's assert_ne never fires *)
Theorem C03_brun_never_none :
  forall (evs : list (nat * bop)) (st st' : mstate),
       GoodS st ->
       brun st evs = Some st' ->
       (forall (t : nat) (c : vv) (ly : option nat) (o : ord),
        match_load_to_stores (fst st') t c ly o <> None) /\ match_rmw_to_stores (fst st') <> None.
Proof. exact brun_never_none. Qed.
Print Assumptions C03_brun_never_none.

(* CoRR / CoWR in happens-before form for the generalised machine *)
Theorem C03_CoRR_CoWR_b :
  forall (st1 : mstate) (evs : list (nat * bop)) (st2 : mstate) (t i j : nat) (o : ord),
       GoodS st1 ->
       lives st1 i ->
       lives st1 j ->
       knows st1 t j ->
       mo_lt st1 i j = true -> brun st1 evs = Some st2 -> mstep RModel st2 t (XLoad i o) = None.
Proof. exact CoRR_CoWR_b. Qed.
Print Assumptions C03_CoRR_CoWR_b.

(* likewise for RMWs *)
Theorem C03_CoRR_CoWR_rmw_b :
  forall (st1 : mstate) (evs : list (nat * bop)) (st2 : mstate) (t i j : nat)
         (f : N -> option N) (so fo : ord),
       GoodS st1 ->
       lives st1 i ->
       lives st1 j ->
       mo_lt st1 i j = true ->
       brun st1 evs = Some st2 -> mstep RModel st2 t (XRmw i f so fo) = None.
Proof. exact CoRR_CoWR_rmw_b. Qed.
Print Assumptions C03_CoRR_CoWR_rmw_b.

(* read-read coherence *)
Theorem C03_CoRR_same_thread_b :
  forall (st0 : mstate) (t j : nat) (o : ord) (st1 : mstate) (evs : list (nat * bop))
         (st2 : mstate) (i : nat) (o' : ord),
       GoodS st0 ->
       mstep RModel st0 t (XLoad j o) = Some st1 ->
       lives st1 i ->
       mo_lt st1 i j = true -> brun st1 evs = Some st2 -> mstep RModel st2 t (XLoad i o') = None.
Proof. exact CoRR_same_thread_b. Qed.
Print Assumptions C03_CoRR_same_thread_b.

(* write-read coherence *)
Theorem C03_CoWR_same_thread_b :
  forall (st0 : mstate) (t : nat) (v : N) (o : ord) (st1 : mstate) 
         (evs : list (nat * bop)) (st2 : mstate) (i : nat) (o' : ord),
       GoodS st0 ->
       mstep RModel st0 t (XStore v o) = Some st1 ->
       lives st1 i ->
       mo_lt st1 i (at_cnt (fst st0)) = true ->
       brun st1 evs = Some st2 -> mstep RModel st2 t (XLoad i o') = None.
Proof. exact CoWR_same_thread_b. Qed.
Print Assumptions C03_CoWR_same_thread_b.

(* read-write coherence *)
Theorem C03_CoRW_same_thread_b :
  forall (st0 : mstate) (t j : nat) (o : ord) (st1 : mstate) (evs : list (nat * bop))
         (st2 : mstate) (v : N) (o' : ord) (st3 : mstate),
       GoodS st0 ->
       mstep RModel st0 t (XLoad j o) = Some st1 ->
       brun st1 evs = Some st2 ->
       mstep RModel st2 t (XStore v o') = Some st3 -> mo_lt st3 j (at_cnt (fst st2)) = true.
Proof. exact CoRW_same_thread_b. Qed.
Print Assumptions C03_CoRW_same_thread_b.

(* write-write coherence *)
Theorem C03_CoWW_same_thread_b :
  forall (st0 : mstate) (t : nat) (v : N) (o : ord) (st1 : mstate) 
         (evs : list (nat * bop)) (st2 : mstate) (v' : N) (o' : ord) (st3 : mstate),
       GoodS st0 ->
       mstep RModel st0 t (XStore v o) = Some st1 ->
       brun st1 evs = Some st2 ->
       mstep RModel st2 t (XStore v' o') = Some st3 ->
       mo_lt st3 (at_cnt (fst st0)) (at_cnt (fst st2)) = true.
Proof. exact CoWW_same_thread_b. Qed.
Print Assumptions C03_CoWW_same_thread_b.

(* the cell may be created by any thread at any point of a system with arbitrary bounded clocks that dominate the creation clock *)
Theorem C03_atomic_new_goodS :
  forall (me : nat) (c0 : vv) (v0 : N) (cs : list vv),
       me < length cs ->
       length cs <= MAX_THREADS ->
       clk cs me = c0 ->
       1 <= vv_get c0 me \/ (forall q : nat, vv_get c0 q = 0) ->
       (forall t : nat, t < length cs -> t < length (clk cs t)) ->
       (forall u t : nat,
        u < length cs -> t < length cs -> vv_get (clk cs u) t <= vv_get (clk cs t) t) ->
       GoodS (s_new me c0 v0, cs).
Proof. exact atomic_new_goodS. Qed.
Print Assumptions C03_atomic_new_goodS.

(* Ops.v's load call (candidates computed with any last_yield) is a machine load step *)
Theorem C03_load_call_is_step :
  forall (s : atomic_state) (cs : list vv) (t : nat) (ly : option nat) 
         (o : ord) (l : list nat) (idx : nat) (s' : atomic_state) (c' : vv) 
         (val : N),
       GoodS (s, cs) ->
       t < length cs ->
       match_load_to_stores s t (vv_inc (clk cs t) t) ly o = Some l ->
       In idx l ->
       atomic_load s t (vv_inc (clk cs t) t) idx o = inl (s', c', val) ->
       mstep RModel (s, cs) t (XLoad idx o) = Some (s', list_set cs t c').
Proof. exact load_call_is_step. Qed.
Print Assumptions C03_load_call_is_step.

(* the store call is a machine store step *)
Theorem C03_store_call_is_step :
  forall (s : atomic_state) (cs : list vv) (t : nat) (v : N) (o : ord) (s1 : atomic_state),
       t < length cs ->
       at_cnt s < MAX_ATOMIC_HISTORY ->
       track_store s (vv_inc (clk cs t) t) = inl s1 ->
       mstep RModel (s, cs) t (XStore v o) =
       Some
         (atomic_store s1 t (vv_inc (clk cs t) t) vv_new vv_new v o,
          list_set cs t (vv_inc (clk cs t) t)).
Proof. exact store_call_is_step. Qed.
Print Assumptions C03_store_call_is_step.

(* the RMW call is a machine RMW step *)
Theorem C03_rmw_call_is_step :
  forall (s : atomic_state) (cs : list vv) (t : nat) (so fo : ord) 
         (f : N -> option N) (l : list nat) (idx : nat) (s' : atomic_state) 
         (c' : vv) (prev : N) (ok : bool),
       t < length cs ->
       at_cnt s < MAX_ATOMIC_HISTORY ->
       match_rmw_to_stores s = Some l ->
       In idx l ->
       atomic_rmw s t (vv_inc (clk cs t) t) vv_new idx so fo f = inl (s', c', prev, ok) ->
       mstep RModel (s, cs) t (XRmw idx f so fo) = Some (s', list_set cs t c').
Proof. exact rmw_call_is_step. Qed.
Print Assumptions C03_rmw_call_is_step.

(* one micro-operation end to end: exec_micro on MStorePost is the machine's store step on (atomic a, the threads' clocks) (for t_rel <= t_caus, ring not full) *)
Theorem C03_MStorePost_is_step :
  forall (e : exec) (me a : nat) (v : N) (o : ord) (e' : exec) (t0 : thread)
         (s : atomic_state),
       get_thread e me = Some t0 ->
       get_atomic e a = Some s ->
       at_cnt s < MAX_ATOMIC_HISTORY ->
       vle (t_rel t0) (t_caus t0) ->
       exec_micro e me (MStorePost a v o) = MOk e' ->
       exists s' : atomic_state,
         get_atomic e' a = Some s' /\
         bstep (s, clocks e) me (BStoreR (t_rel t0) v o) = Some (s', clocks e').
Proof. exact MStorePost_is_step. Qed.
Print Assumptions C03_MStorePost_is_step.

(* likewise MLoadPost is a load step (hypothesis: the replayed index is a candidate) *)
Theorem C03_MLoadPost_is_step :
  forall (e : exec) (me a : nat) (o : ord) (aw : option N) (e' : exec) 
         (t0 : thread) (s : atomic_state),
       get_thread e me = Some t0 ->
       get_atomic e a = Some s ->
       GoodS (s, clocks e) ->
       (forall (e2 : exec) (idx : nat) (l : list nat),
        choose_store (causality_inc e me)
          (match_load_to_stores s me (vv_inc (t_caus t0) me) (t_last_yield t0) o) = (
        e2, inl idx) ->
        match_load_to_stores s me (vv_inc (t_caus t0) me) (t_last_yield t0) o = Some l -> In idx l) ->
       exec_micro e me (MLoadPost a o aw) = MOk e' ->
       exists (s' : atomic_state) (idx : nat),
         get_atomic e' a = Some s' /\
         bstep (s, clocks e) me (BOp (XLoad idx o)) = Some (s', clocks e').
Proof. exact MLoadPost_is_step. Qed.
Print Assumptions C03_MLoadPost_is_step.

(* the load of fetch_update *)
Theorem C03_MFuLoadPost_is_step :
  forall (e : exec) (me a : nat) (f : rmwop) (v : N) (so fo : ord) 
         (e' : exec) (t0 : thread) (s : atomic_state),
       get_thread e me = Some t0 ->
       get_atomic e a = Some s ->
       GoodS (s, clocks e) ->
       (forall (e2 : exec) (idx : nat) (l : list nat),
        choose_store (causality_inc e me)
          (match_load_to_stores s me (vv_inc (t_caus t0) me) (t_last_yield t0) fo) = (
        e2, inl idx) ->
        match_load_to_stores s me (vv_inc (t_caus t0) me) (t_last_yield t0) fo = Some l -> In idx l) ->
       exec_micro e me (MFuLoadPost a f v so fo) = MOk e' ->
       exists (s' : atomic_state) (idx : nat),
         get_atomic e' a = Some s' /\
         bstep (s, clocks e) me (BOp (XLoad idx fo)) = Some (s', clocks e').
Proof. exact MFuLoadPost_is_step. Qed.
Print Assumptions C03_MFuLoadPost_is_step.

(* MRmwPost is an RMW step with the thread's released clock *)
Theorem C03_MRmwPost_is_step :
  forall (e : exec) (me a : nat) (k : rmwkind) (so fo : ord) (e' : exec) 
         (t0 : thread) (s : atomic_state),
       get_thread e me = Some t0 ->
       get_atomic e a = Some s ->
       at_cnt s < MAX_ATOMIC_HISTORY ->
       vle (t_rel t0) (t_caus t0) ->
       (forall (e2 : exec) (idx : nat) (l : list nat),
        choose_store (causality_inc e me) (match_rmw_to_stores s) = (e2, inl idx) ->
        match_rmw_to_stores s = Some l -> In idx l) ->
       match_rmw_to_stores s <> None ->
       exec_micro e me (MRmwPost a k so fo) = MOk e' ->
       exists (s' : atomic_state) (idx : nat),
         get_atomic e' a = Some s' /\
         bstep (s, clocks e) me (BRmwR (t_rel t0) idx (rmw_fun k) so fo) = Some (s', clocks e').
Proof. exact MRmwPost_is_step. Qed.
Print Assumptions C03_MRmwPost_is_step.

(* unsync_load is the machine's unsync step: ticks the clock, touches no store clock *)
Theorem C03_MUnsyncLoad_is_step :
  forall (e : exec) (me a : nat) (e' : exec) (t0 : thread) (s : atomic_state),
       get_thread e me = Some t0 ->
       get_atomic e a = Some s ->
       exec_micro e me (MUnsyncLoad a) = MOk e' ->
       exists s' : atomic_state,
         get_atomic e' a = Some s' /\ bstep (s, clocks e) me BUnsyncLoad = Some (s', clocks e').
Proof. exact MUnsyncLoad_is_step. Qed.
Print Assumptions C03_MUnsyncLoad_is_step.

(* with_mut likewise *)
Theorem C03_MWithMut_is_step :
  forall (e : exec) (me a : nat) (v : N) (e' : exec) (t0 : thread) (s : atomic_state),
       get_thread e me = Some t0 ->
       get_atomic e a = Some s ->
       exec_micro e me (MWithMut a v) = MOk e' ->
       exists s' : atomic_state,
         get_atomic e' a = Some s' /\ bstep (s, clocks e) me (BWithMut v) = Some (s', clocks e').
Proof. exact MWithMut_is_step. Qed.
Print Assumptions C03_MWithMut_is_step.

(* the invariant survives unsync_load *)
Theorem C03_unsync_load_out :
  forall (own rk : nat -> nat) (s : atomic_state) (cs : list vv) (t : nat) 
         (s' : atomic_state) (cs' : list vv),
       GoodO own rk s cs ->
       StampO s cs -> unsync_load_step (s, cs) t = Some (s', cs') -> StepOut own s cs s' cs'.
Proof. exact unsync_load_out. Qed.
Print Assumptions C03_unsync_load_out.

(* and with_mut *)
Theorem C03_with_mut_out :
  forall (own rk : nat -> nat) (s : atomic_state) (cs : list vv) (t : nat) 
         (v : N) (s' : atomic_state) (cs' : list vv),
       GoodO own rk s cs ->
       StampO s cs -> with_mut_step (s, cs) t v = Some (s', cs') -> StepOut own s cs s' cs'.
Proof. exact with_mut_out. Qed.
Print Assumptions C03_with_mut_out.

(* every step kind of the generalised machine (model steps, stores/RMWs with any released clock below the thread's clock, unsync accesses, admissible growth): invariant kept, stamps kept, mo only extended, clocks only grow *)
Theorem C03_bstep_out :
  forall (own rk : nat -> nat) (s : atomic_state) (cs : list vv) (t : nat) 
         (b : bop) (s' : atomic_state) (cs' : list vv),
       GoodO own rk s cs ->
       StampO s cs -> bstep (s, cs) t b = Some (s', cs') -> StepOut own s cs s' cs'.
Proof. exact bstep_out. Qed.
Print Assumptions C03_bstep_out.


Require Import LV.Base LV.VV LV.VVFacts LV.Path LV.PathSpec LV.PathTerm LV.PathDistinct LV.PathApi LV.Prog LV.Objects LV.Exec LV.Atomic LV.Ops LV.Check LV.AtomicFacts LV.AtomicCoherence LV.AtomicCoRR LV.AtomicClosure LV.AtomicBridge LV.NotifyFacts LV.ClockFacts LV.SyncMono LV.AtomicRun.

(* OVER EXECUTIONS OF THE MODEL L (AtomicRun.v): along SyncMono.steps -- arbitrary interleavings of the micro-operations of all threads, scheduling and spawn included -- the invariant of one atomic cell is preserved. The headline (run_goodAt) starts at init_exec; its remaining hypotheses (RunOK) are stated in the theorem: at every access to the cell the replayed index is a candidate (an exploration-level fact), the ring has not wrapped, t_rel <= t_caus and the thread id is below MAX_THREADS (the last two are not yet proved as execution invariants) *)
(* THE FRAME LEMMA: every micro-operation that is not an access to atomic a (scheduling, park, yield, every operation on other objects and other atomics, fences, spawn, termination: one tactic over all 77 micro-operations) keeps a's stores, count and mutating flag *)
Theorem C03_exec_micro_akeep :
  forall (a : nat) (e : exec) (me : nat) (m : micro),
       track_ok e -> ~ acc_on a m -> akeep a e (ExecFacts.res_exec (exec_micro e me m)).
Proof. exact exec_micro_akeep. Qed.
Print Assumptions C03_exec_micro_akeep.

(* the invariant survives ANY change of the clock list that grows pointwise and stays bounded by the owners' own components *)
Theorem C03_growto_goodS :
  forall (s : atomic_state) (cs cs' : list vv),
       GoodS (s, cs) ->
       length cs' = length cs ->
       (forall u : nat, vle (clk cs u) (clk cs' u)) ->
       (forall t : nat, t < length cs' -> t < length (clk cs' t)) ->
       (forall u t : nat,
        u < length cs' -> t < length cs' -> vv_get (clk cs' u) t <= vv_get (clk cs' t) t) ->
       GoodS (s, cs').
Proof. exact growto_goodS. Qed.
Print Assumptions C03_growto_goodS.

(* and every micro-operation is such a change (ClockFacts.clock_wf + SyncMono's monotonicity), on the clock list padded with empty clocks for unspawned threads, so spawn is an ordinary growth step *)
Theorem C03_exec_growto :
  forall (e e' : exec) (s : atomic_state),
       clock_wf e' -> cmono e e' -> GoodS (s, pclocks e) -> GoodS (s, pclocks e').
Proof. exact exec_growto. Qed.
Print Assumptions C03_exec_growto.

(* hence a non-access micro-operation preserves the invariant of a *)
Theorem C03_frame_step_goodS :
  forall (a : nat) (e : exec) (me : nat) (m : micro) (e' : exec) (s : atomic_state),
       track_ok e ->
       clock_wf e ->
       ~ acc_on a m ->
       exec_micro e me m = MOk e' ->
       get_atomic e a = Some s ->
       GoodS (s, pclocks e) ->
       exists s' : atomic_state, get_atomic e' a = Some s' /\ acore s s' /\ GoodS (s', pclocks e').
Proof. exact frame_step_goodS. Qed.
Print Assumptions C03_frame_step_goodS.

(* an access step looks at the accessing thread's clock only: the _is_step lemmas transfer to the padded list *)
Theorem C03_access_step_padded :
  forall (e e' : exec) (me : nat) (b : bop) (s s' : atomic_state),
       access_bop b ->
       me < MAX_THREADS ->
       me < length (clocks e) ->
       bstep (s, clocks e) me b = Some (s', clocks e') ->
       bstep (s, pclocks e) me b = Some (s', pclocks e').
Proof. exact access_step_padded. Qed.
Print Assumptions C03_access_step_padded.

(* one step of the execution model preserves the invariant of a *)
Theorem C03_step_goodAt :
  forall (a : nat) (e : exec) (me : nat) (m : micro) (e1 : exec),
       AccSide a ->
       clock_wf e -> track_ok e -> exec_micro e me m = MOk e1 -> GoodAt a e -> GoodAt a e1.
Proof. exact step_goodAt. Qed.
Print Assumptions C03_step_goodAt.

(* along any number of steps *)
Theorem C03_steps_goodAt :
  forall a : nat,
       AccSide a ->
       forall e e' : exec,
       steps e e' ->
       clock_wf e -> track_ok e -> GoodAt a e -> GoodAt a e' /\ clock_wf e' /\ track_ok e'.
Proof. exact steps_goodAt. Qed.
Print Assumptions C03_steps_goodAt.

(* RMW atomicity in every state along the steps *)
Theorem C03_steps_atomicity :
  forall (a : nat) (e : exec) (s : atomic_state) (r sl sid : nat),
       GoodAt a e ->
       get_atomic e a = Some s ->
       r < at_cnt s ->
       st_rmw_src (get_store s r) = Some (sl, sid) ->
       sl < at_cnt s /\
       vv_lt (mo s sl) (mo s r) = true /\
       (forall x : nat, x < at_cnt s -> vv_lt (mo s sl) (mo s x) && vv_lt (mo s x) (mo s r) = false).
Proof. exact steps_atomicity. Qed.
Print Assumptions C03_steps_atomicity.

(* loom's assert_ne cannot fire along the steps *)
Theorem C03_steps_never_none :
  forall (a : nat) (e : exec) (s : atomic_state),
       GoodAt a e ->
       get_atomic e a = Some s ->
       (forall (t : nat) (c : vv) (ly : option nat) (o : ord),
        match_load_to_stores s t c ly o <> None) /\ match_rmw_to_stores s <> None.
Proof. exact steps_never_none. Qed.
Print Assumptions C03_steps_never_none.

(* the invariant holds for every declared atomic in the initial state of every iteration (init_exec p pa) *)
Theorem C03_init_goodAt :
  forall (p : prog) (pa : path) (a : nat) (s : atomic_state),
       get_atomic (init_exec p pa) a = Some s -> GoodAt a (init_exec p pa).
Proof. exact init_goodAt. Qed.
Print Assumptions C03_init_goodAt.

(* all eight access micro-operations (load, fetch_update load, store, RMW, unsync_load, with_mut, the two block_on polls) are steps of the generalised machine under SideOK *)
Theorem C03_acc_step_is_bstep :
  forall (a : nat) (e : exec) (me : nat) (m : micro) (e1 : exec) (s : atomic_state)
         (t0 : thread),
       acc_on a m ->
       get_thread e me = Some t0 ->
       get_atomic e a = Some s ->
       GoodS (s, pclocks e) ->
       SideOK a e me m ->
       exec_micro e me m = MOk e1 ->
       exists (s1 : atomic_state) (b : bop),
         access_bop b /\
         me < length (clocks e) /\
         get_atomic e1 a = Some s1 /\ bstep (s, clocks e) me b = Some (s1, clocks e1).
Proof. exact acc_step_is_bstep. Qed.
Print Assumptions C03_acc_step_is_bstep.

(* HEADLINE: for every program p, every recorded path pa, every declared atomic a and every state e reachable from init_exec p pa by steps of the execution model, the invariant of a holds in e -- under RunOK: at every access to a, (i) the replayed index is a candidate, (ii) the ring has not wrapped, (iii) t_rel <= t_caus, (iv) thread id < MAX_THREADS *)
Theorem C03_run_goodAt :
  forall (p : prog) (pa : path) (a : nat) (s0 : atomic_state) (e : exec),
       get_atomic (init_exec p pa) a = Some s0 ->
       RunOK p pa a -> steps (init_exec p pa) e -> GoodAt a e.
Proof. exact run_goodAt. Qed.
Print Assumptions C03_run_goodAt.

(* hence RMW atomicity in every reachable state of every execution *)
Theorem C03_run_atomicity :
  forall (p : prog) (pa : path) (a : nat) (s0 : atomic_state) (e : exec) 
         (s : atomic_state) (r sl sid : nat),
       get_atomic (init_exec p pa) a = Some s0 ->
       RunOK p pa a ->
       steps (init_exec p pa) e ->
       get_atomic e a = Some s ->
       r < at_cnt s ->
       st_rmw_src (get_store s r) = Some (sl, sid) ->
       sl < at_cnt s /\
       vv_lt (mo s sl) (mo s r) = true /\
       (forall x : nat, x < at_cnt s -> vv_lt (mo s sl) (mo s x) && vv_lt (mo s x) (mo s r) = false).
Proof. exact run_atomicity. Qed.
Print Assumptions C03_run_atomicity.

(* and loom's assert_ne never fires in any reachable state *)
Theorem C03_run_never_none :
  forall (p : prog) (pa : path) (a : nat) (s0 : atomic_state) (e : exec) (s : atomic_state),
       get_atomic (init_exec p pa) a = Some s0 ->
       RunOK p pa a ->
       steps (init_exec p pa) e ->
       get_atomic e a = Some s ->
       (forall (t : nat) (c : vv) (ly : option nat) (o : ord),
        match_load_to_stores s t c ly o <> None) /\ match_rmw_to_stores s <> None.
Proof. exact run_never_none. Qed.
Print Assumptions C03_run_never_none.

(* the atomic is never removed *)
Theorem C03_run_atomic_exists :
  forall (p : prog) (pa : path) (a : nat) (s0 : atomic_state) (e : exec),
       get_atomic (init_exec p pa) a = Some s0 ->
       RunOK p pa a -> steps (init_exec p pa) e -> exists s : atomic_state, get_atomic e a = Some s.
Proof. exact run_atomic_exists. Qed.
Print Assumptions C03_run_atomic_exists.

(* COHERENCE OVER EXECUTIONS: an edge of the modification order between live stores of a is never lost along the steps of an execution *)
Theorem C03_steps_stable :
  forall (p : prog) (pa : path) (a : nat) (s0 : atomic_state) (e e' : exec) 
         (s : atomic_state) (x y : nat),
       get_atomic (init_exec p pa) a = Some s0 ->
       RunOK p pa a ->
       steps (init_exec p pa) e ->
       steps e e' ->
       get_atomic e a = Some s ->
       x < at_cnt s ->
       y < at_cnt s ->
       vv_lt (mo s x) (mo s y) = true ->
       exists s' : atomic_state,
         get_atomic e' a = Some s' /\
         x < at_cnt s' /\ y < at_cnt s' /\ vv_lt (mo s' x) (mo s' y) = true.
Proof. exact steps_stable. Qed.
Print Assumptions C03_steps_stable.

(* a store that a thread's clock has seen stays seen *)
Theorem C03_steps_knows :
  forall (p : prog) (pa : path) (a : nat) (s0 : atomic_state) (e e' : exec) 
         (s : atomic_state) (u i : nat),
       get_atomic (init_exec p pa) a = Some s0 ->
       RunOK p pa a ->
       steps (init_exec p pa) e ->
       steps e e' ->
       get_atomic e a = Some s ->
       u < MAX_THREADS ->
       i < at_cnt s ->
       is_seen_by_current (st_seen (get_store s i)) (caus_of e u) = true ->
       exists s' : atomic_state,
         get_atomic e' a = Some s' /\
         i < at_cnt s' /\ is_seen_by_current (st_seen (get_store s' i)) (caus_of e' u) = true.
Proof. exact steps_knows. Qed.
Print Assumptions C03_steps_knows.

(* CoRR / CoWR over executions: once thread t knows store j of a, in every later state of the execution neither a load by t (with the clock MLoadPost uses) nor an RMW has a store that was mo-before j among its candidates *)
Theorem C03_CoRR_CoWR_steps :
  forall (p : prog) (pa : path) (a : nat) (s0 : atomic_state) (e e' : exec) 
         (s : atomic_state) (t i j : nat),
       get_atomic (init_exec p pa) a = Some s0 ->
       RunOK p pa a ->
       steps (init_exec p pa) e ->
       steps e e' ->
       get_atomic e a = Some s ->
       t < MAX_THREADS ->
       i < at_cnt s ->
       j < at_cnt s ->
       vv_lt (mo s i) (mo s j) = true ->
       is_seen_by_current (st_seen (get_store s j)) (caus_of e t) = true ->
       exists s' : atomic_state,
         get_atomic e' a = Some s' /\
         (forall (ly : option nat) (o : ord) (l : list nat),
          match_load_to_stores s' t (vv_inc (caus_of e' t) t) ly o = Some l -> ~ In i l) /\
         (forall l : list nat, match_rmw_to_stores s' = Some l -> ~ In i l).
Proof. exact CoRR_CoWR_steps. Qed.
Print Assumptions C03_CoRR_CoWR_steps.


Require Import LV.Base LV.VV LV.VVFacts LV.Path LV.PathSpec LV.PathTerm LV.PathDistinct LV.PathApi LV.Prog LV.Objects LV.Exec LV.Atomic LV.Ops LV.Check LV.AtomicFacts LV.AtomicCoherence LV.AtomicCoRR LV.AtomicClosure LV.AtomicBridge LV.NotifyFacts LV.ClockFacts LV.SyncMono LV.AtomicRun LV.AtomicRun2.

(* THE SAME WITH TWO OF THE FOUR RUN HYPOTHESES DISCHARGED (AtomicRun2.v): t_rel <= t_caus and the thread bound are invariants of executions (for configurations with max_threads <= MAX_THREADS); RunOK2 keeps only `the replayed index is a candidate` and `the ring has not wrapped` *)
(* every thread's released clock is below its clock in every reachable state *)
Theorem C03_run_rel_le_caus :
  forall (p : prog) (pa : path) (e : exec) (i : nat) (t : thread),
       max_threads (p_cfg p) <= MAX_THREADS ->
       steps (init_exec p pa) e -> nth_error (e_threads e) i = Some t -> vle (t_rel t) (t_caus t).
Proof. exact run_rel_le_caus. Qed.
Print Assumptions C03_run_rel_le_caus.

(* at most MAX_THREADS threads in every reachable state *)
Theorem C03_run_threads_bound :
  forall (p : prog) (pa : path) (e : exec),
       max_threads (p_cfg p) <= MAX_THREADS ->
       steps (init_exec p pa) e -> length (e_threads e) <= MAX_THREADS.
Proof. exact run_threads_bound. Qed.
Print Assumptions C03_run_threads_bound.

(* the two-hypothesis condition implies the four-hypothesis one *)
Theorem C03_RunOK2_RunOK :
  forall (p : prog) (pa : path) (a : nat),
       max_threads (p_cfg p) <= MAX_THREADS -> RunOK2 p pa a -> RunOK p pa a.
Proof. exact RunOK2_RunOK. Qed.
Print Assumptions C03_RunOK2_RunOK.

(* the headline under RunOK2 *)
Theorem C03_run_goodAt2 :
  forall (p : prog) (pa : path) (a : nat) (s0 : atomic_state) (e : exec),
       max_threads (p_cfg p) <= MAX_THREADS ->
       get_atomic (init_exec p pa) a = Some s0 ->
       RunOK2 p pa a -> steps (init_exec p pa) e -> GoodAt a e.
Proof. exact run_goodAt2. Qed.
Print Assumptions C03_run_goodAt2.

(* RMW atomicity in every reachable state under RunOK2 *)
Theorem C03_run_atomicity2 :
  forall (p : prog) (pa : path) (a : nat) (s0 : atomic_state) (e : exec) 
         (s : atomic_state) (r sl sid : nat),
       max_threads (p_cfg p) <= MAX_THREADS ->
       get_atomic (init_exec p pa) a = Some s0 ->
       RunOK2 p pa a ->
       steps (init_exec p pa) e ->
       get_atomic e a = Some s ->
       r < at_cnt s ->
       st_rmw_src (get_store s r) = Some (sl, sid) ->
       sl < at_cnt s /\
       vv_lt (mo s sl) (mo s r) = true /\
       (forall x : nat, x < at_cnt s -> vv_lt (mo s sl) (mo s x) && vv_lt (mo s x) (mo s r) = false).
Proof. exact run_atomicity2. Qed.
Print Assumptions C03_run_atomicity2.

(* no mo edge is lost along an execution, under RunOK2 *)
Theorem C03_steps_stable2 :
  forall (p : prog) (pa : path) (a : nat) (s0 : atomic_state) (e e' : exec) 
         (s : atomic_state) (x y : nat),
       max_threads (p_cfg p) <= MAX_THREADS ->
       get_atomic (init_exec p pa) a = Some s0 ->
       RunOK2 p pa a ->
       steps (init_exec p pa) e ->
       steps e e' ->
       get_atomic e a = Some s ->
       x < at_cnt s ->
       y < at_cnt s ->
       vv_lt (mo s x) (mo s y) = true ->
       exists s' : atomic_state,
         get_atomic e' a = Some s' /\
         x < at_cnt s' /\ y < at_cnt s' /\ vv_lt (mo s' x) (mo s' y) = true.
Proof. exact steps_stable2. Qed.
Print Assumptions C03_steps_stable2.

(* CoRR / CoWR over executions, under RunOK2 *)
Theorem C03_CoRR_CoWR_steps2 :
  forall (p : prog) (pa : path) (a : nat) (s0 : atomic_state) (e e' : exec) 
         (s : atomic_state) (t i j : nat),
       max_threads (p_cfg p) <= MAX_THREADS ->
       get_atomic (init_exec p pa) a = Some s0 ->
       RunOK2 p pa a ->
       steps (init_exec p pa) e ->
       steps e e' ->
       get_atomic e a = Some s ->
       t < MAX_THREADS ->
       i < at_cnt s ->
       j < at_cnt s ->
       vv_lt (mo s i) (mo s j) = true ->
       is_seen_by_current (st_seen (get_store s j)) (caus_of e t) = true ->
       exists s' : atomic_state,
         get_atomic e' a = Some s' /\
         (forall (ly : option nat) (o : ord) (l : list nat),
          match_load_to_stores s' t (vv_inc (caus_of e' t) t) ly o = Some l -> ~ In i l) /\
         (forall l : list nat, match_rmw_to_stores s' = Some l -> ~ In i l).
Proof. exact CoRR_CoWR_steps2. Qed.
Print Assumptions C03_CoRR_CoWR_steps2.


Require Import LV.Base LV.VV LV.VVFacts LV.Path LV.PathSpec LV.PathTerm LV.PathDistinct LV.PathApi LV.Prog LV.Objects LV.Exec LV.Atomic LV.Ops LV.Check LV.AtomicFacts LV.AtomicCoherence LV.AtomicCoRR LV.AtomicClosure LV.AtomicBridge LV.NotifyFacts LV.ClockFacts LV.SyncMono LV.ExecFacts LV.AtomicRun LV.AtomicRun2 LV.AtomicRun3.

(* THE REPLAY HYPOTHESIS (AtomicRun3.v). The clause says: the index a replayed Load entry answers is in the candidate list the access computes (for the non-empty list that access itself hands to choose_store -- an earlier formulation quantified over every list and was unsatisfiable, which made the run-level theorems vacuous; found while trying to discharge it, corrected in AtomicRun/AtomicRun2). Discharged outright for the first iteration of every program and for everything after the stored prefix of any iteration; for replayed entries reduced to `the recorded entry equals this access's candidate list` (RecordedOK), which a Coq function checks over a whole exploration (sound: explore_rec_sound) -- the general proof needs prefix determinism of iterations (a two-run simulation), which is not done *)
(* once the stored prefix is consumed it stays consumed along the steps *)
Theorem C03_steps_traversed :
  forall e e' : exec,
       steps e e' -> is_traversed (e_path e) = true -> is_traversed (e_path e') = true.
Proof. exact steps_traversed. Qed.
Print Assumptions C03_steps_traversed.

(* a freshly pushed Load entry answers a candidate, records exactly the candidate list, position 0 *)
Theorem C03_fresh_load_is_candidate :
  forall (e : exec) (l : list nat) (e2 : exec) (idx : nat),
       is_traversed (e_path e) = true ->
       choose_store e (Some l) = (e2, inl idx) ->
       l <> [] ->
       In idx l /\
       nth_error (branches (e_path e2)) (pos (e_path e)) =
       Some (ELoad {| l_vals := l; l_pos := 0; l_ex := exploring (e_path e) |}) /\
       pos (e_path e2) = S (pos (e_path e)).
Proof. exact fresh_load_is_candidate. Qed.
Print Assumptions C03_fresh_load_is_candidate.

(* THE FIRST ITERATION OF EVERY PROGRAM: the invariant of every declared atomic holds in every reachable state, with the ring hypothesis only (and max_threads <= MAX_THREADS) *)
Theorem C03_first_iteration_goodAt :
  forall (p : prog) (a : nat) (s0 : atomic_state) (e : exec),
       max_threads (p_cfg p) <= MAX_THREADS ->
       get_atomic (init_exec p (initial_path (p_cfg p))) a = Some s0 ->
       RunOK3 p (initial_path (p_cfg p)) a ->
       steps (init_exec p (initial_path (p_cfg p))) e -> GoodAt a e.
Proof. exact first_iteration_goodAt. Qed.
Print Assumptions C03_first_iteration_goodAt.

(* hence CoRR / CoWR / RMW coherence over the first iteration of every program *)
Theorem C03_first_iteration_coherence :
  forall (p : prog) (a : nat) (s0 : atomic_state) (e e' : exec) (s : atomic_state)
         (t i j : nat),
       max_threads (p_cfg p) <= MAX_THREADS ->
       get_atomic (init_exec p (initial_path (p_cfg p))) a = Some s0 ->
       RunOK3 p (initial_path (p_cfg p)) a ->
       steps (init_exec p (initial_path (p_cfg p))) e ->
       steps e e' ->
       get_atomic e a = Some s ->
       t < MAX_THREADS ->
       i < at_cnt s ->
       j < at_cnt s ->
       vv_lt (mo s i) (mo s j) = true ->
       is_seen_by_current (st_seen (get_store s j)) (caus_of e t) = true ->
       exists s' : atomic_state,
         get_atomic e' a = Some s' /\
         (forall (ly : option nat) (o : ord) (l : list nat),
          match_load_to_stores s' t (vv_inc (caus_of e' t) t) ly o = Some l -> ~ In i l) /\
         (forall l : list nat, match_rmw_to_stores s' = Some l -> ~ In i l).
Proof. exact first_iteration_coherence. Qed.
Print Assumptions C03_first_iteration_coherence.

(* in any iteration every access after the stored prefix satisfies the clause *)
Theorem C03_after_prefix_ReplayAt :
  forall (a : nat) (e0 e : exec) (me : nat) (t : thread) (m : micro) (rest : list micro),
       is_traversed (e_path e0) = true ->
       steps e0 e ->
       nth_error (e_threads e) me = Some t ->
       t_cont t = m :: rest ->
       ReplayAt a (upd_thread e me (fun t0 : thread => th_set_cont t0 rest)) me m.
Proof. exact after_prefix_ReplayAt. Qed.
Print Assumptions C03_after_prefix_ReplayAt.

(* a Load entry of the stack is never modified during an iteration *)
Theorem C03_steps_load_entry_fixed :
  forall (e e' : exec) (i : nat) (ld : load),
       steps e e' ->
       nth_error (branches (e_path e)) i = Some (ELoad ld) ->
       nth_error (branches (e_path e')) i = Some (ELoad ld).
Proof. exact steps_load_entry_fixed. Qed.
Print Assumptions C03_steps_load_entry_fixed.

(* Path::step keeps the values of every Load entry it keeps and advances the last one inside its list *)
Theorem C03_step_load_entry :
  forall (p p' : path) (i : nat) (ld' : load),
       step p = Some p' ->
       nth_error (branches p') i = Some (ELoad ld') ->
       exists ld : load,
         nth_error (branches p) i = Some (ELoad ld) /\
         l_vals ld' = l_vals ld /\
         (ld' = ld \/
          S i = length (branches p') /\ l_pos ld' = S (l_pos ld) /\ l_pos ld' < length (l_vals ld')).
Proof. exact step_load_entry. Qed.
Print Assumptions C03_step_load_entry.

(* if the entry under the cursor records this access's candidate list, the replayed answer is a candidate *)
Theorem C03_recorded_ReplayAt :
  forall (a : nat) (e : exec) (me : nat) (m : micro), Recorded a e me m -> ReplayAt a e me m.
Proof. exact recorded_ReplayAt. Qed.
Print Assumptions C03_recorded_ReplayAt.

(* the run-level theorem under RecordedOK and the ring hypothesis *)
Theorem C03_recorded_run_goodAt :
  forall (p : prog) (pa : path) (a : nat) (s0 : atomic_state) (e : exec),
       max_threads (p_cfg p) <= MAX_THREADS ->
       get_atomic (init_exec p pa) a = Some s0 ->
       RecordedOK p pa a -> RunOK3 p pa a -> steps (init_exec p pa) e -> GoodAt a e.
Proof. exact recorded_run_goodAt. Qed.
Print Assumptions C03_recorded_run_goodAt.

(* the checker is sound: if explore_rec answers (_, _, true, true), RecordedOK holds for every path of the exploration *)
Theorem C03_explore_rec_sound :
  forall (a ifuel fuel : nat) (p : prog) (pa0 : path) (its n its' n' : nat),
       explore_rec ifuel fuel p pa0 its n true = (its', n', true, true) ->
       forall pa : path,
       Explored fuel p pa0 pa ->
       RecordedOK p pa a /\
       (exists (k its1 n1 : nat) (e : exec),
          k <= ifuel /\
          explore_rec (S k) fuel p pa its1 n1 true = (its', n', true, true) /\
          fst (fst (run_rec fuel (init_exec p pa) n1 true)) = (e, IterDone)).
Proof. exact explore_rec_sound. Qed.
Print Assumptions C03_explore_rec_sound.

(* the begin path of every record of Builder::check is such a path *)
Theorem C03_check_records_Explored :
  forall (ifuel fuel : nat) (p : prog) (recs : list iter_record) (fin : run_end)
         (ck : option path) (r : iter_record),
       check ifuel fuel p = (recs, fin, ck) ->
       In r recs -> Explored fuel p (initial_path (p_cfg p)) (ir_begin r).
Proof. exact check_records_Explored. Qed.
Print Assumptions C03_check_records_Explored.

(* for a program whose exploration passes the checker: the invariant in every reachable state of every iteration *)
Theorem C03_explored_run_goodAt :
  forall (a ifuel fuel : nat) (p : prog) (its' n' : nat) (pa : path) 
         (s0 : atomic_state) (e : exec),
       max_threads (p_cfg p) <= MAX_THREADS ->
       explore_rec ifuel fuel p (initial_path (p_cfg p)) 0 0 true = (its', n', true, true) ->
       Explored fuel p (initial_path (p_cfg p)) pa ->
       get_atomic (init_exec p pa) a = Some s0 ->
       RunOK3 p pa a -> steps (init_exec p pa) e -> GoodAt a e.
Proof. exact explored_run_goodAt. Qed.
Print Assumptions C03_explored_run_goodAt.

(* computed: store/load race, 25 iterations, 28 replayed loads, all recorded entries agree *)
Theorem C03_p_sl_checked :
  explore_rec 2000 2000 p_sl (initial_path cfgT) 0 0 true = (25, 28, true, true).
Proof. exact p_sl_checked. Qed.
Print Assumptions C03_p_sl_checked.

(* computed: message passing with release store, RMW and relaxed loads, 72 iterations, 181 replayed loads *)
Theorem C03_p_mp_checked :
  explore_rec 2000 2000 p_mp (initial_path cfgT) 0 0 true = (72, 181, true, true).
Proof. exact p_mp_checked. Qed.
Print Assumptions C03_p_mp_checked.


Require Import LV.Base LV.VV LV.VVFacts LV.Path LV.PathSpec LV.PathTerm LV.PathDistinct LV.PathApi LV.Prog LV.Objects LV.Exec LV.Atomic LV.Ops LV.Check LV.AtomicFacts LV.AtomicCoherence LV.AtomicCoRR LV.AtomicClosure LV.AtomicBridge LV.NotifyFacts LV.ClockFacts LV.SyncMono LV.ExecFacts LV.AtomicRun LV.AtomicRun2 LV.AtomicRun3 LV.AtomicRun4.

(* NON-VACUITY (AtomicRun4.v): a generic checker over whole explorations with a soundness theorem, the ring hypothesis established by it, and for a concrete two-thread program the run theorems with NO remaining hypothesis -- in all 25 iterations, the replaying ones included *)
(* if the checker answers (true, true), the checked predicate holds at every micro-operation of every state reachable by steps in the iteration of every explored path *)
Theorem C03_explore_chk_sound :
  forall (chk : exec -> nat -> micro -> bool) (ifuel fuel : nat) (p : prog) (pa0 : path),
       explore_chk chk ifuel fuel p pa0 true = (true, true) ->
       forall pa : path,
       Explored fuel p pa0 pa ->
       forall (e : exec) (me : nat) (t : thread) (m : micro) (rest : list micro),
       steps (init_exec p pa) e ->
       e_active e = Some me ->
       nth_error (e_threads e) me = Some t ->
       t_cont t = m :: rest ->
       chk (upd_thread e me (fun t0 : thread => th_set_cont t0 rest)) me m = true.
Proof. exact explore_chk_sound. Qed.
Print Assumptions C03_explore_chk_sound.

(* ring room established by the checker *)
Theorem C03_ring_checked_RunOK3 :
  forall (a ifuel fuel : nat) (p : prog) (pa0 pa : path),
       explore_chk (ring_chk a) ifuel fuel p pa0 true = (true, true) ->
       Explored fuel p pa0 pa -> RunOK3 p pa a.
Proof. exact ring_checked_RunOK3. Qed.
Print Assumptions C03_ring_checked_RunOK3.

(* the hypotheses of run_goodAt2 hold on every explored path of the program (two threads, each a relaxed store and a relaxed load of one atomic) *)
Theorem C03_p_sl_RunOK2 :
  forall pa : path, Explored 2000 p_sl (initial_path cfgT) pa -> RunOK2 p_sl pa 0.
Proof. exact p_sl_RunOK2. Qed.
Print Assumptions C03_p_sl_RunOK2.

(* NO HYPOTHESIS LEFT: in every state reachable in every iteration of the exploration of that program the invariant holds *)
Theorem C03_p_sl_all_good :
  forall (pa : path) (e : exec),
       Explored 2000 p_sl (initial_path cfgT) pa -> steps (init_exec p_sl pa) e -> GoodAt 0 e.
Proof. exact p_sl_all_good. Qed.
Print Assumptions C03_p_sl_all_good.

(* RMW atomicity likewise *)
Theorem C03_p_sl_atomicity :
  forall (pa : path) (e : exec) (s : atomic_state) (r sl sid : nat),
       Explored 2000 p_sl (initial_path cfgT) pa ->
       steps (init_exec p_sl pa) e ->
       get_atomic e 0 = Some s ->
       r < at_cnt s ->
       st_rmw_src (get_store s r) = Some (sl, sid) ->
       sl < at_cnt s /\
       vv_lt (mo s sl) (mo s r) = true /\
       (forall x : nat, x < at_cnt s -> vv_lt (mo s sl) (mo s x) && vv_lt (mo s x) (mo s r) = false).
Proof. exact p_sl_atomicity. Qed.
Print Assumptions C03_p_sl_atomicity.

(* CoRR / CoWR / RMW coherence between any two states of any iteration *)
Theorem C03_p_sl_coherence :
  forall (pa : path) (e e' : exec) (s : atomic_state) (t i j : nat),
       Explored 2000 p_sl (initial_path cfgT) pa ->
       steps (init_exec p_sl pa) e ->
       steps e e' ->
       get_atomic e 0 = Some s ->
       t < MAX_THREADS ->
       i < at_cnt s ->
       j < at_cnt s ->
       vv_lt (mo s i) (mo s j) = true ->
       is_seen_by_current (st_seen (get_store s j)) (caus_of e t) = true ->
       exists s' : atomic_state,
         get_atomic e' 0 = Some s' /\
         (forall (ly : option nat) (o : ord) (l : list nat),
          match_load_to_stores s' t (vv_inc (caus_of e' t) t) ly o = Some l -> ~ In i l) /\
         (forall l : list nat, match_rmw_to_stores s' = Some l -> ~ In i l).
Proof. exact p_sl_coherence. Qed.
Print Assumptions C03_p_sl_coherence.

(* the same for the begin path of every record Builder::check returns *)
Theorem C03_p_sl_check_all_good :
  forall (ifuel : nat) (recs : list iter_record) (fin : run_end) (ck : option path)
         (r : iter_record) (e : exec),
       check ifuel 2000 p_sl = (recs, fin, ck) ->
       In r recs -> steps (init_exec p_sl (ir_begin r)) e -> GoodAt 0 e.
Proof. exact p_sl_check_all_good. Qed.
Print Assumptions C03_p_sl_check_all_good.

(* the same with NO hypothesis for a program with an RMW (message passing with a release store, fetch_add(AcqRel) and relaxed loads), for the atomic the RMW acts on: all 72 iterations *)
Theorem C03_p_mp_all_good :
  forall (pa : path) (e : exec),
       Explored 2000 p_mp (initial_path cfgT) pa -> steps (init_exec p_mp pa) e -> GoodAt 0 e.
Proof. exact p_mp_all_good. Qed.
Print Assumptions C03_p_mp_all_good.

(* RMW atomicity in every reachable state of every iteration of it *)
Theorem C03_p_mp_atomicity :
  forall (pa : path) (e : exec) (s : atomic_state) (r sl sid : nat),
       Explored 2000 p_mp (initial_path cfgT) pa ->
       steps (init_exec p_mp pa) e ->
       get_atomic e 0 = Some s ->
       r < at_cnt s ->
       st_rmw_src (get_store s r) = Some (sl, sid) ->
       sl < at_cnt s /\
       vv_lt (mo s sl) (mo s r) = true /\
       (forall x : nat, x < at_cnt s -> vv_lt (mo s sl) (mo s x) && vv_lt (mo s x) (mo s r) = false).
Proof. exact p_mp_atomicity. Qed.
Print Assumptions C03_p_mp_atomicity.

(* coherence between any two states of any iteration of it *)
Theorem C03_p_mp_coherence :
  forall (pa : path) (e e' : exec) (s : atomic_state) (t i j : nat),
       Explored 2000 p_mp (initial_path cfgT) pa ->
       steps (init_exec p_mp pa) e ->
       steps e e' ->
       get_atomic e 0 = Some s ->
       t < MAX_THREADS ->
       i < at_cnt s ->
       j < at_cnt s ->
       vv_lt (mo s i) (mo s j) = true ->
       is_seen_by_current (st_seen (get_store s j)) (caus_of e t) = true ->
       exists s' : atomic_state,
         get_atomic e' 0 = Some s' /\
         (forall (ly : option nat) (o : ord) (l : list nat),
          match_load_to_stores s' t (vv_inc (caus_of e' t) t) ly o = Some l -> ~ In i l) /\
         (forall l : list nat, match_rmw_to_stores s' = Some l -> ~ In i l).
Proof. exact p_mp_coherence. Qed.
Print Assumptions C03_p_mp_coherence.

(* a reachable state of it really contains a live RMW store (slot 2, source slot 1) *)
Theorem C03_e_mp_rmw_store :
  exists (s : atomic_state) (sid : nat),
         get_atomic e_mp 0 = Some s /\ at_cnt s = 3 /\ st_rmw_src (get_store s 2) = Some (1, sid).
Proof. exact e_mp_rmw_store. Qed.
Print Assumptions C03_e_mp_rmw_store.

(* and the atomicity conclusion instantiated at that state: the source is mo-before the RMW store and no live store is between them *)
Theorem C03_p_mp_atomicity_instance :
  exists (s : atomic_state) (sid : nat),
         steps (init_exec p_mp (initial_path cfgT)) e_mp /\
         get_atomic e_mp 0 = Some s /\
         2 < at_cnt s /\
         st_rmw_src (get_store s 2) = Some (1, sid) /\
         1 < at_cnt s /\
         vv_lt (mo s 1) (mo s 2) = true /\
         (forall x : nat,
          x < at_cnt s -> vv_lt (mo s 1) (mo s x) && vv_lt (mo s x) (mo s 2) = false).
Proof. exact p_mp_atomicity_instance. Qed.
Print Assumptions C03_p_mp_atomicity_instance.

(* one concrete reachable access at which every clause of SideOK holds non-trivially: a candidate list of length >= 2, the replayed index in it, three stores in the ring *)
Theorem C03_side_instance :
  steps (init_exec p_sl (initial_path cfgT)) e17 /\
       e_active e17 = Some 1 /\
       nth_error (e_threads e17) 1 = Some t17 /\
       t_cont t17 = MLoadPost 0 Relaxed None :: rest17 /\
       SideOK 0 e17p 1 (MLoadPost 0 Relaxed None) /\
       (exists (s : atomic_state) (t0 : thread) (l : list nat) (e2 : exec) 
        (idx : nat),
          get_atomic e17p 0 = Some s /\
          get_thread e17p 1 = Some t0 /\
          micro_seed s 1 t0 (MLoadPost 0 Relaxed None) = Some (Some l) /\
          2 <= length l /\
          choose_store (causality_inc e17p 1) (Some l) = (e2, inl idx) /\
          In idx l /\ at_cnt s = 3 /\ at_cnt s < MAX_ATOMIC_HISTORY).
Proof. exact side_instance. Qed.
Print Assumptions C03_side_instance.

