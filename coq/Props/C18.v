(* C18 -- Spin loops that yield make progress and lose no exit outcome.
   Proved for every path: exceeding max_branches is reported by a panic at the
   very next branch, never silently cut off. Completion of spin loops and the
   exit outcomes are compared with R (await = blocking read) by the oracle;
   the two Examples below are computed instances, not the general claim. *)
Require Import LV.Base LV.Path LV.PathSpec LV.Prog LV.Objects LV.Exec LV.Check LV.Ref LV.Outcome LV.Witness.

Theorem C18_branch_limit_at_schedule :
  forall p seed, is_traversed p = true -> cap p <= length (branches p) ->
    branch_thread p seed = PErr PBranchLimit.
Proof.
  intros p seed Ht Hc. unfold branch_thread. rewrite Ht.
  unfold path_len_ok. apply Nat.ltb_ge in Hc. rewrite Hc. reflexivity.
Qed.
Print Assumptions C18_branch_limit_at_schedule.

Theorem C18_branch_limit_at_load :
  forall p seed, cap p <= length (branches p) -> push_load p seed = PErr PBranchLimit.
Proof.
  intros p seed Hc. unfold push_load, path_len_ok. apply Nat.ltb_ge in Hc. rewrite Hc. reflexivity.
Qed.
Print Assumptions C18_branch_limit_at_load.

Theorem C18_below_limit_no_limit_panic :
  forall p seed, length (branches p) < cap p -> push_load p seed <> PErr PBranchLimit.
Proof.
  intros p seed Hc. unfold push_load, path_len_ok. apply Nat.ltb_lt in Hc. rewrite Hc.
  cbn [negb]. intros H.
  destruct (negb (forallb (fun v => Nat.ltb v MAX_ATOMIC_HISTORY) seed)); [discriminate H|].
  destruct (Nat.ltb MAX_ATOMIC_HISTORY (length seed)); discriminate H.
Qed.
Print Assumptions C18_below_limit_no_limit_panic.

(* computed instance: a loop whose condition never holds ends in the branch-limit panic *)
Definition p_never : prog :=
  mkProg (mkConfig 5 60 None None None false) [DAtomic 0]
    [[ISpawn 1; IAwait 0 5 Acquire; IJoin 1]; [IStore 0 1 Release]].
Example C18_never_true_hits_branch_limit :
  fin_of p_never = RunPanic (PanicPath PBranchLimit).
Proof. vm_compute. reflexivity. Qed.

(* computed instance: message passing through a spin loop explores exactly R's exits *)
Definition p_spin : prog :=
  mkProg cfg0 [DAtomic 0; DAtomic 0]
    [[ISpawn 1; IAwait 0 1 Acquire; ILoad 1 Relaxed; IJoin 1];
     [IStore 1 7 Relaxed; IStore 0 1 Release]].
Example C18_spin_completes : fin_of p_spin = RunOk.
Proof. vm_compute. reflexivity. Qed.

(* ==== appended by tools/mkprops.py (APPEND table) ==== *)

Require Import LV.Base LV.VV LV.VVFacts LV.Path LV.PathSpec LV.PathTerm LV.PathDistinct LV.PathApi LV.Prog LV.Objects LV.Exec LV.Atomic LV.Ops LV.Check LV.ExecFacts LV.YieldFacts.

(* Yield scheduling (YieldFacts.v): the decisions of Execution::schedule after yield_now *)
(* a thread that yields is not chosen while another thread is runnable: the spin loop lets the writer run *)
Theorem C18_yield_other_runnable :
  forall (e : exec) (me : nat) (t : thread) (i : nat) (th : thread),
       e_active e = Some me ->
       nth_error (e_threads e) me = Some t ->
       yield_room e me ->
       i <> me ->
       nth_error (e_threads e) i = Some th ->
       is_runnable th = true ->
       exists (e2 : exec) (nx : nat) (thx : thread),
         schedule (yield_state e me) = (MOk e2, true) /\
         e_active e2 = Some nx /\
         nx <> me /\ nth_error (e_threads e) nx = Some thx /\ is_runnable thx = true.
Proof. exact yield_other_runnable. Qed.
Print Assumptions C18_yield_other_runnable.

(* if nothing else can run the yielded thread continues (no false deadlock) *)
Theorem C18_yield_alone_continues :
  forall (e : exec) (me : nat) (t : thread),
       e_active e = Some me ->
       nth_error (e_threads e) me = Some t ->
       yield_room e me ->
       (forall (i : nat) (th : thread),
        i <> me ->
        nth_error (e_threads e) i = Some th -> is_runnable th = false /\ is_yield th = false) ->
       exists e2 : exec,
         schedule (yield_state e me) = (MOk e2, false) /\
         e_active e2 = Some me /\
         (exists t2 : thread,
            nth_error (e_threads e2) me = Some t2 /\ t_state t2 = Yielded /\ t_cont t2 = t_cont t).
Proof. exact yield_alone_continues. Qed.
Print Assumptions C18_yield_alone_continues.

(* after a scheduling decision every other yielded thread is runnable again *)
Theorem C18_yield_others_reactivated :
  forall (e e2 : exec) (nx i : nat) (th : thread),
       fst (schedule e) = MOk e2 ->
       e_active e2 = Some nx ->
       i <> nx ->
       nth_error (e_threads e) i = Some th ->
       is_yield th = true ->
       exists th2 : thread,
         nth_error (e_threads e2) i = Some th2 /\
         is_runnable th2 = true /\ t_cont th2 = t_cont th /\ t_op th2 = t_op th.
Proof. exact yield_others_reactivated. Qed.
Print Assumptions C18_yield_others_reactivated.

(* schedule never fails while some thread is runnable or yielded and the stack has room *)
Theorem C18_schedule_succeeds :
  forall (e : exec) (curr : nat) (cur_th : thread) (nx : nat),
       sched_room e ->
       e_active e = Some curr ->
       nth_error (e_threads e) curr = Some cur_th ->
       seed_choice (sched_seed (e_threads e) curr cur_th) = Some nx ->
       exists e2 : exec, schedule e = (MOk e2, negb (curr =? nx)) /\ e_active e2 = Some nx.
Proof. exact schedule_succeeds. Qed.
Print Assumptions C18_schedule_succeeds.

