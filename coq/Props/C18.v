(* C18 -- Spin loops that yield make progress and lose no exit outcome.
   Proved for every path: exceeding max_branches is reported by a panic at the
   very next branch, never silently cut off. Completion of spin loops and the
   exit outcomes are compared with R (await = blocking read) by the oracle;
   the two Examples below are computed instances, not the general claim. *)
Require Import LV.Base LV.Path LV.PathSpec LV.Prog LV.Objects LV.Exec LV.Check LV.Ref LV.Outcome LV.Witness.

Theorem C18_branch_limit_at_schedule :
  forall p seed, is_traversed p = true -> cap p <= length (branches p) ->
    branch_thread p seed = PErr PBranchLimit.
Proof.
  intros p seed Ht Hc. unfold branch_thread. rewrite Ht.
  unfold path_len_ok. apply Nat.ltb_ge in Hc. rewrite Hc. reflexivity.
Qed.
Print Assumptions C18_branch_limit_at_schedule.

Theorem C18_branch_limit_at_load :
  forall p seed, cap p <= length (branches p) -> push_load p seed = PErr PBranchLimit.
Proof.
  intros p seed Hc. unfold push_load, path_len_ok. apply Nat.ltb_ge in Hc. rewrite Hc. reflexivity.
Qed.
Print Assumptions C18_branch_limit_at_load.

Theorem C18_below_limit_no_limit_panic :
  forall p seed, length (branches p) < cap p -> push_load p seed <> PErr PBranchLimit.
Proof.
  intros p seed Hc. unfold push_load, path_len_ok. apply Nat.ltb_lt in Hc. rewrite Hc.
  cbn [negb]. intros H.
  destruct (negb (forallb (fun v => Nat.ltb v MAX_ATOMIC_HISTORY) seed)); [discriminate H|].
  destruct (Nat.ltb MAX_ATOMIC_HISTORY (length seed)); discriminate H.
Qed.
Print Assumptions C18_below_limit_no_limit_panic.

(* computed instance: a loop whose condition never holds ends in the branch-limit panic *)
Definition p_never : prog :=
  mkProg (mkConfig 5 60 None None None false) [DAtomic 0]
    [[ISpawn 1; IAwait 0 5 Acquire; IJoin 1]; [IStore 0 1 Release]].
Example C18_never_true_hits_branch_limit :
  fin_of p_never = RunPanic (PanicPath PBranchLimit).
Proof. vm_compute. reflexivity. Qed.

(* computed instance: message passing through a spin loop explores exactly R's exits *)
Definition p_spin : prog :=
  mkProg cfg0 [DAtomic 0; DAtomic 0]
    [[ISpawn 1; IAwait 0 1 Acquire; ILoad 1 Relaxed; IJoin 1];
     [IStore 1 7 Relaxed; IStore 0 1 Release]].
Example C18_spin_completes : fin_of p_spin = RunOk.
Proof. vm_compute. reflexivity. Qed.
