(* C11 -- loom::sync::Arc: counter machine and drop ordering (local lemmas).
   Statements restated in full, closed with exact, assumptions printed. *)
Require Import LV.Base LV.VV LV.VVFacts LV.Path LV.PathSpec LV.Prog LV.Objects LV.Exec LV.Atomic LV.Ops LV.Check LV.Ref LV.Outcome LV.Witness LV.SyncFacts LV.CheckFacts LV.ExecFacts LV.SyncMono.

(* clone increments the count and transfers no causality *)
Theorem C11_clone_counts :
  forall (e : exec) (me k j0 : nat) (s : arc_state) (e' : exec),
       get_arc e k = Some s ->
       exec_micro e me (MArcIncPost k j0) = MOk e' ->
       (forall j : nat, caus_of e' j = caus_of e j) /\
       (exists s' : arc_state,
          get_arc e' k = Some s' /\ arc_sync s' = arc_sync s /\ arc_cnt s' = S (arc_cnt s)).
Proof. exact arc_inc_post_no_transfer. Qed.
Print Assumptions C11_clone_counts.

(* a drop decrements the count and publishes its clock; the drop that reaches zero acquires all of them *)
Theorem C11_drop_publishes :
  forall (e : exec) (me k : nat) (u : bool) (s : arc_state) (e' : exec),
       get_arc e k = Some s ->
       exec_micro e me (MArcDecPost k u) = MOk e' ->
       exists (cnt : nat) (s' : arc_state),
         arc_cnt s = S cnt /\
         get_arc e' k = Some s' /\
         arc_cnt s' = cnt /\
         vle (caus_of e me) (arc_sync s') /\
         vle (arc_sync s) (arc_sync s') /\
         vle (caus_of e me) (caus_of e' me) /\
         (cnt = 0 -> me < length (e_threads e) -> vle (arc_sync s') (caus_of e' me)) /\
         (cnt <> 0 -> caus_of e' me = caus_of e me).
Proof. exact arc_dec_post_publishes. Qed.
Print Assumptions C11_drop_publishes.

(* dropping at count 0 is loom's 'Arc is already released' failure *)
Theorem C11_drop_of_released_fails :
  forall (e : exec) (me k : nat) (u : bool) (s : arc_state),
       get_arc e k = Some s ->
       arc_cnt s = 0 -> exec_micro e me (MArcDecPost k u) = MFail e PanicArcReleased.
Proof. exact arc_dec_post_released_fails. Qed.
Print Assumptions C11_drop_of_released_fails.

(* every earlier drop of a handle happens-before the final drop *)
Theorem C11_drop_handover :
  forall (e : exec) (a k : nat) (u : bool) (s : arc_state) (e1 : exec) 
         (s1 : arc_state) (e2 : exec) (b : nat) (u2 : bool) (s2 : arc_state) 
         (e3 : exec),
       get_arc e k = Some s ->
       exec_micro e a (MArcDecPost k u) = MOk e1 ->
       get_arc e1 k = Some s1 ->
       get_arc e2 k = Some s2 ->
       vle (arc_sync s1) (arc_sync s2) ->
       arc_cnt s2 = 1 ->
       exec_micro e2 b (MArcDecPost k u2) = MOk e3 ->
       b < length (e_threads e2) -> vle (caus_of e a) (caus_of e3 b).
Proof. exact arc_drop_handover. Qed.
Print Assumptions C11_drop_handover.

(* GLOBAL: a drop happens-before the final drop over any number of intermediate steps *)
Theorem C11_drop_handover_global :
  forall (e : exec) (a k : nat) (u : bool) (e1 e2 : exec) (b : nat) 
         (u2 : bool) (s2 : arc_state) (e3 : exec),
       exec_micro e a (MArcDecPost k u) = MOk e1 ->
       steps e1 e2 ->
       get_arc e2 k = Some s2 ->
       arc_cnt s2 = 1 ->
       exec_micro e2 b (MArcDecPost k u2) = MOk e3 ->
       b < length (e_threads e2) -> vle (caus_of e a) (caus_of e3 b).
Proof. exact arc_drop_handover_global. Qed.
Print Assumptions C11_drop_handover_global.

(* get_mut / try_unwrap decide on the count at their step and acquire *)
Theorem C11_get_mut_reads_count :
  forall (e : exec) (me k i : nat) (u : bool) (s : arc_state) (e' : exec),
       get_arc e k = Some s ->
       exec_micro e me (MArcGetMutPost k i u) = MOk e' ->
       me < length (e_threads e) ->
       arc_cnt s <> 0 /\
       vle (arc_sync s) (caus_of e' me) /\
       vle (caus_of e me) (caus_of e' me) /\ get_arc e' k = Some s.
Proof. exact arc_get_mut_post_acquires. Qed.
Print Assumptions C11_get_mut_reads_count.

(* strong_count returns the count at its step *)
Theorem C11_strong_count_reads_count :
  forall (e : exec) (me k : nat) (s : arc_state) (e' : exec),
       get_arc e k = Some s ->
       exec_micro e me (MArcCountPost k) = MOk e' ->
       me < length (e_threads e) ->
       arc_cnt s <> 0 /\
       vle (arc_sync s) (caus_of e' me) /\
       vle (caus_of e me) (caus_of e' me) /\ get_arc e' k = Some s.
Proof. exact arc_count_post_acquires. Qed.
Print Assumptions C11_strong_count_reads_count.

(* ==== appended by tools/mkprops.py (APPEND table) ==== *)

Require Import LV.Base LV.VV LV.VVFacts LV.Path LV.PathSpec LV.PathTerm LV.PathDistinct LV.PathApi LV.Prog LV.Objects LV.Exec LV.Atomic LV.Ops LV.Check LV.CountFacts.

(* Reference count = live handles, over whole runs (CountFacts.v) *)
(* every run whose handle uses are disciplined (no clone into an occupied slot, no try_unwrap racing a drop of the same handle: both impossible in safe Rust): count = live handles + drops in flight *)
Theorem C11_run_count_inv :
  forall (fuel : nat) (p : prog) (pa : path),
       run_disc fuel (init_exec p pa) = true -> count_inv (fst (run fuel (init_exec p pa))).
Proof. exact run_count_inv. Qed.
Print Assumptions C11_run_count_inv.

(* strong_count returns exactly that number *)
Theorem C11_strong_count_is_live_handles :
  forall (e : exec) (me : nat) (t : thread) (k : nat) (e' : exec),
       arc_inv e ->
       k < length (e_h e) ->
       get_thread e me = Some t ->
       exec_micro e me (MArcCountPost k) = MOk e' ->
       e_log e' = LOp (t_body t) (t_pc t) (RVal (N.of_nat (live e k + pend e k))) :: e_log e.
Proof. exact strong_count_is_live_handles. Qed.
Print Assumptions C11_strong_count_is_live_handles.

(* the value is destroyed exactly by the drop that removes the last handle *)
Theorem C11_final_drop_iff_last_handle :
  forall (e : exec) (me : nat) (t : thread) (k : nat) (u : bool) (rest : list micro)
         (e' : exec),
       arc_inv e ->
       k < length (e_h e) ->
       nth_error (e_threads e) me = Some t ->
       t_cont t = MArcDecPost k u :: rest ->
       exec_micro (pop e me rest) me (MArcDecPost k u) = MOk e' ->
       destroys e e' k <-> live e k = 0 /\ pend e k = 1.
Proof. exact final_drop_iff_last_handle. Qed.
Print Assumptions C11_final_drop_iff_last_handle.

(* the 'already released' failure is unreachable *)
Theorem C11_no_double_release :
  forall (e : exec) (me : nat) (t : thread) (k : nat) (u : bool) (rest : list micro),
       arc_inv e ->
       k < length (e_h e) ->
       nth_error (e_threads e) me = Some t ->
       t_cont t = MArcDecPost k u :: rest ->
       forall e2 : exec,
       exec_micro (pop e me rest) me (MArcDecPost k u) <> MFail e2 PanicArcReleased.
Proof. exact no_double_release. Qed.
Print Assumptions C11_no_double_release.

(* try_unwrap / get_mut succeed exactly for a unique handle *)
Theorem C11_try_unwrap_iff_unique :
  forall (e : exec) (k i : nat) (s : arc_state),
       arc_inv e ->
       k < length (e_h e) ->
       get_arc e k = Some s ->
       slot_present e k i = true -> (arc_cnt s =? 1) = true <-> live e k = 1 /\ pend e k = 0.
Proof. exact try_unwrap_iff_unique. Qed.
Print Assumptions C11_try_unwrap_iff_unique.

