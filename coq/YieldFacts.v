(* YieldFacts: yield scheduling (C18 "spin loops that yield make progress").

   ExecFacts (Part C) proves what schedule chooses GIVEN that it returns MOk.
   This file adds that it DOES return MOk when the path is traversed (not
   replaying), the DPOR loop succeeds and the path has room, and what the
   choice is in the two situations of a yielding thread.

   Contents
     1. the seed has at most one Active entry (seed_active_le1)
     2. branch_thread_succeeds: on a traversed path with room, a seed of at
        most MAX_THREADS entries with at most one Active entry and a path
        satisfying the preemption invariant c15_inv, branch_thread returns
        POk (_, seed_choice seed)
     3. schedule_succeeds: the corresponding statement for schedule
        (room = sched_room), schedule_total: every outcome of schedule under
        sched_room
     4. the seed when no thread is runnable (seed_no_runnable,
        seed_choice_no_runnable: the first Yielded thread is chosen)
     5. the state after rt::yield_now: yield_state, its threads
     6. C.1 yield_other_runnable, C.2 yield_alone_continues (and the general
        form yield_no_runnable_first_yielded), C.3 yield_others_reactivated,
        do_yield_* corollaries on exec_micro e me MYield

   DEVIATIONS from the requested statements: see the end of the file. *)
Require Import LV.Base LV.VV LV.VVFacts LV.Path LV.PathSpec LV.PathApi LV.Prog LV.Objects
               LV.Exec LV.Atomic LV.Ops LV.Check LV.SyncFacts LV.ExecFacts.
From Coq Require Import List Arith Lia Bool.
Import ListNotations.

(* ================================================================== *)
(* 1. The seed has at most one Active entry                            *)
(* ================================================================== *)

Lemma seed_class_inactive th : is_active (seed_class th) = false.
Proof.
  unfold seed_class. destruct (is_yield th); [reflexivity|].
  destruct (negb (is_runnable th)); reflexivity.
Qed.

Lemma seed_active_count l : forall k init,
  length (filter is_active (seed_loop (index_list_from k l) init)) <= 1 /\
  (forall j, init = Some j -> j < k ->
     filter is_active (seed_loop (index_list_from k l) init) = []).
Proof.
  induction l as [|h t IH]; intros k init; cbn [index_list_from seed_loop filter].
  - split; [cbn; lia|reflexivity].
  - fold (seed_class h).
    destruct init as [j|].
    + cbn [opt_nat_eqb]. destruct (IH (S k) (Some j)) as [IH1 IH2].
      destruct (Nat.eqb_spec j k) as [->|Hne].
      * change (is_active Active) with true. cbv iota.
        rewrite (IH2 k eq_refl (Nat.lt_succ_diag_r k)). split; [cbn; lia|].
        intros j Hj Hlt. injection Hj as <-. lia.
      * rewrite seed_class_inactive. split; [exact IH1|].
        intros j' Hj Hlt. injection Hj as <-. apply (IH2 j eq_refl). lia.
    + destruct (is_runnable h) eqn:Hr.
      * cbn [opt_nat_eqb]. rewrite Nat.eqb_refl. change (is_active Active) with true. cbv iota.
        destruct (IH (S k) (Some k)) as [_ IH2].
        rewrite (IH2 k eq_refl (Nat.lt_succ_diag_r k)). split; [cbn; lia|]. discriminate.
      * cbn [opt_nat_eqb]. rewrite seed_class_inactive.
        destruct (IH (S k) None) as [IH1 _]. split; [exact IH1|]. discriminate.
Qed.

Lemma seed_active_le1 l curr cur_th : length (filter is_active (sched_seed l curr cur_th)) <= 1.
Proof. unfold sched_seed, index_list. apply (proj1 (seed_active_count l 0 _)). Qed.

Lemma sched_seed_length l curr cur_th : length (sched_seed l curr cur_th) = length l.
Proof. unfold sched_seed, index_list. rewrite seed_loop_length. apply index_list_from_length. Qed.

(* ================================================================== *)
(* 2. branch_thread succeeds                                           *)
(* ================================================================== *)

Lemma get_sched_In b i s : get_sched b i = Some s -> In (ESched s) b.
Proof. intros H. apply get_sched_nth in H. eapply nth_error_In; exact H. Qed.

Lemma branch_thread_succeeds p seed :
  is_traversed p = true -> path_len_ok p = true ->
  length seed <= MAX_THREADS -> length (filter is_active seed) <= 1 -> c15_inv p ->
  exists p', branch_thread p seed = POk (p', seed_choice seed) /\
             is_traversed p' = true /\ length (branches p') = S (length (branches p)) /\
             cap p' = cap p /\ bound p' = bound p.
Proof.
  intros Htr Hlen Hseed Hact Hc15.
  assert (Hex : exists p' t, branch_thread p seed = POk (p', t) /\
             is_traversed p' = true /\ length (branches p') = S (length (branches p)) /\
             cap p' = cap p /\ bound p' = bound p).
  { unfold branch_thread. rewrite Htr, Hlen. cbn [negb].
    apply Nat.ltb_ge in Hseed. rewrite Hseed.
    assert (Ha : Nat.ltb 1 (length (filter is_active seed)) = false) by (apply Nat.ltb_ge; lia).
    rewrite Ha. cbv zeta.
    match goal with
    | |- context [mkSched ?pre ?ia ?th ?prev ?ex] =>
        set (PRE := pre); set (IA := ia); set (TH := th); set (PREV := prev)
    end.
    assert (Hb : opt_le_bound PRE (bound p) = true).
    { unfold opt_le_bound. destruct (bound p) as [bd|] eqn:Hbd; [|reflexivity].
      apply Nat.leb_le. subst PRE.
      destruct (last_schedule p) as [i|]; [|lia].
      destruct (get_sched (branches p) i) as [ps|] eqn:Hps; [|lia].
      eapply preemptions_le_bound; [exact Hc15|exact Hbd|]. eapply get_sched_In; exact Hps. }
    rewrite Hb. cbn [negb]. cbv iota. cbn [set_branches branches pos].
    unfold is_traversed in Htr. apply Nat.eqb_eq in Htr.
    rewrite Htr, nth_error_app2, Nat.sub_diag by apply Nat.le_refl. cbn [nth_error].
    eexists. eexists. split; [reflexivity|].
    unfold is_traversed. cbn [set_pos pos branches cap bound].
    cbn [set_branches branches cap bound]. rewrite app_length. cbn [length]. rewrite Nat.add_1_r.
    split; [apply Nat.eqb_refl|]. auto. }
  destruct Hex as (p' & t & Hb & Hrest). exists p'. split; [|exact Hrest].
  rewrite Hb. f_equal. f_equal. eapply branch_thread_traversed; eassumption.
Qed.

(* ================================================================== *)
(* 3. schedule succeeds                                                *)
(* ================================================================== *)

(* "the path is traversed, the DPOR loop succeeds and the path has room" *)
Definition sched_room (e : exec) : Prop :=
  is_traversed (e_path e) = true /\
  (exists p1, dpor_loop (e_objects e) (index_list (e_threads e)) (e_path e) = POk p1) /\
  length (branches (e_path e)) < cap (e_path e) /\
  length (e_threads e) <= MAX_THREADS /\
  c15_inv (e_path e).

Lemma sched_room_prefix e curr cur_th :
  sched_room e -> e_active e = Some curr -> nth_error (e_threads e) curr = Some cur_th ->
  exists p1 p2,
    sched_prefix e curr cur_th p1 p2 (seed_choice (sched_seed (e_threads e) curr cur_th)).
Proof.
  intros (Htr & (p1 & Hd) & Hcap & Hmax & Hc15) Ha Hc.
  destruct (dpor_loop_shape _ _ _ _ Hd) as [Hpos Hlen].
  destruct (dpor_loop_ok _ _ _ _ Hd) as ((_ & Hcap1 & _) & _ & Hc1).
  destruct (branch_thread_succeeds p1 (sched_seed (e_threads e) curr cur_th)) as (p2 & Hb & _).
  - rewrite (dpor_loop_traversed _ _ _ _ Hd). exact Htr.
  - unfold path_len_ok. apply Nat.ltb_lt. rewrite Hlen, Hcap1. exact Hcap.
  - rewrite sched_seed_length. exact Hmax.
  - apply seed_active_le1.
  - auto.
  - exists p1, p2. unfold sched_prefix. auto.
Qed.

(* every outcome of schedule when there is room *)
Theorem schedule_total e curr cur_th :
  sched_room e -> e_active e = Some curr -> nth_error (e_threads e) curr = Some cur_th ->
  exists p1 p2,
    sched_prefix e curr cur_th p1 p2 (seed_choice (sched_seed (e_threads e) curr cur_th)) /\
    schedule e =
    sched_post (sched_base e p2 (seed_choice (sched_seed (e_threads e) curr cur_th))) curr (pos p1)
               (seed_choice (sched_seed (e_threads e) curr cur_th)).
Proof.
  intros Hroom Ha Hc. destruct (sched_room_prefix e curr cur_th Hroom Ha Hc) as (p1 & p2 & Hp).
  exists p1, p2. split; [exact Hp|]. destruct Hp as (_ & _ & Hd & Hb).
  rewrite schedule_unfold, Ha, Hc, Hd, Hb. reflexivity.
Qed.

(* if a thread can be chosen, schedule returns MOk and that thread is active *)
Theorem schedule_succeeds e curr cur_th nx :
  sched_room e -> e_active e = Some curr -> nth_error (e_threads e) curr = Some cur_th ->
  seed_choice (sched_seed (e_threads e) curr cur_th) = Some nx ->
  exists e2, schedule e = (MOk e2, negb (Nat.eqb curr nx)) /\ e_active e2 = Some nx.
Proof.
  intros Hroom Ha Hc Hch.
  destruct (schedule_total e curr cur_th Hroom Ha Hc) as (p1 & p2 & _ & Hs).
  rewrite Hch in Hs. rewrite Hs. unfold sched_post.
  destruct (seed_choice_sound _ _ _ _ Hc Hch) as (th & Hth & _).
  change (e_threads (sched_base e p2 (Some nx))) with (e_threads e). rewrite Hth.
  eexists. split; [reflexivity|]. cbn [e_active ex_set_threads]. rewrite sched_note_active. reflexivity.
Qed.

(* ================================================================== *)
(* 4. The seed when no thread is runnable                              *)
(* ================================================================== *)

Lemma pick_initial_no_runnable all l k init :
  Forall (fun t => is_runnable t = false) l ->
  pick_initial all (index_list_from k l) init = init.
Proof.
  intros H. revert k init. induction H as [|h t Hh Ht IH]; intros k init;
    cbn [index_list_from pick_initial]; [reflexivity|].
  rewrite Hh. cbn [negb]. apply IH.
Qed.

Lemma seed_loop_no_runnable l k :
  Forall (fun t => is_runnable t = false) l ->
  seed_loop (index_list_from k l) None = map seed_class l.
Proof.
  intros H. revert k. induction H as [|h t Hh Ht IH]; intros k;
    cbn [index_list_from seed_loop map]; [reflexivity|].
  fold (seed_class h). rewrite Hh. cbn [opt_nat_eqb]. rewrite IH. reflexivity.
Qed.

Lemma seed_no_runnable l curr cur_th :
  nth_error l curr = Some cur_th ->
  Forall (fun t => is_runnable t = false) l ->
  sched_seed l curr cur_th = map seed_class l.
Proof.
  intros Hc H. unfold sched_seed, sched_initial, index_list.
  rewrite Forall_forall in H. rewrite (H _ (nth_error_In _ _ Hc)).
  rewrite pick_initial_no_runnable by (rewrite Forall_forall; exact H).
  apply seed_loop_no_runnable. rewrite Forall_forall. exact H.
Qed.

Lemma find_index_map_class l :
  Forall (fun t => is_runnable t = false) l ->
  find_index is_active (map seed_class l) = None /\
  find_index is_tyield (map seed_class l) = find_index is_yield l.
Proof.
  intros H. induction H as [|h t Hh Ht [IH1 IH2]]; cbn [map find_index]; [auto|].
  rewrite seed_class_inactive, IH1, IH2. cbn [option_map]. split; [reflexivity|].
  unfold seed_class. rewrite Hh. destruct (is_yield h); reflexivity.
Qed.

(* no runnable thread: the first Yielded thread (in index order) is chosen *)
Lemma seed_choice_no_runnable l curr cur_th :
  nth_error l curr = Some cur_th ->
  Forall (fun t => is_runnable t = false) l ->
  seed_choice (sched_seed l curr cur_th) = find_index is_yield l.
Proof.
  intros Hc H. rewrite (seed_no_runnable l curr cur_th Hc H). unfold seed_choice.
  destruct (find_index_map_class l H) as [-> ->]. reflexivity.
Qed.

Lemma find_index_unique (A : Type) (f : A -> bool) l : forall n y,
  nth_error l n = Some y -> f y = true ->
  (forall i x, nth_error l i = Some x -> f x = true -> i = n) ->
  find_index f l = Some n.
Proof.
  induction l as [|h t IH]; intros n y Hn Hy Hu; [destruct n; discriminate|].
  cbn [find_index]. destruct (f h) eqn:Hh.
  - f_equal. exact (Hu 0 h eq_refl Hh).
  - destruct n as [|n]; cbn [nth_error] in Hn; [injection Hn as ->; congruence|].
    rewrite (IH n y Hn Hy); [reflexivity|].
    intros i x Hi Hx. specialize (Hu (S i) x Hi Hx). lia.
Qed.

Lemma find_index_le (A : Type) (f : A -> bool) l : forall n m y,
  find_index f l = Some n -> nth_error l m = Some y -> f y = true -> n <= m.
Proof.
  induction l as [|h t IH]; intros n m y Hf Hm Hy; [destruct m; discriminate|].
  cbn [find_index] in Hf. destruct (f h) eqn:Hh; [injection Hf as <-; lia|].
  destruct (find_index f t) as [n'|] eqn:Hf'; cbn [option_map] in Hf; [|discriminate].
  injection Hf as <-. destruct m as [|m]; cbn [nth_error] in Hm.
  - injection Hm as ->. congruence.
  - specialize (IH n' m y eq_refl Hm Hy). lia.
Qed.

(* ================================================================== *)
(* 5. The state after rt::yield_now                                    *)
(* ================================================================== *)

Definition yield_thread (me : nat) (t : thread) : thread := th_set_op (set_yield me t) None.
Definition yield_state (e : exec) (me : nat) : exec := upd_thread e me (yield_thread me).

Lemma do_yield_eq e me : do_yield e me = fst (schedule (yield_state e me)).
Proof. reflexivity. Qed.

Lemma exec_micro_yield e me : exec_micro e me MYield = fst (schedule (yield_state e me)).
Proof. reflexivity. Qed.

Lemma yield_state_me e me t :
  nth_error (e_threads e) me = Some t ->
  nth_error (e_threads (yield_state e me)) me = Some (yield_thread me t).
Proof.
  intros Ht. change (get_thread (yield_state e me) me = Some (yield_thread me t)).
  unfold yield_state. rewrite get_thread_upd_thread_same. unfold get_thread. rewrite Ht. reflexivity.
Qed.

Lemma yield_state_other e me i :
  i <> me -> nth_error (e_threads (yield_state e me)) i = nth_error (e_threads e) i.
Proof.
  intros Hne. change (get_thread (yield_state e me) i = get_thread e i).
  unfold yield_state. apply get_thread_upd_thread_other. auto.
Qed.

Lemma yield_thread_state me t :
  is_yield (yield_thread me t) = true /\ is_runnable (yield_thread me t) = false /\
  t_op (yield_thread me t) = None.
Proof. repeat split. Qed.

Lemma yield_state_length e me : length (e_threads (yield_state e me)) = length (e_threads e).
Proof. apply length_threads_upd_thread. Qed.

(* the side conditions, on the state the thread yields in.  The DPOR loop
   runs on the thread table AFTER set_yield: the yielding thread has no
   pending operation any more (t_op = None), the other threads are unchanged *)
Definition yield_room (e : exec) (me : nat) : Prop :=
  is_traversed (e_path e) = true /\
  (exists p1, dpor_loop (e_objects e) (index_list (e_threads (yield_state e me))) (e_path e) = POk p1) /\
  length (branches (e_path e)) < cap (e_path e) /\
  length (e_threads e) <= MAX_THREADS /\
  c15_inv (e_path e).

Lemma yield_room_sched e me : yield_room e me -> sched_room (yield_state e me).
Proof.
  intros (H1 & H2 & H3 & H4 & H5). unfold sched_room.
  change (e_path (yield_state e me)) with (e_path e).
  change (e_objects (yield_state e me)) with (e_objects e).
  rewrite yield_state_length. auto.
Qed.

(* ================================================================== *)
(* 6. The three statements                                             *)
(* ================================================================== *)

(* C.1: another thread can run: schedule succeeds and chooses a thread that
   was Runnable, hence not the yielding one *)
Theorem yield_other_runnable e me t i th :
  e_active e = Some me -> nth_error (e_threads e) me = Some t -> yield_room e me ->
  i <> me -> nth_error (e_threads e) i = Some th -> is_runnable th = true ->
  exists e2 nx thx,
    schedule (yield_state e me) = (MOk e2, true) /\
    e_active e2 = Some nx /\ nx <> me /\
    nth_error (e_threads e) nx = Some thx /\ is_runnable thx = true.
Proof.
  intros Ha Ht Hroom Hne Hi Hr.
  pose proof (yield_state_me e me t Ht) as Hme.
  assert (Hex : exists x, In x (e_threads (yield_state e me)) /\ is_runnable x = true).
  { exists th. split; [|exact Hr]. eapply nth_error_In. rewrite yield_state_other by exact Hne. exact Hi. }
  destruct (yielder_not_first _ _ _ Hme Hex) as (j & thj & _ & Hj & Hrj & _ & _ & _ & Hch).
  assert (Hjm : j <> me).
  { intros ->. rewrite Hme in Hj. injection Hj as <-. discriminate Hrj. }
  destruct (schedule_succeeds (yield_state e me) me _ j (yield_room_sched e me Hroom) Ha Hme Hch)
    as (e2 & Hs & Hact).
  exists e2, j, thj. rewrite Hs.
  replace (Nat.eqb me j) with false by (symmetry; apply Nat.eqb_neq; auto).
  split; [reflexivity|]. split; [exact Hact|]. split; [exact Hjm|].
  rewrite yield_state_other in Hj by exact Hjm. auto.
Qed.

(* C.2, general form: no other thread is Runnable: schedule succeeds and
   chooses the first Yielded thread in index order *)
Theorem yield_no_runnable_first_yielded e me t :
  e_active e = Some me -> nth_error (e_threads e) me = Some t -> yield_room e me ->
  (forall i th, i <> me -> nth_error (e_threads e) i = Some th -> is_runnable th = false) ->
  exists e2 nx,
    find_index is_yield (e_threads (yield_state e me)) = Some nx /\
    schedule (yield_state e me) = (MOk e2, negb (Nat.eqb me nx)) /\
    e_active e2 = Some nx /\ nx <= me.
Proof.
  intros Ha Ht Hroom Hnr.
  pose proof (yield_state_me e me t Ht) as Hme.
  assert (Hall : Forall (fun x => is_runnable x = false) (e_threads (yield_state e me))).
  { rewrite Forall_forall. intros x Hx. destruct (In_nth_error _ _ Hx) as (i & Hi).
    destruct (Nat.eq_dec i me) as [->|Hne].
    - rewrite Hme in Hi. injection Hi as <-. reflexivity.
    - rewrite yield_state_other in Hi by exact Hne. eapply Hnr; eassumption. }
  pose proof (seed_choice_no_runnable _ _ _ Hme Hall) as Hch.
  destruct (find_index is_yield (e_threads (yield_state e me))) as [nx|] eqn:Hfi.
  - destruct (schedule_succeeds (yield_state e me) me _ nx (yield_room_sched e me Hroom) Ha Hme Hch)
      as (e2 & Hs & Hact).
    exists e2, nx. split; [reflexivity|]. split; [exact Hs|]. split; [exact Hact|].
    (* the first yielded thread is at or before me *)
    exact (find_index_le _ is_yield _ nx me _ Hfi Hme eq_refl).
  - apply find_index_None in Hfi. rewrite Forall_forall in Hfi.
    specialize (Hfi _ (nth_error_In _ _ Hme)). discriminate Hfi.
Qed.

(* C.2: all other threads are blocked or terminated (none runnable, none
   yielded): the yielding thread continues; no false deadlock *)
Theorem yield_alone_continues e me t :
  e_active e = Some me -> nth_error (e_threads e) me = Some t -> yield_room e me ->
  (forall i th, i <> me -> nth_error (e_threads e) i = Some th ->
                is_runnable th = false /\ is_yield th = false) ->
  exists e2,
    schedule (yield_state e me) = (MOk e2, false) /\ e_active e2 = Some me /\
    exists t2, nth_error (e_threads e2) me = Some t2 /\ t_state t2 = Yielded /\ t_cont t2 = t_cont t.
Proof.
  intros Ha Ht Hroom Hoth.
  pose proof (yield_state_me e me t Ht) as Hme.
  destruct (yield_no_runnable_first_yielded e me t Ha Ht Hroom) as (e2 & nx & Hfi & Hs & Hact & _).
  { intros i th Hne Hi. exact (proj1 (Hoth i th Hne Hi)). }
  assert (Hnx : nx = me).
  { assert (Hu : find_index is_yield (e_threads (yield_state e me)) = Some me).
    { apply (find_index_unique _ is_yield _ me _ Hme eq_refl). intros i x Hi Hx.
      destruct (Nat.eq_dec i me) as [Heq|Hne]; [exact Heq|].
      rewrite yield_state_other in Hi by exact Hne.
      rewrite (proj2 (Hoth i x Hne Hi)) in Hx. discriminate Hx. }
    congruence. }
  subst nx. rewrite Nat.eqb_refl in Hs. exists e2. split; [exact Hs|]. split; [exact Hact|].
  assert (Hs' : fst (schedule (yield_state e me)) = MOk e2) by (rewrite Hs; reflexivity).
  destruct (schedule_ok_inv _ _ Hs') as (curr & cur_th & p1 & p2 & next & _ & Hnext & _ & Hn).
  rewrite Hact in Hnext. subst next. destruct Hn as (nth_ & Hnth & Hth2).
  rewrite Hth2, nth_error_reactivate.
  assert (Hsn : exists t2, nth_error (e_threads (sched_note (sched_base (yield_state e me) p2 (Some me))
                                                   me (pos p1) nth_)) me = Some t2 /\
                           t_state t2 = Yielded /\ t_cont t2 = t_cont t).
  { rewrite Hme in Hnth. injection Hnth as <-. unfold sched_note.
    cbn [yield_thread t_op th_set_op]. eexists. split; [exact Hme|]. split; reflexivity. }
  destruct Hsn as (t2 & -> & Hst & Hct). cbn [option_map]. rewrite Nat.eqb_refl.
  cbn [negb]. rewrite andb_false_r. eauto.
Qed.

(* C.3: after any successful schedule that picks nx, every OTHER thread that
   was Yielded is Runnable again: it is eligible at the next scheduling point *)
Theorem yield_others_reactivated e e2 nx i th :
  fst (schedule e) = MOk e2 -> e_active e2 = Some nx ->
  i <> nx -> nth_error (e_threads e) i = Some th -> is_yield th = true ->
  exists th2, nth_error (e_threads e2) i = Some th2 /\ is_runnable th2 = true /\
              t_cont th2 = t_cont th /\ t_op th2 = t_op th.
Proof.
  intros Hs Hact Hne Hth Hy.
  destruct (yield_reactivated e e2 i th Hs Hth Hy) as [H _]; [congruence|].
  exists (set_runnable th). split; [exact H|]. repeat split.
Qed.

(* and no thread is left Yielded except possibly the chosen one *)
Theorem schedule_only_active_yielded e e2 nx i th2 :
  fst (schedule e) = MOk e2 -> e_active e2 = Some nx ->
  nth_error (e_threads e2) i = Some th2 -> is_yield th2 = true -> i = nx.
Proof.
  intros Hs Hact Hth2 Hy.
  destruct (schedule_ok_inv _ _ Hs) as (curr & cur_th & p1 & p2 & next & _ & Hnext & _ & Hn).
  rewrite Hact in Hnext. subst next. destruct Hn as (nth_ & _ & Hth).
  rewrite Hth, nth_error_reactivate in Hth2.
  destruct (nth_error _ i) as [x|]; cbn [option_map] in Hth2; [|discriminate].
  destruct (Nat.eqb_spec i nx) as [Heq|Hne]; [exact Heq|]. cbn [negb] in Hth2.
  rewrite andb_true_r in Hth2. destruct (is_yield x) eqn:Hx; injection Hth2 as <-.
  - discriminate Hy.
  - congruence.
Qed.

(* ---- the same on the micro-operation MYield ---- *)
Corollary do_yield_other_runnable e me t i th :
  e_active e = Some me -> nth_error (e_threads e) me = Some t -> yield_room e me ->
  i <> me -> nth_error (e_threads e) i = Some th -> is_runnable th = true ->
  exists e2 nx thx,
    exec_micro e me MYield = MOk e2 /\ e_active e2 = Some nx /\ nx <> me /\
    nth_error (e_threads e) nx = Some thx /\ is_runnable thx = true /\
    (* the yielding thread is Runnable again after the switch *)
    exists t2, nth_error (e_threads e2) me = Some t2 /\ is_runnable t2 = true.
Proof.
  intros Ha Ht Hroom Hne Hi Hr.
  destruct (yield_other_runnable e me t i th Ha Ht Hroom Hne Hi Hr)
    as (e2 & nx & thx & Hs & Hact & Hnx & Hthx & Hrx).
  exists e2, nx, thx. rewrite exec_micro_yield, Hs. cbn [fst].
  split; [reflexivity|]. split; [exact Hact|]. split; [exact Hnx|]. split; [exact Hthx|].
  split; [exact Hrx|].
  assert (Hs' : fst (schedule (yield_state e me)) = MOk e2) by (rewrite Hs; reflexivity).
  destruct (yield_others_reactivated _ e2 nx me _ Hs' Hact (not_eq_sym Hnx)
              (yield_state_me e me t Ht) eq_refl) as (t2 & H1 & H2 & _).
  eauto.
Qed.

Corollary do_yield_alone_continues e me t :
  e_active e = Some me -> nth_error (e_threads e) me = Some t -> yield_room e me ->
  (forall i th, i <> me -> nth_error (e_threads e) i = Some th ->
                is_runnable th = false /\ is_yield th = false) ->
  exists e2, exec_micro e me MYield = MOk e2 /\ e_active e2 = Some me.
Proof.
  intros Ha Ht Hroom Hoth.
  destruct (yield_alone_continues e me t Ha Ht Hroom Hoth) as (e2 & Hs & Hact & _).
  exists e2. rewrite exec_micro_yield, Hs. auto.
Qed.

Print Assumptions seed_active_le1.
Print Assumptions branch_thread_succeeds.
Print Assumptions schedule_total.
Print Assumptions schedule_succeeds.
Print Assumptions seed_choice_no_runnable.
Print Assumptions yield_other_runnable.
Print Assumptions yield_no_runnable_first_yielded.
Print Assumptions yield_alone_continues.
Print Assumptions yield_others_reactivated.
Print Assumptions schedule_only_active_yielded.
Print Assumptions do_yield_other_runnable.
Print Assumptions do_yield_alone_continues.

(* DEVIATIONS from the requested statements

   Y1  Side conditions (yield_room e me), on the state e in which the thread
       calls yield_now, with e' = yield_state e me =
       upd_thread e me (fun t => th_set_op (set_yield me t) None):
         - is_traversed (e_path e) = true;
         - the DPOR loop succeeds ON e' (the yielding thread has t_op = None
           there, so it does not take part; objects and path are those of e);
         - length (branches (e_path e)) < cap (e_path e)   ("room");
         - length (e_threads e) <= MAX_THREADS: branch_thread asserts it
           (PInternal 6) -- Execution::new_thread checks max_threads, which
           is at most MAX_THREADS in loom;
         - c15_inv (e_path e), the preemption invariant of PathApi:
           branch_thread asserts (PInternal 8) that the preemption count
           inherited from the previous Schedule entry is within the bound.
           It is trivial without a preemption bound and holds along the
           model's runs (ExecFacts.iteration_path_ok, PathApi.step_c15);
         - nth_error (e_threads e) me = Some t  (the active thread exists).
       The seed handed to branch_thread has at most one Active entry
       (seed_active_le1), so its PInternal 7 assertion never fires.
       schedule_total / schedule_succeeds are the general statements (any
       state with sched_room): schedule computes
       sched_post ... (seed_choice seed) and returns MOk whenever some thread
       is Runnable or Yielded.
   Y2  C.1 (yield_other_runnable) as requested; it also gives the returned
       flag (true: a switch).  do_yield_other_runnable adds that the yielding
       thread is Runnable again in e2.
   Y3  C.2 (yield_alone_continues) as requested ("all others blocked or
       terminated, none yielded"); the returned flag is false.  Note that the
       thread STAYS in state Yielded in e2: the final loop of schedule resets
       only the OTHER yielded threads (execution.rs: `th.is_yield() && Some(id)
       != next`), so at its next scheduling point it is still classified
       TYield and any thread that became runnable meanwhile goes first.
       The general form yield_no_runnable_first_yielded drops "none yielded":
       with no Runnable thread the FIRST Yielded thread in index order is
       chosen (nx <= me), which is another yielded thread if one with a
       smaller index exists.
   Y4  C.3 (yield_others_reactivated) needs no side condition at all (it is
       ExecFacts.yield_reactivated in the requested shape, plus: the
       continuation and the pending operation are untouched);
       schedule_only_active_yielded is the converse: after a successful
       schedule no thread other than the chosen one is Yielded. *)
