(* RC11 : an executable reference implementation of the RC11 memory model

     O. Lahav, V. Vafeiadis, J. Kang, C.-K. Hur, D. Dreyer,
     "Repairing Sequential Consistency in C/C++11", PLDI 2017

   for small litmus programs over the atomic fragment of the program language
   in Prog.v.  It is written independently of the model of loom and shares
   with it only the syntax (ord, rmwop, apply_rmw, instr).  It is used as an
   oracle: which outcomes of a litmus program does RC11 allow.

   Definitions and closed, computed Examples only; everything is a computable
   function over lists, nat, N and bool (no Prop-valued relation, no axiom),
   structurally recursive or fuel-bounded, and extracts to OCaml.

   ------------------------------------------------------------------------
   1. ENCODING

   Events.  [event] = id, thread, kind (KR read / KW write / KU read-modify-
   write / KF fence), location, ordering, value read, value written.
     * The id of an event is its POSITION in [ex_events] (checked by
       [wf_execution]).
     * Thread 0 is the initialisation pseudo-thread: one relaxed write per
       location, carrying the initial value.  Program thread i has tid i+1.
     * An RMW is ONE event of kind KU (it is both a read and a write), as in
       the mechanised versions of RC11, and not a pair of events linked by
       the paper's [rmw] relation.  Translation: the paper's [rf ; rmw]
       becomes [rf ; [U]], and [rmw /\ (rb ; mo) = empty] becomes
       "[U] ; rb ; mo is irreflexive"; because a KU event is the mo-successor
       of the write it reads from, the raw rf^-1 ; mo relates it to itself,
       so rb is defined as (rf^-1 ; mo) \ id.  The single ordering o of a KU
       event stands for the paper's pair of modes (read part >= acq iff
       o >= acq, write part >= rel iff o >= rel).
     * A failed CAS is a KR event with the failure ordering, a successful
       CAS and every IRmw is a KU event with the success ordering.  CAS is
       the strong one (no spurious failure).
     * The mode lattice is rlx < {rel, acq} < acqrel < sc; there are no
       non-atomic accesses, so ">= rlx" is always true.

   Executions.  [execution] = events, rf as a list of (read id, write id),
   mo as a list of chains, one chain per location, each listing the ids of
   ALL writes (KW and KU, the init write included) to that location in
   modification order.  Empty chains are ignored.

   sb is derived from the events: an init event is sb-before every non-init
   event; two events of the same program thread are sb-ordered by their ids
   (so the events of a thread must be listed in program order).  Init events
   are not sb-related to each other.

   Relations.  A relation over n events is a list of n rows; row i is an N
   used as a bit set: bit j of row i is set iff (i, j) is in the relation.
   Sets of events are N bit sets.  Union / intersection / difference are
   bitwise, composition ors together the rows selected by a row, inverse is
   transposition, transitive closure is Warshall's algorithm on rows
   (n^2 bit-set operations), [A];r and r;[A] clear rows / mask columns.

   ------------------------------------------------------------------------
   2. DEFINITIONS OF THE PAPER THAT ARE IMPLEMENTED  (in [rc11_axioms])

   The paper introduces its relations by name rather than by number; the
   names below are the paper's (section "The RC11 model" / its figure of
   derived relations), and the only numbered definition that is used is
   Definition 1 (RC11-consistency).  The repaired SC condition (scb,
   psc_base, psc_F) is the one motivated by the paper's examples
   IRIW-acq-sc, Z6.U (compilation to Power) and RWC+syncs (SC fences), all
   three of which are among the Examples below.

     rb   = rf^-1 ; mo                                  "reads-before"
     eco  = (rf | mo | rb)+                             "extended coherence order"
     rs   = [W] ; (sb|loc)? ; [W & >=rlx] ; (rf ; rmw)* "release sequence"
     sw   = [>=rel] ; ([F] ; sb)? ; rs ; rf ; [R & >=rlx] ; (sb ; [F])? ; [>=acq]
                                                        "synchronises with"
     hb   = (sb | sw)+                                  "happens-before"
     scb  = sb | sb|<>loc ; hb ; sb|<>loc | hb|loc | mo | rb       "SC-before"
     psc_base = ([Esc] | [Fsc] ; hb?) ; scb ; ([Esc] | hb? ; [Fsc])
     psc_F    = [Fsc] ; (hb | hb ; eco ; hb) ; [Fsc]
     psc  = psc_base | psc_F                            "partial SC"
   Definition 1 (RC11-consistent): the execution is complete (every read has
   an rf source; here part of [wf_execution]) and
     COHERENCE     hb ; eco?  is irreflexive
     ATOMICITY     rmw /\ (rb ; mo) = empty
     SC            psc is acyclic
     NO-THIN-AIR   sb | rf is acyclic.
   Esc is the set of ALL events with ordering sc (fences included), Fsc the
   SC fences.

   "same location" follows the mechanisation: the location of a fence is
   "none", so two fences have the same location and a fence and an access
   never do; sb|<>loc = sb \ same-location, hb|loc = hb /\ same-location.

   ------------------------------------------------------------------------
   3. THE TWO SWITCHES

   [sc_accesses] = true : RC11 as published; SeqCst loads, stores and RMWs
       are SC events (members of Esc).
   [sc_accesses] = false : the weaker variant documented by loom ("SeqCst
       accesses are treated as AcqRel"): before the relations are built a
       SeqCst load is demoted to Acquire, a SeqCst store to Release, a
       SeqCst RMW to AcqRel; SeqCst FENCES stay SC.  (A failed SeqCst CAS is
       a load, hence Acquire.)
   [c20_rs] = false : the release sequence of RC11 / C++11 above.
   [c20_rs] = true  : the C++20 release sequence, without the same-thread
       later writes:  rs = [W & >=rlx] ; (rf ; rmw)*.
   The switches are independent; the "strong instance" is (true, false), the
   "weak instances" are (false, false) and (false, true).

   ------------------------------------------------------------------------
   4. ENUMERATION  ([rc11_outcomes])

   A state is a well-formed execution of a prefix of every thread (events,
   rf, mo chains) plus, per thread, the remaining instructions, the values
   returned so far and a "mark".  One step adds the event of the next
   instruction of one thread:
     * a load / RMW / CAS picks its rf source among the writes to its
       location that are ALREADY in the state;
     * a store is inserted at every position of the mo chain of its location
       (after the init write, which is hb-before it);
     * an RMW is inserted immediately after its rf source (forced by
       ATOMICITY);
     * a fence is just added.
   Every new state is kept only if it satisfies COHERENCE, ATOMICITY and SC
   ([rc11_axioms]).  Final states are re-checked with the full
   [rc11_consistent] (well-formedness and NO-THIN-AIR included).

   Because an event is added only after its sb-predecessors and its rf
   source, sb | rf is acyclic in every generated execution: NO-THIN-AIR holds
   by construction.  This is exactly the property the oracle is used for:
   "outcomes whose program-order and reads-from relations are acyclic".

   Canonical order (to avoid enumerating all interleavings).  Call a thread
   ENABLED in a state if its next instruction is not a read, or is a read
   whose rf source (in the target execution) is already present.  Only the
   linearisation that always runs the LOWEST enabled thread is generated:
   [successors] scans the threads in order; a non-read instruction is
   executed and the scan stops; a read instruction is either executed (all
   admissible sources) or DEFERRED, which records in the thread's mark the
   current number of events c ("my source has id >= c") and continues the
   scan with the next thread.  A marked thread may later only read from
   writes with id >= its mark.  A read is not deferred if no other thread
   has a remaining instruction writing to its location (such a deferral could
   never be resolved).

   Completeness.  Let G be an RC11-consistent execution of the program with
   sb | rf acyclic.  List its events by repeatedly taking the next event of
   the lowest thread whose next event has all its (sb | rf)-predecessors
   already listed; acyclicity guarantees that this lists all events.  By
   induction on this list the enumeration reaches, after k steps, the state
   whose execution is G restricted to the first k events (same rf; mo
   restricted): the threads below the chosen one are reads whose source is
   not yet listed, so their deferral branch is taken and the mark (= k) is
   respected by the source they eventually read from; the chosen event is
   added with G's rf source, present by choice of the order, and at the
   position that G's mo induces on the present writes (for an RMW that
   position is right after its source, because G satisfies ATOMICITY).
   Every such restriction is closed under sb | rf predecessors and all of
   rb, eco, rs, sw, hb, scb, psc are built from sb, rf, mo and fixed event
   properties by monotone operators, so a violation of COHERENCE, ATOMICITY
   or SC in the restriction would be a violation in G: no prefix is pruned.
   Conversely every generated final execution passes [rc11_consistent], so
   the result is exactly the set of outcomes of consistent executions.

   Fuel.  [fuel] bounds the number of steps; any fuel >= the total number of
   instructions of the program ([rc11_enough_fuel]) gives the complete
   result.  With less fuel the unfinished branches are dropped (the result
   is then incomplete).  Instructions outside the atomic fragment (anything
   but ILoad / IStore / IRmw / ICas / IFence) are out of scope: they create no
   event and return 0. *)

Require Import LV.Base LV.Prog.

(* ---------------------------------------------------------------------- *)
(* Events and executions                                                   *)

Inductive ekind := KR | KW | KU | KF.

Record event := mkEvent {
  e_id : nat;        (* = position in ex_events *)
  e_tid : nat;       (* 0 = initialisation, i+1 = program thread i *)
  e_kind : ekind;
  e_loc : nat;       (* irrelevant for fences *)
  e_ord : ord;
  e_rval : N;        (* value read (KR, KU), else 0 *)
  e_wval : N         (* value written (KW, KU), else 0 *)
}.

Record execution := mkExecution {
  ex_events : list event;
  ex_rf : list (nat * nat);     (* (read id, write id) *)
  ex_mo : list (list nat)       (* one chain of write ids per location *)
}.

Definition is_w (e : event) : bool :=
  match e_kind e with KW | KU => true | _ => false end.
Definition is_r (e : event) : bool :=
  match e_kind e with KR | KU => true | _ => false end.
Definition is_u (e : event) : bool :=
  match e_kind e with KU => true | _ => false end.
Definition is_f (e : event) : bool :=
  match e_kind e with KF => true | _ => false end.

(* the mode lattice rlx < {rel, acq} < acqrel < sc *)
Definition ord_rel (o : ord) : bool :=
  match o with Release | AcqRel | SeqCst => true | _ => false end.
Definition ord_acq (o : ord) : bool :=
  match o with Acquire | AcqRel | SeqCst => true | _ => false end.
Definition ord_sc (o : ord) : bool :=
  match o with SeqCst => true | _ => false end.

(* sb: init before everything else; program order inside a thread *)
Definition ev_sb (a b : event) : bool :=
  if e_tid a =? 0 then negb (e_tid b =? 0)
  else (e_tid a =? e_tid b) && (e_id a <? e_id b).

(* same location; the location of a fence is "none" *)
Definition ev_same_loc (a b : event) : bool :=
  match is_f a, is_f b with
  | true, true => true
  | false, false => e_loc a =? e_loc b
  | _, _ => false
  end.

(* the weak instance: SeqCst accesses are demoted, SeqCst fences are kept *)
Definition demote_event (e : event) : event :=
  match e_ord e with
  | SeqCst =>
      let o := match e_kind e with
               | KR => Acquire | KW => Release | KU => AcqRel | KF => SeqCst
               end in
      mkEvent (e_id e) (e_tid e) (e_kind e) (e_loc e) o (e_rval e) (e_wval e)
  | _ => e
  end.

Definition prepare_events (sc_accesses : bool) (evs : list event) : list event :=
  if sc_accesses then evs else map demote_event evs.

(* ---------------------------------------------------------------------- *)
(* Bit sets and relations                                                  *)

(* little-endian: element i of the list is bit i *)
Fixpoint bits_of (l : list bool) : N :=
  match l with
  | [] => 0%N
  | b :: t => if b then N.succ_double (bits_of t) else N.double (bits_of t)
  end.

Definition set_of {A : Type} (p : A -> bool) (l : list A) : N := bits_of (map p l).

Definition rel := list N.

Definition rel_of {A : Type} (f : A -> A -> bool) (l : list A) : rel :=
  map (fun a => set_of (f a) l) l.

Definition rmem (r : rel) (i j : nat) : bool :=
  N.testbit (nth i r 0%N) (N.of_nat j).

Fixpoint map2N (f : N -> N -> N) (a b : rel) : rel :=
  match a, b with
  | x :: a', y :: b' => f x y :: map2N f a' b'
  | _, _ => []
  end.

Definition runion : rel -> rel -> rel := map2N N.lor.
Definition rinter : rel -> rel -> rel := map2N N.land.
Definition rdiff : rel -> rel -> rel := map2N N.ldiff.

Fixpoint rid_from (m : N) (n : nat) : rel :=
  match n with
  | 0 => []
  | S n' => m :: rid_from (N.double m) n'
  end.
(* the identity on n events *)
Definition rid (n : nat) : rel := rid_from 1%N n.

(* r? *)
Definition rrefl (r : rel) : rel := runion r (rid (length r)).

(* or of the rows of B selected by the bits of a *)
Fixpoint comp_row (a : N) (B : rel) (acc : N) : N :=
  match B with
  | [] => acc
  | b :: B' => comp_row (N.div2 a) B' (if N.odd a then N.lor acc b else acc)
  end.
(* A ; B *)
Definition rcomp (A B : rel) : rel := map (fun a => comp_row a B 0%N) A.

Fixpoint rinv_aux (n : nat) (rows : list N) : rel :=
  match n with
  | 0 => []
  | S n' => set_of N.odd rows :: rinv_aux n' (map N.div2 rows)
  end.
(* r^-1 *)
Definition rinv (r : rel) : rel := rinv_aux (length r) r.

(* Warshall: in round k every row that contains k absorbs row k *)
Fixpoint rtc_loop (todo kn : nat) (kN : N) (r : rel) : rel :=
  match todo with
  | 0 => r
  | S todo' =>
      let rowk := nth kn r 0%N in
      rtc_loop todo' (S kn) (N.succ kN)
        (map (fun row => if N.testbit row kN then N.lor row rowk else row) r)
  end.
(* r+ *)
Definition rtc (r : rel) : rel := rtc_loop (length r) 0 0%N r.

Fixpoint irrefl_from (m : N) (r : rel) : bool :=
  match r with
  | [] => true
  | row :: t => N.eqb (N.land row m) 0%N && irrefl_from (N.double m) t
  end.
Definition rirrefl (r : rel) : bool := irrefl_from 1%N r.
Definition racyclic (r : rel) : bool := rirrefl (rtc r).

(* [s] ; r *)
Fixpoint rdom (s : N) (r : rel) : rel :=
  match r with
  | [] => []
  | row :: t => (if N.odd s then row else 0%N) :: rdom (N.div2 s) t
  end.
(* r ; [s] *)
Definition rcod (s : N) (r : rel) : rel := map (N.land s) r.

(* ---------------------------------------------------------------------- *)
(* rf and mo as relations                                                  *)

Definition rf_has (rf : list (nat * nat)) (r w : nat) : bool :=
  existsb (fun p => (fst p =? r) && (snd p =? w)) rf.

Fixpoint chain_before (x y : nat) (ch : list nat) : bool :=
  match ch with
  | [] => false
  | h :: t => if h =? x then existsb (Nat.eqb y) t else chain_before x y t
  end.

Definition mo_has (mo : list (list nat)) (x y : nat) : bool :=
  existsb (chain_before x y) mo.

(* ---------------------------------------------------------------------- *)
(* The axioms COHERENCE, ATOMICITY, SC of Definition 1, on events whose
   orderings have already been prepared (demoted or not).                  *)

Definition rc11_axioms (c20_rs : bool) (evs : list event)
    (rf : list (nat * nat)) (mo : list (list nat)) : bool :=
  let n := length evs in
  let idn := rid n in
  let sW := set_of is_w evs in
  let sR := set_of is_r evs in
  let sU := set_of is_u evs in
  let sF := set_of is_f evs in
  let sREL := set_of (fun e => ord_rel (e_ord e)) evs in
  let sACQ := set_of (fun e => ord_acq (e_ord e)) evs in
  let sb := rel_of ev_sb evs in
  let sl := rel_of ev_same_loc evs in
  let rfm := rel_of (fun a b => rf_has rf (e_id b) (e_id a)) evs in
  let mom := rel_of (fun a b => mo_has mo (e_id a) (e_id b)) evs in
  (* rb = rf^-1 ; mo, minus the identity (one-event RMWs, see the header) *)
  let rb := rdiff (rcomp (rinv rfm) mom) idn in
  (* eco = (rf | mo | rb)+ *)
  let eco := rtc (runion rfm (runion mom rb)) in
  (* (rf ; rmw)*  =  (rf ; [U])* *)
  let rfU_star := runion (rtc (rcod sU rfm)) idn in
  (* rs = [W] ; (sb|loc)? ; [W & >=rlx] ; (rf ; rmw)*      (RC11 / C++11)
     rs =                   [W & >=rlx] ; (rf ; rmw)*      (C++20)       *)
  let rs_head :=
    if c20_rs then rdom sW idn
    else rdom sW (rcod sW (runion (rinter sb sl) idn)) in
  let rs := rcomp rs_head rfU_star in
  (* sw = [>=rel] ; ([F] ; sb)? ; rs ; rf ; [R & >=rlx] ; (sb ; [F])? ; [>=acq] *)
  let fsb := runion (rdom sF sb) idn in
  let sbf := runion (rcod sF sb) idn in
  let sw := rdom sREL
              (rcomp fsb (rcomp rs (rcomp (rcod sR rfm) (rcod sACQ sbf)))) in
  (* hb = (sb | sw)+ *)
  let hb := rtc (runion sb sw) in
  (* COHERENCE: hb ; eco? irreflexive *)
  if negb (rirrefl hb && rirrefl (rcomp hb eco)) then false else
  (* ATOMICITY: rmw /\ (rb ; mo) = empty, i.e. [U] ; rb ; mo irreflexive *)
  if negb (rirrefl (rdom sU (rcomp rb mom))) then false else
  (* SC: psc = psc_base | psc_F acyclic *)
  let sESC := set_of (fun e => ord_sc (e_ord e)) evs in
  let sFSC := N.land sF sESC in
  let hbq := runion hb idn in
  let sbnl := rdiff sb sl in
  let scb :=
    runion sb
      (runion (rcomp sbnl (rcomp hb sbnl))
         (runion (rinter hb sl) (runion mom rb))) in
  let pl := runion (rdom sESC idn) (rdom sFSC hbq) in   (* [Esc] | [Fsc] ; hb? *)
  let pr := runion (rdom sESC idn) (rcod sFSC hbq) in   (* [Esc] | hb? ; [Fsc] *)
  let psc_base := rcomp pl (rcomp scb pr) in
  let psc_f := rdom sFSC (rcod sFSC (runion hb (rcomp hb (rcomp eco hb)))) in
  racyclic (runion psc_base psc_f).

(* NO-THIN-AIR: sb | rf acyclic *)
Definition rc11_no_thin_air (evs : list event) (rf : list (nat * nat)) : bool :=
  racyclic (runion (rel_of ev_sb evs)
                   (rel_of (fun a b => rf_has rf (e_id b) (e_id a)) evs)).

(* ---------------------------------------------------------------------- *)
(* Well-formedness (includes the "complete" of Definition 1)               *)

Fixpoint nodupb (l : list nat) : bool :=
  match l with
  | [] => true
  | h :: t => negb (existsb (Nat.eqb h) t) && nodupb t
  end.

Definition loc_of_id (evs : list event) (x : nat) : nat :=
  match nth_error evs x with Some e => e_loc e | None => 0 end.

Definition wf_execution (G : execution) : bool :=
  let evs := ex_events G in
  let rf := ex_rf G in
  let chains := filter (fun ch => negb (length ch =? 0)) (ex_mo G) in
  let mo_ids := concat chains in
  let ws := filter is_w evs in
  (* ids are positions *)
  forallb (fun p => fst p =? e_id (snd p)) (index_list evs) &&
  (* the initialisation pseudo-thread only writes *)
  forallb (fun e => negb (e_tid e =? 0) ||
                    match e_kind e with KW => true | _ => false end) evs &&
  (* rf relates a read to a different write of the same location and value *)
  forallb (fun p =>
             match nth_error evs (fst p), nth_error evs (snd p) with
             | Some r, Some w =>
                 is_r r && is_w w && (e_loc r =? e_loc w) &&
                 N.eqb (e_rval r) (e_wval w) && negb (fst p =? snd p)
             | _, _ => false
             end) rf &&
  (* every read has exactly one rf source (completeness) *)
  forallb (fun e => negb (is_r e) ||
                    (length (filter (fun p => fst p =? e_id e) rf) =? 1)) evs &&
  (* mo: the chains list every write exactly once ... *)
  (length mo_ids =? length ws) &&
  forallb (fun e => existsb (Nat.eqb (e_id e)) mo_ids) ws &&
  (* ... each chain is about one location, different chains about different ones *)
  forallb (fun ch => match ch with
                     | [] => true
                     | h :: t => forallb (fun x => loc_of_id evs x =? loc_of_id evs h) t
                     end) chains &&
  nodupb (map (fun ch => loc_of_id evs (hd 0 ch)) chains).

(* ---------------------------------------------------------------------- *)
(* (a) consistency of a candidate execution                                *)

Definition rc11_consistent (sc_accesses c20_rs : bool) (G : execution) : bool :=
  wf_execution G &&
  rc11_no_thin_air (ex_events G) (ex_rf G) &&
  rc11_axioms c20_rs (prepare_events sc_accesses (ex_events G)) (ex_rf G) (ex_mo G).

(* ---------------------------------------------------------------------- *)
(* (b) enumeration of the outcomes of a litmus program                     *)

Record tstate := mkT {
  t_rem : list instr;    (* remaining instructions *)
  t_mark : nat;          (* a deferred read must read from an id >= t_mark *)
  t_out : list N         (* values returned so far, newest first *)
}.

Record state := mkState {
  st_evs : list event;              (* newest first *)
  st_n : nat;                       (* number of events = next id *)
  st_rf : list (nat * nat);
  st_mo : list (nat * list nat);    (* location -> chain *)
  st_thr : list tstate
}.

Definition exec_of_state (s : state) : execution :=
  mkExecution (rev (st_evs s)) (st_rf s) (map snd (st_mo s)).

Definition chain_of (mo : list (nat * list nat)) (a : nat) : list nat :=
  match find (fun p => fst p =? a) mo with
  | Some p => snd p
  | None => []
  end.

Fixpoint set_chain (mo : list (nat * list nat)) (a : nat) (ch : list nat)
    : list (nat * list nat) :=
  match mo with
  | [] => [(a, ch)]
  | p :: t => if fst p =? a then (a, ch) :: t else p :: set_chain t a ch
  end.

(* x inserted at every position of ch *)
Fixpoint inserts (x : nat) (ch : list nat) : list (list nat) :=
  match ch with
  | [] => [[x]]
  | h :: t => (x :: ch) :: map (cons h) (inserts x t)
  end.
(* ... at every position but the first (the head is the init write) *)
Definition inserts_after_head (x : nat) (ch : list nat) : list (list nat) :=
  match ch with
  | [] => [[x]]
  | h :: t => map (cons h) (inserts x t)
  end.

(* x inserted immediately after w *)
Fixpoint insert_after (w x : nat) (ch : list nat) : list nat :=
  match ch with
  | [] => [x]
  | h :: t => if h =? w then h :: x :: t else h :: insert_after w x t
  end.

Definition wval_of (s : state) (w : nat) : N :=
  match find (fun e => e_id e =? w) (st_evs s) with
  | Some e => e_wval e
  | None => 0%N
  end.

(* the admissible rf sources for a read of location a by a thread with mark m *)
Definition sources (s : state) (a m : nat) : list nat :=
  filter (fun w => m <=? w) (chain_of (st_mo s) a).

Definition advance (out : N) (t : tstate) : tstate :=
  mkT (tl (t_rem t)) 0 (out :: t_out t).

Definition commit (s : state) (ti : nat) (ev : event)
    (rf : list (nat * nat)) (mo : list (nat * list nat)) (out : N) : state :=
  mkState (ev :: st_evs s) (S (st_n s)) rf mo (list_upd (st_thr s) ti (advance out)).

Definition is_read_instr (i : instr) : bool :=
  match i with ILoad _ _ | IRmw _ _ _ _ | ICas _ _ _ _ _ => true | _ => false end.

Definition instr_loc (i : instr) : option nat :=
  match i with
  | ILoad a _ | IStore a _ _ | IRmw a _ _ _ | ICas a _ _ _ _ => Some a
  | _ => None
  end.

Definition instr_writes (a : nat) (i : instr) : bool :=
  match i with
  | IStore b _ _ | IRmw b _ _ _ | ICas b _ _ _ _ => a =? b
  | _ => false
  end.

(* all ways of executing instruction i as the next event of thread ti *)
Definition step_instr (s : state) (ti m : nat) (i : instr) : list state :=
  let id := st_n s in
  let tid := S ti in
  let rf := st_rf s in
  let mo := st_mo s in
  match i with
  | ILoad a o =>
      map (fun w =>
             let v := wval_of s w in
             commit s ti (mkEvent id tid KR a o v 0%N) ((id, w) :: rf) mo v)
          (sources s a m)
  | IStore a v o =>
      map (fun ch =>
             commit s ti (mkEvent id tid KW a o 0%N v) rf (set_chain mo a ch) 0%N)
          (inserts_after_head id (chain_of mo a))
  | IRmw a f v o =>
      map (fun w =>
             let old := wval_of s w in
             commit s ti (mkEvent id tid KU a o old (apply_rmw f old v))
                    ((id, w) :: rf)
                    (set_chain mo a (insert_after w id (chain_of mo a))) old)
          (sources s a m)
  | ICas a e nw so fo =>
      map (fun w =>
             let old := wval_of s w in
             if N.eqb old e then
               commit s ti (mkEvent id tid KU a so old nw) ((id, w) :: rf)
                      (set_chain mo a (insert_after w id (chain_of mo a))) old
             else
               commit s ti (mkEvent id tid KR a fo old 0%N) ((id, w) :: rf) mo old)
          (sources s a m)
  | IFence o =>
      [commit s ti (mkEvent id tid KF 0 o 0%N 0%N) rf mo 0%N]
  | _ =>
      (* out of scope: no event, returns 0 *)
      [mkState (st_evs s) (st_n s) rf mo (list_upd (st_thr s) ti (advance 0%N))]
  end.

(* may the read of location a by thread ti be deferred: some other thread
   still has an instruction writing to a *)
Definition can_defer (s : state) (ti a : nat) : bool :=
  existsb (fun p => negb (fst p =? ti) && existsb (instr_writes a) (t_rem (snd p)))
          (index_list (st_thr s)).

Definition set_mark (s : state) (ti m : nat) : state :=
  mkState (st_evs s) (st_n s) (st_rf s) (st_mo s)
          (list_upd (st_thr s) ti (fun t => mkT (t_rem t) m (t_out t))).

(* the canonical successors: ts is the suffix of (st_thr s) starting at ti *)
Fixpoint successors (s : state) (ti : nat) (ts : list tstate) : list state :=
  match ts with
  | [] => []
  | t :: ts' =>
      match t_rem t with
      | [] => successors s (S ti) ts'
      | i :: _ =>
          if is_read_instr i then
            step_instr s ti (t_mark t) i ++
            (if match instr_loc i with
                | Some a => can_defer s ti a
                | None => false
                end
             then successors (set_mark s ti (st_n s)) (S ti) ts'
             else [])
          else step_instr s ti 0 i
      end
  end.

Definition state_ok (sc_accesses c20_rs : bool) (s : state) : bool :=
  rc11_axioms c20_rs (prepare_events sc_accesses (rev (st_evs s)))
              (st_rf s) (map snd (st_mo s)).

Definition all_done (s : state) : bool :=
  forallb (fun t => match t_rem t with [] => true | _ => false end) (st_thr s).

Fixpoint explore (sc_accesses c20_rs : bool) (fuel : nat) (s : state) : list state :=
  if all_done s then [s] else
  match fuel with
  | 0 => []
  | S fuel' =>
      flat_map (explore sc_accesses c20_rs fuel')
               (filter (state_ok sc_accesses c20_rs)
                       (successors s 0 (st_thr s)))
  end.

(* the locations of a program, without duplicates, in order of appearance *)
Fixpoint add_loc (a : nat) (l : list nat) : list nat :=
  match l with
  | [] => [a]
  | h :: t => if h =? a then l else h :: add_loc a t
  end.

Definition prog_locs (p : list (list instr)) : list nat :=
  fold_left (fun acc i => match instr_loc i with
                          | Some a => add_loc a acc
                          | None => acc
                          end) (concat p) [].

Definition init_state (init : nat -> N) (p : list (list instr)) : state :=
  let locs := index_list (prog_locs p) in
  mkState
    (rev (map (fun ka => mkEvent (fst ka) 0 KW (snd ka) Relaxed 0%N (init (snd ka))) locs))
    (length locs)
    []
    (map (fun ka => (snd ka, [fst ka])) locs)
    (map (fun c => mkT c 0 []) p).

Definition outcome_of (s : state) : list (list N) :=
  map (fun t => rev (t_out t)) (st_thr s).

(* all final executions of p that are RC11-consistent *)
Definition rc11_executions (sc_accesses c20_rs : bool) (init : nat -> N)
    (p : list (list instr)) (fuel : nat) : list execution :=
  filter (rc11_consistent sc_accesses c20_rs)
         (map exec_of_state (explore sc_accesses c20_rs fuel (init_state init p))).

Definition rc11_outcomes (sc_accesses c20_rs : bool) (init : nat -> N)
    (p : list (list instr)) (fuel : nat) : list (list (list N)) :=
  map outcome_of
      (filter (fun s => rc11_consistent sc_accesses c20_rs (exec_of_state s))
              (explore sc_accesses c20_rs fuel (init_state init p))).

(* fuel that makes rc11_outcomes complete *)
Definition rc11_enough_fuel (p : list (list instr)) : nat := length (concat p).

Fixpoint listN_eqb (a b : list N) : bool :=
  match a, b with
  | [], [] => true
  | x :: a', y :: b' => N.eqb x y && listN_eqb a' b'
  | _, _ => false
  end.

Fixpoint outcome_eqb (a b : list (list N)) : bool :=
  match a, b with
  | [], [] => true
  | x :: a', y :: b' => listN_eqb x y && outcome_eqb a' b'
  | _, _ => false
  end.

Definition rc11_allows (sc_accesses c20_rs : bool) (init : nat -> N)
    (p : list (list instr)) (fuel : nat) (outcome : list (list N)) : bool :=
  existsb (outcome_eqb outcome) (rc11_outcomes sc_accesses c20_rs init p fuel).

(* ====================================================================== *)
(* VALIDATION                                                              *)
(* The classic litmus tests with the verdicts published for RC11.          *)
(* "strong" = RC11 as published (sc_accesses = true, c20_rs = false).      *)

Module Litmus.

Local Open Scope N_scope.

Definition init0 : nat -> N := fun _ => 0.
Definition strong := rc11_allows true false init0.
Definition strong20 := rc11_allows true true init0.
Definition weak := rc11_allows false false init0.
Definition weak20 := rc11_allows false true init0.
Definition fuel : nat := 20%nat.

Definition x : nat := 0%nat.
Definition y : nat := 1%nat.
Definition rlx := Relaxed.
Definition rls := Release.
Definition acq := Acquire.
Definition sc := SeqCst.

(* ---- relation library sanity ---- *)
(* 0 -> 1 -> 2 : closure adds 0 -> 2 ; with 2 -> 0 it is cyclic *)
Example rel_tc : rtc [2; 4; 0] = [6; 4; 0].
Proof. vm_compute. reflexivity. Qed.
Example rel_acyclic : racyclic [2; 4; 0] = true /\ racyclic [2; 4; 1] = false.
Proof. vm_compute. split; reflexivity. Qed.
Example rel_comp_inv :
  rcomp [2; 4; 0] [2; 4; 0] = [4; 0; 0] /\ rinv [2; 4; 0] = [0; 1; 2].
Proof. vm_compute. split; reflexivity. Qed.

(* ---- SB: store buffering ---- *)
Definition SB (ow or : ord) : list (list instr) :=
  [[IStore x 1 ow; ILoad y or]; [IStore y 1 ow; ILoad x or]].
Definition SB_F (f : ord) : list (list instr) :=
  [[IStore x 1 rlx; IFence f; ILoad y rlx]; [IStore y 1 rlx; IFence f; ILoad x rlx]].

Example SB_rlx_allowed : strong (SB rlx rlx) fuel [[0; 0]; [0; 0]] = true.
Proof. vm_compute. reflexivity. Qed.
Example SB_relacq_allowed : strong (SB rls acq) fuel [[0; 0]; [0; 0]] = true.
Proof. vm_compute. reflexivity. Qed.
Example SB_sc_forbidden : strong (SB sc sc) fuel [[0; 0]; [0; 0]] = false.
Proof. vm_compute. reflexivity. Qed.
Example SB_sc_other_outcomes :
  strong (SB sc sc) fuel [[0; 1]; [0; 0]] = true /\
  strong (SB sc sc) fuel [[0; 0]; [0; 1]] = true /\
  strong (SB sc sc) fuel [[0; 1]; [0; 1]] = true.
Proof. vm_compute. repeat split; reflexivity. Qed.
Example SB_scfence_forbidden : strong (SB_F sc) fuel [[0; 0; 0]; [0; 0; 0]] = false.
Proof. vm_compute. reflexivity. Qed.
Example SB_acqrelfence_allowed : strong (SB_F AcqRel) fuel [[0; 0; 0]; [0; 0; 0]] = true.
Proof. vm_compute. reflexivity. Qed.

(* ---- MP: message passing (x = data, y = flag) ---- *)
Definition MP (ow or : ord) : list (list instr) :=
  [[IStore x 1 rlx; IStore y 1 ow]; [ILoad y or; ILoad x rlx]].
Definition MP_F : list (list instr) :=
  [[IStore x 1 rlx; IFence rls; IStore y 1 rlx];
   [ILoad y rlx; IFence acq; ILoad x rlx]].

Example MP_rlx_allowed : strong (MP rlx rlx) fuel [[0; 0]; [1; 0]] = true.
Proof. vm_compute. reflexivity. Qed.
Example MP_rel_rlx_allowed : strong (MP rls rlx) fuel [[0; 0]; [1; 0]] = true.
Proof. vm_compute. reflexivity. Qed.
Example MP_rlx_acq_allowed : strong (MP rlx acq) fuel [[0; 0]; [1; 0]] = true.
Proof. vm_compute. reflexivity. Qed.
Example MP_relacq_forbidden : strong (MP rls acq) fuel [[0; 0]; [1; 0]] = false.
Proof. vm_compute. reflexivity. Qed.
Example MP_relacq_fresh_allowed : strong (MP rls acq) fuel [[0; 0]; [1; 1]] = true.
Proof. vm_compute. reflexivity. Qed.
Example MP_fences_forbidden : strong MP_F fuel [[0; 0; 0]; [1; 0; 0]] = false.
Proof. vm_compute. reflexivity. Qed.
Example MP_relacq_forbidden_weak :
  weak (MP rls acq) fuel [[0; 0]; [1; 0]] = false /\
  weak20 (MP rls acq) fuel [[0; 0]; [1; 0]] = false /\
  weak MP_F fuel [[0; 0; 0]; [1; 0; 0]] = false.
Proof. vm_compute. repeat split; reflexivity. Qed.

(* ---- LB: load buffering; r1 = r2 = 1 needs an sb | rf cycle, which is
        never generated ---- *)
Definition LB (o : ord) : list (list instr) :=
  [[ILoad x o; IStore y 1 o]; [ILoad y o; IStore x 1 o]].

Example LB_rlx_forbidden : strong (LB rlx) fuel [[1; 0]; [1; 0]] = false.
Proof. vm_compute. reflexivity. Qed.
Example LB_rlx_forbidden_weak : weak20 (LB rlx) fuel [[1; 0]; [1; 0]] = false.
Proof. vm_compute. reflexivity. Qed.
Example LB_rlx_one_sided_allowed :
  strong (LB rlx) fuel [[1; 0]; [0; 0]] = true /\
  strong (LB rlx) fuel [[0; 0]; [1; 0]] = true.
Proof. vm_compute. split; reflexivity. Qed.
(* the LB execution itself is rejected by rc11_consistent (NO-THIN-AIR) and
   by nothing else *)
Definition LB_exec : execution :=
  mkExecution
    [mkEvent 0 0 KW x rlx 0 0; mkEvent 1 0 KW y rlx 0 0;
     mkEvent 2 1 KR x rlx 1 0; mkEvent 3 1 KW y rlx 0 1;
     mkEvent 4 2 KR y rlx 1 0; mkEvent 5 2 KW x rlx 0 1]
    [(2, 5); (4, 3)]%nat [[0; 5]; [1; 3]]%nat.
Example LB_exec_inconsistent :
  rc11_consistent true false LB_exec = false /\
  wf_execution LB_exec = true /\
  rc11_axioms false (ex_events LB_exec) (ex_rf LB_exec) (ex_mo LB_exec) = true /\
  rc11_no_thin_air (ex_events LB_exec) (ex_rf LB_exec) = false.
Proof. vm_compute. repeat split; reflexivity. Qed.

(* ---- coherence shapes, as programs ---- *)
Example CoRR_forbidden :
  strong [[IStore x 1 rlx]; [ILoad x rlx; ILoad x rlx]] fuel [[0]; [1; 0]] = false.
Proof. vm_compute. reflexivity. Qed.
Example CoRR_other_allowed :
  strong [[IStore x 1 rlx]; [ILoad x rlx; ILoad x rlx]] fuel [[0]; [0; 1]] = true.
Proof. vm_compute. reflexivity. Qed.
Example CoWR_forbidden :
  strong [[IStore x 1 rlx; ILoad x rlx]] fuel [[0; 0]] = false.
Proof. vm_compute. reflexivity. Qed.
(* CoWR with a second writer: reading 2 then 1 by an observer after T1 read 2
   would need mo 1 -> 2 and 2 -> 1 *)
Example CoWR2_forbidden :
  strong [[IStore x 1 rlx; ILoad x rlx]; [IStore x 2 rlx]; [ILoad x rlx; ILoad x rlx]]
         fuel [[0; 2]; [0]; [2; 1]] = false.
Proof. vm_compute. reflexivity. Qed.
Example CoWR2_allowed :
  strong [[IStore x 1 rlx; ILoad x rlx]; [IStore x 2 rlx]; [ILoad x rlx; ILoad x rlx]]
         fuel [[0; 2]; [0]; [1; 2]] = true.
Proof. vm_compute. reflexivity. Qed.
(* CoRW: T1 reads 2 and then writes 1, so mo 2 -> 1; the observer sees 1, 2 *)
Example CoRW_forbidden :
  strong [[ILoad x rlx; IStore x 1 rlx]; [IStore x 2 rlx]; [ILoad x rlx; ILoad x rlx]]
         fuel [[2; 0]; [0]; [1; 2]] = false.
Proof. vm_compute. reflexivity. Qed.
Example CoRW_own_write_forbidden :
  strong [[ILoad x rlx; IStore x 1 rlx]] fuel [[1; 0]] = false.
Proof. vm_compute. reflexivity. Qed.
Example CoWW_forbidden :
  strong [[IStore x 1 rlx; IStore x 2 rlx]; [ILoad x rlx; ILoad x rlx]]
         fuel [[0; 0]; [2; 1]] = false.
Proof. vm_compute. reflexivity. Qed.
Example CoWW_other_allowed :
  strong [[IStore x 1 rlx; IStore x 2 rlx]; [ILoad x rlx; ILoad x rlx]]
         fuel [[0; 0]; [1; 2]] = true.
Proof. vm_compute. reflexivity. Qed.

(* ---- coherence shapes, as hand-built executions ---- *)
(* CoWW: T1: W x 1; W x 2 with mo 2 -> 1 *)
Definition CoWW_exec (good : bool) : execution :=
  mkExecution
    [mkEvent 0 0 KW x rlx 0 0; mkEvent 1 1 KW x rlx 0 1; mkEvent 2 1 KW x rlx 0 2]
    [] [if good then [0; 1; 2] else [0; 2; 1]]%nat.
Example CoWW_exec_verdict :
  rc11_consistent true false (CoWW_exec true) = true /\
  rc11_consistent true false (CoWW_exec false) = false.
Proof. vm_compute. split; reflexivity. Qed.
(* CoRW: T1: R x (from T2's write); W x 1.  T2: W x 2.  mo 1 -> 2 is bad *)
Definition CoRW_exec (good : bool) : execution :=
  mkExecution
    [mkEvent 0 0 KW x rlx 0 0; mkEvent 1 1 KR x rlx 2 0; mkEvent 2 1 KW x rlx 0 1;
     mkEvent 3 2 KW x rlx 0 2]
    [(1, 3)]%nat [if good then [0; 3; 2] else [0; 2; 3]]%nat.
Example CoRW_exec_verdict :
  rc11_consistent true false (CoRW_exec true) = true /\
  rc11_consistent true false (CoRW_exec false) = false.
Proof. vm_compute. split; reflexivity. Qed.
(* CoWR: T1: W x 1; R x (from T2's write).  T2: W x 2.  mo 2 -> 1 is bad *)
Definition CoWR_exec (good : bool) : execution :=
  mkExecution
    [mkEvent 0 0 KW x rlx 0 0; mkEvent 1 1 KW x rlx 0 1; mkEvent 2 1 KR x rlx 2 0;
     mkEvent 3 2 KW x rlx 0 2]
    [(2, 3)]%nat [if good then [0; 1; 3] else [0; 3; 1]]%nat.
Example CoWR_exec_verdict :
  rc11_consistent true false (CoWR_exec true) = true /\
  rc11_consistent true false (CoWR_exec false) = false.
Proof. vm_compute. split; reflexivity. Qed.
(* CoRR: T1: W x 1.  T2: R x = 1; R x = 0 *)
Definition CoRR_exec (good : bool) : execution :=
  mkExecution
    [mkEvent 0 0 KW x rlx 0 0; mkEvent 1 1 KW x rlx 0 1;
     mkEvent 2 2 KR x rlx (if good then 0 else 1) 0;
     mkEvent 3 2 KR x rlx (if good then 1 else 0) 0]
    (if good then [(2, 0); (3, 1)] else [(2, 1); (3, 0)])%nat [[0; 1]]%nat.
Example CoRR_exec_verdict :
  rc11_consistent true false (CoRR_exec true) = true /\
  rc11_consistent true false (CoRR_exec false) = false.
Proof. vm_compute. split; reflexivity. Qed.
(* ill-formed candidates are rejected: a read without rf source, a value
   mismatch, a write missing from mo *)
Example wf_rejects :
  rc11_consistent true false
    (mkExecution [mkEvent 0 0 KW x rlx 0 0; mkEvent 1 1 KR x rlx 0 0] [] [[0]]%nat) = false /\
  rc11_consistent true false
    (mkExecution [mkEvent 0 0 KW x rlx 0 0; mkEvent 1 1 KR x rlx 7 0] [(1, 0)]%nat [[0]]%nat) = false /\
  rc11_consistent true false
    (mkExecution [mkEvent 0 0 KW x rlx 0 0; mkEvent 1 1 KW x rlx 0 1] [] [[0]]%nat) = false /\
  rc11_consistent true false
    (mkExecution [mkEvent 0 0 KW x rlx 0 0; mkEvent 1 1 KR x rlx 0 0] [(1, 0)]%nat [[0]]%nat) = true.
Proof. vm_compute. repeat split; reflexivity. Qed.

(* ---- IRIW ---- *)
Definition IRIW (ow or : ord) : list (list instr) :=
  [[IStore x 1 ow]; [IStore y 1 ow]; [ILoad x or; ILoad y or]; [ILoad y or; ILoad x or]].

Example IRIW_rlx_allowed : strong (IRIW rlx rlx) fuel [[0]; [0]; [1; 0]; [1; 0]] = true.
Proof. vm_compute. reflexivity. Qed.
Example IRIW_relacq_allowed : strong (IRIW rls acq) fuel [[0]; [0]; [1; 0]; [1; 0]] = true.
Proof. vm_compute. reflexivity. Qed.
Example IRIW_sc_forbidden : strong (IRIW sc sc) fuel [[0]; [0]; [1; 0]; [1; 0]] = false.
Proof. vm_compute. reflexivity. Qed.
Example IRIW_sc_allowed_weak : weak (IRIW sc sc) fuel [[0]; [0]; [1; 0]; [1; 0]] = true.
Proof. vm_compute. reflexivity. Qed.
(* IRIW-acq-sc (the paper's first counterexample): acquire first loads, SC second loads,
   SC stores.  Forbidden by C11, must be allowed (compilation to Power), and
   is allowed by RC11. *)
Example IRIW_acq_sc_allowed :
  strong [[IStore x 1 sc]; [IStore y 1 sc];
          [ILoad x acq; ILoad y sc]; [ILoad y acq; ILoad x sc]]
         fuel [[0]; [0]; [1; 0]; [1; 0]] = true.
Proof. vm_compute. reflexivity. Qed.
(* IRIW with SC fences between relaxed loads: forbidden *)
Example IRIW_scfence_forbidden :
  strong [[IStore x 1 rlx]; [IStore y 1 rlx];
          [ILoad x rlx; IFence sc; ILoad y rlx]; [ILoad y rlx; IFence sc; ILoad x rlx]]
         fuel [[0]; [0]; [1; 0; 0]; [1; 0; 0]] = false.
Proof. vm_compute. reflexivity. Qed.

(* ---- Z6.U (the paper's second counterexample to compilation to Power):
        forbidden by C11, allowed by RC11 ---- *)
Example Z6U_allowed :
  strong [[IStore x 1 sc; IStore y 1 rls];
          [IRmw y RAdd 1 sc; ILoad y rlx];
          [IStore y 3 sc; ILoad x sc]]
         fuel [[0; 0]; [1; 3]; [0; 0]] = true.
Proof. vm_compute. reflexivity. Qed.

(* ---- WRC: write-to-read causality ---- *)
Definition WRC (o1 or ow : ord) : list (list instr) :=
  [[IStore x 1 o1]; [ILoad x or; IStore y 1 ow]; [ILoad y or; ILoad x rlx]].

Example WRC_rlx_allowed : strong (WRC rlx rlx rlx) fuel [[0]; [1; 0]; [1; 0]] = true.
Proof. vm_compute. reflexivity. Qed.
Example WRC_relacq_forbidden : strong (WRC rls acq rls) fuel [[0]; [1; 0]; [1; 0]] = false.
Proof. vm_compute. reflexivity. Qed.
Example WRC_relacq_forbidden_weak : weak20 (WRC rls acq rls) fuel [[0]; [1; 0]; [1; 0]] = false.
Proof. vm_compute. reflexivity. Qed.

(* ---- RWC: read-to-write causality; with SC fences this is the paper's
        RWC+syncs, allowed by C11 and forbidden by RC11 (psc_F) ---- *)
Definition RWC (f : ord) : list (list instr) :=
  [[IStore x 1 rlx];
   [ILoad x rlx; IFence f; ILoad y rlx];
   [IStore y 1 rlx; IFence f; ILoad x rlx]].

Example RWC_scfence_forbidden : strong (RWC sc) fuel [[0]; [1; 0; 0]; [0; 0; 0]] = false.
Proof. vm_compute. reflexivity. Qed.
Example RWC_scfence_forbidden_weak : weak20 (RWC sc) fuel [[0]; [1; 0; 0]; [0; 0; 0]] = false.
Proof. vm_compute. reflexivity. Qed.
Example RWC_acqrelfence_allowed : strong (RWC AcqRel) fuel [[0]; [1; 0; 0]; [0; 0; 0]] = true.
Proof. vm_compute. reflexivity. Qed.

(* ---- S: T1: W x 2; W y 1.  T2: R y = 1; W x 1.  The observer reading x = 1
        and then x = 2 witnesses mo 1 -> 2, against hb (W x 2, W x 1) ---- *)
Definition S_ (ow or : ord) : list (list instr) :=
  [[IStore x 2 rlx; IStore y 1 ow]; [ILoad y or; IStore x 1 rlx]; [ILoad x rlx; ILoad x rlx]].

Example S_rlx_allowed : strong (S_ rlx rlx) fuel [[0; 0]; [1; 0]; [1; 2]] = true.
Proof. vm_compute. reflexivity. Qed.
Example S_relacq_forbidden :
  strong (S_ rls acq) fuel [[0; 0]; [1; 0]; [1; 2]] = false /\
  weak20 (S_ rls acq) fuel [[0; 0]; [1; 0]; [1; 2]] = false.
Proof. vm_compute. split; reflexivity. Qed.

(* ---- R: T1: W x 1; W y 1.  T2: W y 2; R x = 0, with mo (W y 1, W y 2),
        which T1 observes by reading y = 2 after its own write ---- *)
Definition R_ (ow or : ord) : list (list instr) :=
  [[IStore x 1 ow; IStore y 1 ow; ILoad y rlx]; [IStore y 2 ow; ILoad x or]].
Definition R_F (f : ord) : list (list instr) :=
  [[IStore x 1 rlx; IFence f; IStore y 1 rlx; ILoad y rlx];
   [IStore y 2 rlx; IFence f; ILoad x rlx]].

Example R_relacq_allowed : strong (R_ rls acq) fuel [[0; 0; 2]; [0; 0]] = true.
Proof. vm_compute. reflexivity. Qed.
Example R_sc_forbidden : strong (R_ sc sc) fuel [[0; 0; 2]; [0; 0]] = false.
Proof. vm_compute. reflexivity. Qed.
Example R_sc_allowed_weak : weak (R_ sc sc) fuel [[0; 0; 2]; [0; 0]] = true.
Proof. vm_compute. reflexivity. Qed.
Example R_scfence_forbidden :
  strong (R_F sc) fuel [[0; 0; 0; 2]; [0; 0; 0]] = false /\
  weak20 (R_F sc) fuel [[0; 0; 0; 2]; [0; 0; 0]] = false.
Proof. vm_compute. split; reflexivity. Qed.
Example R_acqrelfence_allowed : strong (R_F AcqRel) fuel [[0; 0; 0; 2]; [0; 0; 0]] = true.
Proof. vm_compute. reflexivity. Qed.

(* ---- 2+2W; the trailing relaxed loads observe mo: reading the value 1
        after having written 2 means mo 2 -> 1 on that location ---- *)
Definition W22 (o : ord) : list (list instr) :=
  [[IStore x 1 o; IStore y 2 o; ILoad y rlx]; [IStore y 1 o; IStore x 2 o; ILoad x rlx]].

Example W22_rlx_allowed : strong (W22 rlx) fuel [[0; 0; 1]; [0; 0; 1]] = true.
Proof. vm_compute. reflexivity. Qed.
Example W22_rel_allowed : strong (W22 rls) fuel [[0; 0; 1]; [0; 0; 1]] = true.
Proof. vm_compute. reflexivity. Qed.
Example W22_sc_forbidden : strong (W22 sc) fuel [[0; 0; 1]; [0; 0; 1]] = false.
Proof. vm_compute. reflexivity. Qed.
Example W22_sc_allowed_weak : weak (W22 sc) fuel [[0; 0; 1]; [0; 0; 1]] = true.
Proof. vm_compute. reflexivity. Qed.
(* the same as candidate executions: both mo orders reversed w.r.t. sb *)
Definition W22_exec (o : ord) : execution :=
  mkExecution
    [mkEvent 0 0 KW x rlx 0 0; mkEvent 1 0 KW y rlx 0 0;
     mkEvent 2 1 KW x o 0 1; mkEvent 3 1 KW y o 0 2;
     mkEvent 4 2 KW y o 0 1; mkEvent 5 2 KW x o 0 2]
    [] [[0; 5; 2]; [1; 3; 4]]%nat.
Example W22_exec_verdict :
  rc11_consistent true false (W22_exec rlx) = true /\
  rc11_consistent true false (W22_exec sc) = false /\
  rc11_consistent false false (W22_exec sc) = true.
Proof. vm_compute. repeat split; reflexivity. Qed.

(* ---- release sequences ---- *)
(* same-thread later relaxed write: x = data, y = flag *)
Definition RSEQ : list (list instr) :=
  [[IStore x 1 rlx; IStore y 1 rls; IStore y 2 rlx]; [ILoad y acq; ILoad x rlx]].

Example RSEQ_rc11_forbidden : strong RSEQ fuel [[0; 0; 0]; [2; 0]] = false.
Proof. vm_compute. reflexivity. Qed.
Example RSEQ_c20_allowed : strong20 RSEQ fuel [[0; 0; 0]; [2; 0]] = true.
Proof. vm_compute. reflexivity. Qed.
Example RSEQ_weak :
  weak RSEQ fuel [[0; 0; 0]; [2; 0]] = false /\
  weak20 RSEQ fuel [[0; 0; 0]; [2; 0]] = true.
Proof. vm_compute. split; reflexivity. Qed.
(* reading the release write itself synchronises in every instance *)
Example RSEQ_head_forbidden :
  strong RSEQ fuel [[0; 0; 0]; [1; 0]] = false /\
  weak20 RSEQ fuel [[0; 0; 0]; [1; 0]] = false.
Proof. vm_compute. split; reflexivity. Qed.

(* through a relaxed RMW of another thread *)
Definition RSEQ_RMW : list (list instr) :=
  [[IStore x 1 rlx; IStore y 1 rls]; [IRmw y RAdd 1 rlx]; [ILoad y acq; ILoad x rlx]].

Example RSEQ_RMW_forbidden :
  strong RSEQ_RMW fuel [[0; 0]; [1]; [2; 0]] = false /\
  strong20 RSEQ_RMW fuel [[0; 0]; [1]; [2; 0]] = false /\
  weak RSEQ_RMW fuel [[0; 0]; [1]; [2; 0]] = false /\
  weak20 RSEQ_RMW fuel [[0; 0]; [1]; [2; 0]] = false.
Proof. vm_compute. repeat split; reflexivity. Qed.
Example RSEQ_RMW_fresh_allowed : strong RSEQ_RMW fuel [[0; 0]; [1]; [2; 1]] = true.
Proof. vm_compute. reflexivity. Qed.
(* a plain relaxed store of another thread breaks the release sequence *)
Example RSEQ_store_breaks :
  strong [[IStore x 1 rlx; IStore y 1 rls]; [IStore y 2 rlx]; [ILoad y acq; ILoad x rlx]]
         fuel [[0; 0]; [0]; [2; 0]] = true.
Proof. vm_compute. reflexivity. Qed.

(* ---- RMW atomicity ---- *)
Definition INC2 (o : ord) : list (list instr) := [[IRmw x RAdd 1 o]; [IRmw x RAdd 1 o]].

Example RMW_both_zero_forbidden :
  strong (INC2 rlx) fuel [[0]; [0]] = false /\ weak20 (INC2 rlx) fuel [[0]; [0]] = false.
Proof. vm_compute. split; reflexivity. Qed.
Example RMW_ordered_allowed :
  strong (INC2 rlx) fuel [[0]; [1]] = true /\ strong (INC2 rlx) fuel [[1]; [0]] = true.
Proof. vm_compute. split; reflexivity. Qed.
Example RMW_final_value :
  strong [[IRmw x RAdd 1 rlx; ILoad x rlx]; [IRmw x RAdd 1 rlx; ILoad x rlx]]
         fuel [[0; 1]; [1; 1]] = false /\
  strong [[IRmw x RAdd 1 rlx; ILoad x rlx]; [IRmw x RAdd 1 rlx; ILoad x rlx]]
         fuel [[0; 1]; [1; 2]] = true.
Proof. vm_compute. split; reflexivity. Qed.
(* a store cannot come between an RMW and the write it read from *)
Definition RMW_exec (good : bool) : execution :=
  mkExecution
    [mkEvent 0 0 KW x rlx 0 0; mkEvent 1 1 KU x rlx 0 1; mkEvent 2 2 KW x rlx 0 5]
    [(1, 0)]%nat [if good then [0; 1; 2] else [0; 2; 1]]%nat.
Example RMW_exec_verdict :
  rc11_consistent true false (RMW_exec true) = true /\
  rc11_consistent true false (RMW_exec false) = false.
Proof. vm_compute. split; reflexivity. Qed.
(* CAS: two CAS 0 -> 1 cannot both succeed; a failed one returns the value seen *)
Definition CAS2 : list (list instr) := [[ICas x 0 1 AcqRel acq]; [ICas x 0 1 AcqRel acq]].
Example CAS_verdicts :
  strong CAS2 fuel [[0]; [0]] = false /\
  strong CAS2 fuel [[0]; [1]] = true /\
  strong CAS2 fuel [[1]; [0]] = true.
Proof. vm_compute. repeat split; reflexivity. Qed.
(* MP through a release CAS read by an acquire load *)
Example MP_cas_forbidden :
  strong [[IStore x 1 rlx; ICas y 0 1 rls rlx]; [ILoad y acq; ILoad x rlx]]
         fuel [[0; 0]; [1; 0]] = false.
Proof. vm_compute. reflexivity. Qed.

(* ---- the difference between the instances ---- *)
Example SB_sc_allowed_weak :
  weak (SB sc sc) fuel [[0; 0]; [0; 0]] = true /\
  weak20 (SB sc sc) fuel [[0; 0]; [0; 0]] = true /\
  strong (SB sc sc) fuel [[0; 0]; [0; 0]] = false.
Proof. vm_compute. repeat split; reflexivity. Qed.
Example SB_scfence_forbidden_weak :
  weak (SB_F sc) fuel [[0; 0; 0]; [0; 0; 0]] = false /\
  weak20 (SB_F sc) fuel [[0; 0; 0]; [0; 0; 0]] = false.
Proof. vm_compute. split; reflexivity. Qed.

(* ---- the enumeration itself ---- *)
(* non-zero initial values are used *)
Example init_values :
  rc11_outcomes true false (fun a => N.of_nat a + 5) [[ILoad 2%nat rlx; IRmw 3%nat RAdd 1 rlx]] fuel
  = [[[7; 8]]].
Proof. vm_compute. reflexivity. Qed.
(* each execution is generated once: SB has exactly 4 executions under rlx,
   3 under SC *)
Example SB_counts :
  length (rc11_outcomes true false init0 (SB rlx rlx) fuel) = 4%nat /\
  length (rc11_outcomes true false init0 (SB sc sc) fuel) = 3%nat.
Proof. vm_compute. split; reflexivity. Qed.
(* fuel: the number of instructions is enough, less is not *)
Example fuel_bound :
  rc11_enough_fuel (IRIW rlx rlx) = 6%nat /\
  length (rc11_outcomes true false init0 (IRIW rlx rlx) 6) = 16%nat /\
  length (rc11_outcomes true false init0 (IRIW rlx rlx) 5) = 0%nat.
Proof. vm_compute. repeat split; reflexivity. Qed.

End Litmus.

(* Extraction check (done once, not left in the file):
     Require Extraction.
     Extraction "rc11_x.ml" rc11_outcomes rc11_allows rc11_consistent.
   (equivalently Recursive Extraction of the three functions) succeeds with
   no axiom to realise, and the generated rc11_x.mli / rc11_x.ml (about 1900
   lines, stdlib N / nat / list functions included) compile with
   ocamlc 4.13.1.

   Cross-check of the canonical-order enumeration (done once, not left in the
   file): on SB, SB+fences, MP, MP+fences, LB, IRIW, WRC, RWC, 2+2W, the
   release-sequence, RMW and CAS programs above and three mixed programs with
   up to 9 program events, in all four instances, [rc11_outcomes] returns
   the same set of outcomes as the naive enumeration that tries EVERY
   thread's next instruction in every state (all linearisations of sb | rf),
   while generating each execution once (e.g. IRIW sc: 15 executions instead
   of 954 linearisations).

   Cost (coqc 8.16.1, vm_compute): every Example above takes well under one
   second; a 3-thread 3-location program with 12 events takes 0.1 - 0.3 s; the
   worst case tried, 12 events on ONE location (5880 consistent executions),
   takes 28 s. *)
