(* Coherence of the view-based store history of rt/atomic.rs (Atomic.v), for
   ARBITRARY atomic states and any number of threads: no single-thread
   assumption and no invariant (the only side conditions are on the length of
   the ring where the statement talks about the slot written by a store).

   1. Exact characterisation of the candidate lists.
      - [mlts_inner_spec], [mlts_inner_none]: the inner loop of
        match_load_to_stores; [mlts_outer_spec], [mlts_outer_In]: the outer
        loop is a filter.
      - [load_candidates_spec]: when match_load_to_stores returns [Some l], a
        slot i is in l iff it is live and every other live slot j that is
        mo-after i is (a) not yet seen by the loading thread, (b) i has not
        been seen by the loading thread before its last yield and (c) not all
        of load, store i and store j are SeqCst.  [load_candidates_NoDup],
        [load_candidates_sorted] (StronglySorted lt), [load_candidates_none]
        (None = the assertion `mo_i != mo_j` fires = two distinct live slots
        with vv_eqb modification orders).
      - the same for match_rmw_to_stores: [rmw_candidates_spec] (exactly the
        live mo-maximal slots), [rmw_candidates_NoDup], [rmw_candidates_sorted],
        [rmw_candidates_none].
      Both are instances of one generic loop ([g_inner]/[g_outer], Section
      Generic) parameterised by the "blocking" test.

   2. Coherence corollaries: [coherence_write_read] (CoWR/CoRR),
      [mo_maximal_is_candidate], [mo_maximal_exists] (vv_lt is a strict order
      on a finite non-empty set), [candidates_nonempty],
      [rmw_candidates_nonempty], [rmw_candidates_are_load_candidates].

   3. RMW atomicity: [rmw_atomicity_grows], [rmw_pass_stable_iff] (a pass
      reports "unchanged" iff mo is closed: [rmw_closed]),
      [rmw_atomicity_fixpoint] (the requested postcondition, spelled out),
      [rmw_atomicity_sufficient_fuel] (length stores <= fuel), and for the
      model's own call in atomic_store_from (fuel S MAX_ATOMIC_HISTORY):
      [atomic_store_from_mo], [store_from_mo_closed], [store_from_mo_ge_caus],
      [store_from_mo_ge_seen], [atomic_store_from_rmw_atomic].

   4. [coherence_example_*]: a concrete two-store state.

   Deviations from the requested statements: none of the requested statements
   is false.  Details that were "up to" this file:
   - "l is increasing" is stated as [StronglySorted lt l].
   - the condition j <> i of the characterisation is kept although it is
     implied by vv_lt (irreflexive); [coherence_write_read] therefore needs no
     hypothesis i <> j.
   - the fixpoint property holds for ANY mo' on which a pass reports
     "unchanged", not only for results of rmw_atomicity, and is an
     equivalence ([rmw_pass_stable_iff]).
   - the model's call needs [length (at_stores s) <= S MAX_ATOMIC_HISTORY]
     for the fuel to suffice (the ring has length MAX_ATOMIC_HISTORY in every
     state the model builds; an arbitrary atomic_state record can carry a
     longer list), and [length (at_stores s) = MAX_ATOMIC_HISTORY] to read
     back the written slot. *)
Require Import LV.Base LV.VV LV.VVFacts LV.Path LV.Prog LV.Objects LV.Atomic LV.AtomicFacts.
From Coq Require Import Lia Sorted.

(* ------------------------------------------------------------------ *)
(* vv_lt is a strict order; relation with vv_le and vv_eqb             *)

Lemma vv_lt_irrefl : forall a, vv_lt a a = false.
Proof.
  intros a. destruct (vv_lt a a) eqn:H; [|reflexivity].
  apply vv_lt_spec in H. destruct H as [_ [i Hi]]. lia.
Qed.

Lemma vv_lt_trans : forall a b c,
  vv_lt a b = true -> vv_lt b c = true -> vv_lt a c = true.
Proof.
  intros a b c Hab Hbc. apply vv_lt_spec in Hab. apply vv_lt_spec in Hbc.
  apply vv_lt_spec. destruct Hab as [Hab [i Hi]]. destruct Hbc as [Hbc _].
  split.
  - eapply vle_trans; [exact Hab | exact Hbc].
  - exists i. specialize (Hbc i). lia.
Qed.

Lemma vv_lt_asym : forall a b, vv_lt a b = true -> vv_lt b a = false.
Proof.
  intros a b Hab. destruct (vv_lt b a) eqn:Hba; [|reflexivity].
  pose proof (vv_lt_trans _ _ _ Hab Hba) as H. rewrite vv_lt_irrefl in H. discriminate.
Qed.

Lemma vv_lt_le : forall a b, vv_lt a b = true -> vv_le a b = true.
Proof.
  intros a b H. apply vv_lt_spec in H. apply vv_le_spec. destruct H as [H _]. exact H.
Qed.

Lemma vv_eqb_not_lt : forall a b, vv_eqb a b = true -> vv_lt a b = false.
Proof.
  intros a b He. destruct (vv_lt a b) eqn:Hl; [|reflexivity].
  apply vv_lt_spec in Hl. destruct Hl as [_ [i Hi]].
  rewrite vv_eqb_spec in He. specialize (He i). lia.
Qed.

Lemma vv_le_trans_b : forall a b c,
  vv_le a b = true -> vle b c -> vv_le a c = true.
Proof.
  intros a b c Hab Hbc. apply vv_le_spec. apply vv_le_spec in Hab.
  eapply vle_trans; [exact Hab | exact Hbc].
Qed.

(* ------------------------------------------------------------------ *)
(* list utilities                                                      *)

Lemma filter_StronglySorted : forall (A : Type) (R : A -> A -> Prop) (p : A -> bool) (l : list A),
  StronglySorted R l -> StronglySorted R (filter p l).
Proof.
  intros A R p l Hs. induction Hs as [|a l Hs IH Hall].
  - constructor.
  - cbn [filter]. destruct (p a).
    + constructor; [exact IH|].
      apply Forall_forall. intros x Hx. apply filter_In in Hx. destruct Hx as [Hx _].
      rewrite Forall_forall in Hall. apply Hall. exact Hx.
    + exact IH.
Qed.

Lemma seq_StronglySorted : forall n a, StronglySorted lt (seq a n).
Proof.
  induction n as [|n IH]; intros a.
  - constructor.
  - cbn [seq]. constructor; [apply IH|].
    apply Forall_forall. intros x Hx. apply in_seq in Hx. lia.
Qed.

Lemma filter_length_le : forall (A : Type) (p : A -> bool) (l : list A),
  length (filter p l) <= length l.
Proof.
  intros A p l. induction l as [|a l IH]; [apply le_n|].
  cbn [filter]. destruct (p a); simpl; lia.
Qed.

Lemma filter_length_mono : forall (A : Type) (p q : A -> bool) (l : list A),
  (forall x, In x l -> q x = true -> p x = true) ->
  length (filter q l) <= length (filter p l).
Proof.
  intros A p q l. induction l as [|a l IH]; intros Himp; [apply le_n|].
  assert (IH' : length (filter q l) <= length (filter p l)).
  { apply IH. intros x Hx. apply Himp. right. exact Hx. }
  cbn [filter]. destruct (q a) eqn:Hq.
  - rewrite (Himp a (or_introl eq_refl) Hq). simpl. lia.
  - destruct (p a); simpl; lia.
Qed.

Lemma filter_length_lt : forall (A : Type) (p q : A -> bool) (l : list A) (w : A),
  (forall x, In x l -> q x = true -> p x = true) ->
  In w l -> p w = true -> q w = false ->
  length (filter q l) < length (filter p l).
Proof.
  intros A p q l w. induction l as [|a l IH]; intros Himp Hin Hp Hq; [contradiction|].
  assert (Himp' : forall x, In x l -> q x = true -> p x = true).
  { intros x Hx. apply Himp. right. exact Hx. }
  cbn [filter]. destruct Hin as [Heq|Hin].
  - subst a. rewrite Hp, Hq. simpl.
    pose proof (filter_length_mono A p q l Himp') as Hm. lia.
  - specialize (IH Himp' Hin Hp Hq).
    destruct (q a) eqn:Hqa.
    + rewrite (Himp a (or_introl eq_refl) Hqa). simpl. lia.
    + destruct (p a); simpl; lia.
Qed.

Lemma filter_length_0 : forall (A : Type) (p : A -> bool) (l : list A),
  length (filter p l) = 0 -> forall x, In x l -> p x = false.
Proof.
  intros A p l. induction l as [|a l IH]; intros Hlen x Hx; [contradiction|].
  cbn [filter] in Hlen. destruct (p a) eqn:Hpa; [simpl in Hlen; discriminate|].
  destruct Hx as [Heq|Hx]; [subst x; exact Hpa | apply IH; assumption].
Qed.

(* a boolean strict order on nat has a maximal element below every n > 0 *)
Lemma maximal_exists : forall (R : nat -> nat -> bool),
  (forall a, R a a = false) ->
  (forall a b c, R a b = true -> R b c = true -> R a c = true) ->
  forall n, 0 < n -> exists m, m < n /\ forall j, j < n -> R m j = false.
Proof.
  intros R Hirr Htr n. induction n as [|n IH]; intros Hpos; [lia|].
  destruct n as [|n].
  - exists 0. split; [lia|]. intros j Hj. replace j with 0 by lia. apply Hirr.
  - destruct (IH ltac:(lia)) as [m [Hm Hmax]].
    destruct (R m (S n)) eqn:Hmn.
    + exists (S n). split; [lia|]. intros j Hj.
      destruct (Nat.eq_dec j (S n)) as [Heq|Hne]; [subst j; apply Hirr|].
      destruct (R (S n) j) eqn:Hnj; [|reflexivity].
      pose proof (Htr _ _ _ Hmn Hnj) as Hmj. rewrite Hmax in Hmj by lia. discriminate.
    + exists m. split; [lia|]. intros j Hj.
      destruct (Nat.eq_dec j (S n)) as [Heq|Hne]; [subst j; exact Hmn|].
      apply Hmax. lia.
Qed.

(* ------------------------------------------------------------------ *)
(* the generic candidate loop                                          *)

Definition opt_true (r : option bool) : bool :=
  match r with Some true => true | _ => false end.

Section Generic.
  Variable s : atomic_state.
  (* [blk i j]: the live store j, mo-after i, hides i *)
  Variable blk : nat -> nat -> bool.

  Fixpoint g_inner (i : nat) (js : list nat) : option bool :=
    match js with
    | [] => Some true
    | j :: js' =>
        if Nat.eqb i j || Nat.leb (at_cnt s) j then g_inner i js'
        else if vv_eqb (st_mo (get_store s i)) (st_mo (get_store s j)) then None
        else if vv_lt (st_mo (get_store s i)) (st_mo (get_store s j)) && blk i j then Some false
        else g_inner i js'
    end.

  Fixpoint g_outer (is_ : list nat) : option (list nat) :=
    match is_ with
    | [] => Some []
    | i :: rest =>
        if Nat.leb (at_cnt s) i then g_outer rest
        else match g_inner i (seq 0 MAX_ATOMIC_HISTORY) with
             | None => None
             | Some keep =>
                 match g_outer rest with
                 | None => None
                 | Some l => Some (if keep then i :: l else l)
                 end
             end
    end.

  Definition g_keep (i : nat) : bool :=
    Nat.ltb i (at_cnt s) && opt_true (g_inner i (seq 0 MAX_ATOMIC_HISTORY)).

  Lemma g_inner_some : forall i js b,
    g_inner i js = Some b ->
    (b = true <->
     forall j, In j js -> j <> i -> j < at_cnt s ->
       vv_lt (st_mo (get_store s i)) (st_mo (get_store s j)) = true -> blk i j = false).
  Proof.
    intros i js. induction js as [|j js IH]; intros b Hr.
    - cbn [g_inner] in Hr. inversion Hr. split; [|reflexivity].
      intros _ j Hj. contradiction.
    - cbn [g_inner] in Hr.
      destruct (Nat.eqb_spec i j) as [Heq|Hne]; cbn [orb] in Hr.
      { rewrite (IH b Hr). split; intros H j' Hj' Hne' Hlive Hlt.
        - destruct Hj' as [Hj'|Hj']; [lia|]. apply H; assumption.
        - apply H; try assumption. right. exact Hj'. }
      destruct (Nat.leb_spec (at_cnt s) j) as [Hdead|Hlive].
      { rewrite (IH b Hr). split; intros H j' Hj' Hne' Hlive Hlt.
        - destruct Hj' as [Hj'|Hj']; [lia|]. apply H; assumption.
        - apply H; try assumption. right. exact Hj'. }
      destruct (vv_eqb (st_mo (get_store s i)) (st_mo (get_store s j))); [discriminate|].
      destruct (vv_lt (st_mo (get_store s i)) (st_mo (get_store s j))) eqn:Hlt; cbn [andb] in Hr.
      + destruct (blk i j) eqn:Hb.
        * inversion Hr. split; [discriminate|]. intros H.
          rewrite (H j (or_introl eq_refl)) in Hb; [discriminate|lia|exact Hlive|exact Hlt].
        * rewrite (IH b Hr). split; intros H j' Hj' Hne' Hlive' Hlt'.
          -- destruct Hj' as [Hj'|Hj']; [subst j'; exact Hb|]. apply H; assumption.
          -- apply H; try assumption. right. exact Hj'.
      + rewrite (IH b Hr). split; intros H j' Hj' Hne' Hlive' Hlt'.
        * destruct Hj' as [Hj'|Hj']; [subst j'; rewrite Hlt in Hlt'; discriminate|].
          apply H; assumption.
        * apply H; try assumption. right. exact Hj'.
  Qed.

  Lemma g_inner_none : forall i js,
    g_inner i js = None ->
    exists j, In j js /\ j <> i /\ j < at_cnt s /\
              vv_eqb (st_mo (get_store s i)) (st_mo (get_store s j)) = true.
  Proof.
    intros i js. induction js as [|j js IH]; intros Hr.
    - cbn [g_inner] in Hr. discriminate.
    - cbn [g_inner] in Hr.
      assert (Hrec : g_inner i js = None ->
                     exists j0, In j0 (j :: js) /\ j0 <> i /\ j0 < at_cnt s /\
                       vv_eqb (st_mo (get_store s i)) (st_mo (get_store s j0)) = true).
      { intros H. destruct (IH H) as [j0 [Hin Hrest]]. exists j0. split; [right; exact Hin|exact Hrest]. }
      destruct (Nat.eqb_spec i j) as [Heq|Hne]; cbn [orb] in Hr; [apply Hrec; exact Hr|].
      destruct (Nat.leb_spec (at_cnt s) j) as [Hdead|Hlive]; [apply Hrec; exact Hr|].
      destruct (vv_eqb (st_mo (get_store s i)) (st_mo (get_store s j))) eqn:He.
      + exists j. split; [left; reflexivity|]. split; [lia|]. split; [exact Hlive|exact He].
      + destruct (vv_lt (st_mo (get_store s i)) (st_mo (get_store s j)) && blk i j);
          [discriminate | apply Hrec; exact Hr].
  Qed.

  Lemma g_outer_some : forall is_ l,
    g_outer is_ = Some l ->
    l = filter g_keep is_ /\
    forall i, In i is_ -> i < at_cnt s ->
      exists b, g_inner i (seq 0 MAX_ATOMIC_HISTORY) = Some b.
  Proof.
    induction is_ as [|i rest IH]; intros l Hr.
    - cbn [g_outer] in Hr. inversion Hr. split; [reflexivity|]. intros i Hi. contradiction.
    - cbn [g_outer] in Hr. cbn [filter]. unfold g_keep at 1.
      destruct (Nat.leb_spec (at_cnt s) i) as [Hdead|Hlive].
      + destruct (IH l Hr) as [Hl Hsome]. split.
        * replace (Nat.ltb i (at_cnt s)) with false
            by (symmetry; apply Nat.ltb_ge; exact Hdead).
          cbn [andb]. exact Hl.
        * intros i' [Heq|Hi'] Hlt; [lia|]. apply Hsome; assumption.
      + replace (Nat.ltb i (at_cnt s)) with true
          by (symmetry; apply Nat.ltb_lt; exact Hlive).
        cbn [andb].
        destruct (g_inner i (seq 0 MAX_ATOMIC_HISTORY)) as [keep|] eqn:Hin; [|discriminate].
        destruct (g_outer rest) as [l'|] eqn:Hrest; [|discriminate].
        destruct (IH l' eq_refl) as [Hl Hsome]. inversion Hr. split.
        * destruct keep; cbn [opt_true]; rewrite <- Hl; reflexivity.
        * intros i' [Heq|Hi'] Hlt.
          -- subst i'. exists keep. exact Hin.
          -- apply Hsome; assumption.
  Qed.

  Lemma g_outer_none : forall is_,
    g_outer is_ = None ->
    exists i, In i is_ /\ i < at_cnt s /\ g_inner i (seq 0 MAX_ATOMIC_HISTORY) = None.
  Proof.
    induction is_ as [|i rest IH]; intros Hr.
    - cbn [g_outer] in Hr. discriminate.
    - cbn [g_outer] in Hr.
      assert (Hrec : g_outer rest = None ->
                exists i0, In i0 (i :: rest) /\ i0 < at_cnt s /\
                           g_inner i0 (seq 0 MAX_ATOMIC_HISTORY) = None).
      { intros H. destruct (IH H) as [i0 [Hin Hrest]]. exists i0. split; [right; exact Hin|exact Hrest]. }
      destruct (Nat.leb_spec (at_cnt s) i) as [Hdead|Hlive]; [apply Hrec; exact Hr|].
      destruct (g_inner i (seq 0 MAX_ATOMIC_HISTORY)) as [keep|] eqn:Hin.
      + destruct (g_outer rest) as [l'|]; [discriminate|]. apply Hrec. reflexivity.
      + exists i. split; [left; reflexivity|]. split; [exact Hlive|exact Hin].
  Qed.

  (* the full loop: exact characterisation of the result *)
  Lemma g_candidates_spec : forall l,
    g_outer (seq 0 MAX_ATOMIC_HISTORY) = Some l ->
    forall i, In i l <->
      (i < MAX_ATOMIC_HISTORY /\ i < at_cnt s /\
       forall j, j < MAX_ATOMIC_HISTORY -> j < at_cnt s -> j <> i ->
         vv_lt (st_mo (get_store s i)) (st_mo (get_store s j)) = true -> blk i j = false).
  Proof.
    intros l Hr i. destruct (g_outer_some _ _ Hr) as [Hl Hsome]. subst l.
    rewrite filter_In. rewrite in_seq7. unfold g_keep. rewrite andb_true_iff. rewrite Nat.ltb_lt.
    split.
    - intros [H7 [Hlive Hk]]. split; [exact H7|]. split; [exact Hlive|].
      destruct (g_inner i (seq 0 MAX_ATOMIC_HISTORY)) as [b|] eqn:Hin; [|discriminate].
      destruct b; [|discriminate].
      pose proof (g_inner_some _ _ _ Hin) as Hspec. destruct Hspec as [Hspec _].
      intros j Hj7 Hjl Hne Hlt. apply (Hspec eq_refl j); try assumption.
      apply in_seq7. exact Hj7.
    - intros [H7 [Hlive Hall]]. split; [exact H7|]. split; [exact Hlive|].
      destruct (Hsome i) as [b Hin]; [apply in_seq7; exact H7 | exact Hlive |].
      rewrite Hin. pose proof (g_inner_some _ _ _ Hin) as Hspec. destruct Hspec as [_ Hspec].
      rewrite Hspec; [reflexivity|].
      intros j Hj Hne Hjl Hlt. apply Hall; try assumption. apply in_seq7. exact Hj.
  Qed.

  Lemma g_candidates_NoDup : forall l,
    g_outer (seq 0 MAX_ATOMIC_HISTORY) = Some l -> NoDup l.
  Proof.
    intros l Hr. destruct (g_outer_some _ _ Hr) as [Hl _]. subst l.
    apply NoDup_filter. apply seq_NoDup.
  Qed.

  Lemma g_candidates_sorted : forall l,
    g_outer (seq 0 MAX_ATOMIC_HISTORY) = Some l -> StronglySorted lt l.
  Proof.
    intros l Hr. destruct (g_outer_some _ _ Hr) as [Hl _]. subst l.
    apply filter_StronglySorted. apply seq_StronglySorted.
  Qed.

  Lemma g_candidates_none :
    g_outer (seq 0 MAX_ATOMIC_HISTORY) = None ->
    exists i j, i < MAX_ATOMIC_HISTORY /\ i < at_cnt s /\
                j < MAX_ATOMIC_HISTORY /\ j < at_cnt s /\ i <> j /\
                vv_eqb (st_mo (get_store s i)) (st_mo (get_store s j)) = true.
  Proof.
    intros Hr. destruct (g_outer_none _ Hr) as [i [Hi [Hlive Hin]]].
    destruct (g_inner_none _ _ Hin) as [j [Hj [Hne [Hjl He]]]].
    exists i, j. apply in_seq7 in Hi. apply in_seq7 in Hj.
    repeat split; try assumption. lia.
  Qed.
End Generic.

(* ------------------------------------------------------------------ *)
(* match_load_to_stores and match_rmw_to_stores as instances            *)

Definition load_blk (s : atomic_state) (me : nat) (caus : vv) (ly : option nat) (o : ord)
           (i j : nat) : bool :=
  is_seen_by_current (st_seen (get_store s j)) caus
  || is_seen_before_yield (st_seen (get_store s i)) me ly
  || (is_seq_cst o && st_seqcst (get_store s i) && st_seqcst (get_store s j)).

Lemma load_blk_false : forall s me caus ly o i j,
  load_blk s me caus ly o i j = false <->
  (is_seen_by_current (st_seen (get_store s j)) caus = false /\
   is_seen_before_yield (st_seen (get_store s i)) me ly = false /\
   (is_seq_cst o && st_seqcst (get_store s i) && st_seqcst (get_store s j)) = false).
Proof.
  intros s me caus ly o i j. unfold load_blk. rewrite !orb_false_iff. tauto.
Qed.

Lemma mlts_inner_g : forall s me caus ly o i js,
  mlts_inner s me caus ly o i js = g_inner s (load_blk s me caus ly o) i js.
Proof.
  intros s me caus ly o i js. induction js as [|j js IH]; [reflexivity|].
  cbn [mlts_inner g_inner]. rewrite IH. unfold load_blk.
  destruct (Nat.eqb i j || Nat.leb (at_cnt s) j); [reflexivity|].
  destruct (vv_eqb (st_mo (get_store s i)) (st_mo (get_store s j))); [reflexivity|].
  destruct (vv_lt (st_mo (get_store s i)) (st_mo (get_store s j))); [|reflexivity].
  destruct (is_seen_by_current (st_seen (get_store s j)) caus); [reflexivity|].
  destruct (is_seen_before_yield (st_seen (get_store s i)) me ly); [reflexivity|].
  destruct (is_seq_cst o && st_seqcst (get_store s i) && st_seqcst (get_store s j)); reflexivity.
Qed.

Lemma mlts_outer_g : forall s me caus ly o is_,
  mlts_outer s me caus ly o is_ = g_outer s (load_blk s me caus ly o) is_.
Proof.
  intros s me caus ly o is_. induction is_ as [|i rest IH]; [reflexivity|].
  cbn [mlts_outer g_outer]. rewrite IH. rewrite mlts_inner_g. reflexivity.
Qed.

Lemma mrts_inner_g : forall s i js,
  mrts_inner s i js = g_inner s (fun _ _ => true) i js.
Proof.
  intros s i js. induction js as [|j js IH]; [reflexivity|].
  cbn [mrts_inner g_inner]. rewrite IH. rewrite andb_true_r. reflexivity.
Qed.

Lemma mrts_outer_g : forall s is_,
  mrts_outer s is_ = g_outer s (fun _ _ => true) is_.
Proof.
  intros s is_. induction is_ as [|i rest IH]; [reflexivity|].
  cbn [mrts_outer g_outer]. rewrite IH. rewrite mrts_inner_g. reflexivity.
Qed.

(* ---- the inner loop of a load ---- *)
Theorem mlts_inner_spec : forall s me caus ly o i js b,
  mlts_inner s me caus ly o i js = Some b ->
  (b = true <->
   forall j, In j js -> j <> i -> j < at_cnt s ->
     vv_lt (st_mo (get_store s i)) (st_mo (get_store s j)) = true ->
     (is_seen_by_current (st_seen (get_store s j)) caus = false /\
      is_seen_before_yield (st_seen (get_store s i)) me ly = false /\
      (is_seq_cst o && st_seqcst (get_store s i) && st_seqcst (get_store s j)) = false)).
Proof.
  intros s me caus ly o i js b Hr. rewrite mlts_inner_g in Hr.
  rewrite (g_inner_some _ _ _ _ _ Hr).
  split; intros H j Hj Hne Hlive Hlt.
  - apply load_blk_false. apply H; assumption.
  - apply load_blk_false. apply H; assumption.
Qed.

Theorem mlts_inner_none : forall s me caus ly o i js,
  mlts_inner s me caus ly o i js = None ->
  exists j, In j js /\ j <> i /\ j < at_cnt s /\
            vv_eqb (st_mo (get_store s i)) (st_mo (get_store s j)) = true.
Proof.
  intros s me caus ly o i js Hr. rewrite mlts_inner_g in Hr.
  apply (g_inner_none _ _ _ _ Hr).
Qed.

(* ---- the outer loop of a load: a filter ---- *)
Theorem mlts_outer_spec : forall s me caus ly o is_ l,
  mlts_outer s me caus ly o is_ = Some l ->
  l = filter (fun i => Nat.ltb i (at_cnt s) &&
                       opt_true (mlts_inner s me caus ly o i (seq 0 MAX_ATOMIC_HISTORY))) is_.
Proof.
  intros s me caus ly o is_ l Hr. rewrite mlts_outer_g in Hr.
  destruct (g_outer_some _ _ _ _ Hr) as [Hl _]. subst l.
  apply filter_ext. intros i. unfold g_keep. rewrite mlts_inner_g. reflexivity.
Qed.

Theorem mlts_outer_In : forall s me caus ly o is_ l,
  mlts_outer s me caus ly o is_ = Some l ->
  forall i, In i l <->
    (In i is_ /\ i < at_cnt s /\
     mlts_inner s me caus ly o i (seq 0 MAX_ATOMIC_HISTORY) = Some true).
Proof.
  intros s me caus ly o is_ l Hr i. rewrite (mlts_outer_spec _ _ _ _ _ _ _ Hr).
  rewrite filter_In. rewrite andb_true_iff. rewrite Nat.ltb_lt.
  destruct (mlts_inner s me caus ly o i (seq 0 MAX_ATOMIC_HISTORY)) as [[|]|];
    cbn [opt_true]; split; intros [H1 [H2 H3]]; try discriminate; repeat split; assumption.
Qed.

Theorem mlts_outer_none : forall s me caus ly o is_,
  mlts_outer s me caus ly o is_ = None ->
  exists i, In i is_ /\ i < at_cnt s /\
            mlts_inner s me caus ly o i (seq 0 MAX_ATOMIC_HISTORY) = None.
Proof.
  intros s me caus ly o is_ Hr. rewrite mlts_outer_g in Hr.
  destruct (g_outer_none _ _ _ Hr) as [i [Hi [Hl Hin]]].
  exists i. rewrite mlts_inner_g. repeat split; assumption.
Qed.

(* ---- MAIN THEOREM: the candidates of a load ---- *)
Theorem load_candidates_spec : forall s me caus ly o l,
  match_load_to_stores s me caus ly o = Some l ->
  forall i, In i l <->
    (i < MAX_ATOMIC_HISTORY /\ i < at_cnt s /\
     forall j, j < MAX_ATOMIC_HISTORY -> j < at_cnt s -> j <> i ->
       vv_lt (st_mo (get_store s i)) (st_mo (get_store s j)) = true ->
       (is_seen_by_current (st_seen (get_store s j)) caus = false /\
        is_seen_before_yield (st_seen (get_store s i)) me ly = false /\
        (is_seq_cst o && st_seqcst (get_store s i) && st_seqcst (get_store s j)) = false)).
Proof.
  intros s me caus ly o l Hr i. unfold match_load_to_stores in Hr.
  rewrite mlts_outer_g in Hr. rewrite (g_candidates_spec _ _ _ Hr i).
  split; intros [H7 [Hlive H]]; (split; [exact H7|]); (split; [exact Hlive|]);
    intros j Hj7 Hjl Hne Hlt; apply load_blk_false; apply H; assumption.
Qed.

Theorem load_candidates_NoDup : forall s me caus ly o l,
  match_load_to_stores s me caus ly o = Some l -> NoDup l.
Proof.
  intros s me caus ly o l Hr. unfold match_load_to_stores in Hr.
  rewrite mlts_outer_g in Hr. apply (g_candidates_NoDup _ _ _ Hr).
Qed.

Theorem load_candidates_sorted : forall s me caus ly o l,
  match_load_to_stores s me caus ly o = Some l -> StronglySorted lt l.
Proof.
  intros s me caus ly o l Hr. unfold match_load_to_stores in Hr.
  rewrite mlts_outer_g in Hr. apply (g_candidates_sorted _ _ _ Hr).
Qed.

(* None: the assertion `mo_i != mo_j` fired for two distinct live slots *)
Theorem load_candidates_none : forall s me caus ly o,
  match_load_to_stores s me caus ly o = None ->
  exists i j, i < MAX_ATOMIC_HISTORY /\ i < at_cnt s /\
              j < MAX_ATOMIC_HISTORY /\ j < at_cnt s /\ i <> j /\
              vv_eqb (st_mo (get_store s i)) (st_mo (get_store s j)) = true.
Proof.
  intros s me caus ly o Hr. unfold match_load_to_stores in Hr.
  rewrite mlts_outer_g in Hr. apply (g_candidates_none _ _ Hr).
Qed.

(* ---- the candidates of an RMW: exactly the live mo-maximal slots ---- *)
Theorem rmw_candidates_spec : forall s l,
  match_rmw_to_stores s = Some l ->
  forall i, In i l <->
    (i < MAX_ATOMIC_HISTORY /\ i < at_cnt s /\
     forall j, j < MAX_ATOMIC_HISTORY -> j < at_cnt s -> j <> i ->
       vv_lt (st_mo (get_store s i)) (st_mo (get_store s j)) = false).
Proof.
  intros s l Hr i. unfold match_rmw_to_stores in Hr.
  rewrite mrts_outer_g in Hr. rewrite (g_candidates_spec _ _ _ Hr i).
  split; intros [H7 [Hlive H]]; (split; [exact H7|]); (split; [exact Hlive|]).
  - intros j Hj7 Hjl Hne.
    destruct (vv_lt (st_mo (get_store s i)) (st_mo (get_store s j))) eqn:Hlt; [|reflexivity].
    specialize (H j Hj7 Hjl Hne Hlt). discriminate.
  - intros j Hj7 Hjl Hne Hlt. rewrite (H j Hj7 Hjl Hne) in Hlt. discriminate.
Qed.

Theorem rmw_candidates_NoDup : forall s l,
  match_rmw_to_stores s = Some l -> NoDup l.
Proof.
  intros s l Hr. unfold match_rmw_to_stores in Hr.
  rewrite mrts_outer_g in Hr. apply (g_candidates_NoDup _ _ _ Hr).
Qed.

Theorem rmw_candidates_sorted : forall s l,
  match_rmw_to_stores s = Some l -> StronglySorted lt l.
Proof.
  intros s l Hr. unfold match_rmw_to_stores in Hr.
  rewrite mrts_outer_g in Hr. apply (g_candidates_sorted _ _ _ Hr).
Qed.

Theorem rmw_candidates_none : forall s,
  match_rmw_to_stores s = None ->
  exists i j, i < MAX_ATOMIC_HISTORY /\ i < at_cnt s /\
              j < MAX_ATOMIC_HISTORY /\ j < at_cnt s /\ i <> j /\
              vv_eqb (st_mo (get_store s i)) (st_mo (get_store s j)) = true.
Proof.
  intros s Hr. unfold match_rmw_to_stores in Hr.
  rewrite mrts_outer_g in Hr. apply (g_candidates_none _ _ Hr).
Qed.

(* ------------------------------------------------------------------ *)
(* coherence corollaries                                               *)

(* CoWR / CoRR: a thread never reads a store that is mo-before a store it has
   already observed *)
Theorem coherence_write_read : forall s me caus ly o l i j,
  match_load_to_stores s me caus ly o = Some l ->
  j < MAX_ATOMIC_HISTORY -> j < at_cnt s ->
  vv_lt (st_mo (get_store s i)) (st_mo (get_store s j)) = true ->
  is_seen_by_current (st_seen (get_store s j)) caus = true ->
  ~ In i l.
Proof.
  intros s me caus ly o l i j Hr Hj7 Hjl Hlt Hseen Hin.
  apply (load_candidates_spec _ _ _ _ _ _ Hr i) in Hin.
  destruct Hin as [_ [_ Hall]].
  assert (Hne : j <> i).
  { intros Heq. subst j. rewrite vv_lt_irrefl in Hlt. discriminate. }
  destruct (Hall j Hj7 Hjl Hne Hlt) as [Hs _]. rewrite Hs in Hseen. discriminate.
Qed.

(* the two other exclusion rules, in the same form *)
Theorem coherence_seen_before_yield : forall s me caus ly o l i j,
  match_load_to_stores s me caus ly o = Some l ->
  j < MAX_ATOMIC_HISTORY -> j < at_cnt s ->
  vv_lt (st_mo (get_store s i)) (st_mo (get_store s j)) = true ->
  is_seen_before_yield (st_seen (get_store s i)) me ly = true ->
  ~ In i l.
Proof.
  intros s me caus ly o l i j Hr Hj7 Hjl Hlt Hseen Hin.
  apply (load_candidates_spec _ _ _ _ _ _ Hr i) in Hin.
  destruct Hin as [_ [_ Hall]].
  assert (Hne : j <> i).
  { intros Heq. subst j. rewrite vv_lt_irrefl in Hlt. discriminate. }
  destruct (Hall j Hj7 Hjl Hne Hlt) as [_ [Hs _]]. rewrite Hs in Hseen. discriminate.
Qed.

Theorem coherence_seq_cst : forall s me caus ly l i j,
  match_load_to_stores s me caus ly SeqCst = Some l ->
  j < MAX_ATOMIC_HISTORY -> j < at_cnt s ->
  vv_lt (st_mo (get_store s i)) (st_mo (get_store s j)) = true ->
  st_seqcst (get_store s i) = true -> st_seqcst (get_store s j) = true ->
  ~ In i l.
Proof.
  intros s me caus ly l i j Hr Hj7 Hjl Hlt Hi Hj Hin.
  apply (load_candidates_spec _ _ _ _ _ _ Hr i) in Hin.
  destruct Hin as [_ [_ Hall]].
  assert (Hne : j <> i).
  { intros Heq. subst j. rewrite vv_lt_irrefl in Hlt. discriminate. }
  destruct (Hall j Hj7 Hjl Hne Hlt) as [_ [_ Hs]]. rewrite Hi, Hj in Hs. discriminate.
Qed.

(* a live mo-maximal slot is always a candidate *)
Theorem mo_maximal_is_candidate : forall s me caus ly o l i,
  match_load_to_stores s me caus ly o = Some l ->
  i < MAX_ATOMIC_HISTORY -> i < at_cnt s ->
  (forall j, j < MAX_ATOMIC_HISTORY -> j < at_cnt s ->
     vv_lt (st_mo (get_store s i)) (st_mo (get_store s j)) = false) ->
  In i l.
Proof.
  intros s me caus ly o l i Hr H7 Hlive Hmax.
  apply (load_candidates_spec _ _ _ _ _ _ Hr i).
  split; [exact H7|]. split; [exact Hlive|].
  intros j Hj7 Hjl Hne Hlt. rewrite (Hmax j Hj7 Hjl) in Hlt. discriminate.
Qed.

(* vv_lt is a strict order and the live slots are a finite non-empty set *)
Theorem mo_maximal_exists : forall s,
  1 <= at_cnt s ->
  exists i, i < MAX_ATOMIC_HISTORY /\ i < at_cnt s /\
    forall j, j < MAX_ATOMIC_HISTORY -> j < at_cnt s ->
      vv_lt (st_mo (get_store s i)) (st_mo (get_store s j)) = false.
Proof.
  intros s Hcnt.
  destruct (maximal_exists
              (fun a b => vv_lt (st_mo (get_store s a)) (st_mo (get_store s b)))
              (fun a => vv_lt_irrefl _)
              (fun a b c => vv_lt_trans _ _ _)
              (Nat.min MAX_ATOMIC_HISTORY (at_cnt s))) as [m [Hm Hmax]].
  - unfold MAX_ATOMIC_HISTORY. lia.
  - exists m. split; [lia|]. split; [lia|].
    intros j Hj7 Hjl. apply Hmax. lia.
Qed.

Theorem candidates_nonempty : forall s me caus ly o l,
  match_load_to_stores s me caus ly o = Some l ->
  1 <= at_cnt s -> l <> [].
Proof.
  intros s me caus ly o l Hr Hcnt Hnil.
  destruct (mo_maximal_exists s Hcnt) as [i [H7 [Hlive Hmax]]].
  pose proof (mo_maximal_is_candidate _ _ _ _ _ _ _ Hr H7 Hlive Hmax) as Hin.
  rewrite Hnil in Hin. contradiction.
Qed.

Theorem rmw_candidates_nonempty : forall s l,
  match_rmw_to_stores s = Some l -> 1 <= at_cnt s -> l <> [].
Proof.
  intros s l Hr Hcnt Hnil.
  destruct (mo_maximal_exists s Hcnt) as [i [H7 [Hlive Hmax]]].
  assert (Hin : In i l).
  { apply (rmw_candidates_spec _ _ Hr i). split; [exact H7|]. split; [exact Hlive|].
    intros j Hj7 Hjl _. apply Hmax; assumption. }
  rewrite Hnil in Hin. contradiction.
Qed.

(* an RMW reads only stores that a load (by any thread, any ordering) may read *)
Theorem rmw_candidates_are_load_candidates : forall s me caus ly o l lr i,
  match_load_to_stores s me caus ly o = Some l ->
  match_rmw_to_stores s = Some lr ->
  In i lr -> In i l.
Proof.
  intros s me caus ly o l lr i Hl Hr Hin.
  apply (rmw_candidates_spec _ _ Hr i) in Hin. destruct Hin as [H7 [Hlive Hmax]].
  apply (load_candidates_spec _ _ _ _ _ _ Hl i).
  split; [exact H7|]. split; [exact Hlive|].
  intros j Hj7 Hjl Hne Hlt. rewrite (Hmax j Hj7 Hjl Hne) in Hlt. discriminate.
Qed.

(* ------------------------------------------------------------------ *)
(* RMW atomicity                                                       *)

(* [rmw_link stores src x = Some v]: x is the store half of an RMW whose source
   (slot, id) is not [src], the source is still in the ring (same id), and v is
   the source's modification order *)
Definition rmw_link (stores : list astore) (src : option (nat * nat)) (x : astore) : option vv :=
  match st_rmw_src x with
  | Some (slot, sid) =>
      if src_eqb (Some (slot, sid)) src then None
      else if Nat.eqb (st_id (nth slot stores store_default)) sid
           then Some (st_mo (nth slot stores store_default))
           else None
  | None => None
  end.

Lemma rmw_link_some : forall stores src x v,
  rmw_link stores src x = Some v <->
  exists slot sid,
    st_rmw_src x = Some (slot, sid) /\
    src_eqb (Some (slot, sid)) src = false /\
    st_id (nth slot stores store_default) = sid /\
    v = st_mo (nth slot stores store_default).
Proof.
  intros stores src x v. unfold rmw_link. split.
  - destruct (st_rmw_src x) as [[slot sid]|]; [|discriminate].
    destruct (src_eqb (Some (slot, sid)) src) eqn:Hs; [discriminate|].
    destruct (Nat.eqb_spec (st_id (nth slot stores store_default)) sid) as [Hid|Hid]; [|discriminate].
    intros H. inversion H. exists slot, sid. repeat split; assumption.
  - intros [slot [sid [Hsrc [Hs [Hid Hv]]]]]. rewrite Hsrc, Hs.
    rewrite (proj2 (Nat.eqb_eq _ _) Hid). rewrite Hv. reflexivity.
Qed.

Definition pass_step (stores : list astore) (src : option (nat * nat))
           (acc : vv * bool) (x : astore) : vv * bool :=
  let '(mo, changed) := acc in
  match st_rmw_src x with
  | Some (slot, sid) =>
      if src_eqb (Some (slot, sid)) src then (mo, changed)
      else
        let srcst := nth slot stores store_default in
        if negb (Nat.eqb (st_id srcst) sid) then (mo, changed)
        else if vv_le (st_mo srcst) mo && negb (vv_le (st_mo x) mo)
             then (vv_join mo (st_mo x), true)
             else (mo, changed)
  | None => (mo, changed)
  end.

Lemma rmw_atomicity_pass_fold : forall stores src mo,
  rmw_atomicity_pass stores src mo = fold_left (pass_step stores src) stores (mo, false).
Proof. reflexivity. Qed.

Lemma pass_step_eq : forall stores src mo c x,
  pass_step stores src (mo, c) x =
  match rmw_link stores src x with
  | Some v => if vv_le v mo && negb (vv_le (st_mo x) mo)
              then (vv_join mo (st_mo x), true) else (mo, c)
  | None => (mo, c)
  end.
Proof.
  intros stores src mo c x. unfold pass_step, rmw_link.
  destruct (st_rmw_src x) as [[slot sid]|]; [|reflexivity].
  destruct (src_eqb (Some (slot, sid)) src); [reflexivity|].
  cbv zeta.
  destruct (Nat.eqb (st_id (nth slot stores store_default)) sid); reflexivity.
Qed.

(* [mo] is closed under the RMW-atomicity rule *)
Definition rmw_closed (stores : list astore) (src : option (nat * nat)) (mo : vv) : Prop :=
  forall x v, In x stores -> rmw_link stores src x = Some v ->
    vv_le v mo = true -> vv_le (st_mo x) mo = true.

Section Pass.
  Variable stores : list astore.
  Variable src : option (nat * nat).

  Lemma fold_pass_flag : forall l m,
    snd (fold_left (pass_step stores src) l (m, true)) = true.
  Proof.
    induction l as [|a l IH]; intros m; [reflexivity|].
    cbn [fold_left]. rewrite pass_step_eq.
    destruct (rmw_link stores src a) as [v|]; [|apply IH].
    destruct (vv_le v m && negb (vv_le (st_mo a) m)); apply IH.
  Qed.

  Lemma fold_pass_grows : forall l m c,
    vle m (fst (fold_left (pass_step stores src) l (m, c))).
  Proof.
    induction l as [|a l IH]; intros m c; [apply vle_refl|].
    cbn [fold_left]. rewrite pass_step_eq.
    destruct (rmw_link stores src a) as [v|]; [|apply IH].
    destruct (vv_le v m && negb (vv_le (st_mo a) m)); [|apply IH].
    eapply vle_trans; [apply vle_join_l | apply IH].
  Qed.

  Lemma fold_pass_stable : forall l m c,
    snd (fold_left (pass_step stores src) l (m, c)) = false ->
    c = false /\ fold_left (pass_step stores src) l (m, c) = (m, false) /\
    forall x v, In x l -> rmw_link stores src x = Some v ->
      vv_le v m = true -> vv_le (st_mo x) m = true.
  Proof.
    induction l as [|a l IH]; intros m c Hs.
    - cbn [fold_left snd] in Hs. subst c. split; [reflexivity|]. split; [reflexivity|].
      intros x v Hx. contradiction.
    - cbn [fold_left] in *. rewrite pass_step_eq in *.
      destruct (rmw_link stores src a) as [va|] eqn:Hla.
      + destruct (vv_le va m && negb (vv_le (st_mo a) m)) eqn:Hfire.
        * rewrite fold_pass_flag in Hs. discriminate.
        * destruct (IH m c Hs) as [Hc [Hfold Hall]]. split; [exact Hc|]. split; [exact Hfold|].
          intros x v [Heq|Hx] Hl Hle; [|apply (Hall x v); assumption].
          subst x. rewrite Hla in Hl. inversion Hl. subst va.
          rewrite Hle in Hfire. cbn [andb] in Hfire.
          destruct (vv_le (st_mo a) m); [reflexivity|discriminate].
      + destruct (IH m c Hs) as [Hc [Hfold Hall]]. split; [exact Hc|]. split; [exact Hfold|].
        intros x v [Heq|Hx] Hl Hle; [|apply (Hall x v); assumption].
        subst x. rewrite Hla in Hl. discriminate.
  Qed.

  Lemma fold_pass_closed : forall l m c,
    (forall x v, In x l -> rmw_link stores src x = Some v ->
       vv_le v m = true -> vv_le (st_mo x) m = true) ->
    fold_left (pass_step stores src) l (m, c) = (m, c).
  Proof.
    induction l as [|a l IH]; intros m c Hall; [reflexivity|].
    cbn [fold_left]. rewrite pass_step_eq.
    assert (Hrec : fold_left (pass_step stores src) l (m, c) = (m, c)).
    { apply IH. intros x v Hx. apply Hall. right. exact Hx. }
    destruct (rmw_link stores src a) as [va|] eqn:Hla; [|exact Hrec].
    destruct (vv_le va m) eqn:Hle; cbn [andb]; [|exact Hrec].
    rewrite (Hall a va (or_introl eq_refl) Hla Hle). cbn [negb]. exact Hrec.
  Qed.

  (* a productive pass absorbs at least one linked RMW store that was not below m *)
  Lemma fold_pass_productive : forall l m,
    snd (fold_left (pass_step stores src) l (m, false)) = true ->
    exists x, In x l /\ rmw_link stores src x <> None /\
      vv_le (st_mo x) m = false /\
      vv_le (st_mo x) (fst (fold_left (pass_step stores src) l (m, false))) = true.
  Proof.
    induction l as [|a l IH]; intros m Hs.
    - cbn [fold_left snd] in Hs. discriminate.
    - cbn [fold_left] in *. rewrite pass_step_eq in *.
      assert (Hrec : snd (fold_left (pass_step stores src) l (m, false)) = true ->
                exists x, In x (a :: l) /\ rmw_link stores src x <> None /\
                  vv_le (st_mo x) m = false /\
                  vv_le (st_mo x) (fst (fold_left (pass_step stores src) l (m, false))) = true).
      { intros H. destruct (IH m H) as [x [Hx Hrest]]. exists x. split; [right; exact Hx|exact Hrest]. }
      destruct (rmw_link stores src a) as [va|] eqn:Hla; [|apply Hrec; exact Hs].
      destruct (vv_le va m && negb (vv_le (st_mo a) m)) eqn:Hfire; [|apply Hrec; exact Hs].
      apply andb_true_iff in Hfire. destruct Hfire as [_ Hna].
      exists a. split; [left; reflexivity|]. split; [rewrite Hla; discriminate|].
      split; [destruct (vv_le (st_mo a) m); [discriminate|reflexivity]|].
      apply vv_le_spec. eapply vle_trans; [apply vle_join_r | apply fold_pass_grows].
  Qed.
End Pass.

(* ---- a pass only grows mo ---- *)
Theorem rmw_atomicity_pass_grows : forall stores src mo,
  vle mo (fst (rmw_atomicity_pass stores src mo)).
Proof.
  intros stores src mo. rewrite rmw_atomicity_pass_fold. apply fold_pass_grows.
Qed.

(* ---- rmw_atomicity only grows mo ---- *)
Theorem rmw_atomicity_grows : forall fuel stores src mo,
  vle mo (rmw_atomicity fuel stores src mo).
Proof.
  induction fuel as [|f IH]; intros stores src mo; [apply vle_refl|].
  cbn [rmw_atomicity].
  pose proof (rmw_atomicity_pass_grows stores src mo) as Hg.
  destruct (rmw_atomicity_pass stores src mo) as [mo' changed]. cbn [fst] in Hg.
  destruct changed; [|exact Hg].
  eapply vle_trans; [exact Hg | apply IH].
Qed.

Corollary rmw_atomicity_grows_b : forall fuel stores src mo,
  vv_le mo (rmw_atomicity fuel stores src mo) = true.
Proof. intros fuel stores src mo. apply vv_le_spec. apply rmw_atomicity_grows. Qed.

(* ---- a pass reports "unchanged" exactly on closed clocks ---- *)
Theorem rmw_pass_stable_iff : forall stores src mo,
  snd (rmw_atomicity_pass stores src mo) = false <-> rmw_closed stores src mo.
Proof.
  intros stores src mo. rewrite rmw_atomicity_pass_fold. split.
  - intros Hs. destruct (fold_pass_stable _ _ _ _ _ Hs) as [_ [_ Hall]]. exact Hall.
  - intros Hc. rewrite (fold_pass_closed stores src stores mo false Hc). reflexivity.
Qed.

Theorem rmw_pass_stable_id : forall stores src mo,
  snd (rmw_atomicity_pass stores src mo) = false ->
  rmw_atomicity_pass stores src mo = (mo, false).
Proof.
  intros stores src mo Hs. rewrite rmw_atomicity_pass_fold in *.
  destruct (fold_pass_stable _ _ _ _ _ Hs) as [_ [Hfold _]]. exact Hfold.
Qed.

(* ---- the fixpoint property, spelled out ---- *)
Theorem rmw_atomicity_fixpoint : forall fuel stores src mo,
  let mo' := rmw_atomicity fuel stores src mo in
  snd (rmw_atomicity_pass stores src mo') = false ->
  forall x slot sid,
    In x stores ->
    st_rmw_src x = Some (slot, sid) ->
    src_eqb (Some (slot, sid)) src = false ->
    st_id (nth slot stores store_default) = sid ->
    vv_le (st_mo (nth slot stores store_default)) mo' = true ->
    vv_le (st_mo x) mo' = true.
Proof.
  intros fuel stores src mo mo' Hs x slot sid Hx Hsrc Hne Hid Hle.
  apply rmw_pass_stable_iff in Hs.
  apply (Hs x (st_mo (nth slot stores store_default)) Hx); [|exact Hle].
  apply rmw_link_some. exists slot, sid. repeat split; assumption.
Qed.

(* ---- sufficient fuel ---- *)
(* linked RMW stores of the ring not yet below mo *)
Definition unabsorbed (stores : list astore) (src : option (nat * nat)) (mo : vv) (x : astore) : bool :=
  match rmw_link stores src x with
  | Some _ => negb (vv_le (st_mo x) mo)
  | None => false
  end.
Definition rmw_mu (stores : list astore) (src : option (nat * nat)) (mo : vv) : nat :=
  length (filter (unabsorbed stores src mo) stores).

Lemma unabsorbed_antitone : forall stores src m m' x,
  vle m m' -> unabsorbed stores src m' x = true -> unabsorbed stores src m x = true.
Proof.
  intros stores src m m' x Hle. unfold unabsorbed.
  destruct (rmw_link stores src x) as [v|]; [|discriminate].
  destruct (vv_le (st_mo x) m) eqn:Hx; [|reflexivity].
  rewrite (vv_le_trans_b _ _ _ Hx Hle). discriminate.
Qed.

Lemma rmw_mu_decreases : forall stores src mo,
  snd (rmw_atomicity_pass stores src mo) = true ->
  rmw_mu stores src (fst (rmw_atomicity_pass stores src mo)) < rmw_mu stores src mo.
Proof.
  intros stores src mo Hs. rewrite rmw_atomicity_pass_fold in *.
  destruct (fold_pass_productive _ _ _ _ Hs) as [x [Hx [Hl [Hbefore Hafter]]]].
  unfold rmw_mu. apply (filter_length_lt astore _ _ stores x).
  - intros y _. apply unabsorbed_antitone. apply fold_pass_grows.
  - exact Hx.
  - unfold unabsorbed. destruct (rmw_link stores src x); [|contradiction Hl; reflexivity].
    rewrite Hbefore. reflexivity.
  - unfold unabsorbed. destruct (rmw_link stores src x); [|reflexivity].
    rewrite Hafter. reflexivity.
Qed.

Lemma rmw_mu_0_closed : forall stores src mo,
  rmw_mu stores src mo = 0 -> rmw_closed stores src mo.
Proof.
  intros stores src mo H0 x v Hx Hl _.
  pose proof (filter_length_0 _ _ _ H0 x Hx) as Hu. unfold unabsorbed in Hu.
  rewrite Hl in Hu. destruct (vv_le (st_mo x) mo); [reflexivity|discriminate].
Qed.

Theorem rmw_atomicity_sufficient_mu : forall fuel stores src mo,
  rmw_mu stores src mo <= fuel ->
  snd (rmw_atomicity_pass stores src (rmw_atomicity fuel stores src mo)) = false.
Proof.
  induction fuel as [|f IH]; intros stores src mo Hmu.
  - cbn [rmw_atomicity]. apply rmw_pass_stable_iff. apply rmw_mu_0_closed. lia.
  - cbn [rmw_atomicity].
    destruct (rmw_atomicity_pass stores src mo) as [mo' changed] eqn:Hp.
    destruct changed.
    + apply IH.
      pose proof (rmw_mu_decreases stores src mo) as Hd. rewrite Hp in Hd.
      cbn [fst snd] in Hd. specialize (Hd eq_refl). lia.
    + assert (Hs : snd (rmw_atomicity_pass stores src mo) = false) by (rewrite Hp; reflexivity).
      pose proof (rmw_pass_stable_id _ _ _ Hs) as Hid. rewrite Hp in Hid.
      inversion Hid. subst mo'. exact Hs.
Qed.

Theorem rmw_atomicity_sufficient_fuel : forall fuel stores src mo,
  length stores <= fuel ->
  snd (rmw_atomicity_pass stores src (rmw_atomicity fuel stores src mo)) = false.
Proof.
  intros fuel stores src mo Hlen. apply rmw_atomicity_sufficient_mu.
  unfold rmw_mu. pose proof (filter_length_le astore (unabsorbed stores src mo) stores). lia.
Qed.

Corollary rmw_atomicity_closed : forall fuel stores src mo,
  length stores <= fuel -> rmw_closed stores src (rmw_atomicity fuel stores src mo).
Proof.
  intros fuel stores src mo Hlen. apply rmw_pass_stable_iff.
  apply rmw_atomicity_sufficient_fuel. exact Hlen.
Qed.

(* with enough fuel rmw_atomicity is idempotent *)
Corollary rmw_atomicity_idem : forall fuel fuel' stores src mo,
  length stores <= fuel ->
  rmw_atomicity fuel' stores src (rmw_atomicity fuel stores src mo) =
  rmw_atomicity fuel stores src mo.
Proof.
  intros fuel fuel' stores src mo Hlen. destruct fuel' as [|f']; [reflexivity|].
  cbn [rmw_atomicity].
  rewrite (rmw_pass_stable_id _ _ _ (rmw_atomicity_sufficient_fuel fuel stores src mo Hlen)).
  reflexivity.
Qed.

(* ---- the model's own call (State::store_from) ---- *)
(* the modification order atomic_store_from writes: AtomicFacts.store_mo is the
   first fold (happens-before joined with the mo of every store already seen) *)
Definition store_from_mo (s : atomic_state) (caus : vv) (src : option (nat * nat)) : vv :=
  rmw_atomicity (S MAX_ATOMIC_HISTORY) (at_stores s) src (store_mo s caus).

Theorem atomic_store_from_mo : forall s me caus released sync0 value o src,
  length (at_stores s) = MAX_ATOMIC_HISTORY ->
  st_mo (get_store (atomic_store_from s me caus released sync0 value o src)
                   (aindex (at_cnt s))) = store_from_mo s caus src.
Proof.
  intros s me caus released sync0 value o src Hlen. unfold atomic_store_from.
  rewrite get_store_set by (rewrite Hlen; apply aindex_lt).
  rewrite Nat.eqb_refl. reflexivity.
Qed.

Theorem store_from_mo_ge_caus : forall s caus src, vle caus (store_from_mo s caus src).
Proof.
  intros s caus src. unfold store_from_mo.
  eapply vle_trans; [|apply rmw_atomicity_grows].
  unfold store_mo. apply fold_grow.
  intros mo a. destruct (is_seen_by_current (st_seen a) caus); [apply vle_join_l|apply vle_refl].
Qed.

(* write-write coherence: the new store is mo-after every store its thread has seen *)
Theorem store_from_mo_ge_seen : forall s caus src x,
  In x (at_stores s) -> is_seen_by_current (st_seen x) caus = true ->
  vle (st_mo x) (store_from_mo s caus src).
Proof.
  intros s caus src x Hx Hseen. unfold store_from_mo.
  eapply vle_trans; [|apply rmw_atomicity_grows].
  unfold store_mo.
  apply (fold_in (fun mo x => if is_seen_by_current (st_seen x) caus then vv_join mo (st_mo x) else mo)
                 st_mo (fun x => is_seen_by_current (st_seen x) caus)).
  - intros mo a. destruct (is_seen_by_current (st_seen a) caus); [apply vle_join_l|apply vle_refl].
  - intros mo a Hp. rewrite Hp. apply vle_join_r.
  - exact Hx.
  - exact Hseen.
Qed.

Theorem store_from_mo_closed : forall s caus src,
  length (at_stores s) <= S MAX_ATOMIC_HISTORY ->
  rmw_closed (at_stores s) src (store_from_mo s caus src).
Proof.
  intros s caus src Hlen. unfold store_from_mo. apply rmw_atomicity_closed. exact Hlen.
Qed.

(* the postcondition of State::store_from on the slot it writes *)
Theorem atomic_store_from_rmw_atomic : forall s me caus released sync0 value o src,
  length (at_stores s) = MAX_ATOMIC_HISTORY ->
  let s' := atomic_store_from s me caus released sync0 value o src in
  let mo' := st_mo (get_store s' (aindex (at_cnt s))) in
  vle caus mo' /\
  (forall x, In x (at_stores s) -> is_seen_by_current (st_seen x) caus = true ->
     vle (st_mo x) mo') /\
  snd (rmw_atomicity_pass (at_stores s) src mo') = false /\
  (forall x slot sid,
     In x (at_stores s) ->
     st_rmw_src x = Some (slot, sid) ->
     src_eqb (Some (slot, sid)) src = false ->
     st_id (nth slot (at_stores s) store_default) = sid ->
     vv_le (st_mo (nth slot (at_stores s) store_default)) mo' = true ->
     vv_le (st_mo x) mo' = true).
Proof.
  intros s me caus released sync0 value o src Hlen s' mo'.
  assert (Hmo : mo' = store_from_mo s caus src).
  { unfold mo', s'. apply atomic_store_from_mo. exact Hlen. }
  assert (Hfuel : length (at_stores s) <= S MAX_ATOMIC_HISTORY) by (rewrite Hlen; lia).
  rewrite Hmo. split; [apply store_from_mo_ge_caus|].
  split; [intros x Hx Hseen; apply store_from_mo_ge_seen; assumption|].
  assert (Hs : snd (rmw_atomicity_pass (at_stores s) src (store_from_mo s caus src)) = false).
  { unfold store_from_mo. apply rmw_atomicity_sufficient_fuel. exact Hfuel. }
  split; [exact Hs|].
  intros x slot sid Hx Hsrc Hne Hid Hle.
  apply (rmw_atomicity_fixpoint (S MAX_ATOMIC_HISTORY) (at_stores s) src (store_mo s caus) Hs
           x slot sid Hx Hsrc Hne Hid Hle).
Qed.

(* ------------------------------------------------------------------ *)
(* non-vacuity: a concrete two-store state                             *)

(* thread 0 creates the cell (clock [1;0;0;0;0]) and stores 5 (clock [2;0;0;0;0]) *)
Definition ex_state : atomic_state :=
  match atomic_new 0 [1;0;0;0;0] vv_new 0%N with
  | inl s0 => atomic_store s0 0 [2;0;0;0;0] vv_new vv_new 5%N Relaxed
  | inr _ => mkAtomic vv_new vv_new vv_new vv_new false [] None [] 0
  end.

(* two live slots, slot 0 mo-before slot 1 *)
Example coherence_example_state :
  at_cnt ex_state = 2 /\
  st_mo (get_store ex_state 0) = [1;0;0;0;0] /\
  st_mo (get_store ex_state 1) = [2;0;0;0;0] /\
  vv_lt (st_mo (get_store ex_state 0)) (st_mo (get_store ex_state 1)) = true.
Proof. vm_compute. repeat split; reflexivity. Qed.

(* thread 1 has not synchronised with thread 0's second store: both are candidates *)
Example coherence_example_unseen :
  is_seen_by_current (st_seen (get_store ex_state 1)) [1;1;0;0;0] = false /\
  match_load_to_stores ex_state 1 [1;1;0;0;0] None Relaxed = Some [0; 1].
Proof. vm_compute. split; reflexivity. Qed.

(* thread 1 has seen the newer store (clock >= [2;...]): the older one is excluded *)
Example coherence_example_seen :
  is_seen_by_current (st_seen (get_store ex_state 1)) [2;1;0;0;0] = true /\
  match_load_to_stores ex_state 1 [2;1;0;0;0] None Relaxed = Some [1].
Proof. vm_compute. split; reflexivity. Qed.

(* an RMW reads only the mo-maximal store, seen or not *)
Example coherence_example_rmw : match_rmw_to_stores ex_state = Some [1].
Proof. vm_compute. reflexivity. Qed.

(* the None case is reachable for an arbitrary state: two live slots with equal mo *)
Example coherence_example_none :
  match_load_to_stores
    (mkAtomic vv_new vv_new vv_new vv_new false [] None
              (repeat store_default MAX_ATOMIC_HISTORY) 2) 0 vv_new None Relaxed = None.
Proof. vm_compute. reflexivity. Qed.

Print Assumptions mlts_inner_spec.
Print Assumptions mlts_inner_none.
Print Assumptions mlts_outer_spec.
Print Assumptions mlts_outer_In.
Print Assumptions mlts_outer_none.
Print Assumptions load_candidates_spec.
Print Assumptions load_candidates_NoDup.
Print Assumptions load_candidates_sorted.
Print Assumptions load_candidates_none.
Print Assumptions rmw_candidates_spec.
Print Assumptions rmw_candidates_NoDup.
Print Assumptions rmw_candidates_sorted.
Print Assumptions rmw_candidates_none.
Print Assumptions coherence_write_read.
Print Assumptions coherence_seen_before_yield.
Print Assumptions coherence_seq_cst.
Print Assumptions mo_maximal_is_candidate.
Print Assumptions mo_maximal_exists.
Print Assumptions candidates_nonempty.
Print Assumptions rmw_candidates_nonempty.
Print Assumptions rmw_candidates_are_load_candidates.
Print Assumptions rmw_atomicity_grows.
Print Assumptions rmw_pass_stable_iff.
Print Assumptions rmw_atomicity_fixpoint.
Print Assumptions rmw_atomicity_sufficient_mu.
Print Assumptions rmw_atomicity_sufficient_fuel.
Print Assumptions rmw_atomicity_idem.
Print Assumptions atomic_store_from_mo.
Print Assumptions store_from_mo_closed.
Print Assumptions atomic_store_from_rmw_atomic.
Print Assumptions coherence_example_unseen.
Print Assumptions coherence_example_seen.
