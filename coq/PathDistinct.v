(* Every two iterations of an exploration follow different decision sequences,
   and they part ways at a definite position (depth-first order).

   Proof idea.  [precc c e'] says: the entry [e'] is a later state of a stack
   slot whose decision, at some earlier time, was [c]; that earlier decision is
   "used up" in [e'] (thread marked Visited / load position passed / spurious
   flag flipped), so [choice_of e' <> c].  [precc c] is stable under backtrack
   marks (ext) and under advance_entry.  [R p p'] says that [p] and [p'] agree
   on the first q decisions and slot q of [p'] is a later state of a slot whose
   decision in [p] is used up.  R is preserved by step (depth-first: the
   advanced slot either is after q, is q, or is before q, in which case it is
   the new witness) and by an iteration, and is established by step itself. *)
Require Import LV.Base LV.Path LV.PathSpec.
From Coq Require Import Lia.

Set Implicit Arguments.

(* ---------- list helpers ---------- *)

Lemma nth_error_firstn_lt :
  forall (A : Type) (l : list A) q i,
    i < q -> nth_error (firstn q l) i = nth_error l i.
Proof.
  intros A l; induction l as [|x l IH]; intros [|q] [|i] Hlt; simpl;
    try lia; auto.
  apply IH; lia.
Qed.

Lemma firstn_agree_le :
  forall (A : Type) (a b : list A) q q2,
    firstn q a = firstn q b -> q2 <= q -> firstn q2 a = firstn q2 b.
Proof.
  intros A a b q q2 Heq Hle.
  assert (Hf : forall l : list A, firstn q2 l = firstn q2 (firstn q l)).
  { intro l. rewrite firstn_firstn. f_equal. lia. }
  rewrite (Hf a), (Hf b), Heq. reflexivity.
Qed.

Lemma firstn_agree_nth :
  forall (A : Type) (a b : list A) q i,
    firstn q a = firstn q b -> i < q -> nth_error a i = nth_error b i.
Proof.
  intros A a b q i Heq Hlt.
  rewrite <- (nth_error_firstn_lt a Hlt), <- (nth_error_firstn_lt b Hlt), Heq.
  reflexivity.
Qed.

Lemma nth_error_map_some :
  forall (A B : Type) (f : A -> B) (l : list A) i x,
    nth_error l i = Some x -> nth_error (map f l) i = Some (f x).
Proof. intros A B f l i x H. apply map_nth_error. exact H. Qed.

Lemma nth_error_map_inv :
  forall (A B : Type) (f : A -> B) (l : list A) i y,
    nth_error (map f l) i = Some y -> exists x, nth_error l i = Some x /\ y = f x.
Proof.
  intros A B f l; induction l as [|h t IH]; intros [|i] y H; simpl in *;
    try discriminate.
  - inversion H; subst. eexists; split; reflexivity.
  - apply IH; exact H.
Qed.

(* ---------- thread-status lists ---------- *)

Lemma find_index_some :
  forall (A : Type) (p : A -> bool) (l : list A) a,
    find_index p l = Some a -> exists t, nth_error l a = Some t /\ p t = true.
Proof.
  intros A p l; induction l as [|h t IH]; intros a H; simpl in *.
  - discriminate.
  - destruct (p h) eqn:Hp.
    + inversion H; subst. exists h; split; auto.
    + destruct (find_index p t) as [i|] eqn:Hf; simpl in H; try discriminate.
      inversion H; subst. simpl. apply IH. reflexivity.
Qed.

Lemma visit_active_marks :
  forall l a, find_index is_active l = Some a ->
              nth_error (visit_active l) a = Some Visited.
Proof.
  induction l as [|h t IH]; intros a H; simpl in *.
  - discriminate.
  - destruct (is_active h) eqn:Hp.
    + inversion H; subst. reflexivity.
    + destruct (find_index is_active t) as [i|] eqn:Hf; simpl in H; try discriminate.
      inversion H; subst. simpl. apply IH. reflexivity.
Qed.

Lemma visit_active_keeps :
  forall l a, nth_error l a = Some Visited ->
              nth_error (visit_active l) a = Some Visited.
Proof.
  induction l as [|h t IH]; intros [|a] H; simpl in *; try discriminate.
  - inversion H; subst. reflexivity.
  - destruct (is_active h); simpl; auto.
Qed.

Lemma visit_active_length : forall l, length (visit_active l) = length l.
Proof.
  induction l as [|h t IH]; simpl; auto.
  destruct (is_active h); simpl; auto.
Qed.

Lemma activate_pending_keeps :
  forall l l' a, activate_pending l = Some l' ->
                 nth_error l a = Some Visited -> nth_error l' a = Some Visited.
Proof.
  induction l as [|h t IH]; intros l' a H Hn; simpl in *; try discriminate.
  destruct (is_pending h) eqn:Hp.
  - inversion H; subst. destruct a as [|a]; simpl in *; auto.
    inversion Hn; subst. discriminate.
  - destruct (activate_pending t) as [t'|] eqn:Ht; simpl in H; try discriminate.
    inversion H; subst. destruct a as [|a]; simpl in *; auto.
Qed.

Lemma activate_pending_active :
  forall l l', activate_pending l = Some l' -> find_index is_active l' <> None.
Proof.
  induction l as [|h t IH]; intros l' H; simpl in *; try discriminate.
  destruct (is_pending h) eqn:Hp.
  - inversion H; subst. simpl. discriminate.
  - destruct (activate_pending t) as [t'|] eqn:Ht; simpl in H; try discriminate.
    inversion H; subst. simpl. destruct (is_active h); try discriminate.
    specialize (IH t' eq_refl).
    destruct (find_index is_active t'); simpl; congruence.
Qed.

Lemma activate_pending_length :
  forall l l', activate_pending l = Some l' -> length l' = length l.
Proof.
  induction l as [|h t IH]; intros l' H; simpl in *; try discriminate.
  destruct (is_pending h).
  - inversion H; subst. reflexivity.
  - destruct (activate_pending t) as [t'|] eqn:Ht; simpl in H; try discriminate.
    inversion H; subst. simpl. f_equal. apply IH. reflexivity.
Qed.

Lemma ext_t_active : forall t t', ext_t t t' -> is_active t' = is_active t.
Proof. intros t t' [H|[H1 H2]]; subst; reflexivity. Qed.

Lemma ext_threads_active :
  forall l l', Forall2 ext_t l l' ->
               find_index is_active l' = find_index is_active l.
Proof.
  induction 1 as [|t t' l l' Ht Hl IH]; simpl; auto.
  rewrite (ext_t_active Ht), IH. reflexivity.
Qed.

Lemma ext_threads_visited :
  forall l l' a, Forall2 ext_t l l' ->
                 nth_error l a = Some Visited -> nth_error l' a = Some Visited.
Proof.
  intros l l' a H; revert a.
  induction H as [|t t' l l' Ht Hl IH]; intros [|a] Hn; simpl in *;
    try discriminate; auto.
  inversion Hn; subst. destruct Ht as [Ht|[Ht1 Ht2]]; subst; try discriminate.
  reflexivity.
Qed.

(* ---------- "the decision c has been used up in entry e'" ---------- *)

Definition precc (c : choice) (e' : entry) : Prop :=
  match c, e' with
  | CThread o, ESched s' =>
      active_thread_index s' <> None /\
      forall a, o = Some a -> nth_error (s_threads s') a = Some Visited
  | CLoad n, ELoad l' => n < l_pos l'
  | CSpur b, ESpur s' => b = false /\ p_spur s' = true
  | _, _ => False
  end.

Lemma precc_neq : forall c e', precc c e' -> c <> choice_of e'.
Proof.
  intros c e' H Heq. subst c.
  destruct e' as [s|l|s]; simpl in H.
  - destruct H as [Hne Hv].
    destruct (active_thread_index s) as [a|] eqn:Ha; try congruence.
    specialize (Hv a eq_refl).
    unfold active_thread_index in Ha.
    destruct (find_index_some _ _ Ha) as [t [Ht Hact]].
    rewrite Hv in Ht. inversion Ht; subst. discriminate.
  - lia.
  - destruct H as [H1 H2]. congruence.
Qed.

Lemma ext_choice : forall e e', ext e e' -> choice_of e' = choice_of e.
Proof.
  intros e e' H; destruct H as [e|s th' Hex Hth]; auto.
  simpl. unfold active_thread_index; simpl.
  rewrite (ext_threads_active Hth). reflexivity.
Qed.

Lemma ext_precc : forall c e e', ext e e' -> precc c e -> precc c e'.
Proof.
  intros c e e' H; destruct H as [e|s th' Hex Hth]; auto.
  destruct c as [o|n|b]; simpl; auto.
  unfold active_thread_index; simpl.
  rewrite (ext_threads_active Hth).
  intros [Hne Hv]; split; auto.
  intros a Ha. eapply ext_threads_visited; eauto.
Qed.

Lemma advance_precc_base :
  forall e e2, advance_entry e = Some e2 -> precc (choice_of e) e2.
Proof.
  intros [s|l|s] e2 H; simpl in H.
  - destruct (negb (s_ex s)); try discriminate.
    destruct (activate_pending (visit_active (s_threads s))) as [th|] eqn:Hth;
      try discriminate.
    inversion H; subst. simpl. unfold active_thread_index at 1; simpl. split.
    + eapply activate_pending_active; eauto.
    + intros a Ha. eapply activate_pending_keeps; eauto.
      apply visit_active_marks. exact Ha.
  - destruct (negb (l_ex l)); try discriminate.
    destruct (Nat.ltb (S (l_pos l)) (length (l_vals l))); try discriminate.
    inversion H; subst. simpl. lia.
  - destruct (negb (p_ex s)); try discriminate.
    destruct (p_spur s) eqn:Hsp; try discriminate.
    inversion H; subst. simpl. auto.
Qed.

Lemma advance_precc_keep :
  forall c e e2, advance_entry e = Some e2 -> precc c e -> precc c e2.
Proof.
  intros c [s|l|s] e2 H Hp; simpl in H.
  - destruct (negb (s_ex s)); try discriminate.
    destruct (activate_pending (visit_active (s_threads s))) as [th|] eqn:Hth;
      try discriminate.
    inversion H; subst. destruct c as [o|n|b]; simpl in *; auto.
    destruct Hp as [Hne Hv]. unfold active_thread_index at 1; simpl. split.
    + eapply activate_pending_active; eauto.
    + intros a Ha. eapply activate_pending_keeps; eauto.
      apply visit_active_keeps. auto.
  - destruct (negb (l_ex l)); try discriminate.
    destruct (Nat.ltb (S (l_pos l)) (length (l_vals l))); try discriminate.
    inversion H; subst. destruct c as [o|n|b]; simpl in *; auto; lia.
  - destruct (negb (p_ex s)); try discriminate.
    destruct (p_spur s) eqn:Hsp; try discriminate.
    inversion H; subst. destruct c as [o|n|b]; simpl in *; auto.
    destruct Hp as [H1 H2]. congruence.
Qed.

Lemma advance_wf : forall e e2, advance_entry e = Some e2 -> wf_entry e -> wf_entry e2.
Proof.
  intros [s|l|s] e2 H Hwf; simpl in H.
  - destruct (negb (s_ex s)); try discriminate.
    destruct (activate_pending (visit_active (s_threads s))) as [th|] eqn:Hth;
      try discriminate.
    inversion H; subst. simpl in *.
    rewrite (activate_pending_length _ Hth), visit_active_length. exact Hwf.
  - destruct (negb (l_ex l)); try discriminate.
    destruct (Nat.ltb (S (l_pos l)) (length (l_vals l))); try discriminate.
    inversion H; subst. simpl in *. exact Hwf.
  - destruct (negb (p_ex s)); try discriminate.
    destruct (p_spur s); try discriminate.
    inversion H; subst. exact I.
Qed.

(* ---------- the shape of step ---------- *)

Lemma step_rev_decomp :
  forall rb rb', step_rev rb = Some rb' ->
    exists popped e rest e2,
      rb = popped ++ e :: rest /\ advance_entry e = Some e2 /\ rb' = e2 :: rest.
Proof.
  induction rb as [|e rest IH]; intros rb' H; simpl in H; try discriminate.
  destruct (advance_entry e) as [e2|] eqn:Ha.
  - inversion H; subst. exists [], e, rest, e2. auto.
  - destruct (IH _ H) as [popped [e0 [rest0 [e2 [H1 [H2 H3]]]]]].
    exists (e :: popped), e0, rest0, e2. subst. auto.
Qed.

Lemma step_decomp :
  forall E S, step E = Some S ->
    exists pre e post e2,
      branches E = pre ++ e :: post /\ advance_entry e = Some e2 /\
      branches S = pre ++ [e2] /\
      bound S = bound E /\ cap S = cap E /\ eos S = eos E.
Proof.
  intros E S H. unfold step in H.
  destruct (step_rev (rev (branches E))) as [rb|] eqn:Hs; try discriminate.
  inversion H; subst; clear H. simpl.
  destruct (step_rev_decomp _ Hs) as [popped [e [rest [e2 [H1 [H2 H3]]]]]].
  exists (rev rest), e, (rev popped), e2. subst rb. simpl.
  repeat split; auto.
  rewrite <- (rev_involutive (branches E)), H1.
  rewrite rev_app_distr. simpl. rewrite <- app_assoc. reflexivity.
Qed.

Lemma step_wf : forall E S, step E = Some S -> wf_path E -> wf_path S.
Proof.
  intros E S H [Hf Hl].
  destruct (step_decomp _ H) as [pre [e [post [e2 [HE [Ha [HS [_ [Hc _]]]]]]]]].
  unfold wf_path. rewrite HS, Hc. rewrite HE in Hf, Hl.
  apply Forall_app in Hf. destruct Hf as [Hpre Hrest].
  inversion Hrest; subst. split.
  - apply Forall_app. split; auto. constructor; auto. eapply advance_wf; eauto.
  - rewrite app_length in *. simpl in *. lia.
Qed.

(* ---------- the relation between an earlier and a later path ---------- *)

Definition R (p p' : path) : Prop :=
  exists q c e',
    firstn q (choices p) = firstn q (choices p') /\
    nth_error (choices p) q = Some c /\
    nth_error (branches p') q = Some e' /\
    precc c e'.

Lemma R_diverge : forall p p', R p p' -> exists q, diverge_at (choices p) (choices p') q.
Proof.
  intros p p' [q [c [e' [Hf [Hc [He Hp]]]]]].
  exists q. split; auto.
  exists c, (choice_of e'). repeat split; auto.
  - unfold choices. apply nth_error_map_some. exact He.
  - apply precc_neq. exact Hp.
Qed.

Lemma choices_app_firstn :
  forall (pre : list entry) x y,
    firstn (length pre) (map choice_of (pre ++ x)) =
    firstn (length pre) (map choice_of (pre ++ y)).
Proof.
  intros pre x y. rewrite !map_app.
  rewrite <- (map_length choice_of pre).
  rewrite !firstn_app, !Nat.sub_diag. simpl. rewrite !firstn_all. reflexivity.
Qed.

(* step establishes R between the path it is applied to and its result *)
Lemma step_R_base : forall E S, step E = Some S -> R E S.
Proof.
  intros E S H.
  destruct (step_decomp _ H) as [pre [e [post [e2 [HE [Ha [HS _]]]]]]].
  exists (length pre), (choice_of e), e2. unfold choices. rewrite HE, HS.
  repeat split.
  - apply choices_app_firstn.
  - apply nth_error_map_some. rewrite nth_error_app2, Nat.sub_diag; auto.
  - rewrite nth_error_app2, Nat.sub_diag; auto.
  - apply advance_precc_base. exact Ha.
Qed.

(* step preserves R *)
Lemma step_R_pres : forall pi E S, step E = Some S -> R pi E -> R pi S.
Proof.
  intros pi E S H [q [c [e' [Hf [Hc [He Hp]]]]]].
  destruct (step_decomp _ H) as [pre [e [post [e2 [HE [Ha [HS _]]]]]]].
  assert (Hpre : firstn (length pre) (choices E) = firstn (length pre) (choices S)).
  { unfold choices. rewrite HE, HS. apply choices_app_firstn. }
  destruct (lt_eq_lt_dec q (length pre)) as [[Hlt|Heq]|Hgt].
  - (* the advanced slot is after q *)
    exists q, c, e'. repeat split; auto.
    + rewrite Hf. eapply firstn_agree_le; eauto. lia.
    + rewrite HS, nth_error_app1 by exact Hlt.
      rewrite HE, nth_error_app1 in He by exact Hlt. exact He.
  - (* the advanced slot is q *)
    subst q. exists (length pre), c, e2. repeat split; auto.
    + rewrite Hf. exact Hpre.
    + rewrite HS, nth_error_app2, Nat.sub_diag; auto.
    + rewrite HE, nth_error_app2, Nat.sub_diag in He; auto.
      simpl in He. inversion He; subst e'.
      eapply advance_precc_keep; eauto.
  - (* the advanced slot is before q: it is the new witness *)
    exists (length pre), (choice_of e), e2. repeat split.
    + rewrite (firstn_agree_le _ _ Hf (Nat.lt_le_incl _ _ Hgt)). exact Hpre.
    + rewrite (firstn_agree_nth _ _ Hf Hgt). unfold choices.
      apply nth_error_map_some. rewrite HE, nth_error_app2, Nat.sub_diag; auto.
    + rewrite HS, nth_error_app2, Nat.sub_diag; auto.
    + apply advance_precc_base. exact Ha.
Qed.

Lemma Forall2_ext_choices :
  forall l l', Forall2 ext l l' -> map choice_of l' = map choice_of l.
Proof.
  induction 1 as [|e e' l l' He Hl IH]; simpl; auto.
  rewrite (ext_choice He), IH. reflexivity.
Qed.

Lemma Forall2_nth_error :
  forall (A B : Type) (P : A -> B -> Prop) l l' i x,
    Forall2 P l l' -> nth_error l i = Some x ->
    exists y, nth_error l' i = Some y /\ P x y.
Proof.
  intros A B P l l' i x H; revert i.
  induction H as [|a b l l' Hab Hl IH]; intros [|i] Hn; simpl in *;
    try discriminate.
  - inversion Hn; subst. exists b; auto.
  - apply IH; exact Hn.
Qed.

(* an iteration preserves R *)
Lemma ext_R : forall pi S E', extends S E' -> R pi S -> R pi E'.
Proof.
  intros pi S E' [_ [_ [_ [old [new [Hb Hold]]]]]] [q [c [e' [Hf [Hc [He Hp]]]]]].
  destruct (Forall2_nth_error _ Hold He) as [e'' [He'' Hext]].
  assert (Hq : q < length (branches S)).
  { apply nth_error_Some. congruence. }
  exists q, c, e''. repeat split; auto.
  - rewrite Hf. unfold choices. rewrite Hb, map_app.
    rewrite (Forall2_ext_choices Hold).
    rewrite firstn_app.
    replace (q - length (map choice_of (branches S))) with 0
      by (rewrite map_length; lia).
    simpl. rewrite app_nil_r. reflexivity.
  - rewrite Hb. rewrite nth_error_app1; auto.
    apply nth_error_Some. congruence.
  - eapply ext_precc; eauto.
Qed.

(* ---------- the exploration loop ---------- *)

Section Explore.
  Variable it : path -> path.
  Hypothesis Hit : iter_ok it.

  (* from a start-of-iteration path related to pi, everything explored later
     is related to pi *)
  Lemma explore_R_from :
    forall n p pi j pj,
      wf_path p -> R pi p ->
      nth_error (explore it n p) j = Some pj -> R pi pj.
  Proof.
    induction n as [|n IH]; intros p pi j pj Hwf HR Hj; simpl in Hj.
    - destruct j; discriminate.
    - destruct (Hit Hwf) as [Hext Hwf'].
      assert (HR' : R pi (it p)) by (eapply ext_R; eauto).
      destruct j as [|j]; simpl in Hj.
      + inversion Hj; subst. exact HR'.
      + destruct (step (it p)) as [p'|] eqn:Hs.
        * eapply IH; [ | | exact Hj].
          -- eapply step_wf; eauto.
          -- eapply step_R_pres; eauto.
        * destruct j; discriminate.
  Qed.

  Lemma explore_R :
    forall n p i j pi pj,
      wf_path p ->
      nth_error (explore it n p) i = Some pi ->
      nth_error (explore it n p) j = Some pj ->
      i < j -> R pi pj.
  Proof.
    induction n as [|n IH]; intros p i j pi pj Hwf Hi Hj Hlt; simpl in Hi, Hj.
    - destruct i; discriminate.
    - destruct (Hit Hwf) as [Hext Hwf'].
      destruct j as [|j]; [lia|]. simpl in Hj.
      destruct (step (it p)) as [p'|] eqn:Hs; [|destruct j; discriminate].
      assert (Hwfp' : wf_path p') by (eapply step_wf; eauto).
      destruct i as [|i]; simpl in Hi.
      + inversion Hi; subst pi.
        eapply explore_R_from; [exact Hwfp' | | exact Hj].
        apply step_R_base. exact Hs.
      + eapply IH; [exact Hwfp' | exact Hi | exact Hj | lia].
  Qed.
End Explore.

Theorem decisions_distinct :
  forall it n p i j pi pj,
    iter_ok it -> wf_path p ->
    nth_error (explore it n p) i = Some pi ->
    nth_error (explore it n p) j = Some pj ->
    i < j ->
    exists q, diverge_at (choices pi) (choices pj) q.
Proof.
  intros it n p i j pi pj Hit Hwf Hi Hj Hlt.
  apply R_diverge. eapply explore_R; eauto.
Qed.

Lemma diverge_at_neq : forall a b q, diverge_at a b q -> a <> b.
Proof.
  intros a b q [_ [x [y [Hx [Hy Hne]]]]] Heq. subst b. congruence.
Qed.

(* the consecutive case, stated on its own *)
Corollary consecutive_diverge :
  forall it n p i pi pj,
    iter_ok it -> wf_path p ->
    nth_error (explore it n p) i = Some pi ->
    nth_error (explore it n p) (S i) = Some pj ->
    exists q, diverge_at (choices pi) (choices pj) q.
Proof.
  intros it n p i pi pj Hit Hwf Hi Hj.
  eapply decisions_distinct; eauto.
Qed.

Corollary decisions_nodup :
  forall it n p, iter_ok it -> wf_path p -> NoDup (map choices (explore it n p)).
Proof.
  intros it n p Hit Hwf.
  apply NoDup_nth_error. intros i j Hi Heq.
  rewrite map_length in Hi.
  destruct (nth_error (explore it n p) i) as [pi|] eqn:Hpi;
    [|apply nth_error_None in Hpi; lia].
  rewrite (nth_error_map_some choices _ _ Hpi) in Heq. symmetry in Heq.
  destruct (nth_error_map_inv _ _ _ Heq) as [pj [Hpj Hc]].
  destruct (lt_eq_lt_dec i j) as [[Hlt|He]|Hgt]; auto; exfalso.
  - destruct (@decisions_distinct _ _ _ _ _ _ _ Hit Hwf Hpi Hpj Hlt) as [q Hd].
    exact (diverge_at_neq Hd Hc).
  - destruct (@decisions_distinct _ _ _ _ _ _ _ Hit Hwf Hpj Hpi Hgt) as [q Hd].
    exact (diverge_at_neq Hd (eq_sym Hc)).
Qed.

Print Assumptions decisions_distinct.
Print Assumptions decisions_nodup.
