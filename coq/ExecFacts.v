(* Facts about the execution model (Exec.v, Ops.v, Check.v).

   Part A  every iteration of the model satisfies the iteration contract of
           the path theorems ([path_ok], [iteration_path_ok], [L_iter_ok],
           [L_preemptions_le_bound], [initial_path_ok]);
   Part B  deadlock detection is exact at the step where it happens (C05);
   Part C  yield (C18);
   Part D  the leak check (C10).

   Deviations from the requested statements: see the end of this header.

   Statements left to my choice, as fixed here:
     - "the path was traversed" is stated on the path BEFORE the DPOR loop
       ([is_traversed (e_path e) = true]); the DPOR loop only adds backtrack
       marks, it changes neither [pos] nor the length of the stack
       ([dpor_loop_shape]), so this is the same as being traversed after it;
     - [schedule_no_runnable] needs the traversed hypothesis: when a stored
       path is replayed the choice (and hence the deadlock verdict) comes from
       the stack, whatever the thread states are;
     - [yielder_not_first] is stated on [seed_loop]/[pick_initial]/[seed_choice]
       ([seed_choice] = what [branch_thread] returns on a traversed path,
       [branch_thread_traversed]); [schedule_yielder_not_chosen] is the
       corresponding statement about [schedule];
     - [yield_reactivated] is stated with [e_active e' <> Some i] (it covers the
       case where no thread is chosen: then every thread is Terminated and the
       statement is vacuous).

   Deviations: none of the requested statements is false; all are proved under
   the requested names, with the hypotheses spelled out above. *)
Require Import LV.Base LV.VV LV.Path LV.PathSpec LV.PathApi LV.Prog LV.Objects
               LV.Exec LV.Atomic LV.Ops LV.Check.
From Coq Require Import Lia.

(* ================================================================== *)
(* Part A: the iteration contract                                      *)
(* ================================================================== *)

Definition path_ok (p0 p : path) : Prop :=
  extends p0 p /\ (wf_path p0 -> wf_path p) /\ (c15_inv p0 -> c15_inv p).

Lemma path_ok_refl p : path_ok p p.
Proof. unfold path_ok. auto using extends_refl. Qed.

Lemma path_ok_trans p q r : path_ok p q -> path_ok q r -> path_ok p r.
Proof.
  intros (Hpq1 & Hpq2 & Hpq3) (Hqr1 & Hqr2 & Hqr3).
  unfold path_ok. split; [eauto using extends_trans|]. split; auto.
Qed.

(* how the Path API lemmas of PathApi.v are packaged *)
Lemma path_ok_intro p p' :
  extends p p' /\ (wf_path p -> wf_path p') -> (c15_inv p -> c15_inv p') -> path_ok p p'.
Proof. unfold path_ok. tauto. Qed.

Lemma backtrack_ok p point tid p' : backtrack p point tid = POk p' -> path_ok p p'.
Proof. intros H. apply path_ok_intro; eauto using backtrack_extends, backtrack_c15. Qed.

Lemma explore_state_ok p p' : explore_state p = POk p' -> path_ok p p'.
Proof. intros H. apply path_ok_intro; eauto using explore_state_extends, explore_state_c15. Qed.

Lemma critical_ok p p' : critical p = POk p' -> path_ok p p'.
Proof. intros H. apply path_ok_intro; eauto using critical_extends, critical_c15. Qed.

Lemma skip_branch_ok p : path_ok p (skip_branch p).
Proof. apply path_ok_intro; auto using skip_branch_extends, skip_branch_c15. Qed.

Lemma push_load_ok p seed p' : push_load p seed = POk p' -> path_ok p p'.
Proof. intros H. apply path_ok_intro; eauto using push_load_extends, push_load_c15. Qed.

Lemma branch_load_ok p p' v : branch_load p = POk (p', v) -> path_ok p p'.
Proof. intros H. apply path_ok_intro; eauto using branch_load_extends, branch_load_c15. Qed.

Lemma branch_spurious_ok p p' b : branch_spurious p = POk (p', b) -> path_ok p p'.
Proof.
  intros H. apply path_ok_intro; eauto using branch_spurious_extends, branch_spurious_c15.
Qed.

Lemma branch_thread_ok p seed p' t :
  Forall (fun t => t <> Pending) seed ->
  branch_thread p seed = POk (p', t) -> path_ok p p'.
Proof.
  intros Hs H. apply path_ok_intro; eauto using branch_thread_extends, branch_thread_c15.
Qed.

(* ---- the DPOR loop ---- *)
Lemma dpor_accesses_ok accs dv id p p' :
  dpor_accesses accs dv id p = POk p' -> path_ok p p'.
Proof.
  revert p; induction accs as [|acc rest IH]; intros p H; cbn [dpor_accesses] in H.
  - injection H as <-. apply path_ok_refl.
  - destruct (access_hb acc dv); [eauto|].
    destruct (backtrack p (a_path_id acc) id) as [p1|x] eqn:Hb; [|discriminate].
    eapply path_ok_trans; [eapply backtrack_ok; eassumption|eauto].
Qed.

Lemma dpor_loop_ok objs ths p p' : dpor_loop objs ths p = POk p' -> path_ok p p'.
Proof.
  revert p; induction ths as [|[id th] rest IH]; intros p H; cbn [dpor_loop] in H.
  - injection H as <-. apply path_ok_refl.
  - destruct (t_op th) as [op|]; [|eauto].
    destruct (nth_error objs (op_obj op)) as [o|]; [|discriminate].
    destruct (last_dependent_accesses o (op_act op)) as [accs|]; [|discriminate].
    destruct (dpor_accesses accs (t_dpor th) id p) as [p1|x] eqn:Ha; [|discriminate].
    eapply path_ok_trans; [eapply dpor_accesses_ok; eassumption|eauto].
Qed.

(* the DPOR loop changes neither the position nor the length of the stack *)
Definition same_shape (p p' : path) : Prop :=
  pos p' = pos p /\ length (branches p') = length (branches p).

Lemma dpor_accesses_shape accs dv id p p' :
  dpor_accesses accs dv id p = POk p' -> same_shape p p'.
Proof.
  revert p; induction accs as [|acc rest IH]; intros p H; cbn [dpor_accesses] in H.
  - injection H as <-. split; reflexivity.
  - destruct (access_hb acc dv); [eauto|].
    destruct (backtrack p (a_path_id acc) id) as [p1|x] eqn:Hb; [|discriminate].
    destruct (backtrack_marks _ _ _ _ Hb) as (_ & _ & _ & Hpos & _ & _ & Hbr).
    apply Forall2_len in Hbr.
    destruct (IH _ H) as [H1 H2]. split; congruence.
Qed.

Lemma dpor_loop_shape objs ths p p' : dpor_loop objs ths p = POk p' -> same_shape p p'.
Proof.
  revert p; induction ths as [|[id th] rest IH]; intros p H; cbn [dpor_loop] in H.
  - injection H as <-. split; reflexivity.
  - destruct (t_op th) as [op|]; [|eauto].
    destruct (nth_error objs (op_obj op)) as [o|]; [|discriminate].
    destruct (last_dependent_accesses o (op_act op)) as [accs|]; [|discriminate].
    destruct (dpor_accesses accs (t_dpor th) id p) as [p1|x] eqn:Ha; [|discriminate].
    destruct (dpor_accesses_shape _ _ _ _ _ Ha) as [H1 H2].
    destruct (IH _ H) as [H3 H4]. split; congruence.
Qed.

Lemma dpor_loop_traversed objs ths p p' :
  dpor_loop objs ths p = POk p' -> is_traversed p' = is_traversed p.
Proof.
  intros H. destruct (dpor_loop_shape _ _ _ _ H) as [H1 H2].
  unfold is_traversed. rewrite H1, H2. reflexivity.
Qed.

(* ---- the seed ---- *)
Lemma seed_loop_no_pending ths initial :
  Forall (fun t => t <> Pending) (seed_loop ths initial).
Proof.
  revert initial; induction ths as [|[i th] rest IH]; intros initial; cbn [seed_loop].
  - constructor.
  - constructor; [|apply IH].
    destruct (opt_nat_eqb _ _); [discriminate|].
    destruct (is_yield th); [discriminate|].
    destruct (negb (is_runnable th)); discriminate.
Qed.

(* ---- schedule: unfolding ---- *)
Definition res_exec (r : mres) : exec :=
  match r with MOk e' => e' | MFail e' _ => e' end.

Definition sched_initial (ths : list thread) (curr : nat) (cur_th : thread) : option nat :=
  if is_runnable cur_th then Some curr else pick_initial ths (index_list ths) None.

Definition sched_seed (ths : list thread) (curr : nat) (cur_th : thread) : list tstat :=
  seed_loop (index_list ths) (sched_initial ths curr cur_th).

(* the DPOR bookkeeping done for the chosen thread *)
Definition sched_note (e : exec) (nx path_id : nat) (nth_ : thread) : exec :=
  match t_op nth_ with
  | None => e
  | Some op =>
      match nth_error (e_objects e) (op_obj op) with
      | None => e
      | Some o =>
          let dv := match last_dependent_accesses o (op_act op) with
                    | Some accs => fold_left (fun d acc => vv_join d (a_vv acc)) accs (t_dpor nth_)
                    | None => t_dpor nth_
                    end in
          let dv := vv_inc dv nx in
          let e := upd_thread e nx (fun t => th_set_dpor t dv) in
          upd_object e (op_obj op) (fun o => set_last_access o (op_act op) nx path_id dv)
      end
  end.

Definition reactivate (nx : nat) (ths : list thread) : list thread :=
  mapi (fun id th => if is_yield th && negb (Nat.eqb id nx) then set_runnable th else th) ths.

(* what schedule does once the path has answered; [e] already carries the new
   path and the new active thread *)
Definition sched_post (e : exec) (curr path_id : nat) (next : option nat) : mres * bool :=
  match next with
  | None =>
      if forallb is_terminated (e_threads e) then (MOk e, true)
      else (MFail e (PanicDeadlock (map t_state (e_threads e))), true)
  | Some nx =>
      match nth_error (e_threads e) nx with
      | None => (MFail e (PanicModel 3), false)
      | Some nth_ =>
          let e1 := sched_note e nx path_id nth_ in
          (MOk (ex_set_threads e1 (reactivate nx (e_threads e1))), negb (Nat.eqb curr nx))
      end
  end.

Lemma schedule_unfold e :
  schedule e =
  match e_active e with
  | None => (MFail e (PanicModel 1), false)
  | Some curr =>
  match nth_error (e_threads e) curr with
  | None => (MFail e (PanicModel 2), false)
  | Some cur_th =>
  match dpor_loop (e_objects e) (index_list (e_threads e)) (e_path e) with
  | PErr x => (MFail e (PanicPath x), false)
  | POk p1 =>
  match branch_thread p1 (sched_seed (e_threads e) curr cur_th) with
  | PErr x => (MFail (ex_set_path e p1) (PanicPath x), false)
  | POk (p2, next) =>
      sched_post (ex_set_active (ex_set_path (ex_set_path e p1) p2) next) curr (pos p1) next
  end end end end.
Proof. reflexivity. Qed.

(* the successful prefix of schedule, as a predicate *)
Definition sched_prefix (e : exec) (curr : nat) (cur_th : thread) (p1 p2 : path)
           (next : option nat) : Prop :=
  e_active e = Some curr /\
  nth_error (e_threads e) curr = Some cur_th /\
  dpor_loop (e_objects e) (index_list (e_threads e)) (e_path e) = POk p1 /\
  branch_thread p1 (sched_seed (e_threads e) curr cur_th) = POk (p2, next).

Definition sched_base (e : exec) (p2 : path) (next : option nat) : exec :=
  ex_set_active (ex_set_path e p2) next.

(* every outcome of schedule *)
Lemma schedule_cases e :
  (exists c, schedule e = (MFail e (PanicModel c), false)) \/
  (exists x, schedule e = (MFail e (PanicPath x), false)) \/
  (exists p1 x, dpor_loop (e_objects e) (index_list (e_threads e)) (e_path e) = POk p1 /\
                schedule e = (MFail (ex_set_path e p1) (PanicPath x), false)) \/
  (exists curr cur_th p1 p2 next,
     sched_prefix e curr cur_th p1 p2 next /\
     schedule e = sched_post (sched_base e p2 next) curr (pos p1) next).
Proof.
  rewrite schedule_unfold. unfold sched_prefix.
  destruct (e_active e) as [curr|] eqn:Ha; [|left; eauto].
  destruct (nth_error (e_threads e) curr) as [cur_th|] eqn:Hc; [|left; eauto].
  destruct (dpor_loop _ _ _) as [p1|x] eqn:Hd; [|right; left; eauto].
  destruct (branch_thread _ _) as [[p2 next]|x] eqn:Hb; [|right; right; left; eauto].
  right; right; right. exists curr, cur_th, p1, p2, next.
  repeat split; assumption || reflexivity.
Qed.

(* framing: the parts of the state that sched_post leaves alone *)
Lemma sched_note_path e nx pid th : e_path (sched_note e nx pid th) = e_path e.
Proof.
  unfold sched_note. destruct (t_op th); [|reflexivity].
  destruct (nth_error _ _); reflexivity.
Qed.

Lemma sched_note_active e nx pid th : e_active (sched_note e nx pid th) = e_active e.
Proof.
  unfold sched_note. destruct (t_op th); [|reflexivity].
  destruct (nth_error _ _); reflexivity.
Qed.

Lemma sched_post_path e curr pid next :
  e_path (res_exec (fst (sched_post e curr pid next))) = e_path e.
Proof.
  unfold sched_post. destruct next as [nx|].
  - destruct (nth_error _ _); [|reflexivity].
    cbn [fst res_exec]. apply sched_note_path.
  - destruct (forallb _ _); reflexivity.
Qed.

Lemma sched_prefix_ok e curr cur_th p1 p2 next :
  sched_prefix e curr cur_th p1 p2 next -> path_ok (e_path e) p2.
Proof.
  intros (_ & _ & Hd & Hb).
  eapply path_ok_trans; [eapply dpor_loop_ok; eassumption|].
  eapply branch_thread_ok; [|eassumption]. apply seed_loop_no_pending.
Qed.

Lemma schedule_path_ok e :
  let r := fst (schedule e) in
  path_ok (e_path e) (e_path (match r with MOk e' => e' | MFail e' _ => e' end)).
Proof.
  cbv zeta. change (path_ok (e_path e) (e_path (res_exec (fst (schedule e))))).
  destruct (schedule_cases e)
    as [(c & ->)|[(x & ->)|[(p1 & x & Hd & ->)|(curr & cur_th & p1 & p2 & next & Hp & ->)]]].
  - apply path_ok_refl.
  - apply path_ok_refl.
  - cbn [fst res_exec]. eapply dpor_loop_ok; eassumption.
  - rewrite sched_post_path. eapply sched_prefix_ok; eassumption.
Qed.

(* the same, in the form used below: continuation style *)
Lemma schedule_ok_k p e :
  path_ok p (e_path e) -> path_ok p (e_path (res_exec (fst (schedule e)))).
Proof. intros H. eapply path_ok_trans; [exact H|apply schedule_path_ok]. Qed.

(* ---- framing: the helpers of Ops.v that do not touch the path ---- *)
Lemma upd_thread_path e i f : e_path (upd_thread e i f) = e_path e.
Proof. reflexivity. Qed.
Lemma upd_object_path e i f : e_path (upd_object e i f) = e_path e.
Proof. reflexivity. Qed.
Lemma upd_hobj_path e i f : e_path (upd_hobj e i f) = e_path e.
Proof. reflexivity. Qed.
Lemma ex_set_path_path e p : e_path (ex_set_path e p) = p.
Proof. reflexivity. Qed.
Lemma ex_set_threads_path e x : e_path (ex_set_threads e x) = e_path e.
Proof. reflexivity. Qed.
Lemma ex_set_active_path e x : e_path (ex_set_active e x) = e_path e.
Proof. reflexivity. Qed.
Lemma ex_set_seqcst_path e x : e_path (ex_set_seqcst e x) = e_path e.
Proof. reflexivity. Qed.
Lemma ex_set_objects_path e x : e_path (ex_set_objects e x) = e_path e.
Proof. reflexivity. Qed.
Lemma ex_set_h_path e x : e_path (ex_set_h e x) = e_path e.
Proof. reflexivity. Qed.
Lemma ex_set_spawned_path e x : e_path (ex_set_spawned e x) = e_path e.
Proof. reflexivity. Qed.
Lemma ex_set_joined_path e x : e_path (ex_set_joined e x) = e_path e.
Proof. reflexivity. Qed.
Lemma ex_set_log_path e x : e_path (ex_set_log e x) = e_path e.
Proof. reflexivity. Qed.
Lemma set_caus_path e me v : e_path (set_caus e me v) = e_path e.
Proof. reflexivity. Qed.
Lemma causality_inc_path e me : e_path (causality_inc e me) = e_path e.
Proof. reflexivity. Qed.
Lemma push_cont_path e me ms : e_path (push_cont e me ms) = e_path e.
Proof. reflexivity. Qed.
Lemma log_op_path e me r : e_path (log_op e me r) = e_path e.
Proof. unfold log_op. destruct (get_thread e me); reflexivity. Qed.
Lemma map_others_path e me p f : e_path (map_others e me p f) = e_path e.
Proof. reflexivity. Qed.
Lemma threads_unpark_path e me id : e_path (threads_unpark e me id) = e_path e.
Proof. unfold threads_unpark. destruct (Nat.eqb id me); reflexivity. Qed.
Lemma set_slot_path e k i b : e_path (set_slot e k i b) = e_path e.
Proof. reflexivity. Qed.
Lemma push_guard_path e me k m : e_path (push_guard e me k m) = e_path e.
Proof. reflexivity. Qed.
Lemma drop_guard_path e me k m : e_path (drop_guard e me k m) = e_path e.
Proof. reflexivity. Qed.

Lemma release_lock_path e me m : e_path (release_lock e me m) = e_path e.
Proof.
  unfold release_lock. destruct (get_mutex e m); [|reflexivity].
  cbv zeta. destruct (e_active _); reflexivity.
Qed.

Lemma post_acquire_path e me m : e_path (fst (post_acquire e me m)) = e_path e.
Proof.
  unfold post_acquire. destruct (get_mutex e m) as [s|]; [|reflexivity].
  destruct (is_some (mx_lock s)); reflexivity.
Qed.

Lemma post_acquire_read_path e me r : e_path (fst (post_acquire_read e me r)) = e_path e.
Proof.
  unfold post_acquire_read. destruct (get_rw e r) as [s|]; [|reflexivity].
  destruct (rw_lock s) as [[?|?]|]; reflexivity.
Qed.

Lemma post_acquire_write_path e me r : e_path (fst (post_acquire_write e me r)) = e_path e.
Proof.
  unfold post_acquire_write. destruct (get_rw e r) as [s|]; [|reflexivity].
  destruct (rw_lock s); reflexivity.
Qed.

Lemma release_read_path e me r : e_path (res_exec (release_read e me r)) = e_path e.
Proof.
  unfold release_read. destruct (get_rw e r) as [s|]; [|reflexivity].
  cbv zeta. destruct (rw_lock s) as [[rs|?]|]; try reflexivity.
  destruct (set_remove me rs); reflexivity.
Qed.

Lemma release_write_path e me r : e_path (res_exec (release_write e me r)) = e_path e.
Proof. unfold release_write. destruct (get_rw e r); reflexivity. Qed.

Lemma fold_unpark_path me l e :
  e_path (fold_left (fun e t => threads_unpark e me t) l e) = e_path e.
Proof.
  revert e; induction l as [|w l IH]; intros e; cbn [fold_left]; [reflexivity|].
  rewrite IH. apply threads_unpark_path.
Qed.

Global Hint Rewrite upd_thread_path upd_object_path upd_hobj_path ex_set_path_path
  ex_set_threads_path ex_set_active_path ex_set_seqcst_path ex_set_objects_path
  ex_set_h_path ex_set_spawned_path ex_set_joined_path ex_set_log_path
  set_caus_path causality_inc_path push_cont_path log_op_path map_others_path
  threads_unpark_path set_slot_path push_guard_path drop_guard_path
  release_lock_path fold_unpark_path : epath.

(* ---- the operations that do touch the path ---- *)
Lemma do_branch_ok_k p e me obj act blk :
  path_ok p (e_path e) -> path_ok p (e_path (res_exec (do_branch e me obj act blk))).
Proof. intros H. unfold do_branch. apply schedule_ok_k. exact H. Qed.

Lemma do_park_ok_k p e me :
  path_ok p (e_path e) -> path_ok p (e_path (res_exec (do_park e me))).
Proof.
  intros H. unfold do_park. destruct (get_thread e me) as [t|]; [|exact H].
  repeat match goal with
         | |- context [match ?x with _ => _ end] => destruct x
         end; first [exact H|apply schedule_ok_k; exact H].
Qed.

Lemma do_yield_ok_k p e me :
  path_ok p (e_path e) -> path_ok p (e_path (res_exec (do_yield e me))).
Proof. intros H. unfold do_yield. apply schedule_ok_k. exact H. Qed.

Lemma choose_store_ok e seed :
  path_ok (e_path e) (e_path (fst (choose_store e seed))).
Proof.
  unfold choose_store.
  destruct (is_traversed (e_path e)).
  - destruct seed as [sd|]; [|apply path_ok_refl].
    destruct (push_load (e_path e) sd) as [p1|x] eqn:Hp; [|apply path_ok_refl].
    destruct (branch_load p1) as [[p2 idx]|x] eqn:Hb; cbn [fst]; [|apply path_ok_refl].
    rewrite ex_set_path_path.
    eapply path_ok_trans; [eapply push_load_ok|eapply branch_load_ok]; eassumption.
  - destruct (branch_load (e_path e)) as [[p2 idx]|x] eqn:Hb; cbn [fst]; [|apply path_ok_refl].
    rewrite ex_set_path_path. eapply branch_load_ok; eassumption.
Qed.

Lemma ex_set_lazy_path e l : e_path (ex_set_lazy e l) = e_path e.
Proof. reflexivity. Qed.
Lemma log_poll_path e me : e_path (log_poll e me) = e_path e.
Proof. unfold log_poll. destruct (get_thread e me); reflexivity. Qed.
Global Hint Rewrite ex_set_lazy_path log_poll_path : epath.

Definition lp_exec (r : (exec * N) + (exec * panic)) : exec :=
  match r with inl (e, _) => e | inr (e, _) => e end.

Lemma load_post_ok e me a o : path_ok (e_path e) (e_path (lp_exec (load_post e me a o))).
Proof.
  unfold load_post.
  destruct (get_atomic (causality_inc e me) a) as [s|]; [|cbn; autorewrite with epath; apply path_ok_refl].
  destruct (get_thread (causality_inc e me) me) as [t|]; [|cbn; autorewrite with epath; apply path_ok_refl].
  pose proof (choose_store_ok (causality_inc e me)
                (match_load_to_stores s me (t_caus t) (t_last_yield t) o)) as H.
  destruct (choose_store (causality_inc e me) (match_load_to_stores s me (t_caus t) (t_last_yield t) o))
    as [e1 [idx|p]]; cbn [fst] in H; autorewrite with epath in H.
  - destruct (atomic_load s me (t_caus t) idx o) as [[[s' c'] v]|p]; cbn [lp_exec];
      autorewrite with epath; exact H.
  - cbn [lp_exec]. exact H.
Qed.

(* ---- one micro-operation ---- *)
Ltac use_eqs :=
  repeat match goal with
         | H : e_path _ = _ |- _ => rewrite H in *; clear H
         end.

Ltac micro_step :=
  match goal with
  | |- path_ok _ (e_path (res_exec (fst (schedule _)))) => apply schedule_ok_k
  | |- path_ok _ (e_path (res_exec (do_branch _ _ _ _ _))) => apply do_branch_ok_k
  | |- path_ok _ (e_path (res_exec (do_park _ _))) => apply do_park_ok_k
  | |- path_ok _ (e_path (res_exec (do_yield _ _))) => apply do_yield_ok_k
  | |- context [post_acquire ?e ?me ?m] =>
      let H := fresh "Hfr" in
      pose proof (post_acquire_path e me m) as H;
      destruct (post_acquire e me m); cbn [fst] in H
  | |- context [post_acquire_read ?e ?me ?m] =>
      let H := fresh "Hfr" in
      pose proof (post_acquire_read_path e me m) as H;
      destruct (post_acquire_read e me m); cbn [fst] in H
  | |- context [post_acquire_write ?e ?me ?m] =>
      let H := fresh "Hfr" in
      pose proof (post_acquire_write_path e me m) as H;
      destruct (post_acquire_write e me m); cbn [fst] in H
  | |- context [release_read ?e ?me ?m] =>
      let H := fresh "Hfr" in
      pose proof (release_read_path e me m) as H;
      destruct (release_read e me m); cbn [res_exec] in H
  | |- context [release_write ?e ?me ?m] =>
      let H := fresh "Hfr" in
      pose proof (release_write_path e me m) as H;
      destruct (release_write e me m); cbn [res_exec] in H
  | |- context [load_post ?e ?me ?a ?o] =>
      let H := fresh "Hlp" in
      pose proof (load_post_ok e me a o) as H;
      destruct (load_post e me a o) as [[? ?]|[? ?]]; cbn [lp_exec] in H
  | |- context [choose_store ?e ?s] =>
      let H := fresh "Hcs" in
      pose proof (choose_store_ok e s) as H;
      destruct (choose_store e s) as [? [?|?]]; cbn [fst] in H
  | |- context [branch_spurious ?p] =>
      let H := fresh "Hbs" in
      destruct (branch_spurious p) as [[? ?]|?] eqn:H;
      [apply branch_spurious_ok in H|]
  | |- context [explore_state ?p] =>
      let H := fresh "Hes" in
      destruct (explore_state p) eqn:H; [apply explore_state_ok in H|]
  | |- context [critical ?p] =>
      let H := fresh "Hcr" in
      destruct (critical p) eqn:H; [apply critical_ok in H|]
  | |- context [match ?x with _ => _ end] =>
      lazymatch x with
      | context [match _ with _ => _ end] => fail
      | _ => destruct x
      end
  end.

Ltac micro_close :=
  cbn [res_exec]; autorewrite with epath in *; use_eqs;
  first [ apply path_ok_refl | assumption | apply skip_branch_ok
        | eapply path_ok_trans; eassumption ].

Ltac micro_tac :=
  cbn [exec_micro]; unfold lift_path, mbind;
  repeat micro_step; micro_close.

Lemma exec_micro_path_ok e me m :
  path_ok (e_path e)
          (e_path (match exec_micro e me m with MOk e' => e' | MFail e' _ => e' end)).
Proof.
  change (path_ok (e_path e) (e_path (res_exec (exec_micro e me m)))).
  destruct m; micro_tac.
Qed.

(* ---- Scheduler::run, one iteration ---- *)
Lemma run_path_ok fuel e : path_ok (e_path e) (e_path (fst (run fuel e))).
Proof.
  revert e; induction fuel as [|fuel IH]; intros e; cbn [run].
  - apply path_ok_refl.
  - destruct (e_active e) as [me|]; [|apply path_ok_refl].
    destruct (nth_error (e_threads e) me) as [t|]; [|apply path_ok_refl].
    destruct (t_cont t) as [|m rest]; [apply path_ok_refl|].
    pose proof (exec_micro_path_ok (upd_thread e me (fun t => th_set_cont t rest)) me m) as Hm.
    rewrite upd_thread_path in Hm.
    destruct (exec_micro _ me m) as [e2|e2 pn].
    + eapply path_ok_trans; [exact Hm|apply IH].
    + exact Hm.
Qed.

Lemma iteration_fst fuel p pa : fst (iteration fuel p pa) = fst (run fuel (init_exec p pa)).
Proof.
  unfold iteration. destruct (run fuel (init_exec p pa)) as [e r].
  destruct r; try reflexivity.
  destruct (check_for_leaks (e_objects e)); reflexivity.
Qed.

Lemma init_exec_path p pa : e_path (init_exec p pa) = pa.
Proof. reflexivity. Qed.

Theorem iteration_path_ok fuel p pa : path_ok pa (e_path (fst (iteration fuel p pa))).
Proof.
  rewrite iteration_fst.
  pose proof (run_path_ok fuel (init_exec p pa)) as H.
  rewrite init_exec_path in H. exact H.
Qed.

Corollary L_iter_ok fuel p : iter_ok (fun pa => e_path (fst (iteration fuel p pa))).
Proof.
  intros pa Hwf. destruct (iteration_path_ok fuel p pa) as (Hext & Hw & _). auto.
Qed.

Corollary L_preemptions_le_bound fuel p pa bd :
  wf_path pa -> c15_inv pa -> bound pa = Some bd ->
  forall s, In (ESched s) (branches (e_path (fst (iteration fuel p pa)))) ->
            preemptions s <= bd.
Proof.
  intros _ Hc Hbd.
  destruct (iteration_path_ok fuel p pa) as (Hext & _ & Hc15).
  apply preemptions_le_bound; [auto|].
  destruct Hext as (Hb & _). congruence.
Qed.

Lemma initial_path_ok c : wf_path (initial_path c) /\ c15_inv (initial_path c).
Proof.
  unfold initial_path, path_new, wf_path, c15_inv. cbn [branches cap length].
  split; [split|]; auto using Nat.le_0_l.
Qed.

(* ================================================================== *)
(* Part D: the leak check (C10)                                        *)
(* ================================================================== *)

Lemma leak_of_spec o :
  leak_of o = None <->
  match o with
  | OAlloc d => d = true
  | OArc s => arc_cnt s = 0
  | OChannel s => ch_cnt s = 0
  | _ => True
  end.
Proof.
  destruct o; cbn [leak_of]; try tauto.
  all: try match goal with
           | |- (if Nat.eqb ?n 0 then _ else _) = None <-> _ =>
               destruct (Nat.eqb_spec n 0); split; intros; congruence
           end.
  all: match goal with |- (if ?d then _ else _) = None <-> _ =>
           destruct d; split; intros; congruence end.
Qed.

Lemma check_for_leaks_from_none i l :
  check_for_leaks_from i l = None <-> Forall (fun o => leak_of o = None) l.
Proof.
  revert i; induction l as [|o t IH]; intros i; cbn [check_for_leaks_from].
  - split; auto.
  - destruct (leak_of o) as [k|] eqn:Hk.
    + split; [discriminate|]. intros H. inversion H; congruence.
    + rewrite IH. split; [auto|]. intros H. inversion H; assumption.
Qed.

Lemma check_for_leaks_none l :
  check_for_leaks l = None <-> Forall (fun o => leak_of o = None) l.
Proof. apply check_for_leaks_from_none. Qed.

Lemma check_for_leaks_from_first b l pn :
  check_for_leaks_from b l = Some pn <->
  exists i o k, pn = PanicLeak k (b + i) /\ nth_error l i = Some o /\ leak_of o = Some k /\
                forall j o', j < i -> nth_error l j = Some o' -> leak_of o' = None.
Proof.
  revert b; induction l as [|h t IH]; intros b; cbn [check_for_leaks_from].
  - split; [discriminate|]. intros (i & o & k & _ & Hn & _). destruct i; discriminate.
  - destruct (leak_of h) as [kh|] eqn:Hh.
    + split.
      * intros H. injection H as <-. exists 0, h, kh.
        rewrite Nat.add_0_r. repeat split; auto. intros j o' Hj. lia.
      * intros (i & o & k & -> & Hn & Hk & Hmin). destruct i as [|i].
        -- cbn [nth_error] in Hn. injection Hn as <-. rewrite Nat.add_0_r. congruence.
        -- specialize (Hmin 0 h (Nat.lt_0_succ i) eq_refl). congruence.
    + rewrite IH. split.
      * intros (i & o & k & -> & Hn & Hk & Hmin). exists (S i), o, k.
        repeat split; auto; [f_equal; lia|].
        intros [|j] o' Hj Hn'; cbn [nth_error] in Hn'.
        -- congruence.
        -- eapply Hmin; [|eassumption]. lia.
      * intros (i & o & k & -> & Hn & Hk & Hmin). destruct i as [|i].
        -- cbn [nth_error] in Hn. congruence.
        -- exists i, o, k. repeat split; auto; [f_equal; lia|].
           intros j o' Hj Hn'. apply (Hmin (S j) o'); [lia|exact Hn'].
Qed.

Lemma check_for_leaks_first l pn :
  check_for_leaks l = Some pn <->
  exists i o k, pn = PanicLeak k i /\ nth_error l i = Some o /\ leak_of o = Some k /\
                forall j o', j < i -> nth_error l j = Some o' -> leak_of o' = None.
Proof. apply (check_for_leaks_from_first 0). Qed.

(* ================================================================== *)
(* list facts used by parts B and C                                    *)
(* ================================================================== *)

Lemma forallb_false_ex (A : Type) (f : A -> bool) (l : list A) :
  forallb f l = false -> exists x, In x l /\ f x = false.
Proof.
  induction l as [|h t IH]; cbn [forallb]; [discriminate|].
  destruct (f h) eqn:Hh; cbn [andb]; intros H.
  - destruct (IH H) as (x & Hx & Hfx). exists x. split; [right; exact Hx|exact Hfx].
  - exists h. split; [left; reflexivity|exact Hh].
Qed.

Lemma find_index_Some (A : Type) (f : A -> bool) (l : list A) (i : nat) :
  find_index f l = Some i -> exists x, nth_error l i = Some x /\ f x = true.
Proof.
  revert i; induction l as [|h t IH]; intros i; cbn [find_index]; [discriminate|].
  destruct (f h) eqn:Hh.
  - intros H. injection H as <-. exists h. auto.
  - destruct (find_index f t) as [j|]; cbn [option_map]; [|discriminate].
    intros H. injection H as <-. cbn [nth_error]. apply IH. reflexivity.
Qed.

Lemma find_index_None (A : Type) (f : A -> bool) (l : list A) :
  find_index f l = None -> Forall (fun x => f x = false) l.
Proof.
  induction l as [|h t IH]; cbn [find_index]; [constructor|].
  destruct (f h) eqn:Hh; [discriminate|].
  destruct (find_index f t); cbn [option_map]; [discriminate|].
  intros _. constructor; auto.
Qed.

Lemma find_index_pad (A : Type) (f : A -> bool) (d : A) (n : nat) (l : list A) :
  f d = false -> length l <= n -> find_index f (pad_to n d l) = find_index f l.
Proof.
  intros Hd. revert l; induction n as [|n IH]; intros l Hl.
  - destruct l; [reflexivity|cbn [length] in Hl; lia].
  - destruct l as [|h t]; cbn [pad_to find_index].
    + rewrite Hd. rewrite (IH []); [reflexivity|cbn [length]; lia].
    + cbn [length] in Hl. rewrite IH; [reflexivity|lia].
Qed.

Definition is_tyield (t : tstat) : bool := tstat_eqb t TYield.

Lemma find_index_activate l :
  find_index is_active l = None ->
  find_index is_active (activate_first_yield l) = find_index is_tyield l.
Proof.
  induction l as [|h t IH]; [reflexivity|].
  cbn [find_index]. destruct (is_active h) eqn:Hh; [discriminate|].
  destruct (find_index is_active t) eqn:Ht; cbn [option_map]; [discriminate|].
  intros _. specialize (IH eq_refl).
  destruct h; cbn [activate_first_yield find_index]; try discriminate Hh;
    try (change (is_active ?x) with false; change (is_tyield ?x) with false; cbv iota;
         rewrite IH; reflexivity).
  reflexivity.
Qed.

Lemma tstat_eqb_eq a b : tstat_eqb a b = true -> a = b.
Proof. destruct a, b; cbn; congruence. Qed.

Lemma nth_error_list_set_neq (A : Type) (l : list A) (n i : nat) (x : A) :
  i <> n -> nth_error (list_set l n x) i = nth_error l i.
Proof.
  revert n i; induction l as [|h t IH]; intros [|n] [|i] Hne; cbn [list_set nth_error];
    try reflexivity; try lia.
  apply IH. lia.
Qed.

Lemma nth_error_list_set_eq (A : Type) (l : list A) (n : nat) (x : A) :
  n < length l -> nth_error (list_set l n x) n = Some x.
Proof.
  revert n; induction l as [|h t IH]; intros [|n] Hlt; cbn [length] in Hlt; try lia;
    cbn [list_set nth_error]; [reflexivity|]. apply IH. lia.
Qed.

Lemma nth_error_list_upd_neq (A : Type) (l : list A) (n i : nat) (f : A -> A) :
  i <> n -> nth_error (list_upd l n f) i = nth_error l i.
Proof.
  intros Hne. unfold list_upd. destruct (nth_error l n); [|reflexivity].
  apply nth_error_list_set_neq. exact Hne.
Qed.

Lemma nth_error_mapi_from (A B : Type) (f : nat -> A -> B) (l : list A) (k n : nat) :
  nth_error (mapi_from k f l) n = option_map (f (k + n)) (nth_error l n).
Proof.
  revert k n; induction l as [|h t IH]; intros k [|n]; cbn [mapi_from nth_error option_map];
    try reflexivity.
  - rewrite Nat.add_0_r. reflexivity.
  - rewrite IH. replace (S k + n) with (k + S n) by lia. reflexivity.
Qed.

Lemma index_list_from_length (A : Type) (l : list A) (k : nat) :
  length (index_list_from k l) = length l.
Proof. revert k; induction l as [|h t IH]; intros k; cbn [index_list_from length]; auto. Qed.

Lemma seed_loop_length ths init : length (seed_loop ths init) = length ths.
Proof.
  revert init; induction ths as [|[i th] rest IH]; intros init; cbn [seed_loop length]; auto.
Qed.

(* ================================================================== *)
(* the choice made on a traversed path                                 *)
(* ================================================================== *)

(* what branch_thread answers when it pushes a new entry: the Active entry of
   the seed, or else its first Yield entry *)
Definition seed_choice (seed : list tstat) : option nat :=
  match find_index is_active seed with
  | Some i => Some i
  | None => find_index is_tyield seed
  end.

Lemma branch_thread_traversed p seed p' t :
  is_traversed p = true -> branch_thread p seed = POk (p', t) -> t = seed_choice seed.
Proof.
  intros Htr H. unfold branch_thread in H. rewrite Htr in H.
  destruct (path_len_ok p); cbn [negb] in H; [|discriminate].
  destruct (Nat.ltb MAX_THREADS (length seed)) eqn:Hlen; [discriminate|].
  apply Nat.ltb_ge in Hlen.
  destruct (Nat.ltb 1 (length (filter is_active seed))); [discriminate|].
  cbv zeta in H.
  (* hide the components of the new entry (as in PathApi.branch_thread_cases) *)
  match type of H with
  | context [mkSched ?pre ?ia ?th ?prev ?ex] =>
      set (PRE := pre) in *; set (IA := ia) in *; set (TH := th) in *;
      set (PREV := prev) in *
  end.
  destruct (opt_le_bound PRE (bound p)); cbn [negb] in H; [|discriminate].
  cbv iota in H. cbn [set_branches branches pos] in H.
  unfold is_traversed in Htr. apply Nat.eqb_eq in Htr.
  rewrite Htr, nth_error_app2, Nat.sub_diag in H by apply Nat.le_refl.
  cbn [nth_error] in H. injection H as _ <-.
  unfold active_thread_index. cbn [s_threads]. subst TH. unfold seed_choice.
  assert (Hpa : find_index is_active (pad_to MAX_THREADS Disabled seed)
                = find_index is_active seed) by (apply find_index_pad; auto).
  destruct (find_index is_active (pad_to MAX_THREADS Disabled seed)) as [i|] eqn:Hfi.
  - rewrite <- Hpa. exact Hfi.
  - rewrite <- Hpa. rewrite (find_index_activate _ Hfi).
    apply find_index_pad; auto.
Qed.

(* ---- the seed, entry by entry ---- *)
Definition seed_class (th : thread) : tstat :=
  if is_yield th then TYield else if negb (is_runnable th) then Disabled else Skip.

Lemma seed_class_not_active th : seed_class th <> Active.
Proof.
  unfold seed_class. destruct (is_yield th); [discriminate|].
  destruct (negb (is_runnable th)); discriminate.
Qed.

Lemma seed_loop_spec l k init n th :
  nth_error l n = Some th ->
  exists st,
    nth_error (seed_loop (index_list_from k l) init) n = Some st /\
    (st = Active \/ st = seed_class th) /\
    (st = Active -> init = Some (k + n) \/ (init = None /\ is_runnable th = true)) /\
    (init = Some (k + n) -> st = Active).
Proof.
  revert k init n; induction l as [|h t IH]; intros k init n Hn.
  - destruct n; discriminate.
  - cbn [index_list_from seed_loop]. destruct n as [|n].
    + cbn [nth_error] in Hn |- *. injection Hn as ->. rewrite Nat.add_0_r.
      eexists; split; [reflexivity|]. fold (seed_class th).
      destruct init as [j|].
      * cbn [opt_nat_eqb]. destruct (Nat.eqb_spec j k) as [->|Hne].
        -- split; [left; reflexivity|]. split; [left; reflexivity|reflexivity].
        -- split; [right; reflexivity|]. split.
           ++ intros Ha. destruct (seed_class_not_active _ Ha).
           ++ intros Hj. injection Hj as ->. destruct (Hne eq_refl).
      * destruct (is_runnable th) eqn:Hr.
        -- cbn [opt_nat_eqb]. rewrite Nat.eqb_refl.
           split; [left; reflexivity|]. split; [right; split; reflexivity|reflexivity].
        -- cbn [opt_nat_eqb]. split; [right; reflexivity|]. split.
           ++ intros Ha. destruct (seed_class_not_active _ Ha).
           ++ discriminate.
    + cbn [nth_error] in Hn |- *.
      match goal with
      | |- context [seed_loop _ ?i'] => destruct (IH (S k) i' n Hn) as (st & H1 & H2 & H3 & H4)
      end.
      exists st. split; [exact H1|]. split; [exact H2|].
      replace (k + S n) with (S k + n) by lia. split.
      * intros Ha. destruct (H3 Ha) as [Hi|[Hi Hr]].
        -- destruct init as [j|]; [left; exact Hi|].
           destruct (is_runnable h); [injection Hi as Hi; lia|discriminate].
        -- destruct init as [j|]; [discriminate|]. right. split; [reflexivity|exact Hr].
      * intros ->. apply H4. reflexivity.
Qed.

(* ---- pick_initial ---- *)
Lemma pick_initial_Some all l k init j :
  pick_initial all (index_list_from k l) init = Some j ->
  init = Some j \/
  exists th, k <= j /\ nth_error l (j - k) = Some th /\ is_runnable th = true.
Proof.
  revert k init; induction l as [|h t IH]; intros k init H;
    cbn [index_list_from pick_initial] in H.
  - left; exact H.
  - assert (Htail : forall init', pick_initial all (index_list_from (S k) t) init' = Some j ->
                      init' = Some j \/
                      exists th, k <= j /\ nth_error (h :: t) (j - k) = Some th /\
                                 is_runnable th = true).
    { intros init' H'. destruct (IH _ _ H') as [Hi|(th & Hle & Hn & Hr)]; [left; exact Hi|].
      right. exists th. split; [lia|]. split; [|exact Hr].
      replace (j - k) with (S (j - S k)) by lia. exact Hn. }
    destruct (is_runnable h) eqn:Hr; cbn [negb] in H.
    + destruct init as [j0|].
      * destruct (Htail _ H) as [Hi|Hx]; [|right; exact Hx].
        destruct (Nat.ltb _ _); [|left; exact Hi].
        injection Hi as <-. right. exists h. rewrite Nat.sub_diag. auto.
      * destruct (Htail _ H) as [Hi|Hx]; [|right; exact Hx].
        injection Hi as <-. right. exists h. rewrite Nat.sub_diag. auto.
    + destruct (Htail _ H) as [Hi|Hx]; [left; exact Hi|right; exact Hx].
Qed.

Lemma pick_initial_None all l k init :
  pick_initial all (index_list_from k l) init = None ->
  init = None /\ Forall (fun t => is_runnable t = false) l.
Proof.
  revert k init; induction l as [|h t IH]; intros k init H;
    cbn [index_list_from pick_initial] in H.
  - split; [exact H|constructor].
  - destruct (is_runnable h) eqn:Hr; cbn [negb] in H.
    + destruct init as [j0|].
      * destruct (IH _ _ H) as [Hi _]. destruct (Nat.ltb _ _); discriminate.
      * destruct (IH _ _ H) as [Hi _]. discriminate.
    + destruct (IH _ _ H) as [Hi Ht]. split; [exact Hi|]. constructor; assumption.
Qed.

Lemma sched_initial_runnable l curr cur_th j :
  nth_error l curr = Some cur_th -> sched_initial l curr cur_th = Some j ->
  exists th, nth_error l j = Some th /\ is_runnable th = true.
Proof.
  intros Hc. unfold sched_initial. destruct (is_runnable cur_th) eqn:Hr.
  - intros H. injection H as <-. eauto.
  - intros H. destruct (pick_initial_Some _ _ _ _ _ H) as [Hi|(th & _ & Hn & Hth)];
      [discriminate|].
    rewrite Nat.sub_0_r in Hn. eauto.
Qed.

Lemma sched_initial_None l curr cur_th :
  sched_initial l curr cur_th = None -> Forall (fun t => is_runnable t = false) l.
Proof.
  unfold sched_initial. destruct (is_runnable cur_th); [discriminate|].
  intros H. apply (pick_initial_None _ _ _ _ H).
Qed.

Lemma runnable_not_yield th : is_runnable th = true -> is_yield th = false.
Proof. unfold is_runnable, is_yield. destruct (t_state th); congruence. Qed.

Lemma sched_seed_nth l curr cur_th n th :
  nth_error l n = Some th ->
  exists st,
    nth_error (sched_seed l curr cur_th) n = Some st /\
    (st = Active \/ st = seed_class th) /\
    (st = Active -> sched_initial l curr cur_th = Some n \/
                    (sched_initial l curr cur_th = None /\ is_runnable th = true)) /\
    (sched_initial l curr cur_th = Some n -> st = Active).
Proof. intros Hn. exact (seed_loop_spec l 0 (sched_initial l curr cur_th) n th Hn). Qed.

Lemma sched_seed_nth_inv l curr cur_th n st :
  nth_error (sched_seed l curr cur_th) n = Some st ->
  exists th, nth_error l n = Some th.
Proof.
  intros H. assert (Hlt : n < length l).
  { rewrite <- (index_list_from_length _ l 0).
    rewrite <- (seed_loop_length (index_list_from 0 l) (sched_initial l curr cur_th)).
    apply nth_error_Some. unfold sched_seed, index_list in H. congruence. }
  destruct (nth_error l n) as [th|] eqn:Hn; [eauto|].
  apply nth_error_None in Hn. lia.
Qed.

(* the chosen thread is runnable or yielded *)
Lemma seed_choice_sound l curr cur_th nx :
  nth_error l curr = Some cur_th ->
  seed_choice (sched_seed l curr cur_th) = Some nx ->
  exists th, nth_error l nx = Some th /\ is_runnable th || is_yield th = true.
Proof.
  intros Hc Hch. unfold seed_choice in Hch.
  destruct (find_index is_active (sched_seed l curr cur_th)) as [i|] eqn:Hfa.
  - injection Hch as ->.
    destruct (find_index_Some _ _ _ _ Hfa) as (st & Hst & Hact).
    apply tstat_eqb_eq in Hact. subst st.
    destruct (sched_seed_nth_inv _ _ _ _ _ Hst) as (th & Hth).
    destruct (sched_seed_nth l curr cur_th nx th Hth) as (st & Hst' & _ & Ha & _).
    assert (st = Active) by congruence. subst st.
    exists th. split; [exact Hth|].
    destruct (Ha eq_refl) as [Hi|[_ Hr]].
    + destruct (sched_initial_runnable _ _ _ _ Hc Hi) as (th' & Hth' & Hr).
      assert (th' = th) by congruence. subst th'. rewrite Hr. reflexivity.
    + rewrite Hr. reflexivity.
  - destruct (find_index_Some _ _ _ _ Hch) as (st & Hst & Hy).
    apply tstat_eqb_eq in Hy. subst st.
    destruct (sched_seed_nth_inv _ _ _ _ _ Hst) as (th & Hth).
    destruct (sched_seed_nth l curr cur_th nx th Hth) as (st & Hst' & [Hcl|Hcl] & _).
    + congruence.
    + assert (Hty : seed_class th = TYield) by congruence.
      exists th. split; [exact Hth|].
      unfold seed_class in Hty. destruct (is_yield th); [apply orb_true_r|].
      destruct (negb (is_runnable th)); discriminate.
Qed.

(* whenever a runnable thread exists, the seed has exactly one Active entry,
   it is a runnable (hence not a Yielded) thread, and it is the one chosen *)
Lemma yielder_not_first l curr cur_th :
  nth_error l curr = Some cur_th ->
  (exists th, In th l /\ is_runnable th = true) ->
  exists j th,
    sched_initial l curr cur_th = Some j /\
    nth_error l j = Some th /\ is_runnable th = true /\ is_yield th = false /\
    nth_error (sched_seed l curr cur_th) j = Some Active /\
    (forall n, nth_error (sched_seed l curr cur_th) n = Some Active -> n = j) /\
    seed_choice (sched_seed l curr cur_th) = Some j.
Proof.
  intros Hc (thr & Hin & Hrun).
  destruct (sched_initial l curr cur_th) as [j|] eqn:Hi.
  2:{ apply sched_initial_None in Hi. rewrite Forall_forall in Hi.
      specialize (Hi _ Hin). congruence. }
  destruct (sched_initial_runnable _ _ _ _ Hc Hi) as (th & Hth & Hr).
  assert (Hact : nth_error (sched_seed l curr cur_th) j = Some Active).
  { destruct (sched_seed_nth l curr cur_th j th Hth) as (st & Hst & _ & _ & Ha).
    rewrite Hi in Ha. rewrite (Ha eq_refl) in Hst. exact Hst. }
  assert (Huniq : forall n, nth_error (sched_seed l curr cur_th) n = Some Active -> n = j).
  { intros n Hn. destruct (sched_seed_nth_inv _ _ _ _ _ Hn) as (th' & Hth').
    destruct (sched_seed_nth l curr cur_th n th' Hth') as (st & Hst & _ & Ha & _).
    assert (st = Active) by congruence. subst st.
    rewrite Hi in Ha. destruct (Ha eq_refl) as [He|[He _]]; congruence. }
  exists j, th. repeat split; auto using runnable_not_yield.
  unfold seed_choice.
  destruct (find_index is_active (sched_seed l curr cur_th)) as [i|] eqn:Hfa.
  - destruct (find_index_Some _ _ _ _ Hfa) as (st & Hst & Hs).
    apply tstat_eqb_eq in Hs. subst st. f_equal. auto.
  - apply find_index_None in Hfa.
    pose proof (nth_error_In_Forall _ _ _ _ _ Hfa Hact) as Hf. discriminate Hf.
Qed.

(* no choice at all: no thread is runnable or yielded *)
Lemma seed_choice_None l curr cur_th :
  nth_error l curr = Some cur_th ->
  seed_choice (sched_seed l curr cur_th) = None ->
  Forall (fun t => is_runnable t = false /\ is_yield t = false) l.
Proof.
  intros Hc Hch.
  assert (Hnr : Forall (fun t => is_runnable t = false) l).
  { rewrite Forall_forall. intros th Hin.
    destruct (is_runnable th) eqn:Hr; [|reflexivity].
    destruct (yielder_not_first l curr cur_th Hc) as (j & _ & _ & _ & _ & _ & _ & _ & Hj);
      [eauto|congruence]. }
  unfold seed_choice in Hch.
  destruct (find_index is_active (sched_seed l curr cur_th)) eqn:Hfa; [discriminate|].
  apply find_index_None in Hfa. apply find_index_None in Hch.
  rewrite Forall_forall in *. intros th Hin. split; [auto|].
  destruct (In_nth_error _ _ Hin) as (n & Hn).
  destruct (sched_seed_nth l curr cur_th n th Hn) as (st & Hst & Hcl & _).
  apply nth_error_In in Hst.
  specialize (Hfa _ Hst). specialize (Hch _ Hst). specialize (Hnr _ Hin).
  destruct Hcl as [Hcl|Hcl]; subst st; [discriminate|].
  unfold seed_class in Hch. destruct (is_yield th); [discriminate|reflexivity].
Qed.

(* ================================================================== *)
(* schedule: inversion of its two interesting outcomes                 *)
(* ================================================================== *)

Lemma sched_prefix_choice e curr cur_th p1 p2 next :
  sched_prefix e curr cur_th p1 p2 next -> is_traversed (e_path e) = true ->
  next = seed_choice (sched_seed (e_threads e) curr cur_th).
Proof.
  intros (_ & _ & Hd & Hb) Htr.
  eapply branch_thread_traversed; [|eassumption].
  rewrite (dpor_loop_traversed _ _ _ _ Hd). exact Htr.
Qed.

Lemma sched_note_threads_neq e nx pid th i :
  i <> nx -> nth_error (e_threads (sched_note e nx pid th)) i = nth_error (e_threads e) i.
Proof.
  intros Hne. unfold sched_note. destruct (t_op th) as [op|]; [|reflexivity].
  destruct (nth_error (e_objects e) (op_obj op)); [|reflexivity].
  cbv zeta.
  match goal with
  | |- nth_error (e_threads (upd_object (upd_thread ?e0 ?n ?f) ?i0 ?g)) _ = _ =>
      change (e_threads (upd_object (upd_thread e0 n f) i0 g))
        with (list_upd (e_threads e0) n f)
  end.
  apply nth_error_list_upd_neq. exact Hne.
Qed.

(* schedule fails with a deadlock *)
Lemma schedule_deadlock_inv e e' st :
  fst (schedule e) = MFail e' (PanicDeadlock st) ->
  exists curr cur_th p1 p2,
    sched_prefix e curr cur_th p1 p2 None /\
    e' = sched_base e p2 None /\
    forallb is_terminated (e_threads e) = false /\
    st = map t_state (e_threads e).
Proof.
  intros H.
  destruct (schedule_cases e)
    as [(c & Hs)|[(x & Hs)|[(p1 & x & Hd & Hs)|(curr & cur_th & p1 & p2 & next & Hp & Hs)]]];
    rewrite Hs in H; try discriminate H.
  unfold sched_post in H. destruct next as [nx|].
  - destruct (nth_error _ _); discriminate H.
  - change (e_threads (sched_base e p2 None)) with (e_threads e) in H.
    destruct (forallb is_terminated (e_threads e)) eqn:Hall; [discriminate H|].
    cbn [fst] in H. injection H as <- <-.
    exists curr, cur_th, p1, p2. auto.
Qed.

(* schedule succeeds *)
Lemma schedule_ok_inv e e' :
  fst (schedule e) = MOk e' ->
  exists curr cur_th p1 p2 next,
    sched_prefix e curr cur_th p1 p2 next /\
    e_active e' = next /\ e_path e' = p2 /\
    match next with
    | None => e' = sched_base e p2 None /\ forallb is_terminated (e_threads e) = true
    | Some nx =>
        exists nth_,
          nth_error (e_threads e) nx = Some nth_ /\
          e_threads e' =
            reactivate nx (e_threads (sched_note (sched_base e p2 next) nx (pos p1) nth_))
    end.
Proof.
  intros H.
  destruct (schedule_cases e)
    as [(c & Hs)|[(x & Hs)|[(p1 & x & Hd & Hs)|(curr & cur_th & p1 & p2 & next & Hp & Hs)]]];
    rewrite Hs in H; try discriminate H.
  exists curr, cur_th, p1, p2, next. split; [exact Hp|].
  unfold sched_post in H. destruct next as [nx|].
  - change (e_threads (sched_base e p2 (Some nx))) with (e_threads e) in H.
    destruct (nth_error (e_threads e) nx) as [nth_|] eqn:Hn; [|discriminate H].
    cbn [fst] in H. injection H as <-.
    split; [apply sched_note_active|]. split; [apply sched_note_path|].
    exists nth_. split; reflexivity.
  - change (e_threads (sched_base e p2 None)) with (e_threads e) in H.
    destruct (forallb is_terminated (e_threads e)) eqn:Hall; [|discriminate H].
    cbn [fst] in H. injection H as <-. repeat split; reflexivity.
Qed.

(* ================================================================== *)
(* Part B: deadlock detection (C05)                                    *)
(* ================================================================== *)

Lemma schedule_deadlock_iff e e' st :
  fst (schedule e) = MFail e' (PanicDeadlock st) ->
  (exists t, In t (e_threads e') /\ is_terminated t = false) /\
  e_active e' = None /\
  st = map t_state (e_threads e').
Proof.
  intros H.
  destruct (schedule_deadlock_inv _ _ _ H) as (curr & cur_th & p1 & p2 & _ & -> & Hall & ->).
  split; [|split; reflexivity].
  apply forallb_false_ex in Hall. exact Hall.
Qed.

(* the verdict is right: on a traversed path, a deadlock is reported only when
   no thread is runnable or yielded (the state of the threads is the one before
   the call: up to the verdict, schedule changes only the path) *)
Lemma schedule_no_runnable e e' st :
  fst (schedule e) = MFail e' (PanicDeadlock st) ->
  is_traversed (e_path e) = true ->
  e_threads e' = e_threads e /\
  Forall (fun t => is_runnable t = false /\ is_yield t = false) (e_threads e).
Proof.
  intros H Htr.
  destruct (schedule_deadlock_inv _ _ _ H) as (curr & cur_th & p1 & p2 & Hp & -> & _ & _).
  split; [reflexivity|].
  pose proof (sched_prefix_choice _ _ _ _ _ _ Hp Htr) as Hch.
  destruct Hp as (_ & Hc & _ & _).
  eapply seed_choice_None; [exact Hc|]. symmetry. exact Hch.
Qed.

(* conversely, on a traversed path the chosen thread was runnable or yielded *)
Lemma schedule_picks_runnable e e' nx :
  fst (schedule e) = MOk e' -> e_active e' = Some nx ->
  is_traversed (e_path e) = true ->
  exists th, nth_error (e_threads e) nx = Some th /\ is_runnable th || is_yield th = true.
Proof.
  intros H Hact Htr.
  destruct (schedule_ok_inv _ _ H) as (curr & cur_th & p1 & p2 & next & Hp & Hnext & _).
  pose proof (sched_prefix_choice _ _ _ _ _ _ Hp Htr) as Hch.
  destruct Hp as (_ & Hc & _ & _).
  eapply seed_choice_sound; [exact Hc|]. congruence.
Qed.

(* a successful schedule that chooses nobody: every thread is terminated *)
Lemma schedule_done e e' :
  fst (schedule e) = MOk e' -> e_active e' = None ->
  e_threads e' = e_threads e /\ Forall (fun t => is_terminated t = true) (e_threads e).
Proof.
  intros H Hact.
  destruct (schedule_ok_inv _ _ H) as (curr & cur_th & p1 & p2 & next & _ & Hnext & _ & Hn).
  destruct next as [nx|]; [congruence|]. destruct Hn as [-> Hall].
  split; [reflexivity|]. rewrite Forall_forall. apply forallb_forall. exact Hall.
Qed.

(* ================================================================== *)
(* Part C: yield (C18)                                                 *)
(* ================================================================== *)

(* [yielder_not_first] is above (it is used for [seed_choice_None]). At the
   level of schedule: if the current thread has yielded and some thread is
   runnable, a runnable thread (hence another one) is chosen *)
Lemma schedule_yielder_not_chosen e e' curr cur_th :
  fst (schedule e) = MOk e' ->
  is_traversed (e_path e) = true ->
  e_active e = Some curr -> nth_error (e_threads e) curr = Some cur_th ->
  is_yield cur_th = true ->
  (exists th, In th (e_threads e) /\ is_runnable th = true) ->
  exists nx th,
    e_active e' = Some nx /\ nx <> curr /\
    nth_error (e_threads e) nx = Some th /\ is_runnable th = true.
Proof.
  intros H Htr Ha Hc Hy Hex.
  destruct (schedule_ok_inv _ _ H) as (curr' & cur_th' & p1 & p2 & next & Hp & Hnext & _).
  pose proof (sched_prefix_choice _ _ _ _ _ _ Hp Htr) as Hch.
  destruct Hp as (Ha' & Hc' & _ & _).
  assert (curr' = curr) by congruence. subst curr'.
  assert (cur_th' = cur_th) by congruence. subst cur_th'.
  destruct (yielder_not_first _ _ _ Hc Hex) as (j & th & _ & Hth & Hr & Hny & _ & _ & Hj).
  exists j, th. split; [congruence|]. split; [|auto].
  intros ->. congruence.
Qed.

Lemma nth_error_reactivate nx l i :
  nth_error (reactivate nx l) i =
  option_map (fun th => if is_yield th && negb (Nat.eqb i nx) then set_runnable th else th)
             (nth_error l i).
Proof. unfold reactivate, mapi. rewrite nth_error_mapi_from. reflexivity. Qed.

(* every thread that was Yielded and is not the chosen one is Runnable again *)
Lemma yield_reactivated e e' i th :
  fst (schedule e) = MOk e' ->
  nth_error (e_threads e) i = Some th -> is_yield th = true ->
  e_active e' <> Some i ->
  nth_error (e_threads e') i = Some (set_runnable th) /\
  t_state (set_runnable th) = Runnable.
Proof.
  intros H Hth Hy Hne. split; [|reflexivity].
  destruct (schedule_ok_inv _ _ H) as (curr & cur_th & p1 & p2 & next & _ & Hnext & _ & Hn).
  destruct next as [nx|].
  - destruct Hn as (nth_ & _ & ->).
    assert (Hi : i <> nx) by congruence.
    rewrite nth_error_reactivate, sched_note_threads_neq by exact Hi.
    change (e_threads (sched_base e p2 (Some nx))) with (e_threads e).
    rewrite Hth. cbn [option_map]. rewrite Hy.
    apply Nat.eqb_neq in Hi. rewrite Hi. reflexivity.
  - destruct Hn as [_ Hall]. exfalso.
    rewrite forallb_forall in Hall. specialize (Hall _ (nth_error_In _ _ Hth)).
    unfold is_terminated in Hall. unfold is_yield in Hy. destruct (t_state th); discriminate.
Qed.

(* the other threads keep their state *)
Lemma schedule_keeps_state e e' i th :
  fst (schedule e) = MOk e' ->
  nth_error (e_threads e) i = Some th -> is_yield th = false ->
  exists th', nth_error (e_threads e') i = Some th' /\ t_state th' = t_state th.
Proof.
  intros H Hth Hy.
  destruct (schedule_ok_inv _ _ H) as (curr & cur_th & p1 & p2 & next & _ & Hnext & _ & Hn).
  destruct next as [nx|].
  - destruct Hn as (nth_ & Hnx & ->). rewrite nth_error_reactivate.
    destruct (Nat.eq_dec i nx) as [->|Hi].
    + assert (Hs : exists th', nth_error (e_threads (sched_note (sched_base e p2 (Some nx))
                                                    nx (pos p1) nth_)) nx = Some th' /\
                               t_state th' = t_state th).
      { unfold sched_note. destruct (t_op nth_) as [op|]; [|eauto].
        destruct (nth_error _ (op_obj op)); [|eauto]. cbv zeta.
        match goal with
        | |- exists _, nth_error (e_threads (upd_object (upd_thread ?e0 ?n ?f) ?i0 ?g)) _ = _ /\ _ =>
            change (e_threads (upd_object (upd_thread e0 n f) i0 g))
              with (list_upd (e_threads e) n f)
        end.
        unfold list_upd. rewrite Hth.
        assert (Hlt : nx < length (e_threads e)) by (apply nth_error_Some; congruence).
        rewrite nth_error_list_set_eq by exact Hlt.
        eexists; split; reflexivity. }
      destruct Hs as (th' & -> & Hst). cbn [option_map].
      assert (Hy' : is_yield th' = false) by (unfold is_yield in *; rewrite Hst; exact Hy).
      rewrite Hy'. cbn [andb]. eauto.
    + rewrite sched_note_threads_neq by exact Hi.
      change (e_threads (sched_base e p2 (Some nx))) with (e_threads e).
      rewrite Hth. cbn [option_map]. rewrite Hy. cbn [andb]. eauto.
  - destruct Hn as [-> _]. eauto.
Qed.

Print Assumptions iteration_path_ok.
Print Assumptions L_iter_ok.
Print Assumptions L_preemptions_le_bound.
Print Assumptions schedule_deadlock_iff.
Print Assumptions check_for_leaks_first.
