(* CondvarFacts: rt::Condvar (Condvar::wait / notify_one / notify_all).
   Condvar::wait(c, m) is  MWait c m  =  [MBranch c AOpaque BNever; MCvWait c m;
   MPark; MBranch m AOpaque BMutexLocked; MLockPost m LMReacquire]:
   register at the back of c's waiter queue and release m (MCvWait), park
   through rt::park (ParkFacts), re-acquire m.  notify_one / notify_all pop the
   front / all waiters and call Set::unpark on them.

   Contents
     0. get_cv; ckeep c e e' (the waiter queue of condvar c is unchanged), its
        framing lemmas for every helper of Ops.v and for schedule;
        exec_micro_ckeep: one tactic for all micro-operations other than
        MCvWait c _ / MCvNotify c _ ([destruct m; ck_tac], as
        NotifyFacts.exec_micro_nkeep)
     1. B.1 exact step lemmas: exec_micro_wait_held / _not_held,
        exec_micro_cvwait, exec_micro_cvnotify_one_empty / _one_cons / _all,
        cvwait_effect (queue, mutex, threads)
     2. B.2 cv_queue_step_shape (all micro-operations), reg / cv_waiter_registered,
        reg_persists, tsteps_reg_persists
     3. B.3 notify_one_wakes_front, notify_one_empty_noop,
        notify_before_wait_is_lost, notify_all_wakes_all
     4. B.4 cv_wait_returns_only_after_notify (+ sequences), cv_wait_parks,
        cv_no_lost_wakeup (notify between registration and park),
        cv_waiter_reacquires, wait_continuation, the happens-before edges
        cv_wakeup_hb (through the unpark) and cv_reacquire_hb (through the mutex)
     5. counterexamples / findings (vm_compute): unpark_satisfies_condvar_wait,
        unpark_condvar_early_return, stale_waiter_entry

   DEVIATIONS from the requested statements: see the end of the file. *)
Require Import LV.Base LV.VV LV.VVFacts LV.Path LV.PathSpec LV.PathApi LV.Prog LV.Objects
               LV.Exec LV.Atomic LV.Ops LV.Check LV.SyncFacts LV.ExecFacts LV.SyncMono
               LV.NotifyFacts LV.ParkFacts.
From Coq Require Import List Arith Lia Bool.
Import ListNotations.

(* ================================================================== *)
(* 0. The waiter queue of one condvar, under all micro-operations      *)
(* ================================================================== *)

Definition get_cv (e : exec) (c : nat) : option condvar_state :=
  match nth_error (e_objects e) c with Some (OCondvar s) => Some s | _ => None end.

Lemma get_cv_nth e c s : get_cv e c = Some s -> nth_error (e_objects e) c = Some (OCondvar s).
Proof. unfold get_cv. destruct (nth_error (e_objects e) c) as [[]|]; congruence. Qed.

Lemma nth_get_cv e c s : nth_error (e_objects e) c = Some (OCondvar s) -> get_cv e c = Some s.
Proof. unfold get_cv. intros ->. reflexivity. Qed.

Lemma get_cv_objects_eq e1 e2 c : e_objects e1 = e_objects e2 -> get_cv e1 c = get_cv e2 c.
Proof. unfold get_cv. intros ->. reflexivity. Qed.

(* what a write to an object slot must satisfy *)
Definition ocv (o o' : object) : Prop :=
  match o with
  | OCondvar s => exists s', o' = OCondvar s' /\ cv_waiters s' = cv_waiters s
  | _ => True
  end.

Lemma ocv_refl o : ocv o o.
Proof. destruct o; cbn [ocv]; auto. eexists; split; reflexivity. Qed.

Definition ckeep (c : nat) (e e' : exec) : Prop :=
  forall s, get_cv e c = Some s ->
    exists s', get_cv e' c = Some s' /\ cv_waiters s' = cv_waiters s.

Lemma ckeep_refl c e : ckeep c e e.
Proof. intros s Hs. exists s. auto. Qed.

Lemma ckeep_trans c e1 e2 e3 : ckeep c e1 e2 -> ckeep c e2 e3 -> ckeep c e1 e3.
Proof.
  intros H12 H23 s Hs. destruct (H12 s Hs) as (s2 & Hs2 & E2).
  destruct (H23 s2 Hs2) as (s3 & Hs3 & E3). exists s3. split; [exact Hs3|congruence].
Qed.

Lemma ckeep_k c e0 e e' : ckeep c e e' -> ckeep c e0 e -> ckeep c e0 e'.
Proof. intros H1 H0. eapply ckeep_trans; eassumption. Qed.

Lemma ckeep_same c e e' : e_objects e' = e_objects e -> ckeep c e e'.
Proof. intros Ho s Hs. exists s. split; [|reflexivity]. rewrite (get_cv_objects_eq e' e c Ho). exact Hs. Qed.

Lemma ckeep_same_k c e0 e e' : e_objects e' = e_objects e -> ckeep c e0 e -> ckeep c e0 e'.
Proof. intros Ho. apply ckeep_k, ckeep_same, Ho. Qed.

Lemma ckeep_append c e l : ckeep c e (ex_set_objects e (e_objects e ++ l)).
Proof.
  intros s Hs. exists s. split; [|reflexivity].
  apply get_cv_nth in Hs. unfold get_cv.
  change (e_objects (ex_set_objects e (e_objects e ++ l))) with (e_objects e ++ l).
  rewrite nth_error_app1; [rewrite Hs; reflexivity|]. apply nth_error_Some. congruence.
Qed.

Lemma ckeep_append_k c e0 e l :
  ckeep c e0 e -> ckeep c e0 (ex_set_objects e (e_objects e ++ l)).
Proof. apply ckeep_k, ckeep_append. Qed.

Lemma ckeep_upd_object c e i f :
  (forall o, nth_error (e_objects e) i = Some o -> ocv o (f o)) ->
  ckeep c e (upd_object e i f).
Proof.
  intros Hf s Hs. pose proof (get_cv_nth _ _ _ Hs) as Hn.
  destruct (Nat.eq_dec i c) as [->|Hne].
  - specialize (Hf _ Hn). cbn [ocv] in Hf. destruct Hf as (s' & Hfs & E).
    exists s'. split; [|exact E].
    unfold get_cv. rewrite nth_error_objects_upd_same, Hn. cbn [option_map].
    rewrite Hfs. reflexivity.
  - exists s. split; [|reflexivity].
    unfold get_cv. rewrite nth_error_objects_upd_other by exact Hne. rewrite Hn. reflexivity.
Qed.

Lemma ckeep_upd_object_k c e0 e i o' :
  (forall o, nth_error (e_objects e) i = Some o -> ocv o o') ->
  ckeep c e0 e -> ckeep c e0 (upd_object e i (fun _ => o')).
Proof. intros Hf. apply ckeep_k, ckeep_upd_object, Hf. Qed.

Lemma ckeep_upd_other c e i f : i <> c -> ckeep c e (upd_object e i f).
Proof.
  intros Hne s Hs. exists s. split; [|reflexivity].
  apply get_cv_nth in Hs.
  unfold get_cv. rewrite nth_error_objects_upd_other by exact Hne. rewrite Hs. reflexivity.
Qed.

Lemma ocv_set_last_access o act tid pid v : ocv o (set_last_access o act tid pid v).
Proof.
  destruct o; cbn [ocv]; auto. cbn [set_last_access].
  eexists; split; reflexivity.
Qed.

Lemma ckeep_sched_note_k c e0 e nx pid th :
  ckeep c e0 e -> ckeep c e0 (sched_note e nx pid th).
Proof.
  apply ckeep_k. unfold sched_note. destruct (t_op th) as [op|]; [|apply ckeep_refl].
  destruct (nth_error (e_objects e) (op_obj op)) as [o|]; [|apply ckeep_refl].
  cbv zeta.
  match goal with |- ckeep _ _ (upd_object ?E _ _) => apply (ckeep_trans c _ E) end.
  - apply ckeep_same. reflexivity.
  - apply ckeep_upd_object. intros o' _. apply ocv_set_last_access.
Qed.

Lemma schedule_ckeep c e : ckeep c e (res_exec (fst (schedule e))).
Proof.
  destruct (schedule_cases e)
    as [(x & ->)|[(x & ->)|[(p1 & x & Hd & ->)|(curr & cur_th & p1 & p2 & next & Hp & ->)]]];
    cbn [fst res_exec]; try apply ckeep_refl.
  - apply ckeep_same. reflexivity.
  - assert (Hb : ckeep c e (sched_base e p2 next)) by (apply ckeep_same; reflexivity).
    revert Hb. generalize (sched_base e p2 next). intros e1 Hb.
    unfold sched_post. destruct next as [nx|].
    + destruct (nth_error (e_threads e1) nx) as [th|]; cbn [fst res_exec]; [|exact Hb].
      eapply ckeep_same_k; [reflexivity|]. apply ckeep_sched_note_k, Hb.
    + destruct (forallb is_terminated (e_threads e1)); cbn [fst res_exec]; exact Hb.
Qed.

Lemma schedule_ckeep_k c e0 e : ckeep c e0 e -> ckeep c e0 (res_exec (fst (schedule e))).
Proof. apply ckeep_k, schedule_ckeep. Qed.

Lemma do_branch_ckeep_k c e0 e me obj act blk :
  ckeep c e0 e -> ckeep c e0 (res_exec (do_branch e me obj act blk)).
Proof.
  intros H. unfold do_branch. apply schedule_ckeep_k. eapply ckeep_same_k; [reflexivity|exact H].
Qed.

Lemma do_park_ckeep_k c e0 e me : ckeep c e0 e -> ckeep c e0 (res_exec (do_park e me)).
Proof.
  intros H. unfold do_park. destruct (get_thread e me) as [t|]; [|exact H].
  destruct (t_token t); cbn [res_exec].
  - eapply ckeep_same_k; [reflexivity|exact H].
  - apply schedule_ckeep_k. eapply ckeep_same_k; [reflexivity|exact H].
Qed.

Lemma do_yield_ckeep_k c e0 e me : ckeep c e0 e -> ckeep c e0 (res_exec (do_yield e me)).
Proof.
  intros H. unfold do_yield. apply schedule_ckeep_k. eapply ckeep_same_k; [reflexivity|exact H].
Qed.

Ltac ocv_const Hg :=
  let o := fresh "o" in let Ho := fresh "Ho" in
  intros o Ho; rewrite Hg in Ho; injection Ho as <-; exact I.

Lemma release_lock_ckeep_k c e0 e me m : ckeep c e0 e -> ckeep c e0 (release_lock e me m).
Proof.
  intros H. unfold release_lock. destruct (get_mutex e m) as [s|] eqn:Hg; [|exact H].
  apply get_mutex_nth in Hg. cbv zeta.
  match goal with |- ckeep _ _ (match e_active ?E with _ => _ end) =>
    assert (H1 : ckeep c e0 E) end.
  { apply ckeep_upd_object_k; [ocv_const Hg|exact H]. }
  destruct (e_active _); [|exact H1].
  eapply ckeep_same_k; [reflexivity|]. apply ckeep_upd_object_k; [|exact H1].
  intros o Ho. rewrite nth_error_objects_upd_same, Hg in Ho. cbn [option_map] in Ho.
  injection Ho as <-. exact I.
Qed.

Lemma post_acquire_ckeep c e me m : ckeep c e (fst (post_acquire e me m)).
Proof.
  unfold post_acquire. destruct (get_mutex e m) as [s|] eqn:Hg; [|apply ckeep_refl].
  apply get_mutex_nth in Hg. destruct (is_some (mx_lock s)); cbn [fst]; [apply ckeep_refl|].
  eapply ckeep_same_k; [reflexivity|]. eapply ckeep_same_k; [reflexivity|].
  apply ckeep_upd_object_k; [ocv_const Hg|apply ckeep_refl].
Qed.

Lemma post_acquire_read_ckeep c e me r : ckeep c e (fst (post_acquire_read e me r)).
Proof.
  unfold post_acquire_read. destruct (get_rw e r) as [s|] eqn:Hg; [|apply ckeep_refl].
  apply get_rw_nth in Hg.
  destruct (rw_lock s) as [[rs|x]|]; cbn [fst]; try apply ckeep_refl.
  all: eapply ckeep_same_k; [reflexivity|]; eapply ckeep_same_k; [reflexivity|];
    apply ckeep_upd_object_k; [ocv_const Hg|apply ckeep_refl].
Qed.

Lemma post_acquire_write_ckeep c e me r : ckeep c e (fst (post_acquire_write e me r)).
Proof.
  unfold post_acquire_write. destruct (get_rw e r) as [s|] eqn:Hg; [|apply ckeep_refl].
  apply get_rw_nth in Hg.
  destruct (rw_lock s) as [lk|]; cbn [fst]; try apply ckeep_refl.
  eapply ckeep_same_k; [reflexivity|]; eapply ckeep_same_k; [reflexivity|];
    apply ckeep_upd_object_k; [ocv_const Hg|apply ckeep_refl].
Qed.

Lemma release_read_ckeep c e me r : ckeep c e (res_exec (release_read e me r)).
Proof.
  unfold release_read. destruct (get_rw e r) as [s|] eqn:Hg; [|apply ckeep_refl].
  apply get_rw_nth in Hg. cbv zeta.
  destruct (rw_lock s) as [[rs|x]|]; cbn [res_exec]; try apply ckeep_refl.
  destruct (set_remove me rs); cbn [res_exec].
  - eapply ckeep_same_k; [reflexivity|]. apply ckeep_upd_object_k; [ocv_const Hg|apply ckeep_refl].
  - apply ckeep_upd_object_k; [ocv_const Hg|apply ckeep_refl].
Qed.

Lemma release_write_ckeep c e me r : ckeep c e (res_exec (release_write e me r)).
Proof.
  unfold release_write. destruct (get_rw e r) as [s|] eqn:Hg; [|apply ckeep_refl].
  apply get_rw_nth in Hg. cbn [res_exec].
  eapply ckeep_same_k; [reflexivity|]. apply ckeep_upd_object_k; [ocv_const Hg|apply ckeep_refl].
Qed.

Lemma choose_store_ckeep c e seed : ckeep c e (fst (choose_store e seed)).
Proof. destruct (choose_store_frame e seed) as (_ & H2 & _). apply ckeep_same. exact H2. Qed.

Ltac cside_obj :=
  let o := fresh "o" in
  let Ho := fresh "Ho" in
  intros o Ho; conv_hyps; autorewrite with eobj in *;
  try match goal with
      | Hco : e_objects ?e1 = e_objects _ |- _ => rewrite Hco in Ho
      end;
  match goal with
  | Hg : nth_error ?l ?i = Some _, Ho' : nth_error ?l ?i = Some o |- _ =>
      rewrite Hg in Ho'; injection Ho' as Ho'; subst o
  end;
  cbn [ocv];
  first [ exact I | eexists; split; reflexivity ].

Ltac cclose_step :=
  match goal with
  | |- ckeep _ ?e ?e => apply ckeep_refl
  | H : ckeep ?c ?E ?x |- ckeep ?c _ ?x => apply (ckeep_trans c _ E x); [|exact H]
  | |- ckeep _ _ (ex_set_objects ?e (e_objects ?e ++ _)) => apply ckeep_append_k
  | |- ckeep _ _ (release_lock _ _ _) => apply release_lock_ckeep_k
  | |- ckeep _ _ (upd_object _ _ _) => apply ckeep_upd_object_k; [cside_obj|]
  | |- ckeep _ _ (log_op ?e _ _) => apply (ckeep_same_k _ _ e); [eobj_tac|]
  | |- ckeep _ _ (log_poll ?e _) => apply (ckeep_same_k _ _ e); [eobj_tac|]
  | |- ckeep _ _ (push_cont ?e _ _) => apply (ckeep_same_k _ _ e); [eobj_tac|]
  | |- ckeep _ _ (push_guard ?e _ _ _) => apply (ckeep_same_k _ _ e); [eobj_tac|]
  | |- ckeep _ _ (drop_guard ?e _ _ _) => apply (ckeep_same_k _ _ e); [eobj_tac|]
  | |- ckeep _ _ (causality_inc ?e _) => apply (ckeep_same_k _ _ e); [eobj_tac|]
  | |- ckeep _ _ (set_slot ?e _ _ _) => apply (ckeep_same_k _ _ e); [eobj_tac|]
  | |- ckeep _ _ (threads_unpark ?e _ _) => apply (ckeep_same_k _ _ e); [eobj_tac|]
  | |- ckeep _ _ (fold_left _ _ ?e) => apply (ckeep_same_k _ _ e); [eobj_tac|]
  | |- ckeep _ _ (ex_set_path ?e _) => apply (ckeep_same_k _ _ e); [eobj_tac|]
  | |- ckeep _ _ (ex_set_active ?e _) => apply (ckeep_same_k _ _ e); [eobj_tac|]
  | |- ckeep _ _ (ex_set_seqcst ?e _) => apply (ckeep_same_k _ _ e); [eobj_tac|]
  | |- ckeep _ _ (ex_set_spawned ?e _) => apply (ckeep_same_k _ _ e); [eobj_tac|]
  | |- ckeep _ _ (ex_set_joined ?e _) => apply (ckeep_same_k _ _ e); [eobj_tac|]
  | |- ckeep _ _ (ex_set_log ?e _) => apply (ckeep_same_k _ _ e); [eobj_tac|]
  | |- ckeep _ _ (ex_set_lazy ?e _) => apply (ckeep_same_k _ _ e); [eobj_tac|]
  | |- ckeep _ _ (ex_set_threads ?e _) => apply (ckeep_same_k _ _ e); [eobj_tac|]
  | |- ckeep _ _ (ex_set_h ?e _) => apply (ckeep_same_k _ _ e); [eobj_tac|]
  | |- ckeep _ _ (upd_thread ?e _ _) => apply (ckeep_same_k _ _ e); [eobj_tac|]
  | |- ckeep _ _ (upd_hobj ?e _ _) => apply (ckeep_same_k _ _ e); [eobj_tac|]
  | |- ckeep _ _ (set_caus ?e _ _) => apply (ckeep_same_k _ _ e); [eobj_tac|]
  | |- ckeep _ _ (map_others ?e _ _ _) => apply (ckeep_same_k _ _ e); [eobj_tac|]
  end.

Ltac cclose :=
  cbn [res_exec lp_exec];
  rewrite ?upd_object_map_others_upd_object_const, ?upd_object_upd_object_const;
  repeat cclose_step.

Ltac cstep :=
  match goal with
  | |- ckeep _ _ (res_exec (fst (schedule _))) => apply schedule_ckeep_k
  | |- ckeep _ _ (res_exec (do_branch _ _ _ _ _)) => apply do_branch_ckeep_k
  | |- ckeep _ _ (res_exec (do_park _ _)) => apply do_park_ckeep_k
  | |- ckeep _ _ (res_exec (do_yield _ _)) => apply do_yield_ckeep_k
  | |- ckeep ?c _ ?G =>
      match G with
      | context [post_acquire ?e ?me ?m] =>
          let H := fresh "Hfr" in
          pose proof (post_acquire_ckeep c e me m) as H;
          destruct (post_acquire e me m); cbn [fst] in H
      | context [post_acquire_read ?e ?me ?m] =>
          let H := fresh "Hfr" in
          pose proof (post_acquire_read_ckeep c e me m) as H;
          destruct (post_acquire_read e me m); cbn [fst] in H
      | context [post_acquire_write ?e ?me ?m] =>
          let H := fresh "Hfr" in
          pose proof (post_acquire_write_ckeep c e me m) as H;
          destruct (post_acquire_write e me m); cbn [fst] in H
      | context [release_read ?e ?me ?m] =>
          let H := fresh "Hfr" in
          pose proof (release_read_ckeep c e me m) as H;
          destruct (release_read e me m); cbn [res_exec] in H
      | context [release_write ?e ?me ?m] =>
          let H := fresh "Hfr" in
          pose proof (release_write_ckeep c e me m) as H;
          destruct (release_write e me m); cbn [res_exec] in H
      | context [choose_store ?e ?s] =>
          let H := fresh "Hfr" in
          let Hct := fresh "Hct" in
          let Hco := fresh "Hco" in
          pose proof (choose_store_ckeep c e s) as H;
          destruct (choose_store_frame e s) as (Hct & Hco & _);
          destruct (choose_store e s) as [? [?|?]]; cbn [fst] in H, Hct, Hco
      end
  | |- context [match ?x with _ => _ end] =>
      lazymatch x with
      | context [match _ with _ => _ end] => fail
      | _ => destruct x eqn:?
      end
  end; cbv beta iota.

Lemma load_post_ckeep c e me a o : ckeep c e (lp_exec (load_post e me a o)).
Proof. unfold load_post. repeat cstep. all: cclose. Qed.

Ltac cstep' :=
  first [ match goal with
          | |- ckeep ?c _ ?G =>
              match G with
              | context [load_post ?e ?me ?a ?o] =>
                  let H := fresh "Hfr" in
                  pose proof (load_post_ckeep c e me a o) as H;
                  destruct (load_post e me a o) as [[? ?]|[? ?]]; cbn [lp_exec] in H; cbv beta iota
              end
          end
        | cstep ].

Ltac ck_tac :=
  cbn [exec_micro]; unfold lift_path, mbind; cbv beta iota;
  repeat cstep'; cclose.

Lemma track_ok_not_cv e k s :
  track_ok e -> ho_track (get_h e k) = true -> get_cv e k = Some s -> False.
Proof.
  intros [_ Htr] Hk Hs. apply get_cv_nth in Hs.
  destruct (Htr k _ Hk Hs) as [d Hd]. discriminate Hd.
Qed.

(* every micro-operation other than a registration on c (MCvWait c _) and a
   notify on c (MCvNotify c _) leaves the waiter queue of c alone; also for the
   state carried by a panic.  [track_ok] is needed for MTrackDrop only. *)
Lemma exec_micro_ckeep c e me m :
  track_ok e -> (forall mx, m <> MCvWait c mx) -> (forall all, m <> MCvNotify c all) ->
  ckeep c e (res_exec (exec_micro e me m)).
Proof.
  intros Htr Hw Hn.
  destruct m;
    try match goal with
        | |- ckeep _ _ (res_exec (exec_micro _ _ (MCvWait _ _))) => idtac
        | |- ckeep _ _ (res_exec (exec_micro _ _ (MCvNotify _ _))) => idtac
        | |- ckeep _ _ (res_exec (exec_micro _ _ (MTrackDrop _))) => idtac
        | |- _ => clear Htr Hw Hn; ck_tac
        end.
  - (* MCvWait c0 m, c0 <> c *)
    assert (Hne : c0 <> c) by (intros ->; apply (Hw m); reflexivity).
    cbn [exec_micro].
    destruct (nth_error (e_objects e) c0) as [[| | | |s0| | | |]|]; cbn [res_exec]; try apply ckeep_refl.
    apply release_lock_ckeep_k. apply ckeep_upd_other. exact Hne.
  - (* MCvNotify c0 all, c0 <> c *)
    assert (Hne : c0 <> c) by (intros ->; apply (Hn all); reflexivity).
    cbn [exec_micro].
    destruct (nth_error (e_objects e) c0) as [[| | | |s0| | | |]|]; cbn [res_exec]; try apply ckeep_refl.
    destruct all.
    + eapply ckeep_same_k; [apply e_objects_log_op|].
      eapply ckeep_same_k; [apply e_objects_fold_unpark|]. apply ckeep_upd_other. exact Hne.
    + destruct (cv_waiters s0) as [|w rest]; cbn [res_exec].
      * apply ckeep_same. apply e_objects_log_op.
      * eapply ckeep_same_k; [apply e_objects_log_op|].
        eapply ckeep_same_k; [apply e_objects_threads_unpark|]. apply ckeep_upd_other. exact Hne.
  - (* MTrackDrop k *)
    cbn [exec_micro]. destruct (ho_track (get_h e k)) eqn:Hk; cbn [res_exec].
    + eapply ckeep_same_k; [apply e_objects_log_op|].
      destruct (Nat.eq_dec k c) as [->|Hne].
      * intros s Hs. destruct (track_ok_not_cv _ _ _ Htr Hk Hs).
      * eapply ckeep_trans; [|apply ckeep_upd_other; exact Hne]. apply ckeep_same. reflexivity.
    + apply ckeep_same. apply e_objects_log_op.
Qed.

(* ================================================================== *)
(* 1. B.1: exact step lemmas                                           *)
(* ================================================================== *)

(* the continuation of Condvar::wait(c, m) *)
Definition wait_cont (c m : nat) : list micro :=
  [MBranch c AOpaque BNever; MCvWait c m; MPark; MBranch m AOpaque BMutexLocked;
   MLockPost m LMReacquire].

Lemma exec_micro_wait_held e me c m :
  holds_guard e me GMutex m = true ->
  exec_micro e me (MWait c m) = MOk (push_cont e me (wait_cont c m)).
Proof. intros H. cbn [exec_micro]. rewrite H. reflexivity. Qed.

Lemma exec_micro_wait_not_held e me c m :
  holds_guard e me GMutex m = false ->
  exec_micro e me (MWait c m) = MOk (log_op e me RX).
Proof. intros H. cbn [exec_micro]. rewrite H. reflexivity. Qed.

(* the thread's continuation after MWait, literally *)
Lemma wait_continuation e me c m t :
  holds_guard e me GMutex m = true -> get_thread e me = Some t ->
  exists e', exec_micro e me (MWait c m) = MOk e' /\
    get_thread e' me = Some (th_set_cont t (wait_cont c m ++ t_cont t)) /\
    e_objects e' = e_objects e.
Proof.
  intros H Ht. eexists. split; [apply exec_micro_wait_held, H|]. split; [|reflexivity].
  unfold push_cont. rewrite get_thread_upd_thread_same, Ht. reflexivity.
Qed.

(* registration: push the thread at the back of the queue, release the mutex *)
Definition cv_registered (e : exec) (c me : nat) (s : condvar_state) : exec :=
  upd_object e c (fun _ => OCondvar (mkCv (cv_last s) (cv_waiters s ++ [me]))).

Lemma exec_micro_cvwait e me c m s :
  get_cv e c = Some s ->
  exec_micro e me (MCvWait c m) = MOk (release_lock (cv_registered e c me s) me m).
Proof. intros H. cbn [exec_micro]. rewrite (get_cv_nth _ _ _ H). reflexivity. Qed.

Lemma exec_micro_cvwait_none e me c m :
  get_cv e c = None -> exec_micro e me (MCvWait c m) = MFail e (PanicModel 17).
Proof.
  unfold get_cv. intros H. cbn [exec_micro].
  destruct (nth_error (e_objects e) c) as [[]|]; try reflexivity. discriminate H.
Qed.

Lemma exec_micro_cvnotify_one_empty e a c s :
  get_cv e c = Some s -> cv_waiters s = [] ->
  exec_micro e a (MCvNotify c false) = MOk (log_op e a RUnit).
Proof. intros H Hq. cbn [exec_micro]. rewrite (get_cv_nth _ _ _ H), Hq. reflexivity. Qed.

Lemma exec_micro_cvnotify_one_cons e a c s w rest :
  get_cv e c = Some s -> cv_waiters s = w :: rest ->
  exec_micro e a (MCvNotify c false) =
  MOk (log_op (threads_unpark (upd_object e c (fun _ => OCondvar (mkCv (cv_last s) rest))) a w) a RUnit).
Proof. intros H Hq. cbn [exec_micro]. rewrite (get_cv_nth _ _ _ H), Hq. reflexivity. Qed.

Lemma exec_micro_cvnotify_all e a c s :
  get_cv e c = Some s ->
  exec_micro e a (MCvNotify c true) =
  MOk (log_op (fold_left (fun e t => threads_unpark e a t) (cv_waiters s)
                 (upd_object e c (fun _ => OCondvar (mkCv (cv_last s) [])))) a RUnit).
Proof. intros H. cbn [exec_micro]. rewrite (get_cv_nth _ _ _ H). reflexivity. Qed.

Lemma exec_micro_cvnotify_none e a c all :
  get_cv e c = None -> exec_micro e a (MCvNotify c all) = MFail e (PanicModel 17).
Proof.
  unfold get_cv. intros H. cbn [exec_micro].
  destruct (nth_error (e_objects e) c) as [[]|]; try reflexivity. discriminate H.
Qed.

Lemma get_cv_upd_const e c o s' :
  nth_error (e_objects e) c = Some o -> get_cv (upd_object e c (fun _ => OCondvar s')) c = Some s'.
Proof. intros H. unfold get_cv. rewrite nth_error_objects_upd_same, H. reflexivity. Qed.

Lemma release_lock_get_cv e me m c : forall s,
  get_cv e c = Some s -> exists s', get_cv (release_lock e me m) c = Some s' /\
    cv_waiters s' = cv_waiters s /\ cv_last s' = cv_last s.
Proof.
  intros s Hs. pose proof (get_cv_nth _ _ _ Hs) as Hn.
  unfold release_lock. destruct (get_mutex e m) as [sm|] eqn:Hg; [|eauto].
  apply get_mutex_nth in Hg. cbv zeta.
  assert (Hne : m <> c) by (intros ->; congruence).
  assert (H1 : forall o, get_cv (upd_object e m (fun _ => o)) c = Some s).
  { intros o. unfold get_cv. rewrite nth_error_objects_upd_other by exact Hne. rewrite Hn. reflexivity. }
  rewrite e_active_upd_object. destruct (e_active e); [|eauto].
  exists s. split; [|auto].
  rewrite (get_cv_objects_eq _ _ c (e_objects_map_others _ _ _ _)).
  unfold get_cv. rewrite nth_error_objects_upd_other by exact Hne.
  rewrite nth_error_objects_upd_other by exact Hne. rewrite Hn. reflexivity.
Qed.

Lemma release_lock_threads e me m j t :
  get_thread e j = Some t ->
  exists t', get_thread (release_lock e me m) j = Some t' /\
    (t' = t \/ (j <> me /\ pending_on m t = true /\ t' = set_runnable t)).
Proof.
  intros Ht. unfold release_lock. destruct (get_mutex e m) as [sm|]; [|eauto].
  cbv zeta. rewrite e_active_upd_object. destruct (e_active e); [|eauto].
  rewrite get_thread_map_others.
  change (get_thread (upd_object (upd_object e m (fun _ => OMutex (mkMutex (mx_seqcst sm) None (mx_last sm) (mx_sync sm)))) m _) j)
    with (get_thread e j).
  rewrite Ht. cbn [option_map].
  destruct (Nat.eqb j me) eqn:E; cbn [negb andb]; [eauto|].
  destruct (pending_on m t) eqn:Hp; [|eauto].
  eexists; split; [reflexivity|]. right. apply Nat.eqb_neq in E. auto.
Qed.

(* MCvWait, exactly: the queue, the mutex, the threads *)
Theorem cvwait_effect : forall e me c m s e',
  get_cv e c = Some s -> exec_micro e me (MCvWait c m) = MOk e' ->
  (exists s', get_cv e' c = Some s' /\ cv_waiters s' = cv_waiters s ++ [me] /\ cv_last s' = cv_last s) /\
  get_thread e' me = get_thread e me /\
  (forall j t, get_thread e j = Some t ->
     exists t', get_thread e' j = Some t' /\
       (t' = t \/ (j <> me /\ pending_on m t = true /\ t' = set_runnable t))) /\
  (forall sm, get_mutex e m = Some sm -> e_active e <> None ->
     exists sm', get_mutex e' m = Some sm' /\ mx_lock sm' = None /\
                 vle (caus_of e me) (mx_sync sm') /\ vle (mx_sync sm) (mx_sync sm')).
Proof.
  intros e me c m s e' Hs Hx. rewrite (exec_micro_cvwait e me c m s Hs) in Hx. injection Hx as <-.
  pose proof (get_cv_nth _ _ _ Hs) as Hn.
  assert (Hr : get_cv (cv_registered e c me s) c = Some (mkCv (cv_last s) (cv_waiters s ++ [me])))
    by (eapply get_cv_upd_const; exact Hn).
  split; [|split; [|split]].
  - destruct (release_lock_get_cv _ me m c _ Hr) as (s' & Hs' & Hq & Hl). eauto.
  - destruct (get_thread e me) as [t|] eqn:Ht.
    + destruct (release_lock_threads (cv_registered e c me s) me m me t Ht) as (t' & Ht' & [->|(Hne & _)]);
        [exact Ht'|destruct (Hne eq_refl)].
    + unfold get_thread in *. apply nth_error_None. apply nth_error_None in Ht.
      assert (Hl : length (e_threads (release_lock (cv_registered e c me s) me m)) = length (e_threads e)).
      { unfold release_lock. destruct (get_mutex _ m); [|reflexivity]. cbv zeta.
        rewrite e_active_upd_object. destruct (e_active _); [|reflexivity].
        rewrite length_threads_map_others. reflexivity. }
      lia.
  - intros j t Ht. exact (release_lock_threads (cv_registered e c me s) me m j t Ht).
  - intros sm Hg Hact.
    assert (Hg' : get_mutex (cv_registered e c me s) m = Some sm).
    { apply get_mutex_nth in Hg. unfold get_mutex, cv_registered.
      assert (Hne : c <> m) by (intros ->; congruence).
      rewrite nth_error_objects_upd_other by exact Hne. rewrite Hg. reflexivity. }
    destruct (release_lock_publishes (cv_registered e c me s) me m sm Hg' Hact) as (sm' & H1 & H2 & H3 & H4).
    exists sm'. auto.
Qed.

(* ================================================================== *)
(* 2. B.2: the waiter queue only changes by registration at the back   *)
(*    and pops at the front                                            *)
(* ================================================================== *)

Definition queue_step (c me : nat) (m : micro) (q q' : list nat) : Prop :=
  q' = q \/
  (exists mx, m = MCvWait c mx /\ q' = q ++ [me]) \/
  (m = MCvNotify c false /\ exists w, q = w :: q') \/
  (m = MCvNotify c true /\ q' = []).

(* all micro-operations, also for the state carried by a panic *)
Lemma cv_queue_shape_res c e me m s :
  track_ok e -> get_cv e c = Some s ->
  exists s', get_cv (res_exec (exec_micro e me m)) c = Some s' /\
             queue_step c me m (cv_waiters s) (cv_waiters s').
Proof.
  intros Htr Hs.
  assert (Hgen : (forall mx, m <> MCvWait c mx) -> (forall all, m <> MCvNotify c all) ->
                 exists s', get_cv (res_exec (exec_micro e me m)) c = Some s' /\
                            queue_step c me m (cv_waiters s) (cv_waiters s')).
  { intros Hw Hn. destruct (exec_micro_ckeep c e me m Htr Hw Hn s Hs) as (s' & Hs' & E).
    exists s'. split; [exact Hs'|]. left. exact E. }
  pose proof (get_cv_nth _ _ _ Hs) as Hnth.
  destruct m; try (apply Hgen; intros; discriminate).
  - (* MCvWait c0 m *)
    destruct (Nat.eq_dec c0 c) as [->|Hne]; [|apply Hgen; intros; congruence].
    rewrite (exec_micro_cvwait e me c m s Hs). cbn [res_exec].
    assert (Hr : get_cv (cv_registered e c me s) c = Some (mkCv (cv_last s) (cv_waiters s ++ [me])))
      by (eapply get_cv_upd_const; exact Hnth).
    destruct (release_lock_get_cv _ me m c _ Hr) as (s' & Hs' & Hq & _).
    exists s'. split; [exact Hs'|]. right; left. exists m. split; [reflexivity|exact Hq].
  - (* MCvNotify c0 all *)
    destruct (Nat.eq_dec c0 c) as [->|Hne]; [|apply Hgen; intros; congruence].
    destruct all.
    + rewrite (exec_micro_cvnotify_all e me c s Hs). cbn [res_exec].
      exists (mkCv (cv_last s) []). split; [|right; right; right; auto].
      rewrite (get_cv_objects_eq _ _ c (e_objects_log_op _ _ _)).
      rewrite (get_cv_objects_eq _ _ c (e_objects_fold_unpark _ _ _)).
      eapply get_cv_upd_const. exact Hnth.
    + destruct (cv_waiters s) as [|w rest] eqn:Hq.
      * rewrite (exec_micro_cvnotify_one_empty e me c s Hs Hq). cbn [res_exec].
        exists s. split; [|left; exact Hq].
        rewrite (get_cv_objects_eq _ _ c (e_objects_log_op _ _ _)). exact Hs.
      * rewrite (exec_micro_cvnotify_one_cons e me c s w rest Hs Hq). cbn [res_exec].
        exists (mkCv (cv_last s) rest). split; [|right; right; left; split; [reflexivity|eauto]].
        rewrite (get_cv_objects_eq _ _ c (e_objects_log_op _ _ _)).
        rewrite (get_cv_objects_eq _ _ c (e_objects_threads_unpark _ _ _)).
        eapply get_cv_upd_const. exact Hnth.
Qed.

Theorem cv_queue_step_shape : forall c e me m e' s,
  track_ok e -> get_cv e c = Some s -> exec_micro e me m = MOk e' ->
  exists s', get_cv e' c = Some s' /\
    (cv_waiters s' = cv_waiters s \/
     (exists mx, m = MCvWait c mx /\ cv_waiters s' = cv_waiters s ++ [me]) \/
     (m = MCvNotify c false /\ exists w, cv_waiters s = w :: cv_waiters s') \/
     (m = MCvNotify c true /\ cv_waiters s' = [])).
Proof.
  intros c e me m e' s Htr Hs Hx.
  destruct (cv_queue_shape_res c e me m s Htr Hs) as (s' & Hs' & Hq). rewrite Hx in Hs'.
  exists s'. split; [exact Hs'|exact Hq].
Qed.

(* thread b is registered in the waiter queue of condvar c *)
Definition reg (b c : nat) (e : exec) : Prop :=
  exists s, get_cv e c = Some s /\ In b (cv_waiters s).

(* the registration step registers *)
Theorem cv_waiter_registered : forall e b c mx s e1,
  get_cv e c = Some s -> exec_micro e b (MCvWait c mx) = MOk e1 -> reg b c e1.
Proof.
  intros e b c mx s e1 Hs Hx.
  destruct (cvwait_effect e b c mx s e1 Hs Hx) as ((s' & Hs' & Hq & _) & _).
  exists s'. split; [exact Hs'|]. rewrite Hq. apply in_or_app. right. left. reflexivity.
Qed.

(* ... and the thread stays registered until a notify on c pops it: under
   every micro-operation that is not a notify on c with b among the popped *)
Lemma reg_persists_res b c e me m :
  track_ok e -> reg b c e ->
  (forall all, m = MCvNotify c all -> ~ In b (unpark_targets e m)) ->
  reg b c (res_exec (exec_micro e me m)).
Proof.
  intros Htr (s & Hs & Hi) Hn.
  destruct (cv_queue_shape_res c e me m s Htr Hs) as (s' & Hs' & Hq).
  exists s'. split; [exact Hs'|].
  destruct Hq as [E|[(mx & _ & E)|[(Em & w & E)|(Em & E)]]].
  - rewrite E. exact Hi.
  - rewrite E. apply in_or_app. left. exact Hi.
  - specialize (Hn false Em). subst m. cbn [unpark_targets] in Hn.
    rewrite (get_cv_nth _ _ _ Hs), E in Hn. cbn [firstn] in Hn.
    rewrite E in Hi. destruct Hi as [->|Hi]; [|exact Hi]. exfalso. apply Hn. left. reflexivity.
  - specialize (Hn true Em). subst m. cbn [unpark_targets] in Hn.
    rewrite (get_cv_nth _ _ _ Hs) in Hn. destruct (Hn Hi).
Qed.

Theorem reg_persists : forall b c e me m e',
  track_ok e -> reg b c e ->
  (forall all, m = MCvNotify c all -> ~ In b (unpark_targets e m)) ->
  exec_micro e me m = MOk e' -> reg b c e'.
Proof.
  intros b c e me m e' Htr Hr Hn Hx.
  pose proof (reg_persists_res b c e me m Htr Hr Hn) as H. rewrite Hx in H. exact H.
Qed.

(* a notify_one on c pops the front only: everybody else stays registered *)
Theorem notify_one_keeps_others : forall b c e a e' s w rest,
  track_ok e -> get_cv e c = Some s -> cv_waiters s = w :: rest -> In b rest ->
  exec_micro e a (MCvNotify c false) = MOk e' -> reg b c e'.
Proof.
  intros b c e a e' s w rest Htr Hs Hq Hi Hx.
  destruct (cv_queue_step_shape c e a _ e' s Htr Hs Hx) as (s' & Hs' & Hsh).
  exists s'. split; [exact Hs'|].
  destruct Hsh as [E|[(mx & Em & _)|[(_ & w' & E)|(Em & _)]]]; try discriminate.
  - (* impossible: the queue did change; but the conclusion holds anyway *)
    rewrite E, Hq. right. exact Hi.
  - rewrite Hq in E. injection E as _ E. rewrite <- E. exact Hi.
Qed.

Lemma tsteps_track_ok P e e' : tsteps P e e' -> track_ok e -> track_ok e'.
Proof.
  intros H. induction H as [e|e me m e1 e2 Hp Hx Hs IH|e me rest e2 Hs IH]; intros Htr.
  - exact Htr.
  - apply IH. eapply exec_micro_track_ok; eassumption.
  - apply IH. eapply track_ok_same; [| |exact Htr]; reflexivity.
Qed.

Lemma tsteps_mono P e e' : tsteps P e e' -> mono e e'.
Proof.
  intros H. induction H as [e|e me m e1 e2 Hp Hx Hs IH|e me rest e2 Hs IH].
  - apply mono_refl.
  - eapply mono_trans; [|exact IH]. eapply exec_micro_mono_ok; exact Hx.
  - eapply mono_trans; [|exact IH]. apply mono_upd_thread. intros t. apply vle_refl.
Qed.

(* sequences: no notify on c pops b *)
Definition no_pop_of (b c : nat) : exec -> nat -> micro -> Prop :=
  fun e _ m => forall all, m = MCvNotify c all -> ~ In b (unpark_targets e m).

Theorem tsteps_reg_persists : forall b c e e',
  track_ok e -> reg b c e -> tsteps (no_pop_of b c) e e' -> reg b c e'.
Proof.
  intros b c e e' Htr Hr Hs. revert Htr Hr.
  induction Hs as [e|e me m e1 e2 Hp Hx Hs IH|e me rest e2 Hs IH]; intros Htr Hr.
  - exact Hr.
  - apply IH; [eapply exec_micro_track_ok; eassumption|].
    eapply reg_persists; eassumption.
  - apply IH; [eapply track_ok_same; [| |exact Htr]; reflexivity|].
    destruct Hr as (s & Hs' & Hi). exists s. split; [exact Hs'|exact Hi].
Qed.

(* ================================================================== *)
(* 3. B.3: notify_one pops and unparks the front waiter; notify_all    *)
(*    pops and unparks every waiter; nothing is stored                 *)
(* ================================================================== *)

Theorem notify_one_wakes_front : forall e a c s w rest e',
  get_cv e c = Some s -> cv_waiters s = w :: rest ->
  exec_micro e a (MCvNotify c false) = MOk e' ->
  (* the queue: exactly the front is popped *)
  (exists s', get_cv e' c = Some s' /\ cv_waiters s' = rest /\ cv_last s' = cv_last s) /\
  (* the front waiter is unparked (ParkFacts.unpark_result: a parked thread becomes
     Runnable, a live one that is not parked gets the token), with the notifier's clock *)
  (forall t, get_thread e w = Some t ->
     exists t', get_thread e' w = Some t' /\ unpark_result t t' /\
       t_caus t' = (if Nat.eqb w a then t_caus t else vv_join (t_caus t) (caus_of e a)) /\
       vle (caus_of e a) (caus_of e' w)) /\
  (* nobody else is touched *)
  (forall j, j <> w -> get_thread e' j = get_thread e j) /\
  (forall i, i <> c -> nth_error (e_objects e') i = nth_error (e_objects e) i).
Proof.
  intros e a c s w rest e' Hs Hq Hx.
  rewrite (exec_micro_cvnotify_one_cons e a c s w rest Hs Hq) in Hx. injection Hx as <-.
  pose proof (get_cv_nth _ _ _ Hs) as Hnth.
  set (E := upd_object e c (fun _ => OCondvar (mkCv (cv_last s) rest))).
  split; [|split; [|split]].
  - exists (mkCv (cv_last s) rest). split; [|auto].
    rewrite (get_cv_objects_eq _ _ c (e_objects_log_op _ _ _)).
    rewrite (get_cv_objects_eq _ _ c (e_objects_threads_unpark _ _ _)).
    eapply get_cv_upd_const. exact Hnth.
  - intros t Ht.
    destruct (threads_unpark_effect E a w t Ht) as (t' & Hg & Hr & Hc & Hv & _).
    exists t'. rewrite get_thread_log_op, caus_of_log_op. auto.
  - intros j Hj. rewrite get_thread_log_op.
    rewrite threads_unpark_exact, get_thread_upd_thread_other by congruence. reflexivity.
  - intros i Hi. rewrite e_objects_log_op, e_objects_threads_unpark.
    unfold E. apply nth_error_objects_upd_other. congruence.
Qed.

(* an empty queue: the notify does nothing at all (one log line) *)
Theorem notify_one_empty_noop : forall e a c s e',
  get_cv e c = Some s -> cv_waiters s = [] ->
  exec_micro e a (MCvNotify c false) = MOk e' ->
  e' = log_op e a RUnit /\ e_objects e' = e_objects e /\ e_threads e' = e_threads e.
Proof.
  intros e a c s e' Hs Hq Hx. rewrite (exec_micro_cvnotify_one_empty e a c s Hs Hq) in Hx.
  injection Hx as <-. split; [reflexivity|]. split; [apply e_objects_log_op|apply e_threads_log_op].
Qed.

(* ... so a notification issued before the wait is NOT stored (std's contract):
   a thread that then registers and parks without a token does block *)
Theorem notify_before_wait_is_lost : forall e a c s e1 b t mx e2 e3,
  get_cv e c = Some s -> cv_waiters s = [] ->
  exec_micro e a (MCvNotify c false) = MOk e1 ->
  get_thread e1 b = Some t -> t_token t = false ->
  exec_micro e1 b (MCvWait c mx) = MOk e2 -> exec_micro e2 b MPark = MOk e3 ->
  parked b e3.
Proof.
  intros e a c s e1 b t mx e2 e3 Hs Hq Hx Ht Htk Hw Hp.
  destruct (notify_one_empty_noop e a c s e1 Hs Hq Hx) as (_ & Ho & _).
  assert (Hs1 : get_cv e1 c = Some s) by (rewrite (get_cv_objects_eq _ _ c Ho); exact Hs).
  destruct (cvwait_effect e1 b c mx s e2 Hs1 Hw) as (_ & Hme & _).
  rewrite Ht in Hme. exact (proj1 (park_blocks e2 b t e3 Hme Htk Hp)).
Qed.

(* what a sequence of unparks makes of a thread *)
Definition woken (t t' : thread) : Prop :=
  (is_parked t = true -> t_state t' = Runnable) /\
  (is_parked t = false -> t_state t' = t_state t /\ (is_terminated t = false -> t_token t' = true)) /\
  (t_token t = true -> t_token t' = true) /\
  same_rest t t'.

Lemma same_rest_trans t1 t2 t3 : same_rest t1 t2 -> same_rest t2 t3 -> same_rest t1 t3.
Proof.
  unfold same_rest.
  intros (A1 & A2 & A3 & A4 & A5 & A6 & A7 & A8 & A9 & A10)
         (B1 & B2 & B3 & B4 & B5 & B6 & B7 & B8 & B9 & B10).
  repeat split; congruence.
Qed.

Lemma is_parked_eq t t' : t_state t' = t_state t -> t_op t' = t_op t -> is_parked t' = is_parked t.
Proof. unfold is_parked, is_blocked. intros -> ->. reflexivity. Qed.

Lemma is_terminated_eq t t' : t_state t' = t_state t -> is_terminated t' = is_terminated t.
Proof. unfold is_terminated. intros ->. reflexivity. Qed.

Lemma unpark_result_woken t t' : unpark_result t t' -> woken t t'.
Proof.
  intros [Hu Hr]. unfold woken. destruct (is_parked t) eqn:Hp.
  - destruct Hu as [H1 H2].
    split; [intros _; exact H1|]. split; [discriminate|]. split; [congruence|exact Hr].
  - split; [discriminate|]. destruct (is_terminated t) eqn:Htm; destruct Hu as [H1 H2].
    + split; [intros _; split; [|discriminate]|split; [congruence|exact Hr]].
      unfold is_terminated in Htm. destruct (t_state t); congruence || discriminate.
    + split; [intros _; split; [exact H1|intros _; exact H2]|split; [intros _; exact H2|exact Hr]].
Qed.

Lemma woken_step t t' t'' : woken t t' -> unpark_result t' t'' -> woken t t''.
Proof.
  intros (H1 & H2 & H3 & Hr) [Hu Hr'].
  pose proof (same_rest_trans _ _ _ Hr Hr') as Hr''.
  destruct (is_parked t) eqn:Hp.
  - (* t' is Runnable: neither parked nor terminated *)
    specialize (H1 eq_refl).
    assert (Hp' : is_parked t' = false) by (unfold is_parked, is_blocked; rewrite H1; reflexivity).
    assert (Ht' : is_terminated t' = false) by (unfold is_terminated; rewrite H1; reflexivity).
    rewrite Hp', Ht' in Hu. destruct Hu as [Hs Htk].
    unfold woken. rewrite Hp. split; [intros _; congruence|]. split; [discriminate|].
    split; [intros _; exact Htk|exact Hr''].
  - destruct (H2 eq_refl) as [Hs2 Htk2].
    assert (Hop : t_op t' = t_op t) by (destruct Hr as (Hop & _); exact Hop).
    assert (Hp' : is_parked t' = false) by (rewrite (is_parked_eq t t' Hs2 Hop); exact Hp).
    rewrite Hp' in Hu. rewrite (is_terminated_eq t t' Hs2) in Hu.
    unfold woken. rewrite Hp.
    destruct (is_terminated t) eqn:Htm; destruct Hu as [Hs Htk].
    + split; [discriminate|]. split; [intros _; split; [|discriminate]|split; [|exact Hr'']].
      * unfold is_terminated in Htm. destruct (t_state t); congruence || discriminate.
      * intros Ht. rewrite Htk. apply H3, Ht.
    + split; [discriminate|]. split; [intros _; split; [congruence|intros _; exact Htk]|].
      split; [intros _; exact Htk|exact Hr''].
Qed.

Lemma threads_unpark_other e a x j : j <> x -> get_thread (threads_unpark e a x) j = get_thread e j.
Proof. intros Hj. rewrite threads_unpark_exact. apply get_thread_upd_thread_other. congruence. Qed.

Lemma fold_unpark_other a l : forall e j, ~ In j l ->
  get_thread (fold_left (fun e t => threads_unpark e a t) l e) j = get_thread e j.
Proof.
  induction l as [|x l IH]; intros e j Hn; cbn [fold_left]; [reflexivity|].
  rewrite IH by (intros Hi; apply Hn; right; exact Hi).
  apply threads_unpark_other. intros ->. apply Hn. left. reflexivity.
Qed.

Lemma fold_unpark_keeps_woken a l : forall e j t0 t,
  get_thread e j = Some t -> woken t0 t ->
  exists t', get_thread (fold_left (fun e t => threads_unpark e a t) l e) j = Some t' /\ woken t0 t'.
Proof.
  induction l as [|x l IH]; intros e j t0 t Ht Hw; cbn [fold_left]; [eauto|].
  destruct (Nat.eq_dec j x) as [->|Hne].
  - destruct (threads_unpark_effect e a x t Ht) as (t1 & Hg & Hr & _).
    apply (IH _ x t0 t1 Hg). eapply woken_step; eassumption.
  - apply (IH _ j t0 t); [|exact Hw]. rewrite threads_unpark_other by exact Hne. exact Ht.
Qed.

Lemma fold_unpark_woken a l : forall e j t,
  In j l -> get_thread e j = Some t ->
  exists t', get_thread (fold_left (fun e t => threads_unpark e a t) l e) j = Some t' /\ woken t t'.
Proof.
  induction l as [|x l IH]; intros e j t Hi Ht; [destruct Hi|]. cbn [fold_left].
  destruct (Nat.eq_dec j x) as [->|Hne].
  - destruct (threads_unpark_effect e a x t Ht) as (t1 & Hg & Hr & _).
    apply (fold_unpark_keeps_woken a l _ x t t1 Hg). apply unpark_result_woken, Hr.
  - destruct Hi as [->|Hi]; [destruct (Hne eq_refl)|].
    apply IH; [exact Hi|]. rewrite threads_unpark_other by exact Hne. exact Ht.
Qed.

Lemma threads_unpark_caus_me e a x : caus_of (threads_unpark e a x) a = caus_of e a.
Proof.
  destruct (Nat.eq_dec x a) as [->|Hne]; [apply threads_unpark_self|].
  unfold caus_of. rewrite threads_unpark_other by congruence. reflexivity.
Qed.

Lemma threads_unpark_length e a x : length (e_threads (threads_unpark e a x)) = length (e_threads e).
Proof. rewrite threads_unpark_exact. apply length_threads_upd_thread. Qed.

Lemma fold_unpark_caus a l : forall e w,
  In w l -> w <> a -> w < length (e_threads e) ->
  vle (caus_of e a) (caus_of (fold_left (fun e t => threads_unpark e a t) l e) w).
Proof.
  induction l as [|x l IH]; intros e w Hi Hwa Hlt; [destruct Hi|]. cbn [fold_left].
  destruct (Nat.eq_dec x w) as [->|Hne].
  - destruct (threads_unpark_transfers e a w Hwa Hlt) as (H1 & _).
    eapply vle_trans; [exact H1|].
    destruct (mono_fold_unpark_k a l _ _ (mono_refl (threads_unpark e a w))) as (_ & Hc & _).
    apply Hc.
  - destruct Hi as [->|Hi]; [destruct (Hne eq_refl)|].
    rewrite <- (threads_unpark_caus_me e a x). apply IH; [exact Hi|exact Hwa|].
    rewrite threads_unpark_length. exact Hlt.
Qed.

Theorem notify_all_wakes_all : forall e a c s e',
  get_cv e c = Some s -> exec_micro e a (MCvNotify c true) = MOk e' ->
  (* the queue is emptied *)
  (exists s', get_cv e' c = Some s' /\ cv_waiters s' = [] /\ cv_last s' = cv_last s) /\
  (* every registered waiter is unparked, with the notifier's clock *)
  (forall w t, In w (cv_waiters s) -> get_thread e w = Some t ->
     exists t', get_thread e' w = Some t' /\ woken t t' /\
                (w <> a -> vle (caus_of e a) (caus_of e' w))) /\
  (* nobody else is touched *)
  (forall j, ~ In j (cv_waiters s) -> get_thread e' j = get_thread e j) /\
  (forall i, i <> c -> nth_error (e_objects e') i = nth_error (e_objects e) i).
Proof.
  intros e a c s e' Hs Hx.
  rewrite (exec_micro_cvnotify_all e a c s Hs) in Hx. injection Hx as <-.
  pose proof (get_cv_nth _ _ _ Hs) as Hnth.
  set (E := upd_object e c (fun _ => OCondvar (mkCv (cv_last s) []))).
  split; [|split; [|split]].
  - exists (mkCv (cv_last s) []). split; [|auto].
    rewrite (get_cv_objects_eq _ _ c (e_objects_log_op _ _ _)).
    rewrite (get_cv_objects_eq _ _ c (e_objects_fold_unpark _ _ _)).
    eapply get_cv_upd_const. exact Hnth.
  - intros w t Hi Ht.
    destruct (fold_unpark_woken a (cv_waiters s) E w t Hi Ht) as (t' & Hg & Hw).
    exists t'. rewrite get_thread_log_op, caus_of_log_op. split; [exact Hg|]. split; [exact Hw|].
    intros Hwa. apply (fold_unpark_caus a (cv_waiters s) E w Hi Hwa).
    apply (get_thread_some_lt E w t Ht).
  - intros j Hj. rewrite get_thread_log_op. apply (fold_unpark_other a _ E j Hj).
  - intros i Hi. rewrite e_objects_log_op, e_objects_fold_unpark.
    unfold E. apply nth_error_objects_upd_other. congruence.
Qed.

(* ================================================================== *)
(* 4. B.4: a parked waiter is resumed only by an unpark aimed at it;   *)
(*    the mutex is re-acquired; happens-before                         *)
(* ================================================================== *)

(* thread b is inside Condvar::wait on c: registered and parked.  It stays so
   under every micro-operation of another thread that does not unpark it.
   By ParkFacts.unpark_targets_spec the excluded micro-operations are exactly
     - MCvNotify c' false with b at the front of the queue of c',
     - MCvNotify c' true with b in the queue of c',
     - MUnpark bd with body_tid e bd = Some b (a stray Thread::unpark from user code).
   (c' = c unless b has stale entries in other queues, see section 5.) *)
Theorem cv_wait_returns_only_after_notify : forall b c e me m,
  track_ok e -> parked b e -> reg b c e -> me <> b ->
  ~ In b (unpark_targets e m) ->
  parked b (res_exec (exec_micro e me m)) /\ reg b c (res_exec (exec_micro e me m)).
Proof.
  intros b c e me m Htr Hp Hr Hmb Hw. split.
  - apply exec_micro_parked; assumption.
  - apply reg_persists_res; [exact Htr|exact Hr|]. intros all _. exact Hw.
Qed.

(* sequences *)
Theorem cv_waiter_parked_until_unparked : forall b c e e',
  track_ok e -> parked b e -> reg b c e -> tsteps (no_unpark_of b) e e' ->
  parked b e' /\ reg b c e'.
Proof.
  intros b c e e' Htr Hp Hr Hs. split.
  - eapply parked_until_unpark; eassumption.
  - eapply tsteps_reg_persists; [exact Htr|exact Hr|].
    eapply tsteps_weaken; [|exact Hs]. intros e0 me m [_ Hw] all _. exact Hw.
Qed.

(* registration followed by the park (no token): the thread is in that state *)
Theorem cv_wait_parks : forall e b c mx s e1 t1 e2,
  track_ok e -> get_cv e c = Some s -> exec_micro e b (MCvWait c mx) = MOk e1 ->
  get_thread e1 b = Some t1 -> t_token t1 = false -> exec_micro e1 b MPark = MOk e2 ->
  parked b e2 /\ reg b c e2.
Proof.
  intros e b c mx s e1 t1 e2 Htr Hs Hw Ht1 Htk Hp.
  pose proof (cv_waiter_registered e b c mx s e1 Hs Hw) as Hr1.
  pose proof (exec_micro_track_ok _ _ _ _ Htr Hw) as Htr1.
  split; [exact (proj1 (park_blocks e1 b t1 e2 Ht1 Htk Hp))|].
  eapply reg_persists; [exact Htr1|exact Hr1| |exact Hp]. intros all E. discriminate E.
Qed.

(* a notify that pops b while b is registered but not (yet) parked is not
   lost: b gets the park token, the token persists, b's park does not block *)
Theorem cv_no_lost_wakeup : forall e a c all b t e1,
  In b (unpark_targets e (MCvNotify c all)) -> get_thread e b = Some t ->
  is_parked t = false -> is_terminated t = false ->
  exec_micro e a (MCvNotify c all) = MOk e1 ->
  forall e2, tsteps (not_own_park b) e1 e2 ->
    exists t2, get_thread e2 b = Some t2 /\ t_token t2 = true /\
      exec_micro e2 b MPark = MOk (upd_thread e2 b (fun t => th_set_token t false)).
Proof.
  intros e a c all b t e1 Hi Ht Hp Htm Hx e2 Hs.
  assert (H1 : exists t1, get_thread e1 b = Some t1 /\ t_token t1 = true).
  { cbn [unpark_targets] in Hi.
    destruct (nth_error (e_objects e) c) as [[| | | |s| | | |]|] eqn:Hc; try destruct Hi.
    apply nth_get_cv in Hc. destruct all.
    - destruct (notify_all_wakes_all e a c s e1 Hc Hx) as (_ & Hall & _).
      destruct (Hall b t Hi Ht) as (t1 & Hg & (_ & Hw & _) & _).
      exists t1. split; [exact Hg|]. apply (proj2 (Hw Hp)), Htm.
    - destruct (cv_waiters s) as [|w rest] eqn:Hq; [destruct Hi|].
      destruct Hi as [->|[]].
      destruct (notify_one_wakes_front e a c s b rest e1 Hc Hq Hx) as (_ & Hone & _).
      destruct (Hone t Ht) as (t1 & Hg & [Hu _] & _).
      rewrite Hp, Htm in Hu. exists t1. split; [exact Hg|exact (proj2 Hu)]. }
  destruct H1 as (t1 & Hg1 & Htk1).
  destruct (tsteps_token_persists b e1 e2 t1 Hg1 Htk1 Hs) as (t2 & Hg2 & Htk2).
  exists t2. split; [exact Hg2|]. split; [exact Htk2|]. apply (park_effect_token e2 b t2 Hg2 Htk2).
Qed.

(* the whole scenario: b registers and parks; it stays parked and registered
   while nobody unparks it; a notify on c that pops it makes it Runnable, with
   the notifier's clock *)
Theorem cv_wait_until_notify : forall e b c mx s e1 t1 e2 e3,
  track_ok e -> get_cv e c = Some s -> exec_micro e b (MCvWait c mx) = MOk e1 ->
  get_thread e1 b = Some t1 -> t_token t1 = false -> exec_micro e1 b MPark = MOk e2 ->
  tsteps (no_unpark_of b) e2 e3 ->
  (parked b e3 /\ reg b c e3) /\
  forall a all e4, In b (unpark_targets e3 (MCvNotify c all)) ->
    exec_micro e3 a (MCvNotify c all) = MOk e4 ->
    exists t4, get_thread e4 b = Some t4 /\ t_state t4 = Runnable /\
               (b <> a -> vle (caus_of e3 a) (caus_of e4 b)).
Proof.
  intros e b c mx s e1 t1 e2 e3 Htr Hs Hw Ht1 Htk Hp Hst.
  destruct (cv_wait_parks e b c mx s e1 t1 e2 Htr Hs Hw Ht1 Htk Hp) as [Hp2 Hr2].
  assert (Htr2 : track_ok e2).
  { eapply exec_micro_track_ok; [|exact Hp]. eapply exec_micro_track_ok; eassumption. }
  destruct (cv_waiter_parked_until_unparked b c e2 e3 Htr2 Hp2 Hr2 Hst) as [Hp3 Hr3].
  split; [split; assumption|]. intros a all e4 Hi Hx.
  destruct Hp3 as (t3 & Ht3 & Hpk3 & Htk3).
  cbn [unpark_targets] in Hi.
  destruct (nth_error (e_objects e3) c) as [[| | | |s3| | | |]|] eqn:Hc; try destruct Hi.
  apply nth_get_cv in Hc. destruct all.
  - destruct (notify_all_wakes_all e3 a c s3 e4 Hc Hx) as (_ & Hall & _).
    destruct (Hall b t3 Hi Ht3) as (t4 & Hg & (Hw1 & _) & Hv).
    exists t4. split; [exact Hg|]. split; [apply Hw1, Hpk3|exact Hv].
  - destruct (cv_waiters s3) as [|w rest] eqn:Hq; [destruct Hi|].
    destruct Hi as [->|[]].
    destruct (notify_one_wakes_front e3 a c s3 b rest e4 Hc Hq Hx) as (_ & Hone & _).
    destruct (Hone t3 Ht3) as (t4 & Hg & [Hu _] & _ & Hv).
    rewrite Hpk3 in Hu. exists t4. split; [exact Hg|]. split; [exact (proj1 Hu)|intros _; exact Hv].
Qed.

(* ---- the mutex is re-acquired before the wait returns ---- *)

(* MLockPost m LMReacquire, the last micro-operation of the wait (it logs the
   wait's result), succeeds only with the mutex free and leaves it owned by
   the waiter, who acquires the mutex's view *)
Theorem cv_waiter_reacquires : forall e me m e',
  exec_micro e me (MLockPost m LMReacquire) = MOk e' ->
  exists s, get_mutex e m = Some s /\ mx_lock s = None /\
    (exists s', get_mutex e' m = Some s' /\ mx_lock s' = Some me /\ mx_sync s' = mx_sync s) /\
    (me < length (e_threads e) -> vle (mx_sync s) (caus_of e' me)).
Proof.
  intros e me m e' Hx. cbn [exec_micro] in Hx.
  destruct (post_acquire e me m) as [e1 ok] eqn:Hpa. destruct ok; [|discriminate Hx].
  injection Hx as <-.
  assert (Hg : exists s, get_mutex e m = Some s /\ mx_lock s = None).
  { unfold post_acquire in Hpa. destruct (get_mutex e m) as [s|]; [|discriminate Hpa].
    destruct (is_some (mx_lock s)) eqn:Hl; [discriminate Hpa|].
    exists s. split; [reflexivity|]. apply is_some_false, Hl. }
  destruct Hg as (s & Hg & Hfree). exists s. split; [exact Hg|]. split; [exact Hfree|].
  split.
  - pose proof (get_mutex_nth e m s Hg) as Hnth.
    unfold post_acquire in Hpa. rewrite Hg in Hpa. cbv zeta in Hpa.
    rewrite Hfree in Hpa. cbn [is_some] in Hpa. injection Hpa as <-.
    eexists. split.
    + rewrite (get_mutex_objects_eq _ _ m (e_objects_log_op _ _ _)).
      rewrite (get_mutex_objects_eq _ _ m (e_objects_map_others _ _ _ _)).
      rewrite (get_mutex_objects_eq _ _ m (e_objects_set_caus _ _ _)).
      eapply get_mutex_upd_const. exact Hnth.
    + split; reflexivity.
  - intros Hlt. rewrite caus_of_log_op.
    exact (proj1 (post_acquire_acquires e me m s e1 Hg Hpa Hlt)).
Qed.

(* with the mutex held by anybody, the re-acquisition does not return: it is
   loom's "expected to be able to acquire lock" (the blocking branch in front
   of it, MBranch m AOpaque BMutexLocked, is what prevents this in a run) *)
Theorem reacquire_needs_free_mutex : forall e me m s,
  get_mutex e m = Some s -> mx_lock s <> None ->
  exec_micro e me (MLockPost m LMReacquire) = MFail e PanicExpectLock.
Proof.
  intros e me m s Hg Hl. cbn [exec_micro]. unfold post_acquire. rewrite Hg.
  destruct (mx_lock s); [reflexivity|destruct (Hl eq_refl)].
Qed.

(* ---- happens-before ---- *)

(* through the unpark: the notifier's clock at the notify is below the woken
   thread's clock from then on *)
Theorem cv_wakeup_hb : forall e a c all w e1 e2,
  In w (unpark_targets e (MCvNotify c all)) -> w <> a -> w < length (e_threads e) ->
  exec_micro e a (MCvNotify c all) = MOk e1 -> tsteps (fun _ _ _ => True) e1 e2 ->
  vle (caus_of e a) (caus_of e2 w).
Proof.
  intros e a c all w e1 e2 Hi Hwa Hlt Hx Hs.
  destruct (get_thread_lt_some e w Hlt) as (t & Ht).
  assert (H1 : vle (caus_of e a) (caus_of e1 w)).
  { cbn [unpark_targets] in Hi.
    destruct (nth_error (e_objects e) c) as [[| | | |s| | | |]|] eqn:Hc; try destruct Hi.
    apply nth_get_cv in Hc. destruct all.
    - destruct (notify_all_wakes_all e a c s e1 Hc Hx) as (_ & Hall & _).
      destruct (Hall w t Hi Ht) as (t1 & _ & _ & Hv). apply Hv, Hwa.
    - destruct (cv_waiters s) as [|w0 rest] eqn:Hq; [destruct Hi|].
      destruct Hi as [->|[]].
      destruct (notify_one_wakes_front e a c s w rest e1 Hc Hq Hx) as (_ & Hone & _).
      destruct (Hone t Ht) as (t1 & _ & _ & _ & Hv). exact Hv. }
  eapply vle_trans; [exact H1|].
  destruct (tsteps_mono _ _ _ Hs) as (_ & Hc & _). apply Hc.
Qed.

(* through the mutex: whoever released m before (the notifier, if it held the
   mutex around the notify) is below the waiter's clock once the waiter has
   re-acquired m *)
Theorem cv_reacquire_hb : forall e a m s e2 w e3,
  get_mutex e m = Some s -> e_active e <> None ->
  mono (release_lock e a m) e2 -> w < length (e_threads e2) ->
  exec_micro e2 w (MLockPost m LMReacquire) = MOk e3 ->
  vle (caus_of e a) (caus_of e3 w).
Proof.
  intros e a m s e2 w e3 Hg Hact Hm Hlt Hx.
  destruct (cv_waiter_reacquires e2 w m e3 Hx) as (s2 & Hg2 & Hfree & _ & _).
  destruct (mutex_handover_mono e a m s e2 w s2 Hg Hact Hm Hg2 Hfree Hlt) as [_ Hv].
  cbn [exec_micro] in Hx. destruct (post_acquire e2 w m) as [e2' ok]. destruct ok; [|discriminate Hx].
  injection Hx as <-. rewrite caus_of_log_op. exact Hv.
Qed.

(* the same over the steps of the runtime / arbitrary sequences *)
Corollary cv_reacquire_hb_steps : forall P e a m s e2 w e3,
  get_mutex e m = Some s -> e_active e <> None ->
  tsteps P (release_lock e a m) e2 -> w < length (e_threads e2) ->
  exec_micro e2 w (MLockPost m LMReacquire) = MOk e3 ->
  vle (caus_of e a) (caus_of e3 w).
Proof.
  intros P e a m s e2 w e3 Hg Hact Hs. apply (cv_reacquire_hb e a m s e2 w e3 Hg Hact).
  eapply tsteps_mono, Hs.
Qed.

(* ================================================================== *)
(* 5. Concrete runs, and what the shared park token lets through       *)
(* ================================================================== *)

Require Import LV.Ref LV.Outcome LV.Witness.

(* main: spawn t1; lock; wait(c, m); unlock; join     t1: lock; notify_one; unlock *)
Definition p_cv : prog := mkProg cfg0 [DMutex; DCondvar]
  [[ISpawn 1; ILock 0; IWait 1 0; IUnlock 0; IJoin 1]; [ILock 0; INotifyOne 1; IUnlock 0]].

Definition cv_state (p : prog) (n : nat) : exec := fst (run n (init_exec p (initial_path cfg0))).

(* (state, pending operation, token) per thread; waiter queue of c; owner of m *)
Definition cview (e : exec) (c m : nat) :=
  (tview e,
   match get_cv e c with Some s => Some (cv_waiters s) | None => None end,
   match get_mutex e m with Some s => Some (mx_lock s) | None => None end).

(* first schedule: main waits first *)
Example wait_then_notify_run :
  snd (run 1000 (init_exec p_cv (initial_path cfg0))) = IterDone /\
  (* after MCvWait: registered, mutex released, not yet parked *)
  cview (cv_state p_cv 9) 1 0 =
    ([(Runnable, Some (mkOp 1 AOpaque), false); (Runnable, None, false)], Some [0], Some None) /\
  (* after MPark: parked; t1 runs *)
  cview (cv_state p_cv 10) 1 0 =
    ([(Blocked, None, false); (Runnable, None, false)], Some [0], Some None) /\
  e_active (cv_state p_cv 10) = Some 1 /\
  (* t1 holds the mutex and is about to notify *)
  cview (cv_state p_cv 15) 1 0 =
    ([(Blocked, None, false); (Runnable, Some (mkOp 1 AOpaque), false)], Some [0], Some (Some 1)) /\
  (* after MCvNotify: popped, Runnable, no token; the mutex is still t1's *)
  cview (cv_state p_cv 16) 1 0 =
    ([(Runnable, None, false); (Runnable, Some (mkOp 1 AOpaque), false)], Some [], Some (Some 1)) /\
  (* main re-acquires only after t1's unlock: after MLockPost m LMReacquire it owns m *)
  cview (cv_state p_cv 27) 1 0 =
    ([(Runnable, Some (mkOp 0 AOpaque), false); (Terminated, None, false)], Some [], Some (Some 0)).
Proof. vm_compute. repeat split; reflexivity. Qed.

(* the other order (notify before wait) is explored too, and the notification
   is lost, as std specifies: Builder::check reports the deadlock *)
Example notify_then_wait_deadlocks :
  fin_of p_cv = RunPanic (PanicDeadlock [Blocked; Terminated]) /\
  ref_can_deadlock (ref_outcomes false FUEL p_cv) = true.
Proof. vm_compute. split; reflexivity. Qed.

(* FINDING (real loom behaviour: rt::Condvar::wait parks through rt::park, the
   same token as thread::park).  Thread::unpark satisfies a Condvar::wait that
   nobody ever notifies:
     main: spawn t1; t1.unpark(); join t1        t1: lock m; wait(c, m); unlock m
   The reference semantics (std: unpark has nothing to do with a condvar) has
   no finished outcome at all, every schedule deadlocks; the model (and loom)
   explore ONE iteration, it finishes, no deadlock is reported. *)
Definition p_unpark_cv : prog := mkProg cfg0 [DMutex; DCondvar]
  [[ISpawn 1; IUnpark 1; IJoin 1]; [ILock 0; IWait 1 0; IUnlock 0]].

Lemma unpark_satisfies_condvar_wait :
  ref_finished (ref_outcomes false FUEL p_unpark_cv) = [] /\
  ref_can_deadlock (ref_outcomes false FUEL p_unpark_cv) = true /\
  fin_of p_unpark_cv = RunOk /\ length (recs_of p_unpark_cv) = 1 /\
  run_reports_deadlock (fin_of p_unpark_cv) = false.
Proof. vm_compute. repeat split; reflexivity. Qed.

(* in that run: the token is there when t1 registers (step 15), MPark consumes
   it instead of blocking (step 16: still Runnable, still the active thread),
   t1 re-acquires and finishes -- and its entry STAYS in the waiter queue of c
   (a stale entry: a later notify_one would pop it instead of a real waiter) *)
Lemma stale_waiter_entry :
  cview (cv_state p_unpark_cv 15) 1 0 =
    ([(Blocked, Some (mkOp 2 AOpaque), false); (Runnable, Some (mkOp 1 AOpaque), true)],
     Some [1], Some None) /\
  cview (cv_state p_unpark_cv 16) 1 0 =
    ([(Blocked, Some (mkOp 2 AOpaque), false); (Runnable, Some (mkOp 1 AOpaque), false)],
     Some [1], Some None) /\
  e_active (cv_state p_unpark_cv 16) = Some 1 /\
  snd (run 1000 (init_exec p_unpark_cv (initial_path cfg0))) = IterDone /\
  cview (cv_state p_unpark_cv 1000) 1 0 =
    ([(Terminated, None, false); (Terminated, None, false)], Some [1], Some None).
Proof. vm_compute. repeat split; reflexivity. Qed.

(* outcome level: t1 reads x after its wait; main stores x := 1 under the mutex
   before notifying, and only after t1 is inside the wait (handshake on y).
   With std's semantics t1 always reads 1.  In the model the wait can return on
   the token before the store: t1 reads 0. *)
Definition p_unpark_cv2 : prog := mkProg cfg0 [DMutex; DCondvar; DAtomic 0; DAtomic 0]
  [[ISpawn 1; IUnpark 1; IAwait 3 1 SeqCst; ILock 0; IStore 2 1 SeqCst; INotifyOne 1; IUnlock 0;
    IJoin 1];
   [ILock 0; IStore 3 1 SeqCst; IWait 1 0; ILoad 2 SeqCst; IUnlock 0]].

(* the result logged by t1's load (instruction 3 of body 1) in an outcome *)
Definition t1_load (o : outcome) : option result :=
  match nth_error o 1 with
  | Some l => match find (fun x => Nat.eqb (fst x) 3) l with Some (_, r) => Some r | None => None end
  | None => None
  end.

Lemma unpark_condvar_early_return :
  ref_can_deadlock (ref_outcomes false FUEL p_unpark_cv2) = false /\
  forallb (fun o => match t1_load o with Some (RVal 1) => true | _ => false end)
          (ref_finished (ref_outcomes false FUEL p_unpark_cv2)) = true /\
  fin_of p_unpark_cv2 = RunOk /\
  existsb (fun o => match t1_load o with Some (RVal 0) => true | _ => false end)
          (explored p_unpark_cv2 (recs_of p_unpark_cv2)) = true.
Proof. vm_compute. repeat split; reflexivity. Qed.

Print Assumptions exec_micro_ckeep.
Print Assumptions exec_micro_wait_held.
Print Assumptions wait_continuation.
Print Assumptions exec_micro_cvwait.
Print Assumptions exec_micro_cvnotify_one_empty.
Print Assumptions exec_micro_cvnotify_one_cons.
Print Assumptions exec_micro_cvnotify_all.
Print Assumptions cvwait_effect.
Print Assumptions cv_queue_shape_res.
Print Assumptions cv_queue_step_shape.
Print Assumptions cv_waiter_registered.
Print Assumptions reg_persists.
Print Assumptions notify_one_keeps_others.
Print Assumptions tsteps_reg_persists.
Print Assumptions notify_one_wakes_front.
Print Assumptions notify_one_empty_noop.
Print Assumptions notify_before_wait_is_lost.
Print Assumptions notify_all_wakes_all.
Print Assumptions cv_wait_returns_only_after_notify.
Print Assumptions cv_waiter_parked_until_unparked.
Print Assumptions cv_wait_parks.
Print Assumptions cv_no_lost_wakeup.
Print Assumptions cv_wait_until_notify.
Print Assumptions cv_waiter_reacquires.
Print Assumptions reacquire_needs_free_mutex.
Print Assumptions cv_wakeup_hb.
Print Assumptions cv_reacquire_hb.
Print Assumptions cv_reacquire_hb_steps.
Print Assumptions wait_then_notify_run.
Print Assumptions notify_then_wait_deadlocks.
Print Assumptions unpark_satisfies_condvar_wait.
Print Assumptions stale_waiter_entry.
Print Assumptions unpark_condvar_early_return.

(* DEVIATIONS from the requested statements

   V1  track_ok e (SyncMono) is a hypothesis of every statement about the
       waiter queue under ARBITRARY micro-operations (exec_micro_ckeep,
       cv_queue_step_shape, reg_persists, cv_wait_returns_only_after_notify,
       ...): MTrackDrop k overwrites object slot k whenever the harness flag of
       slot k is set, whatever the object is (same reason as NotifyFacts N1);
       track_ok holds along every run.  The statements about threads only
       (ParkFacts) do not need it.  exec_micro_ckeep / cv_queue_shape_res /
       reg_persists_res / cv_wait_returns_only_after_notify are proved for the
       state carried by a panic as well (res_exec).
   V2  cv_waiter_registered is split: the registration step registers
       (cv_waiter_registered), and a registered thread stays registered under
       every micro-operation that is not a notify on c popping it
       (reg_persists, tsteps_reg_persists; notify_one_keeps_others for the
       non-front waiters of a notify_one).  cv_queue_step_shape is the exact
       shape: unchanged / push at the back by MCvWait c _ of the executing
       thread / pop of the front by MCvNotify c false / emptied by
       MCvNotify c true.
   V3  notify_one_wakes_front / notify_all_wakes_all describe the unparked
       threads with ParkFacts.unpark_result resp. [woken] (its closure under
       repeated unparks: a thread that occurs twice in a queue -- possible only
       with stale entries, V5 -- is made Runnable by the first unpark and gets
       the token from the second).  The clock statement of notify_all needs
       w <> a (a thread never joins its own clock: Set::unpark special-cases
       the active thread).  An empty queue: notify_one_empty_noop (nothing but
       a log line), notify_before_wait_is_lost (a later wait blocks).
   V4  cv_wait_returns_only_after_notify: "resumed only by a notify on c that
       pops it" is true up to what the shared unpark path allows: the parked
       and registered waiter b stays parked and registered under every
       micro-operation m of another thread with ~ In b (unpark_targets e m);
       by ParkFacts.unpark_targets_spec the excluded ones are MCvNotify c' false
       with b at the front of c', MCvNotify c' true with b in c', and
       MUnpark bd with body_tid e bd = Some b (a stray Thread::unpark).
       c' = c unless b has a stale entry in another queue.
       cv_no_lost_wakeup covers the window between registration and park: the
       notify stores the park token, the park consumes it (in a run of the
       model no other thread executes between MCvWait and MPark: release_lock
       is not a scheduling point; the theorem does not depend on that).
   V5  FINDING (section 5; real loom behaviour, src/rt/condvar.rs: wait = push
       waiter; release; rt::park; acquire).  Because Condvar::wait parks
       through the token of thread::park,
       (a) a pending Thread::unpark makes Condvar::wait return at once with no
           notify at all (unpark_satisfies_condvar_wait: the reference
           semantics deadlocks on every schedule, the model / loom explore a
           single finishing iteration; unpark_condvar_early_return: a value
           that std's semantics excludes is explored); std allows spurious
           Condvar wake-ups, so this is "an invented wake-up that std
           permits", but it is not "resumes only after the matching
           notify_one / notify_all";
       (b) such an early return leaves the thread's entry in the waiter queue
           (stale_waiter_entry); a later notify_one pops that entry (and
           stores a token in / wakes the wrong thread) instead of a thread
           that is really waiting.
       Without user-level unpark of a thread that also waits on condvars none
       of this happens: every pop is matched by the park of the registration
       it pops (cv_no_lost_wakeup, cv_wait_until_notify).
   V6  cv_waiter_reacquires is about the micro-operation that ends the wait,
       MLockPost m LMReacquire (wait_continuation: MWait pushes exactly
       [MBranch c AOpaque BNever; MCvWait c m; MPark; MBranch m AOpaque
       BMutexLocked; MLockPost m LMReacquire]); combined with
       ExclFacts.excl_inv ("released" phase) it says the waiter is inside m
       again when the wait returns.  reacquire_needs_free_mutex is the failing
       case.  Happens-before: cv_wakeup_hb (through the unpark; needs w <> a
       and w < length (e_threads e): set_caus / upd_thread are the identity out
       of range) and cv_reacquire_hb (through the mutex: from ANY earlier
       release_lock of m by a, SyncMono.mutex_handover_mono; e_active e <> None
       as there). *)
