(* AtomicRun2: the two thread-side facts that AtomicRun.RunOK assumed --
   t_rel <= t_caus for every thread and the bound on the number of threads --
   as invariants of the executions from init_exec; RunOK2 / run_goodAt2.

   The pass over the micro-operations is the thread half of the one of
   ClockFacts (relation ck), with the invariant tinv. *)
From Coq Require Import List Arith Lia Bool NArith.
Import ListNotations.
From LV Require Import Base VV VVFacts Path PathSpec PathApi Prog Objects Exec Atomic Ops Check
  SyncFacts ExecFacts SyncMono NotifyFacts ClockFacts AtomicFacts AtomicCoherence
  AtomicCoRR AtomicClosure AtomicBridge AtomicRun.

(* ================================================================== *)
(* 1. The invariant and the relation                                    *)
(* ================================================================== *)

Definition tinv (e : exec) : Prop :=
  e_max_threads e <= MAX_THREADS /\
  length (e_threads e) <= Nat.max 1 (e_max_threads e) /\
  (forall i t, nth_error (e_threads e) i = Some t -> vle (t_rel t) (t_caus t)).

Definition tk (e e' : exec) : Prop := tinv e -> tinv e'.

Lemma tk_refl e : tk e e.
Proof. intros H. exact H. Qed.
Lemma tk_trans e1 e2 e3 : tk e1 e2 -> tk e2 e3 -> tk e1 e3.
Proof. unfold tk. auto. Qed.
Lemma tk_k e0 e e' : tk e e' -> tk e0 e -> tk e0 e'.
Proof. unfold tk. auto. Qed.

Lemma tk_same e e' :
  e_threads e' = e_threads e -> e_max_threads e' = e_max_threads e -> tk e e'.
Proof. intros Ht Hm. unfold tk, tinv. rewrite Ht, Hm. auto. Qed.

Lemma tk_same_k e0 e e' :
  e_threads e' = e_threads e -> e_max_threads e' = e_max_threads e -> tk e0 e -> tk e0 e'.
Proof. intros H1 H2. apply tk_k, tk_same; assumption. Qed.

(* what one thread update has to respect *)
Definition rstep (t t' : thread) : Prop := vle (t_rel t) (t_caus t) -> vle (t_rel t') (t_caus t').

Lemma rstep_refl t : rstep t t.
Proof. intros H. exact H. Qed.
Lemma rstep_keep t t' : t_caus t' = t_caus t -> t_rel t' = t_rel t -> rstep t t'.
Proof. intros H1 H2 H. rewrite H1, H2. exact H. Qed.
Lemma rstep_join t t' c : t_caus t' = vv_join (t_caus t) c -> t_rel t' = t_rel t -> rstep t t'.
Proof. intros H1 H2 H. rewrite H1, H2. eapply vle_trans; [exact H|apply vle_join_l]. Qed.
Lemma rstep_rel t t' : t_rel t' = t_caus t' -> rstep t t'.
Proof. intros H1 _. rewrite H1. apply vle_refl. Qed.

Lemma tk_set_threads_k e0 e ths :
  length ths = length (e_threads e) ->
  (forall j t t', nth_error (e_threads e) j = Some t -> nth_error ths j = Some t' -> rstep t t') ->
  tk e0 e -> tk e0 (ex_set_threads e ths).
Proof.
  intros Hlen Hj. apply tk_k. intros (Hm & Hl & Ht). split; [exact Hm|]. split.
  - cbn [ex_set_threads e_threads e_max_threads]. rewrite Hlen. exact Hl.
  - intros i t' Hi. cbn [ex_set_threads e_threads] in Hi.
    destruct (nth_error (e_threads e) i) as [t|] eqn:Hi0.
    + exact (Hj i t t' Hi0 Hi (Ht i t Hi0)).
    + apply nth_error_None in Hi0. assert (i < length ths) by (apply nth_error_Some; congruence). lia.
Qed.

Lemma tk_upd_thread_k e0 e i f :
  (forall t, rstep t (f t)) -> tk e0 e -> tk e0 (upd_thread e i f).
Proof.
  intros Hf. apply tk_set_threads_k; [apply list_upd_length|].
  intros j t t' Hj Hj'. destruct (Nat.eq_dec i j) as [->|Hne].
  - rewrite SyncFacts.nth_error_list_upd_same, Hj in Hj'. cbn [option_map] in Hj'. injection Hj' as <-. apply Hf.
  - rewrite SyncFacts.nth_error_list_upd_other in Hj' by exact Hne.
    assert (t' = t) by congruence. subst t'. apply rstep_refl.
Qed.

Lemma tk_mapi_k e0 e g :
  (forall id t, rstep t (g id t)) -> tk e0 e -> tk e0 (ex_set_threads e (mapi g (e_threads e))).
Proof.
  intros Hg. apply tk_set_threads_k; [apply mapi_from_length|].
  intros j t t' Hj Hj'. rewrite nth_error_mapi, Hj in Hj'. cbn [option_map] in Hj'. injection Hj' as <-.
  apply Hg.
Qed.

Lemma tk_map_others_k e0 e me p f :
  (forall t, rstep t (f t)) -> tk e0 e -> tk e0 (map_others e me p f).
Proof.
  intros Hf. unfold map_others. apply tk_mapi_k. intros id t.
  destruct (negb (Nat.eqb id me) && p t); [apply Hf|apply rstep_refl].
Qed.

Lemma tk_set_caus_k e0 e me v :
  vle (caus_of e me) v -> tk e0 e -> tk e0 (set_caus e me v).
Proof.
  intros Hle. unfold set_caus. apply tk_set_threads_k; [apply list_upd_length|].
  intros j t t' Hj Hj'. destruct (Nat.eq_dec me j) as [->|Hne].
  - rewrite SyncFacts.nth_error_list_upd_same, Hj in Hj'. cbn [option_map] in Hj'. injection Hj' as <-.
    intros H. cbn [th_set_caus t_rel t_caus].
    unfold caus_of, get_thread in Hle. rewrite Hj in Hle.
    eapply vle_trans; [exact H|exact Hle].
  - rewrite SyncFacts.nth_error_list_upd_other in Hj' by exact Hne.
    assert (t' = t) by congruence. subst t'. apply rstep_refl.
Qed.

Lemma tk_causality_inc_k e0 e me : tk e0 e -> tk e0 (causality_inc e me).
Proof. rewrite causality_inc_eq. apply tk_set_caus_k. apply vle_inc. Qed.

Lemma tk_spawn_k e0 e nt :
  t_rel nt = vv_new -> negb (Nat.ltb (length (e_threads e)) (e_max_threads e)) = false ->
  tk e0 e -> tk e0 (ex_set_threads e (e_threads e ++ [nt])).
Proof.
  intros Hr Hlt. apply tk_k. intros (Hm & Hl & Ht).
  apply negb_false_iff, Nat.ltb_lt in Hlt.
  split; [exact Hm|]. split.
  - cbn [ex_set_threads e_threads e_max_threads]. rewrite app_length. cbn [length]. lia.
  - intros i t Hi. cbn [ex_set_threads e_threads] in Hi.
    destruct (Nat.lt_ge_cases i (length (e_threads e))) as [Hlt'|Hge].
    + rewrite nth_error_app1 in Hi by exact Hlt'. exact (Ht i t Hi).
    + rewrite nth_error_app2 in Hi by exact Hge.
      destruct (i - length (e_threads e)) as [|d]; [|destruct d; discriminate Hi].
      injection Hi as <-. rewrite Hr. apply vle_new.
Qed.

(* ---- everything that does not touch the thread table ---- *)
Lemma tk_upd_object_k e0 e i f : tk e0 e -> tk e0 (upd_object e i f).
Proof. apply tk_same_k; reflexivity. Qed.
Lemma tk_set_objects_k e0 e l : tk e0 e -> tk e0 (ex_set_objects e l).
Proof. apply tk_same_k; reflexivity. Qed.
Lemma tk_set_seqcst_k e0 e v : tk e0 e -> tk e0 (ex_set_seqcst e v).
Proof. apply tk_same_k; reflexivity. Qed.
Lemma tk_set_lazy_k e0 e l : tk e0 e -> tk e0 (ex_set_lazy e l).
Proof. apply tk_same_k; reflexivity. Qed.
Lemma tk_set_path_k e0 e x : tk e0 e -> tk e0 (ex_set_path e x).
Proof. apply tk_same_k; reflexivity. Qed.
Lemma tk_set_active_k e0 e x : tk e0 e -> tk e0 (ex_set_active e x).
Proof. apply tk_same_k; reflexivity. Qed.
Lemma tk_set_spawned_k e0 e x : tk e0 e -> tk e0 (ex_set_spawned e x).
Proof. apply tk_same_k; reflexivity. Qed.
Lemma tk_set_joined_k e0 e x : tk e0 e -> tk e0 (ex_set_joined e x).
Proof. apply tk_same_k; reflexivity. Qed.
Lemma tk_set_log_k e0 e x : tk e0 e -> tk e0 (ex_set_log e x).
Proof. apply tk_same_k; reflexivity. Qed.
Lemma tk_set_h_k e0 e x : tk e0 e -> tk e0 (ex_set_h e x).
Proof. apply tk_same_k; reflexivity. Qed.
Lemma tk_upd_hobj_k e0 e i f : tk e0 e -> tk e0 (upd_hobj e i f).
Proof. apply tk_same_k; reflexivity. Qed.
Lemma tk_set_slot_k e0 e k i b : tk e0 e -> tk e0 (set_slot e k i b).
Proof. apply tk_same_k; reflexivity. Qed.
Lemma tk_log_op_k e0 e me r : tk e0 e -> tk e0 (log_op e me r).
Proof. unfold log_op. destruct (get_thread e me); [apply tk_same_k; reflexivity|auto]. Qed.
Lemma tk_log_poll_k e0 e me : tk e0 e -> tk e0 (log_poll e me).
Proof. unfold log_poll. destruct (get_thread e me); [apply tk_same_k; reflexivity|auto]. Qed.

Ltac rstep_tac :=
  intros; cbv beta;
  repeat match goal with
         | |- context [match ?x with _ => _ end] => destruct x
         end;
  first [ apply rstep_refl
        | apply rstep_keep;
          [first [reflexivity|apply t_caus_set_unparked]|first [reflexivity|apply t_rel_set_unparked]]
        | eapply rstep_join;
          [first [reflexivity|apply t_caus_thread_unpark]
          |first [reflexivity|apply t_rel_thread_unpark]]
        | apply rstep_rel; reflexivity ].

Lemma tk_push_cont_k e0 e me ms : tk e0 e -> tk e0 (push_cont e me ms).
Proof. apply tk_upd_thread_k. rstep_tac. Qed.
Lemma tk_push_guard_k e0 e me k m : tk e0 e -> tk e0 (push_guard e me k m).
Proof. apply tk_upd_thread_k. rstep_tac. Qed.
Lemma tk_drop_guard_k e0 e me k m : tk e0 e -> tk e0 (drop_guard e me k m).
Proof. apply tk_upd_thread_k. rstep_tac. Qed.

Lemma tk_threads_unpark_k e0 e me id : tk e0 e -> tk e0 (threads_unpark e me id).
Proof. unfold threads_unpark. destruct (Nat.eqb id me); apply tk_upd_thread_k; rstep_tac. Qed.

Lemma tk_fold_unpark_k me l : forall e0 e,
  tk e0 e -> tk e0 (fold_left (fun e t => threads_unpark e me t) l e).
Proof.
  induction l as [|x l IH]; intros e0 e H; cbn [fold_left]; [exact H|].
  apply IH, tk_threads_unpark_k, H.
Qed.

Lemma tk_sched_note_k e0 e nx pid th : tk e0 e -> tk e0 (sched_note e nx pid th).
Proof.
  intros H. unfold sched_note. destruct (t_op th) as [op|]; [|exact H].
  destruct (nth_error (e_objects e) (op_obj op)) as [o|]; [|exact H]. cbv zeta.
  apply tk_upd_object_k. apply tk_upd_thread_k; [rstep_tac|exact H].
Qed.

Lemma schedule_tk e : tk e (res_exec (fst (schedule e))).
Proof.
  destruct (schedule_cases e)
    as [(c & ->)|[(x & ->)|[(p1 & x & Hd & ->)|(curr & cur_th & p1 & p2 & next & Hp & ->)]]];
    cbn [fst res_exec]; try apply tk_refl.
  - apply tk_set_path_k, tk_refl.
  - assert (Hb : tk e (sched_base e p2 next))
      by (unfold sched_base; apply tk_set_active_k, tk_set_path_k, tk_refl).
    revert Hb. generalize (sched_base e p2 next). intros e1 Hb.
    unfold sched_post. destruct next as [nx|].
    + destruct (nth_error (e_threads e1) nx) as [th|]; cbn [fst res_exec]; [|exact Hb].
      unfold reactivate. apply tk_mapi_k; [rstep_tac|]. apply tk_sched_note_k, Hb.
    + destruct (forallb is_terminated (e_threads e1)); cbn [fst res_exec]; exact Hb.
Qed.

Lemma schedule_tk_k e0 e : tk e0 e -> tk e0 (res_exec (fst (schedule e))).
Proof. apply tk_k, schedule_tk. Qed.

Lemma do_branch_tk_k e0 e me obj act blk :
  tk e0 e -> tk e0 (res_exec (do_branch e me obj act blk)).
Proof. intros H. unfold do_branch. apply schedule_tk_k. apply tk_upd_thread_k; [rstep_tac|exact H]. Qed.

Lemma do_park_tk_k e0 e me : tk e0 e -> tk e0 (res_exec (do_park e me)).
Proof.
  intros H. unfold do_park. destruct (get_thread e me) as [t|]; [|exact H].
  destruct (t_token t); cbn [res_exec].
  - apply tk_upd_thread_k; [rstep_tac|exact H].
  - apply schedule_tk_k. apply tk_upd_thread_k; [rstep_tac|exact H].
Qed.

Lemma do_yield_tk_k e0 e me : tk e0 e -> tk e0 (res_exec (do_yield e me)).
Proof. intros H. unfold do_yield. apply schedule_tk_k. apply tk_upd_thread_k; [rstep_tac|exact H]. Qed.

Lemma release_lock_tk_k e0 e me m : tk e0 e -> tk e0 (release_lock e me m).
Proof.
  intros H. unfold release_lock. destruct (get_mutex e m) as [s|] eqn:Hg; [|exact H]. cbv zeta.
  match goal with |- tk _ (match e_active ?E with _ => _ end) =>
    assert (H1 : tk e0 E) by (apply tk_upd_object_k; exact H) end.
  destruct (e_active _); [|exact H1].
  apply tk_map_others_k; [rstep_tac|]. apply tk_upd_object_k; exact H1.
Qed.

Ltac tvle_side :=
  first [ apply sync_load_keeps | apply vle_join_l | apply fence_acq_keeps | apply vle_refl | apply vle_inc ].

Lemma post_acquire_tk e me m : tk e (fst (post_acquire e me m)).
Proof.
  unfold post_acquire. destruct (get_mutex e m) as [s|] eqn:Hg; [|apply tk_refl].
  destruct (is_some (mx_lock s)); cbn [fst]; [apply tk_refl|].
  apply tk_map_others_k; [rstep_tac|]. rewrite set_caus_upd_object.
  apply tk_upd_object_k. apply tk_set_caus_k; [tvle_side|apply tk_refl].
Qed.

Lemma post_acquire_read_tk e me r : tk e (fst (post_acquire_read e me r)).
Proof.
  unfold post_acquire_read. destruct (get_rw e r) as [s|] eqn:Hg; [|apply tk_refl].
  destruct (rw_lock s) as [[rs|w0]|]; cbn [fst]; try apply tk_refl.
  all: apply tk_map_others_k; [rstep_tac|]; rewrite set_caus_upd_object;
    apply tk_upd_object_k; apply tk_set_caus_k; [tvle_side|apply tk_refl].
Qed.

Lemma post_acquire_write_tk e me r : tk e (fst (post_acquire_write e me r)).
Proof.
  unfold post_acquire_write. destruct (get_rw e r) as [s|] eqn:Hg; [|apply tk_refl].
  destruct (rw_lock s) as [lk0|]; cbn [fst]; try apply tk_refl.
  apply tk_map_others_k; [rstep_tac|]; rewrite set_caus_upd_object;
    apply tk_upd_object_k; apply tk_set_caus_k; [tvle_side|apply tk_refl].
Qed.

Lemma release_read_tk e me r : tk e (res_exec (release_read e me r)).
Proof.
  unfold release_read. destruct (get_rw e r) as [s|] eqn:Hg; [|apply tk_refl]. cbv zeta.
  destruct (rw_lock s) as [[rs|w0]|]; cbn [res_exec]; try apply tk_refl.
  destruct (set_remove me rs); cbn [res_exec].
  - apply tk_map_others_k; [rstep_tac|]. apply tk_upd_object_k; apply tk_refl.
  - apply tk_upd_object_k; apply tk_refl.
Qed.

Lemma release_write_tk e me r : tk e (res_exec (release_write e me r)).
Proof.
  unfold release_write. destruct (get_rw e r) as [s|] eqn:Hg; [|apply tk_refl]. cbn [res_exec].
  apply tk_map_others_k; [rstep_tac|]. apply tk_upd_object_k; apply tk_refl.
Qed.

Lemma choose_store_same2 e seed :
  e_threads (fst (choose_store e seed)) = e_threads e /\
  e_max_threads (fst (choose_store e seed)) = e_max_threads e.
Proof.
  unfold choose_store.
  repeat match goal with
         | |- context [match ?x with _ => _ end] =>
             lazymatch x with
             | context [match _ with _ => _ end] => fail
             | _ => destruct x
             end
         end; cbn [fst]; auto.
Qed.

Lemma choose_store_tk e seed : tk e (fst (choose_store e seed)).
Proof. destruct (choose_store_same2 e seed) as (H1 & H2). apply tk_same; assumption. Qed.

(* ---- atomic accesses ---- *)
Lemma core_tk E E1 me a t c' o' :
  get_thread E me = Some t -> e_threads E1 = e_threads E -> e_max_threads E1 = e_max_threads E ->
  vle (t_caus t) c' ->
  tk E (set_caus (upd_object E1 a (fun _ => o')) me c').
Proof.
  intros Ht H1 H2 Hle. rewrite set_caus_upd_object. apply tk_upd_object_k.
  apply tk_set_caus_k; [|apply tk_same; assumption].
  unfold caus_of, get_thread. rewrite H1. unfold get_thread in Ht. rewrite Ht. exact Hle.
Qed.

Ltac tclose_step :=
  match goal with
  | |- tk ?e ?e => apply tk_refl
  | H : tk ?E ?x |- tk _ ?x => apply (tk_trans _ E x); [|exact H]
  | |- tk _ (log_op _ _ _) => apply tk_log_op_k
  | |- tk _ (log_poll _ _) => apply tk_log_poll_k
  | |- tk _ (push_cont _ _ _) => apply tk_push_cont_k
  | |- tk _ (push_guard _ _ _ _) => apply tk_push_guard_k
  | |- tk _ (drop_guard _ _ _ _) => apply tk_drop_guard_k
  | |- tk _ (causality_inc _ _) => apply tk_causality_inc_k
  | |- tk _ (set_slot _ _ _ _) => apply tk_set_slot_k
  | |- tk _ (release_lock _ _ _) => apply release_lock_tk_k
  | |- tk _ (threads_unpark _ _ _) => apply tk_threads_unpark_k
  | |- tk _ (fold_left _ _ _) => apply tk_fold_unpark_k
  | |- tk _ (ex_set_path _ _) => apply tk_set_path_k
  | |- tk _ (ex_set_active _ _) => apply tk_set_active_k
  | |- tk _ (ex_set_spawned _ _) => apply tk_set_spawned_k
  | |- tk _ (ex_set_joined _ _) => apply tk_set_joined_k
  | |- tk _ (ex_set_log _ _) => apply tk_set_log_k
  | |- tk _ (ex_set_seqcst _ _) => apply tk_set_seqcst_k
  | |- tk _ (ex_set_lazy _ _) => apply tk_set_lazy_k
  | |- tk _ (ex_set_objects _ _) => apply tk_set_objects_k
  | |- tk _ (ex_set_threads ?e (e_threads ?e ++ [_])) =>
      eapply tk_spawn_k; [reflexivity|assumption|]
  | |- tk _ (upd_object _ _ _) => apply tk_upd_object_k
  | |- tk _ (upd_thread _ _ _) => apply tk_upd_thread_k; [rstep_tac|]
  | |- tk _ (upd_hobj _ _ _) => apply tk_upd_hobj_k
  | |- tk _ (set_caus _ _ _) => apply tk_set_caus_k; [tvle_side|]
  | |- tk _ (map_others _ _ _ _) => apply tk_map_others_k; [rstep_tac|]
  end.

Ltac tclose :=
  cbn [res_exec lp_exec];
  repeat tclose_step.

Ltac tstep :=
  match goal with
  | |- tk _ (res_exec (fst (schedule _))) => apply schedule_tk_k
  | |- tk _ (res_exec (do_branch _ _ _ _ _)) => apply do_branch_tk_k
  | |- tk _ (res_exec (do_park _ _)) => apply do_park_tk_k
  | |- tk _ (res_exec (do_yield _ _)) => apply do_yield_tk_k
  | |- context [post_acquire ?e ?me ?m] =>
      let H := fresh "Hfr" in
      pose proof (post_acquire_tk e me m) as H;
      destruct (post_acquire e me m); cbn [fst] in H
  | |- context [post_acquire_read ?e ?me ?m] =>
      let H := fresh "Hfr" in
      pose proof (post_acquire_read_tk e me m) as H;
      destruct (post_acquire_read e me m); cbn [fst] in H
  | |- context [post_acquire_write ?e ?me ?m] =>
      let H := fresh "Hfr" in
      pose proof (post_acquire_write_tk e me m) as H;
      destruct (post_acquire_write e me m); cbn [fst] in H
  | |- context [release_read ?e ?me ?m] =>
      let H := fresh "Hfr" in
      pose proof (release_read_tk e me m) as H;
      destruct (release_read e me m); cbn [res_exec] in H
  | |- context [release_write ?e ?me ?m] =>
      let H := fresh "Hfr" in
      pose proof (release_write_tk e me m) as H;
      destruct (release_write e me m); cbn [res_exec] in H
  | |- context [match ?x with _ => _ end] =>
      lazymatch x with
      | context [match _ with _ => _ end] => fail
      | _ => destruct x eqn:?
      end
  end; cbv beta iota.

Ltac tk_tac :=
  cbn [exec_micro]; unfold lift_path, mbind; cbv beta iota;
  repeat tstep; tclose.

Lemma load_post_tk e me a o : tk e (lp_exec (load_post e me a o)).
Proof.
  unfold load_post.
  assert (H0 : tk e (causality_inc e me)) by (apply tk_causality_inc_k, tk_refl).
  revert H0. generalize (causality_inc e me). intros E H0.
  destruct (get_atomic E a) as [s|] eqn:Hg; [|exact H0].
  destruct (get_thread E me) as [t|] eqn:Ht; [|exact H0].
  destruct (choose_store_same2 E (match_load_to_stores s me (t_caus t) (t_last_yield t) o))
    as (H1 & H2).
  destruct (choose_store E _) as [E1 [idx|pn]]; cbn [fst] in *.
  - destruct (atomic_load s me (t_caus t) idx o) as [[[s' c'] v]|pn] eqn:Hl; cbn [lp_exec].
    + eapply tk_trans; [exact H0|]. eapply core_tk; try eassumption.
      eapply atomic_load_monotone; exact Hl.
    + eapply tk_trans; [exact H0|apply tk_same; assumption].
  - cbn [lp_exec]. eapply tk_trans; [exact H0|apply tk_same; assumption].
Qed.

Lemma load_micro_tk e me a o aw : tk e (res_exec (exec_micro e me (MLoadPost a o aw))).
Proof.
  cbn [exec_micro].
  assert (H0 : tk e (causality_inc e me)) by (apply tk_causality_inc_k, tk_refl).
  revert H0. generalize (causality_inc e me). intros E H0.
  destruct (get_atomic E a) as [s|] eqn:Hg; [|exact H0].
  destruct (get_thread E me) as [t|] eqn:Ht; [|exact H0].
  destruct (choose_store_same2 E (match_load_to_stores s me (t_caus t) (t_last_yield t) o))
    as (H1 & H2).
  destruct (choose_store E _) as [E1 [idx|pn]]; cbn [fst] in *.
  - destruct (atomic_load s me (t_caus t) idx o) as [[[s' c'] v]|pn] eqn:Hl; cbn [res_exec].
    + assert (Hc : tk e (set_caus (upd_object E1 a (fun _ => OAtomic s')) me c')).
      { eapply tk_trans; [exact H0|]. eapply core_tk; try eassumption.
        eapply atomic_load_monotone; exact Hl. }
      destruct aw as [want|]; [destruct (N.eqb v want)|]; cbn [res_exec];
        repeat first [apply tk_push_cont_k|apply tk_log_op_k]; exact Hc.
    + eapply tk_trans; [exact H0|apply tk_same; assumption].
  - cbn [res_exec]. eapply tk_trans; [exact H0|apply tk_same; assumption].
Qed.

Lemma fu_load_micro_tk e me a f v so fo :
  tk e (res_exec (exec_micro e me (MFuLoadPost a f v so fo))).
Proof.
  cbn [exec_micro].
  assert (H0 : tk e (causality_inc e me)) by (apply tk_causality_inc_k, tk_refl).
  revert H0. generalize (causality_inc e me). intros E H0.
  destruct (get_atomic E a) as [s|] eqn:Hg; [|exact H0].
  destruct (get_thread E me) as [t|] eqn:Ht; [|exact H0].
  destruct (choose_store_same2 E (match_load_to_stores s me (t_caus t) (t_last_yield t) fo))
    as (H1 & H2).
  destruct (choose_store E _) as [E1 [idx|pn]]; cbn [fst] in *.
  - destruct (atomic_load s me (t_caus t) idx fo) as [[[s' c'] prev]|pn] eqn:Hl; cbn [res_exec].
    + apply tk_push_cont_k. eapply tk_trans; [exact H0|]. eapply core_tk; try eassumption.
      eapply atomic_load_monotone; exact Hl.
    + eapply tk_trans; [exact H0|apply tk_same; assumption].
  - cbn [res_exec]. eapply tk_trans; [exact H0|apply tk_same; assumption].
Qed.

Lemma rmw_micro_tk e me a k so fo : tk e (res_exec (exec_micro e me (MRmwPost a k so fo))).
Proof.
  cbn [exec_micro].
  assert (H0 : tk e (causality_inc e me)) by (apply tk_causality_inc_k, tk_refl).
  revert H0. generalize (causality_inc e me). intros E H0.
  destruct (get_atomic E a) as [s|] eqn:Hg; [|exact H0].
  destruct (get_thread E me) as [t|] eqn:Ht; [|exact H0].
  destruct (choose_store_same2 E (match_rmw_to_stores s)) as (H1 & H2).
  destruct (choose_store E _) as [E1 [idx|pn]]; cbn [fst] in *.
  - destruct (atomic_rmw s me (t_caus t) (t_rel t) idx so fo (rmw_fun k))
      as [[[[s' c'] prev] ok]|pn] eqn:Hl; cbn [res_exec].
    + assert (Hc : tk e (set_caus (upd_object E1 a (fun _ => OAtomic s')) me c')).
      { eapply tk_trans; [exact H0|]. eapply core_tk; try eassumption.
        eapply atomic_rmw_monotone; exact Hl. }
      destruct k; try destruct ok; cbn [res_exec];
        repeat first [apply tk_push_cont_k|apply tk_log_op_k]; exact Hc.
    + eapply tk_trans; [exact H0|apply tk_same; assumption].
  - cbn [res_exec]. eapply tk_trans; [exact H0|apply tk_same; assumption].
Qed.

Ltac tstep' :=
  first [ match goal with
          | |- context [load_post ?e ?me ?a ?o] =>
              let H := fresh "Hfr" in
              pose proof (load_post_tk e me a o) as H;
              destruct (load_post e me a o) as [[? ?]|[? ?]]; cbn [lp_exec] in H; cbv beta iota
          end
        | tstep ].

Ltac tk_tac' :=
  cbn [exec_micro]; unfold lift_path, mbind; cbv beta iota;
  repeat tstep'; tclose.

Lemma exec_micro_tk e me m : tk e (res_exec (exec_micro e me m)).
Proof.
  destruct m;
    try apply load_micro_tk; try apply fu_load_micro_tk; try apply rmw_micro_tk;
    timeout 60 tk_tac'.
Qed.

(* ================================================================== *)
(* 2. The invariant along executions                                    *)
(* ================================================================== *)

Lemma pop_cont_tk e me rest : tk e (upd_thread e me (fun t => th_set_cont t rest)).
Proof. apply tk_upd_thread_k; [rstep_tac|apply tk_refl]. Qed.

Theorem steps_tinv : forall e e', steps e e' -> tinv e -> tinv e'.
Proof.
  intros e e' H. induction H as [e|e me t m rest e1 e2 Hact Ht Hc Hx Hs IH]; intros Hi; [exact Hi|].
  apply IH. pose proof (exec_micro_tk (upd_thread e me (fun t => th_set_cont t rest)) me m) as Hk.
  rewrite Hx in Hk. cbn [res_exec] in Hk. apply Hk. apply (pop_cont_tk e me rest Hi).
Qed.

Theorem init_tinv : forall p pa, max_threads (p_cfg p) <= MAX_THREADS -> tinv (init_exec p pa).
Proof.
  intros p pa Hm. unfold init_exec. cbv zeta. split; [exact Hm|]. split.
  - cbn [e_threads e_max_threads length]. lia.
  - intros i t Hi. cbn [e_threads] in Hi. destruct i as [|i]; [|destruct i; discriminate Hi].
    injection Hi as <-. apply vle_refl.
Qed.

Lemma one_le_MAX_THREADS : 1 <= MAX_THREADS.
Proof. unfold MAX_THREADS. lia. Qed.

(* (A) every thread's released clock is below its clock, in every reachable state *)
Theorem run_rel_le_caus : forall p pa e i t,
  max_threads (p_cfg p) <= MAX_THREADS -> steps (init_exec p pa) e ->
  nth_error (e_threads e) i = Some t -> vle (t_rel t) (t_caus t).
Proof.
  intros p pa e i t Hm Hs Hi.
  destruct (steps_tinv _ _ Hs (init_tinv p pa Hm)) as (_ & _ & H). exact (H i t Hi).
Qed.

(* (B) never more than MAX_THREADS threads *)
Theorem run_threads_bound : forall p pa e,
  max_threads (p_cfg p) <= MAX_THREADS -> steps (init_exec p pa) e ->
  length (e_threads e) <= MAX_THREADS.
Proof.
  intros p pa e Hm Hs.
  destruct (steps_tinv _ _ Hs (init_tinv p pa Hm)) as (H1 & H2 & _).
  pose proof one_le_MAX_THREADS. lia.
Qed.

(* ================================================================== *)
(* 3. The run-level theorem with two hypotheses                         *)
(* ================================================================== *)

(* what remains: the ring of a has room at every access (loom's history bound),
   and the replayed path holds only candidate indices at the accesses to a *)
Definition SideOK2 (a : nat) (e : exec) (me : nat) (m : micro) : Prop :=
  (forall s, get_atomic e a = Some s -> at_cnt s < MAX_ATOMIC_HISTORY) /\
  (forall s t0 seed e2 idx l,
     get_atomic e a = Some s -> get_thread e me = Some t0 -> micro_seed s me t0 m = Some seed ->
     choose_store (causality_inc e me) seed = (e2, inl idx) -> seed = Some l -> l <> [] -> In idx l).

Definition RunOK2 (p : prog) (pa : path) (a : nat) : Prop :=
  forall e me t m rest,
    steps (init_exec p pa) e -> e_active e = Some me ->
    nth_error (e_threads e) me = Some t -> t_cont t = m :: rest -> acc_on a m ->
    SideOK2 a (upd_thread e me (fun t => th_set_cont t rest)) me m.

Theorem RunOK2_RunOK : forall p pa a,
  max_threads (p_cfg p) <= MAX_THREADS -> RunOK2 p pa a -> RunOK p pa a.
Proof.
  intros p pa a Hm Hok e me t m rest Hs Hact Ht Hc Ha.
  destruct (Hok e me t m rest Hs Hact Ht Hc Ha) as [H3 H4].
  pose proof (steps_tinv _ _ Hs (init_tinv p pa Hm)) as Hi.
  pose proof (pop_cont_tk e me rest Hi) as (_ & _ & Hrel).
  split; [|split; [|split; [exact H3|exact H4]]].
  - pose proof (run_threads_bound p pa e Hm Hs) as Hb.
    assert (me < length (e_threads e)) by (apply nth_error_Some; congruence). lia.
  - intros t0 Ht0. exact (Hrel me t0 Ht0).
Qed.

Theorem run_goodAt2 : forall p pa a s0 e,
  max_threads (p_cfg p) <= MAX_THREADS ->
  get_atomic (init_exec p pa) a = Some s0 -> RunOK2 p pa a ->
  steps (init_exec p pa) e -> GoodAt a e.
Proof.
  intros p pa a s0 e Hm Hs0 Hok Hs.
  exact (run_goodAt p pa a s0 e Hs0 (RunOK2_RunOK p pa a Hm Hok) Hs).
Qed.

Theorem run_atomicity2 : forall p pa a s0 e s r sl sid,
  max_threads (p_cfg p) <= MAX_THREADS ->
  get_atomic (init_exec p pa) a = Some s0 -> RunOK2 p pa a -> steps (init_exec p pa) e ->
  get_atomic e a = Some s -> r < at_cnt s -> st_rmw_src (get_store s r) = Some (sl, sid) ->
  sl < at_cnt s /\ vv_lt (mo s sl) (mo s r) = true /\
  forall x, x < at_cnt s -> vv_lt (mo s sl) (mo s x) && vv_lt (mo s x) (mo s r) = false.
Proof.
  intros p pa a s0 e s r sl sid Hm Hs0 Hok.
  exact (run_atomicity p pa a s0 e s r sl sid Hs0 (RunOK2_RunOK p pa a Hm Hok)).
Qed.

Theorem steps_stable2 : forall p pa a s0 e e' s x y,
  max_threads (p_cfg p) <= MAX_THREADS ->
  get_atomic (init_exec p pa) a = Some s0 -> RunOK2 p pa a ->
  steps (init_exec p pa) e -> steps e e' ->
  get_atomic e a = Some s -> x < at_cnt s -> y < at_cnt s -> vv_lt (mo s x) (mo s y) = true ->
  exists s', get_atomic e' a = Some s' /\ x < at_cnt s' /\ y < at_cnt s' /\
             vv_lt (mo s' x) (mo s' y) = true.
Proof.
  intros p pa a s0 e e' s x y Hm Hs0 Hok.
  exact (steps_stable p pa a s0 e e' s x y Hs0 (RunOK2_RunOK p pa a Hm Hok)).
Qed.

Theorem CoRR_CoWR_steps2 : forall p pa a s0 e e' s t i j,
  max_threads (p_cfg p) <= MAX_THREADS ->
  get_atomic (init_exec p pa) a = Some s0 -> RunOK2 p pa a ->
  steps (init_exec p pa) e -> steps e e' ->
  get_atomic e a = Some s -> t < MAX_THREADS -> i < at_cnt s -> j < at_cnt s ->
  vv_lt (mo s i) (mo s j) = true ->
  is_seen_by_current (st_seen (get_store s j)) (caus_of e t) = true ->
  exists s', get_atomic e' a = Some s' /\
    (forall ly o l, match_load_to_stores s' t (vv_inc (caus_of e' t) t) ly o = Some l -> ~ In i l) /\
    (forall l, match_rmw_to_stores s' = Some l -> ~ In i l).
Proof.
  intros p pa a s0 e e' s t i j Hm Hs0 Hok.
  exact (CoRR_CoWR_steps p pa a s0 e e' s t i j Hs0 (RunOK2_RunOK p pa a Hm Hok)).
Qed.

Print Assumptions exec_micro_tk.
Print Assumptions steps_tinv.
Print Assumptions init_tinv.
Print Assumptions run_rel_le_caus.
Print Assumptions run_threads_bound.
Print Assumptions RunOK2_RunOK.
Print Assumptions run_goodAt2.
Print Assumptions run_atomicity2.
Print Assumptions steps_stable2.
Print Assumptions CoRR_CoWR_steps2.
