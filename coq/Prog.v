(* The program language shared by the model, the reference semantics, the
   OCaml driver and the Rust harness (harness/src/prog.rs). *)
Require Import LV.Base.

Inductive ord := Relaxed | Release | Acquire | AcqRel | SeqCst.

Inductive rmwop := RSwap | RAdd | RSub | RAnd | RNand | ROr | RXor | RMax | RMin.

(* object declarations; the i-th declared object is entry i of the store *)
Inductive decl :=
  | DAtomic (init : N) | DMutex | DRwLock | DCondvar | DNotify | DChan | DCell
  | DArc | DTrack | DWaker.

Inductive instr :=
  | ISpawn (b : nat) | IJoin (b : nat)
  | ILoad (a : nat) (o : ord)
  | IStore (a : nat) (v : N) (o : ord)
  | IRmw (a : nat) (f : rmwop) (v : N) (o : ord)
  | ICas (a : nat) (e n : N) (so fo : ord)
  | IFetchUpdate (a : nat) (f : rmwop) (v : N) (so fo : ord)
  | IFence (o : ord)
  | ILock (m : nat) | ITryLock (m : nat) | IUnlock (m : nat)
  | IRead (r : nat) | IWrite (r : nat) | ITryRead (r : nat) | ITryWrite (r : nat)
  | IUnread (r : nat) | IUnwrite (r : nat)
  | IWait (c m : nat) | INotifyOne (c : nat) | INotifyAll (c : nat)
  | INWait (n : nat) | INNotify (n : nat)
  | IPark | IUnpark (b : nat)
  | ISend (h : nat) (v : N) | IRecv (h : nat) | ITryRecv (h : nat) | IDropRx (h : nat)
  | ICellRead (u : nat) | ICellWrite (u : nat)
  | ICellNested (u k : nat)     (* an access from inside another access of the same thread: 0 write in read, 1 read in write, 2 write in write, 3 read in read *)
  | IYield
  | IAwait (a : nat) (v : N) (o : ord)
  | IUnsyncLoad (a : nat) | IWithMut (a : nat) (v : N)
  | IArcClone (k i j : nat) | IArcDrop (k i : nat) | IArcCount (k i : nat)
  | IArcGetMut (k i : nat) | IArcTryUnwrap (k i : nat)
  | ITrackDrop (k : nat)
  | ITlsWith (k : nat) | ILazyGet (k : nat)
  | IBlockOn (a : nat) (v : N) (w : nat) | IWake (w : nat) | ITakeWaker (w : nat)
  | IBlockOnS (a : nat) (v : N) (b1 b2 : nat)   (* block_on whose first Pending poll spawns b1, b2 with one waker each *)
  | IWakeMine                                   (* wake() on the waker handed to this thread *)
  | IPanic
  | IExplore | IStopExploring | ISkipBranch.

Record config := mkConfig {
  max_threads : nat;
  max_branches : nat;
  preemption_bound : option nat;
  max_permutations : option nat;
  checkpoint_interval : option nat;   (* None = the default 20000: never reached *)
  explicit_explore : bool
}.

Record prog := mkProg {
  p_cfg : config;
  p_decls : list decl;
  p_bodies : list (list instr)
}.

(* 64-bit wrap-around of usize arithmetic *)
Definition two64 : N := 18446744073709551616%N.
Definition wrap64 (x : N) : N := N.modulo x two64.

Definition apply_rmw (f : rmwop) (x v : N) : N :=
  match f with
  | RSwap => v
  | RAdd => wrap64 (x + v)
  | RSub => wrap64 (x + two64 - v)
  | RAnd => N.land x v
  | RNand => N.lxor (N.land x v) (two64 - 1)
  | ROr => N.lor x v
  | RXor => N.lxor x v
  | RMax => N.max x v
  | RMin => N.min x v
  end.
