
val negb : bool -> bool

type nat =
| O
| S of nat

val option_map : ('a1 -> 'a2) -> 'a1 option -> 'a2 option

type ('a, 'b) sum =
| Inl of 'a
| Inr of 'b

val fst : ('a1 * 'a2) -> 'a1

val snd : ('a1 * 'a2) -> 'a2

val length : 'a1 list -> nat

val app : 'a1 list -> 'a1 list -> 'a1 list

type comparison =
| Eq
| Lt
| Gt

val add : nat -> nat -> nat

val mul : nat -> nat -> nat

val sub : nat -> nat -> nat

module Nat :
 sig
  val sub : nat -> nat -> nat

  val eqb : nat -> nat -> bool

  val leb : nat -> nat -> bool

  val ltb : nat -> nat -> bool

  val compare : nat -> nat -> comparison

  val max : nat -> nat -> nat

  val min : nat -> nat -> nat

  val divmod : nat -> nat -> nat -> nat -> nat * nat

  val modulo : nat -> nat -> nat
 end

val nth : nat -> 'a1 list -> 'a1 -> 'a1

val nth_error : 'a1 list -> nat -> 'a1 option

val rev : 'a1 list -> 'a1 list

val map : ('a1 -> 'a2) -> 'a1 list -> 'a2 list

val fold_left : ('a1 -> 'a2 -> 'a1) -> 'a2 list -> 'a1 -> 'a1

val existsb : ('a1 -> bool) -> 'a1 list -> bool

val forallb : ('a1 -> bool) -> 'a1 list -> bool

val filter : ('a1 -> bool) -> 'a1 list -> 'a1 list

val seq : nat -> nat -> nat list

val repeat : 'a1 -> nat -> 'a1 list

type positive =
| XI of positive
| XO of positive
| XH

type n =
| N0
| Npos of positive

module Pos :
 sig
  type mask =
  | IsNul
  | IsPos of positive
  | IsNeg
 end

module Coq_Pos :
 sig
  val succ : positive -> positive

  val add : positive -> positive -> positive

  val add_carry : positive -> positive -> positive

  val pred_double : positive -> positive

  type mask = Pos.mask =
  | IsNul
  | IsPos of positive
  | IsNeg

  val succ_double_mask : mask -> mask

  val double_mask : mask -> mask

  val double_pred_mask : positive -> mask

  val sub_mask : positive -> positive -> mask

  val sub_mask_carry : positive -> positive -> mask

  val compare_cont : comparison -> positive -> positive -> comparison

  val compare : positive -> positive -> comparison

  val eqb : positive -> positive -> bool

  val coq_Nsucc_double : n -> n

  val coq_Ndouble : n -> n

  val coq_lor : positive -> positive -> positive

  val coq_land : positive -> positive -> n

  val coq_lxor : positive -> positive -> n

  val of_succ_nat : nat -> positive
 end

module N :
 sig
  val succ_double : n -> n

  val double : n -> n

  val add : n -> n -> n

  val sub : n -> n -> n

  val compare : n -> n -> comparison

  val eqb : n -> n -> bool

  val leb : n -> n -> bool

  val min : n -> n -> n

  val max : n -> n -> n

  val pos_div_eucl : positive -> n -> n * n

  val div_eucl : n -> n -> n * n

  val modulo : n -> n -> n

  val coq_lor : n -> n -> n

  val coq_land : n -> n -> n

  val coq_lxor : n -> n -> n

  val of_nat : nat -> n
 end

val mAX_THREADS : nat

val mAX_ATOMIC_HISTORY : nat

val list_set : 'a1 list -> nat -> 'a1 -> 'a1 list

val list_upd : 'a1 list -> nat -> ('a1 -> 'a1) -> 'a1 list

val find_index : ('a1 -> bool) -> 'a1 list -> nat option

val find_last_index : ('a1 -> bool) -> 'a1 list -> nat option

val opt_nat_eqb : nat option -> nat option -> bool

val is_some : 'a1 option -> bool

val pad_to : nat -> 'a1 -> 'a1 list -> 'a1 list

val mapi_from : nat -> (nat -> 'a1 -> 'a2) -> 'a1 list -> 'a2 list

val mapi : (nat -> 'a1 -> 'a2) -> 'a1 list -> 'a2 list

val index_list_from : nat -> 'a1 list -> (nat * 'a1) list

val index_list : 'a1 list -> (nat * 'a1) list

type vv = nat list

val vv_new : vv

val vv_get : vv -> nat -> nat

val vv_inc : vv -> nat -> vv

val vv_join : vv -> vv -> vv

val vv_ahead_from : nat -> vv -> vv -> nat option

val vv_ahead : vv -> vv -> nat option

val vv_zip : vv -> vv -> (nat * nat) list

val vv_pcmp_acc : comparison -> (nat * nat) list -> comparison option

val vv_pcmp : vv -> vv -> comparison option

val vv_le : vv -> vv -> bool

val vv_lt : vv -> vv -> bool

val vv_eqb : vv -> vv -> bool

type tstat =
| Disabled
| Skip
| TYield
| Pending
| Active
| Visited

val tstat_eqb : tstat -> tstat -> bool

val is_active : tstat -> bool

val is_pending : tstat -> bool

val is_disabled : tstat -> bool

val is_enabled : tstat -> bool

val explore_t : tstat -> tstat

type schedule = { s_pre : nat; s_ia : nat option; s_threads : tstat list;
                  s_prev : nat option; s_ex : bool }

type load = { l_vals : nat list; l_pos : nat; l_ex : bool }

type spurious = { p_spur : bool; p_ex : bool }

type entry =
| ESched of schedule
| ELoad of load
| ESpur of spurious

type path = { bound : nat option; pos : nat; branches : entry list;
              exploring : bool; skipping : bool; eos : bool; cap : nat }

type ppanic =
| PBranchLimit
| PNondet
| PNotCritical
| PNotExploring
| PInternal of nat

type 'a pres =
| POk of 'a
| PErr of ppanic

val path_new : nat -> nat option -> bool -> path

val set_pos : path -> nat -> path

val set_branches : path -> entry list -> path

val set_flags : path -> bool -> bool -> path

val explore_state : path -> path pres

val critical : path -> path pres

val skip_branch : path -> path

val is_traversed : path -> bool

val path_len_ok : path -> bool

val push_load : path -> nat list -> path pres

val branch_load : path -> (path * nat) pres

val branch_spurious : path -> (path * bool) pres

val active_thread_index : schedule -> nat option

val preemptions : schedule -> nat

val is_sched : entry -> bool

val last_schedule : path -> nat option

val get_sched : entry list -> nat -> schedule option

val activate_first_yield : tstat list -> tstat list

val opt_le_bound : nat -> nat option -> bool

val branch_thread : path -> tstat list -> (path * nat option) pres

val sched_backtrack : schedule -> nat -> nat option -> schedule pres

val find_backtrack_point : entry list -> nat -> nat -> nat option pres

val upd_sched : entry list -> nat -> schedule -> entry list

val conservative :
  entry list -> nat -> nat -> nat option -> nat -> entry list pres

val backtrack : path -> nat -> nat -> path pres

val visit_active : tstat list -> tstat list

val activate_pending : tstat list -> tstat list option

val advance_entry : entry -> entry option

val step_rev : entry list -> entry list option

val step : path -> path option

type ord =
| Relaxed
| Release
| Acquire
| AcqRel
| SeqCst

type rmwop =
| RSwap
| RAdd
| RSub
| RAnd
| RNand
| ROr
| RXor
| RMax
| RMin

type decl =
| DAtomic of n
| DMutex
| DRwLock
| DCondvar
| DNotify
| DChan
| DCell
| DArc
| DTrack

type instr =
| ISpawn of nat
| IJoin of nat
| ILoad of nat * ord
| IStore of nat * n * ord
| IRmw of nat * rmwop * n * ord
| ICas of nat * n * n * ord * ord
| IFetchUpdate of nat * rmwop * n * ord * ord
| IFence of ord
| ILock of nat
| ITryLock of nat
| IUnlock of nat
| IRead of nat
| IWrite of nat
| ITryRead of nat
| ITryWrite of nat
| IUnread of nat
| IUnwrite of nat
| IWait of nat * nat
| INotifyOne of nat
| INotifyAll of nat
| INWait of nat
| INNotify of nat
| IPark
| IUnpark of nat
| ISend of nat * n
| IRecv of nat
| ITryRecv of nat
| IDropRx of nat
| ICellRead of nat
| ICellWrite of nat
| IYield
| IAwait of nat * n * ord
| IUnsyncLoad of nat
| IWithMut of nat * n
| IArcClone of nat * nat * nat
| IArcDrop of nat * nat
| IArcCount of nat * nat
| IArcGetMut of nat * nat
| IArcTryUnwrap of nat * nat
| ITrackDrop of nat
| IPanic
| IExplore
| IStopExploring
| ISkipBranch

type config = { max_threads : nat; max_branches : nat;
                preemption_bound : nat option; max_permutations : nat option;
                checkpoint_interval : nat option; explicit_explore : 
                bool }

type prog = { p_cfg : config; p_decls : decl list; p_bodies : instr list list }

val two64 : n

val wrap64 : n -> n

val apply_rmw : rmwop -> n -> n -> n

type action =
| AOpaque
| ALoad
| AStore
| ARmw
| ARefInc
| ARefDec
| AInspect
| ASend
| ARecv
| ARead
| AWrite

val action_eqb : action -> action -> bool

type operation = { op_obj : nat; op_act : action }

type tstate =
| Runnable of bool
| Blocked
| Yielded
| Terminated

type access = { a_path_id : nat; a_vv : vv }

type astore = { st_value : n; st_hb : vv; st_mo : vv; st_sync : vv;
                st_seen : nat option list; st_seqcst : bool }

val seen_new : nat option list

val store_default : astore

type atomic_state = { at_loaded : vv; at_unsync_loaded : vv; at_stored : 
                      vv; at_unsync_mut : vv; at_mutating : bool;
                      at_last : access option;
                      at_last_nonload : access option;
                      at_stores : astore list; at_cnt : nat }

type mutex_state = { mx_seqcst : bool; mx_lock : nat option;
                     mx_last : access option; mx_sync : vv }

type rwlocked =
| RLRead of nat list
| RLWrite of nat

type rwlock_state = { rw_lock : rwlocked option; rw_last : access option;
                      rw_sync : vv }

type condvar_state = { cv_last : access option; cv_waiters : nat list }

type notify_state = { nt_spurious : bool; nt_did_spur : bool;
                      nt_seqcst : bool; nt_notified : bool;
                      nt_last : access option; nt_sync : vv }

type chan_state = { ch_cnt : nat; ch_last_send : access option;
                    ch_last_recv : access option; ch_sender_sync : vv;
                    ch_recv_sync : vv list }

type refmod =
| RMInc
| RMDec

type arc_state = { arc_cnt : nat; arc_sync : vv;
                   arc_last_inc : access option;
                   arc_last_dec : access option;
                   arc_last_inspect : access option;
                   arc_last_mod : refmod option }

type cell_state = { ce_reading : nat; ce_writing : bool; ce_read : vv;
                    ce_write : vv }

type object0 =
| OAlloc of bool
| OArc of arc_state
| OAtomic of atomic_state
| OMutex of mutex_state
| OCondvar of condvar_state
| ONotify of notify_state
| ORwLock of rwlock_state
| OChannel of chan_state
| OCell of cell_state

type causality_kind =
| CLoadMut
| CUnsyncLoadMut
| CUnsyncLoadStore
| CStoreMut
| CStoreUnsyncLoad
| CMutLoad
| CMutUnsyncLoad
| CMutStore
| CMutMut
| CCellReadWrite
| CCellWriteWrite
| CCellWriteRead

type leak_kind =
| LArc
| LAlloc
| LMsgs

type panic =
| PanicPath of ppanic
| PanicDeadlock of tstate list
| PanicCausality of causality_kind
| PanicLeak of leak_kind * nat
| PanicUser
| PanicExpectLock
| PanicExpectRead
| PanicExpectWrite
| PanicNotified
| PanicExpectMsg
| PanicArcReleased
| PanicArcReleased2
| PanicMaxThreads
| PanicNotifyWaiter
| PanicRelaxedFence
| PanicMoEq
| PanicRwCorrupt
| PanicCellWriting
| PanicCellReading
| PanicMutating
| PanicRwInvalid
| PanicModel of nat

val access_hb : access -> vv -> bool

val set_or_create : nat -> vv -> access option

val last_dependent_access : object0 -> action -> access option option

val set_last_access : object0 -> action -> nat -> vv -> object0

val leak_of : object0 -> leak_kind option

val check_for_leaks_from : nat -> object0 list -> panic option

val check_for_leaks : object0 list -> panic option

type result =
| RUnit
| RVal of n
| ROk of n
| RErr of n
| RBool of bool
| RX
| REmpty
| RDisc

type logline =
| LOp of nat * nat * result
| LDrop of nat

type blockcond =
| BNever
| BAlways
| BMutexLocked
| BRwWrite
| BRwAny
| BChanEmpty

type lockmode =
| LMLock
| LMTry
| LMReacquire

type rmwkind =
| KOp of rmwop * n
| KCas of n * n
| KFu of rmwop * n * n

type gkind =
| GMutex
| GRead
| GWrite

val gkind_eqb : gkind -> gkind -> bool

type micro =
| MBegin of nat
| MLog of result
| MSpawn of nat
| MBranch of nat * action * blockcond
| MJoin of nat
| MNotifyWait1 of nat
| MNotifyWait2 of nat
| MNotifyPost of nat
| MExitNotify
| MLoadPost of nat * ord * n option
| MFuLoadPost of nat * rmwop * n * ord * ord
| MStorePost of nat * n * ord
| MRmwPost of nat * rmwkind * ord * ord
| MFence of ord
| MLockPost of nat * lockmode
| MUnlock of nat
| MReadPost of nat * bool
| MWritePost of nat * bool
| MUnread of nat
| MUnwrite of nat
| MWait of nat * nat
| MCvWait of nat * nat
| MPark
| MCvNotify of nat * bool
| MUnpark of nat
| MSendPost of nat * n
| MRecvPost of nat * bool
| MRecv of nat
| MTryRecv of nat
| MDropRx of nat
| MCellRead of nat
| MCellWrite of nat * n
| MYield
| MUnsyncLoad of nat
| MWithMut of nat * n
| MArcClone of nat * nat * nat
| MArcIncPost of nat * nat
| MArcDrop of nat * nat
| MArcDecPost of nat * bool
| MArcCount of nat * nat
| MArcCountPost of nat
| MArcGetMut of nat * nat * bool
| MArcGetMutPost of nat * nat * bool
| MTrackDrop of nat
| MPanic
| MExplore
| MStop
| MSkip
| MNWaitBegin of nat
| MNWaitEnd of nat
| MReleaseAll
| MLazyDrop
| MDropLocals
| MTerminate

type thread = { t_state : tstate; t_op : operation option; t_caus : vv;
                t_rel : vv; t_dpor : vv; t_last_yield : nat option;
                t_yield_count : nat; t_cont : micro list; t_body : nat;
                t_pc : nat; t_guards : (gkind * nat) list }

val thread_new : nat -> micro list -> thread

val th_set_state : thread -> tstate -> thread

val th_set_op : thread -> operation option -> thread

val th_set_caus : thread -> vv -> thread

val th_set_rel : thread -> vv -> thread

val th_set_dpor : thread -> vv -> thread

val th_set_cont : thread -> micro list -> thread

val th_set_pc : thread -> nat -> thread

val th_set_guards : thread -> (gkind * nat) list -> thread

val is_runnable : thread -> bool

val is_blocked : thread -> bool

val is_yield : thread -> bool

val is_terminated : thread -> bool

val set_runnable : thread -> thread

val set_blocked : thread -> thread

val set_yield : nat -> thread -> thread

val set_unparked : thread -> thread

val thread_unpark : thread -> vv -> thread

type hobj = { ho_cell : n; ho_q : n list; ho_rx : bool; ho_slots : bool list;
              ho_track : bool; ho_waiting : bool }

val hobj_of_decl : decl -> hobj

type exec = { e_path : path; e_threads : thread list; e_active : nat option;
              e_seqcst : vv; e_objects : object0 list; e_max_threads : 
              nat; e_h : hobj list; e_spawned : (nat * nat) option list;
              e_joined : bool list; e_log : logline list;
              e_bodies : micro list list }

val ex_set_path : exec -> path -> exec

val ex_set_threads : exec -> thread list -> exec

val ex_set_active : exec -> nat option -> exec

val ex_set_seqcst : exec -> vv -> exec

val ex_set_objects : exec -> object0 list -> exec

val ex_set_h : exec -> hobj list -> exec

val ex_set_spawned : exec -> (nat * nat) option list -> exec

val ex_set_joined : exec -> bool list -> exec

val ex_set_log : exec -> logline list -> exec

val upd_thread : exec -> nat -> (thread -> thread) -> exec

val upd_object : exec -> nat -> (object0 -> object0) -> exec

val upd_hobj : exec -> nat -> (hobj -> hobj) -> exec

type mres =
| MOk of exec
| MFail of exec * panic

val mbind : mres -> (exec -> mres) -> mres

val lift_path : exec -> 'a1 pres -> ('a1 -> mres) -> mres

val dpor_loop : object0 list -> (nat * thread) list -> path -> path pres

val pick_initial :
  thread list -> (nat * thread) list -> nat option -> nat option

val seed_loop : (nat * thread) list -> nat option -> tstat list

val schedule0 : exec -> mres * bool

val ord_acq : ord -> bool

val ord_rel : ord -> bool

val is_seq_cst : ord -> bool

val sync_load : vv -> vv -> ord -> vv

val sync_store : vv -> vv -> vv -> ord -> vv

val seen_touch : nat option list -> nat -> nat -> nat option list

val seen_by_current_from : nat -> nat option list -> vv -> bool

val is_seen_by_current : nat option list -> vv -> bool

val is_seen_before_yield : nat option list -> nat -> nat option -> bool

val aindex : nat -> nat

val arange : nat -> nat * nat

val stores_order : nat -> nat list

val get_store : atomic_state -> nat -> astore

val at_set_stores : atomic_state -> astore list -> nat -> atomic_state

val st_set_mo : astore -> vv -> astore

val st_set_seen : astore -> nat option list -> astore

val st_set_value : astore -> n -> astore

val track_load : atomic_state -> vv -> (atomic_state, panic) sum

val track_unsync_load : atomic_state -> vv -> (atomic_state, panic) sum

val track_store : atomic_state -> vv -> (atomic_state, panic) sum

val track_unsync_mut : atomic_state -> vv -> (atomic_state, panic) sum

val atomic_store :
  atomic_state -> nat -> vv -> vv -> vv -> n -> ord -> atomic_state

val atomic_new : nat -> vv -> vv -> n -> (atomic_state, panic) sum

val apply_load_coherence : atomic_state -> vv -> nat -> atomic_state

val mlts_inner :
  atomic_state -> nat -> vv -> nat option -> ord -> nat -> nat list -> bool
  option

val mlts_outer :
  atomic_state -> nat -> vv -> nat option -> ord -> nat list -> nat list
  option

val match_load_to_stores :
  atomic_state -> nat -> vv -> nat option -> ord -> nat list option

val mrts_inner : atomic_state -> nat -> nat list -> bool option

val mrts_outer : atomic_state -> nat list -> nat list option

val match_rmw_to_stores : atomic_state -> nat list option

val atomic_load :
  atomic_state -> nat -> vv -> nat -> ord -> ((atomic_state * vv) * n, panic)
  sum

val atomic_rmw :
  atomic_state -> nat -> vv -> vv -> nat -> ord -> ord -> (n -> n option) ->
  (((atomic_state * vv) * n) * bool, panic) sum

val fence_acq_atomic : atomic_state -> vv -> vv

val fence_acq : object0 list -> vv -> vv

val cell_new : vv -> cell_state

val cell_track_read : cell_state -> vv -> (cell_state, panic) sum

val cell_track_write : cell_state -> vv -> (cell_state, panic) sum

val get_thread : exec -> nat -> thread option

val caus_of : exec -> nat -> vv

val rel_of : exec -> nat -> vv

val set_caus : exec -> nat -> vv -> exec

val causality_inc : exec -> nat -> exec

val push_cont : exec -> nat -> micro list -> exec

val log_op : exec -> nat -> result -> exec

val hobj_default : hobj

val get_h : exec -> nat -> hobj

val ho_set_cell : hobj -> n -> hobj

val ho_set_q : hobj -> n list -> hobj

val ho_set_rx : hobj -> bool -> hobj

val ho_set_slots : hobj -> bool list -> hobj

val ho_set_track : hobj -> bool -> hobj

val ho_set_waiting : hobj -> bool -> hobj

val pending_on : nat -> thread -> bool

val pending_on_act : nat -> action -> thread -> bool

val map_others : exec -> nat -> (thread -> bool) -> (thread -> thread) -> exec

val threads_unpark : exec -> nat -> nat -> exec

val block_now : exec -> nat -> blockcond -> bool

val do_branch : exec -> nat -> nat -> action -> blockcond -> mres

val do_park : exec -> nat -> mres

val do_yield : exec -> nat -> mres

val get_mutex : exec -> nat -> mutex_state option

val post_acquire : exec -> nat -> nat -> exec * bool

val release_lock : exec -> nat -> nat -> exec

val get_rw : exec -> nat -> rwlock_state option

val set_insert : nat -> nat list -> nat list

val set_remove : nat -> nat list -> nat list

val post_acquire_read : exec -> nat -> nat -> exec * bool

val post_acquire_write : exec -> nat -> nat -> exec * bool

val release_read : exec -> nat -> nat -> mres

val release_write : exec -> nat -> nat -> mres

val remove_last_guard :
  (gkind * nat) list -> gkind -> nat -> (gkind * nat) list option

val holds_guard : exec -> nat -> gkind -> nat -> bool

val push_guard : exec -> nat -> gkind -> nat -> exec

val drop_guard : exec -> nat -> gkind -> nat -> exec

val get_notify : exec -> nat -> notify_state option

val nt_set : notify_state -> bool -> bool -> vv -> notify_state

val get_chan : exec -> nat -> chan_state option

val get_arc : exec -> nat -> arc_state option

val arc_set : arc_state -> nat -> vv -> arc_state

val get_atomic : exec -> nat -> atomic_state option

val get_cell : exec -> nat -> cell_state option

val slot_present : exec -> nat -> nat -> bool

val set_slot : exec -> nat -> nat -> bool -> exec

val body_tid : exec -> nat -> nat option

val rmw_fun : rmwkind -> n -> n option

val choose_store : exec -> nat list option -> exec * (nat, panic) sum

val exec_micro : exec -> nat -> micro -> mres

val expand : nat -> nat -> instr -> micro list

val expand_body_from : nat -> nat -> instr list -> micro list

val exit_seq : nat -> micro list

val expand_prog : prog -> micro list list

val create_object : decl -> vv -> vv -> (object0, panic) sum

val create_objects : decl list -> vv -> vv -> (object0 list, panic) sum

val init_exec : prog -> path -> exec

type iter_end =
| IterDone
| IterPanic of panic
| IterFuel

val run : nat -> exec -> exec * iter_end

val iteration : nat -> prog -> path -> exec * iter_end

type iter_record = { ir_begin : path; ir_end : path; ir_log : logline list;
                     ir_result : iter_end }

type run_end =
| RunOk
| RunPanic of panic
| RunFuel

val ci_of : config -> nat

val check_loop :
  nat -> nat -> prog -> nat -> path -> path option -> iter_record list ->
  (iter_record list * run_end) * path option

val initial_path : config -> path

val check : nat -> nat -> prog -> (iter_record list * run_end) * path option

val check_from :
  nat -> nat -> prog -> path -> (iter_record list * run_end) * path option
