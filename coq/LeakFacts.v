(* LeakFacts: "Leaks are reported exactly at the end of every execution".
   The end-of-iteration scan of the object store (Objects.check_for_leaks,
   run by Check.iteration after a finished run) is connected with the
   harness-level truth (live handle slots, the std queue, the Track flag), for
   every program and every schedule.

   Contents
     0. where a leak panic can come from: exec_micro_no_leak, run_no_leak,
        iteration_after_panic / iteration_after_fuel (the leak check runs only
        after a run that finished without panic), iteration_leak_iff,
        iteration_leak_is_first_leaking_entry (order of several leaks)
     1. two new invariants, proved with the one-tactic-over-all-micro-ops
        pattern of SyncMono (frame lemmas in continuation style, lstep / lclose):
          OI e   every OAlloc entry of the store is a declared object whose
                 dropped flag is the negation of the harness Track flag; every
                 channel is a declared object
          TI e   the continuation of every thread has MTerminate at its end
                 only; a Terminated thread has the empty continuation and no
                 pending operation
        step_LI, run_LI, init_LI
     2. the end of a finished run: all threads Terminated (DeadlockFacts), all
        continuations empty, no drop in flight: run_done_quiet
     3. the three kinds of leak, each against the harness-level truth:
          arc_leak_iff, chan_leak_iff (+ chan_leak_rx_alive,
          chan_leak_rx_dropped), track_leak_iff, other_decl_never_leaks
     4. the whole verdict: iteration_done_iff, no_leak_passes,
        leak_reported_is_true, first_leak_is_first
     5. examples and the witnesses of the deviations (vm_compute)
     6. programs without block_on (prog_nobo): a third invariant BF (no
        MBlockOn / MBlockOnS in any continuation or body, no Arc beyond the
        declared objects), same proof pattern (bstep / bclose);
        nobo_dyn_arcs_released, nobo_iteration_done_iff: for such programs the
        leak check passes iff no declared object leaks at the harness level

   DEVIATIONS / FINDINGS

   F1 (FIXED in the pinned tree by "a message handed back by send() is not held
      by the channel": Channel::undo_send).  Before the fix "Messages leaked"
      was reported for a message that is not in the channel: Sender::send calls
      rt::Channel::send (msg_cnt += 1) BEFORE the std send; if the receiver has
      been dropped the std send fails and hands the message back to the caller
      (Err(SendError(v))), and the runtime count stayed incremented.  Now the
      bookkeeping is undone.  send_after_drop_not_reported: [DChan],
        main = [IDropRx 0; ISend 0 5]
      the send returns RDisc (the harness got the value back), the std queue is
      empty, the count is 0 and the iteration ends with IterDone.  The channel
      clause (chan_leak_iff): the report is made iff the RUNTIME count is
      positive, and the runtime count IS the length of the std queue, receiver
      alive or not (chan_leak_queue); after the receiver was dropped the queue
      is empty, the count is 0 and stays 0, the channel is never reported
      (chan_leak_rx_dropped).  hleak, the harness-level truth, is therefore
      stated on the std queue.
   F2 Arcs that are not harness objects.  future::block_on creates an
      Arc<Notify> (the waker) in the same store; the scan covers it.  A waker
      clone that is still registered in an AtomicWaker at the end keeps its
      count positive and is reported as "Arc leaked" although no handle slot of
      a declared Arc is alive (waker_left_registered_reported).  The verdict
      theorems therefore have the clause [dyn_arcs_released e] (every Arc of
      the store beyond the declared objects has count 0).  OI shows that Arcs
      are the only leaking objects that can exist beyond the declared ones;
      section 6 shows that the clause is void for programs without block_on.
      (The harness leaks its object table (Box::leak), so the registered clone
      really is never dropped there: the report is a true one, it is just not
      visible in the handle slots.)
   D1 The Arc clause needs the handle discipline of CountFacts (run_disc): the
      model lets a program clone into a live slot, which makes the runtime
      count differ from the number of live handles (CountFacts D1).
   D2 At the end of a finished run no drop is in flight (pend = 0): proved
      (run_done_quiet), so the Arc clause is stated with [live] alone.
   D3 arc_leak_iff etc. speak about the state [e] returned by a run with
      result IterDone; iteration returns the same state (iteration_fst). *)
Require Import LV.Base LV.VV LV.VVFacts LV.Path LV.PathSpec LV.PathApi LV.Prog LV.Objects
               LV.Exec LV.Atomic LV.Ops LV.Check LV.SyncFacts LV.ExecFacts LV.ExecPreempt
               LV.SyncMono LV.CountFacts LV.DeadlockFacts.
From Coq Require Import List Arith Lia Bool.
Import ListNotations.

(* ================================================================== *)
(* 0. Where a leak panic comes from                                    *)
(* ================================================================== *)

Lemma track_load_nl s c k i : track_load s c = inr (PanicLeak k i) -> False.
Proof. unfold track_load. destr_all; discriminate. Qed.
Lemma track_unsync_load_nl s c k i : track_unsync_load s c = inr (PanicLeak k i) -> False.
Proof. unfold track_unsync_load. destr_all; discriminate. Qed.
Lemma track_store_nl s c k i : track_store s c = inr (PanicLeak k i) -> False.
Proof. unfold track_store. destr_all; discriminate. Qed.
Lemma track_unsync_mut_nl s c k i : track_unsync_mut s c = inr (PanicLeak k i) -> False.
Proof. unfold track_unsync_mut. destr_all; discriminate. Qed.
Lemma cell_track_read_nl s c k i : cell_track_read s c = inr (PanicLeak k i) -> False.
Proof. unfold cell_track_read. destr_all; discriminate. Qed.
Lemma cell_track_write_nl s c k i : cell_track_write s c = inr (PanicLeak k i) -> False.
Proof. unfold cell_track_write. destr_all; discriminate. Qed.
Lemma atomic_load_nl s me c ix o k i : atomic_load s me c ix o = inr (PanicLeak k i) -> False.
Proof.
  unfold atomic_load. destruct (track_load s c) eqn:E; [discriminate|].
  intros H. injection H as ->. exact (track_load_nl _ _ _ _ E).
Qed.
Lemma atomic_rmw_nl s me c r ix so fo f k i :
  atomic_rmw s me c r ix so fo f = inr (PanicLeak k i) -> False.
Proof.
  rewrite atomic_rmw_eq. destruct (track_load s c) eqn:E.
  - cbv zeta. destruct (f _); [|discriminate]. destruct (track_store _ _) eqn:E2; [discriminate|].
    intros H. injection H as ->. exact (track_store_nl _ _ _ _ E2).
  - intros H. injection H as ->. exact (track_load_nl _ _ _ _ E).
Qed.
Lemma choose_store_nl e sd e' k i : choose_store e sd = (e', inr (PanicLeak k i)) -> False.
Proof. unfold choose_store. destr_all; discriminate. Qed.
Lemma release_read_nl e me r e2 k i : release_read e me r = MFail e2 (PanicLeak k i) -> False.
Proof. unfold release_read. destr_all; discriminate. Qed.
Lemma release_write_nl e me r e2 k i : release_write e me r = MFail e2 (PanicLeak k i) -> False.
Proof. unfold release_write. destr_all; discriminate. Qed.
Lemma schedule_nl e e2 k i : fst (schedule e) = MFail e2 (PanicLeak k i) -> False.
Proof. rewrite schedule_unfold. unfold sched_post. destr_all; cbn [fst]; discriminate. Qed.

Ltac nl_step H :=
  match type of H with
  | fst (schedule _) = _ => exfalso; exact (schedule_nl _ _ _ _ H)
  | context [match ?x with _ => _ end] =>
      lazymatch x with
      | context [match _ with _ => _ end] => fail
      | _ => destruct x eqn:?
      end
  end.

(* no micro-operation raises a leak panic *)
Lemma exec_micro_no_leak e me m e2 k i : exec_micro e me m = MFail e2 (PanicLeak k i) -> False.
Proof.
  intros H. destruct m;
    cbn [exec_micro] in H; unfold lift_path, mbind, do_branch, do_park, do_yield, load_post in H;
    repeat nl_step H; try discriminate H.
  all: injection H as _ ->;
    eauto using track_load_nl, track_unsync_load_nl, track_store_nl, track_unsync_mut_nl,
      cell_track_read_nl, cell_track_write_nl, atomic_load_nl, atomic_rmw_nl,
      choose_store_nl, release_read_nl, release_write_nl.
Qed.

Lemma run_no_leak : forall fuel e e' k i, run fuel e = (e', IterPanic (PanicLeak k i)) -> False.
Proof.
  induction fuel as [|fuel IH]; intros e e' k i H; cbn [run] in H; [discriminate H|].
  destruct (e_active e) as [me|]; [|discriminate H].
  destruct (nth_error (e_threads e) me) as [t|]; [|discriminate H].
  destruct (t_cont t) as [|m rest]; [discriminate H|].
  destruct (exec_micro _ me m) as [e2|e2 pn] eqn:Hx; [exact (IH _ _ _ _ H)|].
  injection H as _ ->. exact (exec_micro_no_leak _ _ _ _ _ _ Hx).
Qed.

(* the leak check is not run after a panic, nor when the fuel of the model ran out *)
Lemma iteration_after_panic fuel p pa e pn :
  run fuel (init_exec p pa) = (e, IterPanic pn) -> iteration fuel p pa = (e, IterPanic pn).
Proof. intros H. unfold iteration. rewrite H. reflexivity. Qed.

Lemma iteration_after_fuel fuel p pa e :
  run fuel (init_exec p pa) = (e, IterFuel) -> iteration fuel p pa = (e, IterFuel).
Proof. intros H. unfold iteration. rewrite H. reflexivity. Qed.

Lemma iteration_after_done fuel p pa e :
  run fuel (init_exec p pa) = (e, IterDone) ->
  iteration fuel p pa =
    (e, match check_for_leaks (e_objects e) with Some pn => IterPanic pn | None => IterDone end).
Proof. intros H. unfold iteration. rewrite H. destruct (check_for_leaks _); reflexivity. Qed.

(* a leak panic of an iteration: the run finished, the scan found it *)
Theorem iteration_leak_iff fuel p pa e k i :
  iteration fuel p pa = (e, IterPanic (PanicLeak k i)) <->
  run fuel (init_exec p pa) = (e, IterDone) /\
  check_for_leaks (e_objects e) = Some (PanicLeak k i).
Proof.
  split.
  - intros H. unfold iteration in H. destruct (run fuel (init_exec p pa)) as [e0 r] eqn:Hr.
    destruct r as [|pn|].
    + destruct (check_for_leaks (e_objects e0)) as [pn|] eqn:Hl; [|discriminate H].
      injection H as <- ->. auto.
    + injection H as <- ->. exfalso. exact (run_no_leak _ _ _ _ _ Hr).
    + discriminate H.
  - intros [Hr Hl]. rewrite (iteration_after_done _ _ _ _ Hr), Hl. reflexivity.
Qed.

(* the order in which several leaks are reported: the first leaking entry *)
Theorem iteration_leak_is_first_leaking_entry fuel p pa e k i :
  iteration fuel p pa = (e, IterPanic (PanicLeak k i)) ->
  exists o, nth_error (e_objects e) i = Some o /\ leak_of o = Some k /\
            forall j o', j < i -> nth_error (e_objects e) j = Some o' -> leak_of o' = None.
Proof.
  intros H. apply iteration_leak_iff in H. destruct H as [_ Hl].
  apply check_for_leaks_first in Hl. destruct Hl as (i' & o & k' & Hpn & Hn & Hk & Hmin).
  injection Hpn as <- <-. eauto.
Qed.

(* ================================================================== *)
(* 1. Two invariants                                                   *)
(* ================================================================== *)

(* ---- continuations ---- *)
Definition is_term (m : micro) : bool := match m with MTerminate => true | _ => false end.

(* MTerminate occurs at the end only *)
Fixpoint tail_ok (c : list micro) : bool :=
  match c with
  | [] => true
  | m :: r => if is_term m then match r with [] => true | _ :: _ => false end else tail_ok r
  end.

Definition no_term (ms : list micro) : bool := forallb (fun m => negb (is_term m)) ms.

Lemma tail_ok_app ms c : no_term ms = true -> tail_ok c = true -> tail_ok (ms ++ c) = true.
Proof.
  induction ms as [|m ms IH]; intros Hn Hc; [exact Hc|].
  unfold no_term in Hn. cbn [forallb] in Hn. apply andb_prop in Hn. destruct Hn as [Hm Hn].
  cbn [app tail_ok]. destruct (is_term m); [discriminate Hm|]. apply IH; assumption.
Qed.

Lemma tail_ok_tl m r : tail_ok (m :: r) = true -> tail_ok r = true.
Proof.
  cbn [tail_ok]. destruct (is_term m); [|auto]. destruct r; [reflexivity|discriminate].
Qed.

Lemma tail_ok_term r : tail_ok (MTerminate :: r) = true -> r = [].
Proof. cbn [tail_ok is_term]. destruct r; [reflexivity|discriminate]. Qed.

Lemma subst_waker_nil n k : forall c used, subst_waker n k used c = [] -> c = [].
Proof.
  intros c used. destruct c as [|m c]; [reflexivity|].
  destruct m; cbn [subst_waker]; try destruct used; discriminate.
Qed.

Lemma tail_ok_subst_waker n k : forall c used, tail_ok (subst_waker n k used c) = tail_ok c.
Proof.
  induction c as [|m c IH]; intros used; [reflexivity|].
  destruct m; cbn [subst_waker];
    try (destruct used; cbn [tail_ok is_term]; apply IH); cbn [tail_ok is_term]; try apply IH.
  destruct c as [|m' c']; [reflexivity|].
  destruct (subst_waker n k used (m' :: c')) eqn:Hs; [|reflexivity].
  apply subst_waker_nil in Hs. discriminate Hs.
Qed.

(* what an update of a thread may do without harm *)
Definition tle (t t' : thread) : Prop :=
  t_cont t' = t_cont t /\
  (is_terminated t' = true -> is_terminated t = true /\ t_op t' = t_op t).

Lemma tle_refl t : tle t t.
Proof. split; auto. Qed.

Definition thr_ok (om : option nat) (i : nat) (t : thread) : Prop :=
  tail_ok (t_cont t) = true /\
  (is_terminated t = true -> om <> Some i /\ t_cont t = [] /\ t_op t = None).

Lemma thr_ok_tle om i t t' : tle t t' -> thr_ok om i t -> thr_ok om i t'.
Proof.
  intros [Hc Ht] [H1 H2]. split; [rewrite Hc; exact H1|].
  intros Hterm. destruct (Ht Hterm) as [Ht0 Hop]. destruct (H2 Ht0) as (Hom & Hnil & Hnone).
  repeat split; [exact Hom|congruence|congruence].
Qed.

(* [om]: the thread that is executing a micro-operation; it is not Terminated *)
Definition TI (om : option nat) (e : exec) : Prop :=
  (forall i t, nth_error (e_threads e) i = Some t -> thr_ok om i t) /\
  (forall b, tail_ok (nth b (e_bodies e) []) = true).

(* ---- objects ---- *)
Inductive okind := KAlloc (d : bool) | KChan | KOther.
Definition okey (o : object) : okind :=
  match o with OAlloc d => KAlloc d | OChannel _ => KChan | _ => KOther end.

Definition obj_ok (hs : list hobj) (i : nat) (o : object) : Prop :=
  match okey o with
  | KAlloc d => i < length hs /\ d = negb (ho_track (nth i hs hobj_default))
  | KChan => i < length hs
  | KOther => True
  end.

Definition OI (e : exec) : Prop :=
  forall i o, nth_error (e_objects e) i = Some o -> obj_ok (e_h e) i o.

Definition LI (om : option nat) (e : exec) : Prop := OI e /\ TI om e.

(* ---- the frame, continuation style ---- *)
Definition lk (om : option nat) (e e' : exec) : Prop := LI om e -> LI om e'.

Lemma lk_refl om e : lk om e e.
Proof. intros H. exact H. Qed.
Lemma lk_trans om e1 e2 e3 : lk om e1 e2 -> lk om e2 e3 -> lk om e1 e3.
Proof. unfold lk. auto. Qed.
Lemma lk_k om e0 e e' : lk om e e' -> lk om e0 e -> lk om e0 e'.
Proof. unfold lk. auto. Qed.

Lemma lk_same om e e' :
  e_threads e' = e_threads e -> e_bodies e' = e_bodies e ->
  e_objects e' = e_objects e -> e_h e' = e_h e -> lk om e e'.
Proof.
  intros Ht Hb Ho Hh [H1 [H2 H3]]. split.
  - intros i o. rewrite Ho, Hh. apply H1.
  - split; [intros i t; rewrite Ht; apply H2|intros b; rewrite Hb; apply H3].
Qed.

Lemma lk_set_threads_k om e0 e ths :
  (TI om e -> forall i t', nth_error ths i = Some t' -> thr_ok om i t') ->
  lk om e0 e -> lk om e0 (ex_set_threads e ths).
Proof.
  intros Hf. apply lk_k. intros [Ho HT]. split; [exact Ho|].
  split; [exact (Hf HT)|exact (proj2 HT)].
Qed.

Lemma lk_upd_thread_k om e0 e i f :
  (forall t, tle t (f t)) -> lk om e0 e -> lk om e0 (upd_thread e i f).
Proof.
  intros Hf. apply lk_set_threads_k. intros [Ht _] j t' Hj.
  destruct (Nat.eq_dec i j) as [->|Hne].
  - rewrite nth_error_list_upd_same in Hj. destruct (nth_error (e_threads e) j) as [t|] eqn:Hn;
      cbn [option_map] in Hj; [|discriminate Hj]. injection Hj as <-.
    eapply thr_ok_tle; [apply Hf|apply Ht; exact Hn].
  - rewrite nth_error_list_upd_other in Hj by exact Hne. apply Ht. exact Hj.
Qed.

Lemma lk_upd_me_k me e0 e f :
  (forall t, tail_ok (t_cont t) = true -> tail_ok (t_cont (f t)) = true) ->
  (forall t, is_terminated (f t) = true -> is_terminated t = true) ->
  lk (Some me) e0 e -> lk (Some me) e0 (upd_thread e me f).
Proof.
  intros H1 H2. apply lk_set_threads_k. intros [Ht _] j t' Hj.
  destruct (Nat.eq_dec me j) as [<-|Hne].
  - rewrite nth_error_list_upd_same in Hj. destruct (nth_error (e_threads e) me) as [t|] eqn:Hn;
      cbn [option_map] in Hj; [|discriminate Hj]. injection Hj as <-.
    destruct (Ht _ _ Hn) as [Ha Hb]. split; [apply H1, Ha|].
    intros Hterm. destruct (Hb (H2 _ Hterm)) as (Hom & _). congruence.
  - rewrite nth_error_list_upd_other in Hj by exact Hne. apply Ht. exact Hj.
Qed.

Lemma lk_mapi_k om e0 e g :
  (forall id t, tle t (g id t)) -> lk om e0 e -> lk om e0 (ex_set_threads e (mapi g (e_threads e))).
Proof.
  intros Hg. apply lk_set_threads_k. intros [Ht _] j t' Hj.
  rewrite nth_error_mapi in Hj. destruct (nth_error (e_threads e) j) as [t|] eqn:Hn;
    cbn [option_map] in Hj; [|discriminate Hj]. injection Hj as <-.
  eapply thr_ok_tle; [apply Hg|apply Ht; exact Hn].
Qed.

Lemma lk_map_others_k om e0 e me p f :
  (forall t, tle t (f t)) -> lk om e0 e -> lk om e0 (map_others e me p f).
Proof.
  intros Hf. unfold map_others. apply lk_mapi_k. intros id t.
  destruct (negb (Nat.eqb id me) && p t); [apply Hf|apply tle_refl].
Qed.

Lemma lk_append_thread_k om e0 e nt :
  is_terminated nt = false -> (TI om e -> tail_ok (t_cont nt) = true) ->
  lk om e0 e -> lk om e0 (ex_set_threads e (e_threads e ++ [nt])).
Proof.
  intros Hnt Hc. apply lk_set_threads_k. intros HT j t' Hj.
  destruct (Nat.lt_ge_cases j (length (e_threads e))) as [Hlt|Hge].
  - rewrite nth_error_app1 in Hj by exact Hlt. apply (proj1 HT). exact Hj.
  - rewrite nth_error_app2 in Hj by exact Hge.
    destruct (j - length (e_threads e)) as [|d]; cbn [nth_error] in Hj;
      [|destruct d; discriminate Hj].
    injection Hj as <-. split; [exact (Hc HT)|]. intros Hterm. congruence.
Qed.

Lemma lk_objs_k om e0 e os hs :
  (OI e -> forall i o, nth_error os i = Some o -> obj_ok hs i o) ->
  lk om e0 e -> lk om e0 (ex_set_h (ex_set_objects e os) hs).
Proof. intros Hf. apply lk_k. intros [Ho HT]. split; [exact (Hf Ho)|exact HT]. Qed.

Lemma lk_upd_object_f_k om e0 e i f :
  (forall o, nth_error (e_objects e) i = Some o -> okey (f o) = KOther \/ okey (f o) = okey o) ->
  lk om e0 e -> lk om e0 (upd_object e i f).
Proof.
  intros Hf. apply lk_k. intros [Ho HT]. split; [|exact HT].
  intros j o Hj. rewrite e_objects_upd_object in Hj.
  change (e_h (upd_object e i f)) with (e_h e).
  destruct (Nat.eq_dec i j) as [->|Hne].
  - rewrite nth_error_list_upd_same in Hj. destruct (nth_error (e_objects e) j) as [o0|] eqn:Hn;
      cbn [option_map] in Hj; [|discriminate Hj]. injection Hj as <-.
    unfold obj_ok. destruct (Hf _ eq_refl) as [Hk|Hk]; rewrite Hk; [exact I|]. apply Ho. exact Hn.
  - rewrite nth_error_list_upd_other in Hj by exact Hne. apply Ho. exact Hj.
Qed.

Lemma lk_upd_object_k om e0 e i o' :
  (okey o' = KOther \/ forall o, nth_error (e_objects e) i = Some o -> okey o' = okey o) ->
  lk om e0 e -> lk om e0 (upd_object e i (fun _ => o')).
Proof.
  intros Hf. apply lk_upd_object_f_k. intros o Ho. destruct Hf as [Hk|Hk]; [left; exact Hk|right; auto].
Qed.

Lemma lk_upd_hobj_k om e0 e i f :
  (forall h, ho_track (f h) = ho_track h) -> lk om e0 e -> lk om e0 (upd_hobj e i f).
Proof.
  intros Hf. apply lk_k. intros [Ho HT]. split; [|exact HT].
  intros j o Hj. change (e_objects (upd_hobj e i f)) with (e_objects e) in Hj.
  change (e_h (upd_hobj e i f)) with (list_upd (e_h e) i f).
  specialize (Ho j o Hj). unfold obj_ok in *. rewrite list_upd_length.
  rewrite (nth_list_upd_proj _ _ ho_track (e_h e) i f hobj_default Hf). exact Ho.
Qed.

Lemma lk_append_objects_k om e0 e l :
  Forall (fun o => okey o = KOther) l -> lk om e0 e -> lk om e0 (ex_set_objects e (e_objects e ++ l)).
Proof.
  intros Hl. apply lk_k. intros [Ho HT]. split; [|exact HT].
  intros j o Hj. change (e_objects (ex_set_objects e (e_objects e ++ l))) with (e_objects e ++ l) in Hj.
  change (e_h (ex_set_objects e (e_objects e ++ l))) with (e_h e).
  destruct (Nat.lt_ge_cases j (length (e_objects e))) as [Hlt|Hge].
  - rewrite nth_error_app1 in Hj by exact Hlt. apply Ho. exact Hj.
  - rewrite nth_error_app2 in Hj by exact Hge. apply nth_error_In in Hj.
    rewrite Forall_forall in Hl. unfold obj_ok. rewrite (Hl _ Hj). exact I.
Qed.

(* MTrackDrop *)
Lemma lk_track_drop_k om e0 e k :
  ho_track (get_h e k) = true -> lk om e0 e ->
  lk om e0 (upd_object (upd_hobj e k (fun ho => ho_set_track ho false)) k (fun _ => OAlloc true)).
Proof.
  intros Htr. apply lk_k. intros [Ho HT]. split; [|exact HT].
  pose proof (get_h_track_lt e k Htr) as Hlt.
  intros j o Hj. rewrite e_objects_upd_object, e_objects_upd_hobj in Hj.
  change (e_h (upd_object (upd_hobj e k (fun ho => ho_set_track ho false)) k (fun _ => OAlloc true)))
    with (list_upd (e_h e) k (fun ho => ho_set_track ho false)).
  unfold obj_ok. rewrite list_upd_length.
  destruct (nth_list_upd_same_or _ (e_h e) k (fun ho => ho_set_track ho false) hobj_default j)
    as [Hsame|[-> Hupd]].
  - destruct (Nat.eq_dec k j) as [->|Hne].
    + (* the flag was already false: impossible *)
      unfold get_h in Htr.
      assert (Hx : nth_error (e_h e) j = Some (nth j (e_h e) hobj_default))
        by (apply nth_error_nth'; exact Hlt).
      unfold list_upd in Hsame. rewrite Hx in Hsame.
      rewrite list_set_nth_same in Hsame by exact Hlt.
      rewrite <- Hsame in Htr. cbn in Htr. discriminate Htr.
    + rewrite nth_error_list_upd_other in Hj by exact Hne. rewrite Hsame. apply (Ho j o Hj).
  - rewrite Hupd. rewrite nth_error_list_upd_same in Hj.
    destruct (nth_error (e_objects e) k) as [o0|]; cbn [option_map] in Hj; [|discriminate Hj].
    injection Hj as <-. cbn [okey]. split; [exact Hlt|]. reflexivity.
Qed.

(* ---- the helpers of Ops.v ---- *)
Lemma lk_same_k om e0 e e' :
  e_threads e' = e_threads e -> e_bodies e' = e_bodies e ->
  e_objects e' = e_objects e -> e_h e' = e_h e -> lk om e0 e -> lk om e0 e'.
Proof. intros H1 H2 H3 H4. apply lk_k, lk_same; assumption. Qed.

Lemma lk_set_path_k om e0 e x : lk om e0 e -> lk om e0 (ex_set_path e x).
Proof. apply lk_same_k; reflexivity. Qed.
Lemma lk_set_active_k om e0 e x : lk om e0 e -> lk om e0 (ex_set_active e x).
Proof. apply lk_same_k; reflexivity. Qed.
Lemma lk_set_seqcst_k om e0 e x : lk om e0 e -> lk om e0 (ex_set_seqcst e x).
Proof. apply lk_same_k; reflexivity. Qed.
Lemma lk_set_spawned_k om e0 e x : lk om e0 e -> lk om e0 (ex_set_spawned e x).
Proof. apply lk_same_k; reflexivity. Qed.
Lemma lk_set_joined_k om e0 e x : lk om e0 e -> lk om e0 (ex_set_joined e x).
Proof. apply lk_same_k; reflexivity. Qed.
Lemma lk_set_log_k om e0 e x : lk om e0 e -> lk om e0 (ex_set_log e x).
Proof. apply lk_same_k; reflexivity. Qed.
Lemma lk_set_lazy_k om e0 e x : lk om e0 e -> lk om e0 (ex_set_lazy e x).
Proof. apply lk_same_k; reflexivity. Qed.
Lemma lk_log_op_k om e0 e me r : lk om e0 e -> lk om e0 (log_op e me r).
Proof. unfold log_op. destruct (get_thread e me); [apply lk_same_k; reflexivity|auto]. Qed.
Lemma lk_log_poll_k om e0 e me : lk om e0 e -> lk om e0 (log_poll e me).
Proof. unfold log_poll. destruct (get_thread e me); [apply lk_same_k; reflexivity|auto]. Qed.

Lemma tle_keep t t' :
  t_cont t' = t_cont t -> t_op t' = t_op t -> is_terminated t' = is_terminated t -> tle t t'.
Proof. intros Hc Ho Ht. split; [exact Hc|]. rewrite Ht. auto. Qed.

Lemma tle_revive t t' : t_cont t' = t_cont t -> is_terminated t' = false -> tle t t'.
Proof. intros Hc Ht. split; [exact Hc|]. rewrite Ht. discriminate. Qed.

Lemma tle_set_unparked t : tle t (set_unparked t).
Proof.
  unfold set_unparked. destruct (is_parked t); [apply tle_revive; reflexivity|].
  destruct (is_terminated t); [apply tle_refl|apply tle_keep; reflexivity].
Qed.

Lemma tle_trans t1 t2 t3 : tle t1 t2 -> tle t2 t3 -> tle t1 t3.
Proof.
  intros [Hc1 Ht1] [Hc2 Ht2]. split; [congruence|].
  intros H3. destruct (Ht2 H3) as [H2 Ho2]. destruct (Ht1 H2) as [H1 Ho1]. split; [exact H1|congruence].
Qed.

Lemma tle_thread_unpark t c : tle t (thread_unpark t c).
Proof.
  unfold thread_unpark. eapply tle_trans; [|apply tle_set_unparked]. apply tle_keep; reflexivity.
Qed.

Ltac tle_tac :=
  intros; cbv beta;
  repeat match goal with
         | |- context [match ?x with _ => _ end] => destruct x
         end;
  first [ apply tle_set_unparked | apply tle_thread_unpark | apply tle_refl
        | apply tle_keep; reflexivity | apply tle_revive; reflexivity ].

Lemma lk_set_caus_k om e0 e me v : lk om e0 e -> lk om e0 (set_caus e me v).
Proof. apply lk_upd_thread_k. tle_tac. Qed.
Lemma lk_causality_inc_k om e0 e me : lk om e0 e -> lk om e0 (causality_inc e me).
Proof. apply lk_upd_thread_k. tle_tac. Qed.
Lemma lk_push_guard_k om e0 e me k m : lk om e0 e -> lk om e0 (push_guard e me k m).
Proof. apply lk_upd_thread_k. tle_tac. Qed.
Lemma lk_drop_guard_k om e0 e me k m : lk om e0 e -> lk om e0 (drop_guard e me k m).
Proof. apply lk_upd_thread_k. tle_tac. Qed.
Lemma lk_set_slot_k om e0 e k i b : lk om e0 e -> lk om e0 (set_slot e k i b).
Proof. apply lk_upd_hobj_k. reflexivity. Qed.

Lemma lk_threads_unpark_k om e0 e me id : lk om e0 e -> lk om e0 (threads_unpark e me id).
Proof. unfold threads_unpark. destruct (Nat.eqb id me); apply lk_upd_thread_k; tle_tac. Qed.

Lemma lk_fold_unpark_k om me l : forall e0 e,
  lk om e0 e -> lk om e0 (fold_left (fun e t => threads_unpark e me t) l e).
Proof.
  induction l as [|w l IH]; intros e0 e H; cbn [fold_left]; [exact H|].
  apply IH, lk_threads_unpark_k, H.
Qed.

Lemma lk_push_cont_k me e0 e ms :
  no_term ms = true -> lk (Some me) e0 e -> lk (Some me) e0 (push_cont e me ms).
Proof.
  intros Hn. apply lk_upd_me_k.
  - intros t Ht. cbn [t_cont th_set_cont]. apply tail_ok_app; assumption.
  - intros t Ht. exact Ht.
Qed.

Lemma okey_set_last_access o act tid pid v : okey (set_last_access o act tid pid v) = okey o.
Proof. destruct o; try reflexivity; destruct act; reflexivity. Qed.

Lemma lk_sched_note_k om e0 e nx pid th : lk om e0 e -> lk om e0 (sched_note e nx pid th).
Proof.
  intros H. unfold sched_note. destruct (t_op th) as [op|]; [|exact H].
  destruct (nth_error (e_objects e) (op_obj op)) as [o|]; [|exact H]. cbv zeta.
  apply lk_upd_object_f_k; [intros o' _; right; apply okey_set_last_access|].
  apply lk_upd_thread_k; [tle_tac|exact H].
Qed.

Lemma schedule_lk om e : lk om e (res_exec (fst (schedule e))).
Proof.
  destruct (schedule_cases e)
    as [(c & ->)|[(x & ->)|[(p1 & x & Hd & ->)|(curr & cur_th & p1 & p2 & next & Hp & ->)]]];
    cbn [fst res_exec]; try apply lk_refl.
  - apply lk_set_path_k, lk_refl.
  - assert (Hb : lk om e (sched_base e p2 next))
      by (unfold sched_base; apply lk_set_active_k, lk_set_path_k, lk_refl).
    revert Hb. generalize (sched_base e p2 next). intros e1 Hb.
    unfold sched_post. destruct next as [nx|].
    + destruct (nth_error (e_threads e1) nx) as [th|]; cbn [fst res_exec]; [|exact Hb].
      unfold reactivate. apply lk_mapi_k; [tle_tac|]. apply lk_sched_note_k, Hb.
    + destruct (forallb is_terminated (e_threads e1)); cbn [fst res_exec]; exact Hb.
Qed.

Lemma schedule_lk_k om e0 e : lk om e0 e -> lk om e0 (res_exec (fst (schedule e))).
Proof. apply lk_k, schedule_lk. Qed.

Lemma do_branch_lk_k me e0 e obj act blk :
  lk (Some me) e0 e -> lk (Some me) e0 (res_exec (do_branch e me obj act blk)).
Proof.
  intros H. unfold do_branch. apply schedule_lk_k. apply lk_upd_me_k; [| |exact H].
  - intros t Ht. destruct (block_now e obj blk); exact Ht.
  - intros t Ht. destruct (block_now e obj blk); [cbn in Ht; discriminate Ht|exact Ht].
Qed.

Lemma do_park_lk_k om e0 e me : lk om e0 e -> lk om e0 (res_exec (do_park e me)).
Proof.
  intros H. unfold do_park. destruct (get_thread e me) as [t|]; [|exact H].
  destruct (t_token t); cbn [res_exec].
  - apply lk_upd_thread_k; [tle_tac|exact H].
  - apply schedule_lk_k. apply lk_upd_thread_k; [tle_tac|exact H].
Qed.

Lemma do_yield_lk_k om e0 e me : lk om e0 e -> lk om e0 (res_exec (do_yield e me)).
Proof.
  intros H. unfold do_yield. apply schedule_lk_k. apply lk_upd_thread_k; [tle_tac|exact H].
Qed.

Lemma release_lock_lk_k om e0 e me m : lk om e0 e -> lk om e0 (release_lock e me m).
Proof.
  intros H. unfold release_lock. destruct (get_mutex e m) as [s|]; [|exact H]. cbv zeta.
  match goal with |- lk _ _ (match e_active ?E with _ => _ end) =>
    assert (H1 : lk om e0 E) by (apply lk_upd_object_k; [left; reflexivity|exact H]) end.
  destruct (e_active _); [|exact H1].
  apply lk_map_others_k; [tle_tac|]. apply lk_upd_object_k; [left; reflexivity|exact H1].
Qed.

Lemma post_acquire_lk om e me m : lk om e (fst (post_acquire e me m)).
Proof.
  unfold post_acquire. destruct (get_mutex e m) as [s|]; [|apply lk_refl].
  destruct (is_some (mx_lock s)); cbn [fst]; [apply lk_refl|].
  apply lk_map_others_k; [tle_tac|]. apply lk_set_caus_k.
  apply lk_upd_object_k; [left; reflexivity|apply lk_refl].
Qed.

Lemma post_acquire_read_lk om e me r : lk om e (fst (post_acquire_read e me r)).
Proof.
  unfold post_acquire_read. destruct (get_rw e r) as [s|]; [|apply lk_refl].
  destruct (rw_lock s) as [[rs|w]|]; cbn [fst]; try apply lk_refl.
  all: apply lk_map_others_k; [tle_tac|]; apply lk_set_caus_k;
    apply lk_upd_object_k; [left; reflexivity|apply lk_refl].
Qed.

Lemma post_acquire_write_lk om e me r : lk om e (fst (post_acquire_write e me r)).
Proof.
  unfold post_acquire_write. destruct (get_rw e r) as [s|]; [|apply lk_refl].
  destruct (rw_lock s) as [lk0|]; cbn [fst]; try apply lk_refl.
  apply lk_map_others_k; [tle_tac|]; apply lk_set_caus_k;
    apply lk_upd_object_k; [left; reflexivity|apply lk_refl].
Qed.

Lemma release_read_lk om e me r : lk om e (res_exec (release_read e me r)).
Proof.
  unfold release_read. destruct (get_rw e r) as [s|]; [|apply lk_refl]. cbv zeta.
  destruct (rw_lock s) as [[rs|w]|]; cbn [res_exec]; try apply lk_refl.
  destruct (set_remove me rs); cbn [res_exec].
  - apply lk_map_others_k; [tle_tac|]. apply lk_upd_object_k; [left; reflexivity|apply lk_refl].
  - apply lk_upd_object_k; [left; reflexivity|apply lk_refl].
Qed.

Lemma release_write_lk om e me r : lk om e (res_exec (release_write e me r)).
Proof.
  unfold release_write. destruct (get_rw e r) as [s|]; [|apply lk_refl]. cbn [res_exec].
  apply lk_map_others_k; [tle_tac|]. apply lk_upd_object_k; [left; reflexivity|apply lk_refl].
Qed.

Lemma choose_store_lk om e seed : lk om e (fst (choose_store e seed)).
Proof.
  destruct (choose_store_frame e seed) as (H1 & H2 & H3). apply lk_same; try assumption.
  unfold choose_store. destr_all; reflexivity.
Qed.

(* ---- one micro-operation ---- *)
Ltac okey_side :=
  first [ left; reflexivity
        | right;
          let o := fresh "o" in
          let Ho := fresh "Ho" in
          intros o Ho; conv_hyps; autorewrite with eobj in *;
          match goal with
          | Hg : nth_error ?l ?i = Some _, Ho' : nth_error ?l ?i = Some o |- _ =>
              rewrite Hg in Ho'; injection Ho' as Ho'; subst o
          end; reflexivity ].

Ltac hobj_side := let h := fresh "h" in intros h; reflexivity.

Ltac body_side :=
  let HT := fresh "HT" in
  intros HT; destruct HT as [_ HT];
  cbn [t_cont th_set_dpor th_set_caus thread_new];
  first [ apply HT | rewrite tail_ok_subst_waker; apply HT ].

Ltac lclose_step :=
  match goal with
  | |- lk _ ?e ?e => apply lk_refl
  | H : lk ?om ?E ?x |- lk ?om _ ?x => apply (lk_trans om _ E x); [|exact H]
  | |- lk _ _ (log_op _ _ _) => apply lk_log_op_k
  | |- lk _ _ (log_poll _ _) => apply lk_log_poll_k
  | |- lk _ _ (push_cont _ _ _) => apply lk_push_cont_k; [reflexivity|]
  | |- lk _ _ (push_guard _ _ _ _) => apply lk_push_guard_k
  | |- lk _ _ (drop_guard _ _ _ _) => apply lk_drop_guard_k
  | |- lk _ _ (causality_inc _ _) => apply lk_causality_inc_k
  | |- lk _ _ (set_slot _ _ _ _) => apply lk_set_slot_k
  | |- lk _ _ (release_lock _ _ _) => apply release_lock_lk_k
  | |- lk _ _ (threads_unpark _ _ _) => apply lk_threads_unpark_k
  | |- lk _ _ (fold_left _ _ _) => apply lk_fold_unpark_k
  | |- lk _ _ (ex_set_path _ _) => apply lk_set_path_k
  | |- lk _ _ (ex_set_active _ _) => apply lk_set_active_k
  | |- lk _ _ (ex_set_seqcst _ _) => apply lk_set_seqcst_k
  | |- lk _ _ (ex_set_spawned _ _) => apply lk_set_spawned_k
  | |- lk _ _ (ex_set_joined _ _) => apply lk_set_joined_k
  | |- lk _ _ (ex_set_log _ _) => apply lk_set_log_k
  | |- lk _ _ (ex_set_lazy _ _) => apply lk_set_lazy_k
  | |- lk _ _ (ex_set_objects ?e (e_objects ?e ++ _)) =>
      apply lk_append_objects_k; [repeat constructor|]
  | |- lk _ _ (ex_set_threads ?e (e_threads ?e ++ [_])) =>
      apply lk_append_thread_k; [reflexivity|body_side|]
  | |- lk _ _ (upd_object (upd_hobj _ _ _) _ (fun _ => OAlloc true)) =>
      apply lk_track_drop_k; [assumption|]
  | |- lk _ _ (upd_object _ _ _) => apply lk_upd_object_k; [okey_side|]
  | |- lk _ _ (upd_thread _ _ _) => apply lk_upd_thread_k; [tle_tac|]
  | |- lk _ _ (upd_hobj _ _ _) => apply lk_upd_hobj_k; [hobj_side|]
  | |- lk _ _ (set_caus _ _ _) => apply lk_set_caus_k
  | |- lk _ _ (map_others _ _ _ _) => apply lk_map_others_k; [tle_tac|]
  end.

(* (the two rewrites: the dead first write of a disconnected MSendPost) *)
Ltac lclose :=
  cbn [res_exec lp_exec];
  rewrite ?upd_object_map_others_upd_object_const, ?upd_object_upd_object_const;
  repeat lclose_step.

Ltac lstep :=
  match goal with
  | |- lk ?om _ _ =>
  match goal with
  | |- lk _ _ (res_exec (fst (schedule _))) => apply schedule_lk_k
  | |- lk _ _ (res_exec (do_branch _ _ _ _ _)) => apply do_branch_lk_k
  | |- lk _ _ (res_exec (do_park _ _)) => apply do_park_lk_k
  | |- lk _ _ (res_exec (do_yield _ _)) => apply do_yield_lk_k
  | |- context [post_acquire ?e ?me ?m] =>
      let H := fresh "Hfr" in
      pose proof (post_acquire_lk om e me m) as H;
      destruct (post_acquire e me m); cbn [fst] in H
  | |- context [post_acquire_read ?e ?me ?m] =>
      let H := fresh "Hfr" in
      pose proof (post_acquire_read_lk om e me m) as H;
      destruct (post_acquire_read e me m); cbn [fst] in H
  | |- context [post_acquire_write ?e ?me ?m] =>
      let H := fresh "Hfr" in
      pose proof (post_acquire_write_lk om e me m) as H;
      destruct (post_acquire_write e me m); cbn [fst] in H
  | |- context [release_read ?e ?me ?m] =>
      let H := fresh "Hfr" in
      pose proof (release_read_lk om e me m) as H;
      destruct (release_read e me m); cbn [res_exec] in H
  | |- context [release_write ?e ?me ?m] =>
      let H := fresh "Hfr" in
      pose proof (release_write_lk om e me m) as H;
      destruct (release_write e me m); cbn [res_exec] in H
  | |- context [choose_store ?e ?s] =>
      let H := fresh "Hfr" in
      pose proof (choose_store_lk om e s) as H;
      destruct (choose_store e s) as [? [?|?]]; cbn [fst] in H
  | |- context [match ?x with _ => _ end] =>
      lazymatch x with
      | context [match _ with _ => _ end] => fail
      | _ => destruct x eqn:?
      end
  end end; cbv beta iota.

Lemma load_post_lk me e a o : lk (Some me) e (lp_exec (load_post e me a o)).
Proof. unfold load_post. repeat lstep. all: lclose. Qed.

Ltac lstep' :=
  first [ match goal with
          | |- context [load_post ?e ?me ?a ?o] =>
              let H := fresh "Hfr" in
              pose proof (load_post_lk me e a o) as H;
              destruct (load_post e me a o) as [[? ?]|[? ?]]; cbn [lp_exec] in H; cbv beta iota
          end
        | lstep ].

Ltac lk_tac :=
  cbn [exec_micro]; unfold lift_path, mbind; cbv beta iota;
  repeat lstep'; lclose.

(* every micro-operation but MTerminate keeps both invariants, the running
   thread being known not to be Terminated; also for the state carried by MFail *)
Lemma exec_micro_lk e me m :
  m <> MTerminate -> lk (Some me) e (res_exec (exec_micro e me m)).
Proof. intros Hm. destruct m; try congruence; lk_tac. Qed.

Lemma micro_eq_term m : m = MTerminate \/ m <> MTerminate.
Proof. destruct m; first [left; reflexivity|right; discriminate]. Qed.

(* ---- one step of Scheduler::run ---- *)
Lemma LI_weaken om e : LI om e -> LI None e.
Proof.
  intros [Ho [Ht Hb]]. split; [exact Ho|]. split; [|exact Hb].
  intros i t Hi. destruct (Ht i t Hi) as [H1 H2]. split; [exact H1|].
  intros Hterm. destruct (H2 Hterm) as (_ & Hc & Hop). repeat split; [discriminate|exact Hc|exact Hop].
Qed.

Lemma LI_pop e me t m rest :
  LI None e -> nth_error (e_threads e) me = Some t -> t_cont t = m :: rest ->
  LI (Some me) (upd_thread e me (fun t => th_set_cont t rest)).
Proof.
  intros [Ho [Ht Hb]] Hme Hc. split; [exact Ho|]. split; [|exact Hb].
  intros j t' Hj. rewrite e_threads_upd_thread in Hj.
  destruct (Nat.eq_dec me j) as [<-|Hne].
  - rewrite nth_error_list_upd_same, Hme in Hj. cbn [option_map] in Hj. injection Hj as <-.
    destruct (Ht me t Hme) as [H1 H2]. split.
    + cbn [t_cont th_set_cont]. rewrite Hc in H1. exact (tail_ok_tl _ _ H1).
    + intros Hterm. destruct (H2 Hterm) as (_ & Hnil & _). congruence.
  - rewrite nth_error_list_upd_other in Hj by exact Hne.
    destruct (Ht j t' Hj) as [H1 H2]. split; [exact H1|].
    intros Hterm. destruct (H2 Hterm) as (_ & Hnil & Hop). repeat split; [congruence|exact Hnil|exact Hop].
Qed.

Theorem step_LI e me t m rest :
  LI None e -> nth_error (e_threads e) me = Some t -> t_cont t = m :: rest ->
  LI None (res_exec (exec_micro (upd_thread e me (fun t => th_set_cont t rest)) me m)).
Proof.
  intros Hi Hme Hc. pose proof (LI_pop e me t m rest Hi Hme Hc) as Hp.
  destruct (micro_eq_term m) as [->|Hm].
  - (* MTerminate: it is the last micro-operation of the thread *)
    assert (Hrest : rest = []).
    { destruct Hi as [_ [Ht _]]. destruct (Ht me t Hme) as [H1 _]. rewrite Hc in H1.
      exact (tail_ok_term _ H1). }
    subst rest. cbn [exec_micro]. apply schedule_lk.
    destruct Hp as [Ho [Ht Hb]]. split; [exact Ho|]. split; [|exact Hb].
    intros j t' Hj. rewrite e_threads_upd_thread in Hj.
    destruct (Nat.eq_dec me j) as [<-|Hne].
    + rewrite nth_error_list_upd_same in Hj.
      rewrite e_threads_upd_thread, nth_error_list_upd_same, Hme in Hj.
      cbn [option_map] in Hj. injection Hj as <-. split; [reflexivity|].
      intros _. repeat split. discriminate.
    + rewrite nth_error_list_upd_other in Hj by exact Hne.
      destruct (Ht j t' Hj) as [H1 H2]. split; [exact H1|].
      intros Hterm. destruct (H2 Hterm) as (_ & Hnil & Hop). repeat split; [discriminate|exact Hnil|exact Hop].
  - eapply LI_weaken. apply (exec_micro_lk _ me m Hm). exact Hp.
Qed.

(* ---- the initial state ---- *)
Lemma create_objects_nth ds c r : forall os, create_objects ds c r = inl os ->
  length os = length ds /\
  forall i d, nth_error ds i = Some d ->
    exists o, nth_error os i = Some o /\ create_object d c r = inl o.
Proof.
  induction ds as [|d ds IH]; intros os H; cbn [create_objects] in H.
  - injection H as <-. split; [reflexivity|]. intros [|i] d0 Hd; discriminate Hd.
  - destruct (create_object d c r) as [o|pn] eqn:Ho; [|discriminate H].
    destruct (create_objects ds c r) as [os'|pn]; [|discriminate H]. injection H as <-.
    destruct (IH os' eq_refl) as [Hlen Hn]. split; [cbn [length]; congruence|].
    intros [|i] d0 Hd; cbn [nth_error] in *.
    + injection Hd as <-. eauto.
    + apply Hn. exact Hd.
Qed.

Lemma init_objects p pa :
  length (e_objects (init_exec p pa)) = length (p_decls p) /\
  forall i d, nth_error (p_decls p) i = Some d ->
    exists o, nth_error (e_objects (init_exec p pa)) i = Some o /\
              create_object d vv_new vv_new = inl o.
Proof.
  destruct (create_objects_local (p_decls p)) as (os & Hos & _).
  unfold init_exec. cbn [e_objects]. rewrite Hos. exact (create_objects_nth _ _ _ _ Hos).
Qed.

Lemma no_term_app a b : no_term (a ++ b) = no_term a && no_term b.
Proof. unfold no_term. apply forallb_app. Qed.

Lemma expand_no_term body pc i : no_term (expand body pc i) = true.
Proof.
  destruct i; try reflexivity.
  (* ILazyGet k: [MLazyGetY k] for the yielding static, [MLazyGet k] otherwise *)
  cbn [expand]. match goal with |- context [Nat.eqb ?k 2] => destruct (Nat.eqb k 2) end; reflexivity.
Qed.

Lemma expand_body_no_term body : forall l pc, no_term (expand_body_from body pc l) = true.
Proof.
  induction l as [|i l IH]; intros pc; cbn [expand_body_from]; [reflexivity|].
  change (MBegin pc :: expand body pc i ++ expand_body_from body (S pc) l)
    with ([MBegin pc] ++ expand body pc i ++ expand_body_from body (S pc) l).
  rewrite !no_term_app, expand_no_term, IH. reflexivity.
Qed.

Lemma exit_seq_tail_ok b : tail_ok (exit_seq b) = true.
Proof. destruct b; reflexivity. Qed.

Lemma expand_prog_tail_ok p b : tail_ok (nth b (expand_prog p) []) = true.
Proof.
  destruct (nth_error (expand_prog p) b) as [l|] eqn:Hn.
  - rewrite (nth_error_nth _ _ [] Hn). unfold expand_prog in Hn. rewrite nth_error_mapi in Hn.
    destruct (nth_error (p_bodies p) b) as [body|]; [|discriminate Hn].
    cbn [option_map] in Hn. injection Hn as <-.
    apply tail_ok_app; [apply expand_body_no_term|apply exit_seq_tail_ok].
  - apply nth_error_None in Hn. rewrite nth_overflow by exact Hn. reflexivity.
Qed.

Theorem init_LI p pa : LI None (init_exec p pa).
Proof.
  split.
  - intros i o Hi. destruct (init_objects p pa) as [Hlen Hn].
    assert (Hlt : i < length (p_decls p)) by (rewrite <- Hlen; apply nth_error_Some; congruence).
    destruct (nth_error (p_decls p) i) as [d|] eqn:Hd; [|apply nth_error_None in Hd; lia].
    destruct (Hn i d Hd) as (o' & Ho' & Hc). assert (o' = o) by congruence. subst o'.
    unfold init_exec. cbn [e_h]. unfold obj_ok. rewrite map_length.
    rewrite (nth_error_nth _ _ hobj_default (map_nth_error hobj_of_decl _ _ Hd)).
    destruct d; cbn [create_object] in Hc;
      injection Hc as <-; cbn [okey]; first [exact I|exact Hlt|split; [exact Hlt|reflexivity]].
  - split.
    + intros i t Hi. unfold init_exec in Hi. cbn [e_threads] in Hi.
      destruct i as [|i]; cbn [nth_error] in Hi; [|destruct i; discriminate Hi].
      injection Hi as <-. split; [apply expand_prog_tail_ok|]. intros Hterm. discriminate Hterm.
    + intros b. apply expand_prog_tail_ok.
Qed.

(* ---- runs ---- *)
Theorem run_LI : forall fuel e, LI None e -> LI None (fst (run fuel e)).
Proof.
  induction fuel as [|fuel IH]; intros e Hi; cbn [run]; [exact Hi|].
  destruct (e_active e) as [me|]; [|exact Hi].
  destruct (nth_error (e_threads e) me) as [t|] eqn:Ht; [|exact Hi].
  destruct (t_cont t) as [|m rest] eqn:Hc; [exact Hi|].
  pose proof (step_LI e me t m rest Hi Ht Hc) as H.
  destruct (exec_micro _ me m) as [e2|e2 pn]; cbn [res_exec fst] in *; [apply IH, H|exact H].
Qed.

(* ================================================================== *)
(* 2. The end of a finished run                                        *)
(* ================================================================== *)

Lemma pendc_all_nil k cs : Forall (fun c => c = []) cs -> pendc k cs = 0.
Proof. induction 1 as [|c cs Hc _ IH]; [reflexivity|]. subst c. cbn [pendc]. exact IH. Qed.

(* every thread is Terminated, has nothing left to run and no pending
   operation; no drop is in flight; no thread is active *)
Theorem run_done_quiet fuel e e' :
  run fuel e = (e', IterDone) -> e_active e <> None -> LI None e ->
  Forall (fun t => t_state t = Terminated /\ t_cont t = [] /\ t_op t = None) (e_threads e') /\
  (forall k, pend e' k = 0) /\ e_active e' = None.
Proof.
  intros Hr Ha Hi. destruct (run_done_all_terminated _ _ _ Hr Ha) as [Hall Hact].
  pose proof (run_LI fuel e Hi) as Hi'. rewrite Hr in Hi'. cbn [fst] in Hi'.
  destruct Hi' as [_ [Ht _]].
  assert (Hq : Forall (fun t => t_state t = Terminated /\ t_cont t = [] /\ t_op t = None) (e_threads e')).
  { rewrite Forall_forall in *. intros t Hin. specialize (Hall t Hin).
    destruct (In_nth_error _ _ Hin) as (i & Hn). destruct (Ht i t Hn) as [_ H2].
    assert (Hterm : is_terminated t = true) by (unfold is_terminated; rewrite Hall; reflexivity).
    destruct (H2 Hterm) as (_ & Hc & Hop). auto. }
  split; [exact Hq|]. split; [|exact Hact].
  intros k. unfold pend, conts. apply pendc_all_nil. rewrite Forall_map.
  eapply Forall_impl; [|exact Hq]. intros t (_ & Hc & _). exact Hc.
Qed.

(* ================================================================== *)
(* 3. The three kinds of leak against the harness-level truth          *)
(* ================================================================== *)

(* what the scan says about entry k of the store *)
Definition leak_at (e : exec) (k : nat) : option leak_kind :=
  match nth_error (e_objects e) k with Some o => leak_of o | None => None end.

(* the runtime message count of channel h *)
Definition msgs (e : exec) (h : nat) : nat :=
  match get_chan e h with Some s => ch_cnt s | None => 0 end.

(* the harness-level truth about the k-th declared object: a live handle
   slot, a message in the std queue, a tracked value not yet dropped.
   (Before the undo_send fix the channel clause had to be the RUNTIME count
   [msgs]: a send after the receiver's drop was counted although the std queue
   was gone, finding F1.) *)
Definition hleak (p : prog) (e : exec) (k : nat) : option leak_kind :=
  match nth_error (p_decls p) k with
  | Some DArc => if Nat.eqb (live e k) 0 then None else Some LArc
  | Some DChan => match ho_q (get_h e k) with [] => None | _ :: _ => Some LMsgs end
  | Some DTrack => if ho_track (get_h e k) then Some LAlloc else None
  | _ => None
  end.

(* the Arcs that are not harness objects (the wakers of block_on) *)
Definition dyn_arcs_released (p : prog) (e : exec) : Prop :=
  forall i s, length (p_decls p) <= i -> nth_error (e_objects e) i = Some (OArc s) -> arc_cnt s = 0.

Lemma check_for_leaks_leak_at l :
  check_for_leaks l = None <->
  forall i o, nth_error l i = Some o -> leak_of o = None.
Proof.
  rewrite check_for_leaks_none, Forall_forall. split.
  - intros H i o Hi. apply H. eapply nth_error_In; exact Hi.
  - intros H o Hin. destruct (In_nth_error _ _ Hin) as (i & Hi). eapply H; exact Hi.
Qed.

Section FinishedRun.
  Variable fuel : nat.
  Variable p : prog.
  Variable pa : path.
  Variable e : exec.
  Hypothesis Hrun : run fuel (init_exec p pa) = (e, IterDone).

  Lemma end_is_run : e = fst (run fuel (init_exec p pa)).
  Proof. rewrite Hrun. reflexivity. Qed.

  Lemma end_LI : LI None e.
  Proof. rewrite end_is_run. apply run_LI, init_LI. Qed.

  Lemma end_h_length : length (e_h e) = length (p_decls p).
  Proof. rewrite end_is_run. apply run_h_length. Qed.

  Lemma end_chan_inv : chan_inv e.
  Proof. rewrite end_is_run. apply run_chan_inv. Qed.

  Lemma end_quiet :
    Forall (fun t => t_state t = Terminated /\ t_cont t = [] /\ t_op t = None) (e_threads e) /\
    (forall k, pend e k = 0) /\ e_active e = None.
  Proof.
    eapply run_done_quiet; [exact Hrun| |apply init_LI]. rewrite init_exec_active. discriminate.
  Qed.

  (* the k-th declared object is still at index k, and still of its kind *)
  Lemma end_decl_object k d :
    nth_error (p_decls p) k = Some d ->
    exists o0 o, create_object d vv_new vv_new = inl o0 /\
                 nth_error (e_objects e) k = Some o /\ obj_le o0 o.
  Proof.
    intros Hd. destruct (init_objects p pa) as [_ Hn]. destruct (Hn k d Hd) as (o0 & Ho0 & Hc).
    pose proof (run_mono fuel (init_exec p pa)) as Hm. rewrite <- end_is_run in Hm.
    destruct (omono_strict _ _ Hm (init_exec_track_ok p pa) k o0 Ho0) as (o & Ho & Hle).
    exists o0, o. auto.
  Qed.

  (* A1. Arc: reported iff a handle slot is still alive *)
  Theorem arc_leak_iff k :
    run_disc fuel (init_exec p pa) = true ->
    nth_error (p_decls p) k = Some DArc ->
    exists s, nth_error (e_objects e) k = Some (OArc s) /\
              arc_cnt s = live e k /\ pend e k = 0 /\
              leak_at e k = (if Nat.eqb (live e k) 0 then None else Some LArc).
  Proof.
    intros Hdisc Hd. destruct (end_decl_object k DArc Hd) as (o0 & o & Hc & Ho & Hle).
    cbn [create_object] in Hc. injection Hc as <-.
    destruct o; cbn [obj_le view_le] in Hle; try contradiction. exists s.
    assert (Hk : k < length (e_h e)).
    { rewrite end_h_length. apply nth_error_Some. congruence. }
    pose proof (run_count_inv fuel p pa Hdisc) as [Ha _]. rewrite <- end_is_run in Ha.
    pose proof (Ha k s Hk (get_arc_of_nth _ _ _ Ho)) as Hcnt.
    destruct end_quiet as (_ & Hp & _). rewrite Hp, Nat.add_0_r in Hcnt.
    split; [exact Ho|]. split; [exact Hcnt|]. split; [apply Hp|].
    unfold leak_at. rewrite Ho. cbn [leak_of]. rewrite Hcnt. reflexivity.
  Qed.

  (* A2. channel: reported iff the runtime count is positive, and the runtime
     count is the length of the std queue, receiver alive or not: a send to a
     channel whose receiver is gone does not count (Channel::undo_send); once
     the receiver is gone the count is 0, so such a channel is never reported *)
  Theorem chan_leak_iff h :
    nth_error (p_decls p) h = Some DChan ->
    exists s, nth_error (e_objects e) h = Some (OChannel s) /\ msgs e h = ch_cnt s /\
              leak_at e h = (if Nat.eqb (msgs e h) 0 then None else Some LMsgs) /\
              msgs e h = length (ho_q (get_h e h)) /\
              (ho_rx (get_h e h) = false -> msgs e h = 0).
  Proof.
    intros Hd. destruct (end_decl_object h DChan Hd) as (o0 & o & Hc & Ho & Hle).
    cbn [create_object] in Hc. injection Hc as <-.
    destruct o; cbn [obj_le] in Hle; try contradiction. exists s.
    assert (Hk : h < length (e_h e)).
    { rewrite end_h_length. apply nth_error_Some. congruence. }
    pose proof (get_chan_of_nth _ _ _ Ho) as Hg.
    destruct (chan_inv_queue_length e h s end_chan_inv Hk Hg) as (_ & Hq & Hz).
    assert (Hm : msgs e h = ch_cnt s) by (unfold msgs; rewrite Hg; reflexivity).
    split; [exact Ho|]. split; [exact Hm|]. split.
    - unfold leak_at. rewrite Ho, Hm. reflexivity.
    - rewrite Hm. split; [symmetry; exact Hq|exact Hz].
  Qed.

  (* the scan against the std queue, receiver alive or not *)
  Corollary chan_leak_queue h :
    nth_error (p_decls p) h = Some DChan ->
    leak_at e h = (match ho_q (get_h e h) with [] => None | _ :: _ => Some LMsgs end).
  Proof.
    intros Hd. destruct (chan_leak_iff h Hd) as (s & _ & _ & Hl & Hq & _).
    rewrite Hl, Hq. destruct (ho_q (get_h e h)); reflexivity.
  Qed.

  Corollary chan_leak_rx_alive h :
    nth_error (p_decls p) h = Some DChan -> ho_rx (get_h e h) = true ->
    leak_at e h = (match ho_q (get_h e h) with [] => None | _ :: _ => Some LMsgs end).
  Proof. intros Hd _. apply chan_leak_queue, Hd. Qed.

  (* a channel whose receiver has been dropped holds nothing and is not reported *)
  Corollary chan_leak_rx_dropped h :
    nth_error (p_decls p) h = Some DChan -> ho_rx (get_h e h) = false ->
    ho_q (get_h e h) = [] /\ msgs e h = 0 /\ leak_at e h = None.
  Proof.
    intros Hd Hrx. destruct (chan_leak_iff h Hd) as (s & _ & _ & Hl & Hq & Hz).
    specialize (Hz Hrx). rewrite Hz in Hq, Hl. split; [|split; [exact Hz|exact Hl]].
    destruct (ho_q (get_h e h)); [reflexivity|discriminate Hq].
  Qed.

  (* A3. Track: reported iff the tracked value was never dropped *)
  Theorem track_leak_iff k :
    nth_error (p_decls p) k = Some DTrack ->
    nth_error (e_objects e) k = Some (OAlloc (negb (ho_track (get_h e k)))) /\
    leak_at e k = (if ho_track (get_h e k) then Some LAlloc else None).
  Proof.
    intros Hd. destruct (end_decl_object k DTrack Hd) as (o0 & o & Hc & Ho & Hle).
    cbn [create_object] in Hc. injection Hc as <-.
    destruct o; cbn [obj_le view_le] in Hle; try contradiction.
    destruct end_LI as [Hoi _]. pose proof (Hoi k _ Ho) as Hok. unfold obj_ok in Hok.
    cbn [okey] in Hok. destruct Hok as [_ Hdr]. fold (get_h e k) in Hdr. subst dropped.
    split; [exact Ho|]. unfold leak_at. rewrite Ho. cbn [leak_of].
    destruct (ho_track (get_h e k)); reflexivity.
  Qed.

  (* the other declared objects never leak *)
  Theorem other_decl_never_leaks k d :
    nth_error (p_decls p) k = Some d ->
    d <> DArc -> d <> DChan -> d <> DTrack -> leak_at e k = None.
  Proof.
    intros Hd H1 H2 H3. destruct (end_decl_object k d Hd) as (o0 & o & Hc & Ho & Hle).
    unfold leak_at. rewrite Ho.
    destruct d; try congruence; cbn [create_object] in Hc;
      try (injection Hc as <-; destruct o; cbn [obj_le view_le] in Hle; try contradiction; reflexivity).
  Qed.

  (* all declared objects at once *)
  Theorem declared_leak_exact k :
    run_disc fuel (init_exec p pa) = true ->
    k < length (p_decls p) -> leak_at e k = hleak p e k.
  Proof.
    intros Hdisc Hk. unfold hleak.
    destruct (nth_error (p_decls p) k) as [d|] eqn:Hd; [|apply nth_error_None in Hd; lia].
    destruct d;
      try (apply (other_decl_never_leaks k _ Hd); discriminate).
    - apply (chan_leak_queue k Hd).
    - destruct (arc_leak_iff k Hdisc Hd) as (s & _ & _ & _ & Hl). exact Hl.
    - destruct (track_leak_iff k Hd) as [_ Hl]. exact Hl.
  Qed.

  (* beyond the declared objects only Arcs (the wakers of block_on) can leak *)
  Lemma dyn_leak_is_arc i o kd :
    length (p_decls p) <= i -> nth_error (e_objects e) i = Some o -> leak_of o = Some kd ->
    exists s, o = OArc s /\ kd = LArc /\ arc_cnt s <> 0.
  Proof.
    intros Hi Ho Hl. destruct end_LI as [Hoi _]. pose proof (Hoi i o Ho) as Hok.
    unfold obj_ok in Hok. rewrite end_h_length in Hok.
    destruct o; cbn [leak_of okey] in *; try discriminate Hl; try lia.
    destruct (Nat.eqb_spec (arc_cnt s) 0) as [Hz|Hz]; [discriminate Hl|].
    injection Hl as <-. eauto.
  Qed.

  (* ================================================================ *)
  (* 4. The verdict                                                    *)
  (* ================================================================ *)

  Lemma scan_passes_iff :
    run_disc fuel (init_exec p pa) = true ->
    (check_for_leaks (e_objects e) = None <->
     (forall k, k < length (p_decls p) -> hleak p e k = None) /\ dyn_arcs_released p e).
  Proof.
    intros Hdisc. rewrite check_for_leaks_leak_at. split.
    - intros H. split.
      + intros k Hk. rewrite <- (declared_leak_exact k Hdisc Hk). unfold leak_at.
        destruct (nth_error (e_objects e) k) as [o|] eqn:Ho; [eapply H; exact Ho|reflexivity].
      + intros i s Hi Ho. pose proof (H i _ Ho) as Hl. cbn [leak_of] in Hl.
        destruct (Nat.eqb_spec (arc_cnt s) 0) as [Hz|Hz]; [exact Hz|discriminate Hl].
    - intros [Hdecl Hdyn] i o Ho.
      destruct (Nat.lt_ge_cases i (length (p_decls p))) as [Hlt|Hge].
      + pose proof (declared_leak_exact i Hdisc Hlt) as Hx. unfold leak_at in Hx.
        rewrite Ho in Hx. rewrite Hx. apply Hdecl. exact Hlt.
      + destruct (leak_of o) as [kd|] eqn:Hl; [|reflexivity]. exfalso.
        destruct (dyn_leak_is_arc i o kd Hge Ho Hl) as (s & -> & _ & Hnz).
        apply Hnz. eapply Hdyn; eassumption.
  Qed.

  (* A4. the iteration ends without a leak panic iff nothing is alive *)
  Theorem iteration_done_iff :
    run_disc fuel (init_exec p pa) = true ->
    (iteration fuel p pa = (e, IterDone) <->
     (forall k, k < length (p_decls p) -> hleak p e k = None) /\ dyn_arcs_released p e).
  Proof.
    intros Hdisc. rewrite <- (scan_passes_iff Hdisc), (iteration_after_done _ _ _ _ Hrun).
    destruct (check_for_leaks (e_objects e)); split; intros H; congruence.
  Qed.

  (* the same, spelled out: no handle alive, no message held, no tracked value
     alive, all wakers released: the leak check passes *)
  Theorem no_leak_passes :
    run_disc fuel (init_exec p pa) = true ->
    (forall k, nth_error (p_decls p) k = Some DArc -> live e k = 0) ->
    (forall h, nth_error (p_decls p) h = Some DChan -> ho_q (get_h e h) = []) ->
    (forall k, nth_error (p_decls p) k = Some DTrack -> ho_track (get_h e k) = false) ->
    dyn_arcs_released p e ->
    iteration fuel p pa = (e, IterDone).
  Proof.
    intros Hdisc Ha Hc Ht Hdyn. apply (iteration_done_iff Hdisc). split; [|exact Hdyn].
    intros k Hk. unfold hleak. destruct (nth_error (p_decls p) k) as [d|] eqn:Hd; [|reflexivity].
    destruct d; try reflexivity.
    - rewrite (Hc k Hd). reflexivity.
    - rewrite (Ha k Hd). reflexivity.
    - rewrite (Ht k Hd). reflexivity.
  Qed.

  (* "no message held" (runtime count) is "the std queue is empty" *)
  Lemma msgs_zero_of_empty_queue h :
    nth_error (p_decls p) h = Some DChan ->
    ho_q (get_h e h) = [] -> msgs e h = 0.
  Proof.
    intros Hd Hq. destruct (chan_leak_iff h Hd) as (s & _ & _ & _ & Hx & _).
    rewrite Hq in Hx. exact Hx.
  Qed.

  (* a reported leak is true, and it is the first one in index order *)
  Theorem leak_reported_is_true kd i :
    run_disc fuel (init_exec p pa) = true ->
    iteration fuel p pa = (e, IterPanic (PanicLeak kd i)) ->
    (forall j, j < i -> j < length (p_decls p) -> hleak p e j = None) /\
    (forall j s, j < i -> length (p_decls p) <= j ->
                 nth_error (e_objects e) j = Some (OArc s) -> arc_cnt s = 0) /\
    ((i < length (p_decls p) /\ hleak p e i = Some kd) \/
     (length (p_decls p) <= i /\ kd = LArc /\
      exists s, nth_error (e_objects e) i = Some (OArc s) /\ arc_cnt s <> 0)).
  Proof.
    intros Hdisc Hit.
    destruct (iteration_leak_is_first_leaking_entry _ _ _ _ _ _ Hit) as (o & Ho & Hl & Hmin).
    split; [|split].
    - intros j Hj Hjd. rewrite <- (declared_leak_exact j Hdisc Hjd). unfold leak_at.
      destruct (nth_error (e_objects e) j) as [o'|] eqn:Ho'; [eapply Hmin; eassumption|reflexivity].
    - intros j s Hj Hjd Ho'. pose proof (Hmin j _ Hj Ho') as Hx. cbn [leak_of] in Hx.
      destruct (Nat.eqb_spec (arc_cnt s) 0) as [Hz|Hz]; [exact Hz|discriminate Hx].
    - destruct (Nat.lt_ge_cases i (length (p_decls p))) as [Hlt|Hge].
      + left. split; [exact Hlt|]. rewrite <- (declared_leak_exact i Hdisc Hlt).
        unfold leak_at. rewrite Ho. exact Hl.
      + right. destruct (dyn_leak_is_arc i o kd Hge Ho Hl) as (s & -> & -> & Hnz). eauto.
  Qed.

  (* conversely every true leak makes the iteration fail with a leak panic *)
  Theorem true_leak_is_reported k kd :
    run_disc fuel (init_exec p pa) = true ->
    k < length (p_decls p) -> hleak p e k = Some kd ->
    exists kd' i, i <= k /\ iteration fuel p pa = (e, IterPanic (PanicLeak kd' i)).
  Proof.
    intros Hdisc Hk Hh. rewrite (iteration_after_done _ _ _ _ Hrun).
    destruct (check_for_leaks (e_objects e)) as [pn|] eqn:Hl.
    - apply check_for_leaks_first in Hl. destruct Hl as (i & o & kd' & -> & Hn & Hlk & Hmin).
      exists kd', i. split; [|reflexivity].
      destruct (Nat.le_gt_cases i k) as [Hle|Hgt]; [exact Hle|]. exfalso.
      pose proof (declared_leak_exact k Hdisc Hk) as Hx. unfold leak_at in Hx.
      destruct (nth_error (e_objects e) k) as [o'|] eqn:Ho'.
      + rewrite (Hmin k o' Hgt Ho') in Hx. congruence.
      + congruence.
    - exfalso. apply (scan_passes_iff Hdisc) in Hl. destruct Hl as [Hd _].
      rewrite (Hd k Hk) in Hh. discriminate Hh.
  Qed.

End FinishedRun.

(* ================================================================== *)
(* 5. Examples and witnesses                                           *)
(* ================================================================== *)

Definition cfgK : config := mkConfig 5 1000 None None None false.
Definition is_none {A} (o : option A) : bool := match o with None => true | Some _ => false end.

(* everything released, in every schedule the model explores: never reported *)
Definition p_clean : prog := mkProg cfgK [DArc; DChan; DTrack]
  [[IArcClone 0 0 1; ISpawn 1; ISend 1 7; IArcDrop 0 0; ITrackDrop 2; IJoin 1];
   [IRecv 1; IArcDrop 0 1]].

Example clean_program_passes :
  snd (fst (check 100 1000 p_clean)) = RunOk /\
  forallb (fun r => match ir_result r with IterDone => true | _ => false end)
          (fst (fst (check 100 1000 p_clean))) = true.
Proof. vm_compute. split; reflexivity. Qed.

(* a handle that is never dropped; a message that is never received; a tracked
   value that is never dropped: the first leaking entry is reported *)
Definition p_three : prog := mkProg cfgK [DTrack; DChan; DArc] [[ISend 1 3]].
Definition e_three : exec := fst (iteration 1000 p_three (initial_path cfgK)).

Example three_leaks_first_reported :
  snd (iteration 1000 p_three (initial_path cfgK)) = IterPanic (PanicLeak LAlloc 0) /\
  map (hleak p_three e_three) [0; 1; 2] = [Some LAlloc; Some LMsgs; Some LArc] /\
  run_disc 1000 (init_exec p_three (initial_path cfgK)) = true.
Proof. vm_compute. repeat split; reflexivity. Qed.

(* F1 (fixed): a message that was handed back to the sender is NOT reported.
   Before the undo_send fix this iteration ended with PanicLeak LMsgs 0 and
   msgs = 1 (witness then: send_after_drop_reported). *)
Definition p_send_after_drop : prog := mkProg cfgK [DChan] [[IDropRx 0; ISend 0 5]].
Definition e_sad : exec := fst (iteration 1000 p_send_after_drop (initial_path cfgK)).

Lemma send_after_drop_not_reported :
  snd (iteration 1000 p_send_after_drop (initial_path cfgK)) = IterDone /\
  rev (e_log e_sad) = [LOp 0 0 RUnit; LOp 0 1 RDisc] /\
  ho_rx (get_h e_sad 0) = false /\ ho_q (get_h e_sad 0) = [] /\ msgs e_sad 0 = 0 /\
  hleak p_send_after_drop e_sad 0 = None.
Proof. vm_compute. repeat split; reflexivity. Qed.

(* F2: the waker of block_on left in the AtomicWaker.  main polls (value 0),
   clones its waker; t1 stores 1 and wakes (the AtomicWaker is still empty);
   main registers the clone, polls again, finds 1 and returns: the clone stays
   registered.  No declared object leaks; the scan reports the waker's Arc. *)
Definition p_waker : prog := mkProg cfgK [DAtomic 0; DWaker]
  [[ISpawn 1; IBlockOn 0 1 1; IJoin 1]; [IStore 0 1 SeqCst; IWake 1]].
Definition pa_waker : path :=
  match rev (fst (fst (check 100 1000 p_waker))) with r :: _ => ir_begin r | [] => initial_path cfgK end.
Definition e_waker : exec := fst (iteration 1000 p_waker pa_waker).

Lemma waker_left_registered_reported :
  snd (fst (check 100 1000 p_waker)) = RunPanic (PanicLeak LArc 4) /\
  snd (iteration 1000 p_waker pa_waker) = IterPanic (PanicLeak LArc 4) /\
  length (p_decls p_waker) = 2 /\
  forallb (fun k => is_none (hleak p_waker e_waker k)) [0; 1] = true /\
  is_some (ho_waker (get_h e_waker 1)) = true.
Proof. vm_compute. repeat split; reflexivity. Qed.

Print Assumptions exec_micro_no_leak.
Print Assumptions iteration_leak_iff.
Print Assumptions iteration_leak_is_first_leaking_entry.
Print Assumptions step_LI.
Print Assumptions run_LI.
Print Assumptions run_done_quiet.
Print Assumptions arc_leak_iff.
Print Assumptions chan_leak_iff.
Print Assumptions chan_leak_queue.
Print Assumptions chan_leak_rx_alive.
Print Assumptions chan_leak_rx_dropped.
Print Assumptions track_leak_iff.
Print Assumptions other_decl_never_leaks.
Print Assumptions declared_leak_exact.
Print Assumptions iteration_done_iff.
Print Assumptions no_leak_passes.
Print Assumptions leak_reported_is_true.
Print Assumptions true_leak_is_reported.
Print Assumptions send_after_drop_not_reported.
Print Assumptions waker_left_registered_reported.

(* ================================================================== *)
(* 6. Programs without block_on: declared objects are all there is     *)
(* ================================================================== *)

(* The only Arcs that are not harness objects are the wakers created by
   future::block_on (MBlockOn / MBlockOnS).  A program that never calls block_on
   never has one, and [dyn_arcs_released] holds trivially: for such programs the
   leak check passes iff no declared object leaks at the harness level. *)

Definition is_bo (m : micro) : bool :=
  match m with MBlockOn _ _ _ | MBlockOnS _ _ _ _ => true | _ => false end.
Definition nobo (c : list micro) : bool := forallb (fun m => negb (is_bo m)) c.

Definition is_bo_instr (i : instr) : bool :=
  match i with IBlockOn _ _ _ | IBlockOnS _ _ _ _ => true | _ => false end.
Definition prog_nobo (p : prog) : bool :=
  forallb (forallb (fun i => negb (is_bo_instr i))) (p_bodies p).

Definition akey (o : object) : bool := match o with OArc _ => true | _ => false end.

Definition BF (e : exec) : Prop :=
  (forall i t, nth_error (e_threads e) i = Some t -> nobo (t_cont t) = true) /\
  (forall b, nobo (nth b (e_bodies e) []) = true) /\
  (forall i o, nth_error (e_objects e) i = Some o -> akey o = true -> i < length (e_h e)).

Definition bk (e e' : exec) : Prop := BF e -> BF e'.

Lemma bk_refl e : bk e e.
Proof. intros H. exact H. Qed.
Lemma bk_trans e1 e2 e3 : bk e1 e2 -> bk e2 e3 -> bk e1 e3.
Proof. unfold bk. auto. Qed.
Lemma bk_k e0 e e' : bk e e' -> bk e0 e -> bk e0 e'.
Proof. unfold bk. auto. Qed.

Lemma nobo_app a b : nobo (a ++ b) = nobo a && nobo b.
Proof. unfold nobo. apply forallb_app. Qed.

Lemma nobo_subst_waker n k : forall c used, nobo (subst_waker n k used c) = nobo c.
Proof.
  induction c as [|m c IH]; intros used; [reflexivity|].
  destruct m; cbn [subst_waker]; try destruct used; unfold nobo in *; cbn [forallb is_bo negb andb];
    rewrite ?IH; reflexivity.
Qed.

Lemma bk_same_k e0 e e' :
  e_threads e' = e_threads e -> e_bodies e' = e_bodies e ->
  e_objects e' = e_objects e -> e_h e' = e_h e -> bk e0 e -> bk e0 e'.
Proof.
  intros Ht Hb Ho Hh. apply bk_k. intros (H1 & H2 & H3). unfold BF. rewrite Ht, Hb, Ho, Hh. auto.
Qed.

Lemma bk_set_threads_k e0 e ths :
  (BF e -> forall i t', nth_error ths i = Some t' -> nobo (t_cont t') = true) ->
  bk e0 e -> bk e0 (ex_set_threads e ths).
Proof. intros Hf. apply bk_k. intros HB. split; [exact (Hf HB)|exact (proj2 HB)]. Qed.

Lemma bk_upd_thread_k e0 e i f :
  (forall t, nobo (t_cont t) = true -> nobo (t_cont (f t)) = true) ->
  bk e0 e -> bk e0 (upd_thread e i f).
Proof.
  intros Hf. apply bk_set_threads_k. intros (Ht & _) j t' Hj.
  destruct (Nat.eq_dec i j) as [->|Hne].
  - rewrite nth_error_list_upd_same in Hj. destruct (nth_error (e_threads e) j) as [t|] eqn:Hn;
      cbn [option_map] in Hj; [|discriminate Hj]. injection Hj as <-. apply Hf. eapply Ht; exact Hn.
  - rewrite nth_error_list_upd_other in Hj by exact Hne. eapply Ht; exact Hj.
Qed.

Lemma bk_mapi_k e0 e g :
  (forall id t, t_cont (g id t) = t_cont t) ->
  bk e0 e -> bk e0 (ex_set_threads e (mapi g (e_threads e))).
Proof.
  intros Hg. apply bk_set_threads_k. intros (Ht & _) j t' Hj.
  rewrite nth_error_mapi in Hj. destruct (nth_error (e_threads e) j) as [t|] eqn:Hn;
    cbn [option_map] in Hj; [|discriminate Hj]. injection Hj as <-. rewrite Hg. eapply Ht; exact Hn.
Qed.

Lemma bk_map_others_k e0 e me p f :
  (forall t, t_cont (f t) = t_cont t) -> bk e0 e -> bk e0 (map_others e me p f).
Proof.
  intros Hf. unfold map_others. apply bk_mapi_k. intros id t.
  destruct (negb (Nat.eqb id me) && p t); [apply Hf|reflexivity].
Qed.

Lemma bk_append_thread_k e0 e nt :
  (BF e -> nobo (t_cont nt) = true) -> bk e0 e -> bk e0 (ex_set_threads e (e_threads e ++ [nt])).
Proof.
  intros Hc. apply bk_set_threads_k. intros HB j t' Hj.
  destruct (Nat.lt_ge_cases j (length (e_threads e))) as [Hlt|Hge].
  - rewrite nth_error_app1 in Hj by exact Hlt. eapply (proj1 HB); exact Hj.
  - rewrite nth_error_app2 in Hj by exact Hge.
    destruct (j - length (e_threads e)) as [|d]; cbn [nth_error] in Hj;
      [|destruct d; discriminate Hj].
    injection Hj as <-. exact (Hc HB).
Qed.

Lemma bk_upd_object_f_k e0 e i f :
  (forall o, nth_error (e_objects e) i = Some o -> akey (f o) = false \/ akey o = true) ->
  bk e0 e -> bk e0 (upd_object e i f).
Proof.
  intros Hf. apply bk_k. intros (H1 & H2 & H3). split; [exact H1|]. split; [exact H2|].
  intros j o Hj Hk. rewrite e_objects_upd_object in Hj. change (e_h (upd_object e i f)) with (e_h e).
  destruct (Nat.eq_dec i j) as [->|Hne].
  - rewrite nth_error_list_upd_same in Hj. destruct (nth_error (e_objects e) j) as [o0|] eqn:Hn;
      cbn [option_map] in Hj; [|discriminate Hj]. injection Hj as <-.
    destruct (Hf _ eq_refl) as [Hx|Hx]; [congruence|]. eapply H3; [exact Hn|exact Hx].
  - rewrite nth_error_list_upd_other in Hj by exact Hne. eapply H3; eassumption.
Qed.

Lemma bk_upd_object_k e0 e i o' :
  (akey o' = false \/ forall o, nth_error (e_objects e) i = Some o -> akey o = true) ->
  bk e0 e -> bk e0 (upd_object e i (fun _ => o')).
Proof.
  intros Hf. apply bk_upd_object_f_k. intros o Ho. destruct Hf as [Hk|Hk]; [left; exact Hk|right; auto].
Qed.

Lemma bk_upd_hobj_k e0 e i f : bk e0 e -> bk e0 (upd_hobj e i f).
Proof.
  apply bk_k. intros (H1 & H2 & H3). split; [exact H1|]. split; [exact H2|].
  intros j o Hj Hk. change (e_h (upd_hobj e i f)) with (list_upd (e_h e) i f).
  rewrite list_upd_length. eapply H3; eassumption.
Qed.

Lemma bk_append_objects_k e0 e l :
  Forall (fun o => akey o = false) l -> bk e0 e -> bk e0 (ex_set_objects e (e_objects e ++ l)).
Proof.
  intros Hl. apply bk_k. intros (H1 & H2 & H3). split; [exact H1|]. split; [exact H2|].
  intros j o Hj Hk. change (nth_error (e_objects e ++ l) j = Some o) in Hj.
  change (e_h (ex_set_objects e (e_objects e ++ l))) with (e_h e).
  destruct (Nat.lt_ge_cases j (length (e_objects e))) as [Hlt|Hge].
  - rewrite nth_error_app1 in Hj by exact Hlt. eapply H3; eassumption.
  - rewrite nth_error_app2 in Hj by exact Hge. apply nth_error_In in Hj.
    rewrite Forall_forall in Hl. rewrite (Hl _ Hj) in Hk. discriminate Hk.
Qed.

Lemma bk_set_path_k e0 e x : bk e0 e -> bk e0 (ex_set_path e x).
Proof. apply bk_same_k; reflexivity. Qed.
Lemma bk_set_active_k e0 e x : bk e0 e -> bk e0 (ex_set_active e x).
Proof. apply bk_same_k; reflexivity. Qed.
Lemma bk_set_seqcst_k e0 e x : bk e0 e -> bk e0 (ex_set_seqcst e x).
Proof. apply bk_same_k; reflexivity. Qed.
Lemma bk_set_spawned_k e0 e x : bk e0 e -> bk e0 (ex_set_spawned e x).
Proof. apply bk_same_k; reflexivity. Qed.
Lemma bk_set_joined_k e0 e x : bk e0 e -> bk e0 (ex_set_joined e x).
Proof. apply bk_same_k; reflexivity. Qed.
Lemma bk_set_log_k e0 e x : bk e0 e -> bk e0 (ex_set_log e x).
Proof. apply bk_same_k; reflexivity. Qed.
Lemma bk_set_lazy_k e0 e x : bk e0 e -> bk e0 (ex_set_lazy e x).
Proof. apply bk_same_k; reflexivity. Qed.
Lemma bk_log_op_k e0 e me r : bk e0 e -> bk e0 (log_op e me r).
Proof. unfold log_op. destruct (get_thread e me); [apply bk_same_k; reflexivity|auto]. Qed.
Lemma bk_log_poll_k e0 e me : bk e0 e -> bk e0 (log_poll e me).
Proof. unfold log_poll. destruct (get_thread e me); [apply bk_same_k; reflexivity|auto]. Qed.

Lemma t_cont_set_unparked t : t_cont (set_unparked t) = t_cont t.
Proof. unfold set_unparked. destruct (is_parked t); [reflexivity|]. destruct (is_terminated t); reflexivity. Qed.

Ltac keepc_tac :=
  intros; cbv beta;
  repeat match goal with
         | |- context [match ?x with _ => _ end] => destruct x
         end;
  first [ assumption | reflexivity | apply t_cont_set_unparked
        | (unfold thread_unpark; rewrite t_cont_set_unparked; first [assumption|reflexivity])
        | (rewrite t_cont_set_unparked; assumption) ].

Lemma bk_set_caus_k e0 e me v : bk e0 e -> bk e0 (set_caus e me v).
Proof. apply bk_upd_thread_k. keepc_tac. Qed.
Lemma bk_causality_inc_k e0 e me : bk e0 e -> bk e0 (causality_inc e me).
Proof. apply bk_upd_thread_k. keepc_tac. Qed.
Lemma bk_push_guard_k e0 e me k m : bk e0 e -> bk e0 (push_guard e me k m).
Proof. apply bk_upd_thread_k. keepc_tac. Qed.
Lemma bk_drop_guard_k e0 e me k m : bk e0 e -> bk e0 (drop_guard e me k m).
Proof. apply bk_upd_thread_k. keepc_tac. Qed.
Lemma bk_set_slot_k e0 e k i b : bk e0 e -> bk e0 (set_slot e k i b).
Proof. apply bk_upd_hobj_k. Qed.

Lemma bk_threads_unpark_k e0 e me id : bk e0 e -> bk e0 (threads_unpark e me id).
Proof. unfold threads_unpark. destruct (Nat.eqb id me); apply bk_upd_thread_k; keepc_tac. Qed.

Lemma bk_fold_unpark_k me l : forall e0 e,
  bk e0 e -> bk e0 (fold_left (fun e t => threads_unpark e me t) l e).
Proof.
  induction l as [|w l IH]; intros e0 e H; cbn [fold_left]; [exact H|].
  apply IH, bk_threads_unpark_k, H.
Qed.

Lemma bk_push_cont_k e0 e me ms : nobo ms = true -> bk e0 e -> bk e0 (push_cont e me ms).
Proof.
  intros Hn. apply bk_upd_thread_k. intros t Ht. cbn [t_cont th_set_cont].
  rewrite nobo_app, Hn, Ht. reflexivity.
Qed.

Lemma akey_set_last_access o act tid pid v : akey (set_last_access o act tid pid v) = akey o.
Proof. destruct o; try reflexivity; destruct act; reflexivity. Qed.

Lemma bk_sched_note_k e0 e nx pid th : bk e0 e -> bk e0 (sched_note e nx pid th).
Proof.
  intros H. unfold sched_note. destruct (t_op th) as [op|]; [|exact H].
  destruct (nth_error (e_objects e) (op_obj op)) as [o|]; [|exact H]. cbv zeta.
  apply bk_upd_object_f_k.
  - intros o' _. rewrite akey_set_last_access. destruct (akey o'); auto.
  - apply bk_upd_thread_k; [keepc_tac|exact H].
Qed.

Lemma schedule_bk e : bk e (res_exec (fst (schedule e))).
Proof.
  destruct (schedule_cases e)
    as [(c & ->)|[(x & ->)|[(p1 & x & Hd & ->)|(curr & cur_th & p1 & p2 & next & Hp & ->)]]];
    cbn [fst res_exec]; try apply bk_refl.
  - apply bk_set_path_k, bk_refl.
  - assert (Hb : bk e (sched_base e p2 next))
      by (unfold sched_base; apply bk_set_active_k, bk_set_path_k, bk_refl).
    revert Hb. generalize (sched_base e p2 next). intros e1 Hb.
    unfold sched_post. destruct next as [nx|].
    + destruct (nth_error (e_threads e1) nx) as [th|]; cbn [fst res_exec]; [|exact Hb].
      unfold reactivate. apply bk_mapi_k; [keepc_tac|]. apply bk_sched_note_k, Hb.
    + destruct (forallb is_terminated (e_threads e1)); cbn [fst res_exec]; exact Hb.
Qed.

Lemma schedule_bk_k e0 e : bk e0 e -> bk e0 (res_exec (fst (schedule e))).
Proof. apply bk_k, schedule_bk. Qed.

Lemma do_branch_bk_k e0 e me obj act blk : bk e0 e -> bk e0 (res_exec (do_branch e me obj act blk)).
Proof. intros H. unfold do_branch. apply schedule_bk_k. apply bk_upd_thread_k; [keepc_tac|exact H]. Qed.

Lemma do_park_bk_k e0 e me : bk e0 e -> bk e0 (res_exec (do_park e me)).
Proof.
  intros H. unfold do_park. destruct (get_thread e me) as [t|]; [|exact H].
  destruct (t_token t); cbn [res_exec].
  - apply bk_upd_thread_k; [keepc_tac|exact H].
  - apply schedule_bk_k. apply bk_upd_thread_k; [keepc_tac|exact H].
Qed.

Lemma do_yield_bk_k e0 e me : bk e0 e -> bk e0 (res_exec (do_yield e me)).
Proof. intros H. unfold do_yield. apply schedule_bk_k. apply bk_upd_thread_k; [keepc_tac|exact H]. Qed.

Lemma release_lock_bk_k e0 e me m : bk e0 e -> bk e0 (release_lock e me m).
Proof.
  intros H. unfold release_lock. destruct (get_mutex e m) as [s|]; [|exact H]. cbv zeta.
  match goal with |- bk _ (match e_active ?E with _ => _ end) =>
    assert (H1 : bk e0 E) by (apply bk_upd_object_k; [left; reflexivity|exact H]) end.
  destruct (e_active _); [|exact H1].
  apply bk_map_others_k; [keepc_tac|]. apply bk_upd_object_k; [left; reflexivity|exact H1].
Qed.

Lemma post_acquire_bk e me m : bk e (fst (post_acquire e me m)).
Proof.
  unfold post_acquire. destruct (get_mutex e m) as [s|]; [|apply bk_refl].
  destruct (is_some (mx_lock s)); cbn [fst]; [apply bk_refl|].
  apply bk_map_others_k; [keepc_tac|]. apply bk_set_caus_k.
  apply bk_upd_object_k; [left; reflexivity|apply bk_refl].
Qed.

Lemma post_acquire_read_bk e me r : bk e (fst (post_acquire_read e me r)).
Proof.
  unfold post_acquire_read. destruct (get_rw e r) as [s|]; [|apply bk_refl].
  destruct (rw_lock s) as [[rs|w]|]; cbn [fst]; try apply bk_refl.
  all: apply bk_map_others_k; [keepc_tac|]; apply bk_set_caus_k;
    apply bk_upd_object_k; [left; reflexivity|apply bk_refl].
Qed.

Lemma post_acquire_write_bk e me r : bk e (fst (post_acquire_write e me r)).
Proof.
  unfold post_acquire_write. destruct (get_rw e r) as [s|]; [|apply bk_refl].
  destruct (rw_lock s) as [lk0|]; cbn [fst]; try apply bk_refl.
  apply bk_map_others_k; [keepc_tac|]; apply bk_set_caus_k;
    apply bk_upd_object_k; [left; reflexivity|apply bk_refl].
Qed.

Lemma release_read_bk e me r : bk e (res_exec (release_read e me r)).
Proof.
  unfold release_read. destruct (get_rw e r) as [s|]; [|apply bk_refl]. cbv zeta.
  destruct (rw_lock s) as [[rs|w]|]; cbn [res_exec]; try apply bk_refl.
  destruct (set_remove me rs); cbn [res_exec].
  - apply bk_map_others_k; [keepc_tac|]. apply bk_upd_object_k; [left; reflexivity|apply bk_refl].
  - apply bk_upd_object_k; [left; reflexivity|apply bk_refl].
Qed.

Lemma release_write_bk e me r : bk e (res_exec (release_write e me r)).
Proof.
  unfold release_write. destruct (get_rw e r) as [s|]; [|apply bk_refl]. cbn [res_exec].
  apply bk_map_others_k; [keepc_tac|]. apply bk_upd_object_k; [left; reflexivity|apply bk_refl].
Qed.

Lemma choose_store_bk e seed : bk e (fst (choose_store e seed)).
Proof.
  destruct (choose_store_frame e seed) as (H1 & H2 & H3).
  apply (bk_same_k e e); [exact H1| |exact H2|exact H3|apply bk_refl].
  unfold choose_store. destr_all; reflexivity.
Qed.

Ltac akey_side :=
  first [ left; reflexivity
        | right;
          let o := fresh "o" in
          let Ho := fresh "Ho" in
          intros o Ho; conv_hyps; autorewrite with eobj in *;
          match goal with
          | Hg : nth_error ?l ?i = Some _, Ho' : nth_error ?l ?i = Some o |- _ =>
              rewrite Hg in Ho'; injection Ho' as Ho'; subst o
          end; reflexivity ].

Ltac bbody_side :=
  let HB := fresh "HB" in
  intros HB; destruct HB as (_ & HB & _);
  cbn [t_cont th_set_dpor th_set_caus thread_new];
  first [ apply HB | rewrite nobo_subst_waker; apply HB ].

Ltac bclose_step :=
  match goal with
  | |- bk ?e ?e => apply bk_refl
  | H : bk ?E ?x |- bk _ ?x => apply (bk_trans _ E x); [|exact H]
  | |- bk _ (log_op _ _ _) => apply bk_log_op_k
  | |- bk _ (log_poll _ _) => apply bk_log_poll_k
  | |- bk _ (push_cont _ _ _) => apply bk_push_cont_k; [reflexivity|]
  | |- bk _ (push_guard _ _ _ _) => apply bk_push_guard_k
  | |- bk _ (drop_guard _ _ _ _) => apply bk_drop_guard_k
  | |- bk _ (causality_inc _ _) => apply bk_causality_inc_k
  | |- bk _ (set_slot _ _ _ _) => apply bk_set_slot_k
  | |- bk _ (release_lock _ _ _) => apply release_lock_bk_k
  | |- bk _ (threads_unpark _ _ _) => apply bk_threads_unpark_k
  | |- bk _ (fold_left _ _ _) => apply bk_fold_unpark_k
  | |- bk _ (ex_set_path _ _) => apply bk_set_path_k
  | |- bk _ (ex_set_active _ _) => apply bk_set_active_k
  | |- bk _ (ex_set_seqcst _ _) => apply bk_set_seqcst_k
  | |- bk _ (ex_set_spawned _ _) => apply bk_set_spawned_k
  | |- bk _ (ex_set_joined _ _) => apply bk_set_joined_k
  | |- bk _ (ex_set_log _ _) => apply bk_set_log_k
  | |- bk _ (ex_set_lazy _ _) => apply bk_set_lazy_k
  | |- bk _ (ex_set_objects ?e (e_objects ?e ++ _)) =>
      apply bk_append_objects_k; [repeat constructor|]
  | |- bk _ (ex_set_threads ?e (e_threads ?e ++ [_])) =>
      apply bk_append_thread_k; [bbody_side|]
  | |- bk _ (upd_object _ _ _) => apply bk_upd_object_k; [akey_side|]
  | |- bk _ (upd_thread _ _ _) => apply bk_upd_thread_k; [keepc_tac|]
  | |- bk _ (upd_hobj _ _ _) => apply bk_upd_hobj_k
  | |- bk _ (set_caus _ _ _) => apply bk_set_caus_k
  | |- bk _ (map_others _ _ _ _) => apply bk_map_others_k; [keepc_tac|]
  end.

(* (the two rewrites: the dead first write of a disconnected MSendPost) *)
Ltac bclose :=
  cbn [res_exec lp_exec];
  rewrite ?upd_object_map_others_upd_object_const, ?upd_object_upd_object_const;
  repeat bclose_step.

Ltac bstep :=
  match goal with
  | |- bk _ (res_exec (fst (schedule _))) => apply schedule_bk_k
  | |- bk _ (res_exec (do_branch _ _ _ _ _)) => apply do_branch_bk_k
  | |- bk _ (res_exec (do_park _ _)) => apply do_park_bk_k
  | |- bk _ (res_exec (do_yield _ _)) => apply do_yield_bk_k
  | |- context [post_acquire ?e ?me ?m] =>
      let H := fresh "Hfr" in
      pose proof (post_acquire_bk e me m) as H;
      destruct (post_acquire e me m); cbn [fst] in H
  | |- context [post_acquire_read ?e ?me ?m] =>
      let H := fresh "Hfr" in
      pose proof (post_acquire_read_bk e me m) as H;
      destruct (post_acquire_read e me m); cbn [fst] in H
  | |- context [post_acquire_write ?e ?me ?m] =>
      let H := fresh "Hfr" in
      pose proof (post_acquire_write_bk e me m) as H;
      destruct (post_acquire_write e me m); cbn [fst] in H
  | |- context [release_read ?e ?me ?m] =>
      let H := fresh "Hfr" in
      pose proof (release_read_bk e me m) as H;
      destruct (release_read e me m); cbn [res_exec] in H
  | |- context [release_write ?e ?me ?m] =>
      let H := fresh "Hfr" in
      pose proof (release_write_bk e me m) as H;
      destruct (release_write e me m); cbn [res_exec] in H
  | |- context [choose_store ?e ?s] =>
      let H := fresh "Hfr" in
      pose proof (choose_store_bk e s) as H;
      destruct (choose_store e s) as [? [?|?]]; cbn [fst] in H
  | |- context [match ?x with _ => _ end] =>
      lazymatch x with
      | context [match _ with _ => _ end] => fail
      | _ => destruct x eqn:?
      end
  end; cbv beta iota.

Lemma load_post_bk e me a o : bk e (lp_exec (load_post e me a o)).
Proof. unfold load_post. repeat bstep. all: bclose. Qed.

Ltac bstep' :=
  first [ match goal with
          | |- context [load_post ?e ?me ?a ?o] =>
              let H := fresh "Hfr" in
              pose proof (load_post_bk e me a o) as H;
              destruct (load_post e me a o) as [[? ?]|[? ?]]; cbn [lp_exec] in H; cbv beta iota
          end
        | bstep ].

Ltac bk_tac :=
  cbn [exec_micro]; unfold lift_path, mbind; cbv beta iota;
  repeat bstep'; bclose.

Lemma exec_micro_bk e me m : is_bo m = false -> bk e (res_exec (exec_micro e me m)).
Proof. intros Hm. destruct m; try discriminate Hm; timeout 60 bk_tac. Qed.

Theorem step_BF e me t m rest :
  BF e -> nth_error (e_threads e) me = Some t -> t_cont t = m :: rest ->
  BF (res_exec (exec_micro (upd_thread e me (fun t => th_set_cont t rest)) me m)).
Proof.
  intros HB Hme Hc.
  assert (Hmr : nobo (m :: rest) = true) by (rewrite <- Hc; eapply (proj1 HB); exact Hme).
  unfold nobo in Hmr. cbn [forallb] in Hmr. apply andb_prop in Hmr. destruct Hmr as [Hm Hrest].
  apply exec_micro_bk; [destruct (is_bo m); [discriminate Hm|reflexivity]|].
  revert HB. apply bk_upd_thread_k; [|apply bk_refl]. intros t0 _.
  (* only thread me is changed, and its new continuation is [rest] *)
  exact Hrest.
Qed.

Theorem run_BF : forall fuel e, BF e -> BF (fst (run fuel e)).
Proof.
  induction fuel as [|fuel IH]; intros e Hi; cbn [run]; [exact Hi|].
  destruct (e_active e) as [me|]; [|exact Hi].
  destruct (nth_error (e_threads e) me) as [t|] eqn:Ht; [|exact Hi].
  destruct (t_cont t) as [|m rest] eqn:Hc; [exact Hi|].
  pose proof (step_BF e me t m rest Hi Ht Hc) as H.
  destruct (exec_micro _ me m) as [e2|e2 pn]; cbn [res_exec fst] in *; [apply IH, H|exact H].
Qed.

Lemma expand_nobo body pc i : is_bo_instr i = false -> nobo (expand body pc i) = true.
Proof.
  destruct i; intros H; try discriminate H; try reflexivity.
  cbn [expand]. match goal with |- context [Nat.eqb ?k 2] => destruct (Nat.eqb k 2) end; reflexivity.
Qed.

Lemma expand_body_nobo body : forall l pc,
  forallb (fun i => negb (is_bo_instr i)) l = true -> nobo (expand_body_from body pc l) = true.
Proof.
  induction l as [|i l IH]; intros pc H; cbn [expand_body_from]; [reflexivity|].
  cbn [forallb] in H. apply andb_prop in H. destruct H as [Hi Hl].
  change (MBegin pc :: expand body pc i ++ expand_body_from body (S pc) l)
    with ([MBegin pc] ++ expand body pc i ++ expand_body_from body (S pc) l).
  rewrite !nobo_app, IH by exact Hl. rewrite expand_nobo; [reflexivity|].
  destruct (is_bo_instr i); [discriminate Hi|reflexivity].
Qed.

Lemma exit_seq_nobo b : nobo (exit_seq b) = true.
Proof. destruct b; reflexivity. Qed.

Lemma expand_prog_nobo p b : prog_nobo p = true -> nobo (nth b (expand_prog p) []) = true.
Proof.
  intros Hp. destruct (nth_error (expand_prog p) b) as [l|] eqn:Hn.
  - rewrite (nth_error_nth _ _ [] Hn). unfold expand_prog in Hn. rewrite nth_error_mapi in Hn.
    destruct (nth_error (p_bodies p) b) as [body|] eqn:Hb; [|discriminate Hn].
    cbn [option_map] in Hn. injection Hn as <-.
    rewrite nobo_app, exit_seq_nobo, expand_body_nobo; [reflexivity|].
    unfold prog_nobo in Hp. rewrite forallb_forall in Hp. apply Hp. eapply nth_error_In; exact Hb.
  - apply nth_error_None in Hn. rewrite nth_overflow by exact Hn. reflexivity.
Qed.

Theorem init_BF p pa : prog_nobo p = true -> BF (init_exec p pa).
Proof.
  intros Hp. split; [|split].
  - intros i t Hi. unfold init_exec in Hi. cbn [e_threads] in Hi.
    destruct i as [|i]; cbn [nth_error] in Hi; [|destruct i; discriminate Hi].
    injection Hi as <-. apply expand_prog_nobo, Hp.
  - intros b. apply expand_prog_nobo, Hp.
  - intros i o Hi _. destruct (init_objects p pa) as [Hlen _].
    change (e_h (init_exec p pa)) with (map hobj_of_decl (p_decls p)).
    rewrite map_length, <- Hlen. apply nth_error_Some. congruence.
Qed.

(* no block_on in the program: no Arc beyond the declared objects, ever *)
Theorem nobo_dyn_arcs_released fuel p pa :
  prog_nobo p = true -> dyn_arcs_released p (fst (run fuel (init_exec p pa))).
Proof.
  intros Hp i s Hi Ho. exfalso.
  pose proof (run_BF fuel _ (init_BF p pa Hp)) as (_ & _ & H3).
  pose proof (H3 i _ Ho eq_refl) as Hlt. rewrite run_h_length in Hlt. lia.
Qed.

(* A4 for programs without block_on: the iteration passes iff no declared
   object leaks at the harness level *)
Theorem nobo_iteration_done_iff fuel p pa e :
  prog_nobo p = true -> run fuel (init_exec p pa) = (e, IterDone) ->
  run_disc fuel (init_exec p pa) = true ->
  (iteration fuel p pa = (e, IterDone) <->
   forall k, k < length (p_decls p) -> hleak p e k = None).
Proof.
  intros Hp Hrun Hdisc. rewrite (iteration_done_iff fuel p pa e Hrun Hdisc).
  assert (Hdyn : dyn_arcs_released p e).
  { pose proof (nobo_dyn_arcs_released fuel p pa Hp) as H. rewrite Hrun in H. exact H. }
  split; [intros [H _]; exact H|intros H; split; [exact H|exact Hdyn]].
Qed.

Print Assumptions nobo_dyn_arcs_released.
Print Assumptions nobo_iteration_done_iff.
