(* The RMW-atomicity closure of the MODEL's apply_load_coherence
   (close_rmw_atomicity, fix 01ecff8 / D19): the invariant of AtomicCoRR.v
   survives it, on ALL runs of the machine built from the model's CURRENT
   functions ("mstep RModel" of AtomicCoRR.v = Atomic.atomic_load / atomic_rmw /
   atomic_store / match_load_to_stores / match_rmw_to_stores; ring wrap-around
   excluded as there).

   MAIN THEOREMS (reach_model st := st is reached from minit by ANY run of
   mstep RModel: loads, stores, RMWs, synchronisations):
   - [reach_model_good], [mrun_goodS], [mstep_goodS] / [mstep_goodO],
     [minit_goodS], [mrun_inv2_model]: the invariant GoodS (below) holds in
     every reachable state; in particular Inv2 of AtomicCoRR.v.
   - [rmw_atomicity_stable]: in every reachable state every live RMW store is
     strictly mo-after its (live) source and NO live store is strictly
     mo-between them.
   - [mlts_never_none_model]: match_load_to_stores / match_rmw_to_stores never
     return None (assert_ne! never fires).
   - [run_stable_model] / [step_stable_model]: vv_lt between live stores is
     never lost; [run_knows_model] / [step_knows_model]: is_seen_by_current is
     stable; [load_knows_model], [store_knows_model], [sync_knows_model].
   - [CoRR_CoWR_model], [CoRR_CoWR_rmw_model], [CoWW_CoRW_model] (the
     happens-before versions) and [CoRR_same_thread_model],
     [CoWR_same_thread_model], [CoRW_same_thread_model],
     [CoWW_same_thread_model] (no [knows] hypothesis).
   [reach_model_example]: the runs of the D19 gap (with an RMW) are reach_model.

   THE INVARIANT.  GoodS st := (exists own rk, GoodO own rk s cs) /\ StampO s cs,
   GoodO := InvO /\ LinkO /\ Closed /\ Sy  (InvO, K, StampO from AtomicCoRR.v):
   - [LinkO own rk s], the semantic witness: slot ids are the slot numbers, the
     source of every RMW store is an earlier (live) slot that is K-below it;
     [rk] is an injective ranking of the live slots that extends the strict
     order and in which no live slot is ranked strictly between an RMW store and
     its source: a linear extension in which every RMW store immediately
     follows its source.  [witness_atomicity]: InvO + LinkO give RMW atomicity.
   - [Closed own s]: neither rule of close_step applies.
   - [Sy own s]: a store seen by the synchronisation clock of b is mo-below b.

   THE PROOF.
   1. [raise_inv] (+ [rz_K'], [rz_fields], [rz_grow]): raise_mo a (mo b)
      preserves InvO whenever not (a <=mo b); the new order is the old one plus
      "x <= b -> x <= everything above a".  [raise_link]: if rk b < rk a the
      SAME witness survives.
   2. [close_step_PC], [close_fold_PC], [close_PC], [close_model_inv]:
      close_step / a round / close_rmw_atomicity with ANY fuel preserve InvO and
      LinkO with the same witness (I1 raises i above r and adjacency gives
      rk r < rk i; I2 raises the source above i and adjacency gives
      rk i < rk source) and only enlarge st_mo ([Same]).
   3. the fuel: [mu] counts the ordered pairs among the unordered pairs of live
      slots, [mu_le] (<= 21 by antisymmetry), [mu_mono], [mu_strict];
      [close_step_cases]: a step either changes nothing (then its rule is not
      applicable: [NoFire]) or sets the flag and strictly increases mu;
      [close_fold_cases]; [close_closed]: with 21 < mu + fuel the result is
      Closed; [close_model_closed]: the model's call (fuel 4 * 7 = 28) returns a
      state with InvO, the same witness, and CLOSED.
   4. [load_witness]: on a closed state with a witness the c0421c4 load step
      (new edges x -> idx for the seen x) has a NEW witness: the up-set of the
      head of idx's RMW chain ([hd], [chainQ]) is a union of RMW blocks
      ([lw_block], by I2-closedness) and contains no seen store that is not
      already below idx ([lw_ext], by I1-closedness along the chain and the
      candidate condition); it is moved behind everything else;
      [lw_idx_last]: if idx is mo-maximal (RMW) it is ranked last, hence stays
      mo-maximal after the closure.
   5. [model_loadpart_good]: the load part of the model's atomic_load /
      atomic_rmw (c0421c4 step, closure, first-seen stamp) maps InvO + witness +
      Closed to InvO + (new) witness + Closed, with [LoadFacts] (K only grows,
      the stamps, the other fields, "seen before => below idx afterwards").
   6. the store phase ([StoreW]: [store_witness], [store_closed], [store_sy]):
      [plain_store_good] (the new slot is ranked last; Closed by the store-time
      closure of atomic_store_from, [store_C1]); [rmw_store_good] (the RMW's
      store is ranked immediately after its source idx, the slots ranked after
      idx shift by one; everything below the new store is below idx:
      [rmw_atomicity_ub], [fold_ub], Sy for what is known through the acquired
      st_sync of idx).
   7. [mstep_goodO]: every step of mstep RModel preserves GoodO and StampO and
      satisfies [ext] of AtomicCoRR.v; sections 10-12 derive the theorems above.
   Also kept: [Good] (without Sy / StampO), [good_load_step], [good_sync_step],
   [good_run_loads], [Good_atomicity], [Good_never_none], [minit_good].

   Nothing is admitted; every main theorem is followed by Print Assumptions
   (all closed under the global context). *)
Require Import LV.Base LV.VV LV.VVFacts LV.Path LV.Prog LV.Objects LV.Atomic LV.AtomicFacts
               LV.AtomicCoherence LV.AtomicCoRR.
From Coq Require Import Lia.

Set Implicit Arguments.

(* ------------------------------------------------------------------ *)
(* 1. raise_mo on a state                                               *)

Definition with_stores (s : atomic_state) (st : list astore) : atomic_state :=
  at_set_stores s st (at_cnt s).

Lemma mapi_nth7 : forall (g : nat -> astore -> astore) (l : list astore) k,
  k < length l -> nth k (mapi g l) store_default = g k (nth k l store_default).
Proof.
  intros g l k Hk. unfold mapi.
  rewrite (@mapi_from_nth astore astore g l 0 k store_default store_default Hk). reflexivity.
Qed.

Lemma mapi_length : forall (A B : Type) (g : nat -> A -> B) l, length (mapi g l) = length l.
Proof. intros A B g l. unfold mapi. apply mapi_from_length. Qed.

Lemma raise_get : forall s a v k,
  k < length (at_stores s) ->
  get_store (with_stores s (raise_mo (at_stores s) a v)) k =
    let M := vv_join (mo s a) v in
    if vv_eqb M (mo s a) then get_store s k
    else if Nat.eqb a k then st_set_mo (get_store s k) M
    else if vv_lt (mo s a) (mo s k) then st_set_mo (get_store s k) (vv_join (mo s k) M)
    else get_store s k.
Proof.
  intros s a v k Hk. cbv zeta. unfold with_stores, get_store at 1. cbn [at_stores at_set_stores].
  unfold raise_mo. change (st_mo (nth a (at_stores s) store_default)) with (mo s a).
  destruct (vv_eqb (vv_join (mo s a) v) (mo s a)); [reflexivity|].
  rewrite (mapi_nth7 _ _ Hk). reflexivity.
Qed.

Lemma raise_length : forall st a v, length (raise_mo st a v) = length st.
Proof.
  intros st a v. unfold raise_mo.
  destruct (vv_eqb (vv_join (st_mo (nth a st store_default)) v) (st_mo (nth a st store_default)));
    [reflexivity | apply mapi_length].
Qed.

(* ------------------------------------------------------------------ *)
(* 2. "raise a above b" preserves InvO when a is not mo-before b          *)

Section Raise.
  Variable own : nat -> nat.
  Variable s : atomic_state.
  Variable cs : list vv.
  Variables a b : nat.
  Hypothesis HI : InvO own s cs.
  Hypothesis Ha : a < at_cnt s.
  Hypothesis Hb : b < at_cnt s.
  Hypothesis HnK : ~ K own s a b.

  Let s' := with_stores s (raise_mo (at_stores s) a (mo s b)).
  Let C (k : nat) : Prop := K own s a k.

  Lemma rz7 : forall k, k < at_cnt s -> k < length (at_stores s).
  Proof. intros k Hk. rewrite (i_len HI). pose proof (i_cnt7 HI). lia. Qed.

  Lemma rz_C_dec : forall k, C k \/ ~ C k.
  Proof.
    intros k. unfold C, K.
    destruct (le_dec (hbk own s a) (vv_get (mo s k) (own a))); [left|right]; assumption.
  Qed.

  Lemma rz_get : forall k, k < length (at_stores s) ->
    get_store s' k =
      if vv_eqb (vv_join (mo s a) (mo s b)) (mo s a) then get_store s k
      else if Nat.eqb a k then st_set_mo (get_store s k) (vv_join (mo s a) (mo s b))
      else if vv_lt (mo s a) (mo s k)
           then st_set_mo (get_store s k) (vv_join (mo s k) (vv_join (mo s a) (mo s b)))
           else get_store s k.
  Proof. intros k Hk. apply (raise_get s a (mo s b) Hk). Qed.

  Lemma rz_over : forall k, length (at_stores s) <= k -> get_store s' k = get_store s k.
  Proof.
    intros k Hk. unfold get_store, s', with_stores. cbn [at_stores at_set_stores].
    rewrite !nth_overflow; [reflexivity | exact Hk | rewrite raise_length; exact Hk].
  Qed.

  (* every field but st_mo is kept, in every slot *)
  Lemma rz_fields : forall k,
    st_hb (get_store s' k) = st_hb (get_store s k) /\
    st_seen (get_store s' k) = st_seen (get_store s k) /\
    st_sync (get_store s' k) = st_sync (get_store s k) /\
    st_value (get_store s' k) = st_value (get_store s k) /\
    st_id (get_store s' k) = st_id (get_store s k) /\
    st_rmw_src (get_store s' k) = st_rmw_src (get_store s k) /\
    st_seqcst (get_store s' k) = st_seqcst (get_store s k).
  Proof.
    intros k. destruct (Nat.lt_ge_cases k (length (at_stores s))) as [Hk|Hk].
    - rewrite (rz_get Hk).
      destruct (vv_eqb (vv_join (mo s a) (mo s b)) (mo s a)); [repeat split|].
      destruct (Nat.eqb a k); [repeat split|].
      destruct (vv_lt (mo s a) (mo s k)); repeat split.
    - rewrite (rz_over Hk). repeat split.
  Qed.

  Lemma rz_hbk : forall k, hbk own s' k = hbk own s k.
  Proof. intros k. unfold hbk. destruct (rz_fields k) as [H _]. rewrite H. reflexivity. Qed.

  Lemma rz_C_lt : forall k, k < at_cnt s -> k <> a ->
    (vv_lt (mo s a) (mo s k) = true <-> C k).
  Proof.
    intros k Hk Hne. rewrite (lt_iff_K HI Ha Hk). unfold C. split.
    - intros [_ H]. exact H.
    - intros H. split; [lia | exact H].
  Qed.

  Lemma rz_mo_notC : forall k, k < at_cnt s -> ~ C k -> mo s' k = mo s k.
  Proof.
    intros k Hk HC. unfold mo at 1. rewrite (rz_get (rz7 Hk)).
    destruct (vv_eqb (vv_join (mo s a) (mo s b)) (mo s a)); [reflexivity|].
    destruct (Nat.eqb_spec a k) as [Heq|Hne].
    - exfalso. apply HC. subst k. apply (i_hbmo HI Ha).
    - destruct (vv_lt (mo s a) (mo s k)) eqn:Hlt; [|reflexivity].
      exfalso. apply HC. apply (rz_C_lt Hk); [lia | exact Hlt].
  Qed.

  Lemma rz_mo_C : forall k, k < at_cnt s -> C k -> forall q,
    vv_get (mo s' k) q = Nat.max (vv_get (mo s k) q) (vv_get (mo s b) q).
  Proof.
    intros k Hk HC q. pose proof (i_star HI Ha Hk HC q) as Hak.
    unfold mo at 1. rewrite (rz_get (rz7 Hk)).
    destruct (vv_eqb (vv_join (mo s a) (mo s b)) (mo s a)) eqn:He.
    - rewrite vv_eqb_spec in He. specialize (He q). rewrite vv_get_join in He.
      fold (mo s k). lia.
    - destruct (Nat.eqb_spec a k) as [Heq|Hne].
      + subst k. cbn [st_mo st_set_mo]. rewrite vv_get_join. reflexivity.
      + destruct (vv_lt (mo s a) (mo s k)) eqn:Hlt.
        * cbn [st_mo st_set_mo]. rewrite !vv_get_join. lia.
        * exfalso. assert (Ht : vv_lt (mo s a) (mo s k) = true) by (apply (rz_C_lt Hk); [lia | exact HC]).
          rewrite Ht in Hlt. discriminate.
  Qed.

  Lemma rz_grow : forall k, vle (mo s k) (mo s' k).
  Proof.
    intros k. destruct (Nat.lt_ge_cases k (at_cnt s)) as [Hk|Hk].
    - destruct (rz_C_dec k) as [HC|HC].
      + intros q. rewrite (rz_mo_C Hk HC q). lia.
      + rewrite (rz_mo_notC Hk HC). apply vle_refl.
    - destruct (Nat.lt_ge_cases k (length (at_stores s))) as [H7|H7].
      + unfold mo at 2. rewrite (rz_get H7).
        assert (Hd : get_store s k = store_default) by (apply (i_dead HI); exact Hk).
        destruct (vv_eqb (vv_join (mo s a) (mo s b)) (mo s a)); [apply vle_refl|].
        destruct (Nat.eqb_spec a k) as [Heq|_]; [lia|].
        unfold mo at 3. rewrite Hd. cbn [st_mo store_default]. rewrite vv_lt_new_false. 
        rewrite <- Hd. apply vle_refl.
      + unfold mo. rewrite (rz_over H7). apply vle_refl.
  Qed.

  Lemma rz_dead : forall k, at_cnt s <= k -> get_store s' k = store_default.
  Proof.
    intros k Hk. assert (Hd : get_store s k = store_default) by (apply (i_dead HI); exact Hk).
    destruct (Nat.lt_ge_cases k (length (at_stores s))) as [H7|H7].
    - rewrite (rz_get H7).
      destruct (vv_eqb (vv_join (mo s a) (mo s b)) (mo s a)); [exact Hd|].
      destruct (Nat.eqb_spec a k) as [Heq|_]; [lia|].
      unfold mo at 2. rewrite Hd. cbn [st_mo store_default]. rewrite vv_lt_new_false. reflexivity.
    - rewrite (rz_over H7). exact Hd.
  Qed.

  (* the new order: the old one plus  x <= b  ->  x <= everything above a *)
  Lemma rz_K' : forall x y, x < at_cnt s -> y < at_cnt s ->
    (K own s' x y <-> K own s x y \/ (C y /\ K own s x b)).
  Proof.
    intros x y Hx Hy. unfold K at 1. rewrite rz_hbk.
    destruct (rz_C_dec y) as [HC|HC].
    - rewrite (rz_mo_C Hy HC (own x)). unfold K. split.
      + intros H. destruct (le_dec (hbk own s x) (vv_get (mo s y) (own x))) as [H1|H1];
          [left; exact H1 | right; split; [exact HC | lia]].
      + intros [H|[_ H]]; lia.
    - rewrite (rz_mo_notC Hy HC). unfold K. split; [intros H; left; exact H|].
      intros [H|[H _]]; [exact H | contradiction].
  Qed.

  Lemma rz_C_trans : forall x y, x < at_cnt s -> y < at_cnt s -> C x -> K own s x y -> C y.
  Proof. intros x y Hx Hy HC HK. apply (K_trans HI Ha Hx Hy HC HK). Qed.

  Lemma rz_C_notb : forall x, x < at_cnt s -> C x -> K own s x b -> False.
  Proof. intros x Hx HC HK. apply HnK. apply (K_trans HI Ha Hx Hb HC HK). Qed.

  Lemma rz_vle : forall x y, x < at_cnt s -> y < at_cnt s ->
    K own s' x y -> vle (mo s' x) (mo s' y).
  Proof.
    intros x y Hx Hy HK. apply (rz_K' Hx Hy) in HK. destruct HK as [HK|[HCy HKb]].
    - pose proof (i_star HI Hx Hy HK) as Hle.
      destruct (rz_C_dec x) as [HCx|HCx].
      + pose proof (rz_C_trans Hx Hy HCx HK) as HCy. intros q.
        rewrite (rz_mo_C Hx HCx q), (rz_mo_C Hy HCy q). specialize (Hle q). lia.
      + rewrite (rz_mo_notC Hx HCx). eapply vle_trans; [exact Hle | apply rz_grow].
    - destruct (rz_C_dec x) as [HCx|HCx]; [exfalso; apply (rz_C_notb Hx HCx HKb)|].
      rewrite (rz_mo_notC Hx HCx). pose proof (i_star HI Hx Hb HKb) as Hle. intros q.
      rewrite (rz_mo_C Hy HCy q). specialize (Hle q). lia.
  Qed.

  Lemma raise_inv : InvO own s' cs.
  Proof.
    constructor.
    - unfold s', with_stores. cbn [at_stores at_set_stores]. rewrite raise_length. apply (i_len HI).
    - apply (i_cnt1 HI).
    - apply (i_cnt7 HI).
    - apply (i_mut HI).
    - apply (i_nthr HI).
    - apply (i_clen HI).
    - apply rz_dead.
    - apply (i_own HI).
    - intros k Hk. change (k < at_cnt s) in Hk. rewrite rz_hbk.
      destruct (i_key1 HI Hk) as [Hk1|Hz]; [left; exact Hk1|]. right.
      assert (HnC : ~ C k).
      { intros HCk. unfold C, K in HCk. rewrite (Hz (own a)) in HCk.
        apply HnK. unfold K. lia. }
      rewrite (rz_mo_notC Hk HnC). exact Hz.
    - intros k Hk. change (k < at_cnt s) in Hk. rewrite rz_hbk.
      destruct (rz_fields k) as [_ [Hs _]]. rewrite Hs. apply (i_seen HI Hk).
    - intros k Hk. change (k < at_cnt s) in Hk. apply (rz_K' Hk Hk). left. apply (i_hbmo HI Hk).
    - intros k u Hk Hu. change (k < at_cnt s) in Hk.
      destruct (rz_C_dec k) as [HC|HC].
      + rewrite (rz_mo_C Hk HC u). pose proof (i_bmo HI Hk Hu). pose proof (i_bmo HI Hb Hu). lia.
      + rewrite (rz_mo_notC Hk HC). apply (i_bmo HI Hk Hu).
    - intros k u Hk Hu. change (k < at_cnt s) in Hk.
      destruct (rz_fields k) as [_ [_ [Hs _]]]. rewrite Hs. apply (i_bsync HI Hk Hu).
    - apply (i_bclk HI).
    - intros x y Hx Hy. apply (rz_vle Hx Hy).
    - intros x y Hx Hy Hne Hxy Hyx. change (x < at_cnt s) in Hx. change (y < at_cnt s) in Hy.
      apply (rz_K' Hx Hy) in Hxy. apply (rz_K' Hy Hx) in Hyx.
      destruct Hxy as [Hxy|[HCy Hxb]]; destruct Hyx as [Hyx|[HCx Hyb]].
      + apply (i_D HI Hx Hy Hne Hxy Hyx).
      + apply (rz_C_notb Hy (rz_C_trans Hx Hy HCx Hxy) Hyb).
      + apply (rz_C_notb Hx (rz_C_trans Hy Hx HCy Hyx) Hxb).
      + apply (rz_C_notb Hx HCx Hxb).
  Qed.
End Raise.

(* ------------------------------------------------------------------ *)
(* 3. the semantic witness: a ranking of the live stores that extends the
      order and in which every RMW store immediately follows its source   *)

Record LinkO (own : nat -> nat) (rk : nat -> nat) (s : atomic_state) : Prop := mkLinkO {
  lk_id : forall a, a < at_cnt s -> st_id (get_store s a) = a;
  lk_src : forall r sl sid, r < at_cnt s ->
     st_rmw_src (get_store s r) = Some (sl, sid) -> sl < r /\ sid = sl;
  lk_ord : forall r sl sid, r < at_cnt s ->
     st_rmw_src (get_store s r) = Some (sl, sid) -> K own s sl r;
  ln_inj : forall a b, a < at_cnt s -> b < at_cnt s -> rk a = rk b -> a = b;
  ln_ext : forall a b, a < at_cnt s -> b < at_cnt s -> a <> b -> K own s a b -> rk a < rk b;
  ln_adj : forall r sl sid x, r < at_cnt s ->
     st_rmw_src (get_store s r) = Some (sl, sid) -> x < at_cnt s ->
     ~ (rk sl < rk x /\ rk x < rk r)
}.

(* s' is s with some modification-order clocks enlarged *)
Definition Same (s s' : atomic_state) : Prop :=
  at_cnt s' = at_cnt s /\
  forall k,
    st_hb (get_store s' k) = st_hb (get_store s k) /\
    st_seen (get_store s' k) = st_seen (get_store s k) /\
    st_sync (get_store s' k) = st_sync (get_store s k) /\
    st_value (get_store s' k) = st_value (get_store s k) /\
    st_id (get_store s' k) = st_id (get_store s k) /\
    st_rmw_src (get_store s' k) = st_rmw_src (get_store s k) /\
    st_seqcst (get_store s' k) = st_seqcst (get_store s k) /\
    vle (mo s k) (mo s' k).

Lemma Same_refl : forall s, Same s s.
Proof. intros s. split; [reflexivity|]. intros k. repeat split. apply vle_refl. Qed.

Lemma Same_trans : forall s1 s2 s3, Same s1 s2 -> Same s2 s3 -> Same s1 s3.
Proof.
  intros s1 s2 s3 [Hc1 H1] [Hc2 H2]. split; [congruence|]. intros k.
  destruct (H1 k) as [A1 [B1 [C1 [D1 [E1 [F1 [G1 I1]]]]]]].
  destruct (H2 k) as [A2 [B2 [C2 [D2 [E2 [F2 [G2 I2]]]]]]].
  repeat split; try congruence. eapply vle_trans; eassumption.
Qed.

(* atomicity is a consequence of the witness *)
Theorem witness_atomicity : forall own rk s cs r sl sid,
  InvO own s cs -> LinkO own rk s -> r < at_cnt s ->
  st_rmw_src (get_store s r) = Some (sl, sid) ->
  sl < at_cnt s /\ vv_lt (mo s sl) (mo s r) = true /\
  forall x, x < at_cnt s ->
    vv_lt (mo s sl) (mo s x) && vv_lt (mo s x) (mo s r) = false.
Proof.
  intros own rk s cs r sl sid HI HL Hr Hsrc.
  destruct (lk_src HL Hr Hsrc) as [Hlt _]. assert (Hsl : sl < at_cnt s) by lia.
  split; [exact Hsl|]. split.
  - apply (lt_iff_K HI Hsl Hr). split; [lia | apply (lk_ord HL Hr Hsrc)].
  - intros x Hx.
    destruct (vv_lt (mo s sl) (mo s x)) eqn:H1; [|reflexivity].
    destruct (vv_lt (mo s x) (mo s r)) eqn:H2; [|reflexivity].
    exfalso. apply (lt_iff_K HI Hsl Hx) in H1. apply (lt_iff_K HI Hx Hr) in H2.
    destruct H1 as [N1 K1]. destruct H2 as [N2 K2].
    apply (ln_adj HL Hr Hsrc Hx). split; [apply (ln_ext HL Hsl Hx N1 K1) | apply (ln_ext HL Hx Hr N2 K2)].
Qed.

Lemma raise_link : forall own rk s cs a b,
  InvO own s cs -> LinkO own rk s -> a < at_cnt s -> b < at_cnt s -> rk b < rk a ->
  let s' := with_stores s (raise_mo (at_stores s) a (mo s b)) in
  InvO own s' cs /\ LinkO own rk s' /\ Same s s'.
Proof.
  intros own rk s cs a b HI HL Ha Hb Hrk s'.
  assert (HnK : ~ K own s a b).
  { intros HK. assert (Hne : a <> b) by (intros Heq; subst b; lia).
    pose proof (ln_ext HL Ha Hb Hne HK). lia. }
  pose proof (raise_inv HI Ha Hb HnK) as HI'. fold s' in HI'.
  assert (HF := fun k => rz_fields s a b k). fold s' in HF.
  split; [exact HI'|]. split.
  - constructor.
    + intros k Hk. destruct (HF k) as [_ [_ [_ [_ [Hid _]]]]]. rewrite Hid. apply (lk_id HL Hk).
    + intros r sl sid Hr Hsrc. destruct (HF r) as [_ [_ [_ [_ [_ [Hs _]]]]]]. rewrite Hs in Hsrc.
      apply (lk_src HL Hr Hsrc).
    + intros r sl sid Hr Hsrc. destruct (HF r) as [_ [_ [_ [_ [_ [Hs _]]]]]]. rewrite Hs in Hsrc.
      destruct (lk_src HL Hr Hsrc) as [Hlt _]. change (r < at_cnt s) in Hr.
      assert (Hsl : sl < at_cnt s) by lia.
      apply (rz_K' HI Ha Hb Hsl Hr). left. apply (lk_ord HL Hr Hsrc).
    + apply (ln_inj HL).
    + intros x y Hx Hy Hne HK. change (x < at_cnt s) in Hx. change (y < at_cnt s) in Hy.
      apply (rz_K' HI Ha Hb Hx Hy) in HK. cbv beta in HK. destruct HK as [HK|[HCy HKb]].
      * apply (ln_ext HL Hx Hy Hne HK).
      * assert (H1 : rk x <= rk b).
        { destruct (Nat.eq_dec x b) as [Heq|Hnb]; [subst x; lia|].
          pose proof (ln_ext HL Hx Hb Hnb HKb). lia. }
        assert (H2 : rk a <= rk y).
        { destruct (Nat.eq_dec a y) as [Heq|Hna]; [subst y; lia|].
          pose proof (ln_ext HL Ha Hy Hna HCy). lia. }
        lia.
    + intros r sl sid x Hr Hsrc Hx. destruct (HF r) as [_ [_ [_ [_ [_ [Hs _]]]]]]. rewrite Hs in Hsrc.
      apply (ln_adj HL Hr Hsrc Hx).
  - split; [reflexivity|]. intros k. destruct (HF k) as [A [B [C [D [E [F G]]]]]].
    repeat split; try assumption. apply (rz_grow HI Ha Hb). 
Qed.

(* ------------------------------------------------------------------ *)
(* 4. close_step, the rounds and close_rmw_atomicity keep invariant and
      witness (any fuel)                                                *)

Definition PC (own rk : nat -> nat) (s : atomic_state) (cs : list vv) (st : list astore) : Prop :=
  InvO own (with_stores s st) cs /\ LinkO own rk (with_stores s st) /\ Same s (with_stores s st).

Lemma vv_le_K : forall own s cs x y,
  InvO own s cs -> x < at_cnt s -> vv_le (mo s x) (mo s y) = true -> K own s x y.
Proof.
  intros own s cs x y HI Hx H. apply (@K_of_vle own s cs HI x y Hx). apply vv_le_spec. exact H.
Qed.

Lemma close_step_PC : forall own rk s cs st ch r i,
  PC own rk s cs st -> r < at_cnt s -> i < at_cnt s ->
  PC own rk s cs (fst (close_step (st, ch) (r, i))).
Proof.
  intros own rk s cs st ch r i HP Hr Hi. pose proof HP as HP0. destruct HP as [HI [HL HS]].
  set (sX := with_stores s st) in *.
  assert (Hr' : r < at_cnt sX) by exact Hr. assert (Hi' : i < at_cnt sX) by exact Hi.
  unfold close_step.
  change (nth r st store_default) with (get_store sX r).
  destruct (st_rmw_src (get_store sX r)) as [[slot sid]|] eqn:Hsrc; [|cbn [fst]; exact HP0].
  destruct (negb (Nat.eqb slot r) && Nat.eqb (st_id (nth slot st store_default)) sid);
    [|cbn [fst]; exact HP0].
  destruct (Nat.eqb_spec i r) as [Hir|Hir]; [cbn [orb fst]; exact HP0|].
  destruct (Nat.eqb_spec i slot) as [His|His]; [cbn [orb fst]; exact HP0|].
  cbn [orb].
  destruct (lk_src HL Hr' Hsrc) as [Hslt _]. assert (Hsl : slot < at_cnt sX) by (change (at_cnt sX) with (at_cnt s); lia).
  change (st_mo (nth slot st store_default)) with (mo sX slot).
  change (st_mo (get_store sX r)) with (mo sX r).
  change (st_mo (nth i st store_default)) with (mo sX i).
  destruct (vv_le (mo sX slot) (mo sX i) && negb (vv_le (mo sX r) (mo sX i))) eqn:H1.
  - (* I1: raise i above r *)
    cbn [fst]. apply andb_true_iff in H1. destruct H1 as [Hle _].
    pose proof (@vv_le_K own sX cs slot i HI Hsl Hle) as HK.
    assert (Hrk : rk r < rk i).
    { pose proof (ln_ext HL Hsl Hi' (fun e => His (eq_sym e)) HK) as H2.
      pose proof (ln_adj HL Hr' Hsrc Hi') as H3.
      destruct (Nat.eq_dec (rk r) (rk i)) as [He|Hne]; [exfalso; apply Hir; symmetry; apply (ln_inj HL Hr' Hi' He)|].
      lia. }
    destruct (raise_link HI HL Hi' Hr' Hrk) as [A [B C]].
    split; [exact A|]. split; [exact B|]. apply (Same_trans HS C).
  - destruct (vv_le (mo sX i) (mo sX r) && negb (vv_le (mo sX i) (mo sX slot))) eqn:H2;
      [|cbn [fst]; exact HP0].
    (* I2: raise the source above i *)
    cbn [fst]. apply andb_true_iff in H2. destruct H2 as [Hle _].
    pose proof (@vv_le_K own sX cs i r HI Hi' Hle) as HK.
    assert (Hrk : rk i < rk slot).
    { pose proof (ln_ext HL Hi' Hr' Hir HK) as H3.
      pose proof (ln_adj HL Hr' Hsrc Hi') as H4.
      destruct (Nat.eq_dec (rk i) (rk slot)) as [He|Hne]; [exfalso; apply His; apply (ln_inj HL Hi' Hsl He)|].
      lia. }
    destruct (raise_link HI HL Hsl Hi' Hrk) as [A [B C]].
    split; [exact A|]. split; [exact B|]. apply (Same_trans HS C).
Qed.

Lemma close_fold_PC : forall own rk s cs l st ch,
  PC own rk s cs st -> (forall r i, In (r, i) l -> r < at_cnt s /\ i < at_cnt s) ->
  PC own rk s cs (fst (fold_left close_step l (st, ch))).
Proof.
  intros own rk s cs l. induction l as [|[r i] l IH]; intros st ch HP Hl; [exact HP|].
  cbn [fold_left]. destruct (Hl r i (or_introl eq_refl)) as [Hr Hi].
  pose proof (close_step_PC ch HP Hr Hi) as HP'.
  destruct (close_step (st, ch) (r, i)) as [st' ch']. cbn [fst] in HP'.
  apply IH; [exact HP'|]. intros r0 i0 Hin. apply Hl. right. exact Hin.
Qed.

Lemma pairs_live : forall n r i, In (r, i) (list_prod (seq 0 n) (seq 0 n)) -> r < n /\ i < n.
Proof.
  intros n r i Hin. apply in_prod_iff in Hin. destruct Hin as [H1 H2].
  apply in_seq in H1. apply in_seq in H2. lia.
Qed.

Theorem close_PC : forall own rk s cs fuel st,
  PC own rk s cs st ->
  PC own rk s cs (close_rmw_atomicity fuel (at_cnt s) st).
Proof.
  intros own rk s cs fuel. induction fuel as [|f IH]; intros st HP; [exact HP|].
  cbn [close_rmw_atomicity].
  pose proof (@close_fold_PC own rk s cs (list_prod (seq 0 (at_cnt s)) (seq 0 (at_cnt s))) st false HP
                (@pairs_live (at_cnt s))) as HP'.
  destruct (fold_left close_step (list_prod (seq 0 (at_cnt s)) (seq 0 (at_cnt s))) (st, false))
    as [st' changed]. cbn [fst] in HP'.
  destruct changed; [apply IH; exact HP' | exact HP'].
Qed.

Lemma with_stores_self : forall own rk s cs,
  InvO own s cs -> LinkO own rk s -> PC own rk s cs (at_stores s).
Proof.
  intros own rk s cs HI HL.
  assert (He : with_stores s (at_stores s) = s) by (destruct s; reflexivity).
  unfold PC. rewrite He. split; [exact HI|]. split; [exact HL | apply Same_refl].
Qed.

(* the closure as the model calls it *)
Theorem close_model_inv : forall own rk s cs,
  InvO own s cs -> LinkO own rk s ->
  let s' := with_stores s (close_rmw_atomicity (4 * MAX_ATOMIC_HISTORY)
                             (Nat.min (at_cnt s) MAX_ATOMIC_HISTORY) (at_stores s)) in
  InvO own s' cs /\ LinkO own rk s' /\ Same s s'.
Proof.
  intros own rk s cs HI HL. cbv zeta.
  rewrite (Nat.min_l _ _ (i_cnt7 HI)).
  apply close_PC. apply with_stores_self; assumption.
Qed.

(* ------------------------------------------------------------------ *)
(* 5. closed states; the c0421c4 load step on a closed state has a witness *)

(* closed under the two rules of close_step *)
Definition Closed (own : nat -> nat) (s : atomic_state) : Prop :=
  forall r sl sid x, r < at_cnt s -> st_rmw_src (get_store s r) = Some (sl, sid) ->
    x < at_cnt s -> x <> sl -> x <> r ->
    (K own s sl x -> K own s r x) /\ (K own s x r -> K own s x sl).

Definition pred_of (s : atomic_state) (a : nat) : nat :=
  match st_rmw_src (get_store s a) with Some (sl, _) => sl | None => a end.

Fixpoint hd (s : atomic_state) (k : nat) (a : nat) : nat :=
  match k with 0 => a | S k' => hd s k' (pred_of s a) end.

Fixpoint list_max' (l : list nat) : nat :=
  match l with [] => 0 | x :: r => Nat.max x (list_max' r) end.
Lemma list_max'_ge : forall l x, In x l -> x <= list_max' l.
Proof.
  induction l as [|y l IH]; intros x Hin; [contradiction|].
  cbn [list_max']. destruct Hin as [H|H]; [subst; lia | pose proof (IH x H); lia].
Qed.

Section LoadWitness.
  Variables own rk : nat -> nat.
  Variable s : atomic_state.
  Variable cs : list vv.
  Variables (t : nat) (c : vv) (idx : nat).
  Hypothesis HI : InvO own s cs.
  Hypothesis HL : LinkO own rk s.
  Hypothesis HC : Closed own s.
  Hypothesis Hidx : idx < at_cnt s.
  Hypothesis Hcand : forall x, x < at_cnt s -> x <> idx ->
    is_seen_by_current (st_seen (get_store s x)) c = true ->
    vv_lt (mo s idx) (mo s x) = false.

  Let sA := loadpart_g RC0421 s t c idx.
  Let h := hd s (at_cnt s) idx.
  Let N := S (list_max' (map rk (seq 0 (at_cnt s)))).
  Let upb (v : nat) : bool := Nat.leb (hbk own s h) (vv_get (mo s v) (own h)).
  Let rk' (v : nat) : nat := if upb v then N + rk v else rk v.

  Lemma lw_rk_lt : forall v, v < at_cnt s -> rk v < N.
  Proof.
    intros v Hv. unfold N. apply Nat.lt_succ_r. apply list_max'_ge.
    apply in_map. apply in_seq. lia.
  Qed.

  Lemma lw_upb : forall v, upb v = true <-> K own s h v.
  Proof. intros v. unfold upb, K. apply Nat.leb_le. Qed.

  (* facts about the chain below idx *)
  Definition chainQ (a : nat) : Prop :=
    a < at_cnt s /\ K own s a idx /\
    forall z, z < at_cnt s -> ~ K own s z idx -> K own s a z -> K own s idx z.

  Lemma lw_pred : forall a, chainQ a -> chainQ (pred_of s a).
  Proof.
    intros a [Ha [Hai Hz]]. unfold pred_of.
    destruct (st_rmw_src (get_store s a)) as [[sl sid]|] eqn:Hsrc; [|split; [exact Ha | split; assumption]].
    destruct (lk_src HL Ha Hsrc) as [Hlt _]. assert (Hsl : sl < at_cnt s) by lia.
    pose proof (lk_ord HL Ha Hsrc) as Hord.
    pose proof (K_trans HI Hsl Ha Hidx Hord Hai) as Hsi.
    split; [exact Hsl|]. split; [exact Hsi|].
    intros z Hzl Hnz Hslz. apply (Hz z Hzl Hnz).
    assert (Hne1 : z <> sl) by (intros e; subst z; contradiction).
    assert (Hne2 : z <> a) by (intros e; subst z; contradiction).
    destruct (HC Ha Hsrc Hzl Hne1 Hne2) as [H1 _]. apply H1. exact Hslz.
  Qed.

  Lemma lw_hd : forall k a, chainQ a -> chainQ (hd s k a).
  Proof.
    induction k as [|k IH]; intros a Hq; [exact Hq|]. cbn [hd]. apply IH. apply lw_pred. exact Hq.
  Qed.

  Lemma lw_hd_fix : forall k a, st_rmw_src (get_store s a) = None -> hd s k a = a.
  Proof.
    induction k as [|k IH]; intros a Hn; [reflexivity|]. cbn [hd]. unfold pred_of. rewrite Hn. apply IH. exact Hn.
  Qed.

  Lemma lw_hd_head : forall k a, a < at_cnt s -> a <= k -> st_rmw_src (get_store s (hd s k a)) = None.
  Proof.
    induction k as [|k IH]; intros a Ha Hk.
    - cbn [hd]. destruct (st_rmw_src (get_store s a)) as [[sl sid]|] eqn:Hsrc; [|reflexivity].
      destruct (lk_src HL Ha Hsrc). lia.
    - cbn [hd]. destruct (st_rmw_src (get_store s a)) as [[sl sid]|] eqn:Hsrc.
      + unfold pred_of. rewrite Hsrc. destruct (lk_src HL Ha Hsrc) as [Hlt _]. apply IH; lia.
      + unfold pred_of. rewrite Hsrc. rewrite (lw_hd_fix k a Hsrc). exact Hsrc.
  Qed.

  Lemma lw_h : chainQ h.
  Proof.
    apply lw_hd. split; [exact Hidx|]. split; [apply (i_hbmo HI Hidx)|]. intros z _ _ H. exact H.
  Qed.

  Lemma lw_h_head : st_rmw_src (get_store s h) = None.
  Proof. apply lw_hd_head; [exact Hidx | lia]. Qed.

  (* the up-set of h is a union of RMW blocks *)
  Lemma lw_block : forall r sl sid, r < at_cnt s -> st_rmw_src (get_store s r) = Some (sl, sid) ->
    (upb r = upb sl).
  Proof.
    intros r sl sid Hr Hsrc. destruct (lk_src HL Hr Hsrc) as [Hlt _].
    assert (Hsl : sl < at_cnt s) by lia. destruct lw_h as [Hh _].
    pose proof (lk_ord HL Hr Hsrc) as Hord.
    destruct (upb sl) eqn:Hs.
    - apply lw_upb. apply lw_upb in Hs. apply (K_trans HI Hh Hsl Hr Hs Hord).
    - destruct (upb r) eqn:Hrr; [|reflexivity]. exfalso.
      apply lw_upb in Hrr.
      assert (Hne1 : h <> sl).
      { intros e. rewrite <- e in Hs. assert (upb h = true) by (apply lw_upb; apply (i_hbmo HI Hh)). congruence. }
      assert (Hne2 : h <> r) by (intros e; rewrite <- e in Hsrc; rewrite lw_h_head in Hsrc; discriminate).
      destruct (HC Hr Hsrc Hh Hne1 Hne2) as [_ H2]. apply H2 in Hrr.
      apply lw_upb in Hrr. congruence.
  Qed.

  Lemma lw_up_trans : forall x y, x < at_cnt s -> y < at_cnt s ->
    upb x = true -> K own s x y -> upb y = true.
  Proof.
    intros x y Hx Hy Hu HK. apply lw_upb. apply lw_upb in Hu. destruct lw_h as [Hh _].
    apply (K_trans HI Hh Hx Hy Hu HK).
  Qed.

  Lemma lw_K_old : forall x y, x < at_cnt s -> y < at_cnt s -> K own s x y -> K own sA x y.
  Proof.
    intros x y Hx Hy HK. pose proof (i_cnt7 HI) as H7. unfold K, sA.
    rewrite (@lp_hbk own s cs t c idx HI Hidx x ltac:(lia)).
    pose proof (@lp_grow own s cs t c idx HI Hidx y ltac:(lia) (own x)) as Hg.
    unfold K in HK. lia.
  Qed.

  Lemma lw_fields : forall k, k < at_cnt s ->
    st_id (get_store sA k) = st_id (get_store s k) /\
    st_rmw_src (get_store sA k) = st_rmw_src (get_store s k).
  Proof.
    intros k Hk. pose proof (i_cnt7 HI) as H7. unfold sA.
    rewrite (@lp_get own s cs t c idx HI Hidx k ltac:(lia)).
    destruct (Nat.eqb_spec k idx) as [e|_]; [subst k; split; reflexivity|].
    destruct (vv_eqb (alc_mo s c idx) (mo s idx)); [split; reflexivity|].
    destruct (vv_lt (mo s idx) (mo s k)); split; reflexivity.
  Qed.

  Lemma lw_ext : forall x y, x < at_cnt s -> y < at_cnt s -> x <> y ->
    K own sA x y -> rk' x < rk' y.
  Proof.
    intros x y Hx Hy Hne HK. unfold rk'.
    assert (Hold : K own s x y -> (if upb x then N + rk x else rk x) < (if upb y then N + rk y else rk y)).
    { intros HKo. pose proof (ln_ext HL Hx Hy Hne HKo) as Hlt.
      destruct (upb x) eqn:Hux.
      - rewrite (lw_up_trans Hx Hy Hux HKo). lia.
      - destruct (upb y); lia. }
    destruct (le_dec (hbk own s x) (vv_get (mo s y) (own x))) as [HKo|HnKo]; [apply Hold; exact HKo|].
    destruct (@lp_K' own s cs t c idx HI Hidx x y Hx Hy HK) as [HKo|[HCy [z [Hz [Hzi [Hseen [Hxz _]]]]]]];
      [apply Hold; exact HKo|].
    assert (Hiy : K own s idx y) by (apply (@lp_C_K own s cs idx HI Hidx y Hy); exact HCy).
    destruct lw_h as [Hh [Hhi Hchain]].
    assert (Huy : upb y = true) by (apply lw_upb; apply (K_trans HI Hh Hidx Hy Hhi Hiy)).
    rewrite Huy.
    destruct (upb x) eqn:Hux; [|pose proof (lw_rk_lt Hx); lia].
    exfalso. apply lw_upb in Hux.
    (* h <= x <= z, z seen, z not below idx (else x <= idx <= y) *)
    assert (Hnzi : ~ K own s z idx).
    { intros Hzidx. apply HnKo. apply (K_trans HI Hx Hidx Hy); [|exact Hiy].
      apply (K_trans HI Hx Hz Hidx Hxz Hzidx). }
    pose proof (K_trans HI Hh Hx Hz Hux Hxz) as Hhz.
    pose proof (Hchain z Hz Hnzi Hhz) as Hidz.
    apply (@lp_seen_notK own s cs c idx HI Hidx Hcand z Hz Hzi Hseen Hidz).
  Qed.

  Lemma load_witness : LinkO own rk' sA.
  Proof.
    assert (Hcnt : at_cnt sA = at_cnt s) by reflexivity.
    constructor.
    - intros k Hk. rewrite Hcnt in Hk. destruct (lw_fields Hk) as [Hid _]. rewrite Hid. apply (lk_id HL Hk).
    - intros r sl sid Hr Hsrc. rewrite Hcnt in Hr. destruct (lw_fields Hr) as [_ Hs]. rewrite Hs in Hsrc.
      apply (lk_src HL Hr Hsrc).
    - intros r sl sid Hr Hsrc. rewrite Hcnt in Hr. destruct (lw_fields Hr) as [_ Hs]. rewrite Hs in Hsrc.
      destruct (lk_src HL Hr Hsrc) as [Hlt _]. apply lw_K_old; [lia | exact Hr | apply (lk_ord HL Hr Hsrc)].
    - intros x y Hx Hy He. rewrite Hcnt in Hx, Hy. unfold rk' in He.
      pose proof (lw_rk_lt Hx). pose proof (lw_rk_lt Hy).
      destruct (upb x); destruct (upb y); try lia; apply (ln_inj HL Hx Hy); lia.
    - intros x y Hx Hy. rewrite Hcnt in Hx, Hy. apply (lw_ext Hx Hy).
    - intros r sl sid x Hr Hsrc Hx. rewrite Hcnt in Hr, Hx. destruct (lw_fields Hr) as [_ Hs]. rewrite Hs in Hsrc.
      destruct (lk_src HL Hr Hsrc) as [Hlt _]. assert (Hsl : sl < at_cnt s) by lia.
      pose proof (ln_adj HL Hr Hsrc Hx) as Hadj. pose proof (lw_block Hr Hsrc) as Hb.
      pose proof (lw_rk_lt Hx). pose proof (lw_rk_lt Hr). pose proof (lw_rk_lt Hsl).
      unfold rk'. rewrite Hb. destruct (upb sl); destruct (upb x); lia.
  Qed.
  (* if idx is mo-maximal, it is ranked last by the new witness *)
  Lemma lw_idx_last : (forall x, x < at_cnt s -> x <> idx -> ~ K own s idx x) ->
    forall v, v < at_cnt s -> rk' v <= rk' idx.
  Proof.
    intros Hmax v Hv. destruct lw_h as [Hh [Hhi Hchain]].
    assert (Hui : upb idx = true) by (apply lw_upb; exact Hhi).
    unfold rk'. rewrite Hui. destruct (upb v) eqn:Huv; [|pose proof (lw_rk_lt Hv); lia].
    apply lw_upb in Huv.
    assert (HKv : K own s v idx).
    { destruct (le_dec (hbk own s v) (vv_get (mo s idx) (own v))) as [H|H]; [exact H|].
      exfalso. pose proof (Hchain v Hv H Huv) as Hiv.
      destruct (Nat.eq_dec v idx) as [e|ne]; [subst v; apply H; apply (i_hbmo HI Hidx) | apply (Hmax v Hv ne Hiv)]. }
    destruct (Nat.eq_dec v idx) as [e|ne]; [subst v; lia|].
    pose proof (ln_ext HL Hv Hidx ne HKv). lia.
  Qed.
End LoadWitness.

(* ------------------------------------------------------------------ *)
(* 6. states that differ only in the first-seen stamps of one slot       *)

Definition SeenAt (idx : nat) (s1 s2 : atomic_state) : Prop :=
  at_cnt s2 = at_cnt s1 /\ at_mutating s2 = at_mutating s1 /\
  at_unsync_mut s2 = at_unsync_mut s1 /\ at_unsync_loaded s2 = at_unsync_loaded s1 /\
  length (at_stores s2) = length (at_stores s1) /\
  (forall k, k <> idx -> get_store s2 k = get_store s1 k) /\
  st_hb (get_store s2 idx) = st_hb (get_store s1 idx) /\
  st_mo (get_store s2 idx) = st_mo (get_store s1 idx) /\
  st_sync (get_store s2 idx) = st_sync (get_store s1 idx) /\
  st_id (get_store s2 idx) = st_id (get_store s1 idx) /\
  st_rmw_src (get_store s2 idx) = st_rmw_src (get_store s1 idx).

Lemma SeenAt_sym : forall idx s1 s2, SeenAt idx s1 s2 -> SeenAt idx s2 s1.
Proof.
  intros idx s1 s2 [A [B [C [D [E [F [G [H [I [J L]]]]]]]]]].
  repeat split; try (symmetry; assumption). intros k Hk. symmetry. apply F. exact Hk.
Qed.

Section SeenAtFacts.
  Variables (idx : nat) (s1 s2 : atomic_state).
  Hypothesis HS : SeenAt idx s1 s2.

  Lemma sa_mo : forall k, mo s2 k = mo s1 k.
  Proof.
    intros k. destruct HS as [_ [_ [_ [_ [_ [F [_ [H _]]]]]]]]. unfold mo.
    destruct (Nat.eq_dec k idx) as [e|n]; [subst k; exact H | rewrite (F k n); reflexivity].
  Qed.
  Lemma sa_hb : forall k, st_hb (get_store s2 k) = st_hb (get_store s1 k).
  Proof.
    intros k. destruct HS as [_ [_ [_ [_ [_ [F [G _]]]]]]].
    destruct (Nat.eq_dec k idx) as [e|n]; [subst k; exact G | rewrite (F k n); reflexivity].
  Qed.
  Lemma sa_sync : forall k, st_sync (get_store s2 k) = st_sync (get_store s1 k).
  Proof.
    intros k. destruct HS as [_ [_ [_ [_ [_ [F [_ [_ [I _]]]]]]]]].
    destruct (Nat.eq_dec k idx) as [e|n]; [subst k; exact I | rewrite (F k n); reflexivity].
  Qed.
  Lemma sa_id : forall k, st_id (get_store s2 k) = st_id (get_store s1 k).
  Proof.
    intros k. destruct HS as [_ [_ [_ [_ [_ [F [_ [_ [_ [J _]]]]]]]]]].
    destruct (Nat.eq_dec k idx) as [e|n]; [subst k; exact J | rewrite (F k n); reflexivity].
  Qed.
  Lemma sa_src : forall k, st_rmw_src (get_store s2 k) = st_rmw_src (get_store s1 k).
  Proof.
    intros k. destruct HS as [_ [_ [_ [_ [_ [F [_ [_ [_ [_ L]]]]]]]]]].
    destruct (Nat.eq_dec k idx) as [e|n]; [subst k; exact L | rewrite (F k n); reflexivity].
  Qed.
  Lemma sa_hbk : forall own k, hbk own s2 k = hbk own s1 k.
  Proof. intros own k. unfold hbk. rewrite sa_hb. reflexivity. Qed.
  Lemma sa_K : forall own x y, K own s2 x y <-> K own s1 x y.
  Proof. intros own x y. unfold K. rewrite sa_hbk, sa_mo. tauto. Qed.
  Lemma sa_cnt : at_cnt s2 = at_cnt s1.
  Proof. apply HS. Qed.

  Lemma SeenAt_InvO : forall own cs,
    InvO own s1 cs -> idx < at_cnt s1 ->
    nth_error (st_seen (get_store s2 idx)) (own idx) = Some (Some (hbk own s1 idx)) ->
    InvO own s2 cs.
  Proof.
    intros own cs HI Hidx Hseen.
    destruct HS as [A [B [C [D [E [F _]]]]]].
    constructor.
    - rewrite E. apply (i_len HI).
    - rewrite A. apply (i_cnt1 HI).
    - rewrite A. apply (i_cnt7 HI).
    - rewrite B. apply (i_mut HI).
    - apply (i_nthr HI).
    - apply (i_clen HI).
    - intros k Hk. rewrite A in Hk. rewrite (F k ltac:(lia)). apply (i_dead HI Hk).
    - intros k Hk. rewrite A in Hk. apply (i_own HI Hk).
    - intros k Hk. rewrite A in Hk. rewrite sa_hbk, sa_mo. apply (i_key1 HI Hk).
    - intros k Hk. rewrite A in Hk. rewrite sa_hbk.
      destruct (Nat.eq_dec k idx) as [e|n]; [subst k; exact Hseen | rewrite (F k n); apply (i_seen HI Hk)].
    - intros k Hk. rewrite A in Hk. apply sa_K. apply (i_hbmo HI Hk).
    - intros k u Hk Hu. rewrite A in Hk. rewrite sa_mo. apply (i_bmo HI Hk Hu).
    - intros k u Hk Hu. rewrite A in Hk. rewrite sa_sync. apply (i_bsync HI Hk Hu).
    - apply (i_bclk HI).
    - intros x y Hx Hy HK. rewrite A in Hx, Hy. rewrite !sa_mo. apply (i_star HI Hx Hy). apply sa_K. exact HK.
    - intros x y Hx Hy Hne H1 H2. rewrite A in Hx, Hy. apply (i_D HI Hx Hy Hne); apply sa_K; assumption.
  Qed.

  Lemma SeenAt_LinkO : forall own rk, LinkO own rk s1 -> LinkO own rk s2.
  Proof.
    intros own rk HL. pose proof sa_cnt as A. constructor.
    - intros k Hk. rewrite A in Hk. rewrite sa_id. apply (lk_id HL Hk).
    - intros r sl sid Hr Hsrc. rewrite A in Hr. rewrite sa_src in Hsrc. apply (lk_src HL Hr Hsrc).
    - intros r sl sid Hr Hsrc. rewrite A in Hr. rewrite sa_src in Hsrc. apply sa_K. apply (lk_ord HL Hr Hsrc).
    - intros x y Hx Hy. rewrite A in Hx, Hy. apply (ln_inj HL Hx Hy).
    - intros x y Hx Hy Hne HK. rewrite A in Hx, Hy. apply (ln_ext HL Hx Hy Hne). apply sa_K. exact HK.
    - intros r sl sid x Hr Hsrc Hx. rewrite A in Hr, Hx. rewrite sa_src in Hsrc. apply (ln_adj HL Hr Hsrc Hx).
  Qed.

  Lemma SeenAt_Closed : forall own, Closed own s1 -> Closed own s2.
  Proof.
    intros own HC r sl sid x Hr Hsrc Hx Hn1 Hn2. rewrite sa_cnt in Hr, Hx. rewrite sa_src in Hsrc.
    destruct (HC r sl sid x Hr Hsrc Hx Hn1 Hn2) as [H1 H2].
    split; intros H; apply sa_K; [apply H1 | apply H2]; apply sa_K; exact H.
  Qed.
End SeenAtFacts.

(* the seen-touch of a load *)
Definition touch (s : atomic_state) (idx me w : nat) : atomic_state :=
  at_set_stores s
    (list_upd (at_stores s) idx (fun x => st_set_seen x (seen_touch (st_seen x) me w)))
    (at_cnt s).

Lemma touch_SeenAt : forall s idx me w, idx < length (at_stores s) -> SeenAt idx s (touch s idx me w).
Proof.
  intros s idx me w Hlen.
  assert (Hg : forall k, get_store (touch s idx me w) k =
            if Nat.eqb k idx then st_set_seen (get_store s idx) (seen_touch (st_seen (get_store s idx)) me w)
            else get_store s k).
  { intros k. unfold touch, get_store. cbn [at_stores at_set_stores].
    rewrite (@list_upd_nth astore (at_stores s) idx _ k store_default Hlen). reflexivity. }
  repeat split.
  - unfold touch. cbn [at_stores at_set_stores]. apply list_upd_length.
  - intros k Hk. rewrite Hg. destruct (Nat.eqb_spec k idx); [contradiction | reflexivity].
  - rewrite Hg, Nat.eqb_refl. reflexivity.
  - rewrite Hg, Nat.eqb_refl. reflexivity.
  - rewrite Hg, Nat.eqb_refl. reflexivity.
  - rewrite Hg, Nat.eqb_refl. reflexivity.
  - rewrite Hg, Nat.eqb_refl. reflexivity.
Qed.

Lemma touch_seen : forall s idx me w, idx < length (at_stores s) ->
  st_seen (get_store (touch s idx me w) idx) = seen_touch (st_seen (get_store s idx)) me w.
Proof.
  intros s idx me w Hlen. unfold touch, get_store. cbn [at_stores at_set_stores].
  rewrite (@list_upd_nth astore (at_stores s) idx _ idx store_default Hlen). rewrite Nat.eqb_refl. reflexivity.
Qed.

(* ------------------------------------------------------------------ *)
(* 7. the load part of the MODEL's atomic_load / atomic_rmw               *)

Lemma loadpart_model_touch : forall s t c idx,
  loadpart_g RModel s t c idx = touch (apply_load_coherence s c idx) idx t (vv_get c t).
Proof. reflexivity. Qed.
Lemma loadpart_c0421_touch : forall s t c idx,
  loadpart_g RC0421 s t c idx = touch (alc_c0421c4 s c idx) idx t (vv_get c t).
Proof. reflexivity. Qed.
Lemma model_alc_with : forall s c idx,
  apply_load_coherence s c idx =
  with_stores (alc_c0421c4 s c idx)
    (close_rmw_atomicity (4 * MAX_ATOMIC_HISTORY)
       (Nat.min (at_cnt (alc_c0421c4 s c idx)) MAX_ATOMIC_HISTORY) (at_stores (alc_c0421c4 s c idx))).
Proof. reflexivity. Qed.

Lemma alcC_idx_fields : forall s c idx,
  length (at_stores s) = MAX_ATOMIC_HISTORY -> idx < MAX_ATOMIC_HISTORY ->
  st_seen (get_store (alc_c0421c4 s c idx) idx) = st_seen (get_store s idx) /\
  length (at_stores (alc_c0421c4 s c idx)) = MAX_ATOMIC_HISTORY.
Proof.
  intros s c idx Hlen Hidx. rewrite alc_eq. unfold get_store. cbn [at_stores at_set_stores].
  set (st1 := list_upd (at_stores s) idx (fun x => st_set_mo x (alc_mo s c idx))).
  assert (Hl1 : length st1 = MAX_ATOMIC_HISTORY) by (unfold st1; rewrite list_upd_length; exact Hlen).
  assert (Hg1 : nth idx st1 store_default = st_set_mo (nth idx (at_stores s) store_default) (alc_mo s c idx)).
  { unfold st1. rewrite (@list_upd_nth astore (at_stores s) idx _ idx store_default) by (rewrite Hlen; exact Hidx).
    rewrite Nat.eqb_refl. reflexivity. }
  destruct (vv_eqb (alc_mo s c idx) (st_mo (nth idx (at_stores s) store_default))).
  - split; [rewrite Hg1; reflexivity | exact Hl1].
  - split; [|rewrite mapi_length; exact Hl1].
    rewrite mapi_nth7 by (rewrite Hl1; exact Hidx). rewrite Nat.eqb_refl. cbn [negb andb].
    rewrite Hg1. reflexivity.
Qed.

(* ------------------------------------------------------------------ *)
(* 8. the fuel suffices: close_rmw_atomicity returns a CLOSED state       *)

Definition b2n (b : bool) : nat := if b then 1 else 0.
Definition ltpairs (n : nat) : list (nat * nat) :=
  filter (fun p => Nat.ltb (fst p) (snd p)) (list_prod (seq 0 n) (seq 0 n)).
Definition term (s : atomic_state) (p : nat * nat) : nat :=
  b2n (vv_le (mo s (fst p)) (mo s (snd p))) + b2n (vv_le (mo s (snd p)) (mo s (fst p))).
Fixpoint sumf (f : nat * nat -> nat) (l : list (nat * nat)) : nat :=
  match l with [] => 0 | p :: r => f p + sumf f r end.
Definition mu (s : atomic_state) : nat := sumf (term s) (ltpairs (at_cnt s)).

Lemma sumf_le : forall f g l, (forall p, In p l -> f p <= g p) -> sumf f l <= sumf g l.
Proof.
  intros f g l. induction l as [|p l IH]; intros H; [apply le_n|].
  cbn [sumf]. pose proof (H p (or_introl eq_refl)). 
  assert (sumf f l <= sumf g l) by (apply IH; intros q Hq; apply H; right; exact Hq). lia.
Qed.

Lemma sumf_lt : forall f g l e, (forall p, In p l -> f p <= g p) -> In e l -> f e < g e ->
  sumf f l < sumf g l.
Proof.
  intros f g l e. induction l as [|p l IH]; intros H Hin Hlt; [contradiction|].
  cbn [sumf]. pose proof (H p (or_introl eq_refl)) as Hp.
  assert (Hl : forall q, In q l -> f q <= g q) by (intros q Hq; apply H; right; exact Hq).
  destruct Hin as [He|Hin].
  - subst p. pose proof (sumf_le f g l Hl). lia.
  - pose proof (IH Hl Hin Hlt). lia.
Qed.

Lemma sumf_bound : forall f l, (forall p, In p l -> f p <= 1) -> sumf f l <= length l.
Proof.
  intros f l. induction l as [|p l IH]; intros H; [apply le_n|].
  cbn [sumf length]. pose proof (H p (or_introl eq_refl)).
  assert (sumf f l <= length l) by (apply IH; intros q Hq; apply H; right; exact Hq). lia.
Qed.

Lemma ltpairs_In : forall n a b, In (a, b) (ltpairs n) <-> (a < b /\ b < n).
Proof.
  intros n a b. unfold ltpairs. rewrite filter_In, in_prod_iff, !in_seq. cbn [fst snd].
  rewrite Nat.ltb_lt. lia.
Qed.

Lemma ltpairs_len : forall n, n <= MAX_ATOMIC_HISTORY -> length (ltpairs n) <= 21.
Proof.
  intros n Hn. unfold MAX_ATOMIC_HISTORY in Hn.
  do 8 (destruct n as [|n]; [vm_compute; lia|]). lia.
Qed.

Lemma vv_le_iff_K : forall own s cs x y, InvO own s cs -> x < at_cnt s -> y < at_cnt s ->
  (vv_le (mo s x) (mo s y) = true <-> K own s x y).
Proof.
  intros own s cs x y HI Hx Hy. split.
  - apply (@vv_le_K own s cs x y HI Hx).
  - intros HK. apply vv_le_spec. apply (i_star HI Hx Hy HK).
Qed.

Lemma mu_le : forall own s cs, InvO own s cs -> mu s <= 21.
Proof.
  intros own s cs HI. unfold mu.
  eapply Nat.le_trans; [|apply (ltpairs_len (i_cnt7 HI))].
  apply sumf_bound. intros [a b] Hin. apply ltpairs_In in Hin. destruct Hin as [Hab Hb].
  assert (Ha : a < at_cnt s) by lia. unfold term. cbn [fst snd].
  destruct (vv_le (mo s a) (mo s b)) eqn:H1; destruct (vv_le (mo s b) (mo s a)) eqn:H2; cbn [b2n]; try lia.
  exfalso. apply (vv_le_iff_K HI Ha Hb) in H1. apply (vv_le_iff_K HI Hb Ha) in H2.
  apply (i_D HI Ha Hb ltac:(lia) H1 H2).
Qed.

(* K only grows from s1 to s2 *)
Definition Kgrow (own : nat -> nat) (s1 s2 : atomic_state) : Prop :=
  at_cnt s2 = at_cnt s1 /\
  forall x y, x < at_cnt s1 -> y < at_cnt s1 -> K own s1 x y -> K own s2 x y.

Lemma Same_Kgrow : forall own s1 s2, Same s1 s2 -> Kgrow own s1 s2.
Proof.
  intros own s1 s2 [Hc Hk]. split; [exact Hc|]. intros x y _ _ HK. unfold K, hbk in *.
  destruct (Hk x) as [Hhb _]. destruct (Hk y) as [_ [_ [_ [_ [_ [_ [_ Hg]]]]]]].
  rewrite Hhb. specialize (Hg (own x)). lia.
Qed.

Lemma le_mono : forall own s1 s2 cs x y,
  InvO own s1 cs -> InvO own s2 cs -> Kgrow own s1 s2 -> x < at_cnt s1 -> y < at_cnt s1 ->
  b2n (vv_le (mo s1 x) (mo s1 y)) <= b2n (vv_le (mo s2 x) (mo s2 y)).
Proof.
  intros own s1 s2 cs x y H1 H2 [Hc HK] Hx Hy.
  destruct (vv_le (mo s1 x) (mo s1 y)) eqn:E; [|cbn [b2n]; lia].
  apply (vv_le_iff_K H1 Hx Hy) in E. apply (HK x y Hx Hy) in E.
  assert (Hx2 : x < at_cnt s2) by (rewrite Hc; exact Hx). assert (Hy2 : y < at_cnt s2) by (rewrite Hc; exact Hy).
  apply (vv_le_iff_K H2 Hx2 Hy2) in E. rewrite E. apply le_n.
Qed.

Lemma term_mono : forall own s1 s2 cs p,
  InvO own s1 cs -> InvO own s2 cs -> Kgrow own s1 s2 -> In p (ltpairs (at_cnt s1)) ->
  term s1 p <= term s2 p.
Proof.
  intros own s1 s2 cs [a b] H1 H2 [Hc HK] Hin. apply ltpairs_In in Hin. destruct Hin as [Hab Hb].
  assert (Ha : a < at_cnt s1) by lia.
  assert (Ha2 : a < at_cnt s2) by (rewrite Hc; exact Ha). assert (Hb2 : b < at_cnt s2) by (rewrite Hc; exact Hb).
  unfold term. cbn [fst snd].
  assert (Hm : forall x y, x < at_cnt s1 -> y < at_cnt s1 ->
            b2n (vv_le (mo s1 x) (mo s1 y)) <= b2n (vv_le (mo s2 x) (mo s2 y))).
  { intros x y Hx Hy. destruct (vv_le (mo s1 x) (mo s1 y)) eqn:E; [|cbn [b2n]; lia].
    apply (vv_le_iff_K H1 Hx Hy) in E. apply (HK x y Hx Hy) in E.
    assert (Hx2 : x < at_cnt s2) by (rewrite Hc; exact Hx). assert (Hy2 : y < at_cnt s2) by (rewrite Hc; exact Hy).
    apply (vv_le_iff_K H2 Hx2 Hy2) in E. rewrite E. apply le_n. }
  pose proof (Hm a b Ha Hb). pose proof (Hm b a Hb Ha). lia.
Qed.

Lemma mu_mono : forall own s1 s2 cs,
  InvO own s1 cs -> InvO own s2 cs -> Kgrow own s1 s2 -> mu s1 <= mu s2.
Proof.
  intros own s1 s2 cs H1 H2 HG. unfold mu. destruct HG as [Hc HK]. rewrite Hc.
  apply sumf_le. intros p Hp. apply (@term_mono own s1 s2 cs p H1 H2 (conj Hc HK) Hp).
Qed.

Lemma mu_strict : forall own s1 s2 cs x y,
  InvO own s1 cs -> InvO own s2 cs -> Kgrow own s1 s2 ->
  x < at_cnt s1 -> y < at_cnt s1 -> x <> y -> ~ K own s1 x y -> K own s2 x y ->
  mu s1 < mu s2.
Proof.
  intros own s1 s2 cs x y H1 H2 HG Hx Hy Hne Hn Hk. pose proof HG as [Hc HK].
  assert (Hx2 : x < at_cnt s2) by (rewrite Hc; exact Hx). assert (Hy2 : y < at_cnt s2) by (rewrite Hc; exact Hy).
  unfold mu. rewrite Hc.
  assert (Hf : vv_le (mo s1 x) (mo s1 y) = false).
  { destruct (vv_le (mo s1 x) (mo s1 y)) eqn:E; [|reflexivity]. exfalso. apply Hn. apply (vv_le_iff_K H1 Hx Hy). exact E. }
  assert (Ht : vv_le (mo s2 x) (mo s2 y) = true) by (apply (vv_le_iff_K H2 Hx2 Hy2); exact Hk).
  assert (Hmono : forall p, In p (ltpairs (at_cnt s1)) -> term s1 p <= term s2 p)
    by (intros p Hp; apply (@term_mono own s1 s2 cs p H1 H2 HG Hp)).
  destruct (Nat.lt_ge_cases x y) as [Hlt|Hge].
  - apply (sumf_lt _ _ _ (x, y) Hmono); [apply ltpairs_In; lia|].
    unfold term. cbn [fst snd]. rewrite Hf, Ht. cbn [b2n].
    pose proof (@le_mono own s1 s2 cs y x H1 H2 HG Hy Hx). lia.
  - assert (Hlt : y < x) by lia.
    apply (sumf_lt _ _ _ (y, x) Hmono); [apply ltpairs_In; lia|].
    unfold term. cbn [fst snd]. rewrite Hf, Ht. cbn [b2n].
    pose proof (@le_mono own s1 s2 cs y x H1 H2 HG Hy Hx). lia.
Qed.

Definition NoFire (own : nat -> nat) (sX : atomic_state) (r i : nat) : Prop :=
  forall sl sid, st_rmw_src (get_store sX r) = Some (sl, sid) -> i <> sl -> i <> r ->
    (K own sX sl i -> K own sX r i) /\ (K own sX i r -> K own sX i sl).

Lemma close_step_cases : forall own rk s cs st ch r i,
  PC own rk s cs st -> r < at_cnt s -> i < at_cnt s ->
  (close_step (st, ch) (r, i) = (st, ch) /\ NoFire own (with_stores s st) r i) \/
  (snd (close_step (st, ch) (r, i)) = true /\
   PC own rk s cs (fst (close_step (st, ch) (r, i))) /\
   mu (with_stores s st) < mu (with_stores s (fst (close_step (st, ch) (r, i))))).
Proof.
  intros own rk s cs st ch r i HP Hr Hi. destruct HP as [HI [HL HS]].
  set (sX := with_stores s st) in *.
  assert (Hr' : r < at_cnt sX) by exact Hr. assert (Hi' : i < at_cnt sX) by exact Hi.
  unfold close_step.
  change (nth r st store_default) with (get_store sX r).
  destruct (st_rmw_src (get_store sX r)) as [[slot sid]|] eqn:Hsrc.
  2:{ left. split; [reflexivity|]. intros sl sid0 Hs. rewrite Hsrc in Hs. discriminate. }
  destruct (lk_src HL Hr' Hsrc) as [Hslt Hsid].
  assert (Hsl : slot < at_cnt sX) by (change (at_cnt sX) with (at_cnt s); lia).
  assert (Hguard : negb (Nat.eqb slot r) && Nat.eqb (st_id (nth slot st store_default)) sid = true).
  { change (nth slot st store_default) with (get_store sX slot). rewrite (lk_id HL Hsl), Hsid.
    rewrite Nat.eqb_refl. destruct (Nat.eqb_spec slot r); [lia | reflexivity]. }
  rewrite Hguard.
  destruct (Nat.eqb_spec i r) as [Hir|Hir].
  { cbn [orb]. left. split; [reflexivity|]. intros sl sid0 _ _ Hn. contradiction. }
  destruct (Nat.eqb_spec i slot) as [His|His].
  { cbn [orb]. left. split; [reflexivity|]. intros sl sid0 Hs Hn _. rewrite Hsrc in Hs. inversion Hs. subst sl. contradiction. }
  cbn [orb].
  change (st_mo (nth slot st store_default)) with (mo sX slot).
  change (st_mo (get_store sX r)) with (mo sX r).
  change (st_mo (nth i st store_default)) with (mo sX i).
  destruct (vv_le (mo sX slot) (mo sX i) && negb (vv_le (mo sX r) (mo sX i))) eqn:H1.
  - (* I1 fires *)
    right. cbn [fst snd]. split; [reflexivity|].
    apply andb_true_iff in H1. destruct H1 as [Hle Hnle].
    pose proof (@vv_le_K own sX cs slot i HI Hsl Hle) as HK.
    assert (Hrk : rk r < rk i).
    { pose proof (ln_ext HL Hsl Hi' (fun e => His (eq_sym e)) HK) as H2.
      pose proof (ln_adj HL Hr' Hsrc Hi') as H3.
      destruct (Nat.eq_dec (rk r) (rk i)) as [He|Hne]; [exfalso; apply Hir; symmetry; apply (ln_inj HL Hr' Hi' He)|].
      lia. }
    destruct (raise_link HI HL Hi' Hr' Hrk) as [A [B C]].
    split; [split; [exact A | split; [exact B | apply (Same_trans HS C)]]|].
    apply (@mu_strict own sX _ cs r i HI A (Same_Kgrow own C) Hr' Hi' (fun e => Hir (eq_sym e))).
    + intros HKri. apply (vv_le_iff_K HI Hr' Hi') in HKri. rewrite HKri in Hnle. discriminate.
    + apply (rz_K' HI Hi' Hr' Hr' Hi'). right. split; [apply (i_hbmo HI Hi') | apply (i_hbmo HI Hr')].
  - destruct (vv_le (mo sX i) (mo sX r) && negb (vv_le (mo sX i) (mo sX slot))) eqn:H2.
    + (* I2 fires *)
      right. cbn [fst snd]. split; [reflexivity|].
      apply andb_true_iff in H2. destruct H2 as [Hle Hnle].
      pose proof (@vv_le_K own sX cs i r HI Hi' Hle) as HK.
      assert (Hrk : rk i < rk slot).
      { pose proof (ln_ext HL Hi' Hr' Hir HK) as H3.
        pose proof (ln_adj HL Hr' Hsrc Hi') as H4.
        destruct (Nat.eq_dec (rk i) (rk slot)) as [He|Hne]; [exfalso; apply His; apply (ln_inj HL Hi' Hsl He)|].
        lia. }
      destruct (raise_link HI HL Hsl Hi' Hrk) as [A [B C]].
      split; [split; [exact A | split; [exact B | apply (Same_trans HS C)]]|].
      apply (@mu_strict own sX _ cs i slot HI A (Same_Kgrow own C) Hi' Hsl His).
      * intros HKis. apply (vv_le_iff_K HI Hi' Hsl) in HKis. rewrite HKis in Hnle. discriminate.
      * apply (rz_K' HI Hsl Hi' Hi' Hsl). right. split; [apply (i_hbmo HI Hsl) | apply (i_hbmo HI Hi')].
    + left. split; [reflexivity|]. intros sl sid0 Hs _ _. rewrite Hsrc in Hs. inversion Hs. subst sl sid0.
      split.
      * intros HK. apply (vv_le_iff_K HI Hsl Hi') in HK. rewrite HK in H1. cbn [andb] in H1.
        destruct (vv_le (mo sX r) (mo sX i)) eqn:E; [|discriminate].
        apply (vv_le_iff_K HI Hr' Hi'). exact E.
      * intros HK. apply (vv_le_iff_K HI Hi' Hr') in HK. rewrite HK in H2. cbn [andb] in H2.
        destruct (vv_le (mo sX i) (mo sX slot)) eqn:E; [|discriminate].
        apply (vv_le_iff_K HI Hi' Hsl). exact E.
Qed.

Lemma close_fold_cases : forall own rk s cs l st ch,
  PC own rk s cs st -> (forall r i, In (r, i) l -> r < at_cnt s /\ i < at_cnt s) ->
  PC own rk s cs (fst (fold_left close_step l (st, ch))) /\
  mu (with_stores s st) <= mu (with_stores s (fst (fold_left close_step l (st, ch)))) /\
  ((fold_left close_step l (st, ch) = (st, ch) /\
    forall r i, In (r, i) l -> NoFire own (with_stores s st) r i) \/
   (snd (fold_left close_step l (st, ch)) = true /\
    mu (with_stores s st) < mu (with_stores s (fst (fold_left close_step l (st, ch)))))).
Proof.
  intros own rk s cs l. induction l as [|[r i] l IH]; intros st ch HP Hl.
  - cbn [fold_left fst]. split; [exact HP|]. split; [apply le_n|]. left. split; [reflexivity|].
    intros r i Hin. contradiction.
  - cbn [fold_left]. destruct (Hl r i (or_introl eq_refl)) as [Hr Hi].
    assert (Hl' : forall r0 i0, In (r0, i0) l -> r0 < at_cnt s /\ i0 < at_cnt s)
      by (intros r0 i0 Hin; apply Hl; right; exact Hin).
    destruct (close_step_cases ch HP Hr Hi) as [[Heq Hnf]|[Hfl [HP1 Hmu1]]].
    + rewrite Heq. destruct (IH st ch HP Hl') as [A [B [[C D]|[C D]]]].
      * split; [exact A|]. split; [exact B|]. left. split; [exact C|].
        intros r0 i0 [Hin|Hin]; [inversion Hin; subst; exact Hnf | apply D; exact Hin].
      * split; [exact A|]. split; [exact B|]. right. split; assumption.
    + destruct (close_step (st, ch) (r, i)) as [st1 ch1]. cbn [fst snd] in *. subst ch1.
      destruct (IH st1 true HP1 Hl') as [A [B [[C D]|[C D]]]].
      * split; [exact A|]. split; [lia|]. right. rewrite C. cbn [fst snd]. split; [reflexivity|].
        rewrite C in B. cbn [fst] in B. lia.
      * split; [exact A|]. split; [lia|]. right. split; [exact C | lia].
Qed.

Theorem close_closed : forall own rk s cs fuel st,
  PC own rk s cs st -> 21 < mu (with_stores s st) + fuel ->
  PC own rk s cs (close_rmw_atomicity fuel (at_cnt s) st) /\
  Closed own (with_stores s (close_rmw_atomicity fuel (at_cnt s) st)).
Proof.
  intros own rk s cs fuel. induction fuel as [|f IH]; intros st HP Hmu.
  - exfalso. destruct HP as [HI _]. pose proof (mu_le HI). lia.
  - cbn [close_rmw_atomicity].
    destruct (@close_fold_cases own rk s cs (list_prod (seq 0 (at_cnt s)) (seq 0 (at_cnt s))) st false HP
                (@pairs_live (at_cnt s))) as [A [B [[C D]|[C D]]]].
    + rewrite C. split; [exact HP|].
      intros r sl sid x Hr Hsrc Hx Hn1 Hn2.
      refine (D r x _ sl sid Hsrc Hn1 Hn2).
      apply in_prod_iff. split; apply in_seq; [change (at_cnt (with_stores s st)) with (at_cnt s) in Hr; lia |
                                                change (at_cnt (with_stores s st)) with (at_cnt s) in Hx; lia].
    + destruct (fold_left close_step (list_prod (seq 0 (at_cnt s)) (seq 0 (at_cnt s))) (st, false))
        as [st1 ch1]. cbn [fst snd] in *. subst ch1. apply IH; [exact A | lia].
Qed.

(* the closure as the model calls it: invariant, witness, CLOSED *)
Theorem close_model_closed : forall own rk s cs,
  InvO own s cs -> LinkO own rk s ->
  let s' := with_stores s (close_rmw_atomicity (4 * MAX_ATOMIC_HISTORY)
                             (Nat.min (at_cnt s) MAX_ATOMIC_HISTORY) (at_stores s)) in
  InvO own s' cs /\ LinkO own rk s' /\ Same s s' /\ Closed own s'.
Proof.
  intros own rk s cs HI HL. cbv zeta.
  rewrite (Nat.min_l _ _ (i_cnt7 HI)).
  destruct (@close_closed own rk s cs (4 * MAX_ATOMIC_HISTORY) (at_stores s) (with_stores_self HI HL))
    as [[A [B C]] D].
  - unfold MAX_ATOMIC_HISTORY. lia.
  - split; [exact A|]. split; [exact B|]. split; [exact C | exact D].
Qed.

(* ------------------------------------------------------------------ *)
(* 9. the load part of the MODEL's atomic_load / atomic_rmw on a closed
      state with a witness: invariant, new witness, closed again, and the
      order only grows                                                  *)

Lemma In_index_list_from : forall (A : Type) (l : list A) i k d,
  k < length l -> In (i + k, nth k l d) (index_list_from i l).
Proof.
  intros A l. induction l as [|h r IH]; intros i k d Hk; [simpl in Hk; lia|].
  destruct k as [|k]; cbn [index_list_from nth].
  - left. rewrite Nat.add_0_r. reflexivity.
  - right. replace (i + S k) with (S i + k) by lia. apply IH. simpl in Hk. lia.
Qed.

Lemma alc_mo_ge_seen : forall s c idx x,
  x < length (at_stores s) -> x <> idx ->
  is_seen_by_current (st_seen (get_store s x)) c = true ->
  vle (mo s x) (alc_mo s c idx).
Proof.
  intros s c idx x Hx Hne Hs. unfold alc_mo.
  change (mo s x) with ((fun ix : nat * astore => st_mo (snd ix)) (x, get_store s x)).
  apply (fold_in _ (fun ix : nat * astore => st_mo (snd ix))
           (fun ix : nat * astore => negb (Nat.eqb idx (fst ix)) && is_seen_by_current (st_seen (snd ix)) c)).
  - intros m [i x0]. destruct (Nat.eqb idx i); [apply vle_refl|].
    destruct (is_seen_by_current (st_seen x0) c); destruct (vv_lt (st_hb x0) c);
      intros q; rewrite ?vv_get_join; lia.
  - intros m [i x0] Hp. cbn [fst snd] in Hp. apply andb_true_iff in Hp. destruct Hp as [H1 H2].
    destruct (Nat.eqb idx i); [discriminate|]. rewrite H2.
    destruct (vv_lt (st_hb x0) c); intros q; rewrite ?vv_get_join; cbn [snd]; lia.
  - unfold index_list. apply (@In_index_list_from astore (at_stores s) 0 x store_default Hx).
  - cbn [fst snd]. fold (get_store s x). rewrite Hs.
    destruct (Nat.eqb_spec idx x); [lia | reflexivity].
Qed.

Lemma lpA_id_src : forall own s cs t c idx k,
  InvO own s cs -> idx < at_cnt s -> k < MAX_ATOMIC_HISTORY ->
  st_id (get_store (loadpart_g RC0421 s t c idx) k) = st_id (get_store s k) /\
  st_rmw_src (get_store (loadpart_g RC0421 s t c idx) k) = st_rmw_src (get_store s k).
Proof.
  intros own s cs t c idx k HI Hidx Hk.
  rewrite (@lp_get own s cs t c idx HI Hidx k Hk).
  destruct (Nat.eqb_spec k idx) as [e|_]; [subst k; split; reflexivity|].
  destruct (vv_eqb (alc_mo s c idx) (mo s idx)); [split; reflexivity|].
  destruct (vv_lt (mo s idx) (mo s k)); split; reflexivity.
Qed.

(* what the load part of the model does to the slots *)
Definition LoadFacts (own : nat -> nat) (s sM : atomic_state) (t : nat) (c : vv) (idx : nat) : Prop :=
  Kgrow own s sM /\
  (forall k, k < MAX_ATOMIC_HISTORY ->
     st_seen (get_store sM k) =
       if Nat.eqb k idx then seen_touch (st_seen (get_store s idx)) t (vv_get c t)
       else st_seen (get_store s k)) /\
  (forall k, k < MAX_ATOMIC_HISTORY ->
     st_hb (get_store sM k) = st_hb (get_store s k) /\
     st_sync (get_store sM k) = st_sync (get_store s k) /\
     st_id (get_store sM k) = st_id (get_store s k) /\
     st_rmw_src (get_store sM k) = st_rmw_src (get_store s k)) /\
  (forall k, k < MAX_ATOMIC_HISTORY -> vle (mo s k) (mo sM k)) /\
  (forall x, x < at_cnt s -> x <> idx ->
     is_seen_by_current (st_seen (get_store s x)) c = true -> K own sM x idx).

Theorem model_loadpart_good : forall own rk s cs t c idx,
  InvO own s cs -> LinkO own rk s -> Closed own s -> idx < at_cnt s ->
  (forall x, x < at_cnt s -> x <> idx ->
     is_seen_by_current (st_seen (get_store s x)) c = true ->
     vv_lt (mo s idx) (mo s x) = false) ->
  let sM := loadpart_g RModel s t c idx in
  InvO own sM cs /\
  (exists rk', LinkO own rk' sM /\
     ((forall x, x < at_cnt s -> x <> idx -> ~ K own s idx x) ->
      forall v, v < at_cnt s -> rk' v <= rk' idx)) /\
  Closed own sM /\ LoadFacts own s sM t c idx.
Proof.
  intros own rk s cs t c idx HI HL HC Hidx Hcand. cbv zeta.
  pose proof (i_cnt7 HI) as H7. assert (Hidx7 : idx < MAX_ATOMIC_HISTORY) by lia.
  set (X := alc_c0421c4 s c idx).
  destruct (@alcC_idx_fields s c idx (i_len HI) Hidx7) as [HXseen HXlen]. fold X in HXseen, HXlen.
  set (w := vv_get c t).
  pose proof (@load_phase_inv own s cs t c idx HI Hidx Hcand) as HIA.
  pose proof (@load_witness own rk s cs t c idx HI HL HC Hidx Hcand) as HLA.
  pose proof (@lw_idx_last own rk s cs idx HI HL HC Hidx) as Hlast.
  match type of HLA with LinkO _ ?r _ => set (rk' := r) in HLA, Hlast end.
  assert (HKA : forall x y, x < at_cnt s -> y < at_cnt s -> K own s x y ->
                K own (loadpart_g RC0421 s t c idx) x y)
    by (intros x y Hx Hy; apply (@lw_K_old own rk s cs t c idx HI Hidx x y Hx Hy)).
  pose proof (fun k Hk => @lp_seen own s cs t c idx HI Hidx k Hk) as HAseen.
  pose proof (fun k Hk => @lp_hb own s cs t c idx HI Hidx k Hk) as HAhb.
  pose proof (fun k Hk => @lp_sync own s cs t c idx HI Hidx k Hk) as HAsync.
  pose proof (fun k Hk => @lpA_id_src own s cs t c idx k HI Hidx Hk) as HAis.
  pose proof (fun k Hk => @lp_grow own s cs t c idx HI Hidx k Hk) as HAgrow.
  pose proof (@lp_mo own s cs t c idx HI Hidx idx Hidx7) as HAmoidx. rewrite Nat.eqb_refl in HAmoidx.
  rewrite loadpart_c0421_touch in HIA, HLA, HKA, HAseen, HAhb, HAsync, HAis, HAgrow, HAmoidx.
  fold X w in HIA, HLA, HKA, HAseen, HAhb, HAsync, HAis, HAgrow, HAmoidx.
  assert (HXidx : idx < length (at_stores X)) by (rewrite HXlen; exact Hidx7).
  pose proof (SeenAt_sym (@touch_SeenAt X idx t w HXidx)) as HSA.
  assert (Hhbk : hbk own (touch X idx t w) idx = hbk own s idx).
  { unfold hbk. rewrite (HAhb idx Hidx7). reflexivity. }
  assert (HIX : InvO own X cs).
  { apply (SeenAt_InvO HSA HIA Hidx). rewrite HXseen, Hhbk. apply (i_seen HI Hidx). }
  pose proof (SeenAt_LinkO HSA HLA) as HLX.
  destruct (close_model_closed HIX HLX) as [HIC [HLC [HSame HCl]]].
  rewrite loadpart_model_touch, model_alc_with. fold X w.
  set (sC := with_stores X (close_rmw_atomicity (4 * MAX_ATOMIC_HISTORY)
                (Nat.min (at_cnt X) MAX_ATOMIC_HISTORY) (at_stores X))) in *.
  assert (HCidx : idx < length (at_stores sC)) by (rewrite (i_len HIC); exact Hidx7).
  pose proof (@touch_SeenAt sC idx t w HCidx) as HST.
  set (sM := touch sC idx t w) in *.
  destruct HSame as [HScnt HSk].
  (* field chains *)
  assert (Fhb : forall k, k < MAX_ATOMIC_HISTORY -> st_hb (get_store sM k) = st_hb (get_store s k)).
  { intros k Hk. rewrite (sa_hb HST). destruct (HSk k) as [E _]. rewrite E. rewrite (sa_hb HSA). apply (HAhb k Hk). }
  assert (Fmo : forall k, k < MAX_ATOMIC_HISTORY -> vle (mo s k) (mo sM k)).
  { intros k Hk. rewrite (sa_mo HST). destruct (HSk k) as [_ [_ [_ [_ [_ [_ [_ E]]]]]]].
    eapply vle_trans; [|exact E]. rewrite (sa_mo HSA). apply (HAgrow k Hk). }
  assert (Fhbk : forall k, k < MAX_ATOMIC_HISTORY -> hbk own sM k = hbk own s k).
  { intros k Hk. unfold hbk. rewrite (Fhb k Hk). reflexivity. }
  assert (HinvM : InvO own sM cs).
  { apply (SeenAt_InvO HST HIC Hidx). unfold sM.
    rewrite (@touch_seen sC idx t w HCidx).
    destruct (HSk idx) as [Hhb [Hsn _]].
    rewrite Hsn, HXseen. apply seen_touch_keeps.
    assert (He : hbk own sC idx = hbk own s idx).
    { transitivity (hbk own X idx); [unfold hbk; rewrite Hhb; reflexivity|].
      rewrite (sa_hbk HSA). exact Hhbk. }
    rewrite He. apply (i_seen HI Hidx). }
  split; [exact HinvM|]. split; [exists rk'; split; [apply (SeenAt_LinkO HST HLC) | exact Hlast]|].
  split; [apply (SeenAt_Closed HST HCl)|].
  split; [|split; [|split; [|split]]].
  - split; [reflexivity|]. intros x y Hx Hy HK.
    apply (sa_K HST). destruct (Same_Kgrow own (conj HScnt HSk)) as [_ HG]. apply (HG x y Hx Hy).
    apply (sa_K HSA). apply (HKA x y Hx Hy HK).
  - intros k Hk. destruct (Nat.eqb_spec k idx) as [e|n].
    + subst k. unfold sM. rewrite (@touch_seen sC idx t w HCidx).
      destruct (HSk idx) as [_ [Hsn _]]. rewrite Hsn, HXseen. reflexivity.
    + destruct HST as [_ [_ [_ [_ [_ [F _]]]]]]. rewrite (F k n).
      destruct (HSk k) as [_ [Hsn _]]. rewrite Hsn.
      destruct HSA as [_ [_ [_ [_ [_ [F' _]]]]]]. rewrite (F' k n).
      rewrite (HAseen k Hk). destruct (Nat.eqb_spec k idx); [contradiction | reflexivity].
  - intros k Hk. split; [apply (Fhb k Hk)|].
    destruct (HSk k) as [_ [_ [E1 [_ [E2 [E3 _]]]]]].
    destruct (HAis k Hk) as [E4 E5].
    split; [rewrite (sa_sync HST), E1, (sa_sync HSA); apply (HAsync k Hk)|].
    split; [rewrite (sa_id HST), E2, (sa_id HSA); exact E4 | rewrite (sa_src HST), E3, (sa_src HSA); exact E5].
  - exact Fmo.
  - intros x Hx Hne Hs. unfold K. rewrite (Fhbk x ltac:(lia)).
    assert (Hx7 : x < length (at_stores s)) by (rewrite (i_len HI); lia).
    pose proof (@alc_mo_ge_seen s c idx x Hx7 Hne Hs (own x)) as H1.
    pose proof (i_hbmo HI Hx) as H2. unfold K in H2.
    assert (H3 : vle (alc_mo s c idx) (mo sM idx)).
    { rewrite (sa_mo HST). destruct (HSk idx) as [_ [_ [_ [_ [_ [_ [_ E]]]]]]].
      eapply vle_trans; [|exact E]. rewrite (sa_mo HSA). rewrite HAmoidx. apply vle_refl. }
    specialize (H3 (own x)). lia.
Qed.

(* ------------------------------------------------------------------ *)
(* 9b. the store phase: witness, closedness and the st_sync invariant     *)

(* a store seen by the synchronisation clock of b is mo-below b *)
Definition Sy (own : nat -> nat) (s : atomic_state) : Prop :=
  forall a b, a < at_cnt s -> b < at_cnt s ->
    is_seen_by_current (st_seen (get_store s a)) (st_sync (get_store s b)) = true -> K own s a b.

Lemma seen_join_or : forall seen a b,
  is_seen_by_current seen (vv_join a b) = true ->
  is_seen_by_current seen a = true \/ is_seen_by_current seen b = true.
Proof.
  intros seen a b H. apply is_seen_by_current_spec in H. destruct H as [m [w [Hn Hw]]].
  rewrite vv_get_join in Hw.
  destruct (le_dec w (vv_get a m)) as [H1|H1].
  - left. apply is_seen_by_current_spec. exists m, w. split; assumption.
  - right. apply is_seen_by_current_spec. exists m, w. split; [exact Hn | lia].
Qed.

Lemma sync_store_le_join : forall sync0 c rel o, vle rel c ->
  vle (sync_store sync0 c rel o) (vv_join sync0 c).
Proof.
  intros sync0 c rel o Hrel q. unfold sync_store. specialize (Hrel q).
  destruct (ord_rel o); rewrite ?vv_get_join; lia.
Qed.

Section StoreW.
  Variables own rk : nat -> nat.
  Variable s : atomic_state.
  Variable cs : list vv.
  Variables (t : nat) (c sync0 : vv) (v : N) (o : ord) (src : option (nat * nat)).
  Variable rel : vv.
  Hypothesis HI : InvO own s cs.
  Hypothesis HL : LinkO own rk s.
  Hypothesis HC : Closed own s.
  Hypothesis HSy : Sy own s.
  Hypothesis Ht : t < length cs.
  Hypothesis Hroom : at_cnt s < MAX_ATOMIC_HISTORY.
  Hypothesis Hfr : vv_get (clk cs t) t < vv_get c t.
  Hypothesis Hlen : t < length c.

  Let n := at_cnt s.
  Let own' := fun k => if Nat.eqb k n then t else own k.
  Let s' := atomic_store_from s t c rel sync0 v o src.
  Let MN := store_from_mo s c src.
  Let Kn (a : nat) : Prop := hbk own s a <= vv_get MN (own a).

  Variable rk' : nat -> nat.
  Hypothesis R2 : forall a b, a < n -> b < n -> (rk' a < rk' b <-> rk a < rk b).
  Hypothesis R1n : forall a, a < n -> rk' a <> rk' n.
  Hypothesis R3 : forall a, a < n -> Kn a -> rk' a < rk' n.
  Hypothesis R4 : forall r sl sid, r < n -> st_rmw_src (get_store s r) = Some (sl, sid) ->
    ~ (rk' sl < rk' n /\ rk' n < rk' r).
  Hypothesis Hsrc : match src with
    | None => True
    | Some (idx, sid) =>
        idx < n /\ sid = idx /\ Kn idx /\
        (forall x, x < n -> ~ (rk' idx < rk' x /\ rk' x < rk' n)) /\
        (forall x, x < n -> x <> idx -> ~ K own s idx x) /\
        (forall x, x < n -> Kn x -> K own s x idx)
    end.
  Hypothesis C1 : forall r sl sid, r < n -> st_rmw_src (get_store s r) = Some (sl, sid) ->
    Kn sl -> Kn r.
  Hypothesis HsyN : forall a, a < n ->
    is_seen_by_current (st_seen (get_store s a)) (sync_store sync0 c rel o) = true -> Kn a.

  Lemma sw_get : forall k, get_store s' k =
    if Nat.eqb k n
    then mkStore v c MN (sync_store sync0 c rel o) (seen_touch seen_new t (vv_get c t))
                 (is_seq_cst o) n src
    else get_store s k.
  Proof. intros k. apply (sp_get t c sync0 v o src rel HI Hroom k). Qed.

  Lemma sw_old : forall k, k < n -> get_store s' k = get_store s k.
  Proof. intros k Hk. rewrite sw_get. destruct (Nat.eqb_spec k n); [lia | reflexivity]. Qed.
  Lemma sw_new : get_store s' n =
    mkStore v c MN (sync_store sync0 c rel o) (seen_touch seen_new t (vv_get c t))
            (is_seq_cst o) n src.
  Proof. rewrite sw_get, Nat.eqb_refl. reflexivity. Qed.

  Lemma sw_K_old : forall a b, a < n -> b < n -> (K own' s' a b <-> K own s a b).
  Proof. intros a b Ha Hb. apply (sp_K_old c sync0 v o src rel HI Ht Hroom Hfr Hlen Ha Hb). Qed.
  Lemma sw_K_n_old : forall b, b < n -> ~ K own' s' n b.
  Proof. intros b Hb. apply (@sp_K_n_old own s cs t c sync0 v o src rel HI Ht Hroom Hfr Hlen b Hb). Qed.
  Lemma sw_K_old_n : forall a, a < n -> (K own' s' a n <-> Kn a).
  Proof.
    intros a Ha. unfold K, Kn, hbk, mo, own'. rewrite sw_new, (sw_old Ha).
    destruct (Nat.eqb_spec a n); [lia|]. cbn [st_mo]. tauto.
  Qed.
  Lemma sw_K_nn : K own' s' n n.
  Proof.
    unfold K, hbk, mo, own'. rewrite sw_new, Nat.eqb_refl. cbn [st_hb st_mo].
    apply (store_from_mo_ge_caus s c src t).
  Qed.

  Lemma sw_cases : forall a, a < at_cnt s' -> a < n \/ a = n.
  Proof. intros a Ha. change (a < S n) in Ha. lia. Qed.

  Lemma sw_inj_old : forall a b, a < n -> b < n -> rk' a = rk' b -> a = b.
  Proof.
    intros a b Ha Hb He. apply (ln_inj HL Ha Hb).
    destruct (Nat.lt_total (rk a) (rk b)) as [H|[H|H]]; [|exact H|].
    - apply (R2 Ha Hb) in H. lia.
    - apply (R2 Hb Ha) in H. lia.
  Qed.

  Lemma store_witness : LinkO own' rk' s'.
  Proof.
    constructor.
    - intros a Ha. destruct (sw_cases Ha) as [Hl|He].
      + rewrite (sw_old Hl). apply (lk_id HL Hl).
      + subst a. rewrite sw_new. reflexivity.
    - intros r sl sid Hr Hs. destruct (sw_cases Hr) as [Hl|He].
      + rewrite (sw_old Hl) in Hs. apply (lk_src HL Hl Hs).
      + subst r. rewrite sw_new in Hs. cbn [st_rmw_src] in Hs. rewrite Hs in Hsrc.
        destruct Hsrc as [A [B _]]. split; [exact A | exact B].
    - intros r sl sid Hr Hs. destruct (sw_cases Hr) as [Hl|He].
      + rewrite (sw_old Hl) in Hs. destruct (lk_src HL Hl Hs) as [Hlt _].
        assert (Hsl : sl < n) by (unfold n in *; lia).
        apply (sw_K_old Hsl Hl). apply (lk_ord HL Hl Hs).
      + subst r. rewrite sw_new in Hs. cbn [st_rmw_src] in Hs. rewrite Hs in Hsrc.
        destruct Hsrc as [A [_ [B _]]]. apply (sw_K_old_n A). exact B.
    - intros a b Ha Hb He. destruct (sw_cases Ha) as [Hla|Hea]; destruct (sw_cases Hb) as [Hlb|Heb].
      + apply (sw_inj_old Hla Hlb He).
      + subst b. exfalso. apply (R1n Hla He).
      + subst a. exfalso. apply (R1n Hlb). symmetry. exact He.
      + lia.
    - intros a b Ha Hb Hne HK. destruct (sw_cases Ha) as [Hla|Hea]; destruct (sw_cases Hb) as [Hlb|Heb].
      + apply (R2 Hla Hlb). apply (ln_ext HL Hla Hlb Hne). apply (sw_K_old Hla Hlb). exact HK.
      + subst b. apply (R3 Hla). apply (sw_K_old_n Hla). exact HK.
      + subst a. exfalso. apply (sw_K_n_old Hlb HK).
      + lia.
    - intros r sl sid x Hr Hs Hx. destruct (sw_cases Hr) as [Hl|He].
      + rewrite (sw_old Hl) in Hs. destruct (lk_src HL Hl Hs) as [Hlt _].
        assert (Hsl : sl < n) by (unfold n in *; lia).
        destruct (sw_cases Hx) as [Hlx|Hex].
        * intros [H1 H2]. apply (ln_adj HL Hl Hs Hlx). split; [apply (R2 Hsl Hlx) | apply (R2 Hlx Hl)]; assumption.
        * subst x. apply (R4 Hl Hs).
      + subst r. rewrite sw_new in Hs. cbn [st_rmw_src] in Hs. rewrite Hs in Hsrc.
        destruct Hsrc as [A [_ [_ [B _]]]].
        destruct (sw_cases Hx) as [Hlx|Hex]; [apply (B x Hlx) | subst x; lia].
  Qed.

  Lemma store_closed : Closed own' s'.
  Proof.
    intros r sl sid x Hr Hs Hx Hn1 Hn2.
    destruct (sw_cases Hr) as [Hl|He].
    - rewrite (sw_old Hl) in Hs. destruct (lk_src HL Hl Hs) as [Hlt _].
      assert (Hsl : sl < n) by (unfold n in *; lia).
      destruct (sw_cases Hx) as [Hlx|Hex].
      + destruct (HC Hl Hs Hlx Hn1 Hn2) as [H1 H2]. split; intros H.
        * apply (sw_K_old Hl Hlx). apply H1. apply (sw_K_old Hsl Hlx). exact H.
        * apply (sw_K_old Hlx Hsl). apply H2. apply (sw_K_old Hlx Hl). exact H.
      + subst x. split; intros H.
        * apply (sw_K_old_n Hl). apply (C1 Hl Hs). apply (sw_K_old_n Hsl). exact H.
        * exfalso. apply (sw_K_n_old Hl H).
    - subst r. rewrite sw_new in Hs. cbn [st_rmw_src] in Hs. rewrite Hs in Hsrc.
      destruct Hsrc as [A [_ [_ [_ [B D]]]]].
      destruct (sw_cases Hx) as [Hlx|Hex]; [|lia].
      split; intros H.
      + exfalso. apply (B x Hlx Hn1). apply (sw_K_old A Hlx). exact H.
      + apply (sw_K_old Hlx A). apply (D x Hlx). apply (sw_K_old_n Hlx). exact H.
  Qed.

  Lemma store_sy : Sy own' s'.
  Proof.
    intros a b Ha Hb H.
    destruct (sw_cases Ha) as [Hla|Hea]; destruct (sw_cases Hb) as [Hlb|Heb].
    - apply (sw_K_old Hla Hlb). apply (HSy Hla Hlb).
      rewrite (sw_old Hla), (sw_old Hlb) in H. exact H.
    - subst b. apply (sw_K_old_n Hla). apply (HsyN Hla).
      rewrite (sw_old Hla), sw_new in H. exact H.
    - subst a. exfalso. rewrite sw_new, (sw_old Hlb) in H. cbn [st_seen] in H.
      apply is_seen_by_current_spec in H. destruct H as [m [w [Hn Hw]]].
      apply seen_touch_inv in Hn. destruct Hn as [Hn|[Hm Hw']].
      + apply (proj2 (seen_new_nth m) w Hn).
      + subst m w. pose proof (i_bsync HI Hlb Ht). lia.
    - subst a b. apply sw_K_nn.
  Qed.
End StoreW.
(* the store-time closure of atomic_store_from gives rule I1 for the new store *)
Lemma store_C1 : forall own rk s cs t c src,
  InvO own s cs -> LinkO own rk s -> t < length cs -> at_cnt s < MAX_ATOMIC_HISTORY ->
  vv_get (clk cs t) t < vv_get c t -> t < length c ->
  (forall r sl sid, r < at_cnt s -> st_rmw_src (get_store s r) = Some (sl, sid) ->
     src_eqb (Some (sl, sid)) src = false) ->
  forall r sl sid, r < at_cnt s -> st_rmw_src (get_store s r) = Some (sl, sid) ->
    hbk own s sl <= vv_get (store_from_mo s c src) (own sl) ->
    hbk own s r <= vv_get (store_from_mo s c src) (own r).
Proof.
  intros own rk s cs t c src HI HL Ht Hroom Hfr Hlen Hneq r sl sid Hr Hs Hk.
  destruct (lk_src HL Hr Hs) as [Hlt Hsid]. assert (Hsl : sl < at_cnt s) by lia.
  pose proof (@sp_KN own s cs t c src HI Ht Hroom Hfr Hlen sl Hsl Hk) as Hle.
  assert (Hlen7 : length (at_stores s) <= S MAX_ATOMIC_HISTORY) by (rewrite (i_len HI); lia).
  pose proof (store_from_mo_closed s c src Hlen7) as Hcl.
  assert (Hin : In (get_store s r) (at_stores s)).
  { unfold get_store. apply nth_In. rewrite (i_len HI). pose proof (i_cnt7 HI). lia. }
  assert (Hlink : rmw_link (at_stores s) src (get_store s r) = Some (mo s sl)).
  { apply rmw_link_some. exists sl, sid. split; [exact Hs|]. split; [apply (Hneq r sl sid Hr Hs)|].
    split; [|reflexivity]. change (nth sl (at_stores s) store_default) with (get_store s sl).
    rewrite (lk_id HL Hsl). symmetry. exact Hsid. }
  assert (Hv : vv_le (mo s sl) (store_from_mo s c src) = true) by (apply vv_le_spec; exact Hle).
  pose proof (Hcl (get_store s r) (mo s sl) Hin Hlink Hv) as Hr'. apply vv_le_spec in Hr'.
  pose proof (i_hbmo HI Hr) as Hkr. unfold K in Hkr. specialize (Hr' (own r)). fold (mo s r) in Hr'. lia.
Qed.

Lemma list_max'_lt : forall rk n k, k < n -> rk k < S (list_max' (map rk (seq 0 n))).
Proof.
  intros rk n k Hk. apply Nat.lt_succ_r. apply list_max'_ge. apply in_map. apply in_seq. lia.
Qed.

(* ---- a plain store ---- *)
Theorem plain_store_good : forall own rk s cs t c rel v o,
  InvO own s cs -> LinkO own rk s -> Closed own s -> Sy own s ->
  t < length cs -> at_cnt s < MAX_ATOMIC_HISTORY ->
  vv_get (clk cs t) t < vv_get c t -> t < length c -> vle rel c ->
  let own' := fun k => if Nat.eqb k (at_cnt s) then t else own k in
  let s' := atomic_store_from s t c rel vv_new v o None in
  (exists rk', LinkO own' rk' s') /\ Closed own' s' /\ Sy own' s'.
Proof.
  intros own rk s cs t c rel v o HI HL HC HSy Ht Hroom Hfr Hlen Hrel. cbv zeta.
  set (n := at_cnt s).
  set (N := S (list_max' (map rk (seq 0 n)))).
  set (rk' := fun k => if Nat.eqb k n then N else rk k).
  assert (Hold : forall a, a < n -> rk' a = rk a).
  { intros a Ha. unfold rk'. destruct (Nat.eqb_spec a n); [lia | reflexivity]. }
  assert (Hnew : rk' n = N) by (unfold rk'; rewrite Nat.eqb_refl; reflexivity).
  assert (HltN : forall a, a < n -> rk a < N) by (intros a Ha; apply list_max'_lt; exact Ha).
  assert (R2 : forall a b, a < n -> b < n -> (rk' a < rk' b <-> rk a < rk b)).
  { intros a b Ha Hb. rewrite (Hold a Ha), (Hold b Hb). tauto. }
  assert (R1n : forall a, a < n -> rk' a <> rk' n).
  { intros a Ha. rewrite (Hold a Ha), Hnew. pose proof (HltN a Ha). lia. }
  assert (R3 : forall a, a < n -> hbk own s a <= vv_get (store_from_mo s c None) (own a) -> rk' a < rk' n).
  { intros a Ha _. rewrite (Hold a Ha), Hnew. apply (HltN a Ha). }
  assert (R4 : forall r sl sid, r < n -> st_rmw_src (get_store s r) = Some (sl, sid) ->
               ~ (rk' sl < rk' n /\ rk' n < rk' r)).
  { intros r sl sid Hr _ [_ H]. rewrite (Hold r Hr), Hnew in H. pose proof (HltN r Hr). lia. }
  assert (C1 := @store_C1 own rk s cs t c None HI HL Ht Hroom Hfr Hlen (fun r sl sid _ _ => eq_refl)).
  assert (HsyN : forall a, a < n ->
            is_seen_by_current (st_seen (get_store s a)) (sync_store vv_new c rel o) = true ->
            hbk own s a <= vv_get (store_from_mo s c None) (own a)).
  { intros a Ha H.
    assert (Hs : is_seen_by_current (st_seen (get_store s a)) c = true).
    { apply (seen_clock_mono _ _ _ (@sync_store_le_join vv_new c rel o Hrel)) in H.
      apply seen_join_or in H. destruct H as [H|H]; [|exact H].
      apply (seen_clock_mono _ _ _ (vle_new c) H). }
    pose proof (@sp_seen_le own s cs t c None HI Ht Hroom Hfr Hlen a Ha Hs (own a)) as Hle.
    pose proof (i_hbmo HI Ha) as Hk. unfold K in Hk. lia. }
  split; [exists rk'|split].
  - apply (@store_witness own rk s cs t c vv_new v o None rel HI HL Ht Hroom Hfr Hlen rk' R2 R1n R3 R4 I).
  - apply (@store_closed own rk s cs t c vv_new v o None rel HI HL HC Ht Hroom Hfr Hlen rk' I C1).
  - apply (@store_sy own s cs t c vv_new v o None rel HI HSy Ht Hroom Hfr Hlen HsyN).
Qed.

(* ---- upper bounds for the clock folds ---- *)
Lemma fold_ub : forall (A : Type) (f : vv -> A -> vv) (U : vv) (l : list A),
  (forall m a, In a l -> vle m U -> vle (f m a) U) ->
  forall m, vle m U -> vle (fold_left f l m) U.
Proof.
  intros A f U l. induction l as [|a l IH]; intros Hf m Hm; [exact Hm|].
  cbn [fold_left]. apply IH.
  - intros m' a' Ha'. apply Hf. right. exact Ha'.
  - apply Hf; [left; reflexivity | exact Hm].
Qed.

Section RmwUb.
  Variable stores : list astore.
  Variable src : option (nat * nat).
  Variable U : vv.
  Hypothesis Hstep : forall x w m', In x stores -> rmw_link stores src x = Some w ->
    vle m' U -> vv_le w m' = true -> vle (st_mo x) U.

  Lemma pass_ub : forall l m ch, (forall x, In x l -> In x stores) -> vle m U ->
    vle (fst (fold_left (pass_step stores src) l (m, ch))) U.
  Proof.
    induction l as [|a l IH]; intros m ch Hsub Hm; [exact Hm|].
    cbn [fold_left]. rewrite pass_step_eq.
    assert (Hsub' : forall x, In x l -> In x stores) by (intros x Hx; apply Hsub; right; exact Hx).
    destruct (rmw_link stores src a) as [w|] eqn:Hl; [|apply IH; assumption].
    destruct (vv_le w m && negb (vv_le (st_mo a) m)) eqn:Hc; [|apply IH; assumption].
    apply IH; [exact Hsub'|]. apply andb_true_iff in Hc. destruct Hc as [Hw _].
    apply vle_join_lub; [exact Hm|]. apply (@Hstep a w m (Hsub a (or_introl eq_refl)) Hl Hm Hw).
  Qed.

  Lemma rmw_atomicity_ub : forall fuel m, vle m U -> vle (rmw_atomicity fuel stores src m) U.
  Proof.
    induction fuel as [|f IH]; intros m Hm; [exact Hm|].
    cbn [rmw_atomicity].
    pose proof (@pass_ub stores m false (fun x H => H) Hm) as Hp.
    rewrite <- rmw_atomicity_pass_fold in Hp.
    destruct (rmw_atomicity_pass stores src m) as [mo' changed]. cbn [fst] in Hp.
    destruct changed; [apply IH; exact Hp | exact Hp].
  Qed.
End RmwUb.

(* ---- the store half of an RMW ---- *)
Theorem rmw_store_good : forall own rk s cs t c rel v o idx,
  InvO own s cs -> LinkO own rk s -> Closed own s -> Sy own s ->
  t < length cs -> at_cnt s < MAX_ATOMIC_HISTORY ->
  vv_get (clk cs t) t < vv_get c t -> t < length c -> vle rel c ->
  idx < at_cnt s ->
  (forall x, x < at_cnt s -> x <> idx -> ~ K own s idx x) ->
  (forall x, x < at_cnt s -> is_seen_by_current (st_seen (get_store s x)) c = true -> K own s x idx) ->
  is_seen_by_current (st_seen (get_store s idx)) c = true ->
  let own' := fun k => if Nat.eqb k (at_cnt s) then t else own k in
  let s' := atomic_store_from s t c rel (st_sync (get_store s idx)) v o
              (Some (idx, st_id (get_store s idx))) in
  (exists rk', LinkO own' rk' s') /\ Closed own' s' /\ Sy own' s'.
Proof.
  intros own rk s cs t c rel v o idx HI HL HC HSy Ht Hroom Hfr Hlen Hrel Hidx Hmax HseenB Hidxseen. cbv zeta.
  rewrite (lk_id HL Hidx).
  set (n := at_cnt s). set (src := Some (idx, idx)).
  set (MN := store_from_mo s c src).
  set (U := vv_join c (mo s idx)).
  (* knowing a key through U means being below idx *)
  assert (HU : forall x, x < n -> hbk own s x <= vv_get U (own x) -> K own s x idx).
  { intros x Hx H. unfold U in H. rewrite vv_get_join in H.
    destruct (le_dec (hbk own s x) (vv_get c (own x))) as [H1|H1].
    - apply (HseenB x Hx). apply (key_seen HI c Hx H1).
    - unfold K. lia. }
  assert (HMU : vle MN U).
  { unfold MN, store_from_mo. apply rmw_atomicity_ub.
    - intros x w m' Hin Hlink Hm' Hw.
      apply rmw_link_some in Hlink. destruct Hlink as [slot [sid [Hs [Hne [Hid Hwv]]]]].
      apply (In_nth _ _ store_default) in Hin. destruct Hin as [r [_ Hr]].
      destruct (get_store_cases HI r) as [Hrl|Hrd].
      2:{ unfold get_store in Hrd. rewrite Hr in Hrd. rewrite Hrd in Hs. discriminate. }
      assert (Hs' : st_rmw_src (get_store s r) = Some (slot, sid)) by (unfold get_store; rewrite Hr; exact Hs).
      destruct (lk_src HL Hrl Hs') as [Hlt Hsid]. assert (Hsl : slot < n) by (unfold n; lia).
      assert (Hnidx : slot <> idx).
      { intros e. subst slot sid. unfold src, src_eqb in Hne. rewrite Nat.eqb_refl in Hne. discriminate. }
      assert (HKs : K own s slot idx).
      { apply (HU slot Hsl). apply vv_le_spec in Hw. subst w.
        pose proof (i_hbmo HI Hsl) as Hk. unfold K in Hk.
        specialize (Hw (own slot)). specialize (Hm' (own slot)).
        change (st_mo (nth slot (at_stores s) store_default)) with (mo s slot) in Hw. lia. }
      assert (Hxr : st_mo x = mo s r) by (unfold mo, get_store; rewrite Hr; reflexivity).
      rewrite Hxr. destruct (Nat.eq_dec r idx) as [e|Hner].
      + subst r. unfold U. apply vle_join_r.
      + destruct (HC r slot sid idx Hrl Hs' Hidx (fun e => Hnidx (eq_sym e)) (fun e => Hner (eq_sym e))) as [H1 _].
        eapply vle_trans; [apply (i_star HI Hrl Hidx (H1 HKs)) | unfold U; apply vle_join_r].
    - unfold store_mo. apply fold_ub; [|unfold U; apply vle_join_l].
      intros m x Hin Hm. destruct (is_seen_by_current (st_seen x) c) eqn:Hs; [|exact Hm].
      apply vle_join_lub; [exact Hm|].
      apply (In_nth _ _ store_default) in Hin. destruct Hin as [r [_ Hr]].
      destruct (get_store_cases HI r) as [Hrl|Hrd].
      + assert (Hs' : is_seen_by_current (st_seen (get_store s r)) c = true) by (unfold get_store; rewrite Hr; exact Hs).
        assert (Hxr : st_mo x = mo s r) by (unfold mo, get_store; rewrite Hr; reflexivity).
        rewrite Hxr. eapply vle_trans; [apply (i_star HI Hrl Hidx (HseenB r Hrl Hs')) | unfold U; apply vle_join_r].
      + unfold get_store in Hrd. rewrite Hr in Hrd. rewrite Hrd. cbn [st_mo store_default]. apply vle_new. }
  assert (HB : forall x, x < n -> hbk own s x <= vv_get MN (own x) -> K own s x idx).
  { intros x Hx H. apply (HU x Hx). specialize (HMU (own x)). lia. }
  assert (HKidx : hbk own s idx <= vv_get MN (own idx)).
  { pose proof (@sp_seen_le own s cs t c src HI Ht Hroom Hfr Hlen idx Hidx Hidxseen (own idx)) as Hle.
    pose proof (i_hbmo HI Hidx) as Hk. unfold K in Hk. fold MN in Hle. lia. }
  (* the ranking: n right after idx *)
  set (rk' := fun k => if Nat.eqb k n then S (rk idx)
                       else if Nat.ltb (rk idx) (rk k) then S (rk k) else rk k).
  assert (Hold : forall a, a < n -> rk' a = if Nat.ltb (rk idx) (rk a) then S (rk a) else rk a).
  { intros a Ha. unfold rk'. destruct (Nat.eqb_spec a n); [lia | reflexivity]. }
  assert (Hnew : rk' n = S (rk idx)) by (unfold rk'; rewrite Nat.eqb_refl; reflexivity).
  assert (R2 : forall a b, a < n -> b < n -> (rk' a < rk' b <-> rk a < rk b)).
  { intros a b Ha Hb. rewrite (Hold a Ha), (Hold b Hb).
    destruct (Nat.ltb_spec (rk idx) (rk a)); destruct (Nat.ltb_spec (rk idx) (rk b)); lia. }
  assert (Hrkne : forall a, a < n -> a <> idx -> rk a <> rk idx).
  { intros a Ha Hne He. apply Hne. apply (ln_inj HL Ha Hidx He). }
  assert (R1n : forall a, a < n -> rk' a <> rk' n).
  { intros a Ha. rewrite (Hold a Ha), Hnew. destruct (Nat.ltb_spec (rk idx) (rk a)); lia. }
  assert (Hbelow : forall a, a < n -> K own s a idx -> rk a <= rk idx).
  { intros a Ha HK. destruct (Nat.eq_dec a idx) as [e|Hne]; [subst a; lia|].
    pose proof (ln_ext HL Ha Hidx Hne HK). lia. }
  assert (R3 : forall a, a < n -> hbk own s a <= vv_get MN (own a) -> rk' a < rk' n).
  { intros a Ha H. rewrite (Hold a Ha), Hnew. pose proof (Hbelow a Ha (HB a Ha H)).
    destruct (Nat.ltb_spec (rk idx) (rk a)); lia. }
  assert (R4 : forall r sl sid, r < n -> st_rmw_src (get_store s r) = Some (sl, sid) ->
               ~ (rk' sl < rk' n /\ rk' n < rk' r)).
  { intros r sl sid Hr Hs [H1 H2]. destruct (lk_src HL Hr Hs) as [Hlt _].
    assert (Hsl : sl < n) by (unfold n; lia).
    rewrite (Hold sl Hsl), Hnew in H1. rewrite (Hold r Hr), Hnew in H2.
    assert (A1 : rk sl <= rk idx) by (destruct (Nat.ltb_spec (rk idx) (rk sl)); lia).
    assert (A2 : rk idx < rk r) by (destruct (Nat.ltb_spec (rk idx) (rk r)); lia).
    destruct (Nat.eq_dec sl idx) as [e|Hne].
    - subst sl. apply (Hmax r Hr ltac:(lia)). apply (lk_ord HL Hr Hs).
    - pose proof (Hrkne sl Hsl Hne). apply (ln_adj HL Hr Hs Hidx). lia. }
  assert (Hsrc : idx < n /\ idx = idx /\ hbk own s idx <= vv_get MN (own idx) /\
            (forall x, x < n -> ~ (rk' idx < rk' x /\ rk' x < rk' n)) /\
            (forall x, x < n -> x <> idx -> ~ K own s idx x) /\
            (forall x, x < n -> hbk own s x <= vv_get MN (own x) -> K own s x idx)).
  { split; [exact Hidx|]. split; [reflexivity|]. split; [exact HKidx|].
    split; [|split; [exact Hmax | exact HB]].
    intros x Hx [H1 H2]. rewrite (Hold idx Hidx), (Hold x Hx) in H1. rewrite (Hold x Hx), Hnew in H2.
    rewrite Nat.ltb_irrefl in H1. destruct (Nat.ltb_spec (rk idx) (rk x)); lia. }
  assert (Hneq : forall r sl sid, r < at_cnt s -> st_rmw_src (get_store s r) = Some (sl, sid) ->
            src_eqb (Some (sl, sid)) src = false).
  { intros r sl sid Hr Hs. unfold src, src_eqb. destruct (Nat.eqb_spec sl idx) as [e|_]; [|reflexivity].
    exfalso. subst sl. destruct (lk_src HL Hr Hs) as [Hlt _].
    apply (Hmax r Hr ltac:(lia)). apply (lk_ord HL Hr Hs). }
  assert (C1 := @store_C1 own rk s cs t c src HI HL Ht Hroom Hfr Hlen Hneq).
  assert (HsyN : forall a, a < n ->
            is_seen_by_current (st_seen (get_store s a)) (sync_store (st_sync (get_store s idx)) c rel o) = true ->
            hbk own s a <= vv_get MN (own a)).
  { intros a Ha H.
    apply (seen_clock_mono _ _ _ (@sync_store_le_join (st_sync (get_store s idx)) c rel o Hrel)) in H.
    apply seen_join_or in H.
    pose proof (i_hbmo HI Ha) as Hk. unfold K in Hk.
    destruct H as [H1|H1].
    - pose proof (HSy a idx Ha Hidx H1) as HKa.
      pose proof (i_star HI Ha Hidx HKa (own a)) as Hle1.
      pose proof (@sp_seen_le own s cs t c src HI Ht Hroom Hfr Hlen idx Hidx Hidxseen (own a)) as Hle2.
      fold MN in Hle2. lia.
    - pose proof (@sp_seen_le own s cs t c src HI Ht Hroom Hfr Hlen a Ha H1 (own a)) as Hle.
      fold MN in Hle. lia. }
  split; [exists rk'|split].
  - apply (@store_witness own rk s cs t c (st_sync (get_store s idx)) v o src rel HI HL Ht Hroom Hfr Hlen rk' R2 R1n R3 R4 Hsrc).
  - apply (@store_closed own rk s cs t c (st_sync (get_store s idx)) v o src rel HI HL HC Ht Hroom Hfr Hlen rk' Hsrc C1).
  - apply (@store_sy own s cs t c (st_sync (get_store s idx)) v o src rel HI HSy Ht Hroom Hfr Hlen HsyN).
Qed.

(* ---- consequences of LoadFacts ---- *)
Lemma Sy_load : forall own s sM cs t c idx,
  InvO own s cs -> Sy own s -> t < length cs -> vv_get (clk cs t) t < vv_get c t ->
  LoadFacts own s sM t c idx -> Sy own sM.
Proof.
  intros own s sM cs t c idx HI HSy Ht Hfr [[Hc HG] [F1 [F2 _]]] a b Ha Hb H.
  rewrite Hc in Ha, Hb. pose proof (i_cnt7 HI) as H7.
  destruct (F2 b ltac:(lia)) as [_ [Hsy _]]. rewrite Hsy in H.
  rewrite (F1 a ltac:(lia)) in H. apply (HG a b Ha Hb).
  destruct (Nat.eqb_spec a idx) as [e|ne]; [|apply (HSy a b Ha Hb H)].
  subst a. apply (HSy idx b Ha Hb).
  apply is_seen_by_current_spec in H. destruct H as [m [w [Hn Hw]]].
  apply seen_touch_inv in Hn. destruct Hn as [Hn|[Hm Hw']].
  - apply is_seen_by_current_spec. exists m, w. split; assumption.
  - exfalso. subst m w. pose proof (i_bsync HI Hb Ht). lia.
Qed.

Lemma stamp_load_model : forall own s sM cs0 cs cs' t c idx,
  InvO own s cs0 -> StampO s cs -> LoadFacts own s sM t c idx ->
  (forall u, vle (clk cs u) (clk cs' u)) -> vv_get c t <= vv_get (clk cs' t) t ->
  StampO sM cs'.
Proof.
  intros own s sM cs0 cs cs' t c idx HI HS [[Hc _] [F1 _]] Hg Hb.
  pose proof (@stamp_clock s cs cs' HS Hg) as [Hle Hl]. pose proof (i_cnt7 HI) as H7.
  constructor.
  - intros a u w Ha Hn. rewrite Hc in Ha. rewrite (F1 a ltac:(lia)) in Hn.
    destruct (Nat.eqb_spec a idx) as [e|_]; [|apply (Hle a u w Ha Hn)].
    subst a. apply seen_touch_inv in Hn. destruct Hn as [Hn|[Hu Hw]]; [apply (Hle idx u w Ha Hn)|].
    subst u w. exact Hb.
  - intros a Ha. rewrite Hc in Ha. rewrite (F1 a ltac:(lia)).
    destruct (Nat.eqb_spec a idx) as [e|_]; [|apply (Hl a Ha)].
    subst a. rewrite seen_touch_length. apply (Hl idx Ha).
Qed.

Lemma ext_load_model : forall own s sM cs t c idx,
  InvO own s cs -> LoadFacts own s sM t c idx -> ext own s own sM.
Proof.
  intros own s sM cs t c idx HI [[Hc _] [F1 [F2 [F3 _]]]]. pose proof (i_cnt7 HI) as H7.
  split; [rewrite Hc; apply le_n|]. intros a Ha.
  split; [reflexivity|]. split.
  { unfold hbk. destruct (F2 a ltac:(lia)) as [Hhb _]. rewrite Hhb. reflexivity. }
  split; [apply (F3 a ltac:(lia))|].
  intros c0 Hs. rewrite (F1 a ltac:(lia)).
  destruct (Nat.eqb_spec a idx) as [e|_]; [|exact Hs].
  subst a. apply seen_touch_mono. exact Hs.
Qed.

Lemma LinkO_ts : forall own rk s c, LinkO own rk s -> LinkO own rk (ts_state s c).
Proof. intros own rk s c HL. destruct HL. constructor; assumption. Qed.

(* ------------------------------------------------------------------ *)
(* 10. machine level (mstep RModel = the model's functions): good states *)

Definition Good (st : mstate) : Prop :=
  exists own rk, InvO own (fst st) (snd st) /\ LinkO own rk (fst st) /\ Closed own (fst st).

(* RMW atomicity holds in every good state *)
Theorem Good_atomicity : forall st r sl sid,
  Good st -> r < at_cnt (fst st) -> st_rmw_src (get_store (fst st) r) = Some (sl, sid) ->
  sl < at_cnt (fst st) /\ vv_lt (mo (fst st) sl) (mo (fst st) r) = true /\
  forall x, x < at_cnt (fst st) ->
    vv_lt (mo (fst st) sl) (mo (fst st) x) && vv_lt (mo (fst st) x) (mo (fst st) r) = false.
Proof.
  intros st r sl sid [own [rk [HI [HL _]]]] Hr Hsrc. apply (witness_atomicity HI HL Hr Hsrc).
Qed.

Theorem Good_never_none : forall st, Good st ->
  (forall t c ly o, match_load_to_stores (fst st) t c ly o <> None) /\
  match_rmw_to_stores (fst st) <> None.
Proof.
  intros st [own [rk [HI _]]]. assert (Hinv : Inv st) by (exists own; exact HI). split.
  - intros t c ly o. apply mlts_never_none_inv_c0421c4. exact Hinv.
  - apply mrts_never_none_inv_c0421c4. exact Hinv.
Qed.

Lemma LinkO_tl : forall own rk s c, LinkO own rk s -> LinkO own rk (tl_state s c).
Proof. intros own rk s c HL. destruct HL. constructor; assumption. Qed.

(* a load of the model's machine keeps a good state good and loses no edge *)
Theorem good_load_step : forall st t idx o st',
  Good st -> mstep RModel st t (XLoad idx o) = Some st' ->
  Good st' /\
  forall a b, a < at_cnt (fst st) -> b < at_cnt (fst st) ->
    mo_lt st a b = true -> mo_lt st' a b = true.
Proof.
  intros [s cs] t idx o st' [own [rk [HI [HL HC]]]] Hstep. cbn [fst snd] in *.
  unfold mstep in Hstep.
  destruct (Nat.ltb_spec t (length cs)) as [Ht|Ht]; cbn [negb] in Hstep; [|discriminate].
  set (c := vv_inc (clk cs t) t) in *.
  destruct (match_load_to_stores s t c None o) as [l|] eqn:Hm; [|discriminate].
  destruct (existsb (Nat.eqb idx) l) eqn:He; [|discriminate].
  apply existsb_eqb_In in He. apply (load_candidates_spec _ _ _ _ _ _ Hm idx) in He.
  destruct He as [_ [Hidx Hall]].
  unfold atomic_load_g in Hstep.
  destruct (track_load s c) as [s1x|px] eqn:Htlx; [|discriminate]. apply track_load_inl in Htlx. subst s1x. cbv zeta in Hstep.
  inversion Hstep as [Hst]. clear Hstep Hst.
  assert (Hcand : forall x, x < at_cnt (tl_state s c) -> x <> idx ->
            is_seen_by_current (st_seen (get_store (tl_state s c) x)) c = true ->
            vv_lt (mo (tl_state s c) idx) (mo (tl_state s c) x) = false).
  { intros x Hx Hne Hs.
    destruct (vv_lt (mo (tl_state s c) idx) (mo (tl_state s c) x)) eqn:Hlt; [|reflexivity].
    assert (H7 : x < MAX_ATOMIC_HISTORY) by (pose proof (i_cnt7 HI); change (at_cnt (tl_state s c)) with (at_cnt s) in Hx; lia).
    destruct (Hall x H7 Hx Hne Hlt) as [Hns _].
    change (get_store (tl_state s c) x) with (get_store s x) in Hs. rewrite Hs in Hns. discriminate. }
  destruct (@model_loadpart_good own rk (tl_state s c) cs t c idx (InvO_tl c HI) (LinkO_tl c HL) HC Hidx Hcand)
    as [HIM [[rk' [HLM _]] [HCM [[_ HG] _]]]].
  set (sM := loadpart_g RModel (tl_state s c) t c idx) in *.
  assert (HidxM : idx < at_cnt sM) by exact Hidx.
  destruct (acq_clock o HIM Ht HidxM) as [H1 [_ [H3 H4]]].
  pose proof (InvO_clock HIM Ht H1 H3 H4) as HIM'.
  split.
  - exists own, rk'. cbn [fst snd]. split; [exact HIM'|]. split; [exact HLM | exact HCM].
  - intros a b Ha Hb Hlt. cbn [fst].
    change (vv_lt (mo s a) (mo s b) = true) in Hlt. change (vv_lt (mo sM a) (mo sM b) = true).
    apply (lt_iff_K HI Ha Hb) in Hlt. destruct Hlt as [Hne HK].
    assert (HaM : a < at_cnt sM) by exact Ha. assert (HbM : b < at_cnt sM) by exact Hb.
    apply (lt_iff_K HIM HaM HbM). split; [exact Hne|]. apply (HG a b Ha Hb). exact HK.
Qed.

Theorem good_sync_step : forall st t u st',
  Good st -> mstep RModel st t (XSync u) = Some st' -> Good st' /\ fst st' = fst st.
Proof.
  intros [s cs] t u st' [own [rk [HI [HL HC]]]] Hstep. cbn [fst snd] in *.
  unfold mstep in Hstep.
  destruct (Nat.ltb_spec t (length cs)) as [Ht|Ht]; cbn [negb] in Hstep; [|discriminate].
  destruct (Nat.ltb_spec u (length cs)) as [Hu|Hu]; [|discriminate].
  inversion Hstep as [Hst]. clear Hstep Hst. cbn [fst snd]. split; [|reflexivity].
  exists own, rk. cbn [fst snd]. split; [|split; assumption].
  apply (InvO_clock HI Ht).
  - apply vle_join_l.
  - rewrite vv_join_length. pose proof (i_clen HI Ht). lia.
  - intros w Hw Hne. rewrite vv_get_join.
    pose proof (i_bclk HI Ht Hw). pose proof (i_bclk HI Hu Hw). lia.
Qed.

(* the start state is good *)
Theorem minit_good : forall n v0 st,
  1 <= n -> n <= MAX_THREADS -> minit n v0 = Some st -> Good st.
Proof.
  intros n v0 st H1 H5 Hm. destruct (@minit_inv n v0 st H1 H5 Hm) as [own HI].
  rewrite minit_eq in Hm. inversion Hm as [Hst]. subst st. cbn [fst snd] in *.
  assert (H0 : forall a, a < at_cnt (s_init v0) -> a = 0) by (intros a Ha; cbn in Ha; lia).
  assert (Hsrc : forall r sl sid, r < at_cnt (s_init v0) ->
            st_rmw_src (get_store (s_init v0) r) = Some (sl, sid) -> False).
  { intros r sl sid Hr Hs. rewrite (H0 r Hr) in Hs. discriminate. }
  exists own, (fun k => k). cbn [fst snd]. split; [exact HI|]. split.
  - constructor.
    + intros a Ha. rewrite (H0 a Ha). reflexivity.
    + intros r sl sid Hr Hs. exfalso. apply (Hsrc r sl sid Hr Hs).
    + intros r sl sid Hr Hs. exfalso. apply (Hsrc r sl sid Hr Hs).
    + intros a b _ _ H. exact H.
    + intros a b Ha Hb Hne. rewrite (H0 a Ha), (H0 b Hb) in Hne. lia.
    + intros r sl sid x Hr Hs. exfalso. apply (Hsrc r sl sid Hr Hs).
  - intros r sl sid x Hr Hs. exfalso. apply (Hsrc r sl sid Hr Hs).
Qed.

(* runs of loads and synchronisations from ANY good state (e.g. one that
   already contains RMW stores): good for ever, no edge is ever lost *)
Definition load_or_sync (op : aop) : Prop :=
  match op with XLoad _ _ | XSync _ => True | _ => False end.

Theorem good_run_loads : forall evs st st',
  Good st -> (forall e, In e evs -> load_or_sync (snd e)) ->
  mrun RModel st evs = Some st' ->
  Good st' /\ at_cnt (fst st') = at_cnt (fst st) /\
  forall a b, a < at_cnt (fst st) -> b < at_cnt (fst st) ->
    mo_lt st a b = true -> mo_lt st' a b = true.
Proof.
  induction evs as [|[t op] evs IH]; intros st st' HG Hall Hrun.
  - cbn [mrun] in Hrun. inversion Hrun. subst st'. split; [exact HG|]. split; [reflexivity|].
    intros a b _ _ H. exact H.
  - cbn [mrun] in Hrun. destruct (mstep RModel st t op) as [st1|] eqn:Hs; [|discriminate].
    assert (Hall' : forall e, In e evs -> load_or_sync (snd e)) by (intros e He; apply Hall; right; exact He).
    pose proof (Hall (t, op) (or_introl eq_refl)) as Hop. cbn [snd] in Hop.
    destruct op as [idx o|v o|idx f so fo|u]; try contradiction.
    + destruct (@good_load_step st t idx o st1 HG Hs) as [HG1 Hst].
      assert (Hc1 : at_cnt (fst st1) = at_cnt (fst st)).
      { destruct st as [s cs]. cbn [fst] in *. unfold mstep in Hs.
        destruct (negb (Nat.ltb t (length cs))); [discriminate|].
        destruct (match_load_to_stores s t (vv_inc (clk cs t) t) None o) as [l|]; [|discriminate].
        destruct (existsb (Nat.eqb idx) l); [|discriminate].
        unfold atomic_load_g in Hs. destruct (track_load s (vv_inc (clk cs t) t)) as [s1|p] eqn:Htl; [|discriminate].
        cbv zeta in Hs. inversion Hs. cbn [fst].
        unfold track_load in Htl. destruct (at_mutating s); [discriminate|].
        destruct (vv_ahead (vv_inc (clk cs t) t) (at_unsync_mut s)); [discriminate|].
        inversion Htl. reflexivity. }
      destruct (IH st1 st' HG1 Hall' Hrun) as [A [B C]].
      split; [exact A|]. split; [congruence|].
      intros a b Ha Hb Hlt. apply C; try (rewrite Hc1; assumption). apply (Hst a b Ha Hb Hlt).
    + destruct (@good_sync_step st t u st1 HG Hs) as [HG1 Hfst].
      destruct (IH st1 st' HG1 Hall' Hrun) as [A [B C]].
      split; [exact A|]. split; [rewrite B, Hfst; reflexivity|].
      intros a b Ha Hb Hlt. apply C; try (rewrite Hfst; assumption).
      unfold mo_lt, mo_of in *. rewrite Hfst. exact Hlt.
Qed.

(* ------------------------------------------------------------------ *)
(* 11. EVERY step of the model's machine: the full invariant             *)

Definition GoodO (own rk : nat -> nat) (s : atomic_state) (cs : list vv) : Prop :=
  InvO own s cs /\ LinkO own rk s /\ Closed own s /\ Sy own s.

Lemma seen_c'_below : forall own s sM cs t c idx o,
  InvO own sM cs -> Sy own sM -> idx < at_cnt sM ->
  LoadFacts own s sM t c idx -> at_cnt s <= MAX_ATOMIC_HISTORY ->
  forall x, x < at_cnt sM ->
    is_seen_by_current (st_seen (get_store sM x))
      (sync_load c (st_sync (get_store sM idx)) o) = true ->
    K own sM x idx.
Proof.
  intros own s sM cs t c idx o HIM HSyM Hidx [[Hc _] [F1 [_ [_ F4]]]] H7 x Hx H.
  assert (Hbyc : is_seen_by_current (st_seen (get_store sM x)) c = true -> K own sM x idx).
  { intros Hs. destruct (Nat.eq_dec x idx) as [e|ne]; [subst x; apply (i_hbmo HIM Hidx)|].
    rewrite Hc in Hx. apply (F4 x Hx ne). rewrite (F1 x ltac:(lia)) in Hs.
    destruct (Nat.eqb_spec x idx); [contradiction | exact Hs]. }
  unfold sync_load in H. destruct (ord_acq o); [|apply Hbyc; exact H].
  apply seen_join_or in H. destruct H as [H|H]; [apply Hbyc; exact H|].
  apply (HSyM x idx Hx Hidx H).
Qed.

(* ---- the store and RMW steps with an arbitrary released clock [rel]
   (Ops.v passes t_rel; mstep is the instance rel = vv_new) ---- *)
Definition store_stepR (st : mstate) (t : nat) (rel : vv) (v : N) (o : ord) : option mstate :=
  let '(s, cs) := st in
  if negb (Nat.ltb t (length cs)) then None else
  if Nat.leb MAX_ATOMIC_HISTORY (at_cnt s) then None else
  let c := vv_inc (clk cs t) t in
  if negb (vv_le rel c) then None else
  match track_store s c with
  | inl s1 => Some (atomic_store s1 t c rel vv_new v o, list_set cs t c)
  | inr _ => None
  end.

Definition rmw_stepR (st : mstate) (t : nat) (rel : vv) (idx : nat) (f : N -> option N)
           (so fo : ord) : option mstate :=
  let '(s, cs) := st in
  if negb (Nat.ltb t (length cs)) then None else
  if Nat.leb MAX_ATOMIC_HISTORY (at_cnt s) then None else
  let c := vv_inc (clk cs t) t in
  if negb (vv_le rel c) then None else
  match match_rmw_to_stores s with
  | Some l =>
      if existsb (Nat.eqb idx) l then
        match atomic_rmw s t c rel idx so fo f with
        | inl (s', c', _, _) => Some (s', list_set cs t c')
        | inr _ => None
        end
      else None
  | None => None
  end.

Lemma vv_le_new : forall c, vv_le vv_new c = true.
Proof. intros c. apply vv_le_spec. apply vle_new. Qed.

Lemma mstep_store_eq : forall st t v o,
  mstep RModel st t (XStore v o) = store_stepR st t vv_new v o.
Proof.
  intros [s cs] t v o. unfold mstep, store_stepR.
  destruct (negb (Nat.ltb t (length cs))); [reflexivity|].
  destruct (Nat.leb MAX_ATOMIC_HISTORY (at_cnt s)); [reflexivity|].
  cbv zeta. rewrite vv_le_new. reflexivity.
Qed.

Lemma mstep_rmw_eq : forall st t idx f so fo,
  mstep RModel st t (XRmw idx f so fo) = rmw_stepR st t vv_new idx f so fo.
Proof.
  intros [s cs] t idx f so fo. unfold mstep, rmw_stepR.
  destruct (negb (Nat.ltb t (length cs))); [reflexivity|].
  destruct (Nat.leb MAX_ATOMIC_HISTORY (at_cnt s)); [reflexivity|].
  cbv zeta. rewrite vv_le_new. rewrite atomic_rmw_g_model. reflexivity.
Qed.

Definition StepOut (own : nat -> nat) (s : atomic_state) (cs : list vv) (s' : atomic_state) (cs' : list vv) : Prop :=
  exists own' rk', GoodO own' rk' s' cs' /\ StampO s' cs' /\ ext own s own' s' /\
                   length cs' = length cs /\ forall u, vle (clk cs u) (clk cs' u).

Theorem store_stepR_goodO : forall own rk s cs t rel v o s' cs',
  GoodO own rk s cs -> StampO s cs -> store_stepR (s, cs) t rel v o = Some (s', cs') ->
  StepOut own s cs s' cs'.
Proof.
  intros own rk s cs t rel v o s' cs' [HI [HL [HC HSy]]] HS Hstep. unfold StepOut.
  unfold store_stepR in Hstep.
  destruct (Nat.ltb_spec t (length cs)) as [Ht|Ht]; cbn [negb] in Hstep; [|discriminate].
  pose proof (i_cnt7 HI) as H7.
    destruct (Nat.leb_spec MAX_ATOMIC_HISTORY (at_cnt s)) as [Hfull|Hroom]; [discriminate|].
    set (c := vv_inc (clk cs t) t) in *.
    destruct (vv_le rel c) eqn:Hrelb; cbn [negb] in Hstep; [|discriminate].
    assert (Hrel : vle rel c) by (apply vv_le_spec; exact Hrelb).
    destruct (track_store s c) as [s1y|py] eqn:Htsy; [|discriminate]. apply track_store_inl in Htsy. subst s1y.
    inversion Hstep as [[Hs' Hcs']]. clear Hstep. subst s' cs'. unfold atomic_store.
    assert (HIn : InvO (fun k => if Nat.eqb k (at_cnt (ts_state s c)) then t else own k)
                    (atomic_store_from (ts_state s c) t c rel vv_new v o None) (list_set cs t c)).
    { apply (@store_phase_inv own (ts_state s c) cs t c vv_new v o None rel (InvO_ts c HI) Ht Hroom
               (sf_le cs t) (sf_fr HI Ht) (sf_len HI Ht) (sf_oth HI Ht)); [|exact Hrel].
      intros u Hu. rewrite vv_new_get. lia. }
    destruct (@plain_store_good own rk (ts_state s c) cs t c rel v o (InvO_ts c HI) (LinkO_ts c HL) HC HSy
                Ht Hroom (sf_fr HI Ht) (sf_len HI Ht) Hrel) as [[rk' HLn] [HCn HSyn]].
    eexists. exists rk'. split; [split; [exact HIn | split; [exact HLn | split; [exact HCn | exact HSyn]]]|].
    split.
    { apply (@stamp_store own (ts_state s c) cs cs _ t c rel vv_new v o None (InvO_ts c HI) Hroom (stamp_ts c HS)
               (@clk_set_grow cs t _ Ht (sf_le cs t))).
      rewrite (clk_set cs t _ t Ht), Nat.eqb_refl. apply le_n. }
    split; [apply (@store_phase_ext own (ts_state s c) cs t c rel vv_new v o None (InvO_ts c HI) Hroom)|].
    split; [apply list_set_length | apply (@clk_set_grow cs t _ Ht (sf_le cs t))].
Qed.

Theorem rmw_stepR_goodO : forall own rk s cs t rel idx f so fo s' cs',
  GoodO own rk s cs -> StampO s cs -> rmw_stepR (s, cs) t rel idx f so fo = Some (s', cs') ->
  StepOut own s cs s' cs'.
Proof.
  intros own rk s cs t rel idx f so fo s' cs' [HI [HL [HC HSy]]] HS Hstep. unfold StepOut.
  unfold rmw_stepR in Hstep.
  destruct (Nat.ltb_spec t (length cs)) as [Ht|Ht]; cbn [negb] in Hstep; [|discriminate].
  pose proof (i_cnt7 HI) as H7.
    destruct (Nat.leb_spec MAX_ATOMIC_HISTORY (at_cnt s)) as [Hfull|Hroom]; [discriminate|].
    set (c := vv_inc (clk cs t) t) in *.
    destruct (vv_le rel c) eqn:Hrelb; cbn [negb] in Hstep; [|discriminate].
    assert (Hrel : vle rel c) by (apply vv_le_spec; exact Hrelb).
    destruct (match_rmw_to_stores s) as [l|] eqn:Hm; [|discriminate].
    destruct (existsb (Nat.eqb idx) l) eqn:He; [|discriminate].
    apply existsb_eqb_In in He. apply (rmw_candidates_spec _ _ Hm idx) in He.
    destruct He as [_ [Hidx Hall]].
    rewrite <- atomic_rmw_g_model in Hstep. unfold atomic_rmw_g in Hstep.
    destruct (track_load s c) as [s1x|px] eqn:Htlx; [|discriminate]. apply track_load_inl in Htlx. subst s1x. cbv zeta in Hstep.
    assert (Hcand : forall x, x < at_cnt (tl_state s c) -> x <> idx ->
              is_seen_by_current (st_seen (get_store (tl_state s c) x)) c = true ->
              vv_lt (mo (tl_state s c) idx) (mo (tl_state s c) x) = false).
    { intros x Hx Hne _.
      assert (Hx7 : x < MAX_ATOMIC_HISTORY) by (change (at_cnt (tl_state s c)) with (at_cnt s) in Hx; lia).
      apply (Hall x Hx7 Hx Hne). }
    assert (Hmax0 : forall x, x < at_cnt (tl_state s c) -> x <> idx -> ~ K own (tl_state s c) idx x).
    { intros x Hx Hne HK. change (at_cnt (tl_state s c)) with (at_cnt s) in Hx.
      assert (Hlt : vv_lt (mo s idx) (mo s x) = true) by (apply (lt_iff_K HI Hidx Hx); split; [lia | exact HK]).
      unfold mo in Hlt. rewrite (Hall x ltac:(lia) Hx Hne) in Hlt. discriminate. }
    destruct (@model_loadpart_good own rk (tl_state s c) cs t c idx (InvO_tl c HI) (LinkO_tl c HL) HC Hidx Hcand)
      as [HIM [[rk' [HLM Hlast]] [HCM HLF]]].
    specialize (Hlast Hmax0).
    set (sM := loadpart_g RModel (tl_state s c) t c idx) in *.
    assert (HidxM : idx < at_cnt sM) by exact Hidx.
    pose proof (@Sy_load own (tl_state s c) sM cs t c idx (InvO_tl c HI) HSy Ht (sf_fr HI Ht) HLF) as HSyM.
    pose proof (@ext_load_model own (tl_state s c) sM cs t c idx (InvO_tl c HI) HLF) as HextM.
    destruct (f (st_value (get_store sM idx))) as [next|].
    + destruct (track_store sM c) as [s1y|py] eqn:Htsy; [|discriminate]. apply track_store_inl in Htsy. subst s1y.
      inversion Hstep as [[Hs' Hcs']]. clear Hstep. subst s' cs'.
      destruct (acq_clock so HIM Ht HidxM) as [H1 [H2 [H3 H4]]].
      set (c' := sync_load c (st_sync (get_store sM idx)) so) in *.
      assert (HmaxM : forall x, x < at_cnt (ts_state sM c) -> x <> idx -> ~ K own (ts_state sM c) idx x).
      { intros x Hx Hne HK. change (at_cnt (ts_state sM c)) with (at_cnt s) in Hx.
        assert (HxM : x < at_cnt sM) by exact Hx.
        pose proof (ln_ext HLM HidxM HxM (fun e => Hne (eq_sym e)) HK) as Hlt.
        pose proof (Hlast x Hx). lia. }
      assert (HseenB : forall x, x < at_cnt (ts_state sM c) ->
                is_seen_by_current (st_seen (get_store (ts_state sM c) x)) c' = true ->
                K own (ts_state sM c) x idx).
      { intros x Hx Hs. apply (@seen_c'_below own (tl_state s c) sM cs t c idx so HIM HSyM HidxM HLF H7 x Hx Hs). }
      assert (Hidxseen : is_seen_by_current (st_seen (get_store (ts_state sM c) idx)) c' = true).
      { change (get_store (ts_state sM c) idx) with (get_store sM idx).
        destruct HLF as [_ [F1 _]]. rewrite (F1 idx ltac:(lia)), Nat.eqb_refl.
        change (get_store (tl_state s c) idx) with (get_store s idx).
        destruct HS as [Hb Hl].
        assert (Htl : t < length (st_seen (get_store s idx))).
        { rewrite (Hl idx Hidx). pose proof (i_nthr HI). lia. }
        destruct (@seen_touch_hit (st_seen (get_store s idx)) t (vv_get c t) Htl) as [x [Hn Hx]].
        eapply (@is_seen_by_current_hit _ t); [exact Hn|].
        eapply Nat.le_trans; [|apply (sync_load_ge c (st_sync (get_store sM idx)) so t)].
        destruct Hx as [Hx|Hx]; [subst x; apply le_n|].
        pose proof (Hb idx t x Hidx Hx) as Hw. pose proof (sf_fr HI Ht) as Hf. fold c in Hf. lia. }
      assert (Hrel' : vle rel c') by (eapply vle_trans; [exact Hrel | apply sync_load_ge]).
      assert (HIn : InvO (fun k => if Nat.eqb k (at_cnt (ts_state sM c)) then t else own k)
                      (atomic_store_from (ts_state sM c) t c' rel (st_sync (get_store (ts_state sM c) idx)) next so
                         (Some (idx, st_id (get_store (ts_state sM c) idx)))) (list_set cs t c')).
      { apply (@store_phase_inv own (ts_state sM c) cs t _ _ next so _ rel (InvO_ts c HIM) Ht Hroom H1 H2 H3 H4); [|exact Hrel'].
        intros u Hu. change (get_store (ts_state sM c) idx) with (get_store sM idx).
        pose proof (i_bsync HIM HidxM Hu) as Hb.
        rewrite (clk_set cs t _ u Ht). destruct (Nat.eqb_spec u t) as [Heq|_]; [|exact Hb].
        subst u. eapply Nat.le_trans; [exact Hb|]. apply Nat.lt_le_incl. exact H2. }
      destruct (@rmw_store_good own rk' (ts_state sM c) cs t c' rel next so idx (InvO_ts c HIM) (LinkO_ts c HLM) HCM HSyM
                  Ht Hroom H2 H3 Hrel' HidxM HmaxM HseenB Hidxseen) as [[rk'' HLn] [HCn HSyn]].
      eexists. exists rk''. split; [split; [exact HIn | split; [exact HLn | split; [exact HCn | exact HSyn]]]|].
      split.
      { assert (HS3 : StampO sM (list_set cs t c')).
        { apply (@stamp_load_model own (tl_state s c) sM cs cs _ t c idx (InvO_tl c HI) (stamp_tl c HS) HLF
                   (@clk_set_grow cs t _ Ht H1)).
          rewrite (clk_set cs t _ t Ht), Nat.eqb_refl. apply (sync_load_ge c _ so t). }
        apply (@stamp_store own (ts_state sM c) cs _ _ t _ rel _ next so _ (InvO_ts c HIM) Hroom (stamp_ts c HS3) (fun u0 => vle_refl _)).
        rewrite (clk_set cs t _ t Ht), Nat.eqb_refl. apply le_n. }
      split.
      { eapply ext_trans; [exact HextM|].
        apply (@store_phase_ext own (ts_state sM c) cs t _ rel _ next so _ (InvO_ts c HIM) Hroom). }
      split; [apply list_set_length | apply (@clk_set_grow cs t _ Ht H1)].
    + inversion Hstep as [[Hs' Hcs']]. clear Hstep. subst s' cs'.
      destruct (acq_clock fo HIM Ht HidxM) as [H1 [_ [H3 H4]]].
      exists own, rk'. split; [split; [apply (InvO_clock HIM Ht H1 H3 H4) | split; [exact HLM | split; [exact HCM | exact HSyM]]]|].
      split.
      { apply (@stamp_load_model own (tl_state s c) sM cs cs _ t c idx (InvO_tl c HI) (stamp_tl c HS) HLF
                 (@clk_set_grow cs t _ Ht H1)).
        rewrite (clk_set cs t _ t Ht), Nat.eqb_refl. apply (sync_load_ge c _ fo t). }
      split; [exact HextM|].
      split; [apply list_set_length | apply (@clk_set_grow cs t _ Ht H1)].
Qed.

Theorem mstep_goodO : forall own rk s cs t op s' cs',
  GoodO own rk s cs -> StampO s cs -> mstep RModel (s, cs) t op = Some (s', cs') ->
  exists own' rk', GoodO own' rk' s' cs' /\ StampO s' cs' /\ ext own s own' s' /\
                   length cs' = length cs /\ forall u, vle (clk cs u) (clk cs' u).
Proof.
  intros own rk s cs t op s' cs' [HI [HL [HC HSy]]] HS Hstep.
  unfold mstep in Hstep.
  destruct (Nat.ltb_spec t (length cs)) as [Ht|Ht]; cbn [negb] in Hstep; [|discriminate].
  pose proof (i_cnt7 HI) as H7.
  destruct op as [idx o|v o|idx f so fo|u].
  - (* load *)
    set (c := vv_inc (clk cs t) t) in *.
    destruct (match_load_to_stores s t c None o) as [l|] eqn:Hm; [|discriminate].
    destruct (existsb (Nat.eqb idx) l) eqn:He; [|discriminate].
    apply existsb_eqb_In in He. apply (load_candidates_spec _ _ _ _ _ _ Hm idx) in He.
    destruct He as [_ [Hidx Hall]].
    unfold atomic_load_g in Hstep.
    destruct (track_load s c) as [s1x|px] eqn:Htlx; [|discriminate]. apply track_load_inl in Htlx. subst s1x. cbv zeta in Hstep.
    inversion Hstep as [[Hs' Hcs']]. clear Hstep. subst s' cs'.
    assert (Hcand : forall x, x < at_cnt (tl_state s c) -> x <> idx ->
              is_seen_by_current (st_seen (get_store (tl_state s c) x)) c = true ->
              vv_lt (mo (tl_state s c) idx) (mo (tl_state s c) x) = false).
    { intros x Hx Hne Hs.
      destruct (vv_lt (mo (tl_state s c) idx) (mo (tl_state s c) x)) eqn:Hlt; [|reflexivity].
      assert (Hx7 : x < MAX_ATOMIC_HISTORY) by (change (at_cnt (tl_state s c)) with (at_cnt s) in Hx; lia).
      destruct (Hall x Hx7 Hx Hne Hlt) as [Hns _].
      change (get_store (tl_state s c) x) with (get_store s x) in Hs. rewrite Hs in Hns. discriminate. }
    destruct (@model_loadpart_good own rk (tl_state s c) cs t c idx (InvO_tl c HI) (LinkO_tl c HL) HC Hidx Hcand)
      as [HIM [[rk' [HLM _]] [HCM HLF]]].
    set (sM := loadpart_g RModel (tl_state s c) t c idx) in *.
    assert (HidxM : idx < at_cnt sM) by exact Hidx.
    pose proof (@Sy_load own (tl_state s c) sM cs t c idx (InvO_tl c HI) HSy Ht (sf_fr HI Ht) HLF) as HSyM.
    destruct (acq_clock o HIM Ht HidxM) as [H1 [_ [H3 H4]]].
    exists own, rk'. split; [split; [apply (InvO_clock HIM Ht H1 H3 H4) | split; [exact HLM | split; [exact HCM | exact HSyM]]]|].
    split.
    { apply (@stamp_load_model own (tl_state s c) sM cs cs _ t c idx (InvO_tl c HI) (stamp_tl c HS) HLF
               (@clk_set_grow cs t _ Ht H1)).
      rewrite (clk_set cs t _ t Ht), Nat.eqb_refl. apply (sync_load_ge c _ o t). }
    split; [apply (@ext_load_model own (tl_state s c) sM cs t c idx (InvO_tl c HI) HLF)|].
    split; [apply list_set_length | apply (@clk_set_grow cs t _ Ht H1)].
  - (* store *)
    rewrite <- (Nat.ltb_lt t (length cs)) in Ht.
    assert (Hs : mstep RModel (s, cs) t (XStore v o) = Some (s', cs')).
    { unfold mstep. rewrite Ht. cbn [negb]. exact Hstep. }
    rewrite mstep_store_eq in Hs.
    apply (@store_stepR_goodO own rk s cs t vv_new v o s' cs' (conj HI (conj HL (conj HC HSy))) HS Hs).
  - (* rmw *)
    rewrite <- (Nat.ltb_lt t (length cs)) in Ht.
    assert (Hs : mstep RModel (s, cs) t (XRmw idx f so fo) = Some (s', cs')).
    { unfold mstep. rewrite Ht. cbn [negb]. exact Hstep. }
    rewrite mstep_rmw_eq in Hs.
    apply (@rmw_stepR_goodO own rk s cs t vv_new idx f so fo s' cs' (conj HI (conj HL (conj HC HSy))) HS Hs).
  - (* sync *)
    destruct (Nat.ltb_spec u (length cs)) as [Hu|Hu]; [|discriminate].
    inversion Hstep as [[Hs' Hcs']]. clear Hstep. subst s' cs'.
    exists own, rk. split.
    { split; [|split; [exact HL | split; [exact HC | exact HSy]]].
      apply (InvO_clock HI Ht).
      + apply vle_join_l.
      + rewrite vv_join_length. pose proof (i_clen HI Ht). lia.
      + intros w Hw Hne. rewrite vv_get_join.
        pose proof (i_bclk HI Ht Hw). pose proof (i_bclk HI Hu Hw). lia. }
    split; [apply (@stamp_clock s cs _ HS (@clk_set_grow cs t _ Ht (vle_join_l _ _)))|].
    split; [apply ext_refl|].
    split; [apply list_set_length | apply (@clk_set_grow cs t _ Ht (vle_join_l _ _))].
Qed.

(* ------------------------------------------------------------------ *)
(* 12. ALL runs of the model's machine (mstep RModel)                     *)

Definition GoodS (st : mstate) : Prop :=
  (exists own rk, GoodO own rk (fst st) (snd st)) /\ StampO (fst st) (snd st).

Lemma GoodS_Inv : forall st, GoodS st -> Inv st.
Proof. intros st [[own [rk [HI _]]] _]. exists own. exact HI. Qed.
Lemma GoodS_Good : forall st, GoodS st -> Good st.
Proof. intros st [[own [rk [HI [HL [HC _]]]]] _]. exists own, rk. split; [exact HI | split; assumption]. Qed.

Theorem mstep_goodS : forall st t op st', GoodS st -> mstep RModel st t op = Some st' -> GoodS st'.
Proof.
  intros [s cs] t op [s' cs'] [[own [rk HG]] HS] Hstep. cbn [fst snd] in *.
  destruct (@mstep_goodO own rk s cs t op s' cs' HG HS Hstep) as [own' [rk' [HG' [HS' _]]]].
  split; [exists own', rk'; exact HG' | exact HS'].
Qed.

Theorem mrun_goodS : forall evs st st', GoodS st -> mrun RModel st evs = Some st' -> GoodS st'.
Proof.
  induction evs as [|[t op] evs IH]; intros st st' HG Hrun.
  - cbn [mrun] in Hrun. inversion Hrun. subst st'. exact HG.
  - cbn [mrun] in Hrun. destruct (mstep RModel st t op) as [st1|] eqn:Hs; [|discriminate].
    apply (IH st1 st' (@mstep_goodS st t op st1 HG Hs) Hrun).
Qed.

Theorem minit_goodS : forall n v0 st,
  1 <= n -> n <= MAX_THREADS -> minit n v0 = Some st -> GoodS st.
Proof.
  intros n v0 st H1 H5 Hm.
  destruct (@minit_good n v0 st H1 H5 Hm) as [own [rk [HI [HL HC]]]].
  destruct (@minit_inv2 n v0 st H1 H5 Hm) as [_ HS].
  split; [|exact HS]. exists own, rk. split; [exact HI|]. split; [exact HL|]. split; [exact HC|].
  rewrite minit_eq in Hm. inversion Hm as [Hst]. subst st. cbn [fst snd] in *.
  intros a b Ha Hb _. cbn in Ha, Hb. assert (a = 0) by lia. assert (b = 0) by lia. subst a b.
  apply (i_hbmo HI). cbn. lia.
Qed.

(* reachable states of the model's machine, ANY operations *)
Definition reach_model (st : mstate) : Prop :=
  exists n v0 st0 evs, 1 <= n /\ n <= MAX_THREADS /\ minit n v0 = Some st0 /\
                       mrun RModel st0 evs = Some st.

Theorem reach_model_good : forall st, reach_model st -> GoodS st.
Proof.
  intros st [n [v0 [st0 [evs [H1 [H5 [Hi Hr]]]]]]].
  apply (@mrun_goodS evs st0 st (@minit_goodS n v0 st0 H1 H5 Hi) Hr).
Qed.

(* mrun_inv2 for the model *)
Theorem mrun_inv2_model : forall st, reach_model st -> Inv2 st.
Proof.
  intros st Hr. pose proof (reach_model_good Hr) as HG.
  split; [apply GoodS_Inv; exact HG | apply HG].
Qed.

(* RMW atomicity in every reachable state *)
Theorem rmw_atomicity_stable : forall st r sl sid,
  reach_model st -> r < at_cnt (fst st) ->
  st_rmw_src (get_store (fst st) r) = Some (sl, sid) ->
  sl < at_cnt (fst st) /\ vv_lt (mo (fst st) sl) (mo (fst st) r) = true /\
  forall x, x < at_cnt (fst st) ->
    vv_lt (mo (fst st) sl) (mo (fst st) x) && vv_lt (mo (fst st) x) (mo (fst st) r) = false.
Proof.
  intros st r sl sid Hr. apply Good_atomicity. apply GoodS_Good. apply reach_model_good. exact Hr.
Qed.

Theorem mlts_never_none_model : forall st, reach_model st ->
  (forall t c ly o, match_load_to_stores (fst st) t c ly o <> None) /\
  match_rmw_to_stores (fst st) <> None.
Proof. intros st Hr. apply Good_never_none. apply GoodS_Good. apply reach_model_good. exact Hr. Qed.

(* ---- the order and the knowledge only grow ---- *)
Theorem step_stable_model : forall st t op st' a b,
  GoodS st -> mstep RModel st t op = Some st' ->
  lives st a -> lives st b -> mo_lt st a b = true ->
  lives st' a /\ lives st' b /\ mo_lt st' a b = true.
Proof.
  intros [s cs] t op [s' cs'] a b [[own [rk HG]] HS] Hstep Ha Hb Hlt.
  unfold lives in *. cbn [fst snd] in *.
  destruct (@mstep_goodO own rk s cs t op s' cs' HG HS Hstep) as [own' [rk' [[HI' _] [_ [[Hc Hx] _]]]]].
  destruct HG as [HI _].
  assert (Ha' : a < at_cnt s') by lia. assert (Hb' : b < at_cnt s') by lia.
  split; [exact Ha'|]. split; [exact Hb'|].
  change (vv_lt (mo s a) (mo s b) = true) in Hlt. change (vv_lt (mo s' a) (mo s' b) = true).
  apply (lt_iff_K HI Ha Hb) in Hlt. destruct Hlt as [Hne HK].
  apply (lt_iff_K HI' Ha' Hb'). split; [exact Hne|].
  destruct (Hx a Ha) as [Ho [Hh _]]. destruct (Hx b Hb) as [_ [_ [Hg _]]].
  unfold K in *. rewrite Ho, Hh. specialize (Hg (own a)). lia.
Qed.

Theorem step_knows_model : forall st t op st' u i,
  GoodS st -> mstep RModel st t op = Some st' ->
  lives st i -> knows st u i -> lives st' i /\ knows st' u i.
Proof.
  intros [s cs] t op [s' cs'] u i [[own [rk HG]] HS] Hstep Hi Hk.
  unfold lives, knows in *. cbn [fst snd] in *.
  destruct (@mstep_goodO own rk s cs t op s' cs' HG HS Hstep) as [own' [rk' [_ [_ [[Hc Hx] [_ Hg]]]]]].
  split; [lia|]. destruct (Hx i Hi) as [_ [_ [_ Hs]]].
  apply (seen_clock_mono _ _ _ (Hg u)). apply Hs. exact Hk.
Qed.

Theorem run_stable_model : forall evs st st' a b,
  GoodS st -> mrun RModel st evs = Some st' ->
  lives st a -> lives st b -> mo_lt st a b = true ->
  lives st' a /\ lives st' b /\ mo_lt st' a b = true.
Proof.
  induction evs as [|[t op] evs IH]; intros st st' a b HG Hrun Ha Hb Hlt.
  - cbn [mrun] in Hrun. inversion Hrun. subst st'. repeat split; assumption.
  - cbn [mrun] in Hrun. destruct (mstep RModel st t op) as [st1|] eqn:Hs; [|discriminate].
    destruct (@step_stable_model st t op st1 a b HG Hs Ha Hb Hlt) as [Ha1 [Hb1 Hlt1]].
    apply (IH st1 st' a b (@mstep_goodS st t op st1 HG Hs) Hrun Ha1 Hb1 Hlt1).
Qed.

Theorem run_knows_model : forall evs st st' u i,
  GoodS st -> mrun RModel st evs = Some st' ->
  lives st i -> knows st u i -> lives st' i /\ knows st' u i.
Proof.
  induction evs as [|[t op] evs IH]; intros st st' u i HG Hrun Hi Hk.
  - cbn [mrun] in Hrun. inversion Hrun. subst st'. split; assumption.
  - cbn [mrun] in Hrun. destruct (mstep RModel st t op) as [st1|] eqn:Hs; [|discriminate].
    destruct (@step_knows_model st t op st1 u i HG Hs Hi Hk) as [Hi1 Hk1].
    apply (IH st1 st' u i (@mstep_goodS st t op st1 HG Hs) Hrun Hi1 Hk1).
Qed.

(* ---- CoRR / CoWR (happens-before version) for the model ---- *)
Theorem CoRR_CoWR_model : forall st1 evs st2 t i j o,
  GoodS st1 -> lives st1 i -> lives st1 j -> knows st1 t j -> mo_lt st1 i j = true ->
  mrun RModel st1 evs = Some st2 ->
  mstep RModel st2 t (XLoad i o) = None.
Proof.
  intros st1 evs st2 t i j o HG Hi Hj Hk Hlt Hrun.
  destruct (@run_stable_model evs st1 st2 i j HG Hrun Hi Hj Hlt) as [Hi2 [Hj2 Hlt2]].
  destruct (@run_knows_model evs st1 st2 t j HG Hrun Hj Hk) as [_ Hk2].
  pose proof (GoodS_Inv (@mrun_goodS evs st1 st2 HG Hrun)) as [own HI2].
  destruct st2 as [s cs]. unfold lives, knows, mo_lt, mo_of in *. cbn [fst snd] in *.
  unfold mstep. destruct (negb (Nat.ltb t (length cs))); [reflexivity|].
  destruct (match_load_to_stores s t (vv_inc (clk cs t) t) None o) as [l|] eqn:Hm; [|reflexivity].
  destruct (existsb (Nat.eqb i) l) eqn:He; [|reflexivity].
  exfalso. apply existsb_eqb_In in He.
  assert (Hj7 : j < MAX_ATOMIC_HISTORY) by (pose proof (i_cnt7 HI2); lia).
  apply (coherence_write_read _ _ _ _ _ _ _ _ Hm Hj7 Hj2 Hlt2); [|exact He].
  apply (seen_clock_mono _ _ _ (vle_inc (clk cs t) t) Hk2).
Qed.

Theorem CoRR_CoWR_rmw_model : forall st1 evs st2 t i j f so fo,
  GoodS st1 -> lives st1 i -> lives st1 j -> mo_lt st1 i j = true ->
  mrun RModel st1 evs = Some st2 ->
  mstep RModel st2 t (XRmw i f so fo) = None.
Proof.
  intros st1 evs st2 t i j f so fo HG Hi Hj Hlt Hrun.
  destruct (@run_stable_model evs st1 st2 i j HG Hrun Hi Hj Hlt) as [Hi2 [Hj2 Hlt2]].
  pose proof (GoodS_Inv (@mrun_goodS evs st1 st2 HG Hrun)) as [own HI2].
  destruct st2 as [s cs]. unfold lives, mo_lt, mo_of in *. cbn [fst snd] in *.
  unfold mstep. destruct (negb (Nat.ltb t (length cs))); [reflexivity|].
  destruct (Nat.leb MAX_ATOMIC_HISTORY (at_cnt s)); [reflexivity|].
  destruct (match_rmw_to_stores s) as [l|] eqn:Hm; [|reflexivity].
  destruct (existsb (Nat.eqb i) l) eqn:He; [|reflexivity].
  exfalso. apply existsb_eqb_In in He. apply (rmw_candidates_spec _ _ Hm i) in He.
  destruct He as [_ [_ Hall]].
  assert (Hj7 : j < MAX_ATOMIC_HISTORY) by (pose proof (i_cnt7 HI2); lia).
  assert (Hne : j <> i) by (intros Heq; subst j; rewrite vv_lt_irrefl in Hlt2; discriminate).
  rewrite (Hall j Hj7 Hj2 Hne) in Hlt2. discriminate.
Qed.

(* ---- CoWW / CoRW for the model: XStore and XSync do not depend on the
   load-coherence rule, so the AtomicCoRR theorems apply verbatim ---- *)
Theorem CoWW_CoRW_model : forall st t v o st' i,
  GoodS st -> lives st i -> knows st t i ->
  mstep RModel st t (XStore v o) = Some st' ->
  lives st' (at_cnt (fst st)) /\ mo_lt st' i (at_cnt (fst st)) = true.
Proof.
  intros st t v o st' i HG Hi Hk Hs.
  apply (@CoWW_CoRW_c0421c4 st t v o st' i (GoodS_Inv HG) Hi Hk). exact Hs.
Qed.

Theorem store_knows_model : forall st t v o st',
  GoodS st -> mstep RModel st t (XStore v o) = Some st' ->
  lives st' (at_cnt (fst st)) /\ knows st' t (at_cnt (fst st)).
Proof.
  intros st t v o st' HG Hs. apply (@store_knows_c0421c4 st t v o st' (GoodS_Inv HG)). exact Hs.
Qed.

Theorem sync_knows_model : forall st t u st' i,
  mstep RModel st t (XSync u) = Some st' -> knows st u i -> knows st' t i.
Proof. intros st t u st' i Hs Hk. apply (@sync_knows_c0421c4 st t u st' i); [exact Hs | exact Hk]. Qed.

Theorem load_knows_model : forall st t i o st',
  GoodS st -> mstep RModel st t (XLoad i o) = Some st' -> lives st' i /\ knows st' t i.
Proof.
  intros [s cs] t i o st' [[own [rk [HI [HL [HC HSy]]]]] HS] Hstep. unfold lives, knows. cbn [fst snd] in *.
  unfold mstep in Hstep.
  destruct (Nat.ltb_spec t (length cs)) as [Ht|Ht]; cbn [negb] in Hstep; [|discriminate].
  set (c := vv_inc (clk cs t) t) in *.
  destruct (match_load_to_stores s t c None o) as [l|] eqn:Hm; [|discriminate].
  destruct (existsb (Nat.eqb i) l) eqn:He; [|discriminate].
  apply existsb_eqb_In in He. apply (load_candidates_spec _ _ _ _ _ _ Hm i) in He.
  destruct He as [H7 [Hidx Hall]].
  unfold atomic_load_g in Hstep.
  destruct (track_load s c) as [s1x|px] eqn:Htlx; [|discriminate]. apply track_load_inl in Htlx. subst s1x. cbv zeta in Hstep.
  inversion Hstep as [Hst]. clear Hstep Hst. cbn [fst snd].
  split; [exact Hidx|].
  assert (Hcand : forall x, x < at_cnt (tl_state s c) -> x <> i ->
            is_seen_by_current (st_seen (get_store (tl_state s c) x)) c = true ->
            vv_lt (mo (tl_state s c) i) (mo (tl_state s c) x) = false).
  { intros x Hx Hne Hs.
    destruct (vv_lt (mo (tl_state s c) i) (mo (tl_state s c) x)) eqn:Hlt; [|reflexivity].
    assert (Hx7 : x < MAX_ATOMIC_HISTORY) by (pose proof (i_cnt7 HI); change (at_cnt (tl_state s c)) with (at_cnt s) in Hx; lia).
    destruct (Hall x Hx7 Hx Hne Hlt) as [Hns _].
    change (get_store (tl_state s c) x) with (get_store s x) in Hs. rewrite Hs in Hns. discriminate. }
  destruct (@model_loadpart_good own rk (tl_state s c) cs t c i (InvO_tl c HI) (LinkO_tl c HL) HC Hidx Hcand)
    as [_ [_ [_ [_ [F1 _]]]]].
  rewrite (F1 i H7), Nat.eqb_refl.
  change (get_store (tl_state s c) i) with (get_store s i).
  destruct HS as [Hb Hl].
  assert (Htl : t < length (st_seen (get_store s i))).
  { rewrite (Hl i Hidx). pose proof (i_nthr HI). lia. }
  destruct (@seen_touch_hit (st_seen (get_store s i)) t (vv_get c t) Htl) as [x [Hn Hx]].
  eapply (@is_seen_by_current_hit _ t); [exact Hn|].
  rewrite (clk_set cs t _ t Ht), Nat.eqb_refl.
  eapply Nat.le_trans; [|apply (sync_load_ge c _ o t)].
  destruct Hx as [Hx|Hx]; [subst x; apply le_n|].
  pose proof (Hb i t x Hidx Hx) as Hw. pose proof (sf_fr HI Ht) as Hf. fold c in Hf. lia.
Qed.

(* ---- one thread's own accesses, arbitrary steps of arbitrary threads in
   between, no [knows] hypothesis ---- *)
Theorem CoRR_same_thread_model : forall st0 t j o st1 evs st2 i o',
  GoodS st0 -> mstep RModel st0 t (XLoad j o) = Some st1 ->
  lives st1 i -> mo_lt st1 i j = true ->
  mrun RModel st1 evs = Some st2 ->
  mstep RModel st2 t (XLoad i o') = None.
Proof.
  intros st0 t j o st1 evs st2 i o' HG Hs Hi Hlt Hrun.
  destruct (@load_knows_model st0 t j o st1 HG Hs) as [Hj Hk].
  apply (@CoRR_CoWR_model st1 evs st2 t i j o' (@mstep_goodS st0 t (XLoad j o) st1 HG Hs) Hi Hj Hk Hlt Hrun).
Qed.

Theorem CoWR_same_thread_model : forall st0 t v o st1 evs st2 i o',
  GoodS st0 -> mstep RModel st0 t (XStore v o) = Some st1 ->
  lives st1 i -> mo_lt st1 i (at_cnt (fst st0)) = true ->
  mrun RModel st1 evs = Some st2 ->
  mstep RModel st2 t (XLoad i o') = None.
Proof.
  intros st0 t v o st1 evs st2 i o' HG Hs Hi Hlt Hrun.
  destruct (@store_knows_model st0 t v o st1 HG Hs) as [Hj Hk].
  apply (@CoRR_CoWR_model st1 evs st2 t i (at_cnt (fst st0)) o'
           (@mstep_goodS st0 t (XStore v o) st1 HG Hs) Hi Hj Hk Hlt Hrun).
Qed.

Theorem CoRW_same_thread_model : forall st0 t j o st1 evs st2 v o' st3,
  GoodS st0 -> mstep RModel st0 t (XLoad j o) = Some st1 ->
  mrun RModel st1 evs = Some st2 ->
  mstep RModel st2 t (XStore v o') = Some st3 ->
  mo_lt st3 j (at_cnt (fst st2)) = true.
Proof.
  intros st0 t j o st1 evs st2 v o' st3 HG Hs Hrun Hs3.
  destruct (@load_knows_model st0 t j o st1 HG Hs) as [Hj Hk].
  pose proof (@mstep_goodS st0 t (XLoad j o) st1 HG Hs) as HG1.
  destruct (@run_knows_model evs st1 st2 t j HG1 Hrun Hj Hk) as [Hj2 Hk2].
  apply (@CoWW_CoRW_model st2 t v o' st3 j (@mrun_goodS evs st1 st2 HG1 Hrun) Hj2 Hk2 Hs3).
Qed.

Theorem CoWW_same_thread_model : forall st0 t v o st1 evs st2 v' o' st3,
  GoodS st0 -> mstep RModel st0 t (XStore v o) = Some st1 ->
  mrun RModel st1 evs = Some st2 ->
  mstep RModel st2 t (XStore v' o') = Some st3 ->
  mo_lt st3 (at_cnt (fst st0)) (at_cnt (fst st2)) = true.
Proof.
  intros st0 t v o st1 evs st2 v' o' st3 HG Hs Hrun Hs3.
  destruct (@store_knows_model st0 t v o st1 HG Hs) as [Hj Hk].
  pose proof (@mstep_goodS st0 t (XStore v o) st1 HG Hs) as HG1.
  destruct (@run_knows_model evs st1 st2 t (at_cnt (fst st0)) HG1 Hrun Hj Hk) as [Hj2 Hk2].
  apply (@CoWW_CoRW_model st2 t v' o' st3 (at_cnt (fst st0)) (@mrun_goodS evs st1 st2 HG1 Hrun) Hj2 Hk2 Hs3).
Qed.

(* non-vacuity: the two runs of the D19 gap (store 10 | store 20; fetch_add |
   loads) are runs of the model's machine, so their end states are reach_model *)
Example reach_model_example :
  (exists st, mrun0 RModel 4 gapA = Some st /\ reach_model st) /\
  (exists st, mrun0 RModel 4 gapB = Some st /\ reach_model st).
Proof.
  assert (H : forall evs st, mrun0 RModel 4 evs = Some st -> reach_model st).
  { intros evs st Hr. unfold mrun0 in Hr. destruct (minit 4 0%N) as [st0|] eqn:Hi; [|discriminate].
    exists 4, 0%N, st0, evs. unfold MAX_THREADS. repeat split; try lia; assumption. }
  split.
  - destruct (mrun0 RModel 4 gapA) as [st|] eqn:E; [|vm_compute in E; discriminate].
    exists st. split; [reflexivity | apply (H gapA st E)].
  - destruct (mrun0 RModel 4 gapB) as [st|] eqn:E; [|vm_compute in E; discriminate].
    exists st. split; [reflexivity | apply (H gapB st E)].
Qed.

Print Assumptions witness_atomicity.
Print Assumptions raise_inv.
Print Assumptions close_model_inv.
Print Assumptions close_closed.
Print Assumptions close_model_closed.
Print Assumptions load_witness.
Print Assumptions model_loadpart_good.
Print Assumptions Good_atomicity.
Print Assumptions Good_never_none.
Print Assumptions good_load_step.
Print Assumptions good_sync_step.
Print Assumptions minit_good.
Print Assumptions good_run_loads.
Print Assumptions plain_store_good.
Print Assumptions rmw_store_good.
Print Assumptions mstep_goodO.
Print Assumptions mrun_goodS.
Print Assumptions reach_model_good.
Print Assumptions mrun_inv2_model.
Print Assumptions rmw_atomicity_stable.
Print Assumptions mlts_never_none_model.
Print Assumptions run_stable_model.
Print Assumptions run_knows_model.
Print Assumptions CoRR_CoWR_model.
Print Assumptions CoRR_CoWR_rmw_model.
Print Assumptions CoWW_CoRW_model.
Print Assumptions load_knows_model.
Print Assumptions CoRR_same_thread_model.
Print Assumptions CoWR_same_thread_model.
Print Assumptions CoRW_same_thread_model.
Print Assumptions CoWW_same_thread_model.
Print Assumptions reach_model_example.
