(* DeadlockFacts: "Deadlocks are reported exactly", at the level of whole runs.

   Contents
     1. PanicDeadlock is raised by Execution::schedule and by nothing else:
        exec_micro_deadlock_only_from_schedule (all micro-operations, the
        pattern of CountFacts.exec_micro_model20), with the state on which
        schedule was called (it differs from the state before the micro-op
        only in the calling thread's entry of the thread table).
     2. e_active is written by schedule only: exec_micro_active (all
        micro-operations, goal directed).
     3. is_traversed (pos = length of the decision stack: the iteration is
        past the replayed prefix) is kept by every micro-operation:
        exec_micro_traversed, run_traversed.
     4. the run-level theorems
          run_deadlock_sound          (requested, B1; unconditional part)
          run_deadlock_no_runnable    (B1, "no thread is runnable or yielded";
                                       needs the path to be traversed, see D1)
          iteration_deadlock_exact    (both, for the first iteration of check)
          run_done_all_terminated     (B2)
          blocked_forever_is_reported (B3) and stuck_never_ok
     5. counterexample deadlock_replayed_blindly (D1) and a positive example.

   DEVIATIONS

   D1  "if run returns PanicDeadlock sts then no thread is runnable or yielded"
       is FALSE for arbitrary paths.  While the decision stack is being
       REPLAYED (pos < length branches) Path::branch_thread does not look at
       the seed: it returns the active thread recorded in the stored Schedule
       entry.  A stored entry without an active thread makes schedule report a
       deadlock whatever the thread states are.  deadlock_replayed_blindly:
       program [[IYield]], path with the single entry "5 threads, all
       Disabled", pos 0: the main thread is Yielded, the run ends with
       PanicDeadlock [Yielded].  This is not a behaviour of loom::model: the
       stack replayed by iteration n+1 is the one built by iteration n, and
       Path::step never keeps an entry without an active thread (it can be
       produced only by loading a foreign checkpoint file).
       Proved instead:
       - unconditionally (run_deadlock_sound): the panic comes from a call of
         schedule; the reported list is exactly the list of thread states of
         the returned state; at least one thread is not Terminated; no thread
         is active any more;
       - run_deadlock_no_runnable: if the run starts on a traversed path (the
         first iteration: initial_path has no entries; in later iterations:
         from the end of the replayed prefix on, run_traversed) every thread
         of the returned state is Blocked or Terminated.
   D2  run_done_all_terminated needs [e_active e <> None] for the start state
       (run returns IterDone at once, whatever the threads are, if no thread
       is active); init_exec has Some 0 (iteration_done_all_terminated).
   D3  blocked_forever_is_reported: schedule has other failures that come
       first (no active thread / bad index: PanicModel; the branch limit or a
       DPOR backtrack failure: PanicPath).  The theorem says: in a stuck state
       the result is one of those failures or the deadlock panic with exactly
       the list of thread states; never MOk.  On a replayed path nothing can be
       said (D1, the other direction: a stored entry WITH an active thread
       makes schedule resume a blocked thread). *)
Require Import LV.Base LV.VV LV.Path LV.PathSpec LV.PathApi LV.Prog LV.Objects LV.Exec LV.Atomic
               LV.Ops LV.Check LV.SyncFacts LV.ExecFacts LV.ExecPreempt LV.SyncMono LV.CountFacts.
From Coq Require Import List Arith Lia Bool.
Import ListNotations.

(* ================================================================== *)
(* 1. PanicDeadlock comes from schedule only                           *)
(* ================================================================== *)

Lemma track_load_nd s c st : track_load s c = inr (PanicDeadlock st) -> False.
Proof. unfold track_load. destr_all; discriminate. Qed.
Lemma track_unsync_load_nd s c st : track_unsync_load s c = inr (PanicDeadlock st) -> False.
Proof. unfold track_unsync_load. destr_all; discriminate. Qed.
Lemma track_store_nd s c st : track_store s c = inr (PanicDeadlock st) -> False.
Proof. unfold track_store. destr_all; discriminate. Qed.
Lemma track_unsync_mut_nd s c st : track_unsync_mut s c = inr (PanicDeadlock st) -> False.
Proof. unfold track_unsync_mut. destr_all; discriminate. Qed.
Lemma cell_track_read_nd s c st : cell_track_read s c = inr (PanicDeadlock st) -> False.
Proof. unfold cell_track_read. destr_all; discriminate. Qed.
Lemma cell_track_write_nd s c st : cell_track_write s c = inr (PanicDeadlock st) -> False.
Proof. unfold cell_track_write. destr_all; discriminate. Qed.
Lemma atomic_load_nd s me c i o st : atomic_load s me c i o = inr (PanicDeadlock st) -> False.
Proof.
  unfold atomic_load. destruct (track_load s c) eqn:E; [discriminate|].
  intros H. injection H as ->. exact (track_load_nd _ _ _ E).
Qed.
Lemma atomic_rmw_nd s me c r i so fo f st :
  atomic_rmw s me c r i so fo f = inr (PanicDeadlock st) -> False.
Proof.
  rewrite atomic_rmw_eq. destruct (track_load s c) eqn:E.
  - cbv zeta. destruct (f _); [|discriminate]. destruct (track_store _ _) eqn:E2; [discriminate|].
    intros H. injection H as ->. exact (track_store_nd _ _ _ E2).
  - intros H. injection H as ->. exact (track_load_nd _ _ _ E).
Qed.
Lemma choose_store_nd e sd e' st : choose_store e sd = (e', inr (PanicDeadlock st)) -> False.
Proof. unfold choose_store. destr_all; discriminate. Qed.
Lemma release_read_nd e me r e2 st : release_read e me r = MFail e2 (PanicDeadlock st) -> False.
Proof. unfold release_read. destr_all; discriminate. Qed.
Lemma release_write_nd e me r e2 st : release_write e me r = MFail e2 (PanicDeadlock st) -> False.
Proof. unfold release_write. destr_all; discriminate. Qed.

(* the state on which schedule is called differs from the state of the
   micro-operation in the thread table only *)
Definition sched_call (e e1 : exec) : Prop :=
  e_path e1 = e_path e /\ e_active e1 = e_active e /\ e_objects e1 = e_objects e /\
  e_h e1 = e_h e /\ length (e_threads e1) = length (e_threads e).

Lemma sched_call_upd_thread e i f : sched_call e (upd_thread e i f).
Proof. repeat split. cbn [upd_thread ex_set_threads e_threads]. apply list_upd_length. Qed.

Ltac nd_step H :=
  match type of H with
  | fst (schedule _) = _ => fail 1
  | context [match ?x with _ => _ end] =>
      lazymatch x with
      | context [match _ with _ => _ end] => fail
      | _ => destruct x eqn:?
      end
  end.

Lemma exec_micro_deadlock_only_from_schedule e me m e2 st :
  exec_micro e me m = MFail e2 (PanicDeadlock st) ->
  exists e1, sched_call e e1 /\ fst (schedule e1) = MFail e2 (PanicDeadlock st).
Proof.
  intros H. destruct m;
    cbn [exec_micro] in H; unfold lift_path, mbind, do_branch, do_park, do_yield, load_post in H;
    repeat nd_step H; try discriminate H.
  all: try (eexists; split; [|exact H]; apply sched_call_upd_thread).
  all: exfalso; injection H as _ ->;
    eauto using track_load_nd, track_unsync_load_nd, track_store_nd, track_unsync_mut_nd,
      cell_track_read_nd, cell_track_write_nd, atomic_load_nd, atomic_rmw_nd,
      choose_store_nd, release_read_nd, release_write_nd.
Qed.

(* ================================================================== *)
(* 2. e_active is written by schedule only                             *)
(* ================================================================== *)

Definition act_ok (e : exec) (r : mres) : Prop :=
  (exists e1, sched_call e e1 /\ r = fst (schedule e1)) \/ e_active (res_exec r) = e_active e.

Lemma choose_store_active e seed : e_active (fst (choose_store e seed)) = e_active e.
Proof. unfold choose_store. destr_all; reflexivity. Qed.

Lemma load_post_active e me a o : e_active (lp_exec (load_post e me a o)) = e_active e.
Proof.
  unfold load_post.
  destruct (get_atomic (causality_inc e me) a) as [s|]; [|reflexivity].
  destruct (get_thread (causality_inc e me) me) as [t|]; [|reflexivity].
  pose proof (choose_store_active (causality_inc e me)
                (match_load_to_stores s me (t_caus t) (t_last_yield t) o)) as H.
  destruct (choose_store _ _) as [e1 [idx|p]]; cbn [fst] in H; [|exact H].
  destruct (atomic_load s me (t_caus t) idx o) as [[[s' c'] v]|p]; cbn [lp_exec]; exact H.
Qed.

Ltac act_step :=
  match goal with
  | |- context [post_acquire ?e ?me ?m] =>
      let H' := fresh "Hfa" in
      pose proof (post_acquire_active e me m) as H';
      destruct (post_acquire e me m); cbn [fst] in H'
  | |- context [post_acquire_read ?e ?me ?m] =>
      let H' := fresh "Hfa" in
      pose proof (post_acquire_read_active e me m) as H';
      destruct (post_acquire_read e me m); cbn [fst] in H'
  | |- context [post_acquire_write ?e ?me ?m] =>
      let H' := fresh "Hfa" in
      pose proof (post_acquire_write_active e me m) as H';
      destruct (post_acquire_write e me m); cbn [fst] in H'
  | |- context [release_read ?e ?me ?m] =>
      let H' := fresh "Hfa" in
      pose proof (release_read_active e me m) as H';
      destruct (release_read e me m); cbn [res_exec] in H'
  | |- context [release_write ?e ?me ?m] =>
      let H' := fresh "Hfa" in
      pose proof (release_write_active e me m) as H';
      destruct (release_write e me m); cbn [res_exec] in H'
  | |- context [load_post ?e ?me ?a ?o] =>
      let H := fresh "Hfa" in
      pose proof (load_post_active e me a o) as H;
      destruct (load_post e me a o) as [[? ?]|[? ?]]; cbn [lp_exec] in H
  | |- context [choose_store ?e ?s] =>
      let H := fresh "Hfa" in
      pose proof (choose_store_active e s) as H;
      destruct (choose_store e s) as [? [?|?]]; cbn [fst] in H
  | |- context [match ?x with _ => _ end] =>
      lazymatch x with
      | context [match _ with _ => _ end] => fail
      | _ => destruct x
      end
  end.

Ltac act_eqs :=
  repeat match goal with
         | H : e_active _ = _ |- _ => rewrite H in *; clear H
         end.

Ltac act_close :=
  first [ left; eexists; split; [|reflexivity]; apply sched_call_upd_thread
        | right; cbn [res_exec]; autorewrite with eact in *; act_eqs;
          autorewrite with eact in *; reflexivity ].

Lemma exec_micro_act_ok e me m : act_ok e (exec_micro e me m).
Proof.
  destruct m; cbn [exec_micro]; unfold lift_path, mbind, do_branch, do_park, do_yield;
    repeat act_step; act_close.
Qed.

Lemma exec_micro_active e me m e' :
  exec_micro e me m = MOk e' ->
  e_active e' = e_active e \/ exists e1, sched_call e e1 /\ fst (schedule e1) = MOk e'.
Proof.
  intros H. destruct (exec_micro_act_ok e me m) as [(e1 & Hc & Hs)|Ha].
  - right. exists e1. split; [exact Hc|]. rewrite <- Hs. exact H.
  - left. rewrite H in Ha. exact Ha.
Qed.

(* ================================================================== *)
(* 3. Past the replayed prefix: is_traversed is kept                   *)
(* ================================================================== *)

Definition trav (p : path) : Prop := is_traversed p = true.

Lemma trav_push_pos p x :
  trav p -> trav (set_pos (set_branches p (branches p ++ [x])) (S (pos p))).
Proof.
  unfold trav, is_traversed. cbn [set_pos set_branches pos branches]. intros H.
  apply Nat.eqb_eq in H. rewrite app_length. cbn [length]. apply Nat.eqb_eq. lia.
Qed.

Lemma branch_thread_trav p seed p' t : branch_thread p seed = POk (p', t) -> trav p -> trav p'.
Proof.
  intros H Ht. destruct (branch_thread_cases _ _ _ _ H) as [(Hf & _)|(_ & _ & s & -> & _)].
  - unfold trav in Ht. congruence.
  - apply trav_push_pos, Ht.
Qed.

Lemma branch_spurious_trav p p' b : branch_spurious p = POk (p', b) -> trav p -> trav p'.
Proof.
  intros H Ht. destruct (branch_spurious_cases _ _ _ H) as [(Hf & _)|(_ & _ & ->)].
  - unfold trav in Ht. congruence.
  - apply trav_push_pos, Ht.
Qed.

Lemma explore_state_trav p p' : explore_state p = POk p' -> trav p -> trav p'.
Proof.
  unfold explore_state. intros H Ht. destruct (skipping p); [injection H as <-; exact Ht|].
  destruct (exploring p); [discriminate H|]. injection H as <-. exact Ht.
Qed.

Lemma critical_trav p p' : critical p = POk p' -> trav p -> trav p'.
Proof.
  unfold critical. intros H Ht. destruct (skipping p); [injection H as <-; exact Ht|].
  destruct (exploring p); [|discriminate H]. injection H as <-. exact Ht.
Qed.

Lemma skip_branch_trav p : trav p -> trav (skip_branch p).
Proof. intros H. exact H. Qed.

Lemma dpor_loop_trav objs ths p p' : dpor_loop objs ths p = POk p' -> trav p -> trav p'.
Proof. intros H Ht. unfold trav. rewrite (dpor_loop_traversed _ _ _ _ H). exact Ht. Qed.

Definition tkeeps (e e' : exec) : Prop := trav (e_path e) -> trav (e_path e').

Lemma tkeeps_refl e : tkeeps e e.
Proof. intros H. exact H. Qed.
Lemma tkeeps_trans e1 e2 e3 : tkeeps e1 e2 -> tkeeps e2 e3 -> tkeeps e1 e3.
Proof. unfold tkeeps. auto. Qed.
Lemma tkeeps_same e e' : e_path e' = e_path e -> tkeeps e e'.
Proof. unfold tkeeps. intros ->. auto. Qed.

Lemma schedule_tkeeps e : tkeeps e (res_exec (fst (schedule e))).
Proof.
  destruct (schedule_cases e)
    as [(c & ->)|[(x & ->)|[(p1 & x & Hd & ->)|(curr & cur_th & p1 & p2 & next & Hp & ->)]]];
    cbn [fst res_exec]; try apply tkeeps_refl.
  - intros Ht. cbn [ex_set_path e_path]. eapply dpor_loop_trav; eassumption.
  - intros Ht. rewrite sched_post_path. cbn [sched_base ex_set_active ex_set_path e_path].
    destruct Hp as (_ & _ & Hd & Hb).
    eapply branch_thread_trav; [exact Hb|]. eapply dpor_loop_trav; eassumption.
Qed.

Lemma schedule_tkeeps_k e0 e : tkeeps e0 e -> tkeeps e0 (res_exec (fst (schedule e))).
Proof. intros H. eapply tkeeps_trans; [exact H|apply schedule_tkeeps]. Qed.

Lemma do_branch_tkeeps_k e0 e me obj act blk :
  tkeeps e0 e -> tkeeps e0 (res_exec (do_branch e me obj act blk)).
Proof.
  intros H. unfold do_branch. apply schedule_tkeeps_k.
  eapply tkeeps_trans; [exact H|]. apply tkeeps_same; reflexivity.
Qed.

Lemma do_park_tkeeps_k e0 e me : tkeeps e0 e -> tkeeps e0 (res_exec (do_park e me)).
Proof.
  intros H. unfold do_park. destruct (get_thread e me) as [t|]; [|exact H].
  destruct (t_token t); cbn [res_exec].
  - eapply tkeeps_trans; [exact H|]. apply tkeeps_same; reflexivity.
  - apply schedule_tkeeps_k. eapply tkeeps_trans; [exact H|]. apply tkeeps_same; reflexivity.
Qed.

Lemma do_yield_tkeeps_k e0 e me : tkeeps e0 e -> tkeeps e0 (res_exec (do_yield e me)).
Proof.
  intros H. unfold do_yield. apply schedule_tkeeps_k.
  eapply tkeeps_trans; [exact H|]. apply tkeeps_same; reflexivity.
Qed.

Lemma choose_store_tkeeps e seed : tkeeps e (fst (choose_store e seed)).
Proof.
  unfold choose_store.
  destruct (is_traversed (e_path e)) eqn:Htr.
  - destruct seed as [sd|]; [|apply tkeeps_refl].
    destruct (push_load (e_path e) sd) as [p1|x] eqn:Hp; [|apply tkeeps_refl].
    destruct (branch_load p1) as [[p2 idx]|x] eqn:Hb; cbn [fst]; [|apply tkeeps_refl].
    intros Ht. cbn [ex_set_path e_path]. rewrite (branch_load_cases _ _ _ Hb).
    destruct (push_load_cases _ _ _ Hp) as (_ & _ & ->).
    exact (trav_push_pos _ _ Ht).
  - intros Ht. unfold trav in Ht. congruence.
Qed.

Lemma load_post_tkeeps e me a o : tkeeps e (lp_exec (load_post e me a o)).
Proof.
  unfold load_post.
  destruct (get_atomic (causality_inc e me) a) as [s|];
    [|cbn [lp_exec]; apply tkeeps_same; reflexivity].
  destruct (get_thread (causality_inc e me) me) as [t|];
    [|cbn [lp_exec]; apply tkeeps_same; reflexivity].
  pose proof (choose_store_tkeeps (causality_inc e me)
                (match_load_to_stores s me (t_caus t) (t_last_yield t) o)) as H.
  assert (H0 : tkeeps e (causality_inc e me)) by (apply tkeeps_same; reflexivity).
  destruct (choose_store (causality_inc e me) (match_load_to_stores s me (t_caus t) (t_last_yield t) o))
    as [e1 [idx|p]]; cbn [fst] in H.
  - destruct (atomic_load s me (t_caus t) idx o) as [[[s' c'] v]|p]; cbn [lp_exec].
    + eapply tkeeps_trans; [exact H0|]. eapply tkeeps_trans; [exact H|].
      apply tkeeps_same; reflexivity.
    + eapply tkeeps_trans; eassumption.
  - cbn [lp_exec]. eapply tkeeps_trans; eassumption.
Qed.

Ltac tr_step :=
  match goal with
  | |- tkeeps _ (res_exec (fst (schedule _))) => apply schedule_tkeeps_k
  | |- tkeeps _ (res_exec (do_branch _ _ _ _ _)) => apply do_branch_tkeeps_k
  | |- tkeeps _ (res_exec (do_park _ _)) => apply do_park_tkeeps_k
  | |- tkeeps _ (res_exec (do_yield _ _)) => apply do_yield_tkeeps_k
  | |- context [post_acquire ?e ?me ?m] =>
      let H := fresh "Hfr" in
      pose proof (post_acquire_path e me m) as H;
      destruct (post_acquire e me m); cbn [fst] in H
  | |- context [post_acquire_read ?e ?me ?m] =>
      let H := fresh "Hfr" in
      pose proof (post_acquire_read_path e me m) as H;
      destruct (post_acquire_read e me m); cbn [fst] in H
  | |- context [post_acquire_write ?e ?me ?m] =>
      let H := fresh "Hfr" in
      pose proof (post_acquire_write_path e me m) as H;
      destruct (post_acquire_write e me m); cbn [fst] in H
  | |- context [release_read ?e ?me ?m] =>
      let H := fresh "Hfr" in
      pose proof (release_read_path e me m) as H;
      destruct (release_read e me m); cbn [res_exec] in H
  | |- context [release_write ?e ?me ?m] =>
      let H := fresh "Hfr" in
      pose proof (release_write_path e me m) as H;
      destruct (release_write e me m); cbn [res_exec] in H
  | |- context [load_post ?e ?me ?a ?o] =>
      let H := fresh "Hlp" in
      pose proof (load_post_tkeeps e me a o) as H;
      destruct (load_post e me a o) as [[? ?]|[? ?]]; cbn [lp_exec] in H
  | |- context [choose_store ?e ?s] =>
      let H := fresh "Hcs" in
      pose proof (choose_store_tkeeps e s) as H;
      destruct (choose_store e s) as [? [?|?]]; cbn [fst] in H
  | |- context [branch_spurious ?p] =>
      let H := fresh "Hbs" in
      destruct (branch_spurious p) as [[? ?]|?] eqn:H;
      [let H2 := fresh "Hps" in
       pose proof (branch_spurious_trav _ _ _ H) as H2; clear H|]
  | |- context [explore_state ?p] =>
      let H := fresh "Hes" in
      destruct (explore_state p) eqn:H;
      [let H2 := fresh "Hps" in
       pose proof (explore_state_trav _ _ H) as H2; clear H|]
  | |- context [critical ?p] =>
      let H := fresh "Hcr" in
      destruct (critical p) eqn:H;
      [let H2 := fresh "Hps" in
       pose proof (critical_trav _ _ H) as H2; clear H|]
  | |- context [match ?x with _ => _ end] =>
      lazymatch x with
      | context [match _ with _ => _ end] => fail
      | _ => destruct x
      end
  end.

Ltac tr_close :=
  cbn [res_exec]; unfold tkeeps in *;
  let Hinv := fresh "Hinv" in intro Hinv;
  autorewrite with epath in *; use_eqs;
  autorewrite with epath in *;
  timeout 20 (eauto 6 using skip_branch_trav).

Lemma exec_micro_tkeeps e me m : tkeeps e (res_exec (exec_micro e me m)).
Proof. destruct m; cbn [exec_micro]; unfold lift_path, mbind; repeat tr_step; tr_close. Qed.

Lemma exec_micro_traversed e me m e' :
  exec_micro e me m = MOk e' -> is_traversed (e_path e) = true -> is_traversed (e_path e') = true.
Proof. intros H. pose proof (exec_micro_tkeeps e me m) as Hk. rewrite H in Hk. exact Hk. Qed.

(* every state of a run that starts on a traversed path is on a traversed path *)
Lemma run_traversed fuel e :
  is_traversed (e_path e) = true -> is_traversed (e_path (fst (run fuel e))) = true.
Proof.
  revert e; induction fuel as [|fuel IH]; intros e Ht; cbn [run]; [exact Ht|].
  destruct (e_active e) as [me|]; [|exact Ht].
  destruct (nth_error (e_threads e) me) as [t|]; [|exact Ht].
  destruct (t_cont t) as [|m rest]; [exact Ht|].
  pose proof (exec_micro_tkeeps (upd_thread e me (fun t => th_set_cont t rest)) me m) as Hm.
  destruct (exec_micro _ me m) as [e2|e2 pn]; cbn [res_exec fst] in *.
  - apply IH, Hm, Ht.
  - apply Hm, Ht.
Qed.

(* ================================================================== *)
(* 4. Whole runs                                                       *)
(* ================================================================== *)

(* a thread that cannot be resumed *)
Definition stuck_thread (t : thread) : Prop := t_state t = Blocked \/ t_state t = Terminated.

Lemma not_runnable_not_yield_stuck t :
  is_runnable t = false /\ is_yield t = false -> stuck_thread t.
Proof.
  unfold is_runnable, is_yield, stuck_thread. intros [H1 H2].
  destruct (t_state t); try discriminate; auto.
Qed.

(* the deadlock panic of a run is the deadlock panic of one call of schedule,
   made on a path that is traversed if the start of the run was *)
Lemma run_deadlock_from_schedule : forall fuel e e' sts,
  run fuel e = (e', IterPanic (PanicDeadlock sts)) ->
  exists e1, fst (schedule e1) = MFail e' (PanicDeadlock sts) /\
             (is_traversed (e_path e) = true -> is_traversed (e_path e1) = true).
Proof.
  induction fuel as [|fuel IH]; intros e e' sts H; cbn [run] in H; [discriminate H|].
  destruct (e_active e) as [me|]; [|discriminate H].
  destruct (nth_error (e_threads e) me) as [t|]; [|discriminate H].
  destruct (t_cont t) as [|m rest]; [discriminate H|].
  destruct (exec_micro _ me m) as [e2|e2 pn] eqn:Hx.
  - destruct (IH e2 e' sts H) as (e1 & Hs & Ht). exists e1. split; [exact Hs|].
    intros Htr. apply Ht. eapply exec_micro_traversed; [exact Hx|exact Htr].
  - injection H as <- ->.
    destruct (exec_micro_deadlock_only_from_schedule _ _ _ _ _ Hx) as (e1 & Hc & Hs).
    exists e1. split; [exact Hs|]. destruct Hc as (Hp & _). rewrite Hp. auto.
Qed.

(* B1, the unconditional part *)
Theorem run_deadlock_sound fuel e e' sts :
  run fuel e = (e', IterPanic (PanicDeadlock sts)) ->
  sts = map t_state (e_threads e') /\
  (exists t, In t (e_threads e') /\ is_terminated t = false) /\
  e_active e' = None /\
  exists e1, fst (schedule e1) = MFail e' (PanicDeadlock sts) /\ e_threads e1 = e_threads e'.
Proof.
  intros H. destruct (run_deadlock_from_schedule _ _ _ _ H) as (e1 & Hs & _).
  destruct (schedule_deadlock_iff _ _ _ Hs) as (Hex & Hact & Hst).
  split; [exact Hst|]. split; [exact Hex|]. split; [exact Hact|].
  exists e1. split; [exact Hs|].
  destruct (schedule_deadlock_inv _ _ _ Hs) as (curr & cur_th & p1 & p2 & _ & -> & _ & _).
  reflexivity.
Qed.

(* B1, the verdict: past the replayed prefix a reported deadlock is a state in
   which every thread is Blocked or Terminated (and one is not Terminated) *)
Theorem run_deadlock_no_runnable fuel e e' sts :
  run fuel e = (e', IterPanic (PanicDeadlock sts)) ->
  is_traversed (e_path e) = true ->
  Forall stuck_thread (e_threads e') /\
  (exists t, In t (e_threads e') /\ t_state t = Blocked) /\
  sts = map t_state (e_threads e').
Proof.
  intros H Htr. destruct (run_deadlock_from_schedule _ _ _ _ H) as (e1 & Hs & Ht).
  destruct (schedule_no_runnable _ _ _ Hs (Ht Htr)) as (Heq & Hall).
  destruct (schedule_deadlock_iff _ _ _ Hs) as ((t & Hin & Hnt) & _ & Hst).
  assert (Hstuck : Forall stuck_thread (e_threads e')).
  { rewrite Heq. eapply Forall_impl; [|exact Hall]. intros a. apply not_runnable_not_yield_stuck. }
  split; [exact Hstuck|]. split; [|exact Hst].
  exists t. split; [exact Hin|].
  rewrite Forall_forall in Hstuck. destruct (Hstuck t Hin) as [Hb|Hb]; [exact Hb|].
  unfold is_terminated in Hnt. rewrite Hb in Hnt. discriminate Hnt.
Qed.

(* the first iteration of Builder::check starts on the empty stack *)
Lemma initial_path_traversed c : is_traversed (initial_path c) = true.
Proof. reflexivity. Qed.

Theorem iteration_deadlock_exact fuel p pa e' sts :
  iteration fuel p pa = (e', IterPanic (PanicDeadlock sts)) ->
  is_traversed pa = true ->
  Forall stuck_thread (e_threads e') /\
  (exists t, In t (e_threads e') /\ t_state t = Blocked) /\
  sts = map t_state (e_threads e').
Proof.
  unfold iteration. intros H Htr.
  destruct (run fuel (init_exec p pa)) as [e r] eqn:Hr.
  destruct r as [|pn|].
  - destruct (check_for_leaks (e_objects e)) as [pn|] eqn:Hl; [|discriminate H].
    injection H as <- ->. apply check_for_leaks_first in Hl.
    destruct Hl as (i & o & k & Hpn & _). discriminate Hpn.
  - injection H as <- ->. eapply run_deadlock_no_runnable; [exact Hr|exact Htr].
  - discriminate H.
Qed.

Corollary first_iteration_deadlock_exact fuel p e' sts :
  iteration fuel p (initial_path (p_cfg p)) = (e', IterPanic (PanicDeadlock sts)) ->
  Forall stuck_thread (e_threads e') /\
  (exists t, In t (e_threads e') /\ t_state t = Blocked) /\
  sts = map t_state (e_threads e').
Proof. intros H. eapply iteration_deadlock_exact; [exact H|apply initial_path_traversed]. Qed.

(* B2: a finished iteration is a full execution *)
Theorem run_done_all_terminated : forall fuel e e',
  run fuel e = (e', IterDone) -> e_active e <> None ->
  Forall (fun t => t_state t = Terminated) (e_threads e') /\ e_active e' = None.
Proof.
  induction fuel as [|fuel IH]; intros e e' H Ha; cbn [run] in H; [discriminate H|].
  destruct (e_active e) as [me|] eqn:Hact; [|congruence].
  destruct (nth_error (e_threads e) me) as [t|]; [|discriminate H].
  destruct (t_cont t) as [|m rest]; [discriminate H|].
  destruct (exec_micro _ me m) as [e2|e2 pn] eqn:Hx; [|discriminate H].
  destruct (e_active e2) as [a2|] eqn:Ha2.
  - apply (IH e2 e' H). congruence.
  - assert (He : e' = e2).
    { destruct fuel as [|fuel']; cbn [run] in H; [discriminate H|].
      rewrite Ha2 in H. injection H as <-. reflexivity. }
    subst e'. split; [|exact Ha2].
    destruct (exec_micro_active _ _ _ _ Hx) as [Heq|(e1 & _ & Hs)].
    + rewrite Ha2 in Heq. cbn [upd_thread ex_set_threads e_active] in Heq. congruence.
    + destruct (schedule_done _ _ Hs Ha2) as (-> & Hall).
      eapply Forall_impl; [|exact Hall]. intros a Hterm.
      unfold is_terminated in Hterm. destruct (t_state a); try discriminate Hterm. reflexivity.
Qed.

Theorem iteration_done_all_terminated fuel p pa e' :
  iteration fuel p pa = (e', IterDone) ->
  Forall (fun t => t_state t = Terminated) (e_threads e') /\ e_active e' = None.
Proof.
  unfold iteration. intros H.
  destruct (run fuel (init_exec p pa)) as [e r] eqn:Hr.
  destruct r as [|pn|]; try discriminate H.
  destruct (check_for_leaks (e_objects e)); [discriminate H|]. injection H as <-.
  eapply run_done_all_terminated; [exact Hr|]. rewrite init_exec_active. discriminate.
Qed.

(* B3: a stuck state is never skipped silently *)
Theorem blocked_forever_is_reported e :
  Forall stuck_thread (e_threads e) ->
  (exists t, In t (e_threads e) /\ t_state t = Blocked) ->
  is_traversed (e_path e) = true ->
  exists e' pn, fst (schedule e) = MFail e' pn /\
    ((pn = PanicDeadlock (map t_state (e_threads e)) /\ e_threads e' = e_threads e) \/
     (exists c, pn = PanicModel c) \/ (exists x, pn = PanicPath x)).
Proof.
  intros Hall (tb & Hin & Hb) Htr.
  destruct (schedule_cases e)
    as [(c & Hs)|[(x & Hs)|[(p1 & x & Hd & Hs)|(curr & cur_th & p1 & p2 & next & Hp & Hs)]]];
    rewrite Hs; cbn [fst].
  - eexists; eexists. split; [reflexivity|]. right; left. eauto.
  - eexists; eexists. split; [reflexivity|]. right; right. eauto.
  - eexists; eexists. split; [reflexivity|]. right; right. eauto.
  - pose proof (sched_prefix_choice _ _ _ _ _ _ Hp Htr) as Hch.
    destruct Hp as (_ & Hc & _ & _).
    assert (Hnone : next = None).
    { destruct next as [nx|]; [|reflexivity]. exfalso.
      destruct (seed_choice_sound _ _ _ nx Hc (eq_sym Hch)) as (th & Hth & Hr).
      rewrite Forall_forall in Hall. specialize (Hall th (nth_error_In _ _ Hth)).
      unfold is_runnable, is_yield in Hr. destruct Hall as [Hst|Hst]; rewrite Hst in Hr; discriminate Hr. }
    clear Hch. subst next. unfold sched_post.
    assert (Hth : e_threads (sched_base e p2 None) = e_threads e) by reflexivity.
    rewrite Hth.
    assert (Hnt : forallb is_terminated (e_threads e) = false).
    { destruct (forallb is_terminated (e_threads e)) eqn:Hf; [|reflexivity].
      rewrite forallb_forall in Hf. specialize (Hf tb Hin). unfold is_terminated in Hf.
      rewrite Hb in Hf. discriminate Hf. }
    rewrite Hnt. cbn [fst]. eexists; eexists. split; [reflexivity|]. left. split; [reflexivity|exact Hth].
Qed.

Corollary stuck_never_ok e e' :
  Forall stuck_thread (e_threads e) ->
  (exists t, In t (e_threads e) /\ t_state t = Blocked) ->
  is_traversed (e_path e) = true ->
  fst (schedule e) <> MOk e'.
Proof.
  intros H1 H2 H3 Hc. destruct (blocked_forever_is_reported e H1 H2 H3) as (e2 & pn & Hs & _).
  congruence.
Qed.

(* ================================================================== *)
(* 5. Examples                                                         *)
(* ================================================================== *)

Definition cfgL : config := mkConfig 5 1000 None None None false.

(* D1: a stored Schedule entry without an active thread is replayed blindly *)
Definition bad_path : path :=
  mkPath None 0 [ESched (mkSched 0 None (repeat Disabled 5) None false)] false false false 1000.
Definition p_blind : prog := mkProg cfgL [] [[ISpawn 1; IYield]; []].

Lemma deadlock_replayed_blindly :
  snd (run 100 (init_exec p_blind bad_path)) = IterPanic (PanicDeadlock [Yielded; Runnable]) /\
  map t_state (e_threads (fst (run 100 (init_exec p_blind bad_path)))) = [Yielded; Runnable].
Proof. vm_compute. split; reflexivity. Qed.

(* a real deadlock: main holds the mutex and joins a thread that wants it *)
Definition p_dead : prog := mkProg cfgL [DMutex] [[ISpawn 1; ILock 0; IJoin 1]; [ILock 0]].

Example deadlock_reported :
  snd (iteration 1000 p_dead (initial_path cfgL)) = IterPanic (PanicDeadlock [Blocked; Blocked]) /\
  snd (fst (check 100 1000 p_dead)) = RunPanic (PanicDeadlock [Blocked; Blocked]).
Proof. vm_compute. split; reflexivity. Qed.

Print Assumptions exec_micro_deadlock_only_from_schedule.
Print Assumptions exec_micro_active.
Print Assumptions run_traversed.
Print Assumptions run_deadlock_sound.
Print Assumptions run_deadlock_no_runnable.
Print Assumptions iteration_deadlock_exact.
Print Assumptions first_iteration_deadlock_exact.
Print Assumptions run_done_all_terminated.
Print Assumptions iteration_done_all_terminated.
Print Assumptions blocked_forever_is_reported.
Print Assumptions stuck_never_ok.
Print Assumptions deadlock_replayed_blindly.
