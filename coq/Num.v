(** * Num: value encoding of loom atomics versus std atomics (definitions).

    Every loom atomic ([loom::sync::atomic::Atomic*]) stores its content as
    a [u64] ([rt::Numeric::into_u64], Rust [self as u64]) and decodes on every
    read ([rt::Numeric::from_u64], Rust [src as T]).  Read-modify-writes are
    [rmw(|v| f v)]: decode, apply the closure at type [T], re-encode
    ([rt/atomic.rs]: [|num| f(T::from_u64(num)).map(T::into_u64)]) and return
    the decoded previous value.

    This file gives two independent executable semantics of a single-threaded
    sequence of atomic operations:
      - [loom_step]/[loom_run]: through the [u64] cell, with closures written
        at the level of [bits t]-bit patterns (what the hardware does for type
        [T]);
      - [std_step]/[std_run]: [std::sync::atomic] directly on mathematical
        values, with Rust's wrapping arithmetic expressed by [wrap].
    [NumFacts] proves that both agree (property C12).

    All values are [Z]; nothing here is a proof, everything is computable and
    extraction friendly. *)

From Coq Require Import ZArith List Bool.
Import ListNotations.
Open Scope Z_scope.

(** ** Types *)

(** [Usize], [Isize] and [TPtr] are 64-bit. *)
Inductive nty := U8 | U16 | U32 | U64 | Usize | I8 | I16 | I32 | I64 | Isize | TBool | TPtr.

(** Width in bits.  For [TBool] the width is only used for range purposes:
    a [bool] is 0 or 1. *)
Definition bits (t : nty) : Z :=
  match t with
  | U8 | I8 => 8
  | U16 | I16 => 16
  | U32 | I32 => 32
  | U64 | I64 | Usize | Isize | TPtr => 64
  | TBool => 1
  end.

Definition signed (t : nty) : bool :=
  match t with
  | I8 | I16 | I32 | I64 | Isize => true
  | _ => false
  end.

(** Smallest value and (exclusive) upper bound of the type. *)
Definition lo (t : nty) : Z := if signed t then - 2 ^ (bits t - 1) else 0.
Definition hi (t : nty) : Z := if signed t then 2 ^ (bits t - 1) else 2 ^ bits t.

(** unsigned: [0 <= x < 2^bits]; signed: [-2^(bits-1) <= x < 2^(bits-1)];
    [TBool]: [0 <= x < 2], i.e. [x] is 0 or 1. *)
Definition in_range (t : nty) (x : Z) : bool := (lo t <=? x) && (x <? hi t).

(** ** The u64 encoding ([rt/num.rs]) *)

(** The [bits t]-bit pattern of a value (two's complement). *)
Definition pat (t : nty) (x : Z) : Z := x mod 2 ^ bits t.

(** Reading a [bits t]-bit pattern back at type [t]: patterns with the top bit
    set are negative for signed types. *)
Definition reinterp (t : nty) (m : Z) : Z :=
  if signed t && (2 ^ (bits t - 1) <=? m) then m - 2 ^ bits t else m.

(** [self as u64]: zero extension for unsigned types, sign extension for
    signed ones -- both are [x mod 2^64] on the mathematical value.
    [bool]: [if self { 1 } else { 0 }]. *)
Definition into_u64 (t : nty) (x : Z) : Z :=
  match t with
  | TBool => if x =? 0 then 0 else 1
  | _ => x mod 2 ^ 64
  end.

(** [src as T]: keep the low [bits t] bits and reinterpret.
    [bool]: [src != 0]. *)
Definition from_u64 (t : nty) (u : Z) : Z :=
  match t with
  | TBool => if u =? 0 then 0 else 1
  | _ => reinterp t (pat t u)
  end.

(** ** Read-modify-write functions *)

Inductive nrmw := FAdd | FSub | FAnd | FNand | FOr | FXor | FMax | FMin.

(** *** std semantics, on mathematical values *)

(** The value of type [t] congruent to [x] modulo [2^bits t]: the result of
    Rust's wrapping arithmetic. *)
Definition wrap (t : nty) (x : Z) : Z :=
  if signed t
  then (x + 2 ^ (bits t - 1)) mod 2 ^ bits t - 2 ^ (bits t - 1)
  else x mod 2 ^ bits t.

Definition z2b (x : Z) : bool := negb (x =? 0).

(** Coq's [Z.land]/[Z.lor]/[Z.lxor]/[Z.lnot] are two's complement on negative
    numbers, hence directly the Rust operators on signed integers. *)
Definition std_rmw (t : nty) (f : nrmw) (x v : Z) : Z :=
  match t with
  | TBool =>
      match f with
      | FAnd => Z.b2z (z2b x && z2b v)
      | FNand => Z.b2z (negb (z2b x && z2b v))
      | FOr => Z.b2z (z2b x || z2b v)
      | FXor => Z.b2z (xorb (z2b x) (z2b v))
      (* not offered by AtomicBool; excluded by [op_ok] *)
      | FAdd | FSub | FMax | FMin => x
      end
  | _ =>
      match f with
      | FAdd => wrap t (x + v)
      | FSub => wrap t (x - v)
      | FAnd => Z.land x v
      | FNand => wrap t (Z.lnot (Z.land x v))
      | FOr => Z.lor x v
      | FXor => Z.lxor x v
      | FMax => Z.max x v
      | FMin => Z.min x v
      end
  end.

(** *** loom semantics: the closure at type [T], on bit patterns *)

(** The closures passed to [Atomic::rmw] in [sync/atomic/int.rs] and
    [bool.rs], written the way the machine evaluates them at type [T]:
    arithmetic and bitwise operators act on the [bits t]-bit patterns of
    both operands and the resulting pattern is read back at type [t];
    [max]/[min] compare at type [T].  For [bool] the operators are given
    arithmetically on 0/1. *)
Definition loom_closure (t : nty) (f : nrmw) (x v : Z) : Z :=
  match t with
  | TBool =>
      match f with
      | FAnd => x * v
      | FNand => 1 - x * v
      | FOr => x + v - x * v
      | FXor => (x + v) mod 2
      | FAdd | FSub | FMax | FMin => x
      end
  | _ =>
      let px := pat t x in
      let pv := pat t v in
      match f with
      | FAdd => reinterp t ((px + pv) mod 2 ^ bits t)
      | FSub => reinterp t ((px - pv) mod 2 ^ bits t)
      | FAnd => reinterp t (Z.land px pv)
      | FNand => reinterp t (2 ^ bits t - 1 - Z.land px pv)
      | FOr => reinterp t (Z.lor px pv)
      | FXor => reinterp t (Z.lxor px pv)
      | FMax => if x <? v then v else x
      | FMin => if v <? x then v else x
      end
  end.

(** [|num| f(T::from_u64(num)).map(T::into_u64)] *)
Definition loom_rmw (t : nty) (f : nrmw) (u : Z) (v : Z) : Z :=
  into_u64 t (loom_closure t f (from_u64 t u) v).

(** ** Operations *)

Inductive nop :=
| NLoad
| NStore (v : Z)
| NSwap (v : Z)
| NRmw (f : nrmw) (v : Z)          (* fetch_add, fetch_sub, ... *)
| NCas (e n : Z)                   (* compare_exchange *)
| NCasWeak (e n : Z)               (* compare_exchange_weak *)
| NCompareAndSwap (e n : Z)
| NFetchUpdate (f : nrmw) (v : Z)  (* fetch_update(|x| Some(f x v)) *)
| NFetchUpdateNone                 (* fetch_update(|_| None) *)
| NWithMut (v : Z)                 (* with_mut(|x| *x = v), logging the old value *)
| NUnsyncLoad
| NIntoInner.

Inductive nres := NRUnit | NRVal (v : Z) | NROk (v : Z) | NRErr (v : Z).

(** Which [fetch_*] exist: all eight on integers, the four logical ones on
    [AtomicBool], none on [AtomicPtr]. *)
Definition rmw_allowed (t : nty) (f : nrmw) : bool :=
  match t with
  | TPtr => false
  | TBool => match f with FAnd | FNand | FOr | FXor => true | _ => false end
  | _ => true
  end.

(** Operands are values of the type and the method exists. *)
Definition op_ok (t : nty) (o : nop) : bool :=
  match o with
  | NLoad | NFetchUpdateNone | NUnsyncLoad | NIntoInner => true
  | NStore v | NSwap v | NWithMut v => in_range t v
  | NCas e n | NCasWeak e n | NCompareAndSwap e n => in_range t e && in_range t n
  | NRmw f v | NFetchUpdate f v => in_range t v && rmw_allowed t f
  end.

(** *** loom: through the u64 cell *)

(** [compare_exchange]: [try_rmw(|actual| if actual == current { Ok(new) }
    else { Err(actual) })]; on [Err] nothing is stored. *)
Definition loom_cas (t : nty) (cell : Z) (e n : Z) : Z * bool * Z :=
  let actual := from_u64 t cell in
  if actual =? e then (into_u64 t n, true, actual) else (cell, false, actual).

Definition loom_step (t : nty) (cell : Z) (o : nop) : Z * nres :=
  match o with
  | NLoad | NUnsyncLoad | NIntoInner => (cell, NRVal (from_u64 t cell))
  | NStore v => (into_u64 t v, NRUnit)
  | NSwap v => (into_u64 t v, NRVal (from_u64 t cell))          (* rmw(|_| val) *)
  | NRmw f v => (loom_rmw t f cell v, NRVal (from_u64 t cell))
  | NCas e n | NCasWeak e n =>
      let '(cell', ok, prev) := loom_cas t cell e n in
      (cell', if ok then NROk prev else NRErr prev)
  | NCompareAndSwap e n =>
      let '(cell', _, prev) := loom_cas t cell e n in (cell', NRVal prev)
  | NFetchUpdate f v =>
      (* prev = load; next = f(prev); compare_exchange(prev, next).  With a
         single thread the CAS reads the store the load read, so the loop
         body runs once; the (unreachable) failure branch reports [Err]. *)
      let prev := from_u64 t cell in
      let next := loom_closure t f prev v in
      let '(cell', ok, actual) := loom_cas t cell prev next in
      (cell', if ok then NROk actual else NRErr actual)
  | NFetchUpdateNone => (cell, NRErr (from_u64 t cell))
  | NWithMut v =>
      (* value = from_u64(cell); f(&mut value); on drop cell = into_u64(value) *)
      (into_u64 t v, NRVal (from_u64 t cell))
  end.

(** *** std: directly on values *)

Definition std_step (t : nty) (cell : Z) (o : nop) : Z * nres :=
  match o with
  | NLoad | NUnsyncLoad | NIntoInner => (cell, NRVal cell)
  | NStore v => (v, NRUnit)
  | NSwap v => (v, NRVal cell)
  | NRmw f v => (std_rmw t f cell v, NRVal cell)
  | NCas e n | NCasWeak e n =>
      if cell =? e then (n, NROk cell) else (cell, NRErr cell)
  | NCompareAndSwap e n =>
      if cell =? e then (n, NRVal cell) else (cell, NRVal cell)
  | NFetchUpdate f v => (std_rmw t f cell v, NROk cell)
  | NFetchUpdateNone => (cell, NRErr cell)
  | NWithMut v => (v, NRVal cell)
  end.

(** ** Runs *)

Fixpoint steps (step : Z -> nop -> Z * nres) (cell : Z) (ops : list nop)
  : list nres * Z :=
  match ops with
  | [] => ([], cell)
  | o :: ops' =>
      let '(cell', r) := step cell o in
      let '(rs, final) := steps step cell' ops' in
      (r :: rs, final)
  end.

(** [Atomic::new(init)] stores [init.into_u64()]; the final content is
    observed decoded. *)
Definition loom_run (t : nty) (init : Z) (ops : list nop) : list nres * Z :=
  let '(rs, cell) := steps (loom_step t) (into_u64 t init) ops in
  (rs, from_u64 t cell).

Definition std_run (t : nty) (init : Z) (ops : list nop) : list nres * Z :=
  steps (std_step t) init ops.
