(* Towards the bridge between the one-cell machine of AtomicCoRR.v /
   AtomicClosure.v and the executions of Ops.v.

   1. XGrow.  [grow st t v]: clock_t := clock_t join v, for an ARBITRARY view v
      that is [admissible]: forall u <> t, v[u] <= clock_u[u] (what
      ClockFacts.run_clock_wf provides for every view stored in an execution
      state).  [grow_goodO] / [grow_goodS]: the full invariant GoodS survives;
      [grow_facts], [grow_knows]; XSync u is the instance v := clock_u
      ([sync_is_grow], [sync_admissible]); [sync_view_admissible].
   1b. [EqSt]: states that differ only in tracking clocks and st_value;
      [unsync_load_step] (MUnsyncLoad) and [with_mut_step] (MWithMut, fix D23):
      [unsync_load_out], [with_mut_out].
   2. The generalised machine [bstep] / [brun]:
        BOp op            the model's XLoad / XStore / XRmw / XSync (released = vv_new)
        BGrow v           any other synchronisation
        BStoreR rel v o   MStorePost with an arbitrary released clock rel <= clock
        BRmwR rel ...     MRmwPost  with an arbitrary released clock
        BUnsyncLoad, BWithMut v
      [bstep_out]: every step preserves GoodO and StampO, satisfies [ext], and
      only grows the clocks; [bstep_goodS], [brun_goodS], [brun_stable],
      [brun_knows], [brun_atomicity], [brun_never_none], [CoRR_CoWR_b],
      [CoRR_CoWR_rmw_b], [CoRR_same_thread_b], [CoWR_same_thread_b],
      [CoRW_same_thread_b], [CoWW_same_thread_b].
      (InvO no longer contains "every clock dominates the tracking clocks":
      a step simply does not exist when track_* panics, as in mstep.)
   3. The start: [atomic_new_eq], [atomic_new_goodS]: the cell may be created by
      ANY thread with ANY clock in a system of threads with arbitrary bounded
      clocks (no domination hypothesis any more).
   4. The calls Ops.v makes are machine steps: [load_call_is_step] (any
      last_yield), [store_call_is_step], [rmw_call_is_step].
   5. The micro-operations of Ops.v on the execution record, with
      clocks e := map t_caus (e_threads e):
        [MStorePost_is_step]   -> BStoreR (t_rel t0)       (needs t_rel <= t_caus)
        [MLoadPost_is_step]    -> BOp (XLoad idx o)
        [MFuLoadPost_is_step]  -> BOp (XLoad idx fo)
        [MRmwPost_is_step]     -> BRmwR (t_rel t0) idx (rmw_fun k)
        [MUnsyncLoad_is_step]  -> BUnsyncLoad
        [MWithMut_is_step]     -> BWithMut v
      Stated hypotheses: (a) "the index chosen by choose_store is a candidate"
      for the three loads/RMWs -- true when the path is being extended, a
      whole-exploration property on replay (Ops.choose_store takes the recorded
      index without checking it); (b) vle (t_rel t0) (t_caus t0): t_rel is only
      ever set to a snapshot of t_caus (ClockFacts.tstep), so it is an invariant
      of executions, but it is not proved in ClockFacts.v and not here; (c) the
      ring is not full (wrap-around is out of scope).
      Building blocks for the remaining frame property: [ga_upd_object_other],
      [clocks_upd_thread_keep], [clocks_log_op], [clocks_push_cont],
      [set_caus_join_is_grow], [choose_store_frame].

   STILL MISSING for "every run of Ops.v projects to a run of brun on every
   atomic": the frame lemma over ALL other micro-operations and schedule()
   (each leaves atomic a alone and is a BGrow / identity on clocks e, with
   ClockFacts.run_clock_wf for admissibility), spawn (pad the clock list to
   MAX_THREADS with vv_new; needs "components of unspawned threads are 0"), the
   invariant t_rel <= t_caus, and then the induction over SyncMono.steps. *)
Require Import LV.Base LV.VV LV.VVFacts LV.Path LV.Prog LV.Objects LV.Atomic LV.AtomicFacts
               LV.AtomicCoherence LV.AtomicCoRR LV.AtomicClosure LV.Exec LV.Ops.
From Coq Require Import Lia.

Set Implicit Arguments.

(* ------------------------------------------------------------------ *)
(* 1. XGrow: thread t joins an arbitrary admissible view into its clock  *)

(* v knows no more about another thread u than u knows about itself *)
Definition admissible (cs : list vv) (t : nat) (v : vv) : Prop :=
  forall u, u < length cs -> u <> t -> vv_get v u <= vv_get (clk cs u) u.

Definition grow (st : mstate) (t : nat) (v : vv) : mstate :=
  (fst st, list_set (snd st) t (vv_join (clk (snd st) t) v)).

Lemma grow_clk : forall cs t v, t < length cs ->
  forall u, vle (clk cs u) (clk (list_set cs t (vv_join (clk cs t) v)) u).
Proof. intros cs t v Ht. apply (@clk_set_grow cs t _ Ht). apply vle_join_l. Qed.

Theorem grow_goodO : forall own rk s cs t v,
  GoodO own rk s cs -> StampO s cs -> t < length cs -> admissible cs t v ->
  GoodO own rk s (list_set cs t (vv_join (clk cs t) v)) /\
  StampO s (list_set cs t (vv_join (clk cs t) v)).
Proof.
  intros own rk s cs t v [HI [HL [HC HSy]]] HS Ht Hadm. split.
  - split; [|split; [exact HL | split; [exact HC | exact HSy]]].
    apply (InvO_clock HI Ht).
    + apply vle_join_l.
    + rewrite vv_join_length. pose proof (i_clen HI Ht). lia.
    + intros u Hu Hne. rewrite vv_get_join. pose proof (i_bclk HI Ht Hu). pose proof (Hadm u Hu Hne). lia.
  - apply (@stamp_clock s cs _ HS (@grow_clk cs t v Ht)).
Qed.

Theorem grow_goodS : forall st t v,
  GoodS st -> t < length (snd st) -> admissible (snd st) t v -> GoodS (grow st t v).
Proof.
  intros [s cs] t v [[own [rk HG]] HS] Ht Hadm. cbn [fst snd] in *.
  destruct (@grow_goodO own rk s cs t v HG HS Ht Hadm) as [HG' HS'].
  split; [exists own, rk; exact HG' | exact HS'].
Qed.

(* XSync u is the instance v := the current clock of u *)
Lemma sync_is_grow : forall tr st t u st',
  mstep tr st t (XSync u) = Some st' -> st' = grow st t (clk (snd st) u).
Proof.
  intros tr [s cs] t u st' H. unfold mstep in H.
  destruct (negb (Nat.ltb t (length cs))); [discriminate|].
  destruct (Nat.ltb u (length cs)); [|discriminate]. inversion H. reflexivity.
Qed.

Lemma sync_admissible : forall own s cs t u,
  InvO own s cs -> u < length cs -> admissible cs t (clk cs u).
Proof. intros own s cs t u HI Hu w Hw _. apply (i_bclk HI Hu Hw). Qed.

(* a grow step changes no store and only enlarges what threads know *)
Lemma grow_facts : forall st t v, t < length (snd st) ->
  fst (grow st t v) = fst st /\
  (forall a b, mo_lt (grow st t v) a b = mo_lt st a b) /\
  (forall u i, knows st u i -> knows (grow st t v) u i).
Proof.
  intros [s cs] t v Ht. cbn [fst snd] in Ht. split; [reflexivity|]. split; [reflexivity|].
  intros u i Hk. unfold knows, grow in *. cbn [fst snd] in *.
  apply (seen_clock_mono _ _ _ (@grow_clk cs t v Ht u) Hk).
Qed.

(* ------------------------------------------------------------------ *)
(* 1b. UnsafeCell-style accesses (MUnsyncLoad, MWithMut after fix D23): they
       tick the clock, change the tracking clocks and the newest value, and
       leave every clock of every store alone                            *)

Definition EqSt (s s' : atomic_state) : Prop :=
  at_cnt s' = at_cnt s /\ at_mutating s' = at_mutating s /\
  length (at_stores s') = length (at_stores s) /\
  (forall k, at_cnt s <= k -> get_store s' k = get_store s k) /\
  forall k,
    st_hb (get_store s' k) = st_hb (get_store s k) /\
    st_mo (get_store s' k) = st_mo (get_store s k) /\
    st_sync (get_store s' k) = st_sync (get_store s k) /\
    st_seen (get_store s' k) = st_seen (get_store s k) /\
    st_id (get_store s' k) = st_id (get_store s k) /\
    st_rmw_src (get_store s' k) = st_rmw_src (get_store s k).

Section EqStFacts.
  Variables s s' : atomic_state.
  Hypothesis HE : EqSt s s'.

  Lemma eq_mo : forall k, mo s' k = mo s k.
  Proof. intros k. unfold mo. destruct HE as [_ [_ [_ [_ F]]]]. apply (F k). Qed.
  Lemma eq_hbk : forall own k, hbk own s' k = hbk own s k.
  Proof. intros own k. unfold hbk. destruct HE as [_ [_ [_ [_ F]]]]. destruct (F k) as [H _]. rewrite H. reflexivity. Qed.
  Lemma eq_K : forall own x y, K own s' x y <-> K own s x y.
  Proof. intros own x y. unfold K. rewrite eq_hbk, eq_mo. tauto. Qed.
  Lemma eq_cnt : at_cnt s' = at_cnt s.
  Proof. apply HE. Qed.
  Lemma eq_seen : forall k, st_seen (get_store s' k) = st_seen (get_store s k).
  Proof. intros k. destruct HE as [_ [_ [_ [_ F]]]]. apply (F k). Qed.
  Lemma eq_sync : forall k, st_sync (get_store s' k) = st_sync (get_store s k).
  Proof. intros k. destruct HE as [_ [_ [_ [_ F]]]]. apply (F k). Qed.
  Lemma eq_id : forall k, st_id (get_store s' k) = st_id (get_store s k).
  Proof. intros k. destruct HE as [_ [_ [_ [_ F]]]]. apply (F k). Qed.
  Lemma eq_src : forall k, st_rmw_src (get_store s' k) = st_rmw_src (get_store s k).
  Proof. intros k. destruct HE as [_ [_ [_ [_ F]]]]. apply (F k). Qed.

  Lemma EqSt_GoodO : forall own rk cs, GoodO own rk s cs -> GoodO own rk s' cs.
  Proof.
    intros own rk cs [HI [HL [HC HSy]]]. pose proof eq_cnt as A.
    destruct HE as [_ [B [E [D _]]]].
    split; [|split; [|split]].
    - constructor.
      + rewrite E. apply (i_len HI).
      + rewrite A. apply (i_cnt1 HI).
      + rewrite A. apply (i_cnt7 HI).
      + rewrite B. apply (i_mut HI).
      + apply (i_nthr HI).
      + apply (i_clen HI).
      + intros k Hk. rewrite A in Hk. rewrite (D k Hk). apply (i_dead HI Hk).
      + intros k Hk. rewrite A in Hk. apply (i_own HI Hk).
      + intros k Hk. rewrite A in Hk. rewrite eq_hbk, eq_mo. apply (i_key1 HI Hk).
      + intros k Hk. rewrite A in Hk. rewrite eq_hbk, eq_seen. apply (i_seen HI Hk).
      + intros k Hk. rewrite A in Hk. apply eq_K. apply (i_hbmo HI Hk).
      + intros k u Hk Hu. rewrite A in Hk. rewrite eq_mo. apply (i_bmo HI Hk Hu).
      + intros k u Hk Hu. rewrite A in Hk. rewrite eq_sync. apply (i_bsync HI Hk Hu).
      + apply (i_bclk HI).
      + intros x y Hx Hy HK. rewrite A in Hx, Hy. rewrite !eq_mo. apply (i_star HI Hx Hy). apply eq_K. exact HK.
      + intros x y Hx Hy Hne H1 H2. rewrite A in Hx, Hy. apply (i_D HI Hx Hy Hne); apply eq_K; assumption.
    - constructor.
      + intros k Hk. rewrite A in Hk. rewrite eq_id. apply (lk_id HL Hk).
      + intros r sl sid Hr Hs. rewrite A in Hr. rewrite eq_src in Hs. apply (lk_src HL Hr Hs).
      + intros r sl sid Hr Hs. rewrite A in Hr. rewrite eq_src in Hs. apply eq_K. apply (lk_ord HL Hr Hs).
      + intros x y Hx Hy. rewrite A in Hx, Hy. apply (ln_inj HL Hx Hy).
      + intros x y Hx Hy Hne HK. rewrite A in Hx, Hy. apply (ln_ext HL Hx Hy Hne). apply eq_K. exact HK.
      + intros r sl sid x Hr Hs Hx. rewrite A in Hr, Hx. rewrite eq_src in Hs. apply (ln_adj HL Hr Hs Hx).
    - intros r sl sid x Hr Hs Hx Hn1 Hn2. rewrite A in Hr, Hx. rewrite eq_src in Hs.
      destruct (HC r sl sid x Hr Hs Hx Hn1 Hn2) as [H1 H2].
      split; intros H; apply eq_K; [apply H1 | apply H2]; apply eq_K; exact H.
    - intros x y Hx Hy H. rewrite A in Hx, Hy. rewrite eq_seen, eq_sync in H.
      apply eq_K. apply (HSy x y Hx Hy H).
  Qed.

  Lemma EqSt_StampO : forall cs, StampO s cs -> StampO s' cs.
  Proof.
    intros cs [Hb Hl]. constructor.
    - intros a u w Ha Hn. rewrite eq_cnt in Ha. rewrite eq_seen in Hn. apply (Hb a u w Ha Hn).
    - intros a Ha. rewrite eq_cnt in Ha. rewrite eq_seen. apply (Hl a Ha).
  Qed.

  Lemma EqSt_ext : forall own, ext own s own s'.
  Proof.
    intros own. split; [rewrite eq_cnt; apply le_n|]. intros a Ha.
    split; [reflexivity|]. split; [apply eq_hbk|]. split; [rewrite eq_mo; apply vle_refl|].
    intros c H. rewrite eq_seen. exact H.
  Qed.
End EqStFacts.

Lemma EqSt_same_stores : forall s s',
  at_cnt s' = at_cnt s -> at_mutating s' = at_mutating s -> at_stores s' = at_stores s -> EqSt s s'.
Proof.
  intros s s' Hc Hm Hst. unfold EqSt, get_store. rewrite Hst.
  split; [exact Hc|]. split; [exact Hm|]. split; [reflexivity|]. split; [reflexivity|].
  intros k. repeat split.
Qed.

Lemma track_unsync_load_inl : forall s c s1, track_unsync_load s c = inl s1 ->
  at_cnt s1 = at_cnt s /\ at_mutating s1 = at_mutating s /\ at_stores s1 = at_stores s.
Proof.
  intros s c s1 H. unfold track_unsync_load in H. destruct (at_mutating s); [discriminate|].
  destruct (vv_ahead c (at_unsync_mut s)); [discriminate|].
  destruct (vv_ahead c (at_stored s)); [discriminate|]. inversion H. repeat split.
Qed.

Lemma track_unsync_mut_inl : forall s c s1, track_unsync_mut s c = inl s1 ->
  at_cnt s1 = at_cnt s /\ at_mutating s1 = at_mutating s /\ at_stores s1 = at_stores s.
Proof.
  intros s c s1 H. unfold track_unsync_mut in H. destruct (at_mutating s); [discriminate|].
  destruct (vv_ahead c (at_loaded s)); [discriminate|].
  destruct (vv_ahead c (at_unsync_loaded s)); [discriminate|].
  destruct (vv_ahead c (at_stored s)); [discriminate|].
  destruct (vv_ahead c (at_unsync_mut s)); [discriminate|]. inversion H. repeat split.
Qed.

(* MUnsyncLoad *)
Definition unsync_load_step (st : mstate) (t : nat) : option mstate :=
  let '(s, cs) := st in
  if negb (Nat.ltb t (length cs)) then None else
  let c := vv_inc (clk cs t) t in
  match track_unsync_load s c with
  | inl s1 => Some (s1, list_set cs t c)
  | inr _ => None
  end.

(* MWithMut v *)
Definition with_mut_step (st : mstate) (t : nat) (v : N) : option mstate :=
  let '(s, cs) := st in
  if negb (Nat.ltb t (length cs)) then None else
  let c := vv_inc (clk cs t) t in
  match track_unsync_mut s c with
  | inl s1 =>
      let idx := aindex (at_cnt s1 - 1) in
      let s2 := at_set_stores s1 (list_upd (at_stores s1) idx (fun x => st_set_value x v)) (at_cnt s1) in
      match track_unsync_mut s2 c with
      | inl s3 => Some (s3, list_set cs t c)
      | inr _ => None
      end
  | inr _ => None
  end.

Lemma tick_out : forall own rk s s' cs t,
  GoodO own rk s cs -> StampO s cs -> t < length cs -> EqSt s s' ->
  StepOut own s cs s' (list_set cs t (vv_inc (clk cs t) t)).
Proof.
  intros own rk s s' cs t HG HS Ht HE. pose proof HG as [HI _].
  destruct (EqSt_GoodO HE HG) as [HI' [HL' [HC' HSy']]].
  exists own, rk. split; [split; [|split; [exact HL' | split; [exact HC' | exact HSy']]]|].
  - apply (InvO_clock HI' Ht (sf_le cs t) (sf_len HI Ht) (sf_oth HI Ht)).
  - split; [apply (@stamp_clock s' cs _ (EqSt_StampO HE HS) (@clk_set_grow cs t _ Ht (sf_le cs t)))|].
    split; [apply (EqSt_ext HE)|].
    split; [apply list_set_length | apply (@clk_set_grow cs t _ Ht (sf_le cs t))].
Qed.

Theorem unsync_load_out : forall own rk s cs t s' cs',
  GoodO own rk s cs -> StampO s cs -> unsync_load_step (s, cs) t = Some (s', cs') ->
  StepOut own s cs s' cs'.
Proof.
  intros own rk s cs t s' cs' HG HS H. unfold unsync_load_step in H.
  destruct (Nat.ltb_spec t (length cs)) as [Ht|Ht]; cbn [negb] in H; [|discriminate].
  destruct (track_unsync_load s (vv_inc (clk cs t) t)) as [s1|p] eqn:Htr; [|discriminate].
  inversion H. subst s' cs'. destruct (track_unsync_load_inl _ _ Htr) as [A [B C]].
  apply (@tick_out own rk s s1 cs t HG HS Ht (@EqSt_same_stores s s1 A B C)).
Qed.

Theorem with_mut_out : forall own rk s cs t v s' cs',
  GoodO own rk s cs -> StampO s cs -> with_mut_step (s, cs) t v = Some (s', cs') ->
  StepOut own s cs s' cs'.
Proof.
  intros own rk s cs t v s' cs' HG HS H. unfold with_mut_step in H.
  destruct (Nat.ltb_spec t (length cs)) as [Ht|Ht]; cbn [negb] in H; [|discriminate].
  destruct (track_unsync_mut s (vv_inc (clk cs t) t)) as [s1|p] eqn:Htr; [|discriminate].
  cbv zeta in H.
  match type of H with match track_unsync_mut ?S2 _ with _ => _ end = _ => set (s2 := S2) in * end.
  destruct (track_unsync_mut s2 (vv_inc (clk cs t) t)) as [s3|p] eqn:Htr2; [|discriminate].
  inversion H. subst s' cs'.
  destruct (track_unsync_mut_inl _ _ Htr) as [A [B C]].
  destruct (track_unsync_mut_inl _ _ Htr2) as [A2 [B2 C2]].
  pose proof HG as [HI _]. pose proof (i_cnt1 HI) as H1. pose proof (i_cnt7 HI) as H7.
  apply (@tick_out own rk s s3 cs t HG HS Ht).
  set (idx := aindex (at_cnt s1 - 1)) in *.
  assert (Hidx : idx < at_cnt s).
  { unfold idx. rewrite A. rewrite aindex_small by lia. lia. }
  assert (Hg : forall k, get_store s3 k = if Nat.eqb k idx then st_set_value (get_store s idx) v else get_store s k).
  { intros k. unfold get_store. rewrite C2. unfold s2. cbn [at_stores at_set_stores]. rewrite C.
    rewrite (@list_upd_nth astore (at_stores s) idx _ k store_default) by (rewrite (i_len HI); lia).
    reflexivity. }
  unfold EqSt. split; [rewrite A2; unfold s2; cbn [at_cnt at_set_stores]; exact A|].
  split; [rewrite B2; unfold s2; cbn [at_mutating at_set_stores]; exact B|].
  split; [rewrite C2; unfold s2; cbn [at_stores at_set_stores]; rewrite list_upd_length, C; reflexivity|].
  split.
  - intros k Hk. rewrite Hg. destruct (Nat.eqb_spec k idx); [lia | reflexivity].
  - intros k. rewrite Hg. destruct (Nat.eqb_spec k idx) as [e|_]; [subst k|]; repeat split.
Qed.

(* ------------------------------------------------------------------ *)
(* 2. the generalised machine                                           *)

Definition admissible_b (cs : list vv) (t : nat) (v : vv) : bool :=
  forallb (fun u => Nat.eqb u t || Nat.leb (vv_get v u) (vv_get (clk cs u) u)) (seq 0 (length cs)).

Lemma admissible_b_spec : forall cs t v, admissible_b cs t v = true <-> admissible cs t v.
Proof.
  intros cs t v. unfold admissible_b, admissible. rewrite forallb_forall. split.
  - intros H u Hu Hne. specialize (H u ltac:(apply in_seq; lia)).
    apply orb_true_iff in H. destruct H as [H|H]; [apply Nat.eqb_eq in H; contradiction | apply Nat.leb_le; exact H].
  - intros H u Hu. apply in_seq in Hu. destruct (Nat.eqb_spec u t) as [e|ne]; [reflexivity|].
    cbn [orb]. apply Nat.leb_le. apply H; lia.
Qed.

Inductive bop :=
  | BOp (op : aop)       (* an access / XSync of the model's machine (released = vv_new) *)
  | BGrow (v : vv)       (* any other synchronisation: join the admissible view v *)
  | BStoreR (rel : vv) (v : N) (o : ord)                       (* MStorePost with t_rel = rel *)
  | BRmwR (rel : vv) (idx : nat) (f : N -> option N) (so fo : ord)  (* MRmwPost with t_rel = rel *)
  | BUnsyncLoad          (* MUnsyncLoad *)
  | BWithMut (v : N).    (* MWithMut *)

Definition bstep (st : mstate) (t : nat) (b : bop) : option mstate :=
  match b with
  | BOp op => mstep RModel st t op
  | BGrow v => if Nat.ltb t (length (snd st)) && admissible_b (snd st) t v
               then Some (grow st t v) else None
  | BStoreR rel v o => store_stepR st t rel v o
  | BRmwR rel idx f so fo => rmw_stepR st t rel idx f so fo
  | BUnsyncLoad => unsync_load_step st t
  | BWithMut v => with_mut_step st t v
  end.

Fixpoint brun (st : mstate) (evs : list (nat * bop)) : option mstate :=
  match evs with
  | [] => Some st
  | (t, b) :: r => match bstep st t b with Some st' => brun st' r | None => None end
  end.

Lemma bstep_grow_inv : forall st t v st',
  bstep st t (BGrow v) = Some st' ->
  t < length (snd st) /\ admissible (snd st) t v /\ st' = grow st t v.
Proof.
  intros st t v st' H. cbn [bstep] in H.
  destruct (Nat.ltb_spec t (length (snd st))) as [Ht|Ht]; [|discriminate].
  destruct (admissible_b (snd st) t v) eqn:Ha; [|discriminate]. cbn [andb] in H. inversion H.
  split; [exact Ht|]. split; [apply admissible_b_spec; exact Ha | reflexivity].
Qed.

(* every step: invariant, stamps, [ext] of AtomicCoRR.v, clocks only grow *)
Theorem bstep_out : forall own rk s cs t b s' cs',
  GoodO own rk s cs -> StampO s cs -> bstep (s, cs) t b = Some (s', cs') ->
  StepOut own s cs s' cs'.
Proof.
  intros own rk s cs t b s' cs' HG HS H. destruct b as [op|v|rel v o|rel idx f so fo| |v]; cbn [bstep] in H.
  - apply (@mstep_goodO own rk s cs t op s' cs' HG HS H).
  - destruct (@bstep_grow_inv (s, cs) t v (s', cs') H) as [Ht [Ha He]]. cbn [snd] in Ht, Ha.
    unfold grow in He. cbn [fst snd] in He. inversion He. subst s' cs'.
    destruct (@grow_goodO own rk s cs t v HG HS Ht Ha) as [HG' HS'].
    exists own, rk. split; [exact HG'|]. split; [exact HS'|]. split; [apply ext_refl|].
    split; [apply list_set_length | apply (@grow_clk cs t v Ht)].
  - apply (@store_stepR_goodO own rk s cs t rel v o s' cs' HG HS H).
  - apply (@rmw_stepR_goodO own rk s cs t rel idx f so fo s' cs' HG HS H).
  - apply (@unsync_load_out own rk s cs t s' cs' HG HS H).
  - apply (@with_mut_out own rk s cs t v s' cs' HG HS H).
Qed.

Theorem bstep_goodS : forall st t b st', GoodS st -> bstep st t b = Some st' -> GoodS st'.
Proof.
  intros [s cs] t b [s' cs'] [[own [rk HG]] HS] H. cbn [fst snd] in *.
  destruct (@bstep_out own rk s cs t b s' cs' HG HS H) as [own' [rk' [HG' [HS' _]]]].
  split; [exists own', rk'; exact HG' | exact HS'].
Qed.

Theorem brun_goodS : forall evs st st', GoodS st -> brun st evs = Some st' -> GoodS st'.
Proof.
  induction evs as [|[t b] evs IH]; intros st st' HG Hrun.
  - cbn [brun] in Hrun. inversion Hrun. subst st'. exact HG.
  - cbn [brun] in Hrun. destruct (bstep st t b) as [st1|] eqn:Hs; [|discriminate].
    apply (IH st1 st' (@bstep_goodS st t b st1 HG Hs) Hrun).
Qed.

Theorem bstep_stable : forall st t b st' x y,
  GoodS st -> bstep st t b = Some st' ->
  lives st x -> lives st y -> mo_lt st x y = true ->
  lives st' x /\ lives st' y /\ mo_lt st' x y = true.
Proof.
  intros [s cs] t b [s' cs'] x y [[own [rk HG]] HS] H Hx Hy Hlt.
  unfold lives in *. cbn [fst snd] in *.
  destruct (@bstep_out own rk s cs t b s' cs' HG HS H) as [own' [rk' [[HI' _] [_ [[Hc Hext] _]]]]].
  destruct HG as [HI _].
  assert (Hx' : x < at_cnt s') by lia. assert (Hy' : y < at_cnt s') by lia.
  split; [exact Hx'|]. split; [exact Hy'|].
  change (vv_lt (mo s x) (mo s y) = true) in Hlt. change (vv_lt (mo s' x) (mo s' y) = true).
  apply (lt_iff_K HI Hx Hy) in Hlt. destruct Hlt as [Hne HK].
  apply (lt_iff_K HI' Hx' Hy'). split; [exact Hne|].
  destruct (Hext x Hx) as [Ho [Hh _]]. destruct (Hext y Hy) as [_ [_ [Hg _]]].
  unfold K in *. rewrite Ho, Hh. specialize (Hg (own x)). lia.
Qed.

Theorem bstep_knows : forall st t b st' u i,
  GoodS st -> bstep st t b = Some st' ->
  lives st i -> knows st u i -> lives st' i /\ knows st' u i.
Proof.
  intros [s cs] t b [s' cs'] u i [[own [rk HG]] HS] H Hi Hk.
  unfold lives, knows in *. cbn [fst snd] in *.
  destruct (@bstep_out own rk s cs t b s' cs' HG HS H) as [own' [rk' [_ [_ [[Hc Hext] [_ Hg]]]]]].
  split; [lia|]. destruct (Hext i Hi) as [_ [_ [_ Hs]]].
  apply (seen_clock_mono _ _ _ (Hg u)). apply Hs. exact Hk.
Qed.

Theorem brun_stable : forall evs st st' x y,
  GoodS st -> brun st evs = Some st' ->
  lives st x -> lives st y -> mo_lt st x y = true ->
  lives st' x /\ lives st' y /\ mo_lt st' x y = true.
Proof.
  induction evs as [|[t b] evs IH]; intros st st' x y HG Hrun Hx Hy Hlt.
  - cbn [brun] in Hrun. inversion Hrun. subst st'. repeat split; assumption.
  - cbn [brun] in Hrun. destruct (bstep st t b) as [st1|] eqn:Hs; [|discriminate].
    destruct (@bstep_stable st t b st1 x y HG Hs Hx Hy Hlt) as [Hx1 [Hy1 Hlt1]].
    apply (IH st1 st' x y (@bstep_goodS st t b st1 HG Hs) Hrun Hx1 Hy1 Hlt1).
Qed.

Theorem brun_knows : forall evs st st' u i,
  GoodS st -> brun st evs = Some st' ->
  lives st i -> knows st u i -> lives st' i /\ knows st' u i.
Proof.
  induction evs as [|[t b] evs IH]; intros st st' u i HG Hrun Hi Hk.
  - cbn [brun] in Hrun. inversion Hrun. subst st'. split; assumption.
  - cbn [brun] in Hrun. destruct (bstep st t b) as [st1|] eqn:Hs; [|discriminate].
    destruct (@bstep_knows st t b st1 u i HG Hs Hi Hk) as [Hi1 Hk1].
    apply (IH st1 st' u i (@bstep_goodS st t b st1 HG Hs) Hrun Hi1 Hk1).
Qed.

(* an admissible view that has seen store i makes t know i *)
Theorem grow_knows : forall st t v i,
  t < length (snd st) ->
  is_seen_by_current (st_seen (get_store (fst st) i)) v = true -> knows (grow st t v) t i.
Proof.
  intros [s cs] t v i Ht H. unfold knows, grow. cbn [fst snd] in *.
  rewrite (clk_set cs t _ t Ht), Nat.eqb_refl.
  apply (seen_clock_mono _ _ _ (vle_join_r (clk cs t) v) H).
Qed.

(* ---- coherence over runs of the generalised machine ---- *)
Theorem CoRR_CoWR_b : forall st1 evs st2 t i j o,
  GoodS st1 -> lives st1 i -> lives st1 j -> knows st1 t j -> mo_lt st1 i j = true ->
  brun st1 evs = Some st2 ->
  mstep RModel st2 t (XLoad i o) = None.
Proof.
  intros st1 evs st2 t i j o HG Hi Hj Hk Hlt Hrun.
  destruct (@brun_stable evs st1 st2 i j HG Hrun Hi Hj Hlt) as [Hi2 [Hj2 Hlt2]].
  destruct (@brun_knows evs st1 st2 t j HG Hrun Hj Hk) as [_ Hk2].
  apply (@CoRR_CoWR_model st2 [] st2 t i j o (@brun_goodS evs st1 st2 HG Hrun) Hi2 Hj2 Hk2 Hlt2 eq_refl).
Qed.

Theorem CoRR_CoWR_rmw_b : forall st1 evs st2 t i j f so fo,
  GoodS st1 -> lives st1 i -> lives st1 j -> mo_lt st1 i j = true ->
  brun st1 evs = Some st2 ->
  mstep RModel st2 t (XRmw i f so fo) = None.
Proof.
  intros st1 evs st2 t i j f so fo HG Hi Hj Hlt Hrun.
  destruct (@brun_stable evs st1 st2 i j HG Hrun Hi Hj Hlt) as [Hi2 [Hj2 Hlt2]].
  apply (@CoRR_CoWR_rmw_model st2 [] st2 t i j f so fo (@brun_goodS evs st1 st2 HG Hrun) Hi2 Hj2 Hlt2 eq_refl).
Qed.

Theorem CoRR_same_thread_b : forall st0 t j o st1 evs st2 i o',
  GoodS st0 -> mstep RModel st0 t (XLoad j o) = Some st1 ->
  lives st1 i -> mo_lt st1 i j = true ->
  brun st1 evs = Some st2 ->
  mstep RModel st2 t (XLoad i o') = None.
Proof.
  intros st0 t j o st1 evs st2 i o' HG Hs Hi Hlt Hrun.
  destruct (@load_knows_model st0 t j o st1 HG Hs) as [Hj Hk].
  apply (@CoRR_CoWR_b st1 evs st2 t i j o' (@mstep_goodS st0 t (XLoad j o) st1 HG Hs) Hi Hj Hk Hlt Hrun).
Qed.

Theorem CoWR_same_thread_b : forall st0 t v o st1 evs st2 i o',
  GoodS st0 -> mstep RModel st0 t (XStore v o) = Some st1 ->
  lives st1 i -> mo_lt st1 i (at_cnt (fst st0)) = true ->
  brun st1 evs = Some st2 ->
  mstep RModel st2 t (XLoad i o') = None.
Proof.
  intros st0 t v o st1 evs st2 i o' HG Hs Hi Hlt Hrun.
  destruct (@store_knows_model st0 t v o st1 HG Hs) as [Hj Hk].
  apply (@CoRR_CoWR_b st1 evs st2 t i (at_cnt (fst st0)) o'
           (@mstep_goodS st0 t (XStore v o) st1 HG Hs) Hi Hj Hk Hlt Hrun).
Qed.

Theorem CoRW_same_thread_b : forall st0 t j o st1 evs st2 v o' st3,
  GoodS st0 -> mstep RModel st0 t (XLoad j o) = Some st1 ->
  brun st1 evs = Some st2 ->
  mstep RModel st2 t (XStore v o') = Some st3 ->
  mo_lt st3 j (at_cnt (fst st2)) = true.
Proof.
  intros st0 t j o st1 evs st2 v o' st3 HG Hs Hrun Hs3.
  destruct (@load_knows_model st0 t j o st1 HG Hs) as [Hj Hk].
  pose proof (@mstep_goodS st0 t (XLoad j o) st1 HG Hs) as HG1.
  destruct (@brun_knows evs st1 st2 t j HG1 Hrun Hj Hk) as [Hj2 Hk2].
  apply (@CoWW_CoRW_model st2 t v o' st3 j (@brun_goodS evs st1 st2 HG1 Hrun) Hj2 Hk2 Hs3).
Qed.

Theorem CoWW_same_thread_b : forall st0 t v o st1 evs st2 v' o' st3,
  GoodS st0 -> mstep RModel st0 t (XStore v o) = Some st1 ->
  brun st1 evs = Some st2 ->
  mstep RModel st2 t (XStore v' o') = Some st3 ->
  mo_lt st3 (at_cnt (fst st0)) (at_cnt (fst st2)) = true.
Proof.
  intros st0 t v o st1 evs st2 v' o' st3 HG Hs Hrun Hs3.
  destruct (@store_knows_model st0 t v o st1 HG Hs) as [Hj Hk].
  pose proof (@mstep_goodS st0 t (XStore v o) st1 HG Hs) as HG1.
  destruct (@brun_knows evs st1 st2 t (at_cnt (fst st0)) HG1 Hrun Hj Hk) as [Hj2 Hk2].
  apply (@CoWW_CoRW_model st2 t v' o' st3 (at_cnt (fst st0)) (@brun_goodS evs st1 st2 HG1 Hrun) Hj2 Hk2 Hs3).
Qed.

(* in every state of every run: RMW atomicity, and assert_ne! cannot fire *)
Theorem brun_atomicity : forall evs st st' r sl sid,
  GoodS st -> brun st evs = Some st' -> r < at_cnt (fst st') ->
  st_rmw_src (get_store (fst st') r) = Some (sl, sid) ->
  sl < at_cnt (fst st') /\ vv_lt (mo (fst st') sl) (mo (fst st') r) = true /\
  forall x, x < at_cnt (fst st') ->
    vv_lt (mo (fst st') sl) (mo (fst st') x) && vv_lt (mo (fst st') x) (mo (fst st') r) = false.
Proof.
  intros evs st st' r sl sid HG Hrun. apply Good_atomicity. apply GoodS_Good.
  apply (@brun_goodS evs st st' HG Hrun).
Qed.

Theorem brun_never_none : forall evs st st', GoodS st -> brun st evs = Some st' ->
  (forall t c ly o, match_load_to_stores (fst st') t c ly o <> None) /\
  match_rmw_to_stores (fst st') <> None.
Proof.
  intros evs st st' HG Hrun. apply Good_never_none. apply GoodS_Good.
  apply (@brun_goodS evs st st' HG Hrun).
Qed.

(* ------------------------------------------------------------------ *)
(* 3. the start: the cell is created by ANY thread at ANY point          *)

Definition s_new (me : nat) (c0 : vv) (v0 : N) : atomic_state :=
  mkAtomic vv_new vv_new vv_new (vv_join vv_new c0) false (repeat None MAX_THREADS) None
    (mkStore v0 c0 c0 (sync_store vv_new c0 vv_new Release)
             (seen_touch seen_new me (vv_get c0 me)) false 0 None
     :: repeat store_default 6) 1.

Lemma atomic_new_eq : forall me c0 v0, atomic_new me c0 vv_new v0 = inl (s_new me c0 v0).
Proof.
  intros me c0 v0. unfold atomic_new, track_unsync_mut.
  cbn [at_mutating at_loaded at_unsync_loaded at_stored at_unsync_mut].
  assert (Ha : vv_ahead c0 vv_new = None) by (apply vv_ahead_none; apply vle_new).
  rewrite Ha. reflexivity.
Qed.

Theorem atomic_new_goodS : forall me c0 v0 cs,
  me < length cs -> length cs <= MAX_THREADS -> clk cs me = c0 ->
  (1 <= vv_get c0 me \/ forall q, vv_get c0 q = 0) ->
  (forall t, t < length cs -> t < length (clk cs t)) ->
  (forall u t, u < length cs -> t < length cs -> vv_get (clk cs u) t <= vv_get (clk cs t) t) ->
  GoodS (s_new me c0 v0, cs).
Proof.
  intros me c0 v0 cs Hme Hn Hc0 Hk1 Hclen Hbclk.
  set (s := s_new me c0 v0).
  assert (H0 : forall a, a < at_cnt s -> a = 0) by (intros a Ha; cbn in Ha; lia).
  assert (Hsrc : forall r sl sid, r < at_cnt s -> st_rmw_src (get_store s r) = Some (sl, sid) -> False).
  { intros r sl sid Hr Hs. rewrite (H0 r Hr) in Hs. discriminate. }
  assert (HmeT : me < MAX_THREADS) by lia.
  assert (Hseen0 : nth_error (st_seen (get_store s 0)) me = Some (Some (vv_get c0 me))).
  { cbn. apply seen_touch_new. exact HmeT. }
  assert (HI : InvO (fun _ => me) s cs).
  { constructor.
    - reflexivity.
    - cbn. lia.
    - cbn. unfold MAX_ATOMIC_HISTORY. lia.
    - reflexivity.
    - exact Hn.
    - exact Hclen.
    - intros a Ha. cbn in Ha.
      destruct a as [|[|[|[|[|[|[|a]]]]]]]; try lia; try reflexivity.
      unfold get_store. cbn. destruct a; reflexivity.
    - intros a _. exact Hme.
    - intros a Ha. rewrite (H0 a Ha). destruct Hk1 as [H|H]; [left; exact H | right; exact H].
    - intros a Ha. rewrite (H0 a Ha). exact Hseen0.
    - intros a Ha. rewrite (H0 a Ha). unfold K, hbk, mo. cbn. apply le_n.
    - intros a t Ha Ht. rewrite (H0 a Ha). unfold mo. cbn [s s_new get_store at_stores nth st_mo].
      pose proof (Hbclk me t Hme Ht) as Hb. rewrite Hc0 in Hb. exact Hb.
    - intros a t Ha Ht. rewrite (H0 a Ha). cbn [s s_new get_store at_stores nth st_sync].
      unfold sync_store. cbn [ord_rel]. rewrite !vv_get_join, vv_new_get.
      pose proof (Hbclk me t Hme Ht) as Hb. rewrite Hc0 in Hb. lia.
    - exact Hbclk.
    - intros a b Ha Hb _. rewrite (H0 a Ha), (H0 b Hb). apply vle_refl.
    - intros a b Ha Hb Hne. rewrite (H0 a Ha), (H0 b Hb) in Hne. lia. }
  split.
  - exists (fun _ => me), (fun k => k). split; [exact HI|]. split; [|split].
    + constructor.
      * intros a Ha. rewrite (H0 a Ha). reflexivity.
      * intros r sl sid Hr Hs. exfalso. apply (Hsrc r sl sid Hr Hs).
      * intros r sl sid Hr Hs. exfalso. apply (Hsrc r sl sid Hr Hs).
      * intros a b _ _ H. exact H.
      * intros a b Ha Hb Hne. rewrite (H0 a Ha), (H0 b Hb) in Hne. lia.
      * intros r sl sid x Hr Hs. exfalso. apply (Hsrc r sl sid Hr Hs).
    + intros r sl sid x Hr Hs. exfalso. apply (Hsrc r sl sid Hr Hs).
    + intros a b Ha Hb _. rewrite (H0 a Ha), (H0 b Hb). apply (i_hbmo HI). cbn. lia.
  - constructor.
    + intros a u w Ha Hn'. rewrite (H0 a Ha) in Hn'. cbn [fst s s_new get_store at_stores nth st_seen] in Hn'.
      apply seen_touch_inv in Hn'. destruct Hn' as [Hx|[Hu Hw]].
      * exfalso. apply (proj2 (seen_new_nth u) w Hx).
      * subst u w. cbn [snd]. rewrite Hc0. apply le_n.
    + intros a Ha. rewrite (H0 a Ha). cbn [fst s s_new get_store at_stores nth st_seen].
      rewrite seen_touch_length. unfold seen_new. apply repeat_length.
Qed.

(* ------------------------------------------------------------------ *)
(* 4. the calls Ops.v makes are steps of the machine                    *)

(* a candidate under any last_yield is a candidate under last_yield = None *)
Lemma candidates_ly : forall s t c ly o l l0 idx,
  match_load_to_stores s t c ly o = Some l ->
  match_load_to_stores s t c None o = Some l0 ->
  In idx l -> In idx l0.
Proof.
  intros s t c ly o l l0 idx Hl Hl0 Hin.
  apply (load_candidates_spec _ _ _ _ _ _ Hl idx) in Hin. destruct Hin as [H7 [Hlive Hall]].
  apply (load_candidates_spec _ _ _ _ _ _ Hl0 idx). split; [exact H7|]. split; [exact Hlive|].
  intros j Hj7 Hjl Hne Hlt. destruct (Hall j Hj7 Hjl Hne Hlt) as [A [_ C]].
  split; [exact A|]. split; [reflexivity | exact C].
Qed.

Lemma In_existsb_eqb : forall idx l, In idx l -> existsb (Nat.eqb idx) l = true.
Proof.
  intros idx l Hin. apply existsb_exists. exists idx. split; [exact Hin | apply Nat.eqb_refl].
Qed.

(* MLoadPost / load_post / MFuLoadPost: after causality_inc the thread's clock
   is c = vv_inc (its clock) t; Ops.v computes the candidates with the thread's
   last_yield, picks idx among them and calls atomic_load *)
Theorem load_call_is_step : forall s cs t ly o l idx s' c' val,
  GoodS (s, cs) -> t < length cs ->
  match_load_to_stores s t (vv_inc (clk cs t) t) ly o = Some l -> In idx l ->
  atomic_load s t (vv_inc (clk cs t) t) idx o = inl (s', c', val) ->
  mstep RModel (s, cs) t (XLoad idx o) = Some (s', list_set cs t c').
Proof.
  intros s cs t ly o l idx s' c' val HG Ht Hl Hin Hload.
  unfold mstep. destruct (Nat.ltb_spec t (length cs)) as [_|H]; [|lia]. cbn [negb].
  destruct (match_load_to_stores s t (vv_inc (clk cs t) t) None o) as [l0|] eqn:Hl0.
  - rewrite (@In_existsb_eqb idx l0 (@candidates_ly s t (vv_inc (clk cs t) t) ly o l l0 idx Hl Hl0 Hin)).
    rewrite atomic_load_g_model, Hload. reflexivity.
  - exfalso. destruct (@Good_never_none (s, cs) (GoodS_Good HG)) as [Hnn _].
    apply (Hnn t (vv_inc (clk cs t) t) None o). exact Hl0.
Qed.

(* MStorePost (for a thread that never fenced: t_rel = vv_new) *)
Theorem store_call_is_step : forall s cs t v o s1,
  t < length cs -> at_cnt s < MAX_ATOMIC_HISTORY ->
  track_store s (vv_inc (clk cs t) t) = inl s1 ->
  mstep RModel (s, cs) t (XStore v o) =
  Some (atomic_store s1 t (vv_inc (clk cs t) t) vv_new vv_new v o,
        list_set cs t (vv_inc (clk cs t) t)).
Proof.
  intros s cs t v o s1 Ht Hroom Hts. unfold mstep.
  destruct (Nat.ltb_spec t (length cs)) as [_|H]; [|lia]. cbn [negb].
  destruct (Nat.leb_spec MAX_ATOMIC_HISTORY (at_cnt s)) as [H|_]; [lia|].
  rewrite Hts. reflexivity.
Qed.

(* MRmwPost (t_rel = vv_new) *)
Theorem rmw_call_is_step : forall s cs t so fo f l idx s' c' prev ok,
  t < length cs -> at_cnt s < MAX_ATOMIC_HISTORY ->
  match_rmw_to_stores s = Some l -> In idx l ->
  atomic_rmw s t (vv_inc (clk cs t) t) vv_new idx so fo f = inl (s', c', prev, ok) ->
  mstep RModel (s, cs) t (XRmw idx f so fo) = Some (s', list_set cs t c').
Proof.
  intros s cs t so fo f l idx s' c' prev ok Ht Hroom Hl Hin Hr. unfold mstep.
  destruct (Nat.ltb_spec t (length cs)) as [_|H]; [|lia]. cbn [negb].
  destruct (Nat.leb_spec MAX_ATOMIC_HISTORY (at_cnt s)) as [H|_]; [lia|].
  rewrite Hl, (@In_existsb_eqb idx l Hin), atomic_rmw_g_model, Hr. reflexivity.
Qed.

(* fence(Acquire) over this cell, lock / channel / notify / join hand-overs,
   spawn ...: any view whose components are bounded by the owners' own
   components (ClockFacts.run_clock_wf gives that for every view stored in an
   execution state) is an admissible XGrow; e.g. the st_sync of a live store *)
Theorem sync_view_admissible : forall own rk s cs t i,
  GoodO own rk s cs -> i < at_cnt s -> admissible cs t (st_sync (get_store s i)).
Proof. intros own rk s cs t i [HI _] Hi u Hu _. apply (i_bsync HI Hi Hu). Qed.

(* ------------------------------------------------------------------ *)
(* 5. one micro-operation of Ops.v, end to end: MStorePost               *)

Definition clocks (e : exec) : list vv := map t_caus (e_threads e).

Lemma clk_clocks : forall e me t0, get_thread e me = Some t0 -> clk (clocks e) me = t_caus t0.
Proof.
  intros e me t0 H. unfold clk, clocks, get_thread in *.
  revert me H. induction (e_threads e) as [|h r IH]; intros me H; [destruct me; discriminate|].
  destruct me as [|me]; cbn in *; [inversion H; reflexivity | apply IH; exact H].
Qed.

Lemma map_list_upd_caus : forall (l : list thread) me f t0,
  nth_error l me = Some t0 ->
  map t_caus (list_upd l me f) = list_set (map t_caus l) me (t_caus (f t0)).
Proof.
  intros l me f t0 H. unfold list_upd. rewrite H. revert me H.
  induction l as [|h r IH]; intros me H; [destruct me; discriminate|].
  destruct me as [|me]; cbn in *; [reflexivity | f_equal; apply IH; exact H].
Qed.

Lemma nth_error_list_upd_same : forall (A : Type) (l : list A) n f x,
  nth_error l n = Some x -> nth_error (list_upd l n f) n = Some (f x).
Proof.
  intros A l n f x H. unfold list_upd. rewrite H. revert n H.
  induction l as [|h r IH]; intros n H; [destruct n; discriminate|].
  destruct n as [|n]; cbn in *; [reflexivity | apply IH; exact H].
Qed.

Lemma list_set_twice : forall (A : Type) (l : list A) n x y,
  list_set (list_set l n x) n y = list_set l n y.
Proof.
  intros A l. induction l as [|h r IH]; intros n x y; [reflexivity|].
  destruct n as [|n]; cbn [list_set]; [reflexivity | f_equal; apply IH].
Qed.

(* ---- how the record operations of Ops.v act on (clocks, atomic a) ---- *)
Lemma clocks_upd_thread : forall e me f t0, get_thread e me = Some t0 ->
  clocks (upd_thread e me f) = list_set (clocks e) me (t_caus (f t0)).
Proof.
  intros e me f t0 H. unfold clocks, upd_thread. cbn [e_threads ex_set_threads].
  apply (@map_list_upd_caus (e_threads e) me f t0 H).
Qed.

Lemma clocks_upd_thread_keep : forall e me f,
  (forall t, t_caus (f t) = t_caus t) -> clocks (upd_thread e me f) = clocks e.
Proof.
  intros e me f Hf. unfold clocks, upd_thread, list_upd. cbn [e_threads ex_set_threads].
  destruct (nth_error (e_threads e) me) as [t0|] eqn:H; [|reflexivity].
  revert me H. induction (e_threads e) as [|h r IH]; intros me H; [destruct me; discriminate|].
  destruct me as [|me]; cbn in *; [inversion H; subst; rewrite Hf; reflexivity | f_equal; apply IH; exact H].
Qed.

Lemma clocks_log_op : forall e me r, clocks (log_op e me r) = clocks e.
Proof. intros e me r. unfold log_op. destruct (get_thread e me); reflexivity. Qed.
Lemma clocks_push_cont : forall e me ms, clocks (push_cont e me ms) = clocks e.
Proof. intros e me ms. unfold push_cont. apply clocks_upd_thread_keep. intros t. reflexivity. Qed.
Lemma ga_log_op : forall e me r a, get_atomic (log_op e me r) a = get_atomic e a.
Proof. intros e me r a. unfold log_op. destruct (get_thread e me); reflexivity. Qed.
Lemma ga_upd_thread : forall e me f a, get_atomic (upd_thread e me f) a = get_atomic e a.
Proof. reflexivity. Qed.
Lemma ga_push_cont : forall e me ms a, get_atomic (push_cont e me ms) a = get_atomic e a.
Proof. reflexivity. Qed.
Lemma ga_upd_object_same : forall e a s0 s2, get_atomic e a = Some s0 ->
  get_atomic (upd_object e a (fun _ => OAtomic s2)) a = Some s2.
Proof.
  intros e a s0 s2 H. unfold get_atomic in *. unfold upd_object. cbn [e_objects ex_set_objects].
  destruct (nth_error (e_objects e) a) as [ob|] eqn:Hob; [|discriminate].
  rewrite (@nth_error_list_upd_same object (e_objects e) a (fun _ => OAtomic s2) ob Hob). reflexivity.
Qed.
Lemma gt_upd_object : forall e a f me, get_thread (upd_object e a f) me = get_thread e me.
Proof. reflexivity. Qed.

Lemma choose_store_frame : forall e seed e2 r, choose_store e seed = (e2, r) ->
  e_threads e2 = e_threads e /\ e_objects e2 = e_objects e.
Proof.
  intros e seed e2 r H. unfold choose_store in H.
  destruct (if is_traversed (e_path e)
            then match seed with
                 | Some sd => match push_load (e_path e) sd with POk p => inl p | PErr x => inr (PanicPath x) end
                 | None => inr PanicMoEq
                 end
            else inl (e_path e)) as [p|p].
  - destruct (branch_load p) as [[p' idx]|x]; inversion H; split; reflexivity.
  - inversion H. split; reflexivity.
Qed.

Section MicroBridge.
  Variables (e : exec) (me a : nat) (t0 : thread) (s : atomic_state).
  Hypothesis Hth : get_thread e me = Some t0.
  Hypothesis Hat : get_atomic e a = Some s.

  Let e1 := causality_inc e me.
  Let c := vv_inc (t_caus t0) me.

  Lemma mb_th1 : get_thread e1 me = Some (th_set_caus t0 c).
  Proof.
    unfold e1, causality_inc, upd_thread, get_thread. cbn [e_threads ex_set_threads].
    apply (@nth_error_list_upd_same thread (e_threads e) me (fun t => th_set_caus t (vv_inc (t_caus t) me)) t0 Hth).
  Qed.
  Lemma mb_at1 : get_atomic e1 a = Some s.
  Proof. exact Hat. Qed.
  Lemma mb_cl1 : clocks e1 = list_set (clocks e) me c.
  Proof. unfold e1, causality_inc. rewrite (clocks_upd_thread e me _ Hth). reflexivity. Qed.
  Lemma mb_me : me < length (clocks e).
  Proof. unfold clocks. rewrite map_length. apply nth_error_Some. unfold get_thread in Hth. rewrite Hth. discriminate. Qed.
  Lemma mb_clk : clk (clocks e) me = t_caus t0.
  Proof. apply (clk_clocks e me Hth). Qed.

  (* after choose_store, upd_object a, set_caus me c', log / push_cont *)
  Lemma mb_final : forall e2 r s' c', choose_store e1 r = (e2, inl 0) \/ True ->
    e_threads e2 = e_threads e1 -> e_objects e2 = e_objects e1 ->
    clocks (set_caus (upd_object e2 a (fun _ => OAtomic s')) me c') = list_set (clocks e) me c' /\
    get_atomic (set_caus (upd_object e2 a (fun _ => OAtomic s')) me c') a = Some s'.
  Proof.
    intros e2 r s' c' _ Ht2 Ho2.
    assert (Hth2 : get_thread (upd_object e2 a (fun _ => OAtomic s')) me = Some (th_set_caus t0 c)).
    { rewrite gt_upd_object. unfold get_thread. rewrite Ht2. apply mb_th1. }
    split.
    - unfold set_caus. rewrite (clocks_upd_thread _ me _ Hth2). cbn [t_caus th_set_caus].
      assert (Hc2 : clocks (upd_object e2 a (fun _ => OAtomic s')) = clocks e1).
      { unfold clocks, upd_object. cbn [e_threads ex_set_objects]. rewrite Ht2. reflexivity. }
      rewrite Hc2, mb_cl1. apply list_set_twice.
    - unfold set_caus. rewrite ga_upd_thread. apply (@ga_upd_object_same e2 a s s').
      unfold get_atomic. rewrite Ho2. exact mb_at1.
  Qed.
End MicroBridge.

(* MStorePost: a BStoreR step with the thread's released clock *)
Theorem MStorePost_is_step : forall e me a v o e' t0 s,
  get_thread e me = Some t0 -> get_atomic e a = Some s ->
  at_cnt s < MAX_ATOMIC_HISTORY -> vle (t_rel t0) (t_caus t0) ->
  exec_micro e me (MStorePost a v o) = MOk e' ->
  exists s', get_atomic e' a = Some s' /\
             bstep (s, clocks e) me (BStoreR (t_rel t0) v o) = Some (s', clocks e').
Proof.
  intros e me a v o e' t0 s Hth Hat Hroom Hrel Hex.
  cbn [exec_micro] in Hex. cbv zeta in Hex.
  rewrite (@mb_at1 e me a s Hat), (@mb_th1 e me t0 Hth) in Hex. cbn [t_caus th_set_caus t_rel] in Hex.
  destruct (track_store s (vv_inc (t_caus t0) me)) as [s1|p] eqn:Hts; [|discriminate].
  inversion Hex as [He']. clear Hex.
  set (s2 := atomic_store s1 me (vv_inc (t_caus t0) me) (t_rel t0) vv_new v o).
  exists s2. split.
  - rewrite ga_log_op. apply (@ga_upd_object_same (causality_inc e me) a s s2). exact Hat.
  - rewrite clocks_log_op.
    assert (Hc : clocks (upd_object (causality_inc e me) a (fun _ => OAtomic s2)) = clocks (causality_inc e me)) by reflexivity.
    rewrite Hc, (@mb_cl1 e me t0 Hth).
    cbn [bstep]. unfold store_stepR.
    pose proof (@mb_me e me t0 Hth) as Hme. pose proof (@mb_clk e me t0 Hth) as Hck.
    destruct (Nat.ltb_spec me (length (clocks e))) as [_|H]; [|lia]. cbn [negb].
    destruct (Nat.leb_spec MAX_ATOMIC_HISTORY (at_cnt s)) as [H|_]; [lia|].
    cbv zeta. rewrite Hck.
    assert (Hle : vv_le (t_rel t0) (vv_inc (t_caus t0) me) = true).
    { apply vv_le_spec. eapply vle_trans; [exact Hrel | apply vle_inc]. }
    rewrite Hle. cbn [negb]. rewrite Hts. reflexivity.
Qed.

(* MLoadPost (and the load inside load_post): an XLoad step, provided the index
   chosen by choose_store is a candidate (automatic when the path is being
   extended; on replay it is a property of the whole exploration) *)
Theorem MLoadPost_is_step : forall e me a o aw e' t0 s,
  get_thread e me = Some t0 -> get_atomic e a = Some s -> GoodS (s, clocks e) ->
  (forall e2 idx l,
     choose_store (causality_inc e me)
       (match_load_to_stores s me (vv_inc (t_caus t0) me) (t_last_yield t0) o) = (e2, inl idx) ->
     match_load_to_stores s me (vv_inc (t_caus t0) me) (t_last_yield t0) o = Some l -> In idx l) ->
  exec_micro e me (MLoadPost a o aw) = MOk e' ->
  exists s' idx, get_atomic e' a = Some s' /\
                 bstep (s, clocks e) me (BOp (XLoad idx o)) = Some (s', clocks e').
Proof.
  intros e me a o aw e' t0 s Hth Hat HG Hcand Hex.
  cbn [exec_micro] in Hex. cbv zeta in Hex.
  rewrite (@mb_at1 e me a s Hat), (@mb_th1 e me t0 Hth) in Hex. cbn [t_caus th_set_caus t_last_yield] in Hex.
  set (c := vv_inc (t_caus t0) me) in *.
  set (seed := match_load_to_stores s me c (t_last_yield t0) o) in *.
  destruct (choose_store (causality_inc e me) seed) as [e2 [idx|p]] eqn:Hch; [|discriminate].
  destruct (@choose_store_frame _ _ _ _ Hch) as [Ht2 Ho2].
  destruct (atomic_load s me c idx o) as [[[s' c'] val]|p] eqn:Hld; [|discriminate].
  destruct (@mb_final e me a t0 s Hth Hat e2 seed s' c' (or_intror I) Ht2 Ho2) as [Hcl Hga].
  pose proof (@mb_me e me t0 Hth) as Hme. pose proof (@mb_clk e me t0 Hth) as Hck.
  assert (Hl : exists l, seed = Some l).
  { destruct seed as [l|] eqn:Hs; [exists l; reflexivity|].
    exfalso. destruct (@Good_never_none (s, clocks e) (GoodS_Good HG)) as [Hnn _].
    apply (Hnn me c (t_last_yield t0) o). exact Hs. }
  destruct Hl as [l Hl].
  assert (Hin : In idx l) by (apply (Hcand e2 idx l eq_refl Hl)).
  assert (Hstep : mstep RModel (s, clocks e) me (XLoad idx o) = Some (s', list_set (clocks e) me c')).
  { apply (@load_call_is_step s (clocks e) me (t_last_yield t0) o l idx s' c' val HG Hme).
    - rewrite Hck. exact Hl.
    - exact Hin.
    - rewrite Hck. exact Hld. }
  exists s', idx. cbn [bstep]. rewrite Hstep.
  set (e3 := set_caus (upd_object e2 a (fun _ => OAtomic s')) me c') in *.
  destruct aw as [want|].
  - destruct (N.eqb val want); inversion Hex as [He'].
    + rewrite ga_log_op, clocks_log_op. split; [exact Hga | rewrite Hcl; reflexivity].
    + rewrite ga_push_cont, clocks_push_cont, ga_log_op, clocks_log_op.
      split; [exact Hga | rewrite Hcl; reflexivity].
  - inversion Hex as [He']. rewrite ga_log_op, clocks_log_op. split; [exact Hga | rewrite Hcl; reflexivity].
Qed.

(* MFuLoadPost (the load of a fetch_update): an XLoad step with the failure ordering *)
Theorem MFuLoadPost_is_step : forall e me a f v so fo e' t0 s,
  get_thread e me = Some t0 -> get_atomic e a = Some s -> GoodS (s, clocks e) ->
  (forall e2 idx l,
     choose_store (causality_inc e me)
       (match_load_to_stores s me (vv_inc (t_caus t0) me) (t_last_yield t0) fo) = (e2, inl idx) ->
     match_load_to_stores s me (vv_inc (t_caus t0) me) (t_last_yield t0) fo = Some l -> In idx l) ->
  exec_micro e me (MFuLoadPost a f v so fo) = MOk e' ->
  exists s' idx, get_atomic e' a = Some s' /\
                 bstep (s, clocks e) me (BOp (XLoad idx fo)) = Some (s', clocks e').
Proof.
  intros e me a f v so fo e' t0 s Hth Hat HG Hcand Hex.
  cbn [exec_micro] in Hex. cbv zeta in Hex.
  rewrite (@mb_at1 e me a s Hat), (@mb_th1 e me t0 Hth) in Hex. cbn [t_caus th_set_caus t_last_yield] in Hex.
  set (c := vv_inc (t_caus t0) me) in *.
  set (seed := match_load_to_stores s me c (t_last_yield t0) fo) in *.
  destruct (choose_store (causality_inc e me) seed) as [e2 [idx|p]] eqn:Hch; [|discriminate].
  destruct (@choose_store_frame _ _ _ _ Hch) as [Ht2 Ho2].
  destruct (atomic_load s me c idx fo) as [[[s' c'] val]|p] eqn:Hld; [|discriminate].
  destruct (@mb_final e me a t0 s Hth Hat e2 seed s' c' (or_intror I) Ht2 Ho2) as [Hcl Hga].
  pose proof (@mb_me e me t0 Hth) as Hme. pose proof (@mb_clk e me t0 Hth) as Hck.
  assert (Hl : exists l, seed = Some l).
  { destruct seed as [l|] eqn:Hs; [exists l; reflexivity|].
    exfalso. destruct (@Good_never_none (s, clocks e) (GoodS_Good HG)) as [Hnn _].
    apply (Hnn me c (t_last_yield t0) fo). exact Hs. }
  destruct Hl as [l Hl].
  assert (Hin : In idx l) by (apply (Hcand e2 idx l eq_refl Hl)).
  assert (Hstep : mstep RModel (s, clocks e) me (XLoad idx fo) = Some (s', list_set (clocks e) me c')).
  { apply (@load_call_is_step s (clocks e) me (t_last_yield t0) fo l idx s' c' val HG Hme).
    - rewrite Hck. exact Hl.
    - exact Hin.
    - rewrite Hck. exact Hld. }
  exists s', idx. cbn [bstep]. rewrite Hstep.
  inversion Hex as [He']. rewrite ga_push_cont, clocks_push_cont.
  split; [exact Hga | rewrite Hcl; reflexivity].
Qed.

(* MRmwPost: a BRmwR step with the thread's released clock *)
Theorem MRmwPost_is_step : forall e me a k so fo e' t0 s,
  get_thread e me = Some t0 -> get_atomic e a = Some s ->
  at_cnt s < MAX_ATOMIC_HISTORY -> vle (t_rel t0) (t_caus t0) ->
  (forall e2 idx l,
     choose_store (causality_inc e me) (match_rmw_to_stores s) = (e2, inl idx) ->
     match_rmw_to_stores s = Some l -> In idx l) ->
  match_rmw_to_stores s <> None ->
  exec_micro e me (MRmwPost a k so fo) = MOk e' ->
  exists s' idx, get_atomic e' a = Some s' /\
                 bstep (s, clocks e) me (BRmwR (t_rel t0) idx (rmw_fun k) so fo) = Some (s', clocks e').
Proof.
  intros e me a k so fo e' t0 s Hth Hat Hroom Hrel Hcand Hnn Hex.
  cbn [exec_micro] in Hex. cbv zeta in Hex.
  rewrite (@mb_at1 e me a s Hat), (@mb_th1 e me t0 Hth) in Hex. cbn [t_caus th_set_caus t_rel] in Hex.
  set (c := vv_inc (t_caus t0) me) in *.
  destruct (choose_store (causality_inc e me) (match_rmw_to_stores s)) as [e2 [idx|p]] eqn:Hch; [|discriminate].
  destruct (@choose_store_frame _ _ _ _ Hch) as [Ht2 Ho2].
  destruct (atomic_rmw s me c (t_rel t0) idx so fo (rmw_fun k)) as [[[[s' c'] prev] ok]|p] eqn:Hr; [|discriminate].
  destruct (@mb_final e me a t0 s Hth Hat e2 (match_rmw_to_stores s) s' c' (or_intror I) Ht2 Ho2) as [Hcl Hga].
  pose proof (@mb_me e me t0 Hth) as Hme. pose proof (@mb_clk e me t0 Hth) as Hck.
  destruct (match_rmw_to_stores s) as [l|] eqn:Hl; [|contradiction Hnn; reflexivity].
  assert (Hin : In idx l) by (apply (Hcand e2 idx l eq_refl eq_refl)).
  assert (Hstep : rmw_stepR (s, clocks e) me (t_rel t0) idx (rmw_fun k) so fo = Some (s', list_set (clocks e) me c')).
  { unfold rmw_stepR.
    destruct (Nat.ltb_spec me (length (clocks e))) as [_|H]; [|lia]. cbn [negb].
    destruct (Nat.leb_spec MAX_ATOMIC_HISTORY (at_cnt s)) as [H|_]; [lia|].
    cbv zeta. rewrite Hck. fold c.
    assert (Hle : vv_le (t_rel t0) c = true).
    { apply vv_le_spec. eapply vle_trans; [exact Hrel | apply vle_inc]. }
    rewrite Hle. cbn [negb]. rewrite Hl, (@In_existsb_eqb idx l Hin), Hr. reflexivity. }
  exists s', idx. cbn [bstep]. rewrite Hstep.
  set (e3 := set_caus (upd_object e2 a (fun _ => OAtomic s')) me c') in *.
  destruct k as [f0 v0|ex nw|f0 v0 pv].
  - inversion Hex as [He']. rewrite ga_log_op, clocks_log_op. split; [exact Hga | rewrite Hcl; reflexivity].
  - inversion Hex as [He']. rewrite ga_log_op, clocks_log_op. split; [exact Hga | rewrite Hcl; reflexivity].
  - destruct ok; inversion Hex as [He'].
    + rewrite ga_log_op, clocks_log_op. split; [exact Hga | rewrite Hcl; reflexivity].
    + rewrite ga_push_cont, clocks_push_cont. split; [exact Hga | rewrite Hcl; reflexivity].
Qed.

(* MUnsyncLoad / MWithMut (after fix D23 they tick the clock) *)
Theorem MUnsyncLoad_is_step : forall e me a e' t0 s,
  get_thread e me = Some t0 -> get_atomic e a = Some s ->
  exec_micro e me (MUnsyncLoad a) = MOk e' ->
  exists s', get_atomic e' a = Some s' /\
             bstep (s, clocks e) me BUnsyncLoad = Some (s', clocks e').
Proof.
  intros e me a e' t0 s Hth Hat Hex.
  cbn [exec_micro] in Hex. cbv zeta in Hex.
  rewrite (@mb_at1 e me a s Hat) in Hex. unfold caus_of in Hex. rewrite (@mb_th1 e me t0 Hth) in Hex.
  cbn [t_caus th_set_caus] in Hex.
  destruct (track_unsync_load s (vv_inc (t_caus t0) me)) as [s1|p] eqn:Htr; [|discriminate].
  inversion Hex as [He']. exists s1. split.
  - rewrite ga_log_op. apply (@ga_upd_object_same (causality_inc e me) a s s1). exact Hat.
  - rewrite clocks_log_op.
    assert (Hc : clocks (upd_object (causality_inc e me) a (fun _ => OAtomic s1)) = clocks (causality_inc e me)) by reflexivity.
    rewrite Hc, (@mb_cl1 e me t0 Hth). cbn [bstep]. unfold unsync_load_step.
    pose proof (@mb_me e me t0 Hth) as Hme. pose proof (@mb_clk e me t0 Hth) as Hck.
    destruct (Nat.ltb_spec me (length (clocks e))) as [_|H]; [|lia]. cbn [negb].
    cbv zeta. rewrite Hck, Htr. reflexivity.
Qed.

Theorem MWithMut_is_step : forall e me a v e' t0 s,
  get_thread e me = Some t0 -> get_atomic e a = Some s ->
  exec_micro e me (MWithMut a v) = MOk e' ->
  exists s', get_atomic e' a = Some s' /\
             bstep (s, clocks e) me (BWithMut v) = Some (s', clocks e').
Proof.
  intros e me a v e' t0 s Hth Hat Hex.
  cbn [exec_micro] in Hex. cbv zeta in Hex.
  rewrite (@mb_at1 e me a s Hat) in Hex. unfold caus_of in Hex. rewrite (@mb_th1 e me t0 Hth) in Hex.
  cbn [t_caus th_set_caus] in Hex.
  destruct (track_unsync_mut s (vv_inc (t_caus t0) me)) as [s1|p] eqn:Htr; [|discriminate].
  match type of Hex with match track_unsync_mut ?S2 _ with _ => _ end = _ => set (s2 := S2) in * end.
  destruct (track_unsync_mut s2 (vv_inc (t_caus t0) me)) as [s3|p] eqn:Htr2; [|discriminate].
  inversion Hex as [He']. exists s3. split.
  - rewrite ga_log_op. apply (@ga_upd_object_same (causality_inc e me) a s s3). exact Hat.
  - rewrite clocks_log_op.
    assert (Hc : clocks (upd_object (causality_inc e me) a (fun _ => OAtomic s3)) = clocks (causality_inc e me)) by reflexivity.
    rewrite Hc, (@mb_cl1 e me t0 Hth). cbn [bstep]. unfold with_mut_step.
    pose proof (@mb_me e me t0 Hth) as Hme. pose proof (@mb_clk e me t0 Hth) as Hck.
    destruct (Nat.ltb_spec me (length (clocks e))) as [_|H]; [|lia]. cbn [negb].
    cbv zeta. rewrite Hck, Htr. fold s2. rewrite Htr2. reflexivity.
Qed.

(* ---- building blocks for the frame property of the other micro-operations ---- *)
Lemma nth_error_list_upd_other : forall (A : Type) (l : list A) n j f,
  n <> j -> nth_error (list_upd l n f) j = nth_error l j.
Proof.
  intros A l n j f Hne. unfold list_upd. destruct (nth_error l n) as [x|]; [|reflexivity].
  apply (@list_set_nth_error_other A l n j (f x) Hne).
Qed.

(* an operation on another object does not touch atomic a *)
Lemma ga_upd_object_other : forall e b f a, b <> a ->
  get_atomic (upd_object e b f) a = get_atomic e a.
Proof.
  intros e b f a Hne. unfold get_atomic, upd_object. cbn [e_objects ex_set_objects].
  rewrite (@nth_error_list_upd_other object (e_objects e) b a f Hne). reflexivity.
Qed.

(* acquiring a view is a grow step on the clocks *)
Lemma set_caus_join_is_grow : forall e me t0 v s,
  get_thread e me = Some t0 ->
  (s, clocks (set_caus e me (vv_join (t_caus t0) v))) = grow (s, clocks e) me v.
Proof.
  intros e me t0 v s Hth. unfold grow, set_caus. cbn [fst snd].
  rewrite (clocks_upd_thread e me _ Hth). cbn [t_caus th_set_caus].
  rewrite (clk_clocks e me Hth). reflexivity.
Qed.

Print Assumptions grow_goodS.
Print Assumptions brun_goodS.
Print Assumptions brun_stable.
Print Assumptions brun_knows.
Print Assumptions grow_knows.
Print Assumptions CoRR_CoWR_b.
Print Assumptions CoRR_CoWR_rmw_b.
Print Assumptions CoRR_same_thread_b.
Print Assumptions CoWR_same_thread_b.
Print Assumptions CoRW_same_thread_b.
Print Assumptions CoWW_same_thread_b.
Print Assumptions brun_atomicity.
Print Assumptions brun_never_none.
Print Assumptions atomic_new_goodS.
Print Assumptions load_call_is_step.
Print Assumptions store_call_is_step.
Print Assumptions rmw_call_is_step.
Print Assumptions sync_view_admissible.
Print Assumptions MStorePost_is_step.
Print Assumptions MLoadPost_is_step.
Print Assumptions MFuLoadPost_is_step.
Print Assumptions MRmwPost_is_step.
Print Assumptions MUnsyncLoad_is_step.
Print Assumptions MWithMut_is_step.
Print Assumptions bstep_out.
Print Assumptions unsync_load_out.
Print Assumptions with_mut_out.
