(* Towards the bridge between the one-cell machine of AtomicCoRR.v /
   AtomicClosure.v and the executions of Ops.v: the GENERALISED machine and the
   call-level bridge.  (The full execution-level bridge is NOT here; what is
   missing is listed at the end of this comment.)

   1. XGrow.  [grow st t v]: clock_t := clock_t join v, for an ARBITRARY view v
      that is [admissible]: forall u <> t, v[u] <= clock_u[u] (v knows no more
      about another thread than that thread knows about itself -- exactly what
      ClockFacts.run_clock_wf provides for every view stored in an execution
      state).  No "knowledge-closedness" of v is needed: [grow_goodO] /
      [grow_goodS] (GoodS = the full invariant of AtomicClosure.v survives),
      [grow_facts] (no store changes, knowledge only grows), [grow_knows].
      XSync u is the instance v := clock_u ([sync_is_grow], [sync_admissible]);
      the st_sync of any live store is admissible ([sync_view_admissible]:
      acquire fences over this cell).
   2. The generalised machine [bstep] / [brun]: the model's operations
      (BOp: mstep RModel = Atomic.atomic_load / atomic_rmw / atomic_store) and
      BGrow v.  From ANY GoodS state: [bstep_goodS], [brun_goodS];
      [brun_stable] (no vv_lt edge between live stores is ever lost),
      [brun_knows]; [brun_atomicity] (RMW atomicity in every state of every
      run), [brun_never_none] (assert_ne! cannot fire); [CoRR_CoWR_b],
      [CoRR_CoWR_rmw_b] (happens-before versions, any admissible views in
      between), [CoRR_same_thread_b], [CoWR_same_thread_b],
      [CoRW_same_thread_b], [CoWW_same_thread_b].
   3. The start, generalised: [atomic_new_eq], [atomic_new_goodS]: the cell may
      be created by ANY thread [me] with ANY clock c0 (own component >= 1) in a
      system of threads with arbitrary clocks, provided the clocks are bounded
      (clock_u[t] <= clock_t[t]) and every clock dominates c0 (see "missing" 1).
   4. The calls Ops.v makes are machine steps: [load_call_is_step] (candidates
      computed with ANY last_yield: [candidates_ly]), [store_call_is_step],
      [rmw_call_is_step]; and one micro-operation end to end on the execution
      record: [MStorePost_is_step] (exec_micro e me (MStorePost a v o) = MOk e'
      is the step XStore of thread me on (atomic a, map t_caus threads)).

   MISSING for "every run of Ops.v projects to a run of brun on every atomic":
   1. InvO (AtomicCoRR.v) contains i_um / i_ul: EVERY thread's clock dominates
      at_unsync_mut / at_unsync_loaded.  That is how the machine knows that
      track_load / track_store cannot panic; it is false in general executions
      (a thread that never synchronised with the creator; MWithMut and
      MUnsyncLoad (fix D23) raise these tracking clocks).  The invariant has to
      be weakened (drop the two fields, keep the machine's steps conditional on
      track_* = inl, which mstep already is): a mechanical change of
      AtomicCoRR.v / AtomicClosure.v (every use of track_load_ok' /
      track_store_ok' becomes a case distinction), not possible from here.
      With it, MWithMut / MUnsyncLoad become two more step kinds that change
      only the tracking clocks and the newest store's value.
   2. released: Ops.v passes t_rel, the machine passes vv_new (true for threads
      that never executed a release fence); the store-phase lemmas of
      AtomicCoRR.v fix vv_new.  Generalising needs "t_rel <= t_caus" (then a
      store seen by released is seen by the clock) in store_phase_inv /
      store_sy.
   3. replay: choose_store takes the index from the recorded path WITHOUT
      checking that it is a candidate (Ops.choose_store, not-traversed branch;
      Path.branch_load even returns 0 beyond the recorded length).  That the
      replayed index is a candidate is a property of the whole exploration
      (the same prefix is re-executed deterministically), not of one step;
      [load_call_is_step] / [rmw_call_is_step] therefore take "In idx l" as a
      hypothesis.
   4. spawn: the list of clocks grows.  Keep it at length MAX_THREADS, padded
      with vv_new, and spawn is a BGrow of the new index; needs "components of
      unspawned threads are 0 everywhere" (in ClockFacts) for admissibility.
   5. the record plumbing of [MStorePost_is_step] for MLoadPost / load_post /
      MFuLoadPost / MRmwPost, and "every other micro-operation leaves the
      atomic alone and is a BGrow" (one case per micro-operation, with
      ClockFacts.run_clock_wf for admissibility). *)
Require Import LV.Base LV.VV LV.VVFacts LV.Path LV.Prog LV.Objects LV.Atomic LV.AtomicFacts
               LV.AtomicCoherence LV.AtomicCoRR LV.AtomicClosure LV.Exec LV.Ops.
From Coq Require Import Lia.

Set Implicit Arguments.

(* ------------------------------------------------------------------ *)
(* 1. XGrow: thread t joins an arbitrary admissible view into its clock  *)

(* v knows no more about another thread u than u knows about itself *)
Definition admissible (cs : list vv) (t : nat) (v : vv) : Prop :=
  forall u, u < length cs -> u <> t -> vv_get v u <= vv_get (clk cs u) u.

Definition grow (st : mstate) (t : nat) (v : vv) : mstate :=
  (fst st, list_set (snd st) t (vv_join (clk (snd st) t) v)).

Lemma grow_clk : forall cs t v, t < length cs ->
  forall u, vle (clk cs u) (clk (list_set cs t (vv_join (clk cs t) v)) u).
Proof. intros cs t v Ht. apply (@clk_set_grow cs t _ Ht). apply vle_join_l. Qed.

Theorem grow_goodO : forall own rk s cs t v,
  GoodO own rk s cs -> StampO s cs -> t < length cs -> admissible cs t v ->
  GoodO own rk s (list_set cs t (vv_join (clk cs t) v)) /\
  StampO s (list_set cs t (vv_join (clk cs t) v)).
Proof.
  intros own rk s cs t v [HI [HL [HC HSy]]] HS Ht Hadm. split.
  - split; [|split; [exact HL | split; [exact HC | exact HSy]]].
    apply (InvO_clock HI Ht).
    + apply vle_join_l.
    + rewrite vv_join_length. pose proof (i_clen HI Ht). lia.
    + intros u Hu Hne. rewrite vv_get_join. pose proof (i_bclk HI Ht Hu). pose proof (Hadm u Hu Hne). lia.
  - apply (@stamp_clock s cs _ HS (@grow_clk cs t v Ht)).
Qed.

Theorem grow_goodS : forall st t v,
  GoodS st -> t < length (snd st) -> admissible (snd st) t v -> GoodS (grow st t v).
Proof.
  intros [s cs] t v [[own [rk HG]] HS] Ht Hadm. cbn [fst snd] in *.
  destruct (@grow_goodO own rk s cs t v HG HS Ht Hadm) as [HG' HS'].
  split; [exists own, rk; exact HG' | exact HS'].
Qed.

(* XSync u is the instance v := the current clock of u *)
Lemma sync_is_grow : forall tr st t u st',
  mstep tr st t (XSync u) = Some st' -> st' = grow st t (clk (snd st) u).
Proof.
  intros tr [s cs] t u st' H. unfold mstep in H.
  destruct (negb (Nat.ltb t (length cs))); [discriminate|].
  destruct (Nat.ltb u (length cs)); [|discriminate]. inversion H. reflexivity.
Qed.

Lemma sync_admissible : forall own s cs t u,
  InvO own s cs -> u < length cs -> admissible cs t (clk cs u).
Proof. intros own s cs t u HI Hu w Hw _. apply (i_bclk HI Hu Hw). Qed.

(* a grow step changes no store and only enlarges what threads know *)
Lemma grow_facts : forall st t v, t < length (snd st) ->
  fst (grow st t v) = fst st /\
  (forall a b, mo_lt (grow st t v) a b = mo_lt st a b) /\
  (forall u i, knows st u i -> knows (grow st t v) u i).
Proof.
  intros [s cs] t v Ht. cbn [fst snd] in Ht. split; [reflexivity|]. split; [reflexivity|].
  intros u i Hk. unfold knows, grow in *. cbn [fst snd] in *.
  apply (seen_clock_mono _ _ _ (@grow_clk cs t v Ht u) Hk).
Qed.

(* ------------------------------------------------------------------ *)
(* 2. the generalised machine: the model's operations + XGrow           *)

Definition admissible_b (cs : list vv) (t : nat) (v : vv) : bool :=
  forallb (fun u => Nat.eqb u t || Nat.leb (vv_get v u) (vv_get (clk cs u) u)) (seq 0 (length cs)).

Lemma admissible_b_spec : forall cs t v, admissible_b cs t v = true <-> admissible cs t v.
Proof.
  intros cs t v. unfold admissible_b, admissible. rewrite forallb_forall. split.
  - intros H u Hu Hne. specialize (H u ltac:(apply in_seq; lia)).
    apply orb_true_iff in H. destruct H as [H|H]; [apply Nat.eqb_eq in H; contradiction | apply Nat.leb_le; exact H].
  - intros H u Hu. apply in_seq in Hu. destruct (Nat.eqb_spec u t) as [e|ne]; [reflexivity|].
    cbn [orb]. apply Nat.leb_le. apply H; lia.
Qed.

Inductive bop :=
  | BOp (op : aop)       (* an atomic access / XSync of the model's machine *)
  | BGrow (v : vv).      (* any other synchronisation: join the view v *)

Definition bstep (st : mstate) (t : nat) (b : bop) : option mstate :=
  match b with
  | BOp op => mstep RModel st t op
  | BGrow v => if Nat.ltb t (length (snd st)) && admissible_b (snd st) t v
               then Some (grow st t v) else None
  end.

Fixpoint brun (st : mstate) (evs : list (nat * bop)) : option mstate :=
  match evs with
  | [] => Some st
  | (t, b) :: r => match bstep st t b with Some st' => brun st' r | None => None end
  end.

Lemma bstep_grow_inv : forall st t v st',
  bstep st t (BGrow v) = Some st' ->
  t < length (snd st) /\ admissible (snd st) t v /\ st' = grow st t v.
Proof.
  intros st t v st' H. cbn [bstep] in H.
  destruct (Nat.ltb_spec t (length (snd st))) as [Ht|Ht]; [|discriminate].
  destruct (admissible_b (snd st) t v) eqn:Ha; [|discriminate]. cbn [andb] in H. inversion H.
  split; [exact Ht|]. split; [apply admissible_b_spec; exact Ha | reflexivity].
Qed.

Theorem bstep_goodS : forall st t b st', GoodS st -> bstep st t b = Some st' -> GoodS st'.
Proof.
  intros st t [op|v] st' HG H.
  - apply (@mstep_goodS st t op st' HG H).
  - destruct (bstep_grow_inv _ _ _ H) as [Ht [Ha He]]. subst st'. apply (grow_goodS HG Ht Ha).
Qed.

Theorem brun_goodS : forall evs st st', GoodS st -> brun st evs = Some st' -> GoodS st'.
Proof.
  induction evs as [|[t b] evs IH]; intros st st' HG Hrun.
  - cbn [brun] in Hrun. inversion Hrun. subst st'. exact HG.
  - cbn [brun] in Hrun. destruct (bstep st t b) as [st1|] eqn:Hs; [|discriminate].
    apply (IH st1 st' (@bstep_goodS st t b st1 HG Hs) Hrun).
Qed.

Theorem bstep_stable : forall st t b st' x y,
  GoodS st -> bstep st t b = Some st' ->
  lives st x -> lives st y -> mo_lt st x y = true ->
  lives st' x /\ lives st' y /\ mo_lt st' x y = true.
Proof.
  intros st t [op|v] st' x y HG H Hx Hy Hlt.
  - apply (@step_stable_model st t op st' x y HG H Hx Hy Hlt).
  - destruct (bstep_grow_inv _ _ _ H) as [Ht [_ He]]. subst st'.
    destruct (grow_facts st v Ht) as [Hf [Hm _]].
    unfold lives in *. rewrite Hf, Hm. repeat split; assumption.
Qed.

Theorem bstep_knows : forall st t b st' u i,
  GoodS st -> bstep st t b = Some st' ->
  lives st i -> knows st u i -> lives st' i /\ knows st' u i.
Proof.
  intros st t [op|v] st' u i HG H Hi Hk.
  - apply (@step_knows_model st t op st' u i HG H Hi Hk).
  - destruct (bstep_grow_inv _ _ _ H) as [Ht [_ He]]. subst st'.
    destruct (grow_facts st v Ht) as [Hf [_ Hkn]].
    unfold lives in *. rewrite Hf. split; [exact Hi | apply Hkn; exact Hk].
Qed.

Theorem brun_stable : forall evs st st' x y,
  GoodS st -> brun st evs = Some st' ->
  lives st x -> lives st y -> mo_lt st x y = true ->
  lives st' x /\ lives st' y /\ mo_lt st' x y = true.
Proof.
  induction evs as [|[t b] evs IH]; intros st st' x y HG Hrun Hx Hy Hlt.
  - cbn [brun] in Hrun. inversion Hrun. subst st'. repeat split; assumption.
  - cbn [brun] in Hrun. destruct (bstep st t b) as [st1|] eqn:Hs; [|discriminate].
    destruct (@bstep_stable st t b st1 x y HG Hs Hx Hy Hlt) as [Hx1 [Hy1 Hlt1]].
    apply (IH st1 st' x y (@bstep_goodS st t b st1 HG Hs) Hrun Hx1 Hy1 Hlt1).
Qed.

Theorem brun_knows : forall evs st st' u i,
  GoodS st -> brun st evs = Some st' ->
  lives st i -> knows st u i -> lives st' i /\ knows st' u i.
Proof.
  induction evs as [|[t b] evs IH]; intros st st' u i HG Hrun Hi Hk.
  - cbn [brun] in Hrun. inversion Hrun. subst st'. split; assumption.
  - cbn [brun] in Hrun. destruct (bstep st t b) as [st1|] eqn:Hs; [|discriminate].
    destruct (@bstep_knows st t b st1 u i HG Hs Hi Hk) as [Hi1 Hk1].
    apply (IH st1 st' u i (@bstep_goodS st t b st1 HG Hs) Hrun Hi1 Hk1).
Qed.

(* an admissible view that has seen store i makes t know i *)
Theorem grow_knows : forall st t v i,
  t < length (snd st) ->
  is_seen_by_current (st_seen (get_store (fst st) i)) v = true -> knows (grow st t v) t i.
Proof.
  intros [s cs] t v i Ht H. unfold knows, grow. cbn [fst snd] in *.
  rewrite (clk_set cs t _ t Ht), Nat.eqb_refl.
  apply (seen_clock_mono _ _ _ (vle_join_r (clk cs t) v) H).
Qed.

(* ---- coherence over runs of the generalised machine ---- *)
Theorem CoRR_CoWR_b : forall st1 evs st2 t i j o,
  GoodS st1 -> lives st1 i -> lives st1 j -> knows st1 t j -> mo_lt st1 i j = true ->
  brun st1 evs = Some st2 ->
  mstep RModel st2 t (XLoad i o) = None.
Proof.
  intros st1 evs st2 t i j o HG Hi Hj Hk Hlt Hrun.
  destruct (@brun_stable evs st1 st2 i j HG Hrun Hi Hj Hlt) as [Hi2 [Hj2 Hlt2]].
  destruct (@brun_knows evs st1 st2 t j HG Hrun Hj Hk) as [_ Hk2].
  apply (@CoRR_CoWR_model st2 [] st2 t i j o (@brun_goodS evs st1 st2 HG Hrun) Hi2 Hj2 Hk2 Hlt2 eq_refl).
Qed.

Theorem CoRR_CoWR_rmw_b : forall st1 evs st2 t i j f so fo,
  GoodS st1 -> lives st1 i -> lives st1 j -> mo_lt st1 i j = true ->
  brun st1 evs = Some st2 ->
  mstep RModel st2 t (XRmw i f so fo) = None.
Proof.
  intros st1 evs st2 t i j f so fo HG Hi Hj Hlt Hrun.
  destruct (@brun_stable evs st1 st2 i j HG Hrun Hi Hj Hlt) as [Hi2 [Hj2 Hlt2]].
  apply (@CoRR_CoWR_rmw_model st2 [] st2 t i j f so fo (@brun_goodS evs st1 st2 HG Hrun) Hi2 Hj2 Hlt2 eq_refl).
Qed.

Theorem CoRR_same_thread_b : forall st0 t j o st1 evs st2 i o',
  GoodS st0 -> mstep RModel st0 t (XLoad j o) = Some st1 ->
  lives st1 i -> mo_lt st1 i j = true ->
  brun st1 evs = Some st2 ->
  mstep RModel st2 t (XLoad i o') = None.
Proof.
  intros st0 t j o st1 evs st2 i o' HG Hs Hi Hlt Hrun.
  destruct (@load_knows_model st0 t j o st1 HG Hs) as [Hj Hk].
  apply (@CoRR_CoWR_b st1 evs st2 t i j o' (@mstep_goodS st0 t (XLoad j o) st1 HG Hs) Hi Hj Hk Hlt Hrun).
Qed.

Theorem CoWR_same_thread_b : forall st0 t v o st1 evs st2 i o',
  GoodS st0 -> mstep RModel st0 t (XStore v o) = Some st1 ->
  lives st1 i -> mo_lt st1 i (at_cnt (fst st0)) = true ->
  brun st1 evs = Some st2 ->
  mstep RModel st2 t (XLoad i o') = None.
Proof.
  intros st0 t v o st1 evs st2 i o' HG Hs Hi Hlt Hrun.
  destruct (@store_knows_model st0 t v o st1 HG Hs) as [Hj Hk].
  apply (@CoRR_CoWR_b st1 evs st2 t i (at_cnt (fst st0)) o'
           (@mstep_goodS st0 t (XStore v o) st1 HG Hs) Hi Hj Hk Hlt Hrun).
Qed.

Theorem CoRW_same_thread_b : forall st0 t j o st1 evs st2 v o' st3,
  GoodS st0 -> mstep RModel st0 t (XLoad j o) = Some st1 ->
  brun st1 evs = Some st2 ->
  mstep RModel st2 t (XStore v o') = Some st3 ->
  mo_lt st3 j (at_cnt (fst st2)) = true.
Proof.
  intros st0 t j o st1 evs st2 v o' st3 HG Hs Hrun Hs3.
  destruct (@load_knows_model st0 t j o st1 HG Hs) as [Hj Hk].
  pose proof (@mstep_goodS st0 t (XLoad j o) st1 HG Hs) as HG1.
  destruct (@brun_knows evs st1 st2 t j HG1 Hrun Hj Hk) as [Hj2 Hk2].
  apply (@CoWW_CoRW_model st2 t v o' st3 j (@brun_goodS evs st1 st2 HG1 Hrun) Hj2 Hk2 Hs3).
Qed.

Theorem CoWW_same_thread_b : forall st0 t v o st1 evs st2 v' o' st3,
  GoodS st0 -> mstep RModel st0 t (XStore v o) = Some st1 ->
  brun st1 evs = Some st2 ->
  mstep RModel st2 t (XStore v' o') = Some st3 ->
  mo_lt st3 (at_cnt (fst st0)) (at_cnt (fst st2)) = true.
Proof.
  intros st0 t v o st1 evs st2 v' o' st3 HG Hs Hrun Hs3.
  destruct (@store_knows_model st0 t v o st1 HG Hs) as [Hj Hk].
  pose proof (@mstep_goodS st0 t (XStore v o) st1 HG Hs) as HG1.
  destruct (@brun_knows evs st1 st2 t (at_cnt (fst st0)) HG1 Hrun Hj Hk) as [Hj2 Hk2].
  apply (@CoWW_CoRW_model st2 t v' o' st3 (at_cnt (fst st0)) (@brun_goodS evs st1 st2 HG1 Hrun) Hj2 Hk2 Hs3).
Qed.

(* in every state of every run: RMW atomicity, and assert_ne! cannot fire *)
Theorem brun_atomicity : forall evs st st' r sl sid,
  GoodS st -> brun st evs = Some st' -> r < at_cnt (fst st') ->
  st_rmw_src (get_store (fst st') r) = Some (sl, sid) ->
  sl < at_cnt (fst st') /\ vv_lt (mo (fst st') sl) (mo (fst st') r) = true /\
  forall x, x < at_cnt (fst st') ->
    vv_lt (mo (fst st') sl) (mo (fst st') x) && vv_lt (mo (fst st') x) (mo (fst st') r) = false.
Proof.
  intros evs st st' r sl sid HG Hrun. apply Good_atomicity. apply GoodS_Good.
  apply (@brun_goodS evs st st' HG Hrun).
Qed.

Theorem brun_never_none : forall evs st st', GoodS st -> brun st evs = Some st' ->
  (forall t c ly o, match_load_to_stores (fst st') t c ly o <> None) /\
  match_rmw_to_stores (fst st') <> None.
Proof.
  intros evs st st' HG Hrun. apply Good_never_none. apply GoodS_Good.
  apply (@brun_goodS evs st st' HG Hrun).
Qed.

(* ------------------------------------------------------------------ *)
(* 3. the start: the cell is created by ANY thread at ANY point          *)

Definition s_new (me : nat) (c0 : vv) (v0 : N) : atomic_state :=
  mkAtomic vv_new vv_new vv_new (vv_join vv_new c0) false (repeat None MAX_THREADS) None
    (mkStore v0 c0 c0 (sync_store vv_new c0 vv_new Release)
             (seen_touch seen_new me (vv_get c0 me)) false 0 None
     :: repeat store_default 6) 1.

Lemma atomic_new_eq : forall me c0 v0, atomic_new me c0 vv_new v0 = inl (s_new me c0 v0).
Proof.
  intros me c0 v0. unfold atomic_new, track_unsync_mut.
  cbn [at_mutating at_loaded at_unsync_loaded at_stored at_unsync_mut].
  assert (Ha : vv_ahead c0 vv_new = None) by (apply vv_ahead_none; apply vle_new).
  rewrite Ha. reflexivity.
Qed.

Theorem atomic_new_goodS : forall me c0 v0 cs,
  me < length cs -> length cs <= MAX_THREADS -> clk cs me = c0 -> 1 <= vv_get c0 me ->
  (forall t, t < length cs -> t < length (clk cs t)) ->
  (forall u t, u < length cs -> t < length cs -> vv_get (clk cs u) t <= vv_get (clk cs t) t) ->
  (forall t, t < length cs -> vle c0 (clk cs t)) ->
  GoodS (s_new me c0 v0, cs).
Proof.
  intros me c0 v0 cs Hme Hn Hc0 Hk1 Hclen Hbclk Hdom.
  set (s := s_new me c0 v0).
  assert (H0 : forall a, a < at_cnt s -> a = 0) by (intros a Ha; cbn in Ha; lia).
  assert (Hsrc : forall r sl sid, r < at_cnt s -> st_rmw_src (get_store s r) = Some (sl, sid) -> False).
  { intros r sl sid Hr Hs. rewrite (H0 r Hr) in Hs. discriminate. }
  assert (HmeT : me < MAX_THREADS) by lia.
  assert (Hseen0 : nth_error (st_seen (get_store s 0)) me = Some (Some (vv_get c0 me))).
  { cbn. apply seen_touch_new. exact HmeT. }
  assert (HI : InvO (fun _ => me) s cs).
  { constructor.
    - reflexivity.
    - cbn. lia.
    - cbn. unfold MAX_ATOMIC_HISTORY. lia.
    - reflexivity.
    - intros t Ht. cbn [s s_new at_unsync_mut]. apply vle_join_lub; [apply vle_new | apply (Hdom t Ht)].
    - intros t Ht. apply vle_new.
    - exact Hn.
    - exact Hclen.
    - intros a Ha. cbn in Ha.
      destruct a as [|[|[|[|[|[|[|a]]]]]]]; try lia; try reflexivity.
      unfold get_store. cbn. destruct a; reflexivity.
    - intros a _. exact Hme.
    - intros a Ha. rewrite (H0 a Ha). exact Hk1.
    - intros a Ha. rewrite (H0 a Ha). exact Hseen0.
    - intros a Ha. rewrite (H0 a Ha). unfold K, hbk, mo. cbn. apply le_n.
    - intros a t Ha Ht. rewrite (H0 a Ha). unfold mo. cbn [s s_new get_store at_stores nth st_mo].
      pose proof (Hbclk me t Hme Ht) as Hb. rewrite Hc0 in Hb. exact Hb.
    - intros a t Ha Ht. rewrite (H0 a Ha). cbn [s s_new get_store at_stores nth st_sync].
      unfold sync_store. cbn [ord_rel]. rewrite !vv_get_join, vv_new_get.
      pose proof (Hbclk me t Hme Ht) as Hb. rewrite Hc0 in Hb. lia.
    - exact Hbclk.
    - intros a b Ha Hb _. rewrite (H0 a Ha), (H0 b Hb). apply vle_refl.
    - intros a b Ha Hb Hne. rewrite (H0 a Ha), (H0 b Hb) in Hne. lia. }
  split.
  - exists (fun _ => me), (fun k => k). split; [exact HI|]. split; [|split].
    + constructor.
      * intros a Ha. rewrite (H0 a Ha). reflexivity.
      * intros r sl sid Hr Hs. exfalso. apply (Hsrc r sl sid Hr Hs).
      * intros r sl sid Hr Hs. exfalso. apply (Hsrc r sl sid Hr Hs).
      * intros a b _ _ H. exact H.
      * intros a b Ha Hb Hne. rewrite (H0 a Ha), (H0 b Hb) in Hne. lia.
      * intros r sl sid x Hr Hs. exfalso. apply (Hsrc r sl sid Hr Hs).
    + intros r sl sid x Hr Hs. exfalso. apply (Hsrc r sl sid Hr Hs).
    + intros a b Ha Hb _. rewrite (H0 a Ha), (H0 b Hb). apply (i_hbmo HI). cbn. lia.
  - constructor.
    + intros a u w Ha Hn'. rewrite (H0 a Ha) in Hn'. cbn [fst s s_new get_store at_stores nth st_seen] in Hn'.
      apply seen_touch_inv in Hn'. destruct Hn' as [Hx|[Hu Hw]].
      * exfalso. apply (proj2 (seen_new_nth u) w Hx).
      * subst u w. cbn [snd]. rewrite Hc0. apply le_n.
    + intros a Ha. rewrite (H0 a Ha). cbn [fst s s_new get_store at_stores nth st_seen].
      rewrite seen_touch_length. unfold seen_new. apply repeat_length.
Qed.

(* ------------------------------------------------------------------ *)
(* 4. the calls Ops.v makes are steps of the machine                    *)

(* a candidate under any last_yield is a candidate under last_yield = None *)
Lemma candidates_ly : forall s t c ly o l l0 idx,
  match_load_to_stores s t c ly o = Some l ->
  match_load_to_stores s t c None o = Some l0 ->
  In idx l -> In idx l0.
Proof.
  intros s t c ly o l l0 idx Hl Hl0 Hin.
  apply (load_candidates_spec _ _ _ _ _ _ Hl idx) in Hin. destruct Hin as [H7 [Hlive Hall]].
  apply (load_candidates_spec _ _ _ _ _ _ Hl0 idx). split; [exact H7|]. split; [exact Hlive|].
  intros j Hj7 Hjl Hne Hlt. destruct (Hall j Hj7 Hjl Hne Hlt) as [A [_ C]].
  split; [exact A|]. split; [reflexivity | exact C].
Qed.

Lemma In_existsb_eqb : forall idx l, In idx l -> existsb (Nat.eqb idx) l = true.
Proof.
  intros idx l Hin. apply existsb_exists. exists idx. split; [exact Hin | apply Nat.eqb_refl].
Qed.

(* MLoadPost / load_post / MFuLoadPost: after causality_inc the thread's clock
   is c = vv_inc (its clock) t; Ops.v computes the candidates with the thread's
   last_yield, picks idx among them and calls atomic_load *)
Theorem load_call_is_step : forall s cs t ly o l idx s' c' val,
  GoodS (s, cs) -> t < length cs ->
  match_load_to_stores s t (vv_inc (clk cs t) t) ly o = Some l -> In idx l ->
  atomic_load s t (vv_inc (clk cs t) t) idx o = inl (s', c', val) ->
  mstep RModel (s, cs) t (XLoad idx o) = Some (s', list_set cs t c').
Proof.
  intros s cs t ly o l idx s' c' val HG Ht Hl Hin Hload.
  unfold mstep. destruct (Nat.ltb_spec t (length cs)) as [_|H]; [|lia]. cbn [negb].
  destruct (match_load_to_stores s t (vv_inc (clk cs t) t) None o) as [l0|] eqn:Hl0.
  - rewrite (@In_existsb_eqb idx l0 (@candidates_ly s t (vv_inc (clk cs t) t) ly o l l0 idx Hl Hl0 Hin)).
    rewrite atomic_load_g_model, Hload. reflexivity.
  - exfalso. destruct (@Good_never_none (s, cs) (GoodS_Good HG)) as [Hnn _].
    apply (Hnn t (vv_inc (clk cs t) t) None o). exact Hl0.
Qed.

(* MStorePost (for a thread that never fenced: t_rel = vv_new) *)
Theorem store_call_is_step : forall s cs t v o s1,
  t < length cs -> at_cnt s < MAX_ATOMIC_HISTORY ->
  track_store s (vv_inc (clk cs t) t) = inl s1 ->
  mstep RModel (s, cs) t (XStore v o) =
  Some (atomic_store s1 t (vv_inc (clk cs t) t) vv_new vv_new v o,
        list_set cs t (vv_inc (clk cs t) t)).
Proof.
  intros s cs t v o s1 Ht Hroom Hts. unfold mstep.
  destruct (Nat.ltb_spec t (length cs)) as [_|H]; [|lia]. cbn [negb].
  destruct (Nat.leb_spec MAX_ATOMIC_HISTORY (at_cnt s)) as [H|_]; [lia|].
  rewrite Hts. reflexivity.
Qed.

(* MRmwPost (t_rel = vv_new) *)
Theorem rmw_call_is_step : forall s cs t so fo f l idx s' c' prev ok,
  t < length cs -> at_cnt s < MAX_ATOMIC_HISTORY ->
  match_rmw_to_stores s = Some l -> In idx l ->
  atomic_rmw s t (vv_inc (clk cs t) t) vv_new idx so fo f = inl (s', c', prev, ok) ->
  mstep RModel (s, cs) t (XRmw idx f so fo) = Some (s', list_set cs t c').
Proof.
  intros s cs t so fo f l idx s' c' prev ok Ht Hroom Hl Hin Hr. unfold mstep.
  destruct (Nat.ltb_spec t (length cs)) as [_|H]; [|lia]. cbn [negb].
  destruct (Nat.leb_spec MAX_ATOMIC_HISTORY (at_cnt s)) as [H|_]; [lia|].
  rewrite Hl, (@In_existsb_eqb idx l Hin), atomic_rmw_g_model, Hr. reflexivity.
Qed.

(* fence(Acquire) over this cell, lock / channel / notify / join hand-overs,
   spawn ...: any view whose components are bounded by the owners' own
   components (ClockFacts.run_clock_wf gives that for every view stored in an
   execution state) is an admissible XGrow; e.g. the st_sync of a live store *)
Theorem sync_view_admissible : forall own rk s cs t i,
  GoodO own rk s cs -> i < at_cnt s -> admissible cs t (st_sync (get_store s i)).
Proof. intros own rk s cs t i [HI _] Hi u Hu _. apply (i_bsync HI Hi Hu). Qed.

(* ------------------------------------------------------------------ *)
(* 5. one micro-operation of Ops.v, end to end: MStorePost               *)

Definition clocks (e : exec) : list vv := map t_caus (e_threads e).

Lemma clk_clocks : forall e me t0, get_thread e me = Some t0 -> clk (clocks e) me = t_caus t0.
Proof.
  intros e me t0 H. unfold clk, clocks, get_thread in *.
  revert me H. induction (e_threads e) as [|h r IH]; intros me H; [destruct me; discriminate|].
  destruct me as [|me]; cbn in *; [inversion H; reflexivity | apply IH; exact H].
Qed.

Lemma map_list_upd_caus : forall (l : list thread) me f t0,
  nth_error l me = Some t0 ->
  map t_caus (list_upd l me f) = list_set (map t_caus l) me (t_caus (f t0)).
Proof.
  intros l me f t0 H. unfold list_upd. rewrite H. revert me H.
  induction l as [|h r IH]; intros me H; [destruct me; discriminate|].
  destruct me as [|me]; cbn in *; [reflexivity | f_equal; apply IH; exact H].
Qed.

Lemma nth_error_list_upd_same : forall (A : Type) (l : list A) n f x,
  nth_error l n = Some x -> nth_error (list_upd l n f) n = Some (f x).
Proof.
  intros A l n f x H. unfold list_upd. rewrite H. revert n H.
  induction l as [|h r IH]; intros n H; [destruct n; discriminate|].
  destruct n as [|n]; cbn in *; [reflexivity | apply IH; exact H].
Qed.

Theorem MStorePost_is_step : forall e me a v o e' t0 s,
  get_thread e me = Some t0 -> t_rel t0 = vv_new ->
  get_atomic e a = Some s -> at_cnt s < MAX_ATOMIC_HISTORY ->
  exec_micro e me (MStorePost a v o) = MOk e' ->
  exists s', get_atomic e' a = Some s' /\
             mstep RModel (s, clocks e) me (XStore v o) = Some (s', clocks e').
Proof.
  intros e me a v o e' t0 s Hth Hrel Hat Hroom Hex.
  cbn [exec_micro] in Hex. cbv zeta in Hex.
  set (e1 := causality_inc e me) in *.
  assert (Hth1 : get_thread e1 me = Some (th_set_caus t0 (vv_inc (t_caus t0) me))).
  { unfold e1, causality_inc, upd_thread, get_thread. cbn [e_threads ex_set_threads].
    apply (@nth_error_list_upd_same thread (e_threads e) me (fun t => th_set_caus t (vv_inc (t_caus t) me)) t0 Hth). }
  assert (Hat1 : get_atomic e1 a = Some s) by exact Hat.
  assert (Hcl1 : clocks e1 = list_set (clocks e) me (vv_inc (t_caus t0) me)).
  { unfold e1, causality_inc, upd_thread, clocks. cbn [e_threads ex_set_threads].
    rewrite (@map_list_upd_caus (e_threads e) me (fun t => th_set_caus t (vv_inc (t_caus t) me)) t0 Hth). reflexivity. }
  rewrite Hat1, Hth1 in Hex. cbn [t_caus th_set_caus t_rel] in Hex.
  destruct (track_store s (vv_inc (t_caus t0) me)) as [s1|p] eqn:Hts; [|discriminate].
  inversion Hex as [He']. clear Hex.
  set (s2 := atomic_store s1 me (vv_inc (t_caus t0) me) (t_rel t0) vv_new v o).
  exists s2.
  assert (Hme : me < length (clocks e)).
  { unfold clocks. rewrite map_length. apply nth_error_Some. unfold get_thread in Hth. rewrite Hth. discriminate. }
  assert (Hobj : exists ob, nth_error (e_objects e1) a = Some ob).
  { unfold get_atomic in Hat1. destruct (nth_error (e_objects e1) a) as [ob|]; [exists ob; reflexivity | discriminate]. }
  destruct Hobj as [ob Hob].
  split.
  - unfold log_op. destruct (get_thread (upd_object e1 a (fun _ => OAtomic s2)) me);
      unfold get_atomic, upd_object; cbn [e_objects ex_set_objects ex_set_log];
      rewrite (@nth_error_list_upd_same object (e_objects e1) a (fun _ => OAtomic s2) ob Hob); reflexivity.
  - assert (Hclf : clocks (log_op (upd_object e1 a (fun _ => OAtomic s2)) me RUnit) = clocks e1).
    { unfold log_op. destruct (get_thread (upd_object e1 a (fun _ => OAtomic s2)) me); reflexivity. }
    rewrite Hclf, Hcl1.
    pose proof (clk_clocks e me Hth) as Hck.
    unfold s2. rewrite Hrel. rewrite <- Hck in *.
    apply (@store_call_is_step s (clocks e) me v o s1 Hme Hroom Hts).
Qed.

Print Assumptions grow_goodS.
Print Assumptions brun_goodS.
Print Assumptions brun_stable.
Print Assumptions brun_knows.
Print Assumptions grow_knows.
Print Assumptions CoRR_CoWR_b.
Print Assumptions CoRR_CoWR_rmw_b.
Print Assumptions CoRR_same_thread_b.
Print Assumptions CoWR_same_thread_b.
Print Assumptions CoRW_same_thread_b.
Print Assumptions CoWW_same_thread_b.
Print Assumptions brun_atomicity.
Print Assumptions brun_never_none.
Print Assumptions atomic_new_goodS.
Print Assumptions load_call_is_step.
Print Assumptions store_call_is_step.
Print Assumptions rmw_call_is_step.
Print Assumptions sync_view_admissible.
Print Assumptions MStorePost_is_step.
