(* The second iteration contract (PathExhaust.iter_ok2) for the execution model,
   and the path theorems instantiated on the concrete iteration of Check.v.

   ExecFacts.v proves that every iteration of the model
       L fuel p := fun pa => e_path (fst (iteration fuel p pa))
   satisfies [iter_ok] (the stack is only extended, wf_path is kept).  This
   file proves the same for [iter_ok2] (at most one Active thread per Schedule
   entry, every appended entry is fresh), following the same route:

     path_ok2 p0 p := path_ok p0 p /\ api_ok2 p0 p
       (path_ok gives [extends], which is what api_ok2 needs to compose:
        PathExhaust.api_ok2_compose);
     path_ok2_refl, path_ok2_trans;
     one lemma per Path API function (<f>_ok2);
     seed_loop_no_visited, dpor_loop_ok2, schedule_path_ok2;
     exec_micro_path_ok2 (one tactic over all micro-operations, micro_tac2);
     run_path_ok2, iteration_path_ok2, L_iter_ok2.

   Then, for the concrete iteration:
     L_dfs_exhaustive       (PathExhaust.dfs_exhaustive), and its instance
     L_dfs_exhaustive_initial for [initial_path c];
     L_explore_terminates   (PathTerm.explore_terminates);
     L_decisions_distinct   (PathDistinct.decisions_distinct).

   Deviations from the requested statements: none. *)
Require Import LV.Base LV.VV LV.Path LV.PathSpec LV.PathTerm LV.PathDistinct LV.PathApi
               LV.PathExhaust LV.Prog LV.Objects LV.Exec LV.Atomic LV.Ops LV.Check
               LV.ExecFacts.
From Coq Require Import Lia.

(* ------------------------------------------------------------------ *)
(* path_ok2                                                            *)
(* ------------------------------------------------------------------ *)

Definition path_ok2 (p0 p : path) : Prop := path_ok p0 p /\ api_ok2 p0 p.

Lemma path_ok2_refl p : path_ok2 p p.
Proof. split; [apply path_ok_refl|apply api_same; reflexivity]. Qed.

Lemma path_ok2_trans p q r : path_ok2 p q -> path_ok2 q r -> path_ok2 p r.
Proof.
  intros [Hpq Apq] [Hqr Aqr]. split; [eapply path_ok_trans; eassumption|].
  destruct Hpq as (Epq & _). destruct Hqr as (Eqr & _).
  eapply api_ok2_compose; eassumption.
Qed.

Lemma path_ok2_intro p p' : path_ok p p' -> api_ok2 p p' -> path_ok2 p p'.
Proof. intros H A. split; assumption. Qed.

(* ---- the Path API ---- *)
Lemma backtrack_ok2 p point tid p' : backtrack p point tid = POk p' -> path_ok2 p p'.
Proof. intros H. apply path_ok2_intro; eauto using backtrack_ok, backtrack_wf2. Qed.

Lemma explore_state_ok2 p p' : explore_state p = POk p' -> path_ok2 p p'.
Proof. intros H. apply path_ok2_intro; eauto using explore_state_ok, explore_state_wf2. Qed.

Lemma critical_ok2 p p' : critical p = POk p' -> path_ok2 p p'.
Proof. intros H. apply path_ok2_intro; eauto using critical_ok, critical_wf2. Qed.

Lemma skip_branch_ok2 p : path_ok2 p (skip_branch p).
Proof. apply path_ok2_intro; auto using skip_branch_ok, skip_branch_wf2. Qed.

Lemma push_load_ok2 p seed p' : push_load p seed = POk p' -> path_ok2 p p'.
Proof. intros H. apply path_ok2_intro; eauto using push_load_ok, push_load_wf2. Qed.

Lemma branch_load_ok2 p p' v : branch_load p = POk (p', v) -> path_ok2 p p'.
Proof. intros H. apply path_ok2_intro; eauto using branch_load_ok, branch_load_wf2. Qed.

Lemma branch_spurious_ok2 p p' b : branch_spurious p = POk (p', b) -> path_ok2 p p'.
Proof.
  intros H. apply path_ok2_intro; eauto using branch_spurious_ok, branch_spurious_wf2.
Qed.

Lemma branch_thread_ok2 p seed p' t :
  Forall (fun t => t <> Pending) seed -> Forall (fun t => t <> Visited) seed ->
  branch_thread p seed = POk (p', t) -> path_ok2 p p'.
Proof.
  intros Hp Hv H. apply path_ok2_intro; eauto using branch_thread_ok, branch_thread_wf2.
Qed.

(* ---- the DPOR loop ---- *)
Lemma dpor_accesses_ok2 accs dv id p p' :
  dpor_accesses accs dv id p = POk p' -> path_ok2 p p'.
Proof.
  revert p; induction accs as [|acc rest IH]; intros p H; cbn [dpor_accesses] in H.
  - injection H as <-. apply path_ok2_refl.
  - destruct (access_hb acc dv); [eauto|].
    destruct (backtrack p (a_path_id acc) id) as [p1|x] eqn:Hb; [|discriminate].
    eapply path_ok2_trans; [eapply backtrack_ok2; eassumption|eauto].
Qed.

Lemma dpor_loop_ok2 objs ths p p' : dpor_loop objs ths p = POk p' -> path_ok2 p p'.
Proof.
  revert p; induction ths as [|[id th] rest IH]; intros p H; cbn [dpor_loop] in H.
  - injection H as <-. apply path_ok2_refl.
  - destruct (t_op th) as [op|]; [|eauto].
    destruct (nth_error objs (op_obj op)) as [o|]; [|discriminate].
    destruct (last_dependent_accesses o (op_act op)) as [accs|]; [|discriminate].
    destruct (dpor_accesses accs (t_dpor th) id p) as [p1|x] eqn:Ha; [|discriminate].
    eapply path_ok2_trans; [eapply dpor_accesses_ok2; eassumption|eauto].
Qed.

(* ---- the seed ---- *)
Lemma seed_loop_no_visited ths initial :
  Forall (fun t => t <> Visited) (seed_loop ths initial).
Proof.
  revert initial; induction ths as [|[i th] rest IH]; intros initial; cbn [seed_loop].
  - constructor.
  - constructor; [|apply IH].
    destruct (opt_nat_eqb _ _); [discriminate|].
    destruct (is_yield th); [discriminate|].
    destruct (negb (is_runnable th)); discriminate.
Qed.

(* ---- schedule ---- *)
Lemma sched_prefix_ok2 e curr cur_th p1 p2 next :
  sched_prefix e curr cur_th p1 p2 next -> path_ok2 (e_path e) p2.
Proof.
  intros (_ & _ & Hd & Hb).
  eapply path_ok2_trans; [eapply dpor_loop_ok2; eassumption|].
  eapply branch_thread_ok2; [| |eassumption].
  - apply seed_loop_no_pending.
  - apply seed_loop_no_visited.
Qed.

Lemma schedule_path_ok2 e :
  path_ok2 (e_path e) (e_path (res_exec (fst (schedule e)))).
Proof.
  destruct (schedule_cases e)
    as [(c & ->)|[(x & ->)|[(p1 & x & Hd & ->)|(curr & cur_th & p1 & p2 & next & Hp & ->)]]].
  - apply path_ok2_refl.
  - apply path_ok2_refl.
  - cbn [fst res_exec]. eapply dpor_loop_ok2; eassumption.
  - rewrite sched_post_path. eapply sched_prefix_ok2; eassumption.
Qed.

Lemma schedule_ok2_k p e :
  path_ok2 p (e_path e) -> path_ok2 p (e_path (res_exec (fst (schedule e)))).
Proof. intros H. eapply path_ok2_trans; [exact H|apply schedule_path_ok2]. Qed.

(* ---- the operations that touch the path ---- *)
Lemma do_branch_ok2_k p e me obj act blk :
  path_ok2 p (e_path e) -> path_ok2 p (e_path (res_exec (do_branch e me obj act blk))).
Proof. intros H. unfold do_branch. apply schedule_ok2_k. exact H. Qed.

Lemma do_park_ok2_k p e me :
  path_ok2 p (e_path e) -> path_ok2 p (e_path (res_exec (do_park e me))).
Proof.
  intros H. unfold do_park. destruct (get_thread e me) as [t|]; [|exact H].
  repeat match goal with
         | |- context [match ?x with _ => _ end] => destruct x
         end; first [exact H|apply schedule_ok2_k; exact H].
Qed.

Lemma do_yield_ok2_k p e me :
  path_ok2 p (e_path e) -> path_ok2 p (e_path (res_exec (do_yield e me))).
Proof. intros H. unfold do_yield. apply schedule_ok2_k. exact H. Qed.

Lemma choose_store_ok2 e seed :
  path_ok2 (e_path e) (e_path (fst (choose_store e seed))).
Proof.
  unfold choose_store.
  destruct (is_traversed (e_path e)).
  - destruct seed as [sd|]; [|apply path_ok2_refl].
    destruct (push_load (e_path e) sd) as [p1|x] eqn:Hp; [|apply path_ok2_refl].
    destruct (branch_load p1) as [[p2 idx]|x] eqn:Hb; cbn [fst]; [|apply path_ok2_refl].
    rewrite ex_set_path_path.
    eapply path_ok2_trans; [eapply push_load_ok2|eapply branch_load_ok2]; eassumption.
  - destruct (branch_load (e_path e)) as [[p2 idx]|x] eqn:Hb; cbn [fst]; [|apply path_ok2_refl].
    rewrite ex_set_path_path. eapply branch_load_ok2; eassumption.
Qed.

Lemma load_post_ok2 e me a o : path_ok2 (e_path e) (e_path (lp_exec (load_post e me a o))).
Proof.
  unfold load_post.
  destruct (get_atomic (causality_inc e me) a) as [s|];
    [|cbn; autorewrite with epath; apply path_ok2_refl].
  destruct (get_thread (causality_inc e me) me) as [t|];
    [|cbn; autorewrite with epath; apply path_ok2_refl].
  pose proof (choose_store_ok2 (causality_inc e me)
                (match_load_to_stores s me (t_caus t) (t_last_yield t) o)) as H.
  destruct (choose_store (causality_inc e me) (match_load_to_stores s me (t_caus t) (t_last_yield t) o))
    as [e1 [idx|p]]; cbn [fst] in H; autorewrite with epath in H.
  - destruct (atomic_load s me (t_caus t) idx o) as [[[s' c'] v]|p]; cbn [lp_exec];
      autorewrite with epath; exact H.
  - cbn [lp_exec]. exact H.
Qed.

(* ---- one micro-operation ---- *)
Ltac micro_step2 :=
  match goal with
  | |- path_ok2 _ (e_path (res_exec (fst (schedule _)))) => apply schedule_ok2_k
  | |- path_ok2 _ (e_path (res_exec (do_branch _ _ _ _ _))) => apply do_branch_ok2_k
  | |- path_ok2 _ (e_path (res_exec (do_park _ _))) => apply do_park_ok2_k
  | |- path_ok2 _ (e_path (res_exec (do_yield _ _))) => apply do_yield_ok2_k
  | |- context [post_acquire ?e ?me ?m] =>
      let H := fresh "Hfr" in
      pose proof (post_acquire_path e me m) as H;
      destruct (post_acquire e me m); cbn [fst] in H
  | |- context [post_acquire_read ?e ?me ?m] =>
      let H := fresh "Hfr" in
      pose proof (post_acquire_read_path e me m) as H;
      destruct (post_acquire_read e me m); cbn [fst] in H
  | |- context [post_acquire_write ?e ?me ?m] =>
      let H := fresh "Hfr" in
      pose proof (post_acquire_write_path e me m) as H;
      destruct (post_acquire_write e me m); cbn [fst] in H
  | |- context [release_read ?e ?me ?m] =>
      let H := fresh "Hfr" in
      pose proof (release_read_path e me m) as H;
      destruct (release_read e me m); cbn [res_exec] in H
  | |- context [release_write ?e ?me ?m] =>
      let H := fresh "Hfr" in
      pose proof (release_write_path e me m) as H;
      destruct (release_write e me m); cbn [res_exec] in H
  | |- context [load_post ?e ?me ?a ?o] =>
      let H := fresh "Hlp" in
      pose proof (load_post_ok2 e me a o) as H;
      destruct (load_post e me a o) as [[? ?]|[? ?]]; cbn [lp_exec] in H
  | |- context [choose_store ?e ?s] =>
      let H := fresh "Hcs" in
      pose proof (choose_store_ok2 e s) as H;
      destruct (choose_store e s) as [? [?|?]]; cbn [fst] in H
  | |- context [branch_spurious ?p] =>
      let H := fresh "Hbs" in
      destruct (branch_spurious p) as [[? ?]|?] eqn:H;
      [apply branch_spurious_ok2 in H|]
  | |- context [explore_state ?p] =>
      let H := fresh "Hes" in
      destruct (explore_state p) eqn:H; [apply explore_state_ok2 in H|]
  | |- context [critical ?p] =>
      let H := fresh "Hcr" in
      destruct (critical p) eqn:H; [apply critical_ok2 in H|]
  | |- context [match ?x with _ => _ end] =>
      lazymatch x with
      | context [match _ with _ => _ end] => fail
      | _ => destruct x
      end
  end.

Ltac micro_close2 :=
  cbn [res_exec]; autorewrite with epath in *; use_eqs;
  first [ apply path_ok2_refl | assumption | apply skip_branch_ok2
        | eapply path_ok2_trans; eassumption ].

Ltac micro_tac2 :=
  cbn [exec_micro]; unfold lift_path, mbind;
  repeat micro_step2; micro_close2.

Lemma exec_micro_path_ok2 e me m :
  path_ok2 (e_path e) (e_path (res_exec (exec_micro e me m))).
Proof. destruct m; micro_tac2. Qed.

(* ---- Scheduler::run, one iteration ---- *)
Lemma run_path_ok2 fuel e : path_ok2 (e_path e) (e_path (fst (run fuel e))).
Proof.
  revert e; induction fuel as [|fuel IH]; intros e; cbn [run].
  - apply path_ok2_refl.
  - destruct (e_active e) as [me|]; [|apply path_ok2_refl].
    destruct (nth_error (e_threads e) me) as [t|]; [|apply path_ok2_refl].
    destruct (t_cont t) as [|m rest]; [apply path_ok2_refl|].
    pose proof (exec_micro_path_ok2 (upd_thread e me (fun t => th_set_cont t rest)) me m) as Hm.
    rewrite upd_thread_path in Hm.
    destruct (exec_micro _ me m) as [e2|e2 pn]; cbn [res_exec] in Hm.
    + eapply path_ok2_trans; [exact Hm|apply IH].
    + exact Hm.
Qed.

Theorem iteration_path_ok2 fuel p pa : path_ok2 pa (e_path (fst (iteration fuel p pa))).
Proof.
  rewrite iteration_fst.
  pose proof (run_path_ok2 fuel (init_exec p pa)) as H.
  rewrite init_exec_path in H. exact H.
Qed.

Theorem L_iter_ok2 fuel p : iter_ok2 (fun pa => e_path (fst (iteration fuel p pa))).
Proof.
  intros pa Hwf Hwf2. destruct (iteration_path_ok2 fuel p pa) as [_ Hapi].
  exact (Hapi Hwf2).
Qed.

(* ------------------------------------------------------------------ *)
(* the path theorems on the concrete iteration                         *)
(* ------------------------------------------------------------------ *)

Theorem L_dfs_exhaustive :
  forall fuel p n pa, wf_path pa -> wf2_path pa -> fresh_path pa ->
    finishes (fun pa => e_path (fst (iteration fuel p pa))) n pa = true ->
  forall k ek q c,
    nth_error (explore (fun pa => e_path (fst (iteration fuel p pa))) n pa) k = Some ek ->
    registered ek q c ->
    exists j ej,
      nth_error (explore (fun pa => e_path (fst (iteration fuel p pa))) n pa) j = Some ej /\
      firstn q (choices ej) = firstn q (choices ek) /\ nth_error (choices ej) q = Some c.
Proof.
  intros fuel p n pa Hwf Hwf2 Hfresh Hfin k ek q c Hk Hreg.
  exact (dfs_exhaustive _ n pa (L_iter_ok fuel p) (L_iter_ok2 fuel p)
                        Hwf Hwf2 Hfresh Hfin k ek q c Hk Hreg).
Qed.

Lemma initial_path_ok2 c : wf2_path (initial_path c) /\ fresh_path (initial_path c).
Proof.
  unfold initial_path.
  destruct (path_new_fresh (max_branches c) (preemption_bound c) (negb (explicit_explore c)))
    as [Hf Hw].
  split; assumption.
Qed.

Theorem L_dfs_exhaustive_initial :
  forall fuel p c n,
    finishes (fun pa => e_path (fst (iteration fuel p pa))) n (initial_path c) = true ->
  forall k ek q ch,
    nth_error (explore (fun pa => e_path (fst (iteration fuel p pa))) n (initial_path c)) k
      = Some ek ->
    registered ek q ch ->
    exists j ej,
      nth_error (explore (fun pa => e_path (fst (iteration fuel p pa))) n (initial_path c)) j
        = Some ej /\
      firstn q (choices ej) = firstn q (choices ek) /\ nth_error (choices ej) q = Some ch.
Proof.
  intros fuel p c n Hfin k ek q ch Hk Hreg.
  destruct (initial_path_ok c) as [Hwf _]. destruct (initial_path_ok2 c) as [Hwf2 Hfresh].
  exact (L_dfs_exhaustive fuel p n (initial_path c) Hwf Hwf2 Hfresh Hfin k ek q ch Hk Hreg).
Qed.

Theorem L_explore_terminates :
  forall fuel p c,
    finishes (fun pa => e_path (fst (iteration fuel p pa)))
             (S (BASE ^ cap (initial_path c))) (initial_path c) = true.
Proof.
  intros fuel p c. apply explore_terminates; [apply L_iter_ok|].
  exact (proj1 (initial_path_ok c)).
Qed.

Theorem L_decisions_distinct :
  forall fuel p c n i j pi pj,
    nth_error (explore (fun pa => e_path (fst (iteration fuel p pa))) n (initial_path c)) i
      = Some pi ->
    nth_error (explore (fun pa => e_path (fst (iteration fuel p pa))) n (initial_path c)) j
      = Some pj ->
    i < j ->
    exists q, diverge_at (choices pi) (choices pj) q.
Proof.
  intros fuel p c n i j pi pj Hi Hj Hlt.
  eapply decisions_distinct with (3 := Hi) (4 := Hj); [apply L_iter_ok| |exact Hlt].
  exact (proj1 (initial_path_ok c)).
Qed.

(* the whole exploration from the initial path, with the fuel that suffices:
   it stops by itself, and every registered alternative is decided by some
   iteration of it *)
Corollary L_exhaustive_complete :
  forall fuel p c k ek q ch,
    let it := fun pa => e_path (fst (iteration fuel p pa)) in
    let n := S (BASE ^ cap (initial_path c)) in
    nth_error (explore it n (initial_path c)) k = Some ek -> registered ek q ch ->
    exists j ej, nth_error (explore it n (initial_path c)) j = Some ej /\
                 firstn q (choices ej) = firstn q (choices ek) /\
                 nth_error (choices ej) q = Some ch.
Proof.
  intros fuel p c k ek q ch it n Hk Hreg.
  exact (L_dfs_exhaustive_initial fuel p c n (L_explore_terminates fuel p c) k ek q ch Hk Hreg).
Qed.

Print Assumptions L_iter_ok2.
Print Assumptions L_dfs_exhaustive.
Print Assumptions L_dfs_exhaustive_initial.
Print Assumptions L_explore_terminates.
Print Assumptions L_decisions_distinct.
Print Assumptions L_exhaustive_complete.
