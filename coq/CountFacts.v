(* CountFacts: COUNTING INVARIANTS of the model, for every program and schedule.

   Index correspondence.  The i-th declared object is entry i of the runtime
   store e_objects AND entry i of the harness store e_h (init_exec builds both
   from p_decls; length (e_h e) never changes: run_h_length).  Objects appended
   later (the Notify of spawn, the Notify + Arc of block_on, the cell of a lazy
   static) live at indices >= length (e_h e) and have no harness object; the
   invariants speak about indices k < length (e_h e) = length (p_decls p).

   What is counted
     live e k  = count_true (ho_slots (get_h e k))       live handles of Arc k
     pend e k  = number of MArcDecPost k _ in the continuations of all threads
                 = drops IN FLIGHT: a drop is two micro-steps, MArcDrop empties
                 the slot (the std handle is gone) and pushes
                 [MBranch k ARefDec; MArcDecPost k]; the runtime decrement comes
                 after the branch point.  (A clone needs no such term: count and
                 slot are both updated by MArcIncPost.)

   The invariant
     arc_inv e  := forall k s, k < length (e_h e) -> get_arc e k = Some s ->
                     arc_cnt s = live e k + pend e k
     chan_inv e := forall h s, h < length (e_h e) -> get_chan e h = Some s ->
                     ch_cnt s = length (ch_recv_sync s) /\
                     (if ho_rx (get_h e h) then length (ho_q (get_h e h)) = ch_cnt s
                      else ho_q (get_h e h) = [] /\ ch_cnt s = 0)
     raw_inv e  := length (e_h e) <= length (e_objects e) /\ (the Arc indices
                   carried by the block_on micro-ops in continuations and by the
                   registered wakers are >= length (e_h e)) /\ (e_bodies contains
                   no MArcDecPost / block_on-internal micro-ops)
     base_inv e := chan_inv e /\ raw_inv e          count_inv e := arc_inv e /\ base_inv e

   Main theorems
     init_count_inv      : count_inv (init_exec p pa)
     step_base_inv       : base_inv e -> (me's continuation is m :: rest) ->
                           base_inv (res_exec (exec_micro (pop e me rest) me m))
                           -- every micro-op, also the state carried by MFail, no side condition
     step_count_inv      : the same for count_inv, under [disciplined e m = true]
     schedule_count_inv  : count_inv e -> count_inv (res_exec (fst (schedule e)))
     dsteps_count_inv, steps_base_inv (over SyncMono.steps)
     run_base_inv / run_chan_inv : forall fuel p pa, chan_inv (fst (run fuel (init_exec p pa)))
     run_count_inv       : forall fuel p pa, run_disc fuel (init_exec p pa) = true ->
                           count_inv (fst (run fuel (init_exec p pa)))     (all three iter_end cases)
     run_arc_count_is_live_handles, run_chan_count_is_queue_length: the same, spelled out
   A  strong_count_is_live_handles (+ _quiet), final_drop_iff_last_handle,
      no_double_release, try_unwrap_iff_unique
   B  send_appends_one, send_disconnected_keeps_queue, recv_removes_front,
      recv_never_empty_handed (+ _declared), recv_proceeds_queue_nonempty,
      run_model20_only_after_receiver_drop, run_model20_only_undeclared,
      chan_inv_queue_length, run_chan_count_is_queue_length_all,
      queue_step_shape, steps_queue_fifo
   D  demo_run, demo_count_inv (vm_compute)

   Proof structure (as in SyncMono): a frame relation [keeps N e e'] (harness
   queues / receiver flags / slots unchanged, Arc and channel counters of the
   objects below N unchanged or the object replaced by a non-counting one,
   drops in flight unchanged, bodies unchanged), framing lemmas in continuation
   style for every helper of Ops.v and for schedule, one tactic [keeps_tac] for
   all micro-ops that are neither Arc nor channel operations
   (exec_micro_keeps), and for the 7 others (MArcIncPost, MArcDrop, MArcDecPost,
   MArcGetMutPost, MSendPost, MRecvPost, MDropRx) a description of the result as
   a local update [upd_at] of one object, its harness object and one
   continuation, fed to arc_inv_update / chan_inv_update / raw_inv_update.

   DEVIATIONS

   D1  A is FALSE for arbitrary programs, and so is run_count_inv as requested.
       The model lets a program misuse handles in two ways that change counts:
       (a) MArcIncPost k j increments the count and sets slot j without looking
           at it: a clone stored into a slot that is already live (or into a
           slot index >= 8) gives count = live + 1.
           clone_into_live_slot_breaks_arc_inv: [DArc], main = [IArcClone 0 0 0]:
           final state count 2, one live handle.  The harness rejects such a
           program ("arc slot in use" / index panic): not a behaviour of loom.
       (b) MArcGetMut checks the slot, then there is a branch point, then
           MArcGetMutPost (try_unwrap, count = 1) empties the slot and schedules
           the decrement WITHOUT looking at the slot again.  If another thread
           drops THE SAME handle in between, the count reaches 0 while another
           handle is live.  try_unwrap_race_counterexample: [DArc],
             main = [IArcClone 0 0 1; ISpawn 1; IArcTryUnwrap 0 0; IJoin 1;
                     IArcCount 0 1; IArcDrop 0 1; IArcDrop 0 0],  t1 = [IArcDrop 0 0];
           second iteration of the model's own exploration (main preempted at the
           AInspect branch of try_unwrap, t1 runs its drop, main resumes): log
           ... LOp 1 0 RUnit; LDrop 0; LOp 0 2 (RBool true) ... and the later
           strong_count through slot 1 ends the run with PanicArcReleased; final
           state count 0, one live handle.  Safe Rust cannot write this program
           (try_unwrap consumes the handle another thread is dropping).  NOTE for
           the model/harness correspondence: the harness does [take()] on the
           slot BEFORE loom's branch point inside try_unwrap, the model empties
           the slot AFTER it; on this racy program the harness's t1 would find
           the slot empty ("x").  The two agree on race-free programs.
       Proved instead: the invariant is inductive for every micro-step that
       respects the HANDLE DISCIPLINE
         disciplined e (MArcIncPost k j)        := k < |e_h| -> slot j of k exists and is empty
         disciplined e (MArcGetMutPost k i true) := k < |e_h| -> slot i of k is still live
         disciplined e _                         := true
       (step_count_inv, dsteps_count_inv); run_count_inv has the hypothesis
       [run_disc fuel (init_exec p pa) = true], a boolean monitor that replays
       run and checks [disciplined] at every executed micro-op.  No assumption is
       needed about drops, strong_count, get_mut or about misuse that the model
       answers with RX (operation on an empty slot: nothing changes).
   D2  The channel half needs NO side condition (step_base_inv, run_chan_inv).
       A send to a channel whose receiver has been dropped hands the message
       back and undoes its bookkeeping (loom: Channel::undo_send, "a message
       handed back by send() is not held by the channel"): count and views are
       unchanged.  MDropRx clears the receiver flag only when the count is 0, so
       after the drop the count is 0 and the std queue is [] for ever; the
       equation length (ho_q) = ch_cnt = length (ch_recv_sync) holds always
       (chan_inv_queue_length, run_chan_count_is_queue_length_all).
   D3  recv_never_empty_handed "unreachable from init_exec" WAS false before the
       undo_send fix (witness then: recv_on_dropped_receiver_counterexample);
       it is now TRUE on declared channels (recv_never_empty_handed_declared,
       run_model20_only_undeclared).  The program of the old witness, [DChan],
         main = [ISpawn 1; ISpawn 2; IRecv 0], t1 = [IDropRx 0], t2 = [ISend 0 5],
       first iteration: main blocks in recv on the empty channel, t1 drops the
       receiver, t2 sends (RDisc, count back to 0, but main woken), main's
       MRecvPost finds count 0: IterPanic PanicExpectMsg
       (recv_on_dropped_receiver_expect_msg; before the undo_send fix: count 1,
       empty std queue, PanicModel 20).  Not expressible in safe Rust
       (the Receiver would have to be used by two threads; in the harness it is a
       use-after-free).  Proved instead: the failure is impossible while the
       receiver is alive (recv_never_empty_handed: chan_inv e -> ho_rx = true ->
       exec_micro e me (MRecvPost h lg) <> MFail _ (PanicModel 20)), and at run
       level run_model20_only_after_receiver_drop: if a run from init_exec ends
       with PanicModel 20 then, in the final state, some channel has its
       receiver dropped (exec_micro_model20: no other micro-op produces that
       panic).  Sharper, since the fix: recv_never_empty_handed_declared needs
       only h < length (e_h e), and run_model20_only_undeclared says the failing
       index is not a declared object at all.
   D4  strong_count logs live + drops in flight (a handle whose drop has passed
       the harness but not yet the runtime decrement still counts, as in std
       where the count is decremented inside drop);
       strong_count_is_live_handles_quiet is the requested equality when no drop
       is in flight.  final_drop_iff_last_handle: LDrop k is logged by exactly
       the decrement that finds no live handle and no OTHER drop in flight.
   D5  Arcs created by block_on (waker clones, MArcIncRaw / MArcDecRaw) are not
       harness objects and are outside the invariant; raw_inv only records that
       they never alias a declared object.
   D6  The step theorems are stated on [pop e me rest] (the state on which
       Check.run executes the micro-op) with the invariant assumed on the state
       BEFORE the pop: the popped MArcDecPost is one of the counted drops. *)
Require Import LV.Base LV.VV LV.Path LV.Prog LV.Objects LV.Exec LV.Atomic LV.Ops LV.Check
               LV.SyncFacts LV.ExecFacts LV.SyncMono.
From Coq Require Import List Arith Lia Bool.
Import ListNotations.

(* ================================================================== *)
(* 0. Lists                                                            *)
(* ================================================================== *)

Lemma list_set_id : forall (A : Type) (l : list A) i x,
  nth_error l i = Some x -> list_set l i x = l.
Proof.
  intros A. induction l as [|h t IH]; intros i x Hx; [reflexivity|].
  destruct i as [|i]; cbn [list_set nth_error] in *.
  - injection Hx as ->. reflexivity.
  - rewrite IH by exact Hx. reflexivity.
Qed.

Lemma list_upd_id : forall (A : Type) (l : list A) i, list_upd l i (fun x => x) = l.
Proof.
  intros A l i. unfold list_upd. destruct (nth_error l i) as [x|] eqn:Hx; [|reflexivity].
  apply list_set_id, Hx.
Qed.

Lemma map_list_set : forall (A B : Type) (g : A -> B) (l : list A) i x,
  map g (list_set l i x) = list_set (map g l) i (g x).
Proof.
  intros A B g. induction l as [|h t IH]; intros i x; [reflexivity|].
  destruct i as [|i]; cbn [list_set map]; [reflexivity|]. rewrite IH. reflexivity.
Qed.

Lemma map_list_upd : forall (A B : Type) (g : A -> B) (l : list A) i f f',
  (forall x, g (f x) = f' (g x)) -> map g (list_upd l i f) = list_upd (map g l) i f'.
Proof.
  intros A B g l i f f' H. unfold list_upd. rewrite nth_error_map.
  destruct (nth_error l i) as [x|]; cbn [option_map]; [|reflexivity].
  rewrite map_list_set, H. reflexivity.
Qed.

Lemma map_mapi_from_keep : forall (A B C : Type) (g : B -> C) (g0 : A -> C) (f : nat -> A -> B) (l : list A) k,
  (forall i x, g (f i x) = g0 x) -> map g (mapi_from k f l) = map g0 l.
Proof.
  intros A B C g g0 f. induction l as [|h t IH]; intros k H; [reflexivity|].
  cbn [mapi_from map]. rewrite H, IH by exact H. reflexivity.
Qed.

Lemma map_mapi_keep : forall (A C : Type) (g : A -> C) (f : nat -> A -> A) (l : list A),
  (forall i x, g (f i x) = g x) -> map g (mapi f l) = map g l.
Proof. intros A C g f l H. unfold mapi. apply map_mapi_from_keep, H. Qed.

Lemma nth_error_nth_lt : forall (A : Type) (l : list A) i d,
  i < length l -> nth_error l i = Some (nth i l d).
Proof. intros A l i d H. apply nth_error_nth'. exact H. Qed.

Fixpoint count_true (l : list bool) : nat :=
  match l with
  | [] => 0
  | b :: t => (if b then 1 else 0) + count_true t
  end.

Lemma count_true_set_true : forall l j,
  nth_error l j = Some false -> count_true (list_set l j true) = S (count_true l).
Proof.
  induction l as [|b t IH]; intros j H; [destruct j; discriminate H|].
  destruct j as [|j]; cbn [nth_error list_set count_true] in *.
  - injection H as ->. reflexivity.
  - rewrite IH by exact H. lia.
Qed.

Lemma count_true_set_false : forall l i,
  nth i l false = true -> S (count_true (list_set l i false)) = count_true l.
Proof.
  induction l as [|b t IH]; intros i H; [destruct i; discriminate H|].
  destruct i as [|i]; cbn [nth list_set count_true] in *.
  - subst b. reflexivity.
  - rewrite <- (IH i H). lia.
Qed.

Lemma count_true_set_same : forall l i b,
  nth_error l i = Some b -> count_true (list_set l i b) = count_true l.
Proof. intros l i b H. rewrite list_set_id by exact H. reflexivity. Qed.

Lemma count_true_set_true_le : forall l j, count_true (list_set l j true) <= S (count_true l).
Proof.
  induction l as [|b t IH]; intros j; [cbn; lia|].
  destruct j as [|j]; cbn [list_set count_true].
  - destruct b; lia.
  - specialize (IH j). lia.
Qed.

(* ================================================================== *)
(* 1. What is counted                                                  *)
(* ================================================================== *)

(* live handles of the harness-level Arc k *)
Definition live (e : exec) (k : nat) : nat := count_true (ho_slots (get_h e k)).

(* handles whose drop is in flight: the slot has been emptied (the std handle
   is gone) and the runtime decrement MArcDecPost k is still in the dropping
   thread's continuation (it comes after the branch point of the drop) *)
Definition is_dec (k : nat) (m : micro) : bool :=
  match m with MArcDecPost k' _ => Nat.eqb k' k | _ => false end.
Definition pend_cont (k : nat) (c : list micro) : nat := length (filter (is_dec k) c).
Fixpoint pendc (k : nat) (cs : list (list micro)) : nat :=
  match cs with
  | [] => 0
  | c :: t => pend_cont k c + pendc k t
  end.
Definition conts (e : exec) : list (list micro) := map t_cont (e_threads e).
Definition pend (e : exec) (k : nat) : nat := pendc k (conts e).

(* the Arc created by block_on (the waker) is not a harness object: the
   micro-operations that carry its index *)
Definition raw_ok (N : nat) (m : micro) : Prop :=
  match m with
  | MBoPoll _ _ _ _ k | MBoLoad _ _ _ _ k _ | MBoRegister _ _ _ _ k | MBoDone _ k
  | MArcIncRaw k | MArcDecRaw k
  | MBsPoll _ _ _ _ _ k _ | MBsLoad _ _ _ _ _ k _ | MSpawnW _ _ k
  | MWakeMineW _ k | MDropWakerW _ k => N <= k
  | _ => True
  end.
Definition no_dec (m : micro) : Prop :=
  match m with MArcDecPost _ _ => False | _ => True end.
Definition benign (N : nat) (m : micro) : Prop := raw_ok N m /\ no_dec m.

Definition is_static (m : micro) : bool :=
  match m with
  | MBoPoll _ _ _ _ _ | MBoLoad _ _ _ _ _ _ | MBoRegister _ _ _ _ _ | MBoDone _ _
  | MArcIncRaw _ | MArcDecRaw _ | MArcDecPost _ _
  | MBsPoll _ _ _ _ _ _ _ | MBsLoad _ _ _ _ _ _ _ | MSpawnW _ _ _
  | MWakeMineW _ _ | MDropWakerW _ _ => false
  | _ => true
  end.

Lemma static_benign N m : is_static m = true -> benign N m.
Proof. destruct m; cbn; intros H; try discriminate H; split; exact I. Qed.

Lemma benign_raw_ok N m : benign N m -> raw_ok N m.
Proof. intros [H _]. exact H. Qed.

Lemma pend_cont_app k a b : pend_cont k (a ++ b) = pend_cont k a + pend_cont k b.
Proof. unfold pend_cont. rewrite filter_app, app_length. reflexivity. Qed.

Lemma pend_cont_benign N k ms : Forall (benign N) ms -> pend_cont k ms = 0.
Proof.
  induction 1 as [|m ms [_ Hm] _ IH]; [reflexivity|].
  unfold pend_cont in *. cbn [filter]. destruct m; cbn [is_dec]; try exact IH. destruct Hm.
Qed.

Definition conts_ok (N : nat) (cs : list (list micro)) : Prop := Forall (Forall (raw_ok N)) cs.
Definition wakers_okl (N : nat) (hs : list hobj) : Prop :=
  forall w n k, ho_waker (nth w hs hobj_default) = Some (n, k) -> N <= k.
Definition wakers_ok (N : nat) (e : exec) : Prop := wakers_okl N (e_h e).
Definition bodies_ok (e : exec) : Prop :=
  forall b, Forall (fun m => is_static m = true) (nth b (e_bodies e) []).

(* ---- the invariant ---- *)

(* A: the runtime reference count of a declared Arc = live handles + drops in flight *)
Definition arc_inv (e : exec) : Prop :=
  forall k s, k < length (e_h e) -> get_arc e k = Some s ->
    arc_cnt s = live e k + pend e k.

(* B: the runtime message count of a declared channel = number of per-message
   views = length of the std queue; once the receiver is gone (MDropRx clears the
   flag only when the count is 0) the std queue is empty AND the count is 0, and
   both stay so: a send to a disconnected channel hands the message back and
   undoes its bookkeeping (Channel::undo_send) *)
Definition chan_inv (e : exec) : Prop :=
  forall h s, h < length (e_h e) -> get_chan e h = Some s ->
    ch_cnt s = length (ch_recv_sync s) /\
    (if ho_rx (get_h e h) then length (ho_q (get_h e h)) = ch_cnt s
     else ho_q (get_h e h) = [] /\ ch_cnt s = 0).

(* bookkeeping: the i-th harness object sits on the i-th runtime object; the
   Arcs of block_on live beyond the harness objects *)
Definition raw_inv (e : exec) : Prop :=
  length (e_h e) <= length (e_objects e) /\
  conts_ok (length (e_h e)) (conts e) /\ bodies_ok e /\ wakers_ok (length (e_h e)) e.

Definition base_inv (e : exec) : Prop := chan_inv e /\ raw_inv e.
Definition count_inv (e : exec) : Prop := arc_inv e /\ base_inv e.

(* ---- sums over the thread table ---- *)
Lemma pendc_upd k : forall cs me c g, nth_error cs me = Some c ->
  exists p, pendc k cs = p + pend_cont k c /\ pendc k (list_upd cs me g) = p + pend_cont k (g c).
Proof.
  induction cs as [|c0 cs IH]; intros me c g H; [destruct me; discriminate H|].
  destruct me as [|me]; cbn [nth_error] in H.
  - injection H as ->. exists (pendc k cs).
    unfold list_upd. cbn [nth_error list_set pendc]. lia.
  - destruct (IH me c g H) as (p & H1 & H2). exists (pend_cont k c0 + p).
    unfold list_upd in *. cbn [nth_error]. rewrite H in *. cbn [list_set pendc].
    rewrite H1, H2. lia.
Qed.

Lemma pendc_app k cs cs' : pendc k (cs ++ cs') = pendc k cs + pendc k cs'.
Proof. induction cs as [|c cs IH]; cbn [app pendc]; [reflexivity|]. rewrite IH. lia. Qed.

(* ================================================================== *)
(* 2. The frame relation: what a micro-operation that is neither an    *)
(*    Arc nor a channel operation keeps                                 *)
(* ================================================================== *)

Inductive ocount := CArc (c : nat) | CChan (c l : nat) | COther.
Definition ocnt (o : object) : ocount :=
  match o with
  | OArc s => CArc (arc_cnt s)
  | OChannel s => CChan (ch_cnt s) (length (ch_recv_sync s))
  | _ => COther
  end.

Definition hv (h : hobj) := (ho_q h, ho_rx h, ho_slots h).

Definition okeep (N : nat) (os os' : list object) : Prop :=
  length os <= length os' /\
  forall i o, i < N -> nth_error os i = Some o ->
    exists o', nth_error os' i = Some o' /\ (ocnt o' = ocnt o \/ ocnt o' = COther).

Definition hkeep (N : nat) (hs hs' : list hobj) : Prop :=
  length hs' = length hs /\
  (forall k, hv (nth k hs' hobj_default) = hv (nth k hs hobj_default)) /\
  (wakers_okl N hs -> wakers_okl N hs').

Definition tkeep (N : nat) (cs cs' : list (list micro)) : Prop :=
  (forall k, pendc k cs' = pendc k cs) /\ (conts_ok N cs -> conts_ok N cs').

Definition keeps (N : nat) (e e' : exec) : Prop :=
  hkeep N (e_h e) (e_h e') /\ okeep N (e_objects e) (e_objects e') /\
  tkeep N (conts e) (conts e') /\ e_bodies e' = e_bodies e.

Lemma okeep_refl N os : okeep N os os.
Proof. split; [apply Nat.le_refl|]. intros i o _ H. exists o. auto. Qed.

Lemma okeep_trans N a b c : okeep N a b -> okeep N b c -> okeep N a c.
Proof.
  intros [L1 H1] [L2 H2]. split; [lia|]. intros i o Hi Ho.
  destruct (H1 i o Hi Ho) as (o' & Ho' & Hr1). destruct (H2 i o' Hi Ho') as (o'' & Ho'' & Hr2).
  exists o''. split; [exact Ho''|]. destruct Hr2 as [Hr2|Hr2]; [|right; exact Hr2].
  destruct Hr1 as [Hr1|Hr1]; [left|right]; congruence.
Qed.

Lemma hkeep_refl N hs : hkeep N hs hs.
Proof. split; [reflexivity|]. split; auto. Qed.

Lemma hkeep_trans N a b c : hkeep N a b -> hkeep N b c -> hkeep N a c.
Proof.
  intros (L1 & H1 & W1) (L2 & H2 & W2). split; [congruence|]. split; [|auto].
  intros k. rewrite H2. apply H1.
Qed.

Lemma tkeep_refl N cs : tkeep N cs cs.
Proof. split; auto. Qed.

Lemma tkeep_trans N a b c : tkeep N a b -> tkeep N b c -> tkeep N a c.
Proof. intros [P1 C1] [P2 C2]. split; [|auto]. intros k. rewrite P2. apply P1. Qed.

Lemma keeps_refl N e : keeps N e e.
Proof. split; [apply hkeep_refl|]. split; [apply okeep_refl|]. split; [apply tkeep_refl|reflexivity]. Qed.

Lemma keeps_trans N e1 e2 e3 : keeps N e1 e2 -> keeps N e2 e3 -> keeps N e1 e3.
Proof.
  intros (H1 & O1 & T1 & B1) (H2 & O2 & T2 & B2).
  split; [eapply hkeep_trans; eassumption|]. split; [eapply okeep_trans; eassumption|].
  split; [eapply tkeep_trans; eassumption|congruence].
Qed.

Lemma keeps_same N e e' :
  e_h e' = e_h e -> e_objects e' = e_objects e -> conts e' = conts e -> e_bodies e' = e_bodies e ->
  keeps N e e'.
Proof.
  intros Hh Ho Hc Hb. unfold keeps. rewrite Hh, Ho, Hc.
  split; [apply hkeep_refl|]. split; [apply okeep_refl|]. split; [apply tkeep_refl|exact Hb].
Qed.

(* ---- threads ---- *)
Lemma keeps_threads N e ths' :
  tkeep N (conts e) (map t_cont ths') -> keeps N e (ex_set_threads e ths').
Proof.
  intros H. split; [apply hkeep_refl|]. split; [apply okeep_refl|]. split; [exact H|reflexivity].
Qed.

Lemma tkeep_upd N cs i g :
  (forall c, nth_error cs i = Some c ->
     (forall k, pend_cont k (g c) = pend_cont k c) /\
     (Forall (raw_ok N) c -> Forall (raw_ok N) (g c))) ->
  tkeep N cs (list_upd cs i g).
Proof.
  intros H. destruct (nth_error cs i) as [c|] eqn:Hc.
  - destruct (H c eq_refl) as [Hp Hr]. split.
    + intros k. destruct (pendc_upd k cs i c g Hc) as (p & H1 & H2). rewrite H1, H2, Hp. reflexivity.
    + unfold conts_ok. rewrite !Forall_forall. intros Hall c' Hin.
      apply In_nth_error in Hin. destruct Hin as [j Hj].
      destruct (Nat.eq_dec i j) as [->|Hne].
      * rewrite nth_error_list_upd_same, Hc in Hj. cbn [option_map] in Hj. injection Hj as <-.
        apply Hr. apply Hall. eapply nth_error_In; eassumption.
      * rewrite nth_error_list_upd_other in Hj by exact Hne.
        apply Hall. eapply nth_error_In; eassumption.
  - unfold list_upd. rewrite Hc. apply tkeep_refl.
Qed.

Lemma keeps_upd_thread N e i f :
  (forall t, t_cont (f t) = t_cont t) -> keeps N e (upd_thread e i f).
Proof.
  intros Hf. apply keeps_same; try reflexivity.
  unfold conts, upd_thread. cbn [e_threads ex_set_threads].
  rewrite (map_list_upd _ _ t_cont (e_threads e) i f (fun x => x)) by exact Hf.
  apply list_upd_id.
Qed.

Lemma conts_push_cont e me ms : conts (push_cont e me ms) = list_upd (conts e) me (app ms).
Proof.
  unfold conts, push_cont, upd_thread. cbn [e_threads ex_set_threads].
  apply map_list_upd. reflexivity.
Qed.

Lemma keeps_push_cont N e me ms : Forall (benign N) ms -> keeps N e (push_cont e me ms).
Proof.
  intros Hb. split; [apply hkeep_refl|]. split; [apply okeep_refl|]. split; [|reflexivity].
  rewrite conts_push_cont. apply tkeep_upd. intros c _. split.
  - intros k. rewrite pend_cont_app, (pend_cont_benign N k ms Hb). reflexivity.
  - intros Hc. apply Forall_app. split; [|exact Hc].
    eapply Forall_impl; [|exact Hb]. intros m. apply benign_raw_ok.
Qed.

Lemma keeps_mapi N e g :
  (forall id t, t_cont (g id t) = t_cont t) -> keeps N e (ex_set_threads e (mapi g (e_threads e))).
Proof.
  intros Hg. apply keeps_same; try reflexivity.
  unfold conts. cbn [e_threads ex_set_threads]. apply map_mapi_keep, Hg.
Qed.

Lemma keeps_append_threads N e nt :
  Forall (benign N) (t_cont nt) -> keeps N e (ex_set_threads e (e_threads e ++ [nt])).
Proof.
  intros Hb. apply keeps_threads. rewrite map_app. cbn [map]. fold (conts e). split.
  - intros k. rewrite pendc_app. cbn [pendc].
    rewrite (pend_cont_benign N k _ Hb). lia.
  - intros Hc. apply Forall_app. split; [exact Hc|]. constructor; [|constructor].
    eapply Forall_impl; [|exact Hb]. intros m. apply benign_raw_ok.
Qed.

(* ---- objects ---- *)
Lemma keeps_objects N e os' : okeep N (e_objects e) os' -> keeps N e (ex_set_objects e os').
Proof.
  intros H. split; [apply hkeep_refl|]. split; [exact H|]. split; [apply tkeep_refl|reflexivity].
Qed.

Lemma keeps_upd_object N e i f :
  (forall o, ocnt (f o) = ocnt o \/ ocnt (f o) = COther) -> keeps N e (upd_object e i f).
Proof.
  intros Hf. apply keeps_objects. split; [rewrite list_upd_length; apply Nat.le_refl|].
  intros j o _ Hj. destruct (Nat.eq_dec i j) as [->|Hne].
  - rewrite nth_error_list_upd_same, Hj. cbn [option_map]. eauto.
  - rewrite nth_error_list_upd_other by exact Hne. eauto.
Qed.

Lemma keeps_upd_object_hi N e i f : N <= i -> keeps N e (upd_object e i f).
Proof.
  intros Hi. apply keeps_objects. split; [rewrite list_upd_length; apply Nat.le_refl|].
  intros j o Hlt Hj. rewrite nth_error_list_upd_other by lia. eauto.
Qed.

Lemma keeps_append_objects N e l : keeps N e (ex_set_objects e (e_objects e ++ l)).
Proof.
  apply keeps_objects. split; [rewrite app_length; lia|].
  intros i o _ Hi. exists o. split; [|auto].
  rewrite nth_error_app1; [exact Hi|]. apply nth_error_Some. congruence.
Qed.

(* ---- harness objects ---- *)
Lemma keeps_hs N e hs' : hkeep N (e_h e) hs' -> keeps N e (ex_set_h e hs').
Proof.
  intros H. split; [exact H|]. split; [apply okeep_refl|]. split; [apply tkeep_refl|reflexivity].
Qed.

Lemma keeps_upd_hobj N e i f :
  (forall h, hv (f h) = hv h) ->
  (forall h n k, ho_waker (f h) = Some (n, k) -> N <= k \/ ho_waker h = Some (n, k)) ->
  keeps N e (upd_hobj e i f).
Proof.
  intros Hv Hw. apply keeps_hs. split; [apply list_upd_length|]. split.
  - intros k. apply nth_list_upd_proj. exact Hv.
  - intros Hok w n k Hk.
    destruct (nth_list_upd_same_or _ (e_h e) i f hobj_default w) as [Heq|[_ Heq]]; rewrite Heq in Hk.
    + eapply Hok; exact Hk.
    + destruct (Hw _ _ _ Hk) as [Hle|Hk']; [exact Hle|eapply Hok; exact Hk'].
Qed.

(* ================================================================== *)
(* 3. Framing lemmas in continuation style                             *)
(* ================================================================== *)

Lemma keeps_k N e0 e e' : keeps N e e' -> keeps N e0 e -> keeps N e0 e'.
Proof. intros H1 H0. eapply keeps_trans; eassumption. Qed.

Ltac tcont_tac :=
  intros;
  unfold thread_unpark, thread_notified, set_unparked, set_runnable, set_blocked, set_yield;
  repeat match goal with
         | |- context [if ?x then _ else _] => destruct x
         | |- context [match ?x with _ => _ end] => destruct x
         end; reflexivity.

Lemma keeps_upd_thread_k N e0 e i f :
  (forall t, t_cont (f t) = t_cont t) -> keeps N e0 e -> keeps N e0 (upd_thread e i f).
Proof. intros Hf. apply keeps_k, keeps_upd_thread, Hf. Qed.
Lemma keeps_set_caus_k N e0 e me v : keeps N e0 e -> keeps N e0 (set_caus e me v).
Proof. apply keeps_k, keeps_upd_thread. tcont_tac. Qed.
Lemma keeps_causality_inc_k N e0 e me : keeps N e0 e -> keeps N e0 (causality_inc e me).
Proof. apply keeps_k, keeps_upd_thread. tcont_tac. Qed.
Lemma keeps_push_cont_k N e0 e me ms :
  Forall (benign N) ms -> keeps N e0 e -> keeps N e0 (push_cont e me ms).
Proof. intros H. apply keeps_k, keeps_push_cont, H. Qed.
Lemma keeps_push_guard_k N e0 e me k m : keeps N e0 e -> keeps N e0 (push_guard e me k m).
Proof. apply keeps_k, keeps_upd_thread. tcont_tac. Qed.
Lemma keeps_drop_guard_k N e0 e me k m : keeps N e0 e -> keeps N e0 (drop_guard e me k m).
Proof. apply keeps_k, keeps_upd_thread. tcont_tac. Qed.
Lemma keeps_map_others_k N e0 e me p f :
  (forall t, t_cont (f t) = t_cont t) -> keeps N e0 e -> keeps N e0 (map_others e me p f).
Proof.
  intros Hf. apply keeps_k. unfold map_others. apply keeps_mapi.
  intros id t. destruct (negb (Nat.eqb id me) && p t); [apply Hf|reflexivity].
Qed.
Lemma keeps_upd_object_k N e0 e i o' :
  ocnt o' = COther -> keeps N e0 e -> keeps N e0 (upd_object e i (fun _ => o')).
Proof. intros H. apply keeps_k, keeps_upd_object. intros o. right. exact H. Qed.
Lemma keeps_upd_object_hi_k N e0 e i f :
  N <= i -> keeps N e0 e -> keeps N e0 (upd_object e i f).
Proof. intros H. apply keeps_k, keeps_upd_object_hi, H. Qed.
Lemma keeps_upd_hobj_k N e0 e i f :
  (forall h, hv (f h) = hv h) ->
  (forall h n k, ho_waker (f h) = Some (n, k) -> N <= k \/ ho_waker h = Some (n, k)) ->
  keeps N e0 e -> keeps N e0 (upd_hobj e i f).
Proof. intros H1 H2. apply keeps_k, keeps_upd_hobj; assumption. Qed.
Lemma keeps_append_objects_k N e0 e l :
  keeps N e0 e -> keeps N e0 (ex_set_objects e (e_objects e ++ l)).
Proof. apply keeps_k, keeps_append_objects. Qed.
Lemma keeps_append_threads_k N e0 e nt :
  Forall (benign N) (t_cont nt) -> keeps N e0 e -> keeps N e0 (ex_set_threads e (e_threads e ++ [nt])).
Proof. intros H. apply keeps_k, keeps_append_threads, H. Qed.

Lemma keeps_set_path_k N e0 e x : keeps N e0 e -> keeps N e0 (ex_set_path e x).
Proof. apply keeps_k, keeps_same; reflexivity. Qed.
Lemma keeps_set_active_k N e0 e x : keeps N e0 e -> keeps N e0 (ex_set_active e x).
Proof. apply keeps_k, keeps_same; reflexivity. Qed.
Lemma keeps_set_seqcst_k N e0 e x : keeps N e0 e -> keeps N e0 (ex_set_seqcst e x).
Proof. apply keeps_k, keeps_same; reflexivity. Qed.
Lemma keeps_set_spawned_k N e0 e x : keeps N e0 e -> keeps N e0 (ex_set_spawned e x).
Proof. apply keeps_k, keeps_same; reflexivity. Qed.
Lemma keeps_set_joined_k N e0 e x : keeps N e0 e -> keeps N e0 (ex_set_joined e x).
Proof. apply keeps_k, keeps_same; reflexivity. Qed.
Lemma keeps_set_log_k N e0 e x : keeps N e0 e -> keeps N e0 (ex_set_log e x).
Proof. apply keeps_k, keeps_same; reflexivity. Qed.
Lemma keeps_set_lazy_k N e0 e x : keeps N e0 e -> keeps N e0 (ex_set_lazy e x).
Proof. apply keeps_k, keeps_same; reflexivity. Qed.
Lemma keeps_log_op_k N e0 e me r : keeps N e0 e -> keeps N e0 (log_op e me r).
Proof.
  apply keeps_k. unfold log_op.
  destruct (get_thread e me); [apply keeps_same; reflexivity|apply keeps_refl].
Qed.
Lemma keeps_log_poll_k N e0 e me : keeps N e0 e -> keeps N e0 (log_poll e me).
Proof.
  apply keeps_k. unfold log_poll.
  destruct (get_thread e me); [apply keeps_same; reflexivity|apply keeps_refl].
Qed.

Lemma keeps_threads_unpark_k N e0 e me id : keeps N e0 e -> keeps N e0 (threads_unpark e me id).
Proof.
  apply keeps_k. unfold threads_unpark. destruct (Nat.eqb id me); apply keeps_upd_thread; tcont_tac.
Qed.

Lemma keeps_fold_unpark_k N me l : forall e0 e,
  keeps N e0 e -> keeps N e0 (fold_left (fun e t => threads_unpark e me t) l e).
Proof.
  induction l as [|w l IH]; intros e0 e H; cbn [fold_left]; [exact H|].
  apply IH, keeps_threads_unpark_k, H.
Qed.

Lemma ocnt_set_last_access o act tid pid v : ocnt (set_last_access o act tid pid v) = ocnt o.
Proof. destruct o; try reflexivity; cbn [set_last_access]; destruct act; reflexivity. Qed.

Lemma keeps_sched_note_k N e0 e nx pid th : keeps N e0 e -> keeps N e0 (sched_note e nx pid th).
Proof.
  apply keeps_k. unfold sched_note. destruct (t_op th) as [op|]; [|apply keeps_refl].
  destruct (nth_error (e_objects e) (op_obj op)) as [o|]; [|apply keeps_refl].
  cbv zeta.
  match goal with |- keeps _ _ (upd_object ?E _ _) => apply (keeps_trans _ _ E) end.
  - apply keeps_upd_thread. tcont_tac.
  - apply keeps_upd_object. intros o'. left. apply ocnt_set_last_access.
Qed.

Lemma schedule_keeps N e : keeps N e (res_exec (fst (schedule e))).
Proof.
  destruct (schedule_cases e)
    as [(c & ->)|[(x & ->)|[(p1 & x & Hd & ->)|(curr & cur_th & p1 & p2 & next & Hp & ->)]]];
    cbn [fst res_exec]; try apply keeps_refl.
  - apply keeps_set_path_k, keeps_refl.
  - assert (Hb : keeps N e (sched_base e p2 next))
      by (unfold sched_base; apply keeps_set_active_k, keeps_set_path_k, keeps_refl).
    revert Hb. generalize (sched_base e p2 next). intros e1 Hb.
    unfold sched_post. destruct next as [nx|].
    + destruct (nth_error (e_threads e1) nx) as [th|]; cbn [fst res_exec]; [|exact Hb].
      unfold reactivate.
      match goal with |- keeps _ _ (ex_set_threads ?E _) => apply (keeps_trans _ _ E) end.
      * apply keeps_sched_note_k, Hb.
      * apply keeps_mapi. tcont_tac.
    + destruct (forallb is_terminated (e_threads e1)); cbn [fst res_exec]; exact Hb.
Qed.

Lemma schedule_keeps_k N e0 e : keeps N e0 e -> keeps N e0 (res_exec (fst (schedule e))).
Proof. apply keeps_k, schedule_keeps. Qed.

Lemma do_branch_keeps_k N e0 e me obj act blk :
  keeps N e0 e -> keeps N e0 (res_exec (do_branch e me obj act blk)).
Proof.
  intros H. unfold do_branch. apply schedule_keeps_k, keeps_upd_thread_k; [tcont_tac|exact H].
Qed.

Lemma do_park_keeps_k N e0 e me : keeps N e0 e -> keeps N e0 (res_exec (do_park e me)).
Proof.
  intros H. unfold do_park. destruct (get_thread e me) as [t|]; [|exact H].
  destruct (t_token t); cbn [res_exec];
    first [apply schedule_keeps_k|idtac]; (apply keeps_upd_thread_k; [tcont_tac|exact H]).
Qed.

Lemma do_yield_keeps_k N e0 e me : keeps N e0 e -> keeps N e0 (res_exec (do_yield e me)).
Proof.
  intros H. unfold do_yield. apply schedule_keeps_k, keeps_upd_thread_k; [tcont_tac|exact H].
Qed.

Lemma release_lock_keeps_k N e0 e me m : keeps N e0 e -> keeps N e0 (release_lock e me m).
Proof.
  intros H. unfold release_lock. destruct (get_mutex e m) as [s|]; [|exact H]. cbv zeta.
  destruct (e_active _).
  - apply keeps_map_others_k; [tcont_tac|]. repeat (apply keeps_upd_object_k; [reflexivity|]). exact H.
  - apply keeps_upd_object_k; [reflexivity|exact H].
Qed.

Lemma post_acquire_keeps N e me m : keeps N e (fst (post_acquire e me m)).
Proof.
  unfold post_acquire. destruct (get_mutex e m) as [s|]; [|apply keeps_refl].
  destruct (is_some (mx_lock s)); cbn [fst]; [apply keeps_refl|].
  apply keeps_map_others_k; [tcont_tac|]. apply keeps_set_caus_k.
  apply keeps_upd_object_k; [reflexivity|apply keeps_refl].
Qed.

Lemma post_acquire_read_keeps N e me r : keeps N e (fst (post_acquire_read e me r)).
Proof.
  unfold post_acquire_read. destruct (get_rw e r) as [s|]; [|apply keeps_refl].
  destruct (rw_lock s) as [[rs|w]|]; cbn [fst]; try apply keeps_refl.
  all: apply keeps_map_others_k; [tcont_tac|]; apply keeps_set_caus_k;
    apply keeps_upd_object_k; [reflexivity|apply keeps_refl].
Qed.

Lemma post_acquire_write_keeps N e me r : keeps N e (fst (post_acquire_write e me r)).
Proof.
  unfold post_acquire_write. destruct (get_rw e r) as [s|]; [|apply keeps_refl].
  destruct (rw_lock s) as [lk|]; cbn [fst]; try apply keeps_refl.
  apply keeps_map_others_k; [tcont_tac|]; apply keeps_set_caus_k;
    apply keeps_upd_object_k; [reflexivity|apply keeps_refl].
Qed.

Lemma release_read_keeps N e me r : keeps N e (res_exec (release_read e me r)).
Proof.
  unfold release_read. destruct (get_rw e r) as [s|]; [|apply keeps_refl]. cbv zeta.
  destruct (rw_lock s) as [[rs|w]|]; cbn [res_exec]; try apply keeps_refl.
  destruct (set_remove me rs); cbn [res_exec].
  - apply keeps_map_others_k; [tcont_tac|]. apply keeps_upd_object_k; [reflexivity|apply keeps_refl].
  - apply keeps_upd_object_k; [reflexivity|apply keeps_refl].
Qed.

Lemma release_write_keeps N e me r : keeps N e (res_exec (release_write e me r)).
Proof.
  unfold release_write. destruct (get_rw e r) as [s|]; [|apply keeps_refl]. cbn [res_exec].
  apply keeps_map_others_k; [tcont_tac|]. apply keeps_upd_object_k; [reflexivity|apply keeps_refl].
Qed.

Lemma choose_store_keeps N e seed : keeps N e (fst (choose_store e seed)).
Proof.
  unfold choose_store.
  repeat match goal with
         | |- context [match ?x with _ => _ end] =>
             lazymatch x with
             | context [match _ with _ => _ end] => fail
             | _ => destruct x
             end
         end; cbn [fst]; first [apply keeps_refl | apply keeps_set_path_k, keeps_refl].
Qed.

(* ================================================================== *)
(* 4. The micro-operations that are neither Arc nor channel operations *)
(* ================================================================== *)

Ltac benign_tac :=
  cbn [app];
  repeat (apply Forall_cons; [split; cbn [raw_ok no_dec]; first [exact I | assumption | lia | idtac]|]);
  try apply Forall_nil.

Ltac side_hv := intros; reflexivity.
Ltac side_wk :=
  let h := fresh "h" in let n := fresh "n" in let k := fresh "k" in let Hw := fresh "Hw" in
  intros h n k Hw; cbn in Hw;
  first [ right; exact Hw | discriminate Hw
        | injection Hw as <- <-; left; first [assumption | lia] ].

Ltac kclose_step :=
  match goal with
  | |- keeps _ ?e ?e => apply keeps_refl
  | H : keeps ?N ?E ?x |- keeps ?N _ ?x => apply (keeps_trans N _ E x); [|exact H]
  | |- keeps _ _ (log_op _ _ _) => apply keeps_log_op_k
  | |- keeps _ _ (log_poll _ _) => apply keeps_log_poll_k
  | |- keeps _ _ (push_cont _ _ _) => apply keeps_push_cont_k; [benign_tac|]
  | |- keeps _ _ (push_guard _ _ _ _) => apply keeps_push_guard_k
  | |- keeps _ _ (drop_guard _ _ _ _) => apply keeps_drop_guard_k
  | |- keeps _ _ (causality_inc _ _) => apply keeps_causality_inc_k
  | |- keeps _ _ (release_lock _ _ _) => apply release_lock_keeps_k
  | |- keeps _ _ (threads_unpark _ _ _) => apply keeps_threads_unpark_k
  | |- keeps _ _ (fold_left _ _ _) => apply keeps_fold_unpark_k
  | |- keeps _ _ (ex_set_path _ _) => apply keeps_set_path_k
  | |- keeps _ _ (ex_set_active _ _) => apply keeps_set_active_k
  | |- keeps _ _ (ex_set_seqcst _ _) => apply keeps_set_seqcst_k
  | |- keeps _ _ (ex_set_spawned _ _) => apply keeps_set_spawned_k
  | |- keeps _ _ (ex_set_joined _ _) => apply keeps_set_joined_k
  | |- keeps _ _ (ex_set_log _ _) => apply keeps_set_log_k
  | |- keeps _ _ (ex_set_lazy _ _) => apply keeps_set_lazy_k
  | |- keeps _ _ (ex_set_objects ?e (e_objects ?e ++ _)) => apply keeps_append_objects_k
  | |- keeps _ _ (ex_set_threads ?e (e_threads ?e ++ [_])) => apply keeps_append_threads_k
  | |- keeps _ _ (upd_object _ _ (fun _ => _)) =>
      first [ apply keeps_upd_object_k; [reflexivity|]
            | apply keeps_upd_object_hi_k; [first [assumption|lia]|] ]
  | |- keeps _ _ (upd_thread _ _ _) => apply keeps_upd_thread_k; [tcont_tac|]
  | |- keeps _ _ (upd_hobj _ _ _) => apply keeps_upd_hobj_k; [side_hv|side_wk|]
  | |- keeps _ _ (set_caus _ _ _) => apply keeps_set_caus_k
  | |- keeps _ _ (map_others _ _ _ _) => apply keeps_map_others_k; [tcont_tac|]
  end.

Ltac kclose := cbn [res_exec lp_exec]; repeat kclose_step.

Ltac kstep :=
  match goal with
  | |- keeps _ _ (res_exec (fst (schedule _))) => apply schedule_keeps_k
  | |- keeps _ _ (res_exec (do_branch _ _ _ _ _)) => apply do_branch_keeps_k
  | |- keeps _ _ (res_exec (do_park _ _)) => apply do_park_keeps_k
  | |- keeps _ _ (res_exec (do_yield _ _)) => apply do_yield_keeps_k
  | |- context [post_acquire ?e ?me ?m] =>
      let H := fresh "Hfr" in
      match goal with |- keeps ?N _ _ => pose proof (post_acquire_keeps N e me m) as H end;
      destruct (post_acquire e me m); cbn [fst] in H
  | |- context [post_acquire_read ?e ?me ?m] =>
      let H := fresh "Hfr" in
      match goal with |- keeps ?N _ _ => pose proof (post_acquire_read_keeps N e me m) as H end;
      destruct (post_acquire_read e me m); cbn [fst] in H
  | |- context [post_acquire_write ?e ?me ?m] =>
      let H := fresh "Hfr" in
      match goal with |- keeps ?N _ _ => pose proof (post_acquire_write_keeps N e me m) as H end;
      destruct (post_acquire_write e me m); cbn [fst] in H
  | |- context [release_read ?e ?me ?m] =>
      let H := fresh "Hfr" in
      match goal with |- keeps ?N _ _ => pose proof (release_read_keeps N e me m) as H end;
      destruct (release_read e me m); cbn [res_exec] in H
  | |- context [release_write ?e ?me ?m] =>
      let H := fresh "Hfr" in
      match goal with |- keeps ?N _ _ => pose proof (release_write_keeps N e me m) as H end;
      destruct (release_write e me m); cbn [res_exec] in H
  | |- context [choose_store ?e ?s] =>
      let H := fresh "Hfr" in
      match goal with |- keeps ?N _ _ => pose proof (choose_store_keeps N e s) as H end;
      destruct (choose_store e s) as [? [?|?]]; cbn [fst] in H
  | |- context [match ?x with _ => _ end] =>
      lazymatch x with
      | context [match _ with _ => _ end] => fail
      | _ => destruct x eqn:?
      end
  end; cbv beta iota.

Lemma load_post_keeps N e me a o : keeps N e (lp_exec (load_post e me a o)).
Proof. unfold load_post. repeat kstep. all: kclose. Qed.

Ltac kstep' :=
  first [ match goal with
          | |- context [load_post ?e ?me ?a ?o] =>
              let H := fresh "Hfr" in
              match goal with |- keeps ?N _ _ => pose proof (load_post_keeps N e me a o) as H end;
              destruct (load_post e me a o) as [[? ?]|[? ?]]; cbn [lp_exec] in H; cbv beta iota
          end
        | kstep ].

Ltac keeps_tac :=
  cbn [exec_micro]; unfold lift_path, mbind; cbv beta iota;
  repeat kstep'; kclose.

Definition generic (m : micro) : bool :=
  match m with
  | MArcIncPost _ _ | MArcDrop _ _ | MArcDecPost _ _ | MArcGetMutPost _ _ _
  | MSendPost _ _ | MRecvPost _ _ | MDropRx _ => false
  | _ => true
  end.

Lemma wakers_keeps N e e1 w n k :
  wakers_ok N e -> keeps N e e1 -> ho_waker (get_h e1 w) = Some (n, k) -> N <= k.
Proof. intros Hw ((_ & _ & Hk) & _) H. eapply Hk; [exact Hw|exact H]. Qed.

Lemma subst_waker_benign N n k : N <= k -> forall c used,
  Forall (fun m => is_static m = true) c -> Forall (benign N) (subst_waker n k used c).
Proof.
  intros Hk. induction c as [|m c IH]; intros used Hc; cbn [subst_waker]; [constructor|].
  pose proof (Forall_inv Hc) as Hm. pose proof (Forall_inv_tail Hc) as Ht.
  destruct m; try (constructor; [apply static_benign; exact Hm|apply IH; exact Ht]).
  - destruct used; (constructor; [|apply IH; exact Ht]); split; cbn [raw_ok no_dec]; auto.
  - constructor; [|apply IH; exact Ht]. destruct used; split; cbn [raw_ok no_dec]; auto.
Qed.

Lemma exec_micro_keeps N e me m :
  generic m = true -> raw_ok N m -> N <= length (e_objects e) -> wakers_ok N e -> bodies_ok e ->
  keeps N e (res_exec (exec_micro e me m)).
Proof.
  intros Hg Hm Hlen Hwk Hbod. destruct m; try discriminate Hg; cbn [raw_ok] in Hm; clear Hg.
  all: try (keeps_tac; fail).
  all: keeps_tac.
  1-2: cbn [t_cont th_set_dpor th_set_caus thread_new e_bodies ex_set_objects];
    (eapply Forall_impl; [|apply Hbod]); intros m0 Hm0; apply static_benign; exact Hm0.
  1-3: eapply wakers_keeps; eassumption.
  all: cbn [t_cont th_set_dpor th_set_caus thread_new e_bodies ex_set_objects];
    apply subst_waker_benign; [exact Hm|apply Hbod].
Qed.

(* ================================================================== *)
(* 5. The frame relation preserves the invariants                      *)
(* ================================================================== *)

Lemma hv_eq_inv h h' : hv h' = hv h -> ho_q h' = ho_q h /\ ho_rx h' = ho_rx h /\ ho_slots h' = ho_slots h.
Proof. unfold hv. intros H. injection H as H1 H2 H3. auto. Qed.

Lemma get_arc_ocnt e k s : get_arc e k = Some s ->
  exists o, nth_error (e_objects e) k = Some o /\ ocnt o = CArc (arc_cnt s).
Proof. intros H. apply get_arc_nth in H. eexists. split; [exact H|reflexivity]. Qed.

Lemma ocnt_arc_inv o c : ocnt o = CArc c -> exists s, o = OArc s /\ arc_cnt s = c.
Proof. destruct o; cbn [ocnt]; intros H; try discriminate H. injection H as <-. eauto. Qed.

Lemma ocnt_chan_inv o c l : ocnt o = CChan c l ->
  exists s, o = OChannel s /\ ch_cnt s = c /\ length (ch_recv_sync s) = l.
Proof. destruct o; cbn [ocnt]; intros H; try discriminate H. injection H as <- <-. eauto. Qed.

Lemma get_arc_of_nth e k s : nth_error (e_objects e) k = Some (OArc s) -> get_arc e k = Some s.
Proof. intros H. unfold get_arc. rewrite H. reflexivity. Qed.
Lemma get_chan_of_nth e k s : nth_error (e_objects e) k = Some (OChannel s) -> get_chan e k = Some s.
Proof. intros H. unfold get_chan. rewrite H. reflexivity. Qed.

Lemma keeps_arc_inv e e' :
  keeps (length (e_h e)) e e' -> length (e_h e) <= length (e_objects e) -> arc_inv e -> arc_inv e'.
Proof.
  intros ((Hl & Hv & _) & (_ & Ho) & (Hp & _) & _) Hlen Ha k s' Hk Hg.
  rewrite Hl in Hk. apply get_arc_nth in Hg.
  destruct (nth_error (e_objects e) k) as [o|] eqn:Hn;
    [|apply nth_error_None in Hn; lia].
  destruct (Ho k o Hk Hn) as (o' & Hn' & Hr). rewrite Hg in Hn'. injection Hn' as <-.
  cbn [ocnt] in Hr. destruct Hr as [Hr|Hr]; [|discriminate Hr].
  symmetry in Hr. destruct (ocnt_arc_inv _ _ Hr) as (s & -> & Hc).
  rewrite <- Hc. rewrite (Ha k s Hk (get_arc_of_nth _ _ _ Hn)).
  unfold live, pend, get_h. destruct (hv_eq_inv _ _ (Hv k)) as (_ & _ & ->). rewrite Hp. reflexivity.
Qed.

Lemma keeps_base_inv e e' : keeps (length (e_h e)) e e' -> base_inv e -> base_inv e'.
Proof.
  intros ((Hl & Hv & Hw) & (Hol & Ho) & (Hp & Hc) & Hb) (Hch & Hlen & Hco & Hbo & Hwk). split.
  - intros h s' Hh Hg. rewrite Hl in Hh. apply get_chan_nth in Hg.
    destruct (nth_error (e_objects e) h) as [o|] eqn:Hn;
      [|apply nth_error_None in Hn; lia].
    destruct (Ho h o Hh Hn) as (o' & Hn' & Hr). rewrite Hg in Hn'. injection Hn' as <-.
    cbn [ocnt] in Hr. destruct Hr as [Hr|Hr]; [|discriminate Hr].
    symmetry in Hr. destruct (ocnt_chan_inv _ _ _ Hr) as (s & -> & Hc1 & Hc2).
    destruct (Hch h s Hh (get_chan_of_nth _ _ _ Hn)) as [H1 H2].
    unfold get_h in *. destruct (hv_eq_inv _ _ (Hv h)) as (-> & -> & _).
    rewrite <- Hc1, <- Hc2. split; [exact H1|exact H2].
  - unfold raw_inv. rewrite Hl. split; [lia|]. split; [auto|]. split; [|apply Hw, Hwk].
    unfold bodies_ok. rewrite Hb. exact Hbo.
Qed.

(* ================================================================== *)
(* 6. Local updates: one object, its harness object, one continuation  *)
(* ================================================================== *)

Definition proj4 (e : exec) := (e_objects e, e_h e, conts e, e_bodies e).
Definition on_o (F : list object -> list object)
  (p : list object * list hobj * list (list micro) * list (list micro)) :=
  let '(o, h, c, b) := p in (F o, h, c, b).
Definition on_h (F : list hobj -> list hobj)
  (p : list object * list hobj * list (list micro) * list (list micro)) :=
  let '(o, h, c, b) := p in (o, F h, c, b).
Definition on_c (F : list (list micro) -> list (list micro))
  (p : list object * list hobj * list (list micro) * list (list micro)) :=
  let '(o, h, c, b) := p in (o, h, F c, b).

Lemma proj4_log_op e me r : proj4 (log_op e me r) = proj4 e.
Proof. unfold log_op. destruct (get_thread e me); reflexivity. Qed.
Lemma proj4_set_log e l : proj4 (ex_set_log e l) = proj4 e.
Proof. reflexivity. Qed.
Lemma conts_upd_thread_keep e i f : (forall t, t_cont (f t) = t_cont t) ->
  conts (upd_thread e i f) = conts e.
Proof.
  intros Hf. unfold conts, upd_thread. cbn [e_threads ex_set_threads].
  rewrite (map_list_upd _ _ t_cont (e_threads e) i f (fun x => x)) by exact Hf.
  apply list_upd_id.
Qed.
Lemma proj4_upd_thread_keep e i f : (forall t, t_cont (f t) = t_cont t) ->
  proj4 (upd_thread e i f) = proj4 e.
Proof. intros Hf. unfold proj4. rewrite conts_upd_thread_keep by exact Hf. reflexivity. Qed.
Lemma proj4_set_caus e me v : proj4 (set_caus e me v) = proj4 e.
Proof. apply proj4_upd_thread_keep. reflexivity. Qed.
Lemma conts_map_others e me p f : (forall t, t_cont (f t) = t_cont t) ->
  conts (map_others e me p f) = conts e.
Proof.
  intros Hf. unfold conts, map_others. cbn [e_threads ex_set_threads]. apply map_mapi_keep.
  intros id t. destruct (negb (Nat.eqb id me) && p t); [apply Hf|reflexivity].
Qed.
Lemma proj4_map_others e me p f : (forall t, t_cont (f t) = t_cont t) ->
  proj4 (map_others e me p f) = proj4 e.
Proof. intros Hf. unfold proj4. rewrite conts_map_others by exact Hf. reflexivity. Qed.
Lemma proj4_map_others_blocked e me p : proj4 (map_others e me p set_blocked) = proj4 e.
Proof. apply proj4_map_others. reflexivity. Qed.
Lemma proj4_map_others_runnable e me p : proj4 (map_others e me p set_runnable) = proj4 e.
Proof. apply proj4_map_others. reflexivity. Qed.
Lemma proj4_push_cont e me ms :
  proj4 (push_cont e me ms) = on_c (fun c => list_upd c me (app ms)) (proj4 e).
Proof. unfold proj4, on_c. rewrite conts_push_cont. reflexivity. Qed.
Lemma conts_pop e me rest :
  conts (upd_thread e me (fun t => th_set_cont t rest)) = list_upd (conts e) me (fun _ => rest).
Proof.
  unfold conts, upd_thread. cbn [e_threads ex_set_threads]. apply map_list_upd. reflexivity.
Qed.
Lemma proj4_pop e me rest :
  proj4 (upd_thread e me (fun t => th_set_cont t rest)) =
  on_c (fun c => list_upd c me (fun _ => rest)) (proj4 e).
Proof. unfold proj4, on_c. rewrite conts_pop. reflexivity. Qed.
Lemma proj4_upd_object e i f : proj4 (upd_object e i f) = on_o (fun o => list_upd o i f) (proj4 e).
Proof. reflexivity. Qed.
Lemma proj4_upd_hobj e i f : proj4 (upd_hobj e i f) = on_h (fun h => list_upd h i f) (proj4 e).
Proof. reflexivity. Qed.
Lemma proj4_set_slot e k i b :
  proj4 (set_slot e k i b) =
  on_h (fun h => list_upd h k (fun h => ho_set_slots h (list_set (ho_slots h) i b))) (proj4 e).
Proof. reflexivity. Qed.

Global Hint Rewrite proj4_log_op proj4_set_log proj4_set_caus proj4_map_others_blocked
  proj4_map_others_runnable proj4_push_cont proj4_pop proj4_upd_object proj4_upd_hobj
  proj4_set_slot : proj4.

Definition upd_at (e e' : exec) (k : nat) (fo : object -> object) (fh : hobj -> hobj)
                  (me : nat) (g : list micro -> list micro) : Prop :=
  proj4 e' = (list_upd (e_objects e) k fo, list_upd (e_h e) k fh, list_upd (conts e) me g, e_bodies e).

Definition local_arc (p : nat) (o : object) (h : hobj) : Prop :=
  forall s, o = OArc s -> arc_cnt s = count_true (ho_slots h) + p.
Definition local_chan (o : object) (h : hobj) : Prop :=
  forall s, o = OChannel s ->
    ch_cnt s = length (ch_recv_sync s) /\
    (if ho_rx h then length (ho_q h) = ch_cnt s else ho_q h = [] /\ ch_cnt s = 0).

Lemma get_h_nth_error e k h : nth_error (e_h e) k = Some h -> get_h e k = h.
Proof. intros H. unfold get_h. apply nth_error_nth. exact H. Qed.

Lemma nth_error_get_h e k : k < length (e_h e) -> nth_error (e_h e) k = Some (get_h e k).
Proof. intros H. unfold get_h. apply nth_error_nth_lt. exact H. Qed.

Lemma arc_inv_update e e' k fo fh me c g :
  arc_inv e -> upd_at e e' k fo fh me g -> nth_error (conts e) me = Some c ->
  (forall k', k' <> k -> pend_cont k' (g c) = pend_cont k' c) ->
  (forall o h p, nth_error (e_objects e) k = Some o -> nth_error (e_h e) k = Some h ->
     local_arc (p + pend_cont k c) o h -> local_arc (p + pend_cont k (g c)) (fo o) (fh h)) ->
  arc_inv e'.
Proof.
  intros Ha Hu Hc Hoth Hloc k' s' Hk' Hg.
  unfold upd_at, proj4 in Hu. injection Hu as Ho Hh Hcs _.
  rewrite Hh, list_upd_length in Hk'.
  apply get_arc_nth in Hg. rewrite Ho in Hg.
  unfold live, pend, get_h. rewrite Hh, Hcs.
  destruct (pendc_upd k' (conts e) me c g Hc) as (p & Hp1 & Hp2). rewrite Hp2.
  pose proof (nth_error_get_h e k' Hk') as Hnh.
  destruct (Nat.eq_dec k k') as [->|Hne].
  - rewrite nth_error_list_upd_same in Hg.
    destruct (nth_error (e_objects e) k') as [o|] eqn:Hno; [|discriminate Hg].
    cbn [option_map] in Hg. injection Hg as Hg.
    assert (Hl : local_arc (p + pend_cont k' (g c)) (fo o) (fh (get_h e k'))).
    { apply Hloc; [reflexivity|exact Hnh|]. intros s ->.
      rewrite (Ha k' s Hk' (get_arc_of_nth _ _ _ Hno)). unfold live, pend. rewrite Hp1. reflexivity. }
    rewrite (Hl s' Hg). f_equal. f_equal.
    assert (Hx : nth_error (list_upd (e_h e) k' fh) k' = Some (fh (get_h e k')))
      by (rewrite nth_error_list_upd_same, Hnh; reflexivity).
    apply nth_error_nth with (d := hobj_default) in Hx. rewrite Hx. reflexivity.
  - rewrite nth_error_list_upd_other in Hg by exact Hne.
    rewrite (Ha k' s' Hk' (get_arc_of_nth _ _ _ Hg)). unfold live, pend, get_h.
    rewrite Hp1, (Hoth k') by (intros ->; apply Hne; reflexivity).
    f_equal. f_equal. f_equal.
    assert (Hx : nth_error (list_upd (e_h e) k fh) k' = Some (get_h e k'))
      by (rewrite nth_error_list_upd_other by exact Hne; exact Hnh).
    apply nth_error_nth with (d := hobj_default) in Hx. rewrite Hx. reflexivity.
Qed.

Lemma chan_inv_update e e' k fo fh me g :
  chan_inv e -> upd_at e e' k fo fh me g ->
  (forall o h, nth_error (e_objects e) k = Some o -> nth_error (e_h e) k = Some h ->
     local_chan o h -> local_chan (fo o) (fh h)) ->
  chan_inv e'.
Proof.
  intros Ha Hu Hloc k' s' Hk' Hg.
  unfold upd_at, proj4 in Hu. injection Hu as Ho Hh _ _.
  rewrite Hh, list_upd_length in Hk'.
  apply get_chan_nth in Hg. rewrite Ho in Hg.
  unfold get_h. rewrite Hh.
  pose proof (nth_error_get_h e k' Hk') as Hnh.
  destruct (Nat.eq_dec k k') as [->|Hne].
  - rewrite nth_error_list_upd_same in Hg.
    destruct (nth_error (e_objects e) k') as [o|] eqn:Hno; [|discriminate Hg].
    cbn [option_map] in Hg. injection Hg as Hg.
    assert (Hl : local_chan (fo o) (fh (get_h e k'))).
    { apply Hloc; [reflexivity|exact Hnh|]. intros s ->.
      apply (Ha k' s Hk' (get_chan_of_nth _ _ _ Hno)). }
    assert (Hx : nth_error (list_upd (e_h e) k' fh) k' = Some (fh (get_h e k')))
      by (rewrite nth_error_list_upd_same, Hnh; reflexivity).
    apply nth_error_nth with (d := hobj_default) in Hx. rewrite Hx. apply Hl, Hg.
  - rewrite nth_error_list_upd_other in Hg by exact Hne.
    assert (Hx : nth_error (list_upd (e_h e) k fh) k' = Some (get_h e k'))
      by (rewrite nth_error_list_upd_other by exact Hne; exact Hnh).
    apply nth_error_nth with (d := hobj_default) in Hx. rewrite Hx.
    apply (Ha k' s' Hk' (get_chan_of_nth _ _ _ Hg)).
Qed.

Lemma conts_ok_upd N cs me c g :
  conts_ok N cs -> nth_error cs me = Some c ->
  (Forall (raw_ok N) c -> Forall (raw_ok N) (g c)) -> conts_ok N (list_upd cs me g).
Proof.
  unfold conts_ok. intros Hall Hc Hr. apply Forall_forall. intros c' Hin.
  pose proof (proj1 (Forall_forall _ _) Hall) as Hall'.
  apply In_nth_error in Hin. destruct Hin as [j Hj].
  destruct (Nat.eq_dec me j) as [->|Hne].
  - rewrite nth_error_list_upd_same, Hc in Hj. cbn [option_map] in Hj. injection Hj as <-.
    apply Hr. apply Hall'. eapply nth_error_In; eassumption.
  - rewrite nth_error_list_upd_other in Hj by exact Hne.
    apply Hall'. eapply nth_error_In; eassumption.
Qed.

Lemma raw_inv_update e e' k fo fh me c g :
  raw_inv e -> upd_at e e' k fo fh me g -> nth_error (conts e) me = Some c ->
  (forall h, ho_waker (fh h) = ho_waker h) ->
  (Forall (raw_ok (length (e_h e))) c -> Forall (raw_ok (length (e_h e))) (g c)) ->
  raw_inv e'.
Proof.
  intros (Hlen & Hco & Hbo & Hwk) Hu Hc Hw Hg.
  unfold upd_at, proj4 in Hu. injection Hu as Ho Hh Hcs Hb.
  unfold raw_inv, bodies_ok, wakers_ok. rewrite Ho, Hh, Hcs, Hb, !list_upd_length.
  split; [exact Hlen|]. split; [|split; [exact Hbo|]].
  - eapply conts_ok_upd; eassumption.
  - intros w n k0 H. rewrite (nth_list_upd_proj _ _ ho_waker (e_h e) k fh hobj_default Hw w) in H.
    eapply Hwk; exact H.
Qed.

Lemma proj4_eq_arc_inv e e' : proj4 e' = proj4 e -> arc_inv e -> arc_inv e'.
Proof.
  unfold proj4. intros H. injection H as Ho Hh Hc Hb. intros Ha k s.
  unfold arc_inv, get_arc, live, pend, get_h in *. rewrite Ho, Hh, Hc. apply Ha.
Qed.

Lemma proj4_eq_base_inv e e' : proj4 e' = proj4 e -> base_inv e -> base_inv e'.
Proof.
  unfold proj4. intros H. injection H as Ho Hh Hc Hb.
  unfold base_inv, chan_inv, raw_inv, bodies_ok, wakers_ok, get_chan, get_h.
  rewrite Ho, Hh, Hc, Hb. auto.
Qed.

Lemma base_inv_update e e' k fo fh me c g :
  base_inv e -> upd_at e e' k fo fh me g -> nth_error (conts e) me = Some c ->
  (forall h, ho_waker (fh h) = ho_waker h) ->
  (Forall (raw_ok (length (e_h e))) c -> Forall (raw_ok (length (e_h e))) (g c)) ->
  (forall o h, nth_error (e_objects e) k = Some o -> nth_error (e_h e) k = Some h ->
     local_chan o h -> local_chan (fo o) (fh h)) ->
  base_inv e'.
Proof.
  intros [Hch Hraw] Hu Hc Hw Hg Hl. split.
  - eapply chan_inv_update; eassumption.
  - eapply raw_inv_update; eassumption.
Qed.

(* ================================================================== *)
(* 7. Popping the active thread's next micro-operation                 *)
(* ================================================================== *)

Definition pop (e : exec) (me : nat) (rest : list micro) : exec :=
  upd_thread e me (fun t => th_set_cont t rest).

Lemma pop_upd_at e me rest :
  upd_at e (pop e me rest) 0 (fun o => o) (fun h => h) me (fun _ => rest).
Proof. unfold upd_at, pop. rewrite proj4_pop. unfold proj4, on_c. rewrite !list_upd_id. reflexivity. Qed.

Lemma conts_nth e me t : nth_error (e_threads e) me = Some t -> nth_error (conts e) me = Some (t_cont t).
Proof. intros H. unfold conts. apply map_nth_error. exact H. Qed.

Lemma conts_pop_nth e me t rest :
  nth_error (e_threads e) me = Some t -> nth_error (conts (pop e me rest)) me = Some rest.
Proof.
  intros H. unfold pop. rewrite conts_pop, nth_error_list_upd_same, (conts_nth e me t H). reflexivity.
Qed.

Lemma pop_base_inv e me t m rest :
  base_inv e -> nth_error (e_threads e) me = Some t -> t_cont t = m :: rest ->
  base_inv (pop e me rest).
Proof.
  intros Hb Ht Hc. eapply base_inv_update; [exact Hb|apply pop_upd_at|apply conts_nth, Ht|auto| |auto].
  rewrite Hc. intros H. apply Forall_inv_tail in H. exact H.
Qed.

Lemma pend_cont_cons_no_dec k m rest : no_dec m -> pend_cont k (m :: rest) = pend_cont k rest.
Proof. intros H. unfold pend_cont. cbn [filter]. destruct m; cbn [is_dec]; try reflexivity. destruct H. Qed.

Lemma pop_arc_inv e me t m rest :
  arc_inv e -> nth_error (e_threads e) me = Some t -> t_cont t = m :: rest -> no_dec m ->
  arc_inv (pop e me rest).
Proof.
  intros Ha Ht Hc Hm. eapply arc_inv_update; [exact Ha|apply pop_upd_at|apply conts_nth, Ht| |].
  - intros k' _. rewrite Hc. symmetry. apply pend_cont_cons_no_dec, Hm.
  - intros o h p _ _. rewrite Hc, pend_cont_cons_no_dec by exact Hm. auto.
Qed.

Lemma e_h_pop e me rest : e_h (pop e me rest) = e_h e.
Proof. reflexivity. Qed.

(* ================================================================== *)
(* 8. The Arc and channel micro-operations                             *)
(* ================================================================== *)

(* handle discipline (what the harness enforces by rejecting the program or
   what Rust's ownership rules out): a clone is stored into an empty slot that
   exists; try_unwrap is applied to a handle that is still there when the
   inspection is made *)
Definition disciplined (e : exec) (m : micro) : bool :=
  match m with
  | MArcIncPost k j =>
      negb (Nat.ltb k (length (e_h e))) ||
      match nth_error (ho_slots (get_h e k)) j with Some false => true | _ => false end
  | MArcGetMutPost k i true => negb (Nat.ltb k (length (e_h e))) || slot_present e k i
  | _ => true
  end.

Ltac upd_at_tac :=
  unfold upd_at; autorewrite with proj4; unfold proj4; cbn [on_o on_h on_c];
  rewrite ?list_upd_id; reflexivity.

Lemma nth_error_h_lt e k h : nth_error (e_h e) k = Some h -> k < length (e_h e).
Proof. intros H. apply nth_error_Some. congruence. Qed.

(* ---- clone: MArcIncPost ---- *)
Lemma inc_post_upd e me k j s : get_arc e k = Some s ->
  upd_at e (res_exec (exec_micro e me (MArcIncPost k j))) k
    (fun _ => OArc (arc_set s (S (arc_cnt s)) (arc_sync s)))
    (fun h => ho_set_slots h (list_set (ho_slots h) j true)) me (fun c => c).
Proof. intros Hg. cbn [exec_micro]. rewrite Hg. cbn [res_exec]. upd_at_tac. Qed.

Lemma inc_post_base e me c k j :
  base_inv e -> nth_error (conts e) me = Some c ->
  base_inv (res_exec (exec_micro e me (MArcIncPost k j))).
Proof.
  intros Hb Hc. destruct (get_arc e k) as [s|] eqn:Hg.
  - eapply base_inv_update; [exact Hb|apply inc_post_upd, Hg|exact Hc|auto|auto|].
    intros o h _ _ _ s' Hs'. discriminate Hs'.
  - cbn [exec_micro]. rewrite Hg. exact Hb.
Qed.

Lemma inc_post_arc e me c k j :
  arc_inv e -> nth_error (conts e) me = Some c -> disciplined e (MArcIncPost k j) = true ->
  arc_inv (res_exec (exec_micro e me (MArcIncPost k j))).
Proof.
  intros Ha Hc Hd. destruct (get_arc e k) as [s|] eqn:Hg.
  - eapply arc_inv_update; [exact Ha|apply inc_post_upd, Hg|exact Hc|auto|].
    intros o h p Ho Hh Hl s' Hs'. injection Hs' as <-.
    apply get_arc_nth in Hg. rewrite Hg in Ho. injection Ho as <-.
    cbn [arc_set arc_cnt ho_set_slots ho_slots]. rewrite (Hl s eq_refl).
    cbn [disciplined] in Hd. pose proof (nth_error_h_lt e k h Hh) as Hlt.
    apply Nat.ltb_lt in Hlt. rewrite Hlt in Hd. cbn [negb orb] in Hd.
    rewrite (get_h_nth_error e k h Hh) in Hd.
    destruct (nth_error (ho_slots h) j) as [[|]|] eqn:Hj; try discriminate Hd.
    rewrite (count_true_set_true _ _ Hj). lia.
  - cbn [exec_micro]. rewrite Hg. exact Ha.
Qed.

(* ---- taking a handle out of its slot and scheduling the decrement:
        MArcDrop and the successful MArcGetMutPost (try_unwrap) ---- *)
Definition drop_ms (k : nat) (u : bool) : list micro := [MBranch k ARefDec BNever; MArcDecPost k u].

Lemma pend_cont_drop_ms k' k u c :
  pend_cont k' (drop_ms k u ++ c) = (if Nat.eqb k k' then 1 else 0) + pend_cont k' c.
Proof.
  rewrite pend_cont_app. unfold pend_cont, drop_ms. cbn [filter is_dec].
  destruct (Nat.eqb k k'); reflexivity.
Qed.

Lemma take_base e e' me c k i u :
  base_inv e ->
  upd_at e e' k (fun o => o) (fun h => ho_set_slots h (list_set (ho_slots h) i false)) me
         (app (drop_ms k u)) ->
  nth_error (conts e) me = Some c -> base_inv e'.
Proof.
  intros Hb Hu Hc. eapply base_inv_update; [exact Hb|exact Hu|exact Hc|auto| |].
  - intros H. apply Forall_app. split; [|exact H]. repeat constructor.
  - intros o h _ _ Hl. exact Hl.
Qed.

Lemma take_arc e e' me c k i u :
  arc_inv e ->
  upd_at e e' k (fun o => o) (fun h => ho_set_slots h (list_set (ho_slots h) i false)) me
         (app (drop_ms k u)) ->
  nth_error (conts e) me = Some c ->
  (k < length (e_h e) -> slot_present e k i = true) -> arc_inv e'.
Proof.
  intros Ha Hu Hc Hp. eapply arc_inv_update; [exact Ha|exact Hu|exact Hc| |].
  - intros k' Hne. rewrite pend_cont_drop_ms.
    destruct (Nat.eqb k k') eqn:E; [apply Nat.eqb_eq in E; congruence|reflexivity].
  - intros o h p _ Hh Hl s ->. rewrite pend_cont_drop_ms, Nat.eqb_refl.
    cbn [ho_set_slots ho_slots]. rewrite (Hl s eq_refl).
    specialize (Hp (nth_error_h_lt e k h Hh)). unfold slot_present in Hp.
    rewrite (get_h_nth_error e k h Hh) in Hp.
    rewrite <- (count_true_set_false _ _ Hp). lia.
Qed.

Lemma drop_upd e me k i : slot_present e k i = true ->
  upd_at e (res_exec (exec_micro e me (MArcDrop k i))) k (fun o => o)
    (fun h => ho_set_slots h (list_set (ho_slots h) i false)) me (app (drop_ms k false)).
Proof. intros Hp. cbn [exec_micro]. rewrite Hp. cbn [res_exec]. upd_at_tac. Qed.

Lemma drop_absent e me k i : slot_present e k i = false ->
  proj4 (res_exec (exec_micro e me (MArcDrop k i))) = proj4 e.
Proof. intros Hp. cbn [exec_micro]. rewrite Hp. cbn [res_exec]. apply proj4_log_op. Qed.

Lemma drop_base e me c k i :
  base_inv e -> nth_error (conts e) me = Some c ->
  base_inv (res_exec (exec_micro e me (MArcDrop k i))).
Proof.
  intros Hb Hc. destruct (slot_present e k i) eqn:Hp.
  - eapply take_base; [exact Hb|apply drop_upd, Hp|exact Hc].
  - eapply proj4_eq_base_inv; [apply drop_absent, Hp|exact Hb].
Qed.

Lemma drop_arc e me c k i :
  arc_inv e -> nth_error (conts e) me = Some c ->
  arc_inv (res_exec (exec_micro e me (MArcDrop k i))).
Proof.
  intros Ha Hc. destruct (slot_present e k i) eqn:Hp.
  - eapply take_arc; [exact Ha|apply drop_upd, Hp|exact Hc|auto].
  - eapply proj4_eq_arc_inv; [apply drop_absent, Hp|exact Ha].
Qed.

(* ---- MArcGetMutPost ---- *)
Lemma get_mut_post_cases e me k i u :
  proj4 (res_exec (exec_micro e me (MArcGetMutPost k i u))) = proj4 e \/
  (u = true /\ (exists s, get_arc e k = Some s /\ arc_cnt s = 1) /\
   upd_at e (res_exec (exec_micro e me (MArcGetMutPost k i u))) k (fun o => o)
     (fun h => ho_set_slots h (list_set (ho_slots h) i false)) me (app (drop_ms k true))).
Proof.
  cbn [exec_micro]. destruct (get_arc e k) as [s|] eqn:Hg; [|left; reflexivity].
  destruct (Nat.eqb (arc_cnt s) 0); [left; reflexivity|]. cbv zeta.
  destruct u.
  - destruct (Nat.eqb (arc_cnt s) 1) eqn:E1; cbn [res_exec].
    + right. split; [reflexivity|]. split; [exists s; split; [reflexivity|apply Nat.eqb_eq, E1]|].
      upd_at_tac.
    + left. autorewrite with proj4. reflexivity.
  - left. cbn [res_exec]. autorewrite with proj4. reflexivity.
Qed.

Lemma get_mut_post_base e me c k i u :
  base_inv e -> nth_error (conts e) me = Some c ->
  base_inv (res_exec (exec_micro e me (MArcGetMutPost k i u))).
Proof.
  intros Hb Hc. destruct (get_mut_post_cases e me k i u) as [Hp|(_ & _ & Hu)].
  - eapply proj4_eq_base_inv; eassumption.
  - eapply take_base; eassumption.
Qed.

Lemma get_mut_post_arc e me c k i u :
  arc_inv e -> nth_error (conts e) me = Some c -> disciplined e (MArcGetMutPost k i u) = true ->
  arc_inv (res_exec (exec_micro e me (MArcGetMutPost k i u))).
Proof.
  intros Ha Hc Hd. destruct (get_mut_post_cases e me k i u) as [Hp|(-> & _ & Hu)].
  - eapply proj4_eq_arc_inv; eassumption.
  - eapply take_arc; [exact Ha|exact Hu|exact Hc|].
    intros Hlt. cbn [disciplined] in Hd. apply Nat.ltb_lt in Hlt. rewrite Hlt in Hd. exact Hd.
Qed.

(* ---- MArcDecPost: stated from the state BEFORE the pop, because the popped
        micro-operation is one of the counted drops in flight ---- *)
Lemma pop_upd_at_k e me rest k :
  upd_at e (pop e me rest) k (fun o => o) (fun h => h) me (fun _ => rest).
Proof. unfold upd_at, pop. rewrite proj4_pop. unfold proj4, on_c. rewrite !list_upd_id. reflexivity. Qed.

Lemma dec_post_cases e me rest k u :
  res_exec (exec_micro (pop e me rest) me (MArcDecPost k u)) = pop e me rest /\
    (get_arc e k = None \/ exists s, get_arc e k = Some s /\ arc_cnt s = 0) \/
  exists s s', get_arc e k = Some s /\ arc_cnt s = S (arc_cnt s') /\
    upd_at e (res_exec (exec_micro (pop e me rest) me (MArcDecPost k u))) k
           (fun _ => OArc s') (fun h => h) me (fun _ => rest).
Proof.
  cbn [exec_micro]. change (get_arc (pop e me rest) k) with (get_arc e k).
  destruct (get_arc e k) as [s|] eqn:Hg; [|left; split; [reflexivity|left; reflexivity]].
  destruct (arc_cnt s) as [|cnt] eqn:Hcnt; [left; split; [reflexivity|right; eauto]|].
  right. exists s. eexists (arc_set s cnt _). split; [reflexivity|]. split; [exact Hcnt|]. cbv zeta.
  destruct (Nat.eqb cnt 0); cbn [res_exec]; unfold pop; upd_at_tac.
Qed.

Lemma pend_cont_dec_same k u rest : pend_cont k (MArcDecPost k u :: rest) = S (pend_cont k rest).
Proof. unfold pend_cont. cbn [filter is_dec]. rewrite Nat.eqb_refl. reflexivity. Qed.
Lemma pend_cont_dec_other k k' u rest : k' <> k -> pend_cont k' (MArcDecPost k u :: rest) = pend_cont k' rest.
Proof.
  intros H. unfold pend_cont. cbn [filter is_dec].
  destruct (Nat.eqb k k') eqn:E; [apply Nat.eqb_eq in E; congruence|reflexivity].
Qed.

Lemma dec_post_arc e me t rest k u :
  arc_inv e -> nth_error (e_threads e) me = Some t -> t_cont t = MArcDecPost k u :: rest ->
  arc_inv (res_exec (exec_micro (pop e me rest) me (MArcDecPost k u))).
Proof.
  intros Ha Ht Hc. pose proof (conts_nth e me t Ht) as Hcn. rewrite Hc in Hcn.
  destruct (dec_post_cases e me rest k u) as [[-> Hbad]|(s & s' & Hg & Hcnt & Hu)].
  - eapply arc_inv_update; [exact Ha|apply (pop_upd_at_k e me rest k)|exact Hcn| |].
    + intros k' Hne. symmetry. apply pend_cont_dec_other, Hne.
    + intros o h p Ho _ Hl s ->. exfalso. apply get_arc_of_nth in Ho.
      destruct Hbad as [Hn|(s0 & Hs0 & H0)]; [congruence|].
      rewrite Ho in Hs0. injection Hs0 as <-.
      specialize (Hl s eq_refl). rewrite pend_cont_dec_same in Hl. lia.
  - eapply arc_inv_update; [exact Ha|exact Hu|exact Hcn| |].
    + intros k' Hne. symmetry. apply pend_cont_dec_other, Hne.
    + intros o h p Ho _ Hl s0 Hs0. injection Hs0 as <-.
      apply get_arc_nth in Hg. rewrite Hg in Ho. injection Ho as <-.
      specialize (Hl s eq_refl). rewrite pend_cont_dec_same in Hl. lia.
Qed.

Lemma dec_post_base e me c k u :
  base_inv e -> nth_error (conts e) me = Some c ->
  base_inv (res_exec (exec_micro e me (MArcDecPost k u))).
Proof.
  intros Hb Hc. cbn [exec_micro]. destruct (get_arc e k) as [s|] eqn:Hg; [|exact Hb].
  destruct (arc_cnt s) as [|cnt]; [exact Hb|]. cbv zeta.
  eapply (base_inv_update e _ k (fun _ => OArc _) (fun h => h) me c (fun c => c));
    [exact Hb| |exact Hc|auto|auto|].
  - destruct (Nat.eqb cnt 0); cbn [res_exec]; upd_at_tac.
  - intros o h _ _ _ s0 Hs0. discriminate Hs0.
Qed.

(* ---- MSendPost ---- *)
(* receiver alive: count and views grow by one, the value is queued;
   receiver gone: count and views are the old ones (only ch_sender_sync moved) *)
Lemma send_post_upd e me h v s : get_chan e h = Some s ->
  exists s',
    (if ho_rx (get_h e h)
     then ch_cnt s' = S (ch_cnt s) /\ length (ch_recv_sync s') = S (length (ch_recv_sync s))
     else ch_cnt s' = ch_cnt s /\ ch_recv_sync s' = ch_recv_sync s) /\
    upd_at e (res_exec (exec_micro e me (MSendPost h v))) h (fun _ => OChannel s')
      (fun ho => if ho_rx (get_h e h) then ho_set_q ho (ho_q ho ++ [v]) else ho) me (fun c => c).
Proof.
  intros Hg. cbn [exec_micro]. rewrite Hg. cbv zeta.
  match goal with |- context [ho_rx (get_h ?E h)] =>
    tryif constr_eq E e then fail else
    (assert (Hh : get_h E h = get_h e h) by (destruct (Nat.eqb (S (ch_cnt s)) 1); reflexivity)) end.
  rewrite Hh. destruct (ho_rx (get_h e h)); cbv iota.
  - exists (mkChan (S (ch_cnt s)) (ch_last_send s) (ch_last_recv s)
              (sync_store (ch_sender_sync s) (caus_of e me) (rel_of e me) Release)
              (ch_recv_sync s ++ [sync_store (ch_sender_sync s) (caus_of e me) (rel_of e me) Release])
              (ch_last_try_recv s)).
    split; [split; [reflexivity|cbn [ch_recv_sync]; rewrite app_length; cbn [length]; lia]|].
    cbn [res_exec]. destruct (Nat.eqb (S (ch_cnt s)) 1); upd_at_tac.
  - exists (mkChan (ch_cnt s) (ch_last_send s) (ch_last_recv s)
              (sync_store (ch_sender_sync s) (caus_of e me) (rel_of e me) Release)
              (ch_recv_sync s) (ch_last_try_recv s)).
    split; [split; reflexivity|].
    cbn [res_exec]. destruct (Nat.eqb (S (ch_cnt s)) 1);
      unfold upd_at; autorewrite with proj4; unfold proj4; cbn [on_o on_h on_c];
      rewrite ?list_upd_id, list_upd_upd_const; reflexivity.
Qed.

Lemma send_post_base e me c h v :
  base_inv e -> nth_error (conts e) me = Some c ->
  base_inv (res_exec (exec_micro e me (MSendPost h v))).
Proof.
  intros Hb Hc. destruct (get_chan e h) as [s|] eqn:Hg.
  - destruct (send_post_upd e me h v s Hg) as (s' & H1 & Hu).
    eapply base_inv_update; [exact Hb|exact Hu|exact Hc| |auto|].
    + intros ho. destruct (ho_rx (get_h e h)); reflexivity.
    + intros o ho Ho Hh Hl s0 Hs0. injection Hs0 as <-.
      apply get_chan_nth in Hg. rewrite Hg in Ho. injection Ho as <-.
      destruct (Hl s eq_refl) as [L1 L2]. rewrite (get_h_nth_error e h ho Hh) in *.
      destruct (ho_rx ho) eqn:Hrx.
      * destruct H1 as [H1 H2]. split; [lia|].
        cbn [ho_set_q ho_rx ho_q]. rewrite Hrx, app_length. cbn [length]. lia.
      * destruct H1 as [H1 H2]. rewrite Hrx. rewrite H1, H2. split; [exact L1|exact L2].
  - cbn [exec_micro]. rewrite Hg. exact Hb.
Qed.

Lemma send_post_arc e me c h v :
  arc_inv e -> nth_error (conts e) me = Some c ->
  arc_inv (res_exec (exec_micro e me (MSendPost h v))).
Proof.
  intros Ha Hc. destruct (get_chan e h) as [s|] eqn:Hg.
  - destruct (send_post_upd e me h v s Hg) as (s' & H1 & Hu).
    eapply arc_inv_update; [exact Ha|exact Hu|exact Hc|auto|].
    intros o ho p _ _ _ s0 Hs0. discriminate Hs0.
  - cbn [exec_micro]. rewrite Hg. exact Ha.
Qed.

(* ---- MRecvPost ---- *)
Lemma recv_post_cases e me h lg :
  res_exec (exec_micro e me (MRecvPost h lg)) = e \/
  exists s s' sy, get_chan e h = Some s /\ ch_cnt s = S (ch_cnt s') /\
    ch_recv_sync s = sy :: ch_recv_sync s' /\
    ((exists v q, ho_q (get_h e h) = v :: q /\
        upd_at e (res_exec (exec_micro e me (MRecvPost h lg))) h (fun _ => OChannel s')
               (fun ho => ho_set_q ho q) me (fun c => c)) \/
     (ho_q (get_h e h) = [] /\
        upd_at e (res_exec (exec_micro e me (MRecvPost h lg))) h (fun _ => OChannel s')
               (fun ho => ho) me (fun c => c))).
Proof.
  cbn [exec_micro]. destruct (get_chan e h) as [s|] eqn:Hg; [|left; reflexivity].
  destruct (ch_cnt s) as [|cnt] eqn:Hcnt; [left; reflexivity|].
  destruct (ch_recv_sync s) as [|sy rest] eqn:Hrs; [left; reflexivity|].
  right. exists s. eexists (mkChan cnt _ _ _ rest _). exists sy.
  split; [reflexivity|]. split; [exact Hcnt|]. split; [exact Hrs|]. cbv zeta.
  match goal with |- context [ho_q (get_h ?E h)] =>
    tryif constr_eq E e then fail else
    (assert (Hh : get_h E h = get_h e h) by (destruct (Nat.eqb cnt 0); reflexivity)) end.
  rewrite Hh. destruct (ho_q (get_h e h)) as [|v q] eqn:Hq.
  - right. split; [reflexivity|]. cbn [res_exec]. destruct (Nat.eqb cnt 0); upd_at_tac.
  - left. exists v, q. split; [reflexivity|]. cbn [res_exec].
    destruct lg; destruct (Nat.eqb cnt 0); upd_at_tac.
Qed.

Lemma recv_post_base e me c h lg :
  base_inv e -> nth_error (conts e) me = Some c ->
  base_inv (res_exec (exec_micro e me (MRecvPost h lg))).
Proof.
  intros Hb Hc.
  destruct (recv_post_cases e me h lg)
    as [->|(s & s' & sy & Hg & H1 & H2 & [(v & q & Hq & Hu)|[Hq Hu]])]; [exact Hb| |].
  - eapply base_inv_update; [exact Hb|exact Hu|exact Hc|auto|auto|].
    intros o ho Ho Hh Hl s0 Hs0. injection Hs0 as <-.
    apply get_chan_nth in Hg. rewrite Hg in Ho. injection Ho as <-.
    destruct (Hl s eq_refl) as [L1 L2]. rewrite (get_h_nth_error e h ho Hh) in *.
    rewrite H2 in L1. cbn [length] in L1. split; [lia|].
    cbn [ho_set_q ho_rx ho_q]. destruct (ho_rx ho).
    + rewrite Hq in L2. cbn [length] in L2. lia.
    + destruct L2 as [L2 _]. rewrite Hq in L2. discriminate L2.
  - eapply base_inv_update; [exact Hb|exact Hu|exact Hc|auto|auto|].
    intros o ho Ho Hh Hl s0 Hs0. injection Hs0 as <-.
    apply get_chan_nth in Hg. rewrite Hg in Ho. injection Ho as <-.
    destruct (Hl s eq_refl) as [L1 L2]. rewrite (get_h_nth_error e h ho Hh) in *.
    rewrite H2 in L1. cbn [length] in L1. split; [lia|].
    destruct (ho_rx ho).
    + rewrite Hq in L2. cbn [length] in L2. lia.
    + destruct L2 as [_ L2]. lia.
Qed.

Lemma recv_post_arc e me c h lg :
  arc_inv e -> nth_error (conts e) me = Some c ->
  arc_inv (res_exec (exec_micro e me (MRecvPost h lg))).
Proof.
  intros Ha Hc.
  destruct (recv_post_cases e me h lg)
    as [->|(s & s' & sy & Hg & H1 & H2 & [(v & q & Hq & Hu)|[Hq Hu]])]; [exact Ha| |].
  - eapply arc_inv_update; [exact Ha|exact Hu|exact Hc|auto|].
    intros o ho p _ _ _ s0 Hs0. discriminate Hs0.
  - eapply arc_inv_update; [exact Ha|exact Hu|exact Hc|auto|].
    intros o ho p _ _ _ s0 Hs0. discriminate Hs0.
Qed.

(* ---- MDropRx ---- *)
Lemma drop_rx_cases e me h :
  keeps (length (e_h e)) e (res_exec (exec_micro e me (MDropRx h))) \/
  ((exists s, get_chan e h = Some s /\ ch_cnt s = 0 /\ ho_rx (get_h e h) = true) /\
   upd_at e (res_exec (exec_micro e me (MDropRx h))) h (fun o => o)
          (fun ho => ho_set_q (ho_set_rx ho false) []) me (fun c => c)).
Proof.
  cbn [exec_micro]. destruct (ho_rx (get_h e h)) eqn:Hrx; cbn [negb]; [|left; kclose].
  destruct (get_chan e h) as [s|]; [|left; kclose].
  destruct (Nat.eqb (ch_cnt s) 0) eqn:E; [right|left; kclose].
  split; [exists s; split; [reflexivity|split; [apply Nat.eqb_eq, E|reflexivity]]|].
  cbn [res_exec]; upd_at_tac.
Qed.

Lemma drop_rx_base e me c h :
  base_inv e -> nth_error (conts e) me = Some c ->
  base_inv (res_exec (exec_micro e me (MDropRx h))).
Proof.
  intros Hb Hc. destruct (drop_rx_cases e me h) as [Hk|[(s0 & Hg0 & Hz & _) Hu]].
  - eapply keeps_base_inv; eassumption.
  - eapply base_inv_update; [exact Hb|exact Hu|exact Hc|auto|auto|].
    intros o ho Ho _ Hl s Hs. destruct (Hl s Hs) as [L1 _]. split; [exact L1|].
    cbn [ho_set_q ho_set_rx ho_rx ho_q]. split; [reflexivity|].
    apply get_chan_nth in Hg0. rewrite Hg0 in Ho. injection Ho as Ho. rewrite <- Ho in Hs.
    injection Hs as <-. exact Hz.
Qed.

Lemma drop_rx_arc e me c h :
  arc_inv e -> base_inv e -> nth_error (conts e) me = Some c ->
  arc_inv (res_exec (exec_micro e me (MDropRx h))).
Proof.
  intros Ha Hb Hc. destruct (drop_rx_cases e me h) as [Hk|[_ Hu]].
  - eapply keeps_arc_inv; [exact Hk|apply Hb|exact Ha].
  - eapply arc_inv_update; [exact Ha|exact Hu|exact Hc|auto|].
    intros o ho p _ _ Hl s Hs. exact (Hl s Hs).
Qed.

(* ================================================================== *)
(* 9. Every micro-step                                                 *)
(* ================================================================== *)

Lemma generic_no_dec m : generic m = true -> no_dec m.
Proof. destruct m; cbn; intros H; try discriminate H; exact I. Qed.

Lemma raw_ok_head e me t m rest :
  raw_inv e -> nth_error (e_threads e) me = Some t -> t_cont t = m :: rest ->
  raw_ok (length (e_h e)) m.
Proof.
  intros (_ & Hco & _) Ht Hc. apply conts_nth in Ht. rewrite Hc in Ht.
  unfold conts_ok in Hco. rewrite Forall_forall in Hco.
  specialize (Hco _ (nth_error_In _ _ Ht)). apply Forall_inv in Hco. exact Hco.
Qed.

(* the state carried by the result, successful or panicking *)
Theorem step_base_inv e me t m rest :
  base_inv e -> nth_error (e_threads e) me = Some t -> t_cont t = m :: rest ->
  base_inv (res_exec (exec_micro (pop e me rest) me m)).
Proof.
  intros Hb Ht Hc.
  pose proof (pop_base_inv e me t m rest Hb Ht Hc) as Hb1.
  pose proof (conts_pop_nth e me t rest Ht) as Hc1.
  destruct (generic m) eqn:Hg.
  - eapply keeps_base_inv; [|exact Hb1].
    destruct Hb1 as (_ & Hl1 & _ & Hbo1 & Hw1).
    apply exec_micro_keeps; try assumption.
    rewrite e_h_pop. eapply raw_ok_head; [apply Hb|eassumption|eassumption].
  - destruct m; try discriminate Hg.
    + eapply send_post_base; eassumption.
    + eapply recv_post_base; eassumption.
    + eapply drop_rx_base; eassumption.
    + eapply inc_post_base; eassumption.
    + eapply drop_base; eassumption.
    + eapply dec_post_base; eassumption.
    + eapply get_mut_post_base; eassumption.
Qed.

Theorem step_arc_inv e me t m rest :
  count_inv e -> nth_error (e_threads e) me = Some t -> t_cont t = m :: rest ->
  disciplined e m = true ->
  arc_inv (res_exec (exec_micro (pop e me rest) me m)).
Proof.
  intros [Ha Hb] Ht Hc Hd.
  pose proof (pop_base_inv e me t m rest Hb Ht Hc) as Hb1.
  pose proof (conts_pop_nth e me t rest Ht) as Hc1.
  destruct (generic m) eqn:Hg.
  - pose proof (pop_arc_inv e me t m rest Ha Ht Hc (generic_no_dec m Hg)) as Ha1.
    eapply keeps_arc_inv; [|apply Hb1|exact Ha1].
    destruct Hb1 as (_ & Hl1 & _ & Hbo1 & Hw1).
    apply exec_micro_keeps; try assumption.
    rewrite e_h_pop. eapply raw_ok_head; [apply Hb|eassumption|eassumption].
  - destruct m; try discriminate Hg;
      try (pose proof (pop_arc_inv e me t _ rest Ha Ht Hc I) as Ha1).
    + eapply send_post_arc; eassumption.
    + eapply recv_post_arc; eassumption.
    + eapply drop_rx_arc; eassumption.
    + eapply inc_post_arc; [exact Ha1|exact Hc1|exact Hd].
    + eapply drop_arc; eassumption.
    + eapply dec_post_arc; eassumption.
    + eapply get_mut_post_arc; [exact Ha1|exact Hc1|exact Hd].
Qed.

Theorem step_count_inv e me t m rest :
  count_inv e -> nth_error (e_threads e) me = Some t -> t_cont t = m :: rest ->
  disciplined e m = true ->
  count_inv (res_exec (exec_micro (pop e me rest) me m)).
Proof.
  intros Hi Ht Hc Hd. split.
  - eapply step_arc_inv; eassumption.
  - eapply step_base_inv; [apply Hi|eassumption|eassumption].
Qed.

(* Execution::schedule on its own *)
Theorem schedule_count_inv e : count_inv e -> count_inv (res_exec (fst (schedule e))).
Proof.
  intros [Ha Hb]. pose proof (schedule_keeps (length (e_h e)) e) as Hk. split.
  - eapply keeps_arc_inv; [exact Hk|apply Hb|exact Ha].
  - eapply keeps_base_inv; eassumption.
Qed.

(* ================================================================== *)
(* 10. The initial state                                               *)
(* ================================================================== *)

Lemma expand_static body pc i : Forall (fun m => is_static m = true) (expand body pc i).
Proof.
  destruct i; cbn [expand];
    try match goal with |- context [Nat.eqb ?k 2] => destruct (Nat.eqb k 2) end;
    repeat constructor.
Qed.

Lemma expand_body_static body : forall l pc,
  Forall (fun m => is_static m = true) (expand_body_from body pc l).
Proof.
  induction l as [|i l IH]; intros pc; cbn [expand_body_from]; [constructor|].
  constructor; [reflexivity|]. apply Forall_app. split; [apply expand_static|apply IH].
Qed.

Lemma exit_seq_static b : Forall (fun m => is_static m = true) (exit_seq b).
Proof. destruct b; cbn [exit_seq]; repeat constructor. Qed.

Lemma expand_prog_static p b : Forall (fun m => is_static m = true) (nth b (expand_prog p) []).
Proof.
  destruct (nth_error (expand_prog p) b) as [l|] eqn:Hn.
  - rewrite (nth_error_nth _ _ [] Hn). unfold expand_prog in Hn. rewrite nth_error_mapi in Hn.
    destruct (nth_error (p_bodies p) b) as [body|]; [|discriminate Hn].
    cbn [option_map] in Hn. injection Hn as <-.
    apply Forall_app. split; [apply expand_body_static|apply exit_seq_static].
  - apply nth_error_None in Hn. rewrite nth_overflow by exact Hn. constructor.
Qed.

Lemma create_object_local d :
  exists o, create_object d vv_new vv_new = inl o /\
            local_arc 0 o (hobj_of_decl d) /\ local_chan o (hobj_of_decl d).
Proof.
  destruct d; cbn [create_object hobj_of_decl];
    (eexists; split; [reflexivity|]; split; intros s Hs; try discriminate Hs).
  - injection Hs as <-. split; reflexivity.
  - injection Hs as <-. reflexivity.
Qed.

Lemma create_objects_local ds :
  exists os, create_objects ds vv_new vv_new = inl os /\ length os = length ds /\
    forall k o h, nth_error os k = Some o -> nth_error (map hobj_of_decl ds) k = Some h ->
      local_arc 0 o h /\ local_chan o h.
Proof.
  induction ds as [|d ds IH].
  - exists []. repeat split; destruct k; discriminate.
  - destruct (create_object_local d) as (o & Ho & Hl). destruct IH as (os & Hos & Hlen & Hk).
    exists (o :: os). cbn [create_objects]. rewrite Ho, Hos. split; [reflexivity|].
    split; [cbn [length]; congruence|].
    intros [|k] o' h Hn Hh; cbn [map nth_error] in Hn, Hh.
    + injection Hn as <-. injection Hh as <-. exact Hl.
    + eauto.
Qed.

Lemma hobj_of_decl_waker d : ho_waker (hobj_of_decl d) = None.
Proof. destruct d; reflexivity. Qed.

Theorem init_count_inv p pa : count_inv (init_exec p pa).
Proof.
  destruct (create_objects_local (p_decls p)) as (os & Hos & Hlen & Hk).
  assert (Hpend : forall k, pend (init_exec p pa) k = 0).
  { intros k. unfold pend, conts, init_exec. cbn [e_threads map t_cont thread_new pendc].
    rewrite (pend_cont_benign 0 k); [reflexivity|].
    eapply Forall_impl; [|apply expand_prog_static]. intros m. apply static_benign. }
  split; [|split; [|split; [|split; [|split]]]].
  - intros k s Hlt Hg. rewrite Hpend. apply get_arc_nth in Hg.
    unfold init_exec in Hg, Hlt. cbn [e_objects e_h] in Hg, Hlt. rewrite Hos in Hg.
    pose proof (nth_error_get_h (init_exec p pa) k Hlt) as Hh.
    destruct (Hk k _ _ Hg Hh) as [Hl _]. rewrite (Hl s eq_refl). reflexivity.
  - intros h s Hlt Hg. apply get_chan_nth in Hg.
    unfold init_exec in Hg, Hlt. cbn [e_objects e_h] in Hg, Hlt. rewrite Hos in Hg.
    pose proof (nth_error_get_h (init_exec p pa) h Hlt) as Hh.
    destruct (Hk h _ _ Hg Hh) as [_ Hl]. exact (Hl s eq_refl).
  - unfold init_exec. cbn [e_objects e_h]. rewrite Hos, map_length, Hlen. apply Nat.le_refl.
  - unfold conts, init_exec. cbn [e_threads map t_cont thread_new e_h]. constructor; [|constructor].
    eapply Forall_impl; [|apply expand_prog_static]. intros m Hm. apply (static_benign _ m Hm).
  - intros b. unfold init_exec. cbn [e_bodies]. apply expand_prog_static.
  - intros w n k H. unfold init_exec in H. cbn [e_h] in H.
    destruct (nth_error (map hobj_of_decl (p_decls p)) w) as [h|] eqn:Hn.
    + rewrite (nth_error_nth _ _ hobj_default Hn) in H. rewrite nth_error_map in Hn.
      destruct (nth_error (p_decls p) w) as [d|]; [|discriminate Hn]. injection Hn as <-.
      rewrite hobj_of_decl_waker in H. discriminate H.
    + apply nth_error_None in Hn. rewrite nth_overflow in H by exact Hn. discriminate H.
Qed.

(* ================================================================== *)
(* 11. Executions                                                      *)
(* ================================================================== *)

(* steps in which the handle discipline is respected *)
Inductive dsteps : exec -> exec -> Prop :=
  | dsteps_refl e : dsteps e e
  | dsteps_step e me t m rest e1 e2 :
      e_active e = Some me -> nth_error (e_threads e) me = Some t -> t_cont t = m :: rest ->
      disciplined e m = true ->
      exec_micro (pop e me rest) me m = MOk e1 -> dsteps e1 e2 -> dsteps e e2.

Lemma dsteps_steps e e' : dsteps e e' -> steps e e'.
Proof.
  induction 1 as [e|e me t m rest e1 e2 Ha Ht Hc Hd Hx Hs IH]; [apply steps_refl|].
  eapply steps_step; [exact Ha|exact Ht|exact Hc|exact Hx|exact IH].
Qed.

Theorem dsteps_count_inv e e' : dsteps e e' -> count_inv e -> count_inv e'.
Proof.
  induction 1 as [e|e me t m rest e1 e2 Ha Ht Hc Hd Hx Hs IH]; intros Hi; [exact Hi|].
  apply IH. pose proof (step_count_inv e me t m rest Hi Ht Hc Hd) as H. rewrite Hx in H. exact H.
Qed.

(* the channel half needs no discipline *)
Theorem steps_base_inv e e' : steps e e' -> base_inv e -> base_inv e'.
Proof.
  induction 1 as [e|e me t m rest e1 e2 Ha Ht Hc Hx Hs IH]; intros Hi; [exact Hi|].
  apply IH. pose proof (step_base_inv e me t m rest Hi Ht Hc) as H.
  unfold pop in H. rewrite Hx in H. exact H.
Qed.

(* Scheduler::run with a monitor: every executed micro-operation respects the
   handle discipline *)
Fixpoint run_disc (fuel : nat) (e : exec) : bool :=
  match fuel with
  | 0 => true
  | S fuel' =>
      match e_active e with
      | None => true
      | Some me =>
          match nth_error (e_threads e) me with
          | None => true
          | Some t =>
              match t_cont t with
              | [] => true
              | m :: rest =>
                  disciplined e m &&
                  match exec_micro (pop e me rest) me m with
                  | MOk e2 => run_disc fuel' e2
                  | MFail _ _ => true
                  end
              end
          end
      end
  end.

Theorem run_base_inv : forall fuel e, base_inv e -> base_inv (fst (run fuel e)).
Proof.
  induction fuel as [|fuel IH]; intros e Hi; cbn [run]; [exact Hi|].
  destruct (e_active e) as [me|]; [|exact Hi].
  destruct (nth_error (e_threads e) me) as [t|] eqn:Ht; [|exact Hi].
  destruct (t_cont t) as [|m rest] eqn:Hc; [exact Hi|].
  pose proof (step_base_inv e me t m rest Hi Ht Hc) as H. unfold pop in H.
  destruct (exec_micro _ me m) as [e2|e2 pn]; cbn [res_exec fst] in *; [apply IH, H|exact H].
Qed.

Theorem run_count_inv_from : forall fuel e,
  count_inv e -> run_disc fuel e = true -> count_inv (fst (run fuel e)).
Proof.
  induction fuel as [|fuel IH]; intros e Hi Hd; cbn [run run_disc] in *; [exact Hi|].
  destruct (e_active e) as [me|]; [|exact Hi].
  destruct (nth_error (e_threads e) me) as [t|] eqn:Ht; [|exact Hi].
  destruct (t_cont t) as [|m rest] eqn:Hc; [exact Hi|].
  apply andb_prop in Hd. destruct Hd as [Hd1 Hd2].
  pose proof (step_count_inv e me t m rest Hi Ht Hc Hd1) as H. unfold pop in *.
  destruct (exec_micro _ me m) as [e2|e2 pn]; cbn [res_exec fst] in *; [apply IH; assumption|exact H].
Qed.

(* C *)
Theorem run_count_inv : forall fuel p pa,
  run_disc fuel (init_exec p pa) = true -> count_inv (fst (run fuel (init_exec p pa))).
Proof. intros fuel p pa. apply run_count_inv_from, init_count_inv. Qed.

Theorem run_chan_inv : forall fuel p pa, chan_inv (fst (run fuel (init_exec p pa))).
Proof. intros fuel p pa. apply (run_base_inv fuel (init_exec p pa)), init_count_inv. Qed.

(* the declared objects: e_h never changes its length *)
Lemma run_h_length fuel p pa :
  length (e_h (fst (run fuel (init_exec p pa)))) = length (p_decls p).
Proof.
  destruct (run_mono fuel (init_exec p pa)) as (_ & _ & [Hl _] & _). rewrite Hl.
  unfold init_exec. cbn [e_h]. apply map_length.
Qed.

(* the two halves of the invariant, spelled out for the runs of the model *)
Theorem run_arc_count_is_live_handles fuel p pa k s :
  run_disc fuel (init_exec p pa) = true -> k < length (p_decls p) ->
  get_arc (fst (run fuel (init_exec p pa))) k = Some s ->
  arc_cnt s = live (fst (run fuel (init_exec p pa))) k + pend (fst (run fuel (init_exec p pa))) k.
Proof.
  intros Hd Hk Hg. destruct (run_count_inv fuel p pa Hd) as [Ha _].
  apply Ha; [rewrite run_h_length; exact Hk|exact Hg].
Qed.

Theorem run_chan_count_is_queue_length fuel p pa h s :
  h < length (p_decls p) -> get_chan (fst (run fuel (init_exec p pa))) h = Some s ->
  ch_cnt s = length (ch_recv_sync s) /\
  (if ho_rx (get_h (fst (run fuel (init_exec p pa))) h)
   then length (ho_q (get_h (fst (run fuel (init_exec p pa))) h)) = ch_cnt s
   else ho_q (get_h (fst (run fuel (init_exec p pa))) h) = [] /\ ch_cnt s = 0).
Proof.
  intros Hh Hg. apply (run_chan_inv fuel p pa); [rewrite run_h_length; exact Hh|exact Hg].
Qed.

(* without the case distinction: the three counters always agree, and a channel
   whose receiver is gone holds no message *)
Lemma chan_inv_queue_length e h s :
  chan_inv e -> h < length (e_h e) -> get_chan e h = Some s ->
  ch_cnt s = length (ch_recv_sync s) /\ length (ho_q (get_h e h)) = ch_cnt s /\
  (ho_rx (get_h e h) = false -> ch_cnt s = 0).
Proof.
  intros Hi Hh Hg. destruct (Hi h s Hh Hg) as [L1 L2]. split; [exact L1|].
  destruct (ho_rx (get_h e h)).
  - split; [exact L2|]. intros Hf. discriminate Hf.
  - destruct L2 as [Hq Hz]. rewrite Hq, Hz. split; [reflexivity|]. intros _. reflexivity.
Qed.

Theorem run_chan_count_is_queue_length_all fuel p pa h s :
  h < length (p_decls p) -> get_chan (fst (run fuel (init_exec p pa))) h = Some s ->
  ch_cnt s = length (ch_recv_sync s) /\
  length (ho_q (get_h (fst (run fuel (init_exec p pa))) h)) = ch_cnt s /\
  (ho_rx (get_h (fst (run fuel (init_exec p pa))) h) = false -> ch_cnt s = 0).
Proof.
  intros Hh Hg. apply chan_inv_queue_length; [apply run_chan_inv|rewrite run_h_length; exact Hh|exact Hg].
Qed.

Lemma run_dsteps : forall fuel e e' r, run fuel e = (e', r) -> run_disc fuel e = true ->
  r = IterDone \/ r = IterFuel -> dsteps e e'.
Proof.
  induction fuel as [|fuel IH]; intros e e' r H Hd Hr; cbn [run run_disc] in H, Hd.
  - injection H as <- _. apply dsteps_refl.
  - destruct (e_active e) as [me|] eqn:Ha; [|injection H as <- _; apply dsteps_refl].
    destruct (nth_error (e_threads e) me) as [t|] eqn:Ht;
      [|injection H as _ <-; destruct Hr; discriminate].
    destruct (t_cont t) as [|m rest] eqn:Hc; [injection H as _ <-; destruct Hr; discriminate|].
    apply andb_prop in Hd. destruct Hd as [Hd1 Hd2]. unfold pop in *.
    destruct (exec_micro _ me m) as [e2|e2 pn] eqn:Hx;
      [|injection H as _ <-; destruct Hr; discriminate].
    eapply dsteps_step; eauto.
Qed.

(* ================================================================== *)
(* 12. A: loom::sync::Arc counts like std::sync::Arc                   *)
(* ================================================================== *)

Lemma log_op_log e me t r :
  get_thread e me = Some t -> e_log (log_op e me r) = LOp (t_body t) (t_pc t) r :: e_log e.
Proof. intros H. unfold log_op. rewrite H. reflexivity. Qed.

(* Arc::strong_count logs the number of live handles plus the drops in flight *)
Theorem strong_count_is_live_handles e me t k e' :
  arc_inv e -> k < length (e_h e) -> get_thread e me = Some t ->
  exec_micro e me (MArcCountPost k) = MOk e' ->
  e_log e' = LOp (t_body t) (t_pc t) (RVal (N.of_nat (live e k + pend e k))) :: e_log e.
Proof.
  intros Ha Hk Ht H. cbn [exec_micro] in H. destruct (get_arc e k) as [s|] eqn:Hg; [|discriminate H].
  destruct (Nat.eqb (arc_cnt s) 0); [discriminate H|]. injection H as <-.
  rewrite <- (Ha k s Hk Hg).
  match goal with |- context [log_op (set_caus e me ?v) me _] =>
    assert (Hgt : get_thread (set_caus e me v) me = Some (th_set_caus t v))
      by (unfold set_caus; rewrite get_thread_upd_thread_same, Ht; reflexivity) end.
  rewrite (log_op_log _ _ _ _ Hgt). reflexivity.
Qed.

Corollary strong_count_is_live_handles_quiet e me t k e' :
  arc_inv e -> k < length (e_h e) -> get_thread e me = Some t -> pend e k = 0 ->
  exec_micro e me (MArcCountPost k) = MOk e' ->
  e_log e' = LOp (t_body t) (t_pc t) (RVal (N.of_nat (live e k))) :: e_log e.
Proof.
  intros Ha Hk Ht Hp H. rewrite (strong_count_is_live_handles e me t k e' Ha Hk Ht H), Hp, Nat.add_0_r.
  reflexivity.
Qed.

Lemma pend_ge_own e me t k : nth_error (e_threads e) me = Some t ->
  pend_cont k (t_cont t) <= pend e k.
Proof.
  intros Ht. destruct (pendc_upd k (conts e) me (t_cont t) (fun c => c) (conts_nth e me t Ht))
    as (p & Hp & _). unfold pend. lia.
Qed.

(* the decrement that belongs to a dropped handle never finds the count at 0 *)
Theorem no_double_release e me t k u rest :
  arc_inv e -> k < length (e_h e) ->
  nth_error (e_threads e) me = Some t -> t_cont t = MArcDecPost k u :: rest ->
  forall e2, exec_micro (pop e me rest) me (MArcDecPost k u) <> MFail e2 PanicArcReleased.
Proof.
  intros Ha Hk Ht Hc e2 H. cbn [exec_micro] in H.
  change (get_arc (pop e me rest) k) with (get_arc e k) in H.
  destruct (get_arc e k) as [s|] eqn:Hg; [|discriminate H].
  pose proof (Ha k s Hk Hg) as Hcnt. pose proof (pend_ge_own e me t k Ht) as Hge.
  rewrite Hc, pend_cont_dec_same in Hge.
  destruct (arc_cnt s) as [|cnt]; [lia|]. discriminate H.
Qed.

(* the payload is destroyed (LDrop k is logged) by exactly that decrement
   after which no handle is live and no other drop is in flight *)
Definition destroys (e e' : exec) (k : nat) : Prop := exists l, e_log e' = l ++ LDrop k :: e_log e.

Theorem final_drop_iff_last_handle e me t k u rest e' :
  arc_inv e -> k < length (e_h e) ->
  nth_error (e_threads e) me = Some t -> t_cont t = MArcDecPost k u :: rest ->
  exec_micro (pop e me rest) me (MArcDecPost k u) = MOk e' ->
  (destroys e e' k <-> live e k = 0 /\ pend e k = 1).
Proof.
  intros Ha Hk Ht Hc H. cbn [exec_micro] in H.
  change (get_arc (pop e me rest) k) with (get_arc e k) in H.
  destruct (get_arc e k) as [s|] eqn:Hg; [|discriminate H].
  pose proof (Ha k s Hk Hg) as Hcnt. pose proof (pend_ge_own e me t k Ht) as Hge.
  rewrite Hc, pend_cont_dec_same in Hge.
  destruct (arc_cnt s) as [|cnt]; [discriminate H|]. cbv zeta in H. injection H as <-.
  assert (Ht1 : get_thread (pop e me rest) me = Some (th_set_cont t rest)).
  { unfold pop. rewrite get_thread_upd_thread_same. unfold get_thread. rewrite Ht. reflexivity. }
  unfold destroys. destruct (Nat.eqb cnt 0) eqn:E.
  - apply Nat.eqb_eq in E. subst cnt. split; [intros _; lia|intros _].
    unfold log_op.
    match goal with |- context [get_thread ?E me] =>
      assert (Hx : exists t2, get_thread E me = Some t2) end.
    { eexists. change (get_thread (ex_set_log ?X ?l) me) with (get_thread X me).
      unfold set_caus. rewrite get_thread_upd_thread_same, get_thread_upd_object, Ht1. reflexivity. }
    destruct Hx as (t2 & ->). eexists [_]. reflexivity.
  - apply Nat.eqb_neq in E. split; [|intros; lia]. intros (l & Hl). exfalso.
    unfold log_op in Hl. rewrite get_thread_upd_object, Ht1 in Hl.
    cbn [e_log ex_set_log upd_object ex_set_objects pop upd_thread ex_set_threads] in Hl.
    assert (Hlen : length l = 0).
    { apply (f_equal (@length logline)) in Hl. rewrite app_length in Hl. cbn [length] in Hl. lia. }
    destruct l; [|discriminate Hlen]. discriminate Hl.
Qed.

(* try_unwrap hands out the payload iff the handle is the only one *)
Theorem try_unwrap_iff_unique e k i s :
  arc_inv e -> k < length (e_h e) -> get_arc e k = Some s -> slot_present e k i = true ->
  (Nat.eqb (arc_cnt s) 1 = true <-> live e k = 1 /\ pend e k = 0).
Proof.
  intros Ha Hk Hg Hp. rewrite (Ha k s Hk Hg), Nat.eqb_eq.
  assert (1 <= live e k).
  { unfold live. unfold slot_present in Hp. rewrite <- (count_true_set_false _ _ Hp). lia. }
  lia.
Qed.

(* ================================================================== *)
(* 13. B: the channel delivers every message once, in order            *)
(* ================================================================== *)

Lemma get_h_default_ge e h : length (e_h e) <= h -> get_h e h = hobj_default.
Proof. intros H. unfold get_h. apply nth_overflow. exact H. Qed.

Lemma rx_in_range e h : ho_rx (get_h e h) = true -> h < length (e_h e).
Proof.
  intros H. destruct (Nat.lt_ge_cases h (length (e_h e))) as [Hlt|Hge]; [exact Hlt|].
  rewrite get_h_default_ge in H by exact Hge. discriminate H.
Qed.

Lemma q_in_range e h v q : ho_q (get_h e h) = v :: q -> h < length (e_h e).
Proof.
  intros H. destruct (Nat.lt_ge_cases h (length (e_h e))) as [Hlt|Hge]; [exact Hlt|].
  rewrite get_h_default_ge in H by exact Hge. discriminate H.
Qed.

Lemma upd_at_get_h_same e e' k fo fh me g :
  upd_at e e' k fo fh me g -> k < length (e_h e) -> get_h e' k = fh (get_h e k).
Proof.
  intros Hu Hk. unfold upd_at, proj4 in Hu. injection Hu as _ Hh _ _. unfold get_h. rewrite Hh.
  apply nth_error_nth. rewrite nth_error_list_upd_same, (nth_error_get_h e k Hk). reflexivity.
Qed.

Lemma upd_at_get_h_cases e e' k fo fh me g h :
  upd_at e e' k fo fh me g ->
  get_h e' h = get_h e h \/ (h = k /\ get_h e' h = fh (get_h e h)).
Proof.
  intros Hu. unfold upd_at, proj4 in Hu. injection Hu as _ Hh _ _. unfold get_h. rewrite Hh.
  apply nth_list_upd_same_or.
Qed.

Lemma upd_at_get_chan_same e e' k s' fh me g :
  upd_at e e' k (fun _ => OChannel s') fh me g -> k < length (e_objects e) ->
  get_chan e' k = Some s'.
Proof.
  intros Hu Hk. unfold upd_at, proj4 in Hu. injection Hu as Ho _ _ _. apply get_chan_of_nth.
  rewrite Ho, nth_error_list_upd_same. destruct (nth_error (e_objects e) k) eqn:E; [reflexivity|].
  apply nth_error_None in E. lia.
Qed.

Lemma proj4_eq_get_h e e' h : proj4 e' = proj4 e -> get_h e' h = get_h e h.
Proof. unfold proj4. intros H. injection H as _ Hh _ _. unfold get_h. rewrite Hh. reflexivity. Qed.

(* a send appends exactly its value at the back of the std queue, and the
   runtime counts one more message *)
Theorem send_appends_one e me h v e' :
  exec_micro e me (MSendPost h v) = MOk e' -> ho_rx (get_h e h) = true ->
  ho_q (get_h e' h) = ho_q (get_h e h) ++ [v] /\
  exists s s', get_chan e h = Some s /\ get_chan e' h = Some s' /\ ch_cnt s' = S (ch_cnt s).
Proof.
  intros H Hrx. destruct (get_chan e h) as [s|] eqn:Hg;
    [|cbn [exec_micro] in H; rewrite Hg in H; discriminate H].
  destruct (send_post_upd e me h v s Hg) as (s' & H1 & Hu). rewrite H in Hu. cbn [res_exec] in Hu.
  rewrite Hrx in H1. destruct H1 as [H1 _].
  rewrite (upd_at_get_h_same _ _ _ _ _ _ _ Hu (rx_in_range e h Hrx)), Hrx. split; [reflexivity|].
  exists s, s'. split; [reflexivity|]. split; [|exact H1].
  eapply upd_at_get_chan_same; [exact Hu|]. apply get_chan_nth in Hg. apply nth_error_Some. congruence.
Qed.

(* a send to a channel whose receiver is gone leaves the (empty) queue alone,
   and the runtime count and the per-message views as well: the message is
   handed back to the sender, the channel does not hold it *)
Theorem send_disconnected_keeps_queue e me h v e' :
  exec_micro e me (MSendPost h v) = MOk e' -> ho_rx (get_h e h) = false ->
  ho_q (get_h e' h) = ho_q (get_h e h) /\
  exists s s', get_chan e h = Some s /\ get_chan e' h = Some s' /\
               ch_cnt s' = ch_cnt s /\ ch_recv_sync s' = ch_recv_sync s.
Proof.
  intros H Hrx. destruct (get_chan e h) as [s|] eqn:Hg;
    [|cbn [exec_micro] in H; rewrite Hg in H; discriminate H].
  destruct (send_post_upd e me h v s Hg) as (s' & H1 & Hu). rewrite H in Hu. cbn [res_exec] in Hu.
  rewrite Hrx in H1. destruct H1 as [H1 H2]. split.
  - destruct (upd_at_get_h_cases _ _ _ _ _ _ _ h Hu) as [->|[_ ->]]; [reflexivity|].
    rewrite Hrx. reflexivity.
  - exists s, s'. split; [reflexivity|]. split; [|split; [exact H1|exact H2]].
    eapply upd_at_get_chan_same; [exact Hu|]. apply get_chan_nth in Hg. apply nth_error_Some. congruence.
Qed.

(* the internal failure of MRecvPost ("the runtime let the receive proceed but
   the std queue is empty") cannot happen while the receiver is alive *)
Theorem recv_never_empty_handed e me h lg :
  chan_inv e -> ho_rx (get_h e h) = true ->
  forall e2, exec_micro e me (MRecvPost h lg) <> MFail e2 (PanicModel 20).
Proof.
  intros Hch Hrx e2 H. pose proof (rx_in_range e h Hrx) as Hlt.
  cbn [exec_micro] in H. destruct (get_chan e h) as [s|] eqn:Hg; [|discriminate H].
  destruct (Hch h s Hlt Hg) as [_ Hq]. rewrite Hrx in Hq.
  destruct (ch_cnt s) as [|cnt]; [discriminate H|].
  destruct (ch_recv_sync s) as [|sy rest]; [discriminate H|]. cbv zeta in H.
  match type of H with context [ho_q (get_h ?E h)] =>
    assert (Hh : get_h E h = get_h e h) by (destruct (Nat.eqb cnt 0); reflexivity) end.
  rewrite Hh in H. destruct (ho_q (get_h e h)); [discriminate Hq|discriminate H].
Qed.

(* since the undo_send fix the three counters agree also after the receiver is
   gone, so the failure is impossible on every DECLARED channel, receiver alive
   or not *)
Theorem recv_never_empty_handed_declared e me h lg :
  chan_inv e -> h < length (e_h e) ->
  forall e2, exec_micro e me (MRecvPost h lg) <> MFail e2 (PanicModel 20).
Proof.
  intros Hch Hlt e2 H.
  cbn [exec_micro] in H. destruct (get_chan e h) as [s|] eqn:Hg; [|discriminate H].
  destruct (chan_inv_queue_length e h s Hch Hlt Hg) as (_ & Hq & _).
  destruct (ch_cnt s) as [|cnt]; [discriminate H|].
  destruct (ch_recv_sync s) as [|sy rest]; [discriminate H|]. cbv zeta in H.
  match type of H with context [ho_q (get_h ?E h)] =>
    assert (Hh : get_h E h = get_h e h) by (destruct (Nat.eqb cnt 0); reflexivity) end.
  rewrite Hh in H. destruct (ho_q (get_h e h)); [discriminate Hq|discriminate H].
Qed.

Corollary recv_proceeds_queue_nonempty e h s :
  chan_inv e -> ho_rx (get_h e h) = true -> get_chan e h = Some s -> ch_cnt s <> 0 ->
  ho_q (get_h e h) <> [].
Proof.
  intros Hch Hrx Hg Hc Hq. destruct (Hch h s (rx_in_range e h Hrx) Hg) as [_ H].
  rewrite Hrx, Hq in H. cbn [length] in H. congruence.
Qed.

(* a successful receive (recv, or try_recv that found a message) removes exactly
   the front element of the std queue and logs its value *)
Theorem recv_removes_front e me t h e' :
  get_thread e me = Some t -> exec_micro e me (MRecvPost h true) = MOk e' ->
  exists v q, ho_q (get_h e h) = v :: q /\ ho_q (get_h e' h) = q /\
              e_log e' = LOp (t_body t) (t_pc t) (RVal v) :: e_log e.
Proof.
  intros Ht H. cbn [exec_micro] in H. destruct (get_chan e h) as [s|] eqn:Hg; [|discriminate H].
  destruct (ch_cnt s) as [|cnt]; [discriminate H|].
  destruct (ch_recv_sync s) as [|sy rest]; [discriminate H|]. cbv zeta in H.
  match type of H with context [ho_q (get_h ?E h)] => set (E0 := E) in * end.
  assert (Hh : get_h E0 h = get_h e h) by (unfold E0; destruct (Nat.eqb cnt 0); reflexivity).
  assert (Hlog : e_log E0 = e_log e) by (unfold E0; destruct (Nat.eqb cnt 0); reflexivity).
  assert (Hlen : length (e_h E0) = length (e_h e)) by (unfold E0; destruct (Nat.eqb cnt 0); reflexivity).
  assert (Hth : exists t', get_thread E0 me = Some t' /\ t_body t' = t_body t /\ t_pc t' = t_pc t).
  { unfold E0. destruct (Nat.eqb cnt 0).
    - rewrite get_thread_map_others. unfold set_caus.
      rewrite get_thread_upd_thread_same, get_thread_upd_object, Ht. cbn [option_map].
      rewrite Nat.eqb_refl. cbn [negb andb]. eexists. split; [reflexivity|]. split; reflexivity.
    - unfold set_caus. rewrite get_thread_upd_thread_same, get_thread_upd_object, Ht.
      cbn [option_map]. eexists. split; [reflexivity|]. split; reflexivity. }
  clearbody E0. rename E0 into E.
  rewrite Hh in H. destruct (ho_q (get_h e h)) as [|v q] eqn:Hq; [discriminate H|].
  injection H as <-. exists v, q. split; [reflexivity|].
  destruct Hth as (t' & Ht' & Hb & Hp). split.
  - assert (He : e_h (log_op (upd_hobj E h (fun ho => ho_set_q ho q)) me (RVal v)) =
                 list_upd (e_h E) h (fun ho => ho_set_q ho q))
      by (unfold log_op; destruct (get_thread (upd_hobj E h (fun ho => ho_set_q ho q)) me); reflexivity).
    unfold get_h at 1. rewrite He.
    assert (Hlt : h < length (e_h E)) by (rewrite Hlen; eapply q_in_range; exact Hq).
    erewrite nth_error_nth;
      [|rewrite nth_error_list_upd_same, (nth_error_get_h E h Hlt); reflexivity].
    reflexivity.
  - rewrite (log_op_log _ me t'); [rewrite Hb, Hp; cbn [e_log upd_hobj ex_set_h]; rewrite Hlog; reflexivity|].
    exact Ht'.
Qed.

(* the shape of one step on a std queue *)
Definition qshape (q q' : list N) : Prop :=
  q' = q \/ (exists v, q' = q ++ [v]) \/ (exists v, q = v :: q').

Lemma keeps_q N e e' h : keeps N e e' -> ho_q (get_h e' h) = ho_q (get_h e h).
Proof. intros ((_ & Hv & _) & _). destruct (hv_eq_inv _ _ (Hv h)) as (H & _). exact H. Qed.

Lemma upd_at_q_same e e' k fo fh me g h :
  upd_at e e' k fo fh me g -> (forall ho, ho_q (fh ho) = ho_q ho) ->
  ho_q (get_h e' h) = ho_q (get_h e h).
Proof.
  intros Hu Hq. destruct (upd_at_get_h_cases _ _ _ _ _ _ _ h Hu) as [->|[_ ->]]; [reflexivity|apply Hq].
Qed.

Lemma dec_post_upd_popped e me k u :
  res_exec (exec_micro e me (MArcDecPost k u)) = e \/
  exists s', upd_at e (res_exec (exec_micro e me (MArcDecPost k u))) k
                    (fun _ => OArc s') (fun h => h) me (fun c => c).
Proof.
  cbn [exec_micro]. destruct (get_arc e k) as [s|] eqn:Hg; [|left; reflexivity].
  destruct (arc_cnt s) as [|cnt]; [left; reflexivity|]. cbv zeta. right. eexists (arc_set s cnt _).
  destruct (Nat.eqb cnt 0); cbn [res_exec]; upd_at_tac.
Qed.

Theorem queue_step_shape e me t m rest h :
  base_inv e -> nth_error (e_threads e) me = Some t -> t_cont t = m :: rest ->
  qshape (ho_q (get_h e h)) (ho_q (get_h (res_exec (exec_micro (pop e me rest) me m)) h)).
Proof.
  intros Hb Ht Hc.
  pose proof (pop_base_inv e me t m rest Hb Ht Hc) as Hb1.
  pose proof (raw_ok_head e me t m rest (proj2 Hb) Ht Hc) as Hraw.
  change (get_h e h) with (get_h (pop e me rest) h).
  change (length (e_h e)) with (length (e_h (pop e me rest))) in Hraw.
  generalize dependent (pop e me rest). intros e1 Hb1 Hraw.
  destruct (generic m) eqn:Hg.
  - left. apply (keeps_q (length (e_h e1))).
    destruct Hb1 as (_ & Hl1 & Hco1 & Hbo1 & Hw1). apply exec_micro_keeps; assumption.
  - destruct m; try discriminate Hg.
    + (* MSendPost *)
      destruct (get_chan e1 h0) as [s|] eqn:Hgc;
        [|cbn [exec_micro]; rewrite Hgc; left; reflexivity].
      destruct (send_post_upd e1 me h0 v s Hgc) as (s' & _ & Hu).
      destruct (upd_at_get_h_cases _ _ _ _ _ _ _ h Hu) as [->|[-> ->]]; [left; reflexivity|].
      destruct (ho_rx (get_h e1 h0)); [right; left; exists v; reflexivity|left; reflexivity].
    + (* MRecvPost *)
      destruct (recv_post_cases e1 me h0 log)
        as [->|(s & s' & sy & _ & _ & _ & [(v & q & Hq & Hu)|[Hq Hu]])]; [left; reflexivity| |].
      * destruct (upd_at_get_h_cases _ _ _ _ _ _ _ h Hu) as [->|[-> ->]]; [left; reflexivity|].
        right; right. exists v. exact Hq.
      * destruct (upd_at_get_h_cases _ _ _ _ _ _ _ h Hu) as [->|[-> ->]]; left; reflexivity.
    + (* MDropRx *)
      destruct (drop_rx_cases e1 me h0) as [Hk|[(s & Hgc & H0 & Hrx) Hu]];
        [left; eapply keeps_q; exact Hk|].
      destruct (upd_at_get_h_cases _ _ _ _ _ _ _ h Hu) as [->|[-> ->]]; [left; reflexivity|].
      left. cbn [ho_set_q ho_q]. destruct Hb1 as [Hch _].
      destruct (Hch h0 s (rx_in_range e1 h0 Hrx) Hgc) as [_ Hq]. rewrite Hrx, H0 in Hq.
      destruct (ho_q (get_h e1 h0)); [reflexivity|discriminate Hq].
    + (* MArcIncPost *)
      destruct (get_arc e1 k) as [s|] eqn:Hga;
        [|cbn [exec_micro]; rewrite Hga; left; reflexivity].
      left. eapply upd_at_q_same; [apply inc_post_upd, Hga|reflexivity].
    + (* MArcDrop *)
      left. destruct (slot_present e1 k i) eqn:Hp.
      * eapply upd_at_q_same; [apply drop_upd, Hp|reflexivity].
      * rewrite (proj4_eq_get_h _ _ h (drop_absent e1 me k i Hp)). reflexivity.
    + (* MArcDecPost *)
      left. destruct (dec_post_upd_popped e1 me k unwrap) as [->|(s' & Hu)]; [reflexivity|].
      eapply upd_at_q_same; [exact Hu|reflexivity].
    + (* MArcGetMutPost *)
      left. destruct (get_mut_post_cases e1 me k i unwrap) as [Hp|(_ & _ & Hu)].
      * rewrite (proj4_eq_get_h _ _ h Hp). reflexivity.
      * eapply upd_at_q_same; [exact Hu|reflexivity].
Qed.

(* FIFO over any number of steps: what is left of the old queue is one of its
   suffixes, followed by the values sent since, in the order of the sends *)
Lemma qshape_suffix q q1 q' n l :
  qshape q q1 -> q' = skipn n q1 ++ l -> exists n' l', q' = skipn n' q ++ l'.
Proof.
  intros [->|[(v & ->)|(v & ->)]] ->.
  - eauto.
  - rewrite skipn_app, <- app_assoc. eauto.
  - exists (S n), l. reflexivity.
Qed.

Theorem steps_queue_fifo e e' h :
  steps e e' -> base_inv e ->
  exists n l, ho_q (get_h e' h) = skipn n (ho_q (get_h e h)) ++ l.
Proof.
  induction 1 as [e|e me t m rest e1 e2 Ha Ht Hc Hx Hs IH]; intros Hb.
  - exists 0, []. cbn [skipn]. rewrite app_nil_r. reflexivity.
  - pose proof (step_base_inv e me t m rest Hb Ht Hc) as Hb1.
    pose proof (queue_step_shape e me t m rest h Hb Ht Hc) as Hq.
    unfold pop in Hb1, Hq. rewrite Hx in Hb1, Hq. cbn [res_exec] in Hb1, Hq.
    destruct (IH Hb1) as (n & l & Hn). eapply qshape_suffix; eassumption.
Qed.


(* ---- the internal failure PanicModel 20 of the whole model comes from
        MRecvPost only, and only after the receiver has been dropped ---- *)
Ltac destr_all :=
  repeat match goal with
         | |- context [match ?x with _ => _ end] =>
             lazymatch x with
             | context [match _ with _ => _ end] => fail
             | _ => destruct x
             end
         end.

Lemma schedule_not_model20 e e2 : fst (schedule e) = MFail e2 (PanicModel 20) -> False.
Proof. rewrite schedule_unfold. unfold sched_post. destr_all; cbn [fst]; discriminate. Qed.

Lemma track_load_20 s c : track_load s c = inr (PanicModel 20) -> False.
Proof. unfold track_load. destr_all; discriminate. Qed.
Lemma track_unsync_load_20 s c : track_unsync_load s c = inr (PanicModel 20) -> False.
Proof. unfold track_unsync_load. destr_all; discriminate. Qed.
Lemma track_store_20 s c : track_store s c = inr (PanicModel 20) -> False.
Proof. unfold track_store. destr_all; discriminate. Qed.
Lemma track_unsync_mut_20 s c : track_unsync_mut s c = inr (PanicModel 20) -> False.
Proof. unfold track_unsync_mut. destr_all; discriminate. Qed.
Lemma cell_track_read_20 s c : cell_track_read s c = inr (PanicModel 20) -> False.
Proof. unfold cell_track_read. destr_all; discriminate. Qed.
Lemma cell_track_write_20 s c : cell_track_write s c = inr (PanicModel 20) -> False.
Proof. unfold cell_track_write. destr_all; discriminate. Qed.
Lemma atomic_load_20 s me c i o : atomic_load s me c i o = inr (PanicModel 20) -> False.
Proof.
  unfold atomic_load. destruct (track_load s c) eqn:E; [discriminate|].
  intros H. injection H as ->. exact (track_load_20 _ _ E).
Qed.
Lemma atomic_rmw_20 s me c r i so fo f : atomic_rmw s me c r i so fo f = inr (PanicModel 20) -> False.
Proof.
  rewrite atomic_rmw_eq. destruct (track_load s c) eqn:E.
  - cbv zeta. destruct (f _); [|discriminate]. destruct (track_store _ _) eqn:E2; [discriminate|].
    intros H. injection H as ->. exact (track_store_20 _ _ E2).
  - intros H. injection H as ->. exact (track_load_20 _ _ E).
Qed.
Lemma choose_store_20 e sd e' : choose_store e sd = (e', inr (PanicModel 20)) -> False.
Proof. unfold choose_store. destr_all; discriminate. Qed.
Lemma release_read_20 e me r e2 : release_read e me r = MFail e2 (PanicModel 20) -> False.
Proof. unfold release_read. destr_all; discriminate. Qed.
Lemma release_write_20 e me r e2 : release_write e me r = MFail e2 (PanicModel 20) -> False.
Proof. unfold release_write. destr_all; discriminate. Qed.

Ltac m20_step H :=
  match type of H with
  | fst (schedule _) = _ => exfalso; exact (schedule_not_model20 _ _ H)
  | context [match ?x with _ => _ end] =>
      lazymatch x with
      | context [match _ with _ => _ end] => fail
      | _ => destruct x eqn:?
      end
  end.

Lemma exec_micro_model20 e me m e2 :
  exec_micro e me m = MFail e2 (PanicModel 20) -> exists h lg, m = MRecvPost h lg.
Proof.
  intros H. destruct m; try (eexists; eexists; reflexivity); exfalso;
    cbn [exec_micro] in H; unfold lift_path, mbind, do_branch, do_park, do_yield, load_post in H;
    repeat m20_step H; try discriminate H.
  all: try (injection H as _ ->;
            eauto using track_load_20, track_unsync_load_20, track_store_20, track_unsync_mut_20,
              cell_track_read_20, cell_track_write_20, atomic_load_20, atomic_rmw_20,
              choose_store_20, release_read_20, release_write_20; fail).
Qed.

Lemma recv_post_fail20 e me h lg e2 :
  exec_micro e me (MRecvPost h lg) = MFail e2 (PanicModel 20) ->
  get_h e2 h = get_h e h /\ exists s', get_chan e2 h = Some s'.
Proof.
  intros H. cbn [exec_micro] in H. destruct (get_chan e h) as [s|] eqn:Hg; [|discriminate H].
  destruct (ch_cnt s) as [|cnt]; [discriminate H|].
  destruct (ch_recv_sync s) as [|sy rest]; [discriminate H|]. cbv zeta in H.
  match type of H with context [ho_q (get_h ?E h)] => set (E0 := E) in * end.
  assert (Hh : get_h E0 h = get_h e h) by (unfold E0; destruct (Nat.eqb cnt 0); reflexivity).
  assert (Hc : exists s', get_chan E0 h = Some s').
  { apply get_chan_nth in Hg. eexists. apply get_chan_of_nth.
    assert (Ho : e_objects E0 = list_upd (e_objects e) h
                   (fun _ => OChannel (mkChan cnt (ch_last_send s) (ch_last_recv s) (ch_sender_sync s)
                                              rest (ch_last_try_recv s))))
      by (unfold E0; destruct (Nat.eqb cnt 0); reflexivity).
    rewrite Ho, nth_error_list_upd_same, Hg. reflexivity. }
  clearbody E0. destruct (ho_q (get_h E0 h)); [|discriminate H]. injection H as <-. auto.
Qed.

Theorem run_model20_only_after_receiver_drop_from : forall fuel e e',
  base_inv e -> run fuel e = (e', IterPanic (PanicModel 20)) ->
  exists h s, get_chan e' h = Some s /\ ho_rx (get_h e' h) = false.
Proof.
  induction fuel as [|fuel IH]; intros e e' Hi H; cbn [run] in H; [discriminate H|].
  destruct (e_active e) as [me|]; [|discriminate H].
  destruct (nth_error (e_threads e) me) as [t|] eqn:Ht; [|discriminate H].
  destruct (t_cont t) as [|m rest] eqn:Hc; [discriminate H|].
  pose proof (step_base_inv e me t m rest Hi Ht Hc) as Hb.
  pose proof (pop_base_inv e me t m rest Hi Ht Hc) as Hb1. unfold pop in *.
  destruct (exec_micro _ me m) as [e2|e2 pn] eqn:Hx; cbn [res_exec] in Hb; [exact (IH e2 e' Hb H)|].
  injection H as <- ->. destruct (exec_micro_model20 _ _ _ _ Hx) as (h & lg & ->).
  destruct (recv_post_fail20 _ _ _ _ _ Hx) as (Hh & s' & Hs'). exists h, s'. split; [exact Hs'|].
  rewrite Hh. destruct (ho_rx (get_h _ h)) eqn:Hrx; [|reflexivity].
  exfalso. eapply recv_never_empty_handed; [apply Hb1|exact Hrx|exact Hx].
Qed.

(* since the undo_send fix: the failure can only come from a receive on an index
   that is not a declared object (no harness object; the model has no such
   channel: objects appended at run time are Notify / Arc / cell) *)
Theorem run_model20_only_undeclared_from : forall fuel e e',
  base_inv e -> run fuel e = (e', IterPanic (PanicModel 20)) ->
  exists h s, get_chan e' h = Some s /\ length (e_h e') <= h.
Proof.
  induction fuel as [|fuel IH]; intros e e' Hi H; cbn [run] in H; [discriminate H|].
  destruct (e_active e) as [me|]; [|discriminate H].
  destruct (nth_error (e_threads e) me) as [t|] eqn:Ht; [|discriminate H].
  destruct (t_cont t) as [|m rest] eqn:Hc; [discriminate H|].
  pose proof (step_base_inv e me t m rest Hi Ht Hc) as Hb.
  pose proof (pop_base_inv e me t m rest Hi Ht Hc) as Hb1. unfold pop in *.
  destruct (exec_micro _ me m) as [e2|e2 pn] eqn:Hx; cbn [res_exec] in Hb; [exact (IH e2 e' Hb H)|].
  injection H as <- ->. destruct (exec_micro_model20 _ _ _ _ Hx) as (h & lg & ->).
  destruct (recv_post_fail20 _ _ _ _ _ Hx) as (Hh & s' & Hs'). exists h, s'. split; [exact Hs'|].
  match type of Hx with exec_micro ?E _ _ = _ =>
    pose proof (exec_micro_mono E me (MRecvPost h lg)) as Hm;
    destruct (Nat.lt_ge_cases h (length (e_h E))) as [Hlt|Hge] end.
  - exfalso. eapply recv_never_empty_handed_declared; [apply Hb1|exact Hlt|exact Hx].
  - rewrite Hx in Hm. cbn [res_exec] in Hm.
    destruct Hm as (_ & _ & [Hl _] & _). rewrite Hl. exact Hge.
Qed.

Theorem run_model20_only_undeclared : forall fuel p pa e',
  run fuel (init_exec p pa) = (e', IterPanic (PanicModel 20)) ->
  exists h s, get_chan e' h = Some s /\ length (p_decls p) <= h.
Proof.
  intros fuel p pa e' H.
  destruct (run_model20_only_undeclared_from fuel _ e' (proj2 (init_count_inv p pa)) H)
    as (h & s & Hg & Hl).
  exists h, s. split; [exact Hg|].
  pose proof (run_h_length fuel p pa) as Hlen. rewrite H in Hlen. cbn [fst] in Hlen.
  rewrite <- Hlen. exact Hl.
Qed.

(* run-level form of recv_never_empty_handed: from init_exec the failure is
   reachable only in a state where the receiver of that channel has been dropped
   (kept for its name; run_model20_only_undeclared above is the sharp form) *)
Theorem run_model20_only_after_receiver_drop : forall fuel p pa e',
  run fuel (init_exec p pa) = (e', IterPanic (PanicModel 20)) ->
  exists h s, get_chan e' h = Some s /\ ho_rx (get_h e' h) = false.
Proof. intros fuel p pa e'. apply run_model20_only_after_receiver_drop_from, init_count_inv. Qed.

(* ================================================================== *)
(* 14. D: a concrete run (non-vacuity) and the counterexamples         *)
(* ================================================================== *)

Definition cfgD : config := mkConfig 5 1000 None None None false.

(* an Arc cloned for a second thread, a channel with two sends *)
Definition p_demo : prog := mkProg cfgD [DArc; DChan]
  [[IArcClone 0 0 1; IArcCount 0 0; ISpawn 1; ISend 1 7; ISend 1 8; IRecv 1; ITryRecv 1;
    IArcDrop 0 0; IJoin 1];
   [IArcCount 0 1; IArcDrop 0 1]].

Definition demo_state (n : nat) : exec := fst (run n (init_exec p_demo (initial_path cfgD))).

(* (runtime count, live handles, drops in flight, (msg count, views), std queue) *)
Definition summary (e : exec) (k h : nat) :=
  (match get_arc e k with Some s => Some (arc_cnt s) | None => None end, live e k, pend e k,
   match get_chan e h with Some s => Some (ch_cnt s, length (ch_recv_sync s)) | None => None end,
   ho_q (get_h e h)).

Example demo_run :
  snd (run 1000 (init_exec p_demo (initial_path cfgD))) = IterDone /\
  run_disc 1000 (init_exec p_demo (initial_path cfgD)) = true /\
  (* after both sends: two handles, two queued messages *)
  summary (demo_state 18) 0 1 = (Some 2, 2, 0, Some (2, 2), [7%N; 8%N]) /\
  (* after the first receive *)
  summary (demo_state 22) 0 1 = (Some 2, 2, 0, Some (1, 1), [8%N]) /\
  (* main's drop is in flight: the slot is empty, the count not yet decremented *)
  summary (demo_state 27) 0 1 = (Some 2, 1, 1, Some (0, 0), []) /\
  (* the end *)
  summary (demo_state 1000) 0 1 = (Some 0, 0, 0, Some (0, 0), []) /\
  (* strong_count saw 2, then 1; the messages arrive in order; the payload dies with the last handle *)
  rev (e_log (demo_state 1000)) =
    [LOp 0 0 RUnit; LOp 0 1 (RVal 2); LOp 0 2 RUnit; LOp 0 3 RUnit; LOp 0 4 RUnit;
     LOp 0 5 (RVal 7); LOp 0 6 (RVal 8); LOp 0 7 RUnit; LOp 1 0 (RVal 1); LDrop 0;
     LOp 1 1 (RVal 1); LOp 0 8 RUnit].
Proof. vm_compute. repeat split; reflexivity. Qed.

Example demo_count_inv : count_inv (demo_state 27).
Proof. apply run_count_inv. vm_compute. reflexivity. Qed.

(* ---- counterexample 1 (A without the handle discipline): a clone stored into
   a slot that already holds a handle.  The model increments the count and
   overwrites the flag: count 2, one live handle.  The harness rejects this
   program ("arc slot in use"), real code would drop the old handle. ---- *)
Definition p_reuse : prog := mkProg cfgD [DArc] [[IArcClone 0 0 0]].

Lemma clone_into_live_slot_breaks_arc_inv :
  let e := fst (run 1000 (init_exec p_reuse (initial_path cfgD))) in
  run_disc 1000 (init_exec p_reuse (initial_path cfgD)) = false /\
  summary e 0 0 = (Some 2, 1, 0, None, []) /\ ~ arc_inv e.
Proof.
  cbv zeta. split; [vm_compute; reflexivity|]. split; [vm_compute; reflexivity|].
  intros H.
  assert (Hg : exists s, get_arc (fst (run 1000 (init_exec p_reuse (initial_path cfgD)))) 0 = Some s /\
                         arc_cnt s = 2)
    by (vm_compute; eexists; split; reflexivity).
  destruct Hg as (s & Hg & Hc).
  assert (Hl : 0 < length (e_h (fst (run 1000 (init_exec p_reuse (initial_path cfgD))))))
    by (apply Nat.ltb_lt; vm_compute; reflexivity).
  specialize (H 0 s Hl Hg). rewrite Hc in H. vm_compute in H. discriminate H.
Qed.

(* ---- counterexample 2 (A): try_unwrap racing with a drop of THE SAME handle
   by another thread (impossible in safe Rust: try_unwrap consumes the handle).
   main passes the presence check of try_unwrap and is preempted at its branch
   point; thread 1 drops slot 0 (count 2 -> 1); main sees count 1, "unwraps" and
   decrements to 0 although slot 1 is still live: LDrop with a live handle, and
   the later strong_count through slot 1 panics with PanicArcReleased.  Found by
   the model's own exploration in its second iteration. ---- *)
Definition p_unwrap_race : prog := mkProg cfgD [DArc]
  [[IArcClone 0 0 1; ISpawn 1; IArcTryUnwrap 0 0; IJoin 1; IArcCount 0 1; IArcDrop 0 1; IArcDrop 0 0];
   [IArcDrop 0 0]].

Definition second_path (p : prog) : path :=
  match nth_error (fst (fst (check 100 1000 p))) 1 with
  | Some r => ir_begin r
  | None => initial_path (p_cfg p)
  end.

Lemma try_unwrap_race_counterexample :
  let pa := second_path p_unwrap_race in
  let r := run 1000 (init_exec p_unwrap_race pa) in
  snd r = IterPanic PanicArcReleased /\
  run_disc 1000 (init_exec p_unwrap_race pa) = false /\
  summary (fst r) 0 0 = (Some 0, 1, 0, None, []) /\
  rev (e_log (fst r)) =
    [LOp 0 0 RUnit; LOp 0 1 RUnit; LOp 1 0 RUnit; LDrop 0; LOp 0 2 (RBool true); LOp 0 3 RUnit].
Proof. vm_compute. repeat split; reflexivity. Qed.

(* ---- witness 3 (B): the receiver is dropped by one thread while another
   thread is blocked in recv on it (impossible in safe Rust: Receiver is
   neither Sync nor Clone).  main blocks in recv on the empty channel; thread 1
   drops the receiver (std queue gone); thread 2 sends: the std send fails
   (RDisc) and the bookkeeping is undone (count back to 0), but main has been
   woken; main's MRecvPost finds count 0: PanicExpectMsg ("expected a message").
   BEFORE the undo_send fix the count stayed 1 and this run ended with the
   internal failure PanicModel 20 (count 1, empty std queue); that failure is
   now unreachable on declared channels (recv_never_empty_handed_declared). ---- *)
Definition p_rx_race : prog := mkProg cfgD [DChan]
  [[ISpawn 1; ISpawn 2; IRecv 0]; [IDropRx 0]; [ISend 0 5]].

Lemma recv_on_dropped_receiver_expect_msg :
  let r := run 1000 (init_exec p_rx_race (initial_path cfgD)) in
  snd r = IterPanic PanicExpectMsg /\
  ho_rx (get_h (fst r) 0) = false /\
  summary (fst r) 0 0 = (None, 0, 0, Some (0, 0), []) /\
  rev (e_log (fst r)) = [LOp 0 0 RUnit; LOp 0 1 RUnit; LOp 1 0 RUnit; LOp 2 0 RDisc].
Proof. vm_compute. repeat split; reflexivity. Qed.

(* the channel half of the invariant holds there all the same *)
Example rx_race_chan_inv : chan_inv (fst (run 1000 (init_exec p_rx_race (initial_path cfgD)))).
Proof. apply run_chan_inv. Qed.

Print Assumptions init_count_inv.
Print Assumptions step_count_inv.
Print Assumptions step_base_inv.
Print Assumptions schedule_count_inv.
Print Assumptions dsteps_count_inv.
Print Assumptions steps_base_inv.
Print Assumptions run_count_inv.
Print Assumptions run_count_inv_from.
Print Assumptions run_base_inv.
Print Assumptions run_chan_inv.
Print Assumptions run_dsteps.
Print Assumptions run_arc_count_is_live_handles.
Print Assumptions run_chan_count_is_queue_length.
Print Assumptions strong_count_is_live_handles.
Print Assumptions strong_count_is_live_handles_quiet.
Print Assumptions final_drop_iff_last_handle.
Print Assumptions no_double_release.
Print Assumptions try_unwrap_iff_unique.
Print Assumptions send_appends_one.
Print Assumptions send_disconnected_keeps_queue.
Print Assumptions recv_removes_front.
Print Assumptions recv_never_empty_handed.
Print Assumptions recv_proceeds_queue_nonempty.
Print Assumptions run_model20_only_after_receiver_drop.
Print Assumptions queue_step_shape.
Print Assumptions steps_queue_fifo.
Print Assumptions demo_run.
Print Assumptions demo_count_inv.
Print Assumptions clone_into_live_slot_breaks_arc_inv.
Print Assumptions try_unwrap_race_counterexample.
Print Assumptions recv_on_dropped_receiver_expect_msg.
Print Assumptions recv_never_empty_handed_declared.
Print Assumptions run_model20_only_undeclared.
Print Assumptions run_chan_count_is_queue_length_all.
