(* Execution state, micro-operations and Execution::schedule (rt/execution.rs,
   rt/thread.rs, rt/mod.rs). Definitions only. *)
Require Import LV.Base LV.VV LV.Path LV.Prog LV.Objects.

Inductive result :=
  | RUnit | RVal (v : N) | ROk (v : N) | RErr (v : N) | RBool (b : bool)
  | RX | REmpty | RDisc.

Inductive logline :=
  | LOp (body pc : nat) (r : result)
  | LDrop (k : nat)                      (* payload of Arc k dropped *)
  | LInitTls (k body : nat) | LDropTls (k body : nat)
  | LInitLazy (k : nat) | LDropLazy (k : nat)
  | LPoll (body pc : nat)                (* block_on polled its future *)
  | LTlsAccess (k body : nat) (ok : bool). (* destructor of thread-local k used thread-local 0 *)

Inductive blockcond := BNever | BAlways | BMutexLocked | BRwWrite | BRwAny | BChanEmpty.

Inductive lockmode := LMLock | LMTry | LMReacquire.

Inductive rmwkind :=
  | KOp (f : rmwop) (v : N)
  | KCas (e n : N)
  | KFu (f : rmwop) (v : N) (prev : N).

Inductive gkind := GMutex | GRead | GWrite.
Definition gkind_eqb (a b : gkind) : bool :=
  match a, b with GMutex, GMutex | GRead, GRead | GWrite, GWrite => true | _, _ => false end.

Inductive micro :=
  | MBegin (pc : nat)
  | MLog (r : result)
  | MSpawn (b : nat)
  | MBranch (obj : nat) (act : action) (blk : blockcond)
  | MJoin (b : nat)
  | MNotifyWait1 (n : nat)
  | MNotifyWait2 (n : nat)
  | MNotifyPost (n : nat)
  | MExitNotify
  | MLoadPost (a : nat) (o : ord) (aw : option N)
  | MFuLoadPost (a : nat) (f : rmwop) (v : N) (so fo : ord)
  | MStorePost (a : nat) (v : N) (o : ord)
  | MRmwPost (a : nat) (k : rmwkind) (so fo : ord)
  | MFence (o : ord)
  | MLockPost (m : nat) (mode : lockmode)
  | MUnlock (m : nat)
  | MReadPost (r : nat) (try : bool)
  | MWritePost (r : nat) (try : bool)
  | MUnread (r : nat)
  | MUnwrite (r : nat)
  | MWait (c m : nat)
  | MCvWait (c m : nat)
  | MPark
  | MCvNotify (c : nat) (all : bool)
  | MUnpark (b : nat)
  | MSendPost (h : nat) (v : N)
  | MRecvPost (h : nat) (log : bool)
  | MRecv (h : nat)
  | MTryRecv (h : nat)
  | MTryRecvPost (h : nat)
  | MDropRx (h : nat)
  | MCellRead (u : nat)
  | MCellWrite (u : nat) (v : N)
  | MCellNested (u k : nat)
  | MYield
  | MUnsyncLoad (a : nat)
  | MWithMut (a : nat) (v : N)
  | MArcClone (k i j : nat)
  | MArcIncPost (k j : nat)
  | MArcDrop (k i : nat)
  | MArcDecPost (k : nat) (unwrap : bool)
  | MArcCount (k i : nat)
  | MArcCountPost (k : nat)
  | MArcGetMut (k i : nat) (unwrap : bool)
  | MArcGetMutPost (k i : nat) (unwrap : bool)
  | MTrackDrop (k : nat)
  | MTlsWith (k : nat)
  | MBlockOn (a : nat) (v : N) (w : nat)
  | MBoPoll (a : nat) (v : N) (w n k : nat)
  | MBoLoad (a : nat) (v : N) (w n k : nat) (first : bool)
  | MBoRegister (a : nat) (v : N) (w n k : nat)
  | MBoDone (n k : nat)
  | MArcIncRaw (k : nat)
  | MArcDecRaw (k : nat)
  | MWakerRelease (w : nat)
  | MWakeTake (w : nat) (wake : bool)
  | MLazyGet (k : nat)
  | MLazyGetY (k : nat)                 (* a lazy static whose initialiser yields *)
  | MLazyFinishY (k ci : nat)
  | MBlockOnS (a : nat) (v : N) (b1 b2 : nat)
  | MBsPoll (a : nat) (v : N) (b1 b2 n k : nat) (first : bool)
  | MBsLoad (a : nat) (v : N) (b1 b2 n k : nat) (first : bool)
  | MSpawnW (b n k : nat)
  | MWakeMine
  | MWakeMineW (n k : nat)
  | MDropMyWaker
  | MDropWakerW (n k : nat)
  | MPanic
  | MExplore | MStop | MSkip
  | MNWaitBegin (n : nat)
  | MNWaitEnd (n : nat)
  | MReleaseAll
  | MLazyDrop
  | MDropLocals
  | MTerminate.

Record thread := mkThread {
  t_state : tstate;
  t_op : option operation;
  t_caus : vv;
  t_rel : vv;
  t_dpor : vv;
  t_last_yield : option nat;
  t_yield_count : nat;
  t_cont : list micro;
  t_body : nat;
  t_pc : nat;
  t_guards : list (gkind * nat);
  t_tls : list nat;                    (* thread-local keys initialised by this thread *)
  t_token : bool                       (* park_token: an unpark not yet consumed by park *)
}.

Definition thread_new (body : nat) (cont : list micro) : thread :=
  mkThread Runnable None vv_new vv_new vv_new None 0 cont body 0 [] [] false.

Definition th_set_state (t : thread) (s : tstate) : thread :=
  mkThread s (t_op t) (t_caus t) (t_rel t) (t_dpor t) (t_last_yield t) (t_yield_count t)
           (t_cont t) (t_body t) (t_pc t) (t_guards t) (t_tls t) (t_token t).
Definition th_set_op (t : thread) (o : option operation) : thread :=
  mkThread (t_state t) o (t_caus t) (t_rel t) (t_dpor t) (t_last_yield t) (t_yield_count t)
           (t_cont t) (t_body t) (t_pc t) (t_guards t) (t_tls t) (t_token t).
Definition th_set_caus (t : thread) (v : vv) : thread :=
  mkThread (t_state t) (t_op t) v (t_rel t) (t_dpor t) (t_last_yield t) (t_yield_count t)
           (t_cont t) (t_body t) (t_pc t) (t_guards t) (t_tls t) (t_token t).
Definition th_set_rel (t : thread) (v : vv) : thread :=
  mkThread (t_state t) (t_op t) (t_caus t) v (t_dpor t) (t_last_yield t) (t_yield_count t)
           (t_cont t) (t_body t) (t_pc t) (t_guards t) (t_tls t) (t_token t).
Definition th_set_dpor (t : thread) (v : vv) : thread :=
  mkThread (t_state t) (t_op t) (t_caus t) (t_rel t) v (t_last_yield t) (t_yield_count t)
           (t_cont t) (t_body t) (t_pc t) (t_guards t) (t_tls t) (t_token t).
Definition th_set_cont (t : thread) (c : list micro) : thread :=
  mkThread (t_state t) (t_op t) (t_caus t) (t_rel t) (t_dpor t) (t_last_yield t) (t_yield_count t)
           c (t_body t) (t_pc t) (t_guards t) (t_tls t) (t_token t).
Definition th_set_pc (t : thread) (pc : nat) : thread :=
  mkThread (t_state t) (t_op t) (t_caus t) (t_rel t) (t_dpor t) (t_last_yield t) (t_yield_count t)
           (t_cont t) (t_body t) pc (t_guards t) (t_tls t) (t_token t).
Definition th_set_guards (t : thread) (g : list (gkind * nat)) : thread :=
  mkThread (t_state t) (t_op t) (t_caus t) (t_rel t) (t_dpor t) (t_last_yield t) (t_yield_count t)
           (t_cont t) (t_body t) (t_pc t) g (t_tls t) (t_token t).

Definition th_set_tls (t : thread) (l : list nat) : thread :=
  mkThread (t_state t) (t_op t) (t_caus t) (t_rel t) (t_dpor t) (t_last_yield t) (t_yield_count t)
           (t_cont t) (t_body t) (t_pc t) (t_guards t) l (t_token t).

Definition is_runnable (t : thread) : bool :=
  match t_state t with Runnable => true | _ => false end.
Definition is_blocked (t : thread) : bool :=
  match t_state t with Blocked => true | _ => false end.
Definition is_yield (t : thread) : bool :=
  match t_state t with Yielded => true | _ => false end.
Definition is_terminated (t : thread) : bool :=
  match t_state t with Terminated => true | _ => false end.

Definition set_runnable (t : thread) : thread := th_set_state t Runnable.
Definition set_blocked (t : thread) : thread := th_set_state t Blocked.

(* Thread::set_yield; [me] is the thread's own id *)
Definition set_yield (me : nat) (t : thread) : thread :=
  mkThread Yielded (t_op t) (t_caus t) (t_rel t) (t_dpor t)
           (Some (vv_get (t_caus t) me)) (S (t_yield_count t))
           (t_cont t) (t_body t) (t_pc t) (t_guards t) (t_tls t) (t_token t).

Definition th_set_token (t : thread) (b : bool) : thread :=
  mkThread (t_state t) (t_op t) (t_caus t) (t_rel t) (t_dpor t) (t_last_yield t) (t_yield_count t)
           (t_cont t) (t_body t) (t_pc t) (t_guards t) (t_tls t) b.

(* Thread::is_parked: blocked in park (no pending operation), not on an object *)
Definition is_parked (t : thread) : bool :=
  is_blocked t && match t_op t with None => true | Some _ => false end.

(* Thread::set_unparked: a parked thread is woken; any other live thread keeps
   its state and remembers the unpark for its next park *)
Definition set_unparked (t : thread) : thread :=
  if is_parked t then set_runnable t
  else if is_terminated t then t
  else th_set_token t true.

(* Thread::unpark(&mut self, unparker) *)
Definition thread_unpark (t : thread) (unparker_caus : vv) : thread :=
  set_unparked (th_set_caus t (vv_join (t_caus t) unparker_caus)).

(* Thread::notified(&mut self, notifier): woken by a Notify / join *)
Definition thread_notified (t : thread) (notifier_caus : vv) : thread :=
  set_runnable (th_set_caus t (vv_join (t_caus t) notifier_caus)).

(* harness-level state of one declared object (what the std types inside the
   loom wrappers hold: cell content, queue, handle slots, ...) *)
Record hobj := mkHobj {
  ho_cell : N;
  ho_q : list N;
  ho_rx : bool;
  ho_slots : list bool;
  ho_track : bool;
  ho_waiting : bool;
  ho_waker : option (nat * nat)     (* AtomicWaker: (Notify, Arc) of the registered waker *)
}.

Definition hobj_of_decl (d : decl) : hobj :=
  match d with
  | DArc => mkHobj 0%N [] false (true :: repeat false 7) false false None
  | DChan => mkHobj 0%N [] true [] false false None
  | DTrack => mkHobj 0%N [] false [] true false None
  | _ => mkHobj 0%N [] false [] false false None
  end.

Record exec := mkExec {
  e_path : path;
  e_threads : list thread;
  e_active : option nat;
  e_seqcst : vv;                       (* seq_cst_causality *)
  e_objects : list object;
  e_max_threads : nat;
  e_h : list hobj;
  e_spawned : list (option (nat * nat)); (* per body: (thread id, join Notify index) *)
  e_joined : list bool;
  e_log : list logline;                (* newest first *)
  e_bodies : list (list micro);        (* the expanded program *)
  e_lazy : option (list (nat * (nat * vv)))
      (* lazy_statics: None after the main thread dropped them; key -> (cell index, sync view) *)
}.

Definition ex_set_path (e : exec) (p : path) : exec :=
  mkExec p (e_threads e) (e_active e) (e_seqcst e) (e_objects e) (e_max_threads e)
         (e_h e) (e_spawned e) (e_joined e) (e_log e) (e_bodies e) (e_lazy e).
Definition ex_set_threads (e : exec) (t : list thread) : exec :=
  mkExec (e_path e) t (e_active e) (e_seqcst e) (e_objects e) (e_max_threads e)
         (e_h e) (e_spawned e) (e_joined e) (e_log e) (e_bodies e) (e_lazy e).
Definition ex_set_active (e : exec) (a : option nat) : exec :=
  mkExec (e_path e) (e_threads e) a (e_seqcst e) (e_objects e) (e_max_threads e)
         (e_h e) (e_spawned e) (e_joined e) (e_log e) (e_bodies e) (e_lazy e).
Definition ex_set_seqcst (e : exec) (v : vv) : exec :=
  mkExec (e_path e) (e_threads e) (e_active e) v (e_objects e) (e_max_threads e)
         (e_h e) (e_spawned e) (e_joined e) (e_log e) (e_bodies e) (e_lazy e).
Definition ex_set_objects (e : exec) (o : list object) : exec :=
  mkExec (e_path e) (e_threads e) (e_active e) (e_seqcst e) o (e_max_threads e)
         (e_h e) (e_spawned e) (e_joined e) (e_log e) (e_bodies e) (e_lazy e).
Definition ex_set_h (e : exec) (h : list hobj) : exec :=
  mkExec (e_path e) (e_threads e) (e_active e) (e_seqcst e) (e_objects e) (e_max_threads e)
         h (e_spawned e) (e_joined e) (e_log e) (e_bodies e) (e_lazy e).
Definition ex_set_spawned (e : exec) (s : list (option (nat * nat))) : exec :=
  mkExec (e_path e) (e_threads e) (e_active e) (e_seqcst e) (e_objects e) (e_max_threads e)
         (e_h e) s (e_joined e) (e_log e) (e_bodies e) (e_lazy e).
Definition ex_set_joined (e : exec) (j : list bool) : exec :=
  mkExec (e_path e) (e_threads e) (e_active e) (e_seqcst e) (e_objects e) (e_max_threads e)
         (e_h e) (e_spawned e) j (e_log e) (e_bodies e) (e_lazy e).
Definition ex_set_log (e : exec) (l : list logline) : exec :=
  mkExec (e_path e) (e_threads e) (e_active e) (e_seqcst e) (e_objects e) (e_max_threads e)
         (e_h e) (e_spawned e) (e_joined e) l (e_bodies e) (e_lazy e).

Definition ex_set_lazy (e : exec) (l : option (list (nat * (nat * vv)))) : exec :=
  mkExec (e_path e) (e_threads e) (e_active e) (e_seqcst e) (e_objects e) (e_max_threads e)
         (e_h e) (e_spawned e) (e_joined e) (e_log e) (e_bodies e) l.

Definition upd_thread (e : exec) (i : nat) (f : thread -> thread) : exec :=
  ex_set_threads e (list_upd (e_threads e) i f).
Definition upd_object (e : exec) (i : nat) (f : object -> object) : exec :=
  ex_set_objects e (list_upd (e_objects e) i f).
Definition upd_hobj (e : exec) (i : nat) (f : hobj -> hobj) : exec :=
  ex_set_h e (list_upd (e_h e) i f).

Inductive mres :=
  | MOk (e : exec)
  | MFail (e : exec) (p : panic).

(* monadic bind on mres *)
Definition mbind (r : mres) (f : exec -> mres) : mres :=
  match r with MOk e => f e | MFail e p => MFail e p end.

Definition lift_path {A} (e : exec) (r : pres A) (k : A -> mres) : mres :=
  match r with POk a => k a | PErr x => MFail e (PanicPath x) end.

(* ---- Execution::schedule ---- *)

(* the inner loop over the dependent accesses of one pending operation *)
Fixpoint dpor_accesses (accs : list access) (dv : vv) (id : nat) (p : path) : pres path :=
  match accs with
  | [] => POk p
  | acc :: rest =>
      if access_hb acc dv then dpor_accesses rest dv id p
      else match backtrack p (a_path_id acc) id with
           | POk p' => dpor_accesses rest dv id p'
           | PErr x => PErr x
           end
  end.

(* the DPOR loop: for every thread with a pending operation *)
Fixpoint dpor_loop (objs : list object) (ths : list (nat * thread)) (p : path) : pres path :=
  match ths with
  | [] => POk p
  | (id, th) :: rest =>
      match t_op th with
      | None => dpor_loop objs rest p
      | Some op =>
          match nth_error objs (op_obj op) with
          | None => PErr (PInternal 20)
          | Some o =>
              match last_dependent_accesses o (op_act op) with
              | None => PErr (PInternal 21)            (* not branchable *)
              | Some accs =>
                  match dpor_accesses accs (t_dpor th) id p with
                  | POk p' => dpor_loop objs rest p'
                  | PErr x => PErr x
                  end
              end
          end
      end
  end.

(* choice of [initial] when the active thread is not runnable *)
Fixpoint pick_initial (all : list thread) (ths : list (nat * thread)) (init : option nat) : option nat :=
  match ths with
  | [] => init
  | (i, th) :: rest =>
      if negb (is_runnable th) then pick_initial all rest init
      else match init with
           | Some j =>
               let yc := match nth_error all j with Some tj => t_yield_count tj | None => 0 end in
               pick_initial all rest (if Nat.ltb (t_yield_count th) yc then Some i else Some j)
           | None => pick_initial all rest (Some i)
           end
  end.

(* the seed iterator, with its mutable capture of [initial] *)
Fixpoint seed_loop (ths : list (nat * thread)) (initial : option nat) : list tstat :=
  match ths with
  | [] => []
  | (i, th) :: rest =>
      let initial := match initial with
                     | None => if is_runnable th then Some i else None
                     | Some _ => initial
                     end in
      let st := if opt_nat_eqb initial (Some i) then Active
                else if is_yield th then TYield
                else if negb (is_runnable th) then Disabled
                else Skip in
      st :: seed_loop rest initial
  end.

Definition schedule (e : exec) : mres * bool :=
  match e_active e with
  | None => (MFail e (PanicModel 1), false)
  | Some curr =>
  match nth_error (e_threads e) curr with
  | None => (MFail e (PanicModel 2), false)
  | Some cur_th =>
  let iths := index_list (e_threads e) in
  match dpor_loop (e_objects e) iths (e_path e) with
  | PErr x => (MFail e (PanicPath x), false)
  | POk p1 =>
  let e := ex_set_path e p1 in
  let initial :=
    if is_runnable cur_th then Some curr
    else pick_initial (e_threads e) iths None in
  let path_id := pos p1 in
  let seed := seed_loop iths initial in
  match branch_thread p1 seed with
  | PErr x => (MFail e (PanicPath x), false)
  | POk (p2, next) =>
  let e := ex_set_active (ex_set_path e p2) next in
  match next with
  | None =>
      if forallb is_terminated (e_threads e) then (MOk e, true)
      else (MFail e (PanicDeadlock (map t_state (e_threads e))), true)
  | Some nx =>
  match nth_error (e_threads e) nx with
  | None => (MFail e (PanicModel 3), false)
  | Some nth_ =>
  let e :=
    match t_op nth_ with
    | None => e
    | Some op =>
        match nth_error (e_objects e) (op_obj op) with
        | None => e
        | Some o =>
            let dv := match last_dependent_accesses o (op_act op) with
                      | Some accs => fold_left (fun d acc => vv_join d (a_vv acc)) accs (t_dpor nth_)
                      | None => t_dpor nth_
                      end in
            let dv := vv_inc dv nx in
            let e := upd_thread e nx (fun t => th_set_dpor t dv) in
            upd_object e (op_obj op) (fun o => set_last_access o (op_act op) nx path_id dv)
        end
    end in
  let e := ex_set_threads e
             (mapi (fun id th => if is_yield th && negb (Nat.eqb id nx) then set_runnable th else th)
                   (e_threads e)) in
  (MOk e, negb (Nat.eqb curr nx))
  end end end end end end.
