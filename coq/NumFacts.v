(** * NumFacts: loom atomics compute the same values as std atomics (C12). *)

From Coq Require Import ZArith List Bool Lia ZifyBool.
From LV Require Import Num.
Import ListNotations.
Open Scope Z_scope.

Ltac Zify.zify_post_hook ::= Z.div_mod_to_equations.

(** Replace closed powers of two by numerals (binary computation in [Z]). *)
Ltac pows :=
  repeat match goal with
  | |- context [Z.pow 2 ?e] =>
      let v := eval vm_compute in (Z.pow 2 e) in change (Z.pow 2 e) with v
  | H : context [Z.pow 2 ?e] |- _ =>
      let v := eval vm_compute in (Z.pow 2 e) in change (Z.pow 2 e) with v in H
  end.

(** [lia] does not look under [if]: split on the conditions first. *)
Ltac ifs :=
  cbn [andb];
  repeat match goal with
  | |- context [if ?b then _ else _] => let E := fresh "E" in destruct b eqn:E
  | _ : context [if ?b then _ else _] |- _ => let E := fresh "E" in destruct b eqn:E
  end.

(** ** Generic bit-level facts *)

Lemma mod_land b x y : 0 <= b ->
  Z.land (x mod 2 ^ b) (y mod 2 ^ b) = Z.land x y mod 2 ^ b.
Proof.
  intros Hb. rewrite <- !Z.land_ones by assumption.
  apply Z.bits_inj'; intros n _. rewrite !Z.land_spec.
  destruct (Z.testbit x n), (Z.testbit y n), (Z.testbit (Z.ones b) n); reflexivity.
Qed.

Lemma mod_lor b x y : 0 <= b ->
  Z.lor (x mod 2 ^ b) (y mod 2 ^ b) = Z.lor x y mod 2 ^ b.
Proof.
  intros Hb. rewrite <- !Z.land_ones by assumption.
  apply Z.bits_inj'; intros n _. rewrite !Z.land_spec, !Z.lor_spec, !Z.land_spec.
  destruct (Z.testbit x n), (Z.testbit y n), (Z.testbit (Z.ones b) n); reflexivity.
Qed.

Lemma mod_lxor b x y : 0 <= b ->
  Z.lxor (x mod 2 ^ b) (y mod 2 ^ b) = Z.lxor x y mod 2 ^ b.
Proof.
  intros Hb. rewrite <- !Z.land_ones by assumption.
  apply Z.bits_inj'; intros n _. rewrite !Z.land_spec, !Z.lxor_spec, !Z.land_spec.
  destruct (Z.testbit x n), (Z.testbit y n), (Z.testbit (Z.ones b) n); reflexivity.
Qed.

(** [x] fits in [k+1] signed bits iff everything above bit [k] is the sign. *)
Lemma srange_shiftr k x : 0 <= k ->
  (- 2 ^ k <= x < 2 ^ k) <-> (Z.shiftr x k = 0 \/ Z.shiftr x k = -1).
Proof.
  intros Hk. rewrite Z.shiftr_div_pow2 by assumption.
  assert (Hp : 0 < 2 ^ k) by (apply Z.pow_pos_nonneg; lia).
  generalize dependent (2 ^ k). intros p Hp.
  pose proof (Z.div_mod x p ltac:(lia)) as E.
  pose proof (Z.mod_pos_bound x p Hp) as B.
  split.
  - intros R. assert (-2 < x / p < 1) by nia. lia.
  - intros [Q | Q]; rewrite Q in E; lia.
Qed.

Lemma srange_land k x y : 0 <= k ->
  - 2 ^ k <= x < 2 ^ k -> - 2 ^ k <= y < 2 ^ k -> - 2 ^ k <= Z.land x y < 2 ^ k.
Proof.
  intros Hk Hx Hy. rewrite srange_shiftr in * by assumption.
  rewrite Z.shiftr_land.
  destruct Hx as [-> | ->], Hy as [-> | ->]; auto.
Qed.

Lemma srange_lor k x y : 0 <= k ->
  - 2 ^ k <= x < 2 ^ k -> - 2 ^ k <= y < 2 ^ k -> - 2 ^ k <= Z.lor x y < 2 ^ k.
Proof.
  intros Hk Hx Hy. rewrite srange_shiftr in * by assumption.
  rewrite Z.shiftr_lor.
  destruct Hx as [-> | ->], Hy as [-> | ->]; auto.
Qed.

Lemma srange_lxor k x y : 0 <= k ->
  - 2 ^ k <= x < 2 ^ k -> - 2 ^ k <= y < 2 ^ k -> - 2 ^ k <= Z.lxor x y < 2 ^ k.
Proof.
  intros Hk Hx Hy. rewrite srange_shiftr in * by assumption.
  rewrite Z.shiftr_lxor.
  destruct Hx as [-> | ->], Hy as [-> | ->]; auto.
Qed.

(** ** Ranges *)

Lemma in_range_spec t x : in_range t x = true <-> lo t <= x < hi t.
Proof. unfold in_range. lia. Qed.

Lemma bits_pos t : 0 < bits t.
Proof. destruct t; reflexivity. Qed.

(** Unsigned ranges are closed under the bitwise operators because the
    operators commute with [mod 2^bits]. *)
Lemma urange_mod t x : signed t = false -> (lo t <= x < hi t <-> x mod 2 ^ bits t = x).
Proof.
  intros S. unfold lo, hi. rewrite S.
  assert (0 < 2 ^ bits t) by (apply Z.pow_pos_nonneg; [lia | pose proof (bits_pos t); lia]).
  split.
  - intros. apply Z.mod_small; assumption.
  - intros <-. apply Z.mod_pos_bound; assumption.
Qed.

Lemma range_bitwise t x y :
  lo t <= x < hi t -> lo t <= y < hi t ->
  lo t <= Z.land x y < hi t /\ lo t <= Z.lor x y < hi t /\ lo t <= Z.lxor x y < hi t.
Proof.
  intros Hx Hy. pose proof (bits_pos t) as Hb.
  destruct (signed t) eqn:S.
  - unfold lo, hi in *. rewrite S in *.
    repeat split;
      first [ apply srange_land | apply srange_lor | apply srange_lxor ]; lia.
  - rewrite !urange_mod in * by assumption.
    rewrite <- mod_land, <- mod_lor, <- mod_lxor by lia.
    rewrite Hx, Hy. auto.
Qed.

(** ** Encoding round trip *)

Theorem num_roundtrip : forall t x, in_range t x = true -> from_u64 t (into_u64 t x) = x.
Proof.
  intros t x H. apply in_range_spec in H. revert H.
  destruct t; unfold lo, hi, from_u64, into_u64, reinterp, pat;
    cbn [bits signed]; pows; intros H; ifs; lia.
Qed.

(** ** wrapping *)

(** Truncating to the bit pattern and reading it back is [wrap]. *)
Lemma reinterp_pat t y : reinterp t (pat t y) = wrap t y.
Proof.
  destruct t; unfold reinterp, pat, wrap; cbn [bits signed]; pows; ifs; lia.
Qed.

Lemma wrap_range t y : lo t <= wrap t y < hi t.
Proof.
  destruct t; unfold wrap, lo, hi; cbn [bits signed]; pows; ifs; lia.
Qed.

Lemma wrap_id t y : lo t <= y < hi t -> wrap t y = y.
Proof.
  destruct t; unfold wrap, lo, hi; cbn [bits signed]; pows; ifs; lia.
Qed.

Lemma pat_add t x v : (pat t x + pat t v) mod 2 ^ bits t = pat t (x + v).
Proof.
  unfold pat. symmetry. apply Zplus_mod.
Qed.

Lemma pat_sub t x v : (pat t x - pat t v) mod 2 ^ bits t = pat t (x - v).
Proof.
  unfold pat. symmetry. apply Zminus_mod.
Qed.

Lemma pat_lnot t y : 2 ^ bits t - 1 - pat t y = pat t (Z.lnot y).
Proof.
  unfold pat, Z.lnot.
  destruct t; cbn [bits]; pows; lia.
Qed.

(** ** The closures agree *)

Lemma bool_range x : lo TBool <= x < hi TBool -> x = 0 \/ x = 1.
Proof. unfold lo, hi; cbn [bits signed]; pows; ifs; lia. Qed.

Lemma closure_matches t f x v :
  in_range t x = true -> in_range t v = true -> rmw_allowed t f = true ->
  loom_closure t f x v = std_rmw t f x v.
Proof.
  intros Hx Hv Hf. apply in_range_spec in Hx, Hv.
  assert (Hb : 0 <= bits t) by (pose proof (bits_pos t); lia).
  pose proof (range_bitwise t x v Hx Hv) as (Hand & Hor & Hxor).
  assert (Int : forall g, t <> TBool -> t <> TPtr ->
    match g with
    | FAdd => reinterp t ((pat t x + pat t v) mod 2 ^ bits t)
    | FSub => reinterp t ((pat t x - pat t v) mod 2 ^ bits t)
    | FAnd => reinterp t (Z.land (pat t x) (pat t v))
    | FNand => reinterp t (2 ^ bits t - 1 - Z.land (pat t x) (pat t v))
    | FOr => reinterp t (Z.lor (pat t x) (pat t v))
    | FXor => reinterp t (Z.lxor (pat t x) (pat t v))
    | FMax => if x <? v then v else x
    | FMin => if v <? x then v else x
    end =
    match g with
    | FAdd => wrap t (x + v)
    | FSub => wrap t (x - v)
    | FAnd => Z.land x v
    | FNand => wrap t (Z.lnot (Z.land x v))
    | FOr => Z.lor x v
    | FXor => Z.lxor x v
    | FMax => Z.max x v
    | FMin => Z.min x v
    end).
  { intros g _ _. destruct g.
    - rewrite pat_add. apply reinterp_pat.
    - rewrite pat_sub. apply reinterp_pat.
    - unfold pat. rewrite mod_land by assumption.
      fold (pat t (Z.land x v)). rewrite reinterp_pat. apply wrap_id; assumption.
    - unfold pat. rewrite mod_land by assumption.
      fold (pat t (Z.land x v)). rewrite pat_lnot. apply reinterp_pat.
    - unfold pat. rewrite mod_lor by assumption.
      fold (pat t (Z.lor x v)). rewrite reinterp_pat. apply wrap_id; assumption.
    - unfold pat. rewrite mod_lxor by assumption.
      fold (pat t (Z.lxor x v)). rewrite reinterp_pat. apply wrap_id; assumption.
    - ifs; lia.
    - ifs; lia. }
  destruct t; try (apply Int; discriminate); try discriminate Hf.
  (* TBool *)
  apply bool_range in Hx, Hv.
  destruct f; try discriminate Hf;
    destruct Hx as [-> | ->], Hv as [-> | ->]; reflexivity.
Qed.

Lemma std_rmw_in_range t f x v :
  in_range t x = true -> in_range t v = true -> rmw_allowed t f = true ->
  in_range t (std_rmw t f x v) = true.
Proof.
  intros Hx Hv Hf. apply in_range_spec in Hx, Hv. apply in_range_spec.
  pose proof (range_bitwise t x v Hx Hv) as (Hand & Hor & Hxor).
  assert (Int : forall g,
    lo t <= match g with
    | FAdd => wrap t (x + v)
    | FSub => wrap t (x - v)
    | FAnd => Z.land x v
    | FNand => wrap t (Z.lnot (Z.land x v))
    | FOr => Z.lor x v
    | FXor => Z.lxor x v
    | FMax => Z.max x v
    | FMin => Z.min x v
    end < hi t).
  { intros g. destruct g; try apply wrap_range; try assumption; lia. }
  destruct t; try apply Int; try discriminate Hf.
  apply bool_range in Hx, Hv.
  destruct f; try discriminate Hf;
    destruct Hx as [-> | ->], Hv as [-> | ->]; vm_compute; split; congruence.
Qed.

(** ** Steps *)

Theorem std_step_in_range : forall t c o,
  in_range t c = true -> op_ok t o = true -> in_range t (fst (std_step t c o)) = true.
Proof.
  intros t c o Hc Ho.
  destruct o; cbv beta iota delta [std_step op_ok fst] in *;
    try assumption;
    apply andb_prop in Ho; destruct Ho as [H1 H2].
  - apply std_rmw_in_range; assumption.
  - destruct (c =? e); assumption.
  - destruct (c =? e); assumption.
  - destruct (c =? e); assumption.
  - apply std_rmw_in_range; assumption.
Qed.

Theorem loom_step_matches_std : forall t c o,
  in_range t c = true -> op_ok t o = true ->
  let '(u', r) := loom_step t (into_u64 t c) o in
  let '(c', r') := std_step t c o in
  u' = into_u64 t c' /\ r = r'.
Proof.
  intros t c o Hc Ho.
  destruct o; cbv beta iota zeta delta [loom_step std_step op_ok loom_cas loom_rmw] in *;
    rewrite ?(num_roundtrip t c Hc);
    try (split; reflexivity);
    apply andb_prop in Ho; destruct Ho as [H1 H2].
  - rewrite closure_matches by assumption. split; reflexivity.
  - destruct (c =? e); cbv beta iota zeta; split; reflexivity.
  - destruct (c =? e); cbv beta iota zeta; split; reflexivity.
  - destruct (c =? e); cbv beta iota zeta; split; reflexivity.
  - rewrite Z.eqb_refl. cbv beta iota zeta. rewrite closure_matches by assumption. split; reflexivity.
Qed.

(** ** Runs *)

Lemma steps_match t : forall ops c,
  in_range t c = true -> forallb (op_ok t) ops = true ->
  let '(rs, u) := steps (loom_step t) (into_u64 t c) ops in
  let '(rs', c') := steps (std_step t) c ops in
  rs = rs' /\ u = into_u64 t c' /\ in_range t c' = true.
Proof.
  induction ops as [| o ops IH]; intros c Hc Hops.
  - cbn [steps]. auto.
  - cbn [forallb] in Hops. apply andb_prop in Hops. destruct Hops as [Ho Hops].
    cbn [steps].
    pose proof (loom_step_matches_std t c o Hc Ho) as M.
    pose proof (std_step_in_range t c o Hc Ho) as R.
    destruct (loom_step t (into_u64 t c) o) as [u1 r1].
    destruct (std_step t c o) as [c1 r1'].
    cbn [fst] in R. destruct M as [-> ->].
    specialize (IH c1 R Hops).
    destruct (steps (loom_step t) (into_u64 t c1) ops) as [rs u].
    destruct (steps (std_step t) c1 ops) as [rs' c'].
    destruct IH as (-> & -> & R'). auto.
Qed.

Theorem atomic_matches_std : forall t init ops,
  in_range t init = true -> forallb (op_ok t) ops = true ->
  loom_run t init ops = std_run t init ops.
Proof.
  intros t init ops Hi Hops. unfold loom_run, std_run.
  pose proof (steps_match t ops init Hi Hops) as M.
  destruct (steps (loom_step t) (into_u64 t init) ops) as [rs u].
  destruct (steps (std_step t) init ops) as [rs' c'].
  destruct M as (-> & -> & R).
  rewrite num_roundtrip by assumption. reflexivity.
Qed.

(** ** Boundary cases, computed through the loom encoding *)

(* i8: 127.fetch_add(1) wraps to -128 *)
Example ex_i8_add_overflow :
  loom_run I8 127 [NRmw FAdd 1; NLoad] = ([NRVal 127; NRVal (-128)], -128).
Proof. vm_compute. reflexivity. Qed.

(* i8: -128.fetch_sub(1) wraps to 127; the cell holds the sign extension *)
Example ex_i8_sub_underflow :
  loom_run I8 (-128) [NRmw FSub 1; NRmw FAdd (-128)] = ([NRVal (-128); NRVal 127], -1).
Proof. vm_compute. reflexivity. Qed.

Example ex_i8_cell_sign_extended :
  loom_step I8 (into_u64 I8 0) (NRmw FSub 1) = (18446744073709551615, NRVal 0).
Proof. vm_compute. reflexivity. Qed.

(* u8: 0.fetch_sub(1) = 255, then 255 + 1 = 0 *)
Example ex_u8_sub_underflow :
  loom_run U8 0 [NRmw FSub 1; NRmw FAdd 1; NLoad] = ([NRVal 0; NRVal 255; NRVal 0], 0).
Proof. vm_compute. reflexivity. Qed.

(* i16: !(0x7fff & -1) = -32768 ; !(-32768 & -32768) = 32767 *)
Example ex_i16_nand :
  loom_run I16 32767 [NRmw FNand (-1); NRmw FNand (-32768); NIntoInner]
  = ([NRVal 32767; NRVal (-32768); NRVal 32767], 32767).
Proof. vm_compute. reflexivity. Qed.

(* u16: !(0x00ff & 0x0f0f) = 0xfff0 *)
Example ex_u16_nand :
  loom_run U16 255 [NRmw FNand 3855] = ([NRVal 255], 65520).
Proof. vm_compute. reflexivity. Qed.

(* i32: max/min are signed comparisons, not comparisons of the u64 cells *)
Example ex_i32_max_min_negative :
  loom_run I32 (-5) [NRmw FMax (-7); NRmw FMax (-2); NRmw FMin (-2147483648); NRmw FMax 3]
  = ([NRVal (-5); NRVal (-5); NRVal (-2); NRVal (-2147483648)], 3).
Proof. vm_compute. reflexivity. Qed.

(* i64 / u64 at the 64-bit boundary *)
Example ex_i64_add_overflow :
  loom_run I64 9223372036854775807 [NRmw FAdd 1; NRmw FXor (-1)]
  = ([NRVal 9223372036854775807; NRVal (-9223372036854775808)], 9223372036854775807).
Proof. vm_compute. reflexivity. Qed.

Example ex_u64_add_overflow :
  loom_run U64 18446744073709551615 [NRmw FAdd 2; NRmw FSub 2]
  = ([NRVal 18446744073709551615; NRVal 1], 18446744073709551615).
Proof. vm_compute. reflexivity. Qed.

(* bool: nand, xor *)
Example ex_bool_nand :
  loom_run TBool 1 [NRmw FNand 1; NRmw FNand 1; NRmw FXor 1; NRmw FOr 0; NRmw FAnd 1]
  = ([NRVal 1; NRVal 0; NRVal 1; NRVal 0; NRVal 0], 0).
Proof. vm_compute. reflexivity. Qed.

(* compare_exchange on a negative value; failure leaves the cell alone *)
Example ex_i8_cas :
  loom_run I8 (-1) [NCas 127 0; NCas (-1) (-128); NCasWeak (-1) 5; NCompareAndSwap (-128) 7;
                    NFetchUpdate FAdd 121; NFetchUpdateNone; NWithMut (-3); NUnsyncLoad]
  = ([NRErr (-1); NROk (-1); NRErr (-128); NRVal (-128);
      NROk 7; NRErr (-128); NRVal (-128); NRVal (-3)], -3).
Proof. vm_compute. reflexivity. Qed.

(* the same programs on the std side *)
Example ex_std_agree :
  std_run I8 (-1) [NCas 127 0; NCas (-1) (-128); NCasWeak (-1) 5; NCompareAndSwap (-128) 7;
                   NFetchUpdate FAdd 121; NFetchUpdateNone; NWithMut (-3); NUnsyncLoad]
  = ([NRErr (-1); NROk (-1); NRErr (-128); NRVal (-128);
      NROk 7; NRErr (-128); NRVal (-128); NRVal (-3)], -3).
Proof. vm_compute. reflexivity. Qed.

Print Assumptions num_roundtrip.
Print Assumptions std_step_in_range.
Print Assumptions loom_step_matches_std.
Print Assumptions atomic_matches_std.
