(* Extraction of the executable model for the OCaml driver.
   Only ExtrOcamlBasic's Extract Inductive directives (bool, option, unit,
   list, prod, sumbool, sumor); nat, N, positive stay inductive types;
   no Extract Constant. *)
Require Import LV.Base LV.VV LV.Path LV.Prog LV.Objects LV.Exec LV.Atomic LV.Ops LV.Check LV.Ref LV.Num LV.RC11.
Require Extraction.
Require Import ExtrOcamlBasic.
Extraction Language OCaml.
Extraction "../ocaml/loom_model.ml"
  check check_from iteration init_exec initial_path step
  branch_thread push_load branch_load branch_spurious backtrack
  explore_state critical skip_branch path_new
  vv_join vv_le vv_lt vv_pcmp apply_rmw
  ref_outcomes ref_outcomes_regions ref_outcomes_bounded loom_run std_run op_ok in_range rc11_outcomes rc11_enough_fuel.
