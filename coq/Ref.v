(* R_sc : the reference semantics of the program language. Plain interleaving
   semantics with sequentially consistent atomics, written independently of
   the model of loom (it shares only the syntax in Prog.v and the result
   type). It is the specification against which outcome sets are compared:
   which results, deadlocks, leaks and panics a program CAN produce.
   Definitions only. *)
Require Import LV.Base LV.Prog LV.Exec.

Inductive rstatus :=
  | RNotStarted | RReady
  | RWaitCv (c m : nat)      (* inside Condvar::wait, in the waiter queue *)
  | RReacq (c m : nat)       (* notified, must re-acquire the mutex *)
  | RInNotify (n : nat)      (* inside Notify::wait *)
  | RBoWait                  (* block_on returned Pending: waiting for a wake-up *)
  | RDone.

Record rthread := mkRT {
  r_status : rstatus;
  r_code : list instr;
  r_pc : nat;
  r_token : bool;                         (* park token *)
  r_guards : list (gkind * nat);
  r_log : list (nat * result);            (* newest first *)
  r_woken : bool;                         (* a wake-up arrived for the pending block_on *)
  r_bospur : bool;                        (* the pending block_on used its spurious return *)
  r_waker : option nat;                   (* this thread was handed a waker of that thread's block_on *)
  r_noinit : list nat;                    (* weak mode: atomics whose initial value this thread can no longer
                                             read (a store to it happens-before the thread: its own store, or
                                             a store made before a wake-up it has consumed) *)
  r_wakeview : list nat;                  (* what the pending wake-ups carry *)
  r_afail : bool                          (* the await loop at the current pc has already failed a poll *)
}.

Record robj := mkRO {
  ro_val : N;                  (* atomic / cell content *)
  ro_owner : option nat;       (* mutex owner / rwlock writer *)
  ro_readers : list nat;       (* rwlock readers (with multiplicity) *)
  ro_waiters : list nat;       (* condvar FIFO *)
  ro_flag : bool;              (* Notify: pending notification *)
  ro_spur : bool;              (* Notify: the one spurious return already used *)
  ro_waiting : bool;           (* Notify: a thread is inside wait *)
  ro_q : list N;               (* channel content *)
  ro_rx : bool;                (* receiver alive *)
  ro_cnt : nat;                (* Arc strong count *)
  ro_slots : list bool;        (* Arc handles *)
  ro_live : bool;              (* Track: value not yet dropped *)
  ro_hist : list N             (* atomic: every value stored so far (weak mode) *)
}.

Record rstate := mkRS { rs_threads : list rthread; rs_objs : list robj; rs_decls : list decl; rs_weak : bool;
                        rs_atomic : bool;            (* stop_exploring .. explore regions run without interference *)
                        rs_region : option nat;      (* the thread inside such a region *)
                        rs_budget : option nat;      (* preemptions still allowed (None = any number) *)
                        rs_last : option nat }.      (* the thread that made the last step *)

Definition robj_of_decl (d : decl) : robj :=
  match d with
  | DAtomic v => mkRO v None [] [] false false false [] false 0 [] false [v]
  | DChan => mkRO 0%N None [] [] false false false [] true 0 [] false []
  | DArc => mkRO 0%N None [] [] false false false [] false 1 (true :: repeat false 7) false []
  | DTrack => mkRO 0%N None [] [] false false false [] false 0 [] true []
  | _ => mkRO 0%N None [] [] false false false [] false 0 [] false []
  end.

Definition rinit (weak : bool) (p : prog) : rstate :=
  mkRS (mapi (fun b code => mkRT (if Nat.eqb b 0 then RReady else RNotStarted) code 0 false [] [] false false None [] [] false)
             (p_bodies p))
       (map robj_of_decl (p_decls p)) (p_decls p) weak false None None None.

Definition ro_default : robj := mkRO 0%N None [] [] false false false [] false 0 [] false [].
Definition rt_default : rthread := mkRT RDone [] 0 false [] [] false false None [] [] false.
Definition robj_get (s : rstate) (i : nat) : robj := nth i (rs_objs s) ro_default.
Definition rth_get (s : rstate) (i : nat) : rthread := nth i (rs_threads s) rt_default.

Definition set_obj (s : rstate) (i : nat) (o : robj) : rstate :=
  mkRS (rs_threads s) (list_set (rs_objs s) i o) (rs_decls s) (rs_weak s) (rs_atomic s) (rs_region s) (rs_budget s) (rs_last s).
Definition set_th (s : rstate) (i : nat) (t : rthread) : rstate :=
  mkRS (list_set (rs_threads s) i t) (rs_objs s) (rs_decls s) (rs_weak s) (rs_atomic s) (rs_region s) (rs_budget s) (rs_last s).
Definition set_region (s : rstate) (r : option nat) : rstate :=
  mkRS (rs_threads s) (rs_objs s) (rs_decls s) (rs_weak s) (rs_atomic s) r (rs_budget s) (rs_last s).
Definition set_sched (s : rstate) (b : option nat) (l : option nat) : rstate :=
  mkRS (rs_threads s) (rs_objs s) (rs_decls s) (rs_weak s) (rs_atomic s) (rs_region s) b l.

Definition ro_with_val (o : robj) v := mkRO v (ro_owner o) (ro_readers o) (ro_waiters o) (ro_flag o) (ro_spur o) (ro_waiting o) (ro_q o) (ro_rx o) (ro_cnt o) (ro_slots o) (ro_live o) (if existsb (N.eqb v) (tl (ro_hist o)) then ro_hist o else ro_hist o ++ [v]).
Definition ro_with_owner (o : robj) w := mkRO (ro_val o) w (ro_readers o) (ro_waiters o) (ro_flag o) (ro_spur o) (ro_waiting o) (ro_q o) (ro_rx o) (ro_cnt o) (ro_slots o) (ro_live o) (ro_hist o).
Definition ro_with_readers (o : robj) r := mkRO (ro_val o) (ro_owner o) r (ro_waiters o) (ro_flag o) (ro_spur o) (ro_waiting o) (ro_q o) (ro_rx o) (ro_cnt o) (ro_slots o) (ro_live o) (ro_hist o).
Definition ro_with_waiters (o : robj) w := mkRO (ro_val o) (ro_owner o) (ro_readers o) w (ro_flag o) (ro_spur o) (ro_waiting o) (ro_q o) (ro_rx o) (ro_cnt o) (ro_slots o) (ro_live o) (ro_hist o).
Definition ro_with_notify (o : robj) f sp wt := mkRO (ro_val o) (ro_owner o) (ro_readers o) (ro_waiters o) f sp wt (ro_q o) (ro_rx o) (ro_cnt o) (ro_slots o) (ro_live o) (ro_hist o).
Definition ro_with_q (o : robj) q rx := mkRO (ro_val o) (ro_owner o) (ro_readers o) (ro_waiters o) (ro_flag o) (ro_spur o) (ro_waiting o) q rx (ro_cnt o) (ro_slots o) (ro_live o) (ro_hist o).
Definition ro_with_arc (o : robj) c sl := mkRO (ro_val o) (ro_owner o) (ro_readers o) (ro_waiters o) (ro_flag o) (ro_spur o) (ro_waiting o) (ro_q o) (ro_rx o) c sl (ro_live o) (ro_hist o).
Definition ro_with_live (o : robj) b := mkRO (ro_val o) (ro_owner o) (ro_readers o) (ro_waiters o) (ro_flag o) (ro_spur o) (ro_waiting o) (ro_q o) (ro_rx o) (ro_cnt o) (ro_slots o) b (ro_hist o).

Definition rt_with_status (t : rthread) st := mkRT st (r_code t) (r_pc t) (r_token t) (r_guards t) (r_log t) (r_woken t) (r_bospur t) (r_waker t) (r_noinit t) (r_wakeview t) (r_afail t).
Definition rt_with_token (t : rthread) b := mkRT (r_status t) (r_code t) (r_pc t) b (r_guards t) (r_log t) (r_woken t) (r_bospur t) (r_waker t) (r_noinit t) (r_wakeview t) (r_afail t).
Definition rt_with_guards (t : rthread) g := mkRT (r_status t) (r_code t) (r_pc t) (r_token t) g (r_log t) (r_woken t) (r_bospur t) (r_waker t) (r_noinit t) (r_wakeview t) (r_afail t).
Definition rt_with_bo (t : rthread) st w sp := mkRT st (r_code t) (r_pc t) (r_token t) (r_guards t) (r_log t) w sp (r_waker t) (r_noinit t) (r_wakeview t) (r_afail t).
Definition rt_with_waker (t : rthread) w := mkRT (r_status t) (r_code t) (r_pc t) (r_token t) (r_guards t) (r_log t) (r_woken t) (r_bospur t) w (r_noinit t) (r_wakeview t) (r_afail t).
Definition rt_with_views (t : rthread) ni wv := mkRT (r_status t) (r_code t) (r_pc t) (r_token t) (r_guards t) (r_log t) (r_woken t) (r_bospur t) (r_waker t) ni wv (r_afail t).
Definition rt_with_afail (t : rthread) b := mkRT (r_status t) (r_code t) (r_pc t) (r_token t) (r_guards t) (r_log t) (r_woken t) (r_bospur t) (r_waker t) (r_noinit t) (r_wakeview t) b.
Fixpoint nunion (a b : list nat) : list nat :=
  match a with
  | [] => b
  | x :: a' => if existsb (Nat.eqb x) b then nunion a' b else nunion a' (b ++ [x])
  end.
Definition rt_add_noinit (t : rthread) (a : nat) := rt_with_views t (nunion [a] (r_noinit t)) (r_wakeview t).

(* finish the current instruction of thread [t] with result [r] *)
Definition rt_advance (t : rthread) (r : result) : rthread :=
  let code := tl (r_code t) in
  mkRT (match code with [] => RDone | _ => RReady end) code (S (r_pc t)) (r_token t) (r_guards t)
       ((r_pc t, r) :: r_log t) false false (r_waker t) (r_noinit t) (r_wakeview t) false.

(* the values a load of atomic [a] by thread [t] may return *)
Definition reads_of (weak : bool) (t : rthread) (o : robj) (a : nat) : list N :=
  if weak
  then if existsb (Nat.eqb a) (r_noinit t) then tl (ro_hist o) else ro_hist o
  else [ro_val o].

Definition has_guard (t : rthread) (k : gkind) (m : nat) : bool :=
  existsb (fun g => gkind_eqb (fst g) k && Nat.eqb (snd g) m) (r_guards t).

Fixpoint remove_last (g : list (gkind * nat)) (k : gkind) (m : nat) : option (list (gkind * nat)) :=
  match g with
  | [] => None
  | (k', m') :: t =>
      match remove_last t k m with
      | Some t' => Some ((k', m') :: t')
      | None => if gkind_eqb k k' && Nat.eqb m m' then Some t else None
      end
  end.
Definition del_guard (t : rthread) (k : gkind) (m : nat) : rthread :=
  match remove_last (r_guards t) k m with Some g => rt_with_guards t g | None => t end.
Definition add_guard (t : rthread) (k : gkind) (m : nat) : rthread :=
  rt_with_guards t (r_guards t ++ [(k, m)]).

Fixpoint remove_one (x : nat) (l : list nat) : list nat :=
  match l with
  | [] => []
  | h :: t => if Nat.eqb h x then t else h :: remove_one x t
  end.

Inductive rres :=
  | RDisabled                       (* the thread cannot take a step now *)
  | RNext (succ : list rstate)      (* the possible successor states *)
  | RPanic.                         (* the step panics (user panic, API misuse) *)

Definition done1 (s : rstate) (tid : nat) (t : rthread) (r : result) : rres :=
  RNext [set_th s tid (rt_advance t r)].

(* threads of a finished body release their guards in reverse order; in R a
   thread is Done only when its code is exhausted, and generators release
   guards explicitly, so nothing is needed here. *)

Definition rstep (s : rstate) (tid : nat) : rres :=
  let t := rth_get s tid in
  match r_status t with
  | RNotStarted | RDone => RDisabled
  | RWaitCv _ _ => RDisabled
  | RBoWait =>
      (* polled again after a wake-up, or once spuriously *)
      (if r_woken t then RNext [set_th s tid (rt_with_views (rt_with_bo t RReady false (r_bospur t))
                                                              (nunion (r_wakeview t) (r_noinit t)) [])]
       else if r_bospur t then RDisabled
       else RNext [set_th s tid (rt_with_bo t RReady false true)])
  | RInNotify n =>
      (* returns when the flag is set, consuming it *)
      let o := robj_get s n in
      if ro_flag o
      then RNext [set_th (set_obj s n (ro_with_notify o false (ro_spur o) false)) tid
                         (rt_advance (rt_with_status t RReady) RUnit)]
      else RDisabled
  | RReacq c m =>
      let o := robj_get s m in
      match ro_owner o with
      | Some _ => RDisabled
      | None => done1 (set_obj s m (ro_with_owner o (Some tid))) tid t RUnit
      end
  | RReady =>
      match r_code t with
      | [] => RDisabled
      | i :: _ =>
          match i with
          | ISpawn b =>
              let c := rth_get s b in
              match r_status c with
              | RNotStarted =>
                  let c' := rt_with_status c (match r_code c with [] => RDone | _ => RReady end) in
                  done1 (set_th s b c') tid t RUnit
              | _ => RPanic
              end
          | IJoin b =>
              match r_status (rth_get s b) with
              | RDone => done1 s tid t RUnit
              | _ => RDisabled
              end
          | ILoad a _ =>
              if rs_weak s
              then RNext (map (fun v => set_th s tid (rt_advance t (RVal v))) (reads_of true t (robj_get s a) a))
              else done1 s tid t (RVal (ro_val (robj_get s a)))
          | IStore a v _ => done1 (set_obj s a (ro_with_val (robj_get s a) v)) tid (rt_add_noinit t a) RUnit
          | IRmw a f v _ =>
              let o := robj_get s a in
              let reads := reads_of (rs_weak s) t o a in
              RNext (map (fun x => set_th (set_obj s a (ro_with_val o (apply_rmw f x v))) tid
                                          (rt_advance (rt_add_noinit t a) (RVal x))) reads)
          | ICas a ex nw _ _ =>
              let o := robj_get s a in
              let reads := reads_of (rs_weak s) t o a in
              RNext (map (fun x =>
                            if N.eqb x ex
                            then set_th (set_obj s a (ro_with_val o nw)) tid (rt_advance (rt_add_noinit t a) (ROk x))
                            else set_th s tid (rt_advance t (RErr x))) reads)
          | IFetchUpdate a f v _ _ =>
              let o := robj_get s a in
              let reads := reads_of (rs_weak s) t o a in
              RNext (map (fun x => set_th (set_obj s a (ro_with_val o (apply_rmw f x v))) tid
                                          (rt_advance (rt_add_noinit t a) (ROk x))) reads)
          | IFence Relaxed => RPanic
          | IFence _ => done1 s tid t RUnit
          | ILock m =>
              let o := robj_get s m in
              match ro_owner o with
              | Some _ => RDisabled
              | None => done1 (set_obj s m (ro_with_owner o (Some tid))) tid (add_guard t GMutex m) RUnit
              end
          | ITryLock m =>
              let o := robj_get s m in
              match ro_owner o with
              | Some _ => done1 s tid t (RBool false)
              | None => done1 (set_obj s m (ro_with_owner o (Some tid))) tid (add_guard t GMutex m) (RBool true)
              end
          | IUnlock m =>
              if has_guard t GMutex m
              then done1 (set_obj s m (ro_with_owner (robj_get s m) None)) tid (del_guard t GMutex m) RUnit
              else done1 s tid t RX
          | IRead r =>
              let o := robj_get s r in
              match ro_owner o with
              | Some _ => RDisabled
              | None => done1 (set_obj s r (ro_with_readers o (tid :: ro_readers o))) tid (add_guard t GRead r) RUnit
              end
          | ITryRead r =>
              let o := robj_get s r in
              match ro_owner o with
              | Some _ => done1 s tid t (RBool false)
              | None => done1 (set_obj s r (ro_with_readers o (tid :: ro_readers o))) tid (add_guard t GRead r) (RBool true)
              end
          | IWrite r =>
              let o := robj_get s r in
              match ro_owner o, ro_readers o with
              | None, [] => done1 (set_obj s r (ro_with_owner o (Some tid))) tid (add_guard t GWrite r) RUnit
              | _, _ => RDisabled
              end
          | ITryWrite r =>
              let o := robj_get s r in
              match ro_owner o, ro_readers o with
              | None, [] => done1 (set_obj s r (ro_with_owner o (Some tid))) tid (add_guard t GWrite r) (RBool true)
              | _, _ => done1 s tid t (RBool false)
              end
          | IUnread r =>
              if has_guard t GRead r
              then let o := robj_get s r in
                   done1 (set_obj s r (ro_with_readers o (remove_one tid (ro_readers o)))) tid (del_guard t GRead r) RUnit
              else done1 s tid t RX
          | IUnwrite r =>
              if has_guard t GWrite r
              then done1 (set_obj s r (ro_with_owner (robj_get s r) None)) tid (del_guard t GWrite r) RUnit
              else done1 s tid t RX
          | IWait c m =>
              if has_guard t GMutex m
              then
                let om := robj_get s m in
                let oc := robj_get s c in
                let s := set_obj s m (ro_with_owner om None) in
                let s := set_obj s c (ro_with_waiters oc (ro_waiters oc ++ [tid])) in
                RNext [set_th s tid (rt_with_status t (RWaitCv c m))]
              else done1 s tid t RX
          | INotifyOne c =>
              let oc := robj_get s c in
              match ro_waiters oc with
              | [] => done1 s tid t RUnit
              | w :: rest =>
                  let s := set_obj s c (ro_with_waiters oc rest) in
                  let wt := rth_get s w in
                  let s := match r_status wt with
                           | RWaitCv c' m' => set_th s w (rt_with_status wt (RReacq c' m'))
                           | _ => s
                           end in
                  done1 s tid t RUnit
              end
          | INotifyAll c =>
              let oc := robj_get s c in
              let s := set_obj s c (ro_with_waiters oc []) in
              let s := fold_left
                         (fun s w =>
                            let wt := rth_get s w in
                            match r_status wt with
                            | RWaitCv c' m' => set_th s w (rt_with_status wt (RReacq c' m'))
                            | _ => s
                            end)
                         (ro_waiters oc) s in
              done1 s tid t RUnit
          | INWait n =>
              (* entering marks the Notify as having a waiter; a second
                 concurrent waiter is an API misuse and panics. The one spurious
                 return that is modelled per Notify is a possibility, not a
                 guarantee: it is decided here, on entry. *)
              let o := robj_get s n in
              if ro_waiting o then RPanic
              else
                let enter := set_th (set_obj s n (ro_with_notify o (ro_flag o) (ro_spur o) true)) tid
                                    (rt_with_status t (RInNotify n)) in
                let spur :=
                  if ro_spur o then []
                  else [set_th (set_obj s n (ro_with_notify o (ro_flag o) true false)) tid
                               (rt_advance t RUnit)] in
                RNext (enter :: spur)
          | INNotify n =>
              let o := robj_get s n in
              done1 (set_obj s n (ro_with_notify o true (ro_spur o) (ro_waiting o))) tid t RUnit
          | IPark =>
              if r_token t then done1 s tid (rt_with_token t false) RUnit else RDisabled
          | IUnpark b =>
              let c := rth_get s b in
              match r_status c with
              | RNotStarted => RPanic
              | RDone => done1 s tid t RUnit
              | _ =>
                  if Nat.eqb b tid then done1 s tid (rt_with_token t true) RUnit
                  else done1 (set_th s b (rt_with_token c true)) tid t RUnit
              end
          | ISend h v =>
              let o := robj_get s h in
              if ro_rx o then done1 (set_obj s h (ro_with_q o (ro_q o ++ [v]) true)) tid t RUnit
              else done1 s tid t RDisc
          | IRecv h =>
              let o := robj_get s h in
              if negb (ro_rx o) then done1 s tid t RX
              else match ro_q o with
                   | [] => RDisabled
                   | v :: q => done1 (set_obj s h (ro_with_q o q true)) tid t (RVal v)
                   end
          | ITryRecv h =>
              let o := robj_get s h in
              if negb (ro_rx o) then done1 s tid t RX
              else match ro_q o with
                   | [] => done1 s tid t REmpty
                   | v :: q => done1 (set_obj s h (ro_with_q o q true)) tid t (RVal v)
                   end
          | IDropRx h =>
              let o := robj_get s h in
              if ro_rx o then done1 (set_obj s h (ro_with_q o [] false)) tid t RUnit
              else done1 s tid t RX
          | ICellRead u => done1 s tid t (RVal (ro_val (robj_get s u)))
          | ICellWrite u =>
              done1 (set_obj s u (ro_with_val (robj_get s u) (N.of_nat (tid * 100 + r_pc t + 1)))) tid t RUnit
          | ICellNested u k => if Nat.eqb k 3 then done1 s tid t (RVal (ro_val (robj_get s u))) else RPanic
          | IYield => done1 s tid t RUnit
          | IAwait a v _ =>
              (* a blocking read: every unsuccessful poll is recorded by the
                 implementation; R records only the successful one (the
                 comparison drops unsuccessful polls) *)
              (* ... except for ONE bit: whether some poll failed before the successful one
                 (ROk v) or not (RVal v). A poll can fail whenever a value other than v is
                 readable. *)
              let rd := reads_of (rs_weak s) t (robj_get s a) a in
              let succ := if existsb (N.eqb v) rd
                          then [set_th s tid (rt_advance t (if r_afail t then ROk v else RVal v))] else [] in
              let fail := if negb (r_afail t) && existsb (fun x => negb (N.eqb x v)) rd
                          then [set_th s tid (rt_with_afail t true)] else [] in
              match succ ++ fail with
              | [] => RDisabled
              | l => RNext l
              end
          | IUnsyncLoad a => done1 s tid t (RVal (ro_val (robj_get s a)))
          | IWithMut a v =>
              let o := robj_get s a in
              done1 (set_obj s a (ro_with_val o v)) tid t (RVal (ro_val o))
          | IArcClone k i j =>
              let o := robj_get s k in
              if nth i (ro_slots o) false
              then done1 (set_obj s k (ro_with_arc o (S (ro_cnt o)) (list_set (ro_slots o) j true))) tid t RUnit
              else done1 s tid t RX
          | IArcDrop k i =>
              let o := robj_get s k in
              if nth i (ro_slots o) false
              then done1 (set_obj s k (ro_with_arc o (ro_cnt o - 1) (list_set (ro_slots o) i false))) tid t
                         (if Nat.eqb (ro_cnt o - 1) 0 then RVal 1 else RUnit)
              else done1 s tid t RX
          | IArcCount k i =>
              let o := robj_get s k in
              if nth i (ro_slots o) false then done1 s tid t (RVal (N.of_nat (ro_cnt o)))
              else done1 s tid t RX
          | IArcGetMut k i =>
              let o := robj_get s k in
              if nth i (ro_slots o) false then done1 s tid t (RBool (Nat.eqb (ro_cnt o) 1))
              else done1 s tid t RX
          | IArcTryUnwrap k i =>
              let o := robj_get s k in
              if nth i (ro_slots o) false
              then if Nat.eqb (ro_cnt o) 1
                   then done1 (set_obj s k (ro_with_arc o 0 (list_set (ro_slots o) i false))) tid t (RBool true)
                   else done1 s tid t (RBool false)
              else done1 s tid t RX
          | ITrackDrop k =>
              let o := robj_get s k in
              if ro_live o then done1 (set_obj s k (ro_with_live o false)) tid t RUnit
              else done1 s tid t RX
          | IBlockOn a v w =>
              (* poll: ready if the awaited value can be read; otherwise register the waker
                 with the AtomicWaker, look again, and wait. The AtomicWaker's lock orders the
                 registration after every earlier wake() / take_waker(): in weak mode the task
                 acquires what those had released (kept in ro_readers of the AtomicWaker as a
                 set of atomics whose initial value is no longer readable). *)
              let o := robj_get s a in
              let ow := robj_get s w in
              let t1 := rt_with_views t (nunion (ro_readers ow) (r_noinit t)) (r_wakeview t) in
              let can_ready := existsb (N.eqb v) (reads_of (rs_weak s) t o a) in
              let can_pending := existsb (fun x => negb (N.eqb x v)) (reads_of (rs_weak s) t o a) in
              let can_ready2 := existsb (N.eqb v) (reads_of (rs_weak s) t1 o a) in
              let can_pending2 := existsb (fun x => negb (N.eqb x v)) (reads_of (rs_weak s) t1 o a) in
              let registered := set_obj s w (ro_with_owner ow (Some tid)) in
              let ready := if can_ready then [set_th s tid (rt_advance t RUnit)] else [] in
              let pending :=
                if can_pending && can_pending2
                then [set_th registered tid (rt_with_status t1 RBoWait)]
                else [] in
              (* the second look succeeds: Ready, but the waker stays registered (weak mode: the two
                 looks may read different stores; with SC atomics the poll is one step) *)
              let late_ready :=
                if rs_weak s && can_pending && can_ready2
                then [set_th registered tid (rt_advance t1 RUnit)]
                else [] in
              RNext (ready ++ pending ++ late_ready)
          | IWake w =>
              let ow := robj_get s w in
              let ow := if rs_weak s then ro_with_readers ow (nunion (r_noinit t) (ro_readers ow)) else ow in
              let s := set_obj s w ow in
              match ro_owner ow with
              | Some wt =>
                  let s := set_obj s w (ro_with_owner ow None) in
                  let tw := rth_get s wt in
                  let s := set_th s wt (rt_with_views (rt_with_bo tw (r_status tw) true (r_bospur tw))
                                                      (r_noinit tw) (nunion (r_noinit t) (r_wakeview tw))) in
                  done1 s tid (rth_get s tid) RUnit
              | None => done1 s tid t RUnit
              end
          | ITakeWaker w =>
              let ow := robj_get s w in
              let ow := if rs_weak s then ro_with_readers ow (nunion (r_noinit t) (ro_readers ow)) else ow in
              let s := set_obj s w ow in
              match ro_owner ow with
              | Some _ => done1 (set_obj s w (ro_with_owner ow None)) tid t (RVal 1)
              | None => done1 s tid t (RVal 0)
              end
          | IBlockOnS a v b1 b2 =>
              (* as IBlockOn; the first Pending poll starts b1 and b2, each holding one waker *)
              let o := robj_get s a in
              let can_ready := existsb (N.eqb v) (reads_of (rs_weak s) t o a) in
              let can_pending := existsb (fun x => negb (N.eqb x v)) (reads_of (rs_weak s) t o a) in
              let ready := if can_ready then [set_th s tid (rt_advance t RUnit)] else [] in
              let start (s : rstate) (b : nat) : rstate :=
                match b with
                | 0 => s
                | _ => let c := rth_get s b in
                       match r_status c with
                       | RNotStarted =>
                           set_th s b (rt_with_waker
                                         (rt_with_status c (match r_code c with [] => RDone | _ => RReady end))
                                         (Some tid))
                       | _ => s
                       end
                end in
              let pending :=
                if can_pending
                then let s1 := start (start s b1) b2 in
                     [set_th s1 tid (rt_with_status (rth_get s1 tid) RBoWait)]
                else [] in
              RNext (ready ++ pending)
          | IWakeMine =>
              match r_waker t with
              | Some wt =>
                  let tw := rth_get s wt in
                  let s := set_th s wt (rt_with_views (rt_with_bo tw (r_status tw) true (r_bospur tw))
                                                      (r_noinit tw) (nunion (r_noinit t) (r_wakeview tw))) in
                  done1 s tid (rt_with_waker (rth_get s tid) None) (RVal 1)
              | None => done1 s tid t (RVal 0)
              end
          | ITlsWith _ => done1 s tid t RUnit
          | ILazyGet k => done1 s tid t (RVal (N.of_nat (41 + k)))
          | IPanic => RPanic
          | IStopExploring => done1 (if rs_atomic s then set_region s (Some tid) else s) tid t RUnit
          | IExplore => done1 (set_region s None) tid t RUnit
          | ISkipBranch => done1 s tid t RUnit
          end
      end
  end.

(* ---- outcomes ---- *)
Inductive rleak := RLArc | RLAlloc | RLMsgs.

Inductive routcome :=
  | OFinished (logs : list (list (nat * result))) (leak : option (rleak * nat))
  | ODeadlock
  | OPanic
  | OFuel.

Definition all_done (s : rstate) : bool :=
  forallb (fun t => match r_status t with RDone | RNotStarted => true | _ => false end) (rs_threads s).

Fixpoint first_leak_from (i : nat) (ds : list decl) (os : list robj) : option (rleak * nat) :=
  match ds, os with
  | d :: ds', o :: os' =>
      let here :=
        match d with
        | DArc => if Nat.eqb (ro_cnt o) 0 then None else Some (RLArc, i)
        | DTrack => if ro_live o then Some (RLAlloc, i) else None
        | DChan => match ro_q o with [] => None | _ => Some (RLMsgs, i) end
        | _ => None
        end in
      match here with Some l => Some l | None => first_leak_from (S i) ds' os' end
  | _, _ => None
  end.

Definition final_outcome (s : rstate) : routcome :=
  OFinished (map (fun t => rev (r_log t)) (rs_threads s))
            (first_leak_from 0 (rs_decls s) (rs_objs s)).

(* a step of thread [t] is a preemption when the thread that made the previous step could go on *)
Definition step_cost (s : rstate) (t : nat) : nat :=
  match rs_last s with
  | Some u => if Nat.eqb u t then 0
              else match rstep s u with RDisabled => 0 | _ => 1 end
  | None => 0
  end.

(* successors of [s] over all threads; [any_panic] is set if some enabled step panics.
   With a preemption budget, steps that would exceed it are not taken. *)
Fixpoint moves (s : rstate) (tids : list nat) : list rstate * bool :=
  match tids with
  | [] => ([], false)
  | t :: rest =>
      let '(l, p) := moves s rest in
      let cost := step_cost s t in
      let afford := match rs_budget s with Some b => Nat.leb cost b | None => true end in
      if negb afford then (l, p)
      else
        let b' := match rs_budget s with Some b => Some (b - cost) | None => None end in
        match rstep s t with
        | RDisabled => (l, p)
        | RNext succ => (map (fun s' => set_sched s' b' (Some t)) succ ++ l, p)
        | RPanic => (l, true)
        end
  end.

(* all outcomes reachable from [s] (with repetitions) *)
Fixpoint renum (fuel : nat) (s : rstate) : list routcome :=
  match fuel with
  | 0 => [OFuel]
  | S f =>
      let tids := match rs_region s with
                  | Some t => match rstep s t with RDisabled => seq 0 (length (rs_threads s)) | _ => [t] end
                  | None => seq 0 (length (rs_threads s))
                  end in
      let '(succ, pan) := moves s tids in
      let here := if pan then [OPanic] else [] in
      match succ with
      | [] =>
          if pan then here
          else if all_done s then [final_outcome s] else [ODeadlock]
      | _ => here ++ flat_map (renum f) succ
      end
  end.

Definition ref_outcomes (weak : bool) (fuel : nat) (p : prog) : list routcome := renum fuel (rinit weak p).

(* the interleavings in which every stop_exploring .. explore region runs as one block (SC atomics):
   what an exploration that fixes the decisions inside the regions but still explores every decision
   outside them must at least produce *)
(* the interleavings with at most [preemption_bound (p_cfg p)] preemptions (SC atomics) *)
Definition ref_outcomes_bounded (fuel : nat) (p : prog) : list routcome :=
  let s := rinit false p in
  renum fuel (mkRS (rs_threads s) (rs_objs s) (rs_decls s) false false None
                   (preemption_bound (p_cfg p)) (Some 0)).

Definition ref_outcomes_regions (fuel : nat) (p : prog) : list routcome :=
  let s := rinit false p in
  renum fuel (mkRS (rs_threads s) (rs_objs s) (rs_decls s) false true None None None).
