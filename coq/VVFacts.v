(* Facts about the vector clocks of VV.v: the pointwise order, join as least
   upper bound, and the specifications of the derived comparison functions
   (vv_le, vv_lt, vv_eqb, vv_ahead) through vv_get.

   Deviations from the requested statements: none. Every statement is proved
   as requested (vv_get_inc_same carries the hypothesis [i < length v], which
   was already part of the request). *)
Require Import LV.Base LV.VV.
From Coq Require Import Lia.

Definition vle (a b : vv) : Prop := forall i, vv_get a i <= vv_get b i.

(* ------------------------------------------------------------------ *)
(* vv_get on constructors                                              *)

Lemma vv_get_nil : forall i, vv_get [] i = 0.
Proof. intros i. unfold vv_get. destruct i; reflexivity. Qed.

Lemma vv_get_cons_0 : forall x (v : vv), vv_get (x :: v) 0 = x.
Proof. reflexivity. Qed.

Lemma vv_get_cons_S : forall x (v : vv) i, vv_get (x :: v) (S i) = vv_get v i.
Proof. reflexivity. Qed.

Lemma vv_get_overflow : forall (v : vv) i, length v <= i -> vv_get v i = 0.
Proof. intros v i Hle. unfold vv_get. apply nth_overflow. exact Hle. Qed.

(* ------------------------------------------------------------------ *)
(* join                                                                *)

Lemma vv_get_join : forall a b i,
  vv_get (vv_join a b) i = Nat.max (vv_get a i) (vv_get b i).
Proof.
  induction a as [|x a IHa]; intros b i.
  - simpl vv_join. rewrite vv_get_nil. reflexivity.
  - destruct b as [|y b].
    + simpl vv_join. rewrite vv_get_nil. rewrite Nat.max_0_r. reflexivity.
    + simpl vv_join. destruct i as [|i].
      * reflexivity.
      * rewrite !vv_get_cons_S. apply IHa.
Qed.

Lemma vv_join_length : forall a b,
  length (vv_join a b) = Nat.max (length a) (length b).
Proof.
  induction a as [|x a IHa]; intros b.
  - reflexivity.
  - destruct b as [|y b].
    + reflexivity.
    + simpl. rewrite IHa. reflexivity.
Qed.

Lemma vv_join_comm_get : forall a b i,
  vv_get (vv_join a b) i = vv_get (vv_join b a) i.
Proof. intros a b i. rewrite !vv_get_join. apply Nat.max_comm. Qed.

Lemma vv_join_assoc_get : forall a b c i,
  vv_get (vv_join a (vv_join b c)) i = vv_get (vv_join (vv_join a b) c) i.
Proof. intros a b c i. rewrite !vv_get_join. apply Nat.max_assoc. Qed.

Lemma vv_join_idem_get : forall a i, vv_get (vv_join a a) i = vv_get a i.
Proof. intros a i. rewrite vv_get_join. apply Nat.max_id. Qed.

(* ------------------------------------------------------------------ *)
(* the pointwise order                                                 *)

Lemma vle_refl : forall a, vle a a.
Proof. intros a i. apply le_n. Qed.

Lemma vle_trans : forall a b c, vle a b -> vle b c -> vle a c.
Proof.
  intros a b c Hab Hbc i. specialize (Hab i). specialize (Hbc i). lia.
Qed.

Lemma vle_antisym_get : forall a b,
  vle a b -> vle b a -> forall i, vv_get a i = vv_get b i.
Proof.
  intros a b Hab Hba i. specialize (Hab i). specialize (Hba i). lia.
Qed.

Lemma vle_join_l : forall a b, vle a (vv_join a b).
Proof. intros a b i. rewrite vv_get_join. lia. Qed.

Lemma vle_join_r : forall a b, vle b (vv_join a b).
Proof. intros a b i. rewrite vv_get_join. lia. Qed.

Lemma vle_join_lub : forall a b c, vle a c -> vle b c -> vle (vv_join a b) c.
Proof.
  intros a b c Hac Hbc i. rewrite vv_get_join.
  specialize (Hac i). specialize (Hbc i). lia.
Qed.

Lemma vv_join_mono : forall a a' b b',
  vle a a' -> vle b b' -> vle (vv_join a b) (vv_join a' b').
Proof.
  intros a a' b b' Ha Hb i. rewrite !vv_get_join.
  specialize (Ha i). specialize (Hb i). lia.
Qed.

(* vle against a cons on the left: the workhorse for vv_ahead *)
Lemma vle_cons_l : forall y (b a : vv),
  vle (y :: b) a <-> (y <= hd 0 a /\ vle b (tl a)).
Proof.
  intros y b a. split.
  - intros H. split.
    + specialize (H 0). rewrite vv_get_cons_0 in H.
      destruct a as [|x a]; simpl; [rewrite vv_get_nil in H|rewrite vv_get_cons_0 in H]; exact H.
    + intros i. specialize (H (S i)). rewrite vv_get_cons_S in H.
      destruct a as [|x a]; simpl.
      * rewrite vv_get_nil in *. exact H.
      * rewrite vv_get_cons_S in H. exact H.
  - intros [H0 HS] i. destruct i as [|i].
    + rewrite vv_get_cons_0. destruct a as [|x a]; simpl in H0.
      * rewrite vv_get_nil. exact H0.
      * rewrite vv_get_cons_0. exact H0.
    + rewrite vv_get_cons_S. specialize (HS i). destruct a as [|x a]; simpl in HS.
      * rewrite vv_get_nil in *. exact HS.
      * rewrite vv_get_cons_S. exact HS.
Qed.

(* ------------------------------------------------------------------ *)
(* vv_zip through nth                                                  *)

Lemma vv_zip_nth : forall a b i,
  nth i (vv_zip a b) (0, 0) = (vv_get a i, vv_get b i).
Proof.
  induction a as [|x a IHa]; intros b i.
  - simpl vv_zip. rewrite vv_get_nil.
    change (0, 0) with ((fun y : nat => (0, y)) 0).
    rewrite map_nth. reflexivity.
  - destruct b as [|y b].
    + simpl vv_zip. destruct i as [|i].
      * reflexivity.
      * simpl nth at 1. rewrite IHa. rewrite vv_get_cons_S. rewrite !vv_get_nil.
        reflexivity.
    + simpl vv_zip. destruct i as [|i].
      * reflexivity.
      * simpl nth at 1. rewrite IHa. reflexivity.
Qed.

Lemma vv_zip_length : forall a b,
  length (vv_zip a b) = Nat.max (length a) (length b).
Proof.
  induction a as [|x a IHa]; intros b.
  - simpl. apply map_length.
  - destruct b as [|y b]; simpl; rewrite IHa.
    + simpl. rewrite Nat.max_0_r. reflexivity.
    + reflexivity.
Qed.

Lemma vv_zip_Forall : forall (P : nat * nat -> Prop) a b,
  P (0, 0) ->
  (Forall P (vv_zip a b) <-> forall i, P (vv_get a i, vv_get b i)).
Proof.
  intros P a b H0. split.
  - intros HF i. rewrite <- vv_zip_nth.
    destruct (Nat.lt_ge_cases i (length (vv_zip a b))) as [Hlt|Hge].
    + rewrite Forall_nth in HF. apply HF. exact Hlt.
    + rewrite nth_overflow by exact Hge. exact H0.
  - intros Hall. apply Forall_nth. intros i d Hlt.
    rewrite (nth_indep _ d (0, 0) Hlt). rewrite vv_zip_nth. apply Hall.
Qed.

Lemma vv_zip_Exists : forall (P : nat * nat -> Prop) a b,
  ~ P (0, 0) ->
  (Exists P (vv_zip a b) <-> exists i, P (vv_get a i, vv_get b i)).
Proof.
  intros P a b H0. split.
  - intros HE. apply Exists_nth in HE. destruct HE as [i [d [Hlt HP]]].
    exists i. rewrite (nth_indep _ d (0, 0) Hlt) in HP.
    rewrite vv_zip_nth in HP. exact HP.
  - intros [i HP]. rewrite <- vv_zip_nth in HP.
    destruct (Nat.lt_ge_cases i (length (vv_zip a b))) as [Hlt|Hge].
    + apply Exists_nth. exists i, (0, 0). split; assumption.
    + rewrite nth_overflow in HP by exact Hge. contradiction.
Qed.

(* ------------------------------------------------------------------ *)
(* vv_pcmp_acc, characterised by two boolean passes                     *)

Definition ple (p : nat * nat) : bool := Nat.leb (fst p) (snd p).
Definition pge (p : nat * nat) : bool := Nat.leb (snd p) (fst p).

Lemma ple_true : forall x y, x <= y -> ple (x, y) = true.
Proof. intros x y H. unfold ple. simpl. apply Nat.leb_le. exact H. Qed.
Lemma ple_false : forall x y, y < x -> ple (x, y) = false.
Proof. intros x y H. unfold ple. simpl. apply Nat.leb_gt. exact H. Qed.
Lemma pge_true : forall x y, y <= x -> pge (x, y) = true.
Proof. intros x y H. unfold pge. simpl. apply Nat.leb_le. exact H. Qed.
Lemma pge_false : forall x y, x < y -> pge (x, y) = false.
Proof. intros x y H. unfold pge. simpl. apply Nat.leb_gt. exact H. Qed.

Lemma pcmp_acc_Lt : forall l,
  vv_pcmp_acc Lt l = if forallb ple l then Some Lt else None.
Proof.
  induction l as [|[x y] l IHl].
  - reflexivity.
  - cbn [vv_pcmp_acc forallb].
    destruct (Nat.compare_spec x y) as [Heq|Hlt|Hgt].
    + rewrite ple_true by lia. cbn [andb]. exact IHl.
    + rewrite ple_true by lia. cbn [andb]. exact IHl.
    + rewrite ple_false by lia. reflexivity.
Qed.

Lemma pcmp_acc_Gt : forall l,
  vv_pcmp_acc Gt l = if forallb pge l then Some Gt else None.
Proof.
  induction l as [|[x y] l IHl].
  - reflexivity.
  - cbn [vv_pcmp_acc forallb].
    destruct (Nat.compare_spec x y) as [Heq|Hlt|Hgt].
    + rewrite pge_true by lia. cbn [andb]. exact IHl.
    + rewrite pge_false by lia. reflexivity.
    + rewrite pge_true by lia. cbn [andb]. exact IHl.
Qed.

Lemma pcmp_acc_Eq : forall l,
  vv_pcmp_acc Eq l =
  match forallb ple l, forallb pge l with
  | true, true => Some Eq
  | true, false => Some Lt
  | false, true => Some Gt
  | false, false => None
  end.
Proof.
  induction l as [|[x y] l IHl].
  - reflexivity.
  - cbn [vv_pcmp_acc forallb].
    destruct (Nat.compare_spec x y) as [Heq|Hlt|Hgt].
    + rewrite ple_true by lia. rewrite pge_true by lia. cbn [andb]. exact IHl.
    + rewrite ple_true by lia. rewrite pge_false by lia. cbn [andb].
      rewrite pcmp_acc_Lt. destruct (forallb ple l); reflexivity.
    + rewrite ple_false by lia. rewrite pge_true by lia. cbn [andb].
      rewrite pcmp_acc_Gt. destruct (forallb pge l); reflexivity.
Qed.

Lemma forallb_Forall_true : forall (f : nat * nat -> bool) l,
  forallb f l = true <-> Forall (fun p => f p = true) l.
Proof.
  intros f l. induction l as [|p l IHl].
  - simpl. split; intros _; [constructor|reflexivity].
  - simpl. rewrite andb_true_iff. rewrite IHl. split.
    + intros [Hp Hl]. constructor; assumption.
    + intros HF. inversion HF as [|p' l' Hp Hl]. subst. split; assumption.
Qed.

Lemma forallb_false_Exists : forall (f : nat * nat -> bool) l,
  forallb f l = false <-> Exists (fun p => f p = false) l.
Proof.
  intros f l. induction l as [|p l IHl].
  - simpl. split; [discriminate|]. intros HE. inversion HE.
  - simpl. rewrite andb_false_iff. rewrite IHl. split.
    + intros [Hp|Hl]; [apply Exists_cons_hd|apply Exists_cons_tl]; assumption.
    + intros HE. inversion HE as [p' l' Hp|p' l' Hl]; subst; [left|right]; assumption.
Qed.

Lemma zip_ple_vle : forall a b, forallb ple (vv_zip a b) = true <-> vle a b.
Proof.
  intros a b. rewrite forallb_Forall_true.
  rewrite (vv_zip_Forall (fun p => ple p = true) a b) by reflexivity.
  unfold vle, ple. simpl. split; intros H i; apply Nat.leb_le; apply H.
Qed.

Lemma zip_pge_vle : forall a b, forallb pge (vv_zip a b) = true <-> vle b a.
Proof.
  intros a b. rewrite forallb_Forall_true.
  rewrite (vv_zip_Forall (fun p => pge p = true) a b) by reflexivity.
  unfold vle, pge. simpl. split; intros H i; apply Nat.leb_le; apply H.
Qed.

Lemma zip_pge_false : forall a b,
  forallb pge (vv_zip a b) = false <-> exists i, vv_get a i < vv_get b i.
Proof.
  intros a b. rewrite forallb_false_Exists.
  rewrite (vv_zip_Exists (fun p => pge p = false) a b) by (unfold pge; simpl; discriminate).
  unfold pge. simpl. split; intros [i H]; exists i; apply Nat.leb_gt; exact H.
Qed.

(* ------------------------------------------------------------------ *)
(* vv_le, vv_lt, vv_eqb                                                *)

Lemma vv_le_spec : forall a b, vv_le a b = true <-> vle a b.
Proof.
  intros a b. rewrite <- zip_ple_vle. unfold vv_le, vv_pcmp.
  rewrite pcmp_acc_Eq.
  destruct (forallb ple (vv_zip a b)); destruct (forallb pge (vv_zip a b));
    split; intros H; try reflexivity; try discriminate.
Qed.

Lemma vv_lt_spec : forall a b,
  vv_lt a b = true <-> (vle a b /\ exists i, vv_get a i < vv_get b i).
Proof.
  intros a b. rewrite <- zip_ple_vle. rewrite <- zip_pge_false.
  unfold vv_lt, vv_pcmp. rewrite pcmp_acc_Eq.
  destruct (forallb ple (vv_zip a b)); destruct (forallb pge (vv_zip a b));
    split; intros H; try reflexivity; try discriminate;
    try (split; reflexivity); destruct H as [H1 H2]; discriminate.
Qed.

Lemma vv_eqb_spec : forall a b,
  vv_eqb a b = true <-> forall i, vv_get a i = vv_get b i.
Proof.
  intros a b. unfold vv_eqb. rewrite forallb_Forall_true.
  rewrite (vv_zip_Forall (fun p => Nat.eqb (fst p) (snd p) = true) a b) by reflexivity.
  simpl. split; intros H i; apply Nat.eqb_eq; apply H.
Qed.

(* ------------------------------------------------------------------ *)
(* vv_ahead                                                            *)

Lemma vv_ahead_from_none : forall b a k,
  vv_ahead_from k a b = None <-> vle b a.
Proof.
  induction b as [|y b IHb]; intros a k.
  - simpl. split; [|reflexivity]. intros _ i. rewrite vv_get_nil. lia.
  - rewrite vle_cons_l. simpl.
    replace (match a with [] => 0 | x :: _ => x end) with (hd 0 a)
      by (destruct a; reflexivity).
    replace (match a with [] => [] | _ :: s => s end) with (tl a)
      by (destruct a; reflexivity).
    destruct (Nat.ltb_spec (hd 0 a) y) as [Hlt|Hge].
    + split; [discriminate|]. intros [Hle _]. lia.
    + rewrite IHb. split.
      * intros H. split; assumption.
      * intros [_ H]. exact H.
Qed.

Lemma vv_ahead_none : forall a b, vv_ahead a b = None <-> vle b a.
Proof. intros a b. unfold vv_ahead. apply vv_ahead_from_none. Qed.

Lemma vv_ahead_from_some : forall b a k i,
  vv_ahead_from k a b = Some i ->
  exists j, i = k + j /\ vv_get a j < vv_get b j /\
            forall m, m < j -> vv_get b m <= vv_get a m.
Proof.
  induction b as [|y b IHb]; intros a k i H.
  - simpl in H. discriminate.
  - simpl in H.
    replace (match a with [] => 0 | x :: _ => x end) with (vv_get a 0) in H
      by (destruct a; reflexivity).
    destruct (Nat.ltb_spec (vv_get a 0) y) as [Hlt|Hge].
    + inversion H. subst i. exists 0. split; [lia|]. split.
      * rewrite vv_get_cons_0. exact Hlt.
      * intros m Hm. lia.
    + apply IHb in H. destruct H as [j [Hi [Hj Hbelow]]].
      assert (Htl : forall m, vv_get (match a with [] => [] | _ :: s => s end) m
                              = vv_get a (S m)).
      { intros m. destruct a as [|x a].
        - rewrite !vv_get_nil. reflexivity.
        - rewrite vv_get_cons_S. reflexivity. }
      exists (S j). split; [lia|]. split.
      * rewrite vv_get_cons_S. rewrite <- Htl. exact Hj.
      * intros m Hm. destruct m as [|m].
        -- rewrite vv_get_cons_0. exact Hge.
        -- rewrite vv_get_cons_S. rewrite <- Htl. apply Hbelow. lia.
Qed.

Lemma vv_ahead_some : forall a b i,
  vv_ahead a b = Some i ->
  vv_get a i < vv_get b i /\ forall j, j < i -> vv_get b j <= vv_get a j.
Proof.
  intros a b i H. unfold vv_ahead in H. apply vv_ahead_from_some in H.
  destruct H as [j [Hi [Hj Hbelow]]]. simpl in Hi. subst i.
  split; assumption.
Qed.

(* ------------------------------------------------------------------ *)
(* vv_inc                                                              *)

Lemma list_set_length : forall (A : Type) (l : list A) n x,
  length (list_set l n x) = length l.
Proof.
  intros A. induction l as [|h t IHt]; intros n x.
  - reflexivity.
  - destruct n as [|n]; simpl.
    + reflexivity.
    + rewrite IHt. reflexivity.
Qed.

Lemma list_set_nth_same : forall (A : Type) (l : list A) n x d,
  n < length l -> nth n (list_set l n x) d = x.
Proof.
  intros A. induction l as [|h t IHt]; intros n x d Hlt.
  - simpl in Hlt. lia.
  - destruct n as [|n]; simpl.
    + reflexivity.
    + apply IHt. simpl in Hlt. lia.
Qed.

Lemma list_set_nth_other : forall (A : Type) (l : list A) n j x d,
  n <> j -> nth j (list_set l n x) d = nth j l d.
Proof.
  intros A. induction l as [|h t IHt]; intros n j x d Hne.
  - reflexivity.
  - destruct n as [|n]; destruct j as [|j]; simpl.
    + lia.
    + reflexivity.
    + reflexivity.
    + apply IHt. lia.
Qed.

Lemma vv_inc_length : forall v i, length (vv_inc v i) = length v.
Proof.
  intros v i. unfold vv_inc, list_upd.
  destruct (nth_error v i) as [x|].
  - apply list_set_length.
  - reflexivity.
Qed.

Lemma vv_get_inc_same : forall v i,
  i < length v -> vv_get (vv_inc v i) i = S (vv_get v i).
Proof.
  intros v i Hlt. unfold vv_inc, list_upd, vv_get.
  rewrite (nth_error_nth' v 0 Hlt).
  apply list_set_nth_same. exact Hlt.
Qed.

Lemma vv_get_inc_other : forall v i j,
  i <> j -> vv_get (vv_inc v i) j = vv_get v j.
Proof.
  intros v i j Hne. unfold vv_inc, list_upd, vv_get.
  destruct (nth_error v i) as [x|].
  - apply list_set_nth_other. exact Hne.
  - reflexivity.
Qed.

Lemma vle_inc : forall v i, vle v (vv_inc v i).
Proof.
  intros v i j. destruct (Nat.eq_dec i j) as [Heq|Hne].
  - subst j. destruct (Nat.lt_ge_cases i (length v)) as [Hlt|Hge].
    + rewrite vv_get_inc_same by exact Hlt. lia.
    + rewrite (vv_get_overflow v) by exact Hge. lia.
  - rewrite vv_get_inc_other by exact Hne. lia.
Qed.

(* ------------------------------------------------------------------ *)
(* vv_new                                                              *)

Lemma nth_repeat_0 : forall n i, nth i (repeat 0 n) 0 = 0.
Proof.
  induction n as [|n IHn]; intros i.
  - destruct i; reflexivity.
  - destruct i as [|i]; simpl.
    + reflexivity.
    + apply IHn.
Qed.

Lemma vv_new_get : forall i, vv_get vv_new i = 0.
Proof. intros i. unfold vv_get, vv_new. apply nth_repeat_0. Qed.

Lemma vle_new : forall a, vle vv_new a.
Proof. intros a i. rewrite vv_new_get. lia. Qed.

Print Assumptions vv_le_spec.
Print Assumptions vv_lt_spec.
Print Assumptions vle_join_lub.
